package main

// C05: redaction. Implementation side: IRoomVersion.RedactEventJSON and PDU.Redact for all
// registered room versions on generated event texts; signatures with real ed25519 keys.

import (
	"bytes"
	"context"
	"crypto/ed25519"
	"encoding/hex"
	"encoding/json"
	"fmt"
	"sort"
	"strconv"
	"strings"
	"time"

	gmsl "github.com/matrix-org/gomatrixserverlib"
	"github.com/matrix-org/gomatrixserverlib/spec"
)

var c05Versions = []string{"1", "2", "3", "4", "5", "6", "7", "8", "9", "10", "11", "12",
	"org.matrix.msc4014", "org.matrix.msc3667", "org.matrix.msc3787", "org.matrix.hydra.11"}

func c05Impl(ver []byte) gmsl.IRoomVersion {
	v, err := gmsl.GetRoomVersion(gmsl.RoomVersion(ver))
	if err != nil {
		panic("unknown room version " + string(ver))
	}
	return v
}


func c05RedactPDU(setUnsigned bool) ImplFn {
	return func(args [][]byte) ([][]byte, []byte) {
		e, err := c05Impl(args[0]).NewEventFromTrustedJSON(args[1], false)
		if err != nil {
			return args[:2], B("parse-err: " + err.Error())
		}
		if setUnsigned {
			if e, err = e.SetUnsigned(json.RawMessage(`{"age":5,"prev_content":{"membership":"join"},"redacted_because":{"x":1}}`)); err != nil {
				return args[:2], B("set-unsigned-err: " + err.Error())
			}
		}
		typ, sender, room, id := e.Type(), e.SenderID(), e.RoomID().String(), e.EventID()
		var sk *string
		if e.StateKey() != nil {
			s := *e.StateKey()
			sk = &s
		}
		was := e.Redacted()
		e.Redact()
		var broken []string
		if was {
			broken = append(broken, "was-redacted")
		}
		if !e.Redacted() {
			broken = append(broken, "not-flagged")
		}
		if e.Type() != typ {
			broken = append(broken, "type")
		}
		if e.SenderID() != sender {
			broken = append(broken, "sender")
		}
		if e.RoomID().String() != room {
			broken = append(broken, "room")
		}
		if e.EventID() != id {
			broken = append(broken, "event-id "+id+" -> "+e.EventID())
		}
		if (sk == nil) != (e.StateKey() == nil) || sk != nil && *sk != *e.StateKey() {
			broken = append(broken, "state-key")
		}
		j1 := append([]byte{}, e.JSON()...)
		e.Redact() // second call must not change anything
		if !bytes.Equal(j1, e.JSON()) {
			broken = append(broken, "second-redact-differs")
		}
		// a fresh parse of the redacted JSON, redacted again by the algorithm, is the same text
		again, err := c05Impl(args[0]).RedactEventJSON(j1)
		if err != nil {
			broken = append(broken, "re-redact-err")
		} else if cj, err := gmsl.CanonicalJSON(again); err != nil || !bytes.Equal(cj, j1) {
			broken = append(broken, "re-redact-differs")
		}
		out := append(append(append([]byte{}, j1...), '\n'), e.Content()...)
		// every accessor after Redact(): the line the model derives from the redacted JSON ...
		out = append(out, B("\n"+c05AccessorLine(string(args[0]), e))...)
		// ... and all of them against a PDU parsed afresh from the event's own JSON()
		if fresh, err := c05Impl(args[0]).NewEventFromTrustedJSON(j1, true); err != nil {
			broken = append(broken, "own-json-unparsable")
		} else {
			a, b := c05AllAccessors(e), c05AllAccessors(fresh)
			for _, k := range c05AccessorNames {
				if a[k] != b[k] {
					broken = append(broken, fmt.Sprintf("stale-accessor %s: %s, from own JSON: %s", k, a[k], b[k]))
				}
			}
		}
		if len(broken) > 0 {
			out = append(out, B("\nBROKEN: "+strings.Join(broken, ","))...)
		}
		return args[:2], out
	}
}

// ---------------------------------------------------------------------------------------------
// a verifier that really checks ed25519 signatures against a fixed key table
type c05Verifier struct {
	keys map[string]ed25519.PublicKey // server name -> key (key id ed25519:k)
}

func (v c05Verifier) VerifyJSONs(ctx context.Context, reqs []gmsl.VerifyJSONRequest) ([]gmsl.VerifyJSONResult, error) {
	res := make([]gmsl.VerifyJSONResult, len(reqs))
	for i, r := range reqs {
		pk, ok := v.keys[string(r.ServerName)]
		if !ok {
			res[i].Error = fmt.Errorf("no key for %s", r.ServerName)
			continue
		}
		res[i].Error = gmsl.VerifyJSON(string(r.ServerName), "ed25519:k", pk, r.Message)
	}
	return res, nil
}

func c05UserID(roomID spec.RoomID, senderID spec.SenderID) (*spec.UserID, error) {
	return spec.NewUserID(string(senderID), true)
}

func c05Key(name string) ed25519.PrivateKey {
	seed := make([]byte, ed25519.SeedSize)
	copy(seed, name)
	return ed25519.NewKeyFromSeed(seed)
}

func c05Hex(s string) string { return hex.EncodeToString([]byte(s)) }

func c05HexList(l []string) string {
	r := make([]string, len(l))
	for i, x := range l {
		r[i] = c05Hex(x)
	}
	return strings.Join(r, ",")
}

// the accessors the model derives from the redacted JSON (strings in hex)
func c05AccessorLine(ver string, e gmsl.PDU) string {
	hydra := ver == "12" || ver == "org.matrix.hydra.11"
	room := "-" // v12 create events: derived from the event ID (a hash), compared elsewhere
	if !(hydra && e.Type() == "m.room.create" && e.StateKeyEquals("")) {
		room = c05Hex(e.RoomID().String())
	}
	sk := "nil"
	if e.StateKey() != nil {
		sk = c05Hex(*e.StateKey())
	}
	membership := "err"
	if m, err := e.Membership(); err == nil {
		membership = c05Hex(m)
	}
	return fmt.Sprintf("acc redacted=%v type=%s sender=%s room=%s sk=%s redacts=%s unsigned=%s depth=%d ts=%d prev=%s auth=%s membership=%s",
		e.Redacted(), c05Hex(e.Type()), c05Hex(string(e.SenderID())), room, sk, c05Hex(e.Redacts()), c05Hex(string(e.Unsigned())),
		e.Depth(), int64(e.OriginServerTS()), c05HexList(e.PrevEventIDs()), c05HexList(e.AuthEventIDs()), membership)
}

var c05AccessorNames = []string{"EventID", "StateKey", "Type", "Content", "JoinRule", "HistoryVisibility", "Membership", "PowerLevels",
	"Version", "RoomID", "Redacts", "Redacted", "PrevEventIDs", "OriginServerTS", "SenderID", "Unsigned", "Depth", "JSON", "AuthEventIDs",
	"IsSticky", "StickyEndTime", "ToHeaderedJSON"}

// every read accessor of the PDU interface, rendered
func c05AllAccessors(e gmsl.PDU) map[string]string {
	r := map[string]string{}
	try := func(name string, f func() string) {
		defer func() {
			if x := recover(); x != nil {
				r[name] = fmt.Sprintf("panic(%v)", x)
			}
		}()
		r[name] = f()
	}
	t0 := time.UnixMilli(int64(e.OriginServerTS())).Add(30 * time.Second)
	try("EventID", func() string { return e.EventID() })
	try("StateKey", func() string {
		if e.StateKey() == nil {
			return "nil"
		}
		return "=" + *e.StateKey()
	})
	try("Type", func() string { return e.Type() })
	try("Content", func() string { return string(e.Content()) })
	try("JoinRule", func() string { v, err := e.JoinRule(); return fmt.Sprintf("%q %v", v, err != nil) })
	try("HistoryVisibility", func() string { v, err := e.HistoryVisibility(); return fmt.Sprintf("%q %v", v, err != nil) })
	try("Membership", func() string { v, err := e.Membership(); return fmt.Sprintf("%q %v", v, err != nil) })
	try("PowerLevels", func() string {
		v, err := e.PowerLevels()
		if err != nil || v == nil {
			return fmt.Sprintf("nil %v", err != nil)
		}
		b, _ := json.Marshal(v)
		return string(b)
	})
	try("Version", func() string { return string(e.Version()) })
	try("RoomID", func() string { return e.RoomID().String() })
	try("Redacts", func() string { return e.Redacts() })
	try("Redacted", func() string { return fmt.Sprint(e.Redacted()) })
	try("PrevEventIDs", func() string { return fmt.Sprintf("%q", e.PrevEventIDs()) })
	try("OriginServerTS", func() string { return fmt.Sprint(int64(e.OriginServerTS())) })
	try("SenderID", func() string { return string(e.SenderID()) })
	try("Unsigned", func() string { return string(e.Unsigned()) })
	try("Depth", func() string { return fmt.Sprint(e.Depth()) })
	try("JSON", func() string { return string(e.JSON()) })
	try("AuthEventIDs", func() string { return fmt.Sprintf("%q", e.AuthEventIDs()) })
	try("IsSticky", func() string { return fmt.Sprint(e.IsSticky(t0, t0)) })
	try("StickyEndTime", func() string { return fmt.Sprint(e.StickyEndTime(t0).UnixMilli()) })
	try("ToHeaderedJSON", func() string { b, err := e.ToHeaderedJSON(); return fmt.Sprintf("%s %v", b, err != nil) })
	return r
}

func init() {
	// [ver; event text] -> library-canonicalised output | err
	RegisterImpl("C05.redact_canon", func(args [][]byte) ([][]byte, []byte) {
		out, err := c05Impl(args[0]).RedactEventJSON(args[1])
		if err != nil {
			return args[:2], B("err")
		}
		cj, err := gmsl.CanonicalJSON(out)
		if err != nil {
			return args[:2], B("canon-err")
		}
		return args[:2], cj
	})
	// [ver; event text] -> raw output | err
	RegisterImpl("C05.redact_raw", func(args [][]byte) ([][]byte, []byte) {
		out, err := c05Impl(args[0]).RedactEventJSON(args[1])
		if err != nil {
			return args[:2], B("err")
		}
		return args[:2], out
	})
	// [ver; event text (a PDU that NewEventFromTrustedJSON accepts)] -> JSON() \n Content() after Redact()
	RegisterImpl("C05.redact_pdu", c05RedactPDU(false))
	// the same after SetUnsigned on the parsed event (what a server does before it stores and later
	// redacts an event): the unsigned member is gone after Redact() like any other removable member
	RegisterImpl("C05.redact_pdu_setunsigned", c05RedactPDU(true))
	// [ver; unsigned event text; signer list (comma separated server names)] ->
	// verdict before redaction / after Redact() / on the re-parsed RedactEventJSON output
	RegisterImpl("C05.sign_redact_verify", func(args [][]byte) ([][]byte, []byte) {
		verImpl := c05Impl(args[0])
		e, err := verImpl.NewEventFromTrustedJSON(args[1], false)
		if err != nil {
			return args, B("parse-err: " + err.Error())
		}
		ver := c05Verifier{keys: map[string]ed25519.PublicKey{}}
		for _, s := range strings.Split(string(args[2]), ",") {
			if strings.HasPrefix(s, "pseudo:") {
				// pseudo-ID rooms: the sender ID is the public key and signs under key id ed25519:1
				e = e.Sign(string(e.SenderID()), "ed25519:1", c05Key(s[7:]))
				continue
			}
			k := c05Key(s)
			ver.keys[s] = k.Public().(ed25519.PublicKey)
			e = e.Sign(s, "ed25519:k", k)
		}
		verdict := func(p gmsl.PDU) string {
			if err := gmsl.VerifyEventSignatures(context.Background(), p, ver, c05UserID); err != nil {
				return "bad(" + err.Error() + ")"
			}
			return "ok"
		}
		before := verdict(e)
		signedJSON := append([]byte{}, e.JSON()...)
		idBefore := e.EventID()
		e.Redact()
		after := verdict(e)
		// independent route: redact the JSON text, parse it as a (redacted) trusted event
		rj, err := verImpl.RedactEventJSON(signedJSON)
		third := "err"
		if err == nil {
			if e2, err := verImpl.NewEventFromTrustedJSON(rj, true); err == nil {
				third = verdict(e2)
				if e2.EventID() != idBefore {
					third += " id-changed"
				}
			}
		}
		if before == "ok" && after == "ok" && third == "ok" && e.EventID() == idBefore {
			return args, B("ok")
		}
		return args, B(fmt.Sprintf("before=%s after=%s reparsed=%s id %s -> %s", before, after, third, idBefore, e.EventID()))
	})
	RegisterProp("C05", genC05)
}

// ---------------------------------------------------------------------------------------------
// text generators

// plain: object keys never need a JSON escape (the library's CanonicalJSON emits such keys
// unescaped -- DESIGN F1, property C01 -- so streams that pass through it avoid them)
type c05Gen struct {
	c     *Ctx
	plain bool
}

// plain also avoids -0, which Sign/Redact reject in versions with enforced canonical JSON
func (g c05Gen) int() string {
	for {
		w := g.pick(c05Ints)
		if !g.plain || w != "-0" {
			return w
		}
	}
}

func (g c05Gen) word() string {
	for {
		w := g.pick(c05Words)
		if !g.plain || !strings.ContainsAny(w, "\"\\\n\t") {
			return w
		}
	}
}

func (g c05Gen) pick(l []string) string { return l[g.c.Rng.Intn(len(l))] }
func (g c05Gen) chance(p float64) bool  { return g.c.Rng.Float64() < p }

// JSON string literal; style 0 = shortest escapes, 1 = some characters as \uXXXX
func (g c05Gen) str(s string) string {
	var b strings.Builder
	b.WriteByte('"')
	for _, r := range []byte(s) {
		switch {
		case r == '"' || r == '\\':
			b.WriteByte('\\')
			b.WriteByte(r)
		case r < 0x20:
			fmt.Fprintf(&b, "\\u%04x", r)
		case r < 0x80 && g.chance(0.03):
			fmt.Fprintf(&b, "\\u%04X", r)
		default:
			b.WriteByte(r)
		}
	}
	b.WriteByte('"')
	return b.String()
}

var c05Words = []string{"a", "b", "x", "body", "msgtype", "displayname", "avatar_url", "reason", "name", "topic",
	"é", "日本", "<b>&amp;</b>", "line\nbreak", "tab\there", "quote\"q", "back\\slash", " sep ", "\x7f", "😀", "", " ", "null", "0"}

var c05Ints = []string{"0", "1", "-1", "-0", "50", "100", "2147483648", "9007199254740991", "-9007199254740991",
	"9007199254740990", "4503599627370497", "1633108629915"}

func (g c05Gen) ws() string {
	if g.chance(0.9) {
		return ""
	}
	return g.pick([]string{" ", "\n", "\t", "  ", "\r\n"})
}

func (g c05Gen) value(depth int, dups bool) string {
	n := 8
	if depth <= 0 {
		n = 5
	}
	switch g.c.Rng.Intn(n) {
	case 0:
		return g.pick([]string{"null", "true", "false"})
	case 1:
		return g.int()
	case 2:
		return strconv.FormatInt(g.c.Rng.Int63n(1<<53)-g.c.Rng.Int63n(1<<53), 10)
	case 3, 4:
		return g.str(g.pick(c05Words))
	case 5:
		k := g.c.Rng.Intn(4)
		parts := make([]string, k)
		for i := range parts {
			parts[i] = g.value(depth-1, dups)
		}
		return "[" + g.ws() + strings.Join(parts, ","+g.ws()) + "]"
	default:
		k := g.c.Rng.Intn(4)
		var keys []string
		for i := 0; i < k; i++ {
			w := g.word()
			if !dups && contains(keys, w) {
				continue
			}
			keys = append(keys, w)
		}
		if dups && len(keys) > 0 && g.chance(0.5) {
			keys = append(keys, keys[0])
		}
		return g.object(keys, func(string) string { return g.value(depth-1, dups) })
	}
}

func contains(l []string, s string) bool {
	for _, x := range l {
		if x == s {
			return true
		}
	}
	return false
}

func (g c05Gen) object(keys []string, val func(string) string) string {
	parts := make([]string, len(keys))
	for i, k := range keys {
		parts[i] = g.ws() + g.str(k) + g.ws() + ":" + g.ws() + val(k)
	}
	return "{" + strings.Join(parts, ",") + g.ws() + "}"
}

func (g c05Gen) shuffle(l []string) []string {
	r := append([]string{}, l...)
	g.c.Rng.Shuffle(len(r), func(i, j int) { r[i], r[j] = r[j], r[i] })
	return r
}

// every top-level key any algorithm keeps, and keys that must go
var c05TopKeep = []string{"event_id", "type", "room_id", "sender", "state_key", "content", "hashes", "signatures", "depth",
	"prev_events", "prev_state", "auth_events", "origin", "origin_server_ts", "membership"}
var c05TopOther = []string{"unsigned", "redacts", "age_ts", "outlier", "destinations", "age", "replaces_state", "prev_content",
	"origin_server_t", "origin_server_tss", "senders", "typ", "event_ids", "hash", "contents", "_room_version", "x", "é"}

var c05Types = []string{"m.room.member", "m.room.create", "m.room.join_rules", "m.room.power_levels", "m.room.aliases",
	"m.room.history_visibility", "m.room.redaction"}
var c05OtherTypes = []string{"m.room.message", "m.room.name", "m.room.topic", "m.room.third_party_invite", "m.room.membe",
	"m.room.members", "M.ROOM.MEMBER", "m.room.Member", "m.room.create ", "", "m.room.server_acl", "m.room.encrypted",
	"m.room.guest_access", "m.reaction", "org.example.custom", "m.room.power_level", "m.room.redactions", "é"}

// every content key any algorithm keeps for some type, and near misses
var c05ContentKeep = []string{"membership", "join_authorised_via_users_server", "third_party_invite", "creator", "join_rule", "allow",
	"ban", "events", "events_default", "kick", "redact", "state_default", "users", "users_default", "invite", "aliases",
	"history_visibility", "redacts"}
var c05ContentOther = []string{"displayname", "avatar_url", "body", "reason", "room_version", "predecessor", "m.federate",
	"notifications", "Membership", "membershi", "memberships", "user", "usersdefault", "users_defaults", "event", "alias",
	"allowed", "join_rules", "signed", "is_direct", "redact ", "bans", "kic", "creator_id", "additional_creators", "x", ""}

// a content value with some structure typical for the key
func (g c05Gen) contentValue(k string, dups bool) string {
	switch k {
	case "third_party_invite":
		switch g.c.Rng.Intn(5) {
		case 0:
			return g.value(1, dups) // any shape
		case 1:
			return `{"display_name":"bob"}` // object without signed
		default:
			return g.object(g.shuffle([]string{"display_name", "signed"}), func(s string) string {
				if s == "signed" {
					return `{"mxid":"@bob:b","signatures":{"id.example":{"ed25519:0":"c2ln"}},"token":"t"}`
				}
				return g.str(g.pick(c05Words))
			})
		}
	case "users", "events", "notifications":
		if g.chance(0.7) {
			return g.object([]string{"@alice:a", "@bob:b", "m.room.name"}[:1+g.c.Rng.Intn(3)], func(string) string { return g.int() })
		}
	case "membership":
		if g.chance(0.7) {
			return g.str(g.pick([]string{"join", "leave", "invite", "ban", "knock"}))
		}
	case "ban", "kick", "redact", "invite", "events_default", "state_default", "users_default":
		if g.chance(0.7) {
			return g.int()
		}
	}
	return g.value(2, dups)
}

// a well-formed event: unique keys, string type, object content
func (g c05Gen) wfEvent(typ string, contentKeys []string, top []string, extra []string) string {
	keys := append([]string{"type", "content"}, top...)
	keys = append(keys, extra...)
	keys = g.shuffle(keys)
	return g.object(keys, func(k string) string {
		switch k {
		case "type":
			return g.str(typ)
		case "content":
			return g.object(contentKeys, func(ck string) string { return g.contentValue(ck, false) })
		case "sender", "state_key", "origin", "membership", "redacts":
			if g.chance(0.7) {
				return g.str(g.pick([]string{"@alice:a", "@bob:b", "", "join", "a"}))
			}
		case "room_id":
			if g.chance(0.7) {
				return g.str("!room:a")
			}
		case "event_id":
			if g.chance(0.7) {
				return g.str("$ev:a")
			}
		case "depth", "origin_server_ts":
			if g.chance(0.7) {
				return g.int()
			}
		case "hashes":
			if g.chance(0.7) {
				return `{"sha256":"aGFzaA"}`
			}
		case "signatures":
			if g.chance(0.7) {
				return `{"a":{"ed25519:k":"c2ln"}}`
			}
		}
		return g.value(2, false)
	})
}

func (g c05Gen) subset(l []string, p float64) []string {
	var r []string
	for _, x := range l {
		if g.chance(p) {
			r = append(r, x)
		}
	}
	return r
}

// both comparisons of the model with the library, and the specification oracle when asked.
// mk is called twice: plain keys for the stream that passes through the library's canonicaliser,
// the full vocabulary for the stream that is canonicalised by the model's printer.
func (g c05Gen) runAll(ver string, mk func(g c05Gen) string, desc string, oracle bool) {
	c := g.c
	txt := mk(c05Gen{c, true})
	c.Run("C05.redact_canon", Args(ver, txt), "C05.redact", "", desc)
	txt = mk(c05Gen{c, false})
	if oracle {
		c.Run("C05.redact_raw", Args(ver, txt), "", "C05.prop.spec", desc)
	}
	c.Run("C05.redact_raw", Args(ver, txt), "", "C05.prop.model_raw", desc)
}

func genC05(c *Ctx) {
	g := c05Gen{c, false}

	// the harness's version list is the library's
	{
		var have []string
		for v := range gmsl.RoomVersions() {
			have = append(have, string(v))
		}
		want := append([]string{}, c05Versions...)
		sort.Strings(have)
		sort.Strings(want)
		if strings.Join(have, ",") != strings.Join(want, ",") {
			panic("registered room versions changed: " + strings.Join(have, ","))
		}
	}

	allTypes := append(append([]string{}, c05Types...), c05OtherTypes...)

	// 1. bounded-exhaustive: version x type x each content key alone (kept or not) with one
	//    bystander, and version x each top-level key alone
	for _, ver := range c05Versions {
		for _, typ := range append(append([]string{}, c05Types...), "m.room.message", "m.room.membe", "M.room.member", "") {
			for _, ck := range append(append([]string{}, c05ContentKeep...), "body", "Membership", "membershi") {
				g.runAll(ver, func(g c05Gen) string { return g.wfEvent(typ, g.shuffle([]string{ck, "zzz"}), []string{"sender"}, nil) },
					"exh type="+typ+" key="+ck, true)
				c.Count("exh-content/" + typ)
			}
			// all keep keys at once, empty content
			g.runAll(ver, func(g c05Gen) string { return g.wfEvent(typ, g.shuffle(c05ContentKeep), nil, nil) }, "exh type="+typ+" all-keys", true)
			g.runAll(ver, func(g c05Gen) string { return g.wfEvent(typ, nil, nil, nil) }, "exh type="+typ+" empty-content", true)
		}
		for _, tk := range append(append([]string{}, c05TopKeep...), c05TopOther...) {
			if tk == "type" || tk == "content" {
				continue
			}
			g.runAll(ver, func(g c05Gen) string { return g.wfEvent("m.room.message", []string{"body"}, []string{tk}, nil) }, "exh top="+tk, true)
			c.Count("exh-top")
		}
	}

	// 2. random well-formed events
	n := c.Scale(60, 1500)
	for _, ver := range c05Versions {
		for i := 0; i < n; i++ {
			typ := g.pick(allTypes)
			if g.chance(0.6) {
				typ = g.pick(c05Types)
			}
			ck := append(g.subset(c05ContentKeep, 0.3), g.subset(c05ContentOther, 0.15)...)
			top := g.subset(c05TopKeep[:], 0.6)
			var top2 []string
			for _, k := range top {
				if k != "type" && k != "content" {
					top2 = append(top2, k)
				}
			}
			extra := g.subset(c05TopOther, 0.2)
			g.runAll(ver, func(g c05Gen) string { return g.wfEvent(typ, g.shuffle(ck), top2, extra) }, "random wf", true)
			c.Count("random-wf/" + typ)
		}
	}

	// 2b. F66: one member whose name only LOOKS like a kept name (case variant, U+017F, U+212A),
	// or a second "content", added to a well-formed event, first or last; the specification's
	// redaction drops / ignores it
	{
		look := [][2]string{{"Content", `{"membership":"ban","users":{"@mallory:a":100},"creator":"@m:a","join_rule":"public"}`},
			{"CONTENT", `{"membership":"ban"}`}, {"content", `{"membership":"ban","users":{"@mallory:a":100}}`},
			{"State_key", `""`}, {"state_Key", `"case"`}, {"state_\u212aey", `"kelvin"`}, {"ſtate_key", `"long-s"`}, {"ſender", `"@mallory:evil"`}, {"Sender", `"@mallory:evil"`},
			{"origin_ſerver_ts", `1`}, {"Membership", `"join"`}, {"Prev_state", `[]`}, {"Event_id", `"$x"`}, {"hasheſ", `{"sha256":"AA"}`},
			{"ſignatures", `{}`}, {"Type", `"m.room.create"`}, {"Depth", `7`}, {"Room_id", `"!other:a"`}, {"auth_eventſ", `[]`},
			{"prev_eventſ", `[]`}, {"Origin", `"o"`}}
		types := []string{"m.room.member", "m.room.power_levels", "m.room.message"}
		if c.Thorough() {
			types = append(append([]string{}, c05Types...), "m.room.message")
		}
		gp := c05Gen{c, true}
		for _, ver := range c05Versions {
			for _, typ := range types {
				for _, kv := range look {
					base := strings.TrimSpace(gp.wfEvent(typ, gp.shuffle(append(gp.subset(c05ContentKeep, 0.3), "zzz")), []string{"sender", "state_key", "origin_server_ts", "depth"}, nil))
					if !strings.HasPrefix(base, "{") || !strings.HasSuffix(base, "}") {
						continue
					}
					kb, _ := json.Marshal(kv[0])
					member := string(kb) + ":" + kv[1]
					for _, txt := range []string{"{" + member + "," + base[1:], base[:len(base)-1] + "," + member + "}"} {
						c.Run("C05.redact_raw", Args(ver, txt), "", "C05.prop.spec", "look-alike member "+kv[0]+" type="+typ)
						c.Run("C05.redact_raw", Args(ver, txt), "", "C05.prop.model_raw", "look-alike member "+kv[0]+" type="+typ)
						c.Count("look-alike/" + kv[0])
					}
				}
			}
		}
	}

	// 3. shapes outside the specification's domain (model comparison only)
	odd := []string{
		`{}`, `{"type":null}`, `{"content":null}`, `{"type":null,"content":null}`,
		`{"sender":null,"room_id":null,"state_key":null,"event_id":null,"hashes":null,"signatures":null,"depth":null,"prev_events":null,"prev_state":null,"auth_events":null,"origin":null,"origin_server_ts":null,"membership":null}`,
		`{"type":"m.room.create"}`, `{"type":"m.room.create","content":null}`, `{"type":"m.room.create","content":{}}`,
		`{"type":"m.room.create","content":{"creator":"@a:b","room_version":"11","x":{"y":[1,2,{"z":null}]}}}`,
		`{"type":"m.room.member","content":{"membership":"join"},"content":{"x":1}}`,
		`{"type":"m.room.member","content":{"x":1},"content":{"membership":"join"}}`,
		`{"type":"m.room.member","content":{"membership":"join"},"content":null}`,
		`{"type":"m.room.member","content":null,"content":{"membership":"join"}}`,
		`{"type":"m.room.member","content":{"membership":"join"},"content":{"membership":"leave"}}`,
		`{"type":"m.room.member","type":"m.room.create","content":{"membership":"join","creator":"c"}}`,
		`{"type":"m.room.member","type":null,"content":{"membership":"join","creator":"c"}}`,
		`{"type":"m.room.create","type":"m.room.member","content":{"membership":"join","creator":"c"}}`,
		`{"Type":"m.room.member","CONTENT":{"membership":"join","x":1},"Sender":"a","ROOM_ID":"r","State_Key":"","oRIGIN":"o"}`,
		"{\"type\":\"m.room.member\",\"content\":{\"membership\":\"join\"},\"ſender\":\"long-s\",\"state_Key\":\"kelvin\",\"Kick\":1}",
		`{"sender":"a","Sender":"b"}`, `{"Sender":"b","sender":"a"}`, `{"SENDER":"b","Sender":"c"}`,
		`{"type":"m.room.member","Type":"m.room.create","content":{"membership":"join","creator":"c"}}`,
		`{"type":"m.room.power_levels","content":{"users":{"a":1,"a":2,"b":{"c":1,"c":[{"d":1,"d":2}]}},"ban":1,"ban":2}}`,
		`{"type":"m.room.member","content":{"Membership":"join","membership ":"x","MEMBERSHIP":"y"}}`,
		`{"type":5}`, `{"type":true}`, `{"type":[]}`, `{"type":{}}`, `{"type":"a","type":5}`, `{"type":5,"type":"a"}`,
		`{"content":5}`, `{"content":[]}`, `{"content":"x"}`, `{"content":true}`, `{"content":{},"content":[]}`,
		`5`, `"x"`, `[]`, `[{}]`, `true`, `{`, ``, `{"type":}`, `{"type":"a",}`, `{"a":1}x`, `nul`,
		`{"depth":1E2,"origin_server_ts":1.5,"hashes":-0,"sender":"<&> "}`,
		`{"type":"<&>","content":{},"sender":"<"}`,
		`{"type":"\ud800","content":{}}`, `{"type":"😀","content":{}}`,
		"{\"type\":\"m.room.member\",\"content\":{\"membership\":\"a\xffb\xed\xa0\x80\xc0\x80\xf4\x90\x80\x80\xe2\x82\"},\"sender\":\"a\xffb\"}",
		"{\"type\":\"m.room.power_levels\",\"content\":{\"users\":{\"a\xff\":1,\"a\xfe\":2,\"ok\":3}}}",
		"{\"type\":\"m.room.memb\xff\",\"content\":{\"membership\":\"x\"}}",
		"{\"type\":\"m.room.member\",\"content\":{\"membership\":\"\xc3\xa9\xe2\x82\xac\xf0\x9f\x98\x80\xc2\xe2\x82\xf0\x9f\x98\"}}",
		"{\"typ\xff\":\"a\",\"sender\xff\":1}",
		` { "type" : "m.room.member" , "content" : { "membership" : [ 1 , 2 ] , "x" : 1 } , "depth" : [ 1 , { "a" : 2 } ] } `,
		`{"type":"m.room.member","content":{"membership":"\u0000\u001f\b\f\n\r\t\u007f\/"},"sender":"A\/"}`,
	}
	for _, ver := range c05Versions {
		for _, txt := range odd {
			c.Run("C05.redact_canon", Args(ver, txt), "C05.redact", "", "odd")
			c.Run("C05.redact_raw", Args(ver, txt), "", "C05.prop.model_raw", "odd")
			c.Count("odd")
		}
	}
	// random events with duplicate keys, case variants, nulls, missing type/content
	n = c.Scale(40, 1000)
	variants := func(k string) string {
		switch c.Rng.Intn(4) {
		case 0:
			return strings.ToUpper(k)
		case 1:
			return strings.ToUpper(k[:1]) + k[1:]
		case 2:
			return strings.Replace(strings.Replace(k, "s", "ſ", 1), "k", "K", 1)
		}
		return k
	}
	for _, ver := range c05Versions {
		for i := 0; i < n; i++ {
			g := c05Gen{c, i%2 == 0}
			var keys []string
			for _, k := range g.subset(c05TopKeep, 0.5) {
				keys = append(keys, k)
				if g.chance(0.2) {
					keys = append(keys, variants(k))
				}
				if g.chance(0.1) {
					keys = append(keys, k)
				}
			}
			keys = append(keys, g.subset(c05TopOther, 0.15)...)
			keys = g.shuffle(keys)
			typ := g.pick(c05Types)
			txt := g.object(keys, func(k string) string {
				switch strings.ToLower(k) {
				case "type":
					switch c.Rng.Intn(12) {
					case 0:
						return "null"
					case 1:
						return g.value(1, true)
					case 2:
						return g.str(g.pick(allTypes))
					}
					return g.str(typ)
				case "content":
					switch c.Rng.Intn(12) {
					case 0:
						return "null"
					case 1:
						return g.value(1, true)
					}
					ck := append(g.subset(c05ContentKeep, 0.3), g.subset(c05ContentOther, 0.1)...)
					if len(ck) > 0 && g.chance(0.3) {
						ck = append(ck, ck[0])
					}
					return g.object(g.shuffle(ck), func(s string) string { return g.contentValue(s, true) })
				}
				if g.chance(0.15) {
					return "null"
				}
				return g.value(2, true)
			})
			if g.plain {
				c.Run("C05.redact_canon", Args(ver, txt), "C05.redact", "", "random odd")
			} else {
				c.Run("C05.redact_raw", Args(ver, txt), "", "C05.prop.model_raw", "random odd")
			}
			c.Count("random-odd")
		}
	}

	// 4. PDU.Redact() on parsed events, and signatures across redaction
	n = c.Scale(25, 400)
	for _, ver := range c05Versions {
		for i := 0; i < n; i++ {
			typ := g.pick(c05Types)
			if g.chance(0.3) {
				typ = g.pick([]string{"m.room.message", "m.room.name", "m.room.topic"})
			}
			txt, signers := c05Gen{c, true}.pdu(ver, typ, i)
			c.Run("C05.redact_pdu", Args(ver, txt), "C05.redact_pdu", "C05.prop.accessors", "pdu "+typ)
			if !((ver == "12" || ver == "org.matrix.hydra.11") && typ == "m.room.create") {
				// v12 create events: Sign returns an *eventV2 whose RoomID() panics (DESIGN F4, property C03)
				c.Run("C05.sign_redact_verify", Args(ver, txt, signers), "C05.const_ok", "", "sign "+typ)
			}
			c.Count("pdu/" + typ)
		}
	}

	// 5. events whose content is ALREADY exactly what the algorithm keeps (so that redaction has
	// nothing to do inside content) with each removable top-level member present, alone and all at
	// once: Redact() against the model of RedactEventJSON, against the specification's top-level
	// keep-list, and against a fresh parse of its own JSON(); also with the unsigned member put
	// there by SetUnsigned
	for _, ver := range c05Versions {
		types := append(append([]string{}, c05Types...), "m.room.message", "m.room.topic")
		for ti, typ := range types {
			txt, _ := c05Gen{c, true}.pdu(ver, typ, 1000+ti)
			red, err := c05Impl(B(ver)).RedactEventJSON([]byte(txt))
			if err != nil {
				continue
			}
			var rm, m map[string]json.RawMessage
			if json.Unmarshal(red, &rm) != nil || json.Unmarshal([]byte(txt), &m) != nil {
				continue
			}
			for _, k := range []string{"unsigned", "origin", "membership", "prev_state", "x", "age_ts", "redacts", "replaces_state", "prev_content"} {
				if k == "redacts" && typ == "m.room.redaction" {
					continue
				}
				delete(m, k)
			}
			contents := []json.RawMessage{rm["content"]}
			if string(rm["content"]) != "{}" && (typ == "m.room.message" || typ == "m.room.member") {
				contents = append(contents, json.RawMessage("{}"))
			}
			removable := [][2]string{{"unsigned", `{"age":5,"prev_content":{"membership":"join"}}`}, {"redacts", `"$dGFyZ2V0"`}, {"origin", `"a"`},
				{"membership", `"join"`}, {"prev_state", `[]`}, {"x", `"unknown"`}, {"age_ts", `12`}, {"replaces_state", `"$cmVwbA"`}}
			for _, content := range contents {
				run := func(what string, add [][2]string) {
					mm := map[string]json.RawMessage{}
					for k, v := range m {
						mm[k] = v
					}
					mm["content"] = content
					for _, kv := range add {
						if kv[0] == "redacts" && typ == "m.room.redaction" {
							continue
						}
						mm[kv[0]] = json.RawMessage(kv[1])
					}
					js, err := json.Marshal(mm)
					if err != nil {
						return
					}
					c.Run("C05.redact_pdu", Args(ver, string(js)), "C05.redact_pdu", "C05.prop.accessors", "minimal content + "+what+" "+typ)
					c.Count("pdu-minimal/" + what)
				}
				run("nothing", nil)
				for _, kv := range removable {
					run(kv[0], [][2]string{kv})
				}
				run("all", removable)
				mm := map[string]json.RawMessage{}
				for k, v := range m {
					mm[k] = v
				}
				mm["content"] = content
				if js, err := json.Marshal(mm); err == nil {
					c.Run("C05.redact_pdu_setunsigned", Args(ver, string(js)), "C05.redact_pdu", "C05.prop.accessors", "minimal content + SetUnsigned "+typ)
					c.Count("pdu-minimal/SetUnsigned")
				}
			}
		}
	}
}

// a PDU that the version's trusted parser accepts and whose required signers are `signers`
func (g c05Gen) pdu(ver, typ string, i int) (string, string) {
	c := g.c
	v1fmt := ver == "1" || ver == "2"
	hydra := ver == "12" || ver == "org.matrix.hydra.11"
	sender := "@alice:a"
	signers := []string{"a"}
	if ver == "org.matrix.msc4014" {
		sender = spec.Base64Bytes(c05Key("a").Public().(ed25519.PublicKey)).Encode()
		signers = []string{"pseudo:a"}
		if typ == "m.room.member" {
			typ = "m.room.topic" // joins need a signed mxid_mapping, invites the invitee's key: not this property
		}
	}
	keys := []string{"type", "content", "sender", "origin_server_ts", "depth", "prev_events", "auth_events", "hashes"}
	vals := map[string]string{
		"type": g.str(typ), "sender": g.str(sender), "origin_server_ts": g.pick([]string{"1633108629915", "0", "9007199254740991"}),
		"depth": g.pick([]string{"1", "12", "9007199254740991"}), "hashes": `{"sha256":"aGFzaA"}`,
	}
	if v1fmt {
		keys = append(keys, "event_id")
		vals["event_id"] = g.str(fmt.Sprintf("$e%d:a", i))
		vals["prev_events"] = `[["$p:a",{"sha256":"cA"}]]`
		vals["auth_events"] = `[["$c:a",{"sha256":"cA"}],["$m:a",{"sha256":"cA"}]]`
	} else {
		vals["prev_events"] = `["$cHJldg"]`
		vals["auth_events"] = `["$YXV0aDE","$YXV0aDI"]`
	}
	create := typ == "m.room.create"
	if !(hydra && create) {
		keys = append(keys, "room_id")
		if hydra {
			vals["room_id"] = g.str("!Y3JlYXRlZXZlbnRpZGNyZWF0ZWV2ZW50aWRjcmVhdGV")
		} else {
			vals["room_id"] = g.str("!room:a")
		}
	}
	state := typ != "m.room.message" && typ != "m.room.redaction"
	if state {
		keys = append(keys, "state_key")
		vals["state_key"] = `""`
	}
	ck := append(g.subset(c05ContentKeep, 0.25), g.subset(c05ContentOther, 0.1)...)
	var content string
	switch typ {
	case "m.room.member":
		target := g.pick([]string{"@alice:a", "@bob:b"})
		vals["state_key"] = g.str(target)
		membership := g.pick([]string{"join", "leave", "invite", "ban", "knock"})
		if membership == "invite" && target == "@bob:b" {
			signers = append(signers, "b")
		}
		var rest []string
		for _, k := range ck {
			// (a key differing from membership by case only is read as the membership by Membership())
			if !strings.EqualFold(k, "membership") && k != "join_authorised_via_users_server" {
				rest = append(rest, k)
			}
		}
		ck = append(rest, "membership")
		if membership == "join" && g.chance(0.4) {
			ck = append(ck, "join_authorised_via_users_server")
			// required signer only where the version has restricted joins; signing anyway is harmless
			signers = append(signers, "c")
		}
		content = g.object(g.shuffle(ck), func(k string) string {
			switch k {
			case "membership":
				return g.str(membership)
			case "join_authorised_via_users_server":
				return g.str("@carol:c")
			}
			return g.contentValue(k, false)
		})
	default:
		content = g.object(g.shuffle(ck), func(k string) string { return g.contentValue(k, false) })
	}
	vals["content"] = content
	if typ == "m.room.redaction" {
		keys = append(keys, "redacts")
		vals["redacts"] = g.str("$cmVkYWN0ZWQ")
	}
	removable := []string{"unsigned", "origin", "membership", "prev_state", "x", "age_ts", "sticky", "msc4354_sticky"}
	if typ != "m.room.redaction" {
		removable = append(removable, "redacts")
	}
	for _, k := range g.subset(removable, 0.35) {
		keys = append(keys, k)
		switch k {
		case "unsigned":
			vals[k] = g.pick([]string{`{"age":5,"x":{"y":1}}`, `{"prev_content":{"membership":"leave"},"replaces_state":"$cmVwbA"}`, `{}`})
		case "redacts":
			vals[k] = g.str(g.pick([]string{"$dGFyZ2V0", "$t:a", "x"}))
		case "sticky", "msc4354_sticky":
			vals[k] = g.pick([]string{`{"duration_ms":60000}`, `{"duration_ms":1}`, `{"duration_ms":3600000}`})
		case "origin":
			vals[k] = g.str("a")
		case "prev_state":
			vals[k] = `[]`
		case "age_ts":
			vals[k] = "12"
		default:
			vals[k] = g.str(g.pick(c05Words))
		}
	}
	keys = g.shuffle(keys)
	txt := g.object(keys, func(k string) string { return vals[k] })
	_ = c
	return txt, strings.Join(signers, ",")
}
