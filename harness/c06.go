package main

// C06 - VerifyEventSignatures / VerifyAllEventSignatures against the model (coq/Event/VerifySig.v)
// and the specification oracles (coq/Event/RequiredSpec.v, coq/Run/RunC06.v).
//
// Three implementation runners:
//   C06.verify           scripted JSONVerifier (records every request, answers per script), scripted or
//                        real (spec.NewUserID) sender resolution;
//   C06.keyring          real KeyRing over an in-memory KeyDatabase, real ed25519 keys, per-signer faults;
//   C06.verify_pseudoid  the org.matrix.msc4014 branch: scripted verifier for the mxid_mapping, real
//                        self-signatures for the pseudo IDs.

import (
	"bytes"
	"context"
	"crypto/ed25519"
	"crypto/sha256"
	"encoding/base64"
	"encoding/hex"
	"encoding/json"
	"fmt"
	"sort"
	"strconv"
	"strings"
	"time"

	gmsl "github.com/matrix-org/gomatrixserverlib"
	"github.com/matrix-org/gomatrixserverlib/spec"
)

// ---------- scripted verifier ----------
type c06Verifier struct {
	valid map[string]bool
	fail  bool
	calls [][]gmsl.VerifyJSONRequest
}

func (v *c06Verifier) VerifyJSONs(ctx context.Context, reqs []gmsl.VerifyJSONRequest) ([]gmsl.VerifyJSONResult, error) {
	v.calls = append(v.calls, append([]gmsl.VerifyJSONRequest{}, reqs...))
	if v.fail {
		return nil, fmt.Errorf("scripted verifier failure")
	}
	res := make([]gmsl.VerifyJSONResult, len(reqs))
	for i, r := range reqs {
		if !v.valid[string(r.ServerName)] {
			res[i].Error = fmt.Errorf("scripted: no valid signature of %q", r.ServerName)
		}
	}
	return res, nil
}

func c06HexSet(names []string) string {
	sort.Strings(names)
	var out []string
	for i, n := range names {
		if i > 0 && names[i-1] == n {
			continue
		}
		out = append(out, hex.EncodeToString([]byte(n)))
	}
	return strings.Join(out, ",")
}

// one line per VerifyJSONs call: servers asked (sorted set), timestamp, validity rule, message check
func c06FmtCall(reqs []gmsl.VerifyJSONRequest, wantMsg []byte) string {
	if len(reqs) == 0 {
		return "asked"
	}
	var names []string
	ts := reqs[0].AtTS
	mixed := false
	strict := !reqs[0].ValidityCheckingFunc(10, 5)
	msgOK := true
	for _, r := range reqs {
		names = append(names, string(r.ServerName))
		if r.AtTS != ts || (!r.ValidityCheckingFunc(10, 5)) != strict {
			mixed = true
		}
		a, e1 := gmsl.CanonicalJSON(r.Message)
		b, e2 := gmsl.CanonicalJSON(wantMsg)
		if e1 != nil || e2 != nil || !bytes.Equal(a, b) {
			msgOK = false
		}
	}
	// a lax rule accepts everything, a strict one refuses the magic value 0 and anything in the past
	if strict && reqs[0].ValidityCheckingFunc(10, 0) {
		mixed = true
	}
	s := "asked " + c06HexSet(names) + " ts=" + strconv.FormatUint(uint64(ts), 10)
	if strict {
		s += " strict"
	} else {
		s += " lax"
	}
	if mixed {
		s += " MIXED"
	}
	if !msgOK {
		s += " MSG-NOT-REDACTED-FORM"
	}
	can, err := gmsl.CanonicalJSON(reqs[0].Message)
	if err != nil {
		return s + " msg=NOT-JSON"
	}
	return s + " msg=" + string(can)
}

func c06Verdict(err error) string {
	if err == nil {
		return "ok"
	}
	return "err"
}

// ---------- sender resolution ----------
// arg "real": spec.NewUserID(sender, true); "=E" error; "=N" nil,nil; "=D<domain>": a user of that domain.
// Returns the function and a pointer to the resolved outcome (filled at call time).
func c06Lookup(arg string, outcome *string) spec.UserIDForSender {
	return func(roomID spec.RoomID, senderID spec.SenderID) (*spec.UserID, error) {
		switch {
		case arg == "real" || (len(arg) > 0 && arg[0] != '='):
			// "real", or an already resolved outcome (replay): resolve again with the real function
			if arg != "real" {
				switch arg[0] {
				case 'E':
					*outcome = "E"
					return nil, fmt.Errorf("scripted lookup error")
				case 'N':
					*outcome = "N"
					return nil, nil
				case 'D':
					u, err := spec.NewUserID("@u:"+arg[1:], true)
					if err != nil {
						*outcome = "E"
						return nil, err
					}
					*outcome = arg
					return u, nil
				}
			}
			u, err := spec.NewUserID(string(senderID), true)
			if err != nil {
				*outcome = "E"
				return nil, err
			}
			*outcome = "D" + string(u.Domain())
			return u, nil
		case arg == "=E":
			*outcome = "E"
			return nil, fmt.Errorf("scripted lookup error")
		case arg == "=N":
			*outcome = "N"
			return nil, nil
		default: // =D<domain>
			u, err := spec.NewUserID("@u:"+arg[2:], true)
			if err != nil {
				*outcome = "E"
				return nil, err
			}
			*outcome = "D" + arg[2:]
			return u, nil
		}
	}
}

// ---------- building PDUs ----------
func c06Parse(ver string, ev []byte, untrusted bool) (gmsl.PDU, gmsl.IRoomVersion, error) {
	verImpl, err := gmsl.GetRoomVersion(gmsl.RoomVersion(ver))
	if err != nil {
		return nil, nil, err
	}
	var e gmsl.PDU
	if untrusted {
		e, err = verImpl.NewEventFromUntrustedJSON(ev)
	} else {
		e, err = verImpl.NewEventFromTrustedJSON(ev, false)
	}
	if err != nil {
		return nil, verImpl, err
	}
	// RoomID() panics on some events the parser let through (finding F9, not this property's
	// concern): such events are outside the domain exercised here
	if !c06RoomIDWorks(e) {
		return nil, verImpl, fmt.Errorf("RoomID() panics (F9)")
	}
	return e, verImpl, nil
}

func c06RoomIDWorks(e gmsl.PDU) (ok bool) {
	defer func() {
		if recover() != nil {
			ok = false
		}
	}()
	_ = e.RoomID()
	return true
}

func gjsonStr(ev []byte, key string) string {
	var m map[string]json.RawMessage
	if json.Unmarshal(ev, &m) != nil {
		return ""
	}
	var s string
	_ = json.Unmarshal(m[key], &s)
	return s
}

// content hash as addContentHashesToEvent computes it
func c06AddHash(ev map[string]interface{}) {
	cp := map[string]interface{}{}
	for k, v := range ev {
		if k != "signatures" && k != "unsigned" && k != "hashes" {
			cp[k] = v
		}
	}
	raw, _ := json.Marshal(cp)
	can, err := gmsl.CanonicalJSON(raw)
	if err != nil {
		return
	}
	h := sha256.Sum256(can)
	ev["hashes"] = map[string]interface{}{"sha256": base64.RawStdEncoding.EncodeToString(h[:])}
}

func c06Key(name string) ed25519.PrivateKey {
	seed := sha256.Sum256([]byte("c06-key/" + name))
	return ed25519.NewKeyFromSeed(seed[:])
}

// signature of `server` (key id, key) over the redacted form of the event, as signEvent does
func c06Signature(verImpl gmsl.IRoomVersion, ev map[string]interface{}, server, keyID string, priv ed25519.PrivateKey) (string, error) {
	raw, err := json.Marshal(ev)
	if err != nil {
		return "", err
	}
	red, err := verImpl.RedactEventJSON(raw)
	if err != nil {
		return "", err
	}
	signed, err := gmsl.SignJSON(server, gmsl.KeyID(keyID), priv, red)
	if err != nil {
		return "", err
	}
	var s struct {
		Signatures map[string]map[string]string `json:"signatures"`
	}
	if err := json.Unmarshal(signed, &s); err != nil {
		return "", err
	}
	return s.Signatures[server][keyID], nil
}

func c06PutSig(ev map[string]interface{}, server, keyID, sig string) {
	sigs, _ := ev["signatures"].(map[string]interface{})
	if sigs == nil {
		sigs = map[string]interface{}{}
		ev["signatures"] = sigs
	}
	m, _ := sigs[server].(map[string]interface{})
	if m == nil {
		m = map[string]interface{}{}
		sigs[server] = m
	}
	m[keyID] = sig
}

func c06Corrupt(sig string) string {
	b, err := base64.RawStdEncoding.DecodeString(sig)
	if err != nil || len(b) == 0 {
		return sig
	}
	b[len(b)/2] ^= 0x40
	return base64.RawStdEncoding.EncodeToString(b)
}

// entries of "signatures" that do not decode as map of key ID -> unpadded base64 (F61)
var c06JunkEntries = map[string]interface{}{
	"junk-padded":   map[string]interface{}{"ed25519:x": "c2lnbmF0dXJlIQ=="},
	"junk-notb64":   map[string]interface{}{"ed25519:x": "not base64!!"},
	"junk-number":   map[string]interface{}{"ed25519:x": 123},
	"junk-object":   map[string]interface{}{"org.example.newalgo:1": map[string]interface{}{"r": "AA", "s": "BB"}},
	"junk-string":   "a string",
	"junk-array":    []interface{}{},
	"junk-harmless": map[string]interface{}{"ed25519:x": "AAAA"},
}

// ---------- in-memory key database ----------
type c06DB struct {
	keys map[gmsl.PublicKeyLookupRequest]gmsl.PublicKeyLookupResult
}

func (d *c06DB) FetcherName() string { return "c06DB" }
func (d *c06DB) FetchKeys(ctx context.Context, reqs map[gmsl.PublicKeyLookupRequest]spec.Timestamp) (map[gmsl.PublicKeyLookupRequest]gmsl.PublicKeyLookupResult, error) {
	out := map[gmsl.PublicKeyLookupRequest]gmsl.PublicKeyLookupResult{}
	for r := range reqs {
		if k, ok := d.keys[r]; ok {
			out[r] = k
		}
	}
	return out, nil
}
func (d *c06DB) StoreKeys(ctx context.Context, res map[gmsl.PublicKeyLookupRequest]gmsl.PublicKeyLookupResult) error {
	return nil
}

func c06VerifyImpl(args [][]byte) ([][]byte, []byte) {
	flag, ver, ev, lk, mode := string(args[0]), string(args[1]), args[2], string(args[3]), string(args[4])
	untrusted := strings.HasSuffix(flag, "+u")
	final := append([][]byte{}, args...)
	final[0] = B(strings.TrimSuffix(flag, "+u"))
	e, verImpl, err := c06Parse(ver, ev, untrusted)
	if err != nil {
		return final, B("noparse")
	}
	final[2] = e.JSON()
	v := &c06Verifier{valid: map[string]bool{}, fail: mode != "ok"}
	for _, s := range args[5:] {
		v.valid[string(s)] = true
	}
	outcome := "unused"
	verr := gmsl.VerifyEventSignatures(context.Background(), e, v, c06Lookup(lk, &outcome))
	// VerifyAllEventSignatures must give the same verdict for the event, in its position
	v2 := &c06Verifier{valid: v.valid, fail: v.fail}
	o2 := ""
	all := gmsl.VerifyAllEventSignatures(context.Background(), []gmsl.PDU{e, e}, v2, c06Lookup(lk, &o2))
	if outcome == "unused" {
		// the sender was never resolved: tell the model what the function WOULD have answered
		_, _ = c06Lookup(lk, &outcome)(spec.RoomID{}, e.SenderID())
	}
	final[3] = B(outcome)
	out := c06Verdict(verr)
	if len(all) != 2 || (all[0] == nil) != (verr == nil) || (all[1] == nil) != (verr == nil) {
		out += " ALL-DIFFERS"
	}
	want, rerr := verImpl.RedactEventJSON(e.JSON())
	if rerr != nil {
		want = nil
	}
	if len(v.calls) == 0 {
		out += "\nnocall"
	}
	for _, call := range v.calls {
		out += "\n" + c06FmtCall(call, want)
	}
	return final, B(out)
}

func init() {
	// [flag (wf|any, +u = parse as untrusted); ver; event json; lookup; mode (ok|verr); valid servers...]
	RegisterImpl("C06.verify", c06VerifyImpl)
	// [ver; event json; twin json (only the oracle looks at it); lookup; mode; valid servers...]
	RegisterImpl("C06.verify_twin", func(args [][]byte) ([][]byte, []byte) {
		inner := append([][]byte{B("any"), args[0], args[1]}, args[3:]...)
		fin, out := c06VerifyImpl(inner)
		final := append([][]byte{fin[1], fin[2], args[2]}, fin[3:]...)
		return final, out
	})

	// [flag; ver; event json (template, signatures are replaced); lookup; tsmode (past|future); server=kind ...]
	RegisterImpl("C06.keyring", func(args [][]byte) ([][]byte, []byte) {
		flag, ver, lk, tsmode := string(args[0]), string(args[1]), string(args[3]), string(args[4])
		final := append([][]byte{}, args...)
		final[0] = B(strings.TrimSuffix(flag, "+u"))
		verImpl, err := gmsl.GetRoomVersion(gmsl.RoomVersion(ver))
		if err != nil {
			return final, B("noparse")
		}
		var ev map[string]interface{}
		if err := json.Unmarshal(args[2], &ev); err != nil {
			return final, B("noparse")
		}
		now := time.Now()
		ts := spec.AsTimestamp(now.Add(-24 * time.Hour))
		until := spec.AsTimestamp(now.Add(24 * time.Hour))
		if tsmode == "future" {
			ts = spec.AsTimestamp(now.Add(8 * 24 * time.Hour))
			until = spec.AsTimestamp(now.Add(30 * 24 * time.Hour))
		}
		// timestamps that do not fit an int64 (F62): far beyond every valid_until_ts
		if tsmode == "wrap63" {
			ts = spec.Timestamp(1 << 63)
			until = spec.AsTimestamp(now.Add(30 * 24 * time.Hour))
		}
		if tsmode == "wrap63plus" {
			ts = spec.Timestamp(1<<63 + 1000000)
			until = spec.AsTimestamp(now.Add(30 * 24 * time.Hour))
		}
		if tsmode == "max" {
			ts = spec.Timestamp(^uint64(0))
			until = spec.AsTimestamp(now.Add(30 * 24 * time.Hour))
		}
		ev["origin_server_ts"] = uint64(ts)
		delete(ev, "signatures")
		c06AddHash(ev)
		db := &c06DB{keys: map[gmsl.PublicKeyLookupRequest]gmsl.PublicKeyLookupResult{}}
		put := func(server, keyID string, priv ed25519.PrivateKey, expired, validUntil spec.Timestamp) {
			db.keys[gmsl.PublicKeyLookupRequest{ServerName: spec.ServerName(server), KeyID: gmsl.KeyID(keyID)}] = gmsl.PublicKeyLookupResult{
				VerifyKey:    gmsl.VerifyKey{Key: spec.Base64Bytes(priv.Public().(ed25519.PublicKey))},
				ExpiredTS:    expired,
				ValidUntilTS: validUntil,
			}
		}
		type pending struct{ server, keyID, kind string }
		var todo []pending
		type junk struct {
			server, keyID string
			v             interface{}
		}
		var junkKeys, junkEntries []junk
		for _, ent := range args[5:] {
			i := bytes.IndexByte(ent, '=')
			if i < 0 {
				continue
			}
			server, kind := string(ent[:i]), string(ent[i+1:])
			k1 := c06Key(server + "/1")
			switch kind {
			case "good", "corrupt":
				put(server, "ed25519:a", k1, 0, until)
				todo = append(todo, pending{server, "ed25519:a", kind})
			case "absent":
				put(server, "ed25519:a", k1, 0, until)
			case "otherkey":
				put(server, "ed25519:a", k1, 0, until)
				todo = append(todo, pending{server, "ed25519:a", "otherkey"})
			case "nokey":
				todo = append(todo, pending{server, "ed25519:a", "good"})
			case "expired":
				put(server, "ed25519:a", k1, ts, 0)
				todo = append(todo, pending{server, "ed25519:a", "good"})
			case "expiredlater":
				put(server, "ed25519:a", k1, ts+1, 0)
				todo = append(todo, pending{server, "ed25519:a", "good"})
			case "until":
				put(server, "ed25519:a", k1, 0, ts-1)
				todo = append(todo, pending{server, "ed25519:a", "good"})
			case "untileq":
				put(server, "ed25519:a", k1, 0, ts)
				todo = append(todo, pending{server, "ed25519:a", "good"})
			case "two":
				put(server, "ed25519:a", k1, 0, until)
				put(server, "ed25519:b", c06Key(server+"/b"), 0, until)
				todo = append(todo, pending{server, "ed25519:a", "corrupt"}, pending{server, "ed25519:b", "goodb"})
			case "algo":
				put(server, "rsa:1", k1, 0, until)
				todo = append(todo, pending{server, "rsa:1", "good"})
			case "goodjunk":
				// a good signature, and entries under other key IDs of the same server that do not decode (F61)
				put(server, "ed25519:a", k1, 0, until)
				todo = append(todo, pending{server, "ed25519:a", "good"})
				junkKeys = append(junkKeys, junk{server, "ed25519:zz", "not base64!!"}, junk{server, "org.example.newalgo:1", map[string]interface{}{"r": "AA", "s": "BB"}}, junk{server, "ed25519:n", 123})
			default:
				// junk-*: the whole entry of the server is something that does not decode as signatures (F61)
				if v, ok := c06JunkEntries[kind]; ok {
					put(server, "ed25519:a", k1, 0, until)
					junkEntries = append(junkEntries, junk{server, "", v})
				}
			}
		}
		// all signatures are computed over the same unsigned template (signatures are not part of the
		// signed bytes), then attached
		type sigRec struct{ server, keyID, sig string }
		var sigs []sigRec
		for _, p := range todo {
			priv := c06Key(p.server + "/1")
			if p.kind == "otherkey" {
				priv = c06Key(p.server + "/other")
			}
			if p.kind == "goodb" {
				priv = c06Key(p.server + "/b")
			}
			sig, err := c06Signature(verImpl, ev, p.server, p.keyID, priv)
			if err != nil {
				return final, B("noparse")
			}
			if p.kind == "corrupt" {
				sig = c06Corrupt(sig)
			}
			sigs = append(sigs, sigRec{p.server, p.keyID, sig})
		}
		for _, s := range sigs {
			c06PutSig(ev, s.server, s.keyID, s.sig)
		}
		for _, jk := range junkKeys {
			c06PutSig(ev, jk.server, "ed25519:placeholder", "AAAA")
			m := ev["signatures"].(map[string]interface{})[jk.server].(map[string]interface{})
			delete(m, "ed25519:placeholder")
			m[jk.keyID] = jk.v
		}
		for _, je := range junkEntries {
			c06PutSig(ev, je.server, "ed25519:placeholder", "AAAA")
			ev["signatures"].(map[string]interface{})[je.server] = je.v
		}
		raw, _ := json.Marshal(ev)
		e, _, err := c06Parse(ver, raw, strings.HasSuffix(flag, "+u"))
		if err != nil {
			return final, B("noparse")
		}
		final[2] = e.JSON()
		ring := gmsl.KeyRing{KeyDatabase: db}
		outcome := "unused"
		verr := gmsl.VerifyEventSignatures(context.Background(), e, ring, c06Lookup(lk, &outcome))
		if outcome == "unused" {
			_, _ = c06Lookup(lk, &outcome)(spec.RoomID{}, e.SenderID())
		}
		final[3] = B(outcome)
		return final, B(c06Verdict(verr))
	})

	// [ver; event json (already signed by the pseudo IDs); mode; n; n valid mapping servers; self-valid names...]
	RegisterImpl("C06.verify_pseudoid", func(args [][]byte) ([][]byte, []byte) {
		ver, ev, mode := string(args[0]), args[1], string(args[2])
		n, _ := strconv.Atoi(string(args[3]))
		final := append([][]byte{}, args...)
		e, _, err := c06Parse(ver, ev, false)
		if err != nil {
			return final, B("noparse")
		}
		final[1] = e.JSON()
		v := &c06Verifier{valid: map[string]bool{}, fail: mode != "ok"}
		for _, s := range args[4 : 4+n] {
			v.valid[string(s)] = true
		}
		self := map[string]bool{}
		for _, s := range args[4+n:] {
			self[string(s)] = true
		}
		verr := gmsl.VerifyEventSignatures(context.Background(), e, v, func(spec.RoomID, spec.SenderID) (*spec.UserID, error) {
			return nil, fmt.Errorf("the pseudo-ID branch must not resolve the sender")
		})
		out := c06Verdict(verr)
		if len(v.calls) > 1 {
			out += " MANY-CALLS"
		}
		if len(v.calls) == 0 {
			out += "\nnomapping"
		} else {
			var names []string
			for _, r := range v.calls[0] {
				names = append(names, string(r.ServerName))
			}
			out += "\nmapping " + c06HexSet(names)
		}
		// which names the self-verifier was asked about is not observable from outside; the model's
		// third line is reproduced from the verdict contract instead: see genC06Pseudo
		return final, B(out)
	})

	// [ver; event as received; (out) e.JSON(); lookup; mode; valid servers...]: parsed as untrusted
	RegisterImpl("C06.verify_wire", func(args [][]byte) ([][]byte, []byte) {
		inner := append([][]byte{B("any+u"), args[0], args[1]}, args[3:]...)
		fin, out := c06VerifyImpl(inner)
		final := append([][]byte{fin[1], args[1], fin[2]}, fin[3:]...)
		return final, out
	})

	RegisterProp("C06", genC06)
}

// ---------- generators ----------
var c06Versions = []string{"1", "2", "3", "4", "5", "6", "7", "8", "9", "10", "11", "12",
	"org.matrix.msc3667", "org.matrix.msc3787", "org.matrix.hydra.11"}

const c06Pseudo = "org.matrix.msc4014"

func c06RoomID(ver string) string {
	if ver == "12" || ver == "org.matrix.hydra.11" {
		return "!" + strings.Repeat("A", 43)
	}
	return "!room:origin.example"
}

type c06Event struct {
	typ      string
	sender   string
	stateKey *string
	content  map[string]interface{}
	eventID  string
	ts       uint64
}

func (t c06Event) toMap(ver string) map[string]interface{} {
	m := map[string]interface{}{
		"room_id":          c06RoomID(ver),
		"sender":           t.sender,
		"type":             t.typ,
		"content":          t.content,
		"origin_server_ts": t.ts,
		"depth":            7,
		"prev_events":      []interface{}{},
		"auth_events":      []interface{}{},
	}
	if t.stateKey != nil {
		m["state_key"] = *t.stateKey
	}
	if ver == "1" || ver == "2" {
		m["event_id"] = t.eventID
	}
	return m
}

func c06JSON(m map[string]interface{}) []byte {
	b, err := json.Marshal(m)
	if err != nil {
		panic(err)
	}
	return b
}

func c06sp(s string) *string { return &s }

// the well-formed event kinds of the quantifier; doms: sender, event-ID, target, authoriser domains
type c06Kind struct {
	name string
	mk   func(d [4]string) c06Event
}

var c06Kinds = []c06Kind{
	{"message", func(d [4]string) c06Event {
		return c06Event{typ: "m.room.message", sender: "@alice:" + d[0], content: map[string]interface{}{"body": "hi", "msgtype": "m.text", "membership": "invite"}}
	}},
	{"topic", func(d [4]string) c06Event {
		return c06Event{typ: "m.room.topic", sender: "@alice:" + d[0], stateKey: c06sp(""), content: map[string]interface{}{"topic": "t"}}
	}},
	{"nonmember-statekey-user", func(d [4]string) c06Event {
		// a state event of another type whose state key is a user ID and whose content looks like an invite
		return c06Event{typ: "m.room.member2", sender: "@alice:" + d[0], stateKey: c06sp("@bob:" + d[2]), content: map[string]interface{}{"membership": "invite", "join_authorised_via_users_server": "@carol:" + d[3]}}
	}},
	{"join", func(d [4]string) c06Event {
		return c06Event{typ: "m.room.member", sender: "@alice:" + d[0], stateKey: c06sp("@alice:" + d[0]), content: map[string]interface{}{"membership": "join", "displayname": "A"}}
	}},
	{"join-other-statekey", func(d [4]string) c06Event {
		return c06Event{typ: "m.room.member", sender: "@alice:" + d[0], stateKey: c06sp("@bob:" + d[2]), content: map[string]interface{}{"membership": "join"}}
	}},
	{"restricted-join", func(d [4]string) c06Event {
		return c06Event{typ: "m.room.member", sender: "@alice:" + d[0], stateKey: c06sp("@alice:" + d[0]), content: map[string]interface{}{"membership": "join", "join_authorised_via_users_server": "@carol:" + d[3]}}
	}},
	{"invite", func(d [4]string) c06Event {
		return c06Event{typ: "m.room.member", sender: "@alice:" + d[0], stateKey: c06sp("@bob:" + d[2]), content: map[string]interface{}{"membership": "invite"}}
	}},
	{"invite-with-authorised-via", func(d [4]string) c06Event {
		return c06Event{typ: "m.room.member", sender: "@alice:" + d[0], stateKey: c06sp("@bob:" + d[2]), content: map[string]interface{}{"membership": "invite", "join_authorised_via_users_server": "@carol:" + d[3]}}
	}},
	{"third-party-invite", func(d [4]string) c06Event {
		return c06Event{typ: "m.room.member", sender: "@alice:" + d[0], stateKey: c06sp("@bob:" + d[2]), content: map[string]interface{}{"membership": "invite",
			"third_party_invite": map[string]interface{}{"display_name": "b", "signed": map[string]interface{}{"mxid": "@bob:" + d[2], "token": "tok", "signatures": map[string]interface{}{"idserver.example": map[string]interface{}{"ed25519:0": "AAAA"}}}}}}
	}},
	{"leave", func(d [4]string) c06Event {
		return c06Event{typ: "m.room.member", sender: "@alice:" + d[0], stateKey: c06sp("@bob:" + d[2]), content: map[string]interface{}{"membership": "leave", "join_authorised_via_users_server": "@carol:" + d[3]}}
	}},
	{"ban", func(d [4]string) c06Event {
		return c06Event{typ: "m.room.member", sender: "@alice:" + d[0], stateKey: c06sp("@bob:" + d[2]), content: map[string]interface{}{"membership": "ban"}}
	}},
	{"knock", func(d [4]string) c06Event {
		return c06Event{typ: "m.room.member", sender: "@alice:" + d[0], stateKey: c06sp("@alice:" + d[0]), content: map[string]interface{}{"membership": "knock", "join_authorised_via_users_server": "@carol:" + d[3]}}
	}},
	{"unknown-membership", func(d [4]string) c06Event {
		return c06Event{typ: "m.room.member", sender: "@alice:" + d[0], stateKey: c06sp("@bob:" + d[2]), content: map[string]interface{}{"membership": "Invite"}}
	}},
	{"create", func(d [4]string) c06Event {
		return c06Event{typ: "m.room.create", sender: "@alice:" + d[0], stateKey: c06sp(""), content: map[string]interface{}{"creator": "@alice:" + d[0], "room_version": "x"}}
	}},
}

// domain patterns (sender, event-ID, target, authoriser): all different, pairwise equalities, all equal
var c06Doms = [][4]string{
	{"a.example", "b.example", "c.example", "d.example"},
	{"a.example", "a.example", "c.example", "d.example"},
	{"a.example", "b.example", "a.example", "d.example"},
	{"a.example", "b.example", "c.example", "a.example"},
	{"a.example", "b.example", "b.example", "d.example"},
	{"a.example", "b.example", "c.example", "c.example"},
	{"a.example", "a.example", "a.example", "a.example"},
	{"a.example:8448", "b.example", "[::1]:8448", "1.2.3.4"},
	{"a.example", "a.example:8448", "A.example", "a.exampl"},
	// 9-11: the authorising user's server carries an explicit port / is an IPv6 literal with a port /
	// is the sender's host without the sender's port: host and host:port are DIFFERENT servers
	{"a.example", "b.example", "c.example", "d.example:8448"},
	{"a.example", "b.example", "c.example", "[2001:db8::1]:8448"},
	{"a.example:8448", "b.example", "c.example:8448", "a.example"},
}

// c06PortPattern: index of the first pattern of the host-versus-host:port family
const c06PortPattern = 9

// the names a server name must NOT be confused with: the same host without the port (and, for an
// IPv6 literal, also without the brackets)
func c06HostOnly(name string) []string {
	var out []string
	host := name
	if strings.HasPrefix(name, "[") {
		if i := strings.Index(name, "]"); i > 0 {
			host = name[:i+1]
			if host != name {
				out = append(out, host)
			}
			out = append(out, name[1:i])
		}
		return out
	}
	if i := strings.LastIndex(name, ":"); i > 0 {
		out = append(out, name[:i])
	}
	return out
}

// candidates for the valid-signer subsets: the distinct servers of the pattern, plus (port family)
// their port-less look-alikes
func c06Candidates(di int, d [4]string) []string {
	uniq := c06DomUniq(d)
	if di < c06PortPattern {
		return uniq
	}
	out := append([]string{}, uniq...)
	for _, x := range uniq {
		for _, h := range c06HostOnly(x) {
			dup := false
			for _, y := range out {
				dup = dup || y == h
			}
			if !dup {
				out = append(out, h)
			}
		}
	}
	return out
}

func c06DomUniq(d [4]string) []string {
	var out []string
	for _, x := range d {
		dup := false
		for _, y := range out {
			dup = dup || x == y
		}
		if !dup {
			out = append(out, x)
		}
	}
	return out
}

func (c *Ctx) c06Run(impl string, ver string, args [][]byte, corr, prop, desc string) bool {
	// skip events the library cannot hold at all (counted)
	if impl == "C06.verify" {
		if _, _, err := c06Parse(ver, args[2], strings.HasSuffix(string(args[0]), "+u")); err != nil {
			c.Count("skipped: event does not parse")
			return false
		}
	}
	out := c.Run(impl, args, corr, prop, desc)
	if bytes.HasPrefix(out, B("noparse")) {
		c.Count("emitted-noparse")
	}
	return true
}

func genC06(c *Ctx) {
	c06GenScripted(c)
	c06GenMalformed(c)
	c06GenKeyring(c)
	c06GenPseudo(c)
	c06GenTwin(c)
	c06GenDupVia(c)
	c06GenWire(c)
}

// G. received bytes versus JSON() (hunt C/1): TOP-LEVEL members repeated or under a case variant, in
// wire orders of more than 12 members.  The PDU struct is filled from the bytes as received, JSON()
// is their canonical re-sort; the signers demanded must be those of JSON() (what is signed, hashed,
// stored).  Exact repetitions agree since the sort is stable (F63-sort); a case variant that comes
// AFTER the exact member on the wire sorts BEFORE it: recorded finding F63.
func c06GenWire(c *Ctx) {
	type member struct{ k, v string }
	type edit struct {
		name  string
		extra []member // added members; placed relative to the exact one by `after`
		after bool
	}
	edits := []edit{
		{"none", nil, true},
		{"sender-twice-victim-first", []member{{"sender", `"@victim:g.example"`}}, false},
		{"sender-twice-victim-last", []member{{"sender", `"@victim:g.example"`}}, true},
		{"type-twice-message-last", []member{{"type", `"m.room.message"`}}, true},
		{"type-twice-message-first", []member{{"type", `"m.room.message"`}}, false},
		{"statekey-twice", []member{{"state_key", `"@zed:z.example"`}}, true},
		{"statekey-twice-first", []member{{"state_key", `"@zed:z.example"`}}, false},
		{"content-twice", []member{{"content", `{"membership":"leave"}`}}, true},
		{"content-twice-first", []member{{"content", `{"membership":"leave"}`}}, false},
		{"Type-after", []member{{"Type", `"m.room.message"`}}, true},
		{"Type-before", []member{{"Type", `"m.room.message"`}}, false},
		{"Sender-after", []member{{"Sender", `"@victim:g.example"`}}, true},
		{"Sender-before", []member{{"Sender", `"@victim:g.example"`}}, false},
		{"State_key-after", []member{{"State_key", `"@zed:z.example"`}}, true},
		{"Content-after", []member{{"Content", `{"membership":"leave"}`}}, true},
		{"Content-before", []member{{"Content", `{"membership":"leave"}`}}, false},
	}
	exactOf := func(k string) string { return strings.ToLower(k) }
	obj := func(ms []member) []byte {
		var b strings.Builder
		b.WriteByte('{')
		for i, m := range ms {
			if i > 0 {
				b.WriteByte(',')
			}
			b.WriteString(strconv.Quote(m.k) + ":" + m.v)
		}
		b.WriteByte('}')
		return B(b.String())
	}
	valids := [][]string{
		{"a.example", "b.example", "c.example", "g.example", "z.example"},
		{"a.example", "b.example", "c.example"},
		{"a.example", "b.example", "g.example", "z.example"},
	}
	shuffles := c.Scale(6, 24)
	for vi, ver := range c06Versions {
		for ei, ed := range edits {
			for sh := 0; sh < shuffles; sh++ {
				if !c.Thorough() && ed.name != "sender-twice-victim-first" && ed.name != "type-twice-message-last" && (vi+ei+sh)%3 != 0 {
					continue
				}
				// an invite of @bob:c.example by @alice:a.example, padded beyond 12 members
				base := []member{
					{"auth_events", `[]`}, {"content", `{"membership":"invite"}`}, {"depth", `5`},
					{"origin", `"a.example"`}, {"origin_server_ts", `1700000000555`}, {"prev_events", `[]`},
					{"room_id", strconv.Quote(c06RoomID(ver))}, {"sender", `"@alice:a.example"`},
					{"state_key", `"@bob:c.example"`}, {"type", `"m.room.member"`},
					{"x1", `1`}, {"x2", `2`}, {"x3", `3`},
				}
				if ver == "1" || ver == "2" {
					base = append(base, member{"event_id", `"$w:b.example"`})
				}
				c.Rng.Shuffle(len(base), func(a, b int) { base[a], base[b] = base[b], base[a] })
				// place the extra members: all before the first member, or all at the end (so before /
				// after the exact one in wire order), at a random offset among the others
				var ms []member
				if ed.after {
					ms = append(append(ms, base...), ed.extra...)
				} else {
					ms = append(append(ms, ed.extra...), base...)
				}
				// keep the relative order of extra and exact member, move everything else around
				for tries := 0; tries < 4; tries++ {
					i, j := c.Rng.Intn(len(ms)), c.Rng.Intn(len(ms))
					involved := false
					for _, x := range ed.extra {
						if ms[i].k == x.k || ms[j].k == x.k || ms[i].k == exactOf(x.k) || ms[j].k == exactOf(x.k) {
							involved = true
						}
					}
					if !involved {
						ms[i], ms[j] = ms[j], ms[i]
					}
				}
				// content hash over the canonical form (no signatures / unsigned / hashes member yet)
				can := gmsl.CanonicalJSONAssumeValid(obj(ms))
				sum := sha256.Sum256(can)
				pos := c.Rng.Intn(len(ms) + 1)
				h := member{"hashes", `{"sha256":"` + base64.RawStdEncoding.EncodeToString(sum[:]) + `"}`}
				ms = append(ms[:pos], append([]member{h}, ms[pos:]...)...)
				wire := obj(ms)
				if _, _, err := c06Parse(ver, wire, true); err != nil {
					c.Count("skipped: event does not parse")
					continue
				}
				for wi, valid := range valids {
					if wi != sh%len(valids) && !c.Thorough() {
						continue
					}
					args := [][]byte{B(ver), wire, B(""), B("real"), B("ok")}
					for _, s := range valid {
						args = append(args, B(s))
					}
					c.Run("C06.verify_wire", args, "C06.verify_wire", "C06.prop.wire", fmt.Sprintf("wire v=%s edit=%s shuffle=%d valid=%d", ver, ed.name, sh, wi))
					c.Count("wire/" + ed.name)
				}
			}
		}
	}
}

// F. the member join_authorised_via_users_server repeated / under a case variant / with null and
// non-string occurrences (repair F49): the signature check must demand the server of the user the
// AUTH RULES read (encoding/json into MemberContent: folded names, last string occurrence, null
// ignored, other values unparseable).  twin = the same event without any such member.
func c06GenDupVia(c *Ctx) {
	const via = `"join_authorised_via_users_server"`
	const viaCap = `"Join_authorised_via_users_server"`
	const viaUp = `"JOIN_AUTHORISED_VIA_USERS_SERVER"`
	const viaLongS = "\"join_authori\u017fed_via_users_server\""
	x, v := `"@x:x.example"`, `"@admin:v.example"`
	type fam struct {
		name    string
		members []string
	}
	fams := []fam{
		{"single-exact", []string{via + ":" + v}},
		{"single-capital", []string{viaCap + ":" + v}},
		{"single-upper", []string{viaUp + ":" + v}},
		{"single-long-s", []string{viaLongS + ":" + v}},
		{"twice-x-then-v", []string{via + ":" + x, via + ":" + v}},
		{"twice-v-then-x", []string{via + ":" + v, via + ":" + x}},
		{"exact-x-then-capital-v", []string{via + ":" + x, viaCap + ":" + v}},
		{"capital-v-then-exact-x", []string{viaCap + ":" + v, via + ":" + x}},
		{"capital-x-then-exact-v", []string{viaCap + ":" + x, via + ":" + v}},
		{"exact-x-then-long-s-v", []string{via + ":" + x, viaLongS + ":" + v}},
		{"long-s-v-then-exact-x", []string{viaLongS + ":" + v, via + ":" + x}},
		{"upper-x-then-capital-v", []string{viaUp + ":" + x, viaCap + ":" + v}},
		{"v-then-null", []string{via + ":" + v, via + ":null"}},
		{"null-then-v", []string{via + ":null", via + ":" + v}},
		{"only-null", []string{via + ":null"}},
		{"v-then-capital-null", []string{via + ":" + v, viaCap + ":null"}},
		{"x-null-v", []string{via + ":" + x, via + ":null", via + ":" + v}},
		{"x-v-null", []string{via + ":" + x, via + ":" + v, viaCap + ":null"}},
		{"v-then-empty", []string{via + ":" + v, via + `:""`}},
		{"empty-then-v", []string{via + `:""`, via + ":" + v}},
		{"only-empty", []string{via + `:""`}},
		{"v-then-number", []string{via + ":" + v, via + ":5"}},
		{"number-then-v", []string{via + ":5", via + ":" + v}},
		{"v-then-capital-object", []string{via + ":" + v, viaCap + `:{"a":"@x:x.example"}`}},
		{"true-then-v", []string{viaCap + ":true", via + ":" + v}},
		{"v-then-array", []string{via + ":" + v, via + `:["@x:x.example"]`}},
		{"v-then-no-colon", []string{via + ":" + v, via + `:"@nocolon"`}},
		{"no-sigil-then-v", []string{via + `:"x:x.example"`, via + ":" + v}},
		{"v-then-no-sigil", []string{via + ":" + v, viaCap + `:"x:x.example"`}},
		{"three-x-v-x", []string{via + ":" + x, viaCap + ":" + v, via + ":" + x}},
		{"three-v-x-v", []string{viaCap + ":" + v, via + ":" + x, viaUp + ":" + v}},
	}
	type kind struct {
		name    string
		sk      string
		members []string // the twin's content members, raw
	}
	kinds := []kind{
		{"join", "@alice:a.example", []string{`"displayname":"A"`, `"membership":"join"`}},
		{"invite", "@bob:c.example", []string{`"membership":"invite"`}},
		{"knock", "@alice:a.example", []string{`"membership":"knock"`, `"reason":"r"`}},
	}
	valids := [][]string{
		{"a.example", "b.example", "c.example", "x.example", "v.example"},
		{"a.example", "b.example", "c.example", "x.example"},
		{"a.example", "b.example", "c.example", "v.example"},
	}
	for vi, ver := range c06Versions {
		for ki, k := range kinds {
			mk := func(content string) []byte {
				m := map[string]interface{}{
					"room_id": c06RoomID(ver), "sender": "@alice:a.example", "type": "m.room.member", "state_key": k.sk,
					"content": json.RawMessage(content), "origin_server_ts": 1700000000888, "depth": 7,
					"prev_events": []interface{}{}, "auth_events": []interface{}{},
				}
				if ver == "1" || ver == "2" {
					m["event_id"] = "$dup:b.example"
				}
				return c06JSON(m)
			}
			twin := mk("{" + strings.Join(k.members, ",") + "}")
			for fi, f := range fams {
				if k.name != "join" && !c.Thorough() && (vi+fi)%4 != 0 {
					continue
				}
				for pos := 0; pos < 3; pos++ {
					if !c.Thorough() && pos != (vi+ki+fi)%3 && k.name != "join" {
						continue
					}
					var all []string
					switch pos {
					case 0: // before the other members
						all = append(append(all, f.members...), k.members...)
					case 1: // after
						all = append(append(all, k.members...), f.members...)
					default: // the first before, the rest after
						all = append(append(append(all, f.members[0]), k.members...), f.members[1:]...)
					}
					ev := mk("{" + strings.Join(all, ",") + "}")
					if _, _, err := c06Parse(ver, ev, false); err != nil {
						c.Count("skipped: event does not parse")
						continue
					}
					for wi, valid := range valids {
						if k.name != "join" && wi > 0 {
							continue
						}
						args := [][]byte{B(ver), ev, twin, B("real"), B("ok")}
						for _, s := range valid {
							args = append(args, B(s))
						}
						c.Run("C06.verify_twin", args, "C06.verify_twin", "C06.prop.dup", fmt.Sprintf("dupvia v=%s kind=%s fam=%s pos=%d valid=%d", ver, k.name, f.name, pos, wi))
						c.Count("dupvia/" + f.name)
					}
				}
			}
		}
	}
}

// E. twins: the same well-formed event with one more content member under a name the specification
// does not know; the required servers must not change.  Names that encoding/json folds onto
// "membership" (U+017F for s) do change them: recorded finding.
func c06GenTwin(c *Ctx) {
	d := [4]string{"a.example", "b.example", "c.example", "d.example"}
	type extra struct{ key, val string }
	extras := []extra{
		{"member\u017fhip", "leave"}, {"member\u017fhip", "invite"}, {"member\u017fhip", "join"},
		{"Membership", "leave"}, {"MEMBERSHIP", "invite"}, {"membershi", "invite"}, {"membershipp", "join"},
		{"membership ", "invite"}, {"join_authorised_via_users_server ", "@zed:z.example"}, {"Join_Authorised_Via_Users_Server", "@zed:z.example"},
	}
	for _, ver := range c06Versions {
		for _, k := range c06Kinds {
			t := k.mk(d)
			if t.typ != "m.room.member" {
				continue
			}
			t.ts = 1700000000777
			t.eventID = "$tw:" + d[1]
			twin := c06JSON(t.toMap(ver))
			for _, ex := range extras {
				m := t.toMap(ver)
				cont := map[string]interface{}{}
				for kk, vv := range m["content"].(map[string]interface{}) {
					cont[kk] = vv
				}
				cont[ex.key] = ex.val
				m["content"] = cont
				ev := c06JSON(m)
				if _, _, err := c06Parse(ver, ev, false); err != nil {
					c.Count("skipped: event does not parse")
					continue
				}
				for _, valid := range [][]string{{"a.example", "b.example", "c.example", "d.example"}, {"a.example", "b.example"}, {"a.example", "b.example", "d.example"}} {
					args := [][]byte{B(ver), ev, twin, B("real"), B("ok")}
					for _, s := range valid {
						args = append(args, B(s))
					}
					c.Run("C06.verify_twin", args, "C06.verify_twin", "C06.prop.twin", fmt.Sprintf("twin v=%s kind=%s extra=%q:%q", ver, k.name, ex.key, ex.val))
					c.Count("twin/" + strconv.Quote(ex.key))
				}
			}
		}
	}
}

// A. well-formed events, scripted verifier: version x kind x domain pattern x every subset of the
// candidate servers valid x unrelated server valid or not
func c06GenScripted(c *Ctx) {
	ts := uint64(1700000000000)
	for vi, ver := range c06Versions {
		for ki, k := range c06Kinds {
			for di, d := range c06Doms {
				// quick tier: a third of the domain patterns per (version, kind), rotating; the first
				// (all different) and the all-equal one always
				portFamily := di >= c06PortPattern && strings.Contains(k.name, "restricted-join")
				if !c.Thorough() && di != 0 && di != 6 && (di+vi+ki)%3 != 0 && !portFamily {
					continue
				}
				t := k.mk(d)
				t.ts = ts + uint64(vi*1000+ki*10+di)
				t.eventID = "$ev" + strconv.Itoa(ki) + ":" + d[1]
				m := t.toMap(ver)
				c06AddHash(m)
				ev := c06JSON(m)
				uniq := c06DomUniq(d)
				if portFamily {
					uniq = c06Candidates(di, d)
				}
				for mask := 0; mask < 1<<len(uniq); mask++ {
					var valid [][]byte
					for i, s := range uniq {
						if mask&(1<<i) != 0 {
							valid = append(valid, B(s))
						}
					}
					// the unrelated server's (in)validity must never matter: alternate
					if (mask+di)%2 == 0 {
						valid = append(valid, B("unrelated.example"))
					}
					flag := "wf"
					if (mask+ki)%4 == 1 {
						flag = "wf+u"
					}
					args := append([][]byte{B(flag), B(ver), ev, B("real"), B("ok")}, valid...)
					if c.c06Run("C06.verify", ver, args, "C06.verify", "C06.prop.verify", fmt.Sprintf("scripted v=%s kind=%s doms=%d mask=%d", ver, k.name, di, mask)) {
						c.Count("scripted/" + k.name)
					}
				}
				// the bulk call itself failing
				if di == 0 {
					args := [][]byte{B("wf"), B(ver), ev, B("real"), B("verr"), B(d[0]), B(d[1]), B(d[2]), B(d[3])}
					c.c06Run("C06.verify", ver, args, "C06.verify", "C06.prop.verify", "verifier error v="+ver+" kind="+k.name)
					c.Count("scripted/verifier-error")
				}
			}
		}
	}
}

// B. malformed / ambiguous / boundary events (flag any: the oracle speaks only where the event is
// well-formed; the model must reproduce the implementation everywhere)
func c06GenMalformed(c *Ctx) {
	type mal struct {
		name string
		edit func(m map[string]interface{}) []byte // returns raw JSON
	}
	raw := func(m map[string]interface{}) []byte { return c06JSON(m) }
	// textual replacement of the first occurrence of a member name (keeps the value)
	rename := func(m map[string]interface{}, from, to string) []byte {
		b := raw(m)
		return bytes.Replace(b, B(`"`+from+`":`), B(`"`+to+`":`), 1)
	}
	// append a member at the end of the top-level object
	appendTop := func(b []byte, member string) []byte {
		return append(append(append([]byte{}, b[:len(b)-1]...), B(","+member)...), '}')
	}
	content := func(m map[string]interface{}) map[string]interface{} { return m["content"].(map[string]interface{}) }
	mals := []mal{
		{"plain", func(m map[string]interface{}) []byte { return raw(m) }},
		{"sender-missing", func(m map[string]interface{}) []byte { delete(m, "sender"); return raw(m) }},
		{"sender-null", func(m map[string]interface{}) []byte { m["sender"] = nil; return raw(m) }},
		{"sender-no-colon", func(m map[string]interface{}) []byte { m["sender"] = "@alice"; return raw(m) }},
		{"sender-no-sigil", func(m map[string]interface{}) []byte { m["sender"] = "alice:a.example"; return raw(m) }},
		{"sender-empty-domain", func(m map[string]interface{}) []byte { m["sender"] = "@alice:"; return raw(m) }},
		{"sender-bad-domain", func(m map[string]interface{}) []byte { m["sender"] = "@alice:a_b.example"; return raw(m) }},
		{"sender-two-colons", func(m map[string]interface{}) []byte { m["sender"] = "@ali:ce:a.example:80"; return raw(m) }},
		{"sender-capital-key", func(m map[string]interface{}) []byte { return rename(m, "sender", "Sender") }},
		{"sender-long-s-key", func(m map[string]interface{}) []byte { return rename(m, "sender", "\u017fender") }},
		{"sender-dup-last-wins", func(m map[string]interface{}) []byte { return appendTop(raw(m), `"sender":"@zed:z.example"`) }},
		{"sender-dup-null", func(m map[string]interface{}) []byte { return appendTop(raw(m), `"sender":null`) }},
		{"sender-dup-fold", func(m map[string]interface{}) []byte { return appendTop(raw(m), `"SENDER":"@zed:z.example"`) }},
		{"type-capital-key", func(m map[string]interface{}) []byte { return rename(m, "type", "TYPE") }},
		{"type-dup", func(m map[string]interface{}) []byte { return appendTop(raw(m), `"type":"m.room.message"`) }},
		{"type-dup-member", func(m map[string]interface{}) []byte { return appendTop(raw(m), `"type":"m.room.member"`) }},
		{"statekey-kelvin-dup", func(m map[string]interface{}) []byte { return appendTop(raw(m), `"state_Key":"@kel:k.example"`) }},
		{"statekey-missing", func(m map[string]interface{}) []byte { delete(m, "state_key"); return raw(m) }},
		{"statekey-null", func(m map[string]interface{}) []byte { m["state_key"] = nil; return raw(m) }},
		{"statekey-empty", func(m map[string]interface{}) []byte { m["state_key"] = ""; return raw(m) }},
		{"statekey-no-sigil", func(m map[string]interface{}) []byte { m["state_key"] = "bob:c.example"; return raw(m) }},
		{"statekey-no-colon", func(m map[string]interface{}) []byte { m["state_key"] = "@bob"; return raw(m) }},
		{"statekey-empty-domain", func(m map[string]interface{}) []byte { m["state_key"] = "@bob:"; return raw(m) }},
		{"statekey-colon-domain", func(m map[string]interface{}) []byte { m["state_key"] = "@bob::c.example:1"; return raw(m) }},
		{"statekey-dup-null", func(m map[string]interface{}) []byte { return appendTop(raw(m), `"state_key":null`) }},
		{"statekey-dup", func(m map[string]interface{}) []byte { return appendTop(raw(m), `"state_key":"@zed:z.example"`) }},
		{"content-missing", func(m map[string]interface{}) []byte { delete(m, "content"); return raw(m) }},
		{"content-null", func(m map[string]interface{}) []byte { m["content"] = nil; return raw(m) }},
		{"content-array", func(m map[string]interface{}) []byte { m["content"] = []interface{}{}; return raw(m) }},
		{"content-string", func(m map[string]interface{}) []byte { m["content"] = "invite"; return raw(m) }},
		{"content-number", func(m map[string]interface{}) []byte { m["content"] = 1; return raw(m) }},
		{"content-true", func(m map[string]interface{}) []byte { m["content"] = true; return raw(m) }},
		{"content-empty", func(m map[string]interface{}) []byte { m["content"] = map[string]interface{}{}; return raw(m) }},
		{"content-dup-last-wins", func(m map[string]interface{}) []byte {
			return appendTop(raw(m), `"content":{"membership":"invite"}`)
		}},
		{"content-dup-null", func(m map[string]interface{}) []byte { return appendTop(raw(m), `"content":null`) }},
		{"content-capital-dup", func(m map[string]interface{}) []byte {
			return appendTop(raw(m), `"Content":{"membership":"join","join_authorised_via_users_server":"@zed:z.example"}`)
		}},
		{"membership-missing", func(m map[string]interface{}) []byte { delete(content(m), "membership"); return raw(m) }},
		{"membership-null", func(m map[string]interface{}) []byte { content(m)["membership"] = nil; return raw(m) }},
		{"membership-number", func(m map[string]interface{}) []byte { content(m)["membership"] = 1; return raw(m) }},
		{"membership-object", func(m map[string]interface{}) []byte {
			content(m)["membership"] = map[string]interface{}{}
			return raw(m)
		}},
		{"membership-capital-key", func(m map[string]interface{}) []byte { return rename(m, "membership", "Membership") }},
		{"membership-long-s-key", func(m map[string]interface{}) []byte { return rename(m, "membership", "member\u017fhip") }},
		{"membership-fold-override-invite", func(m map[string]interface{}) []byte {
			content(m)["membershiP"] = "invite"
			return raw(m)
		}},
		{"membership-fold-override-join", func(m map[string]interface{}) []byte {
			content(m)["membershiP"] = "join"
			return raw(m)
		}},
		{"membership-fold-before", func(m map[string]interface{}) []byte {
			content(m)["MEMBERSHIP"] = "invite"
			return raw(m)
		}},
		{"membership-fold-number", func(m map[string]interface{}) []byte {
			content(m)["membershiP"] = 5
			return raw(m)
		}},
		{"membership-fold-null", func(m map[string]interface{}) []byte {
			content(m)["membershiP"] = nil
			return raw(m)
		}},
		{"membership-join-padded", func(m map[string]interface{}) []byte { content(m)["membership"] = "join "; return raw(m) }},
		{"membership-invit", func(m map[string]interface{}) []byte { content(m)["membership"] = "invit"; return raw(m) }},
		{"via-null", func(m map[string]interface{}) []byte {
			content(m)["join_authorised_via_users_server"] = nil
			return raw(m)
		}},
		{"via-number", func(m map[string]interface{}) []byte {
			content(m)["join_authorised_via_users_server"] = 5
			return raw(m)
		}},
		{"via-true", func(m map[string]interface{}) []byte {
			content(m)["join_authorised_via_users_server"] = true
			return raw(m)
		}},
		{"via-object", func(m map[string]interface{}) []byte {
			content(m)["join_authorised_via_users_server"] = map[string]interface{}{"a": "@x:y"}
			return raw(m)
		}},
		{"via-array", func(m map[string]interface{}) []byte {
			content(m)["join_authorised_via_users_server"] = []interface{}{"@x:y"}
			return raw(m)
		}},
		{"via-empty", func(m map[string]interface{}) []byte {
			content(m)["join_authorised_via_users_server"] = ""
			return raw(m)
		}},
		{"via-no-sigil", func(m map[string]interface{}) []byte {
			content(m)["join_authorised_via_users_server"] = "carol:d.example"
			return raw(m)
		}},
		{"via-no-colon", func(m map[string]interface{}) []byte {
			content(m)["join_authorised_via_users_server"] = "@carol"
			return raw(m)
		}},
		{"via-empty-domain", func(m map[string]interface{}) []byte {
			content(m)["join_authorised_via_users_server"] = "@carol:"
			return raw(m)
		}},
		{"via-capital-key", func(m map[string]interface{}) []byte {
			return rename(m, "join_authorised_via_users_server", "Join_authorised_via_users_server")
		}},
		{"via-escaped", func(m map[string]interface{}) []byte {
			return bytes.Replace(raw(m), B(`"@carol:`), B(`"\u0040car\u006fl:`), 1)
		}},
		{"eventid-no-colon", func(m map[string]interface{}) []byte { m["event_id"] = "$abc"; return raw(m) }},
		{"eventid-no-sigil", func(m map[string]interface{}) []byte { m["event_id"] = "abc:b.example"; return raw(m) }},
		{"eventid-empty", func(m map[string]interface{}) []byte { m["event_id"] = ""; return raw(m) }},
		{"eventid-missing", func(m map[string]interface{}) []byte { delete(m, "event_id"); return raw(m) }},
		{"eventid-empty-domain", func(m map[string]interface{}) []byte { m["event_id"] = "$abc:"; return raw(m) }},
		{"eventid-present-anyway", func(m map[string]interface{}) []byte { m["event_id"] = "$abc:e.example"; return raw(m) }},
		{"eventid-colon-first", func(m map[string]interface{}) []byte { m["event_id"] = "$:e.example:9"; return raw(m) }},
		{"ts-missing", func(m map[string]interface{}) []byte { delete(m, "origin_server_ts"); return raw(m) }},
		{"ts-null", func(m map[string]interface{}) []byte { m["origin_server_ts"] = nil; return raw(m) }},
		{"ts-zero", func(m map[string]interface{}) []byte { m["origin_server_ts"] = 0; return raw(m) }},
		{"ts-max", func(m map[string]interface{}) []byte {
			m["origin_server_ts"] = uint64(18446744073709551615)
			return raw(m)
		}},
		{"ts-dup", func(m map[string]interface{}) []byte { return appendTop(raw(m), `"origin_server_ts":5`) }},
		// parsed as untrusted with a content hash that does not match: the library keeps the REDACTED
		// event (so join_authorised_via_users_server survives only where the redaction keeps it)
		{"hash-mismatch", func(m map[string]interface{}) []byte {
			c06AddHash(m)
			content(m)["displayname"] = "changed after hashing"
			return raw(m)
		}},
		{"hash-ok", func(m map[string]interface{}) []byte { c06AddHash(m); return raw(m) }},
	}
	lookups := []string{"real", "=E", "=N", "=Dother.example"}
	d := [4]string{"a.example", "b.example", "c.example", "d.example"}
	for vi, ver := range c06Versions {
		for ki, k := range c06Kinds {
			for mi, ml := range mals {
				if !c.Thorough() && (vi+ki+mi)%4 != 0 && ml.name != "plain" && ml.name != "hash-mismatch" {
					continue
				}
				t := k.mk(d)
				t.ts = 1700000000123
				t.eventID = "$e:" + d[1]
				ev := ml.edit(t.toMap(ver))
				for li, lk := range lookups {
					if li > 0 && (vi+ki+mi+li)%4 != 0 {
						continue
					}
					// all candidates valid; and one run with one of them (rotating) invalid
					all := []string{"a.example", "b.example", "c.example", "d.example", "z.example", "k.example", "other.example", "e.example", "", "c.example:1", ":c.example:1", "a.example:80"}
					for variant := 0; variant < 2; variant++ {
						var valid [][]byte
						drop := (vi + ki + mi) % 4
						for i, s := range all {
							if variant == 1 && i == drop {
								continue
							}
							valid = append(valid, B(s))
						}
						flag := "any"
						if strings.HasPrefix(ml.name, "hash-") {
							flag = "any+u"
						}
						args := append([][]byte{B(flag), B(ver), ev, B(lk), B("ok")}, valid...)
						if c.c06Run("C06.verify", ver, args, "C06.verify", "C06.prop.verify", fmt.Sprintf("malformed v=%s kind=%s edit=%s lookup=%s variant=%d", ver, k.name, ml.name, lk, variant)) {
							c.Count("malformed/" + ml.name)
						}
					}
				}
			}
		}
	}
}

// C. real key ring: every required signer in turn gets every fault while the others are good
func c06GenKeyring(c *Ctx) {
	faults := []string{"good", "absent", "corrupt", "otherkey", "nokey", "expired", "expiredlater", "until", "untileq", "two", "algo"}
	doms := [][4]string{c06Doms[0], c06Doms[1], c06Doms[2], c06Doms[6], c06Doms[9], c06Doms[10], c06Doms[11]}
	n := 0
	for vi, ver := range c06Versions {
		for ki, k := range c06Kinds {
			for di, d := range doms {
				portFamily := di >= 4
				if portFamily && !strings.Contains(k.name, "restricted-join") && !c.Thorough() {
					continue
				}
				if !c.Thorough() && di != 0 && (di+vi+ki)%4 != 0 && !portFamily {
					continue
				}
				t := k.mk(d)
				t.eventID = "$kr" + strconv.Itoa(ki) + ":" + d[1]
				ev := c06JSON(t.toMap(ver))
				uniq := c06DomUniq(d)
				run := func(script map[string]string, tsmode, desc string) {
					var ents []string
					for s, f := range script {
						ents = append(ents, s+"="+f)
					}
					sort.Strings(ents)
					flag := "wf"
					if n%3 == 1 && (tsmode == "past" || tsmode == "future") {
						flag = "wf+u" // (integers beyond 2^53 are refused by the untrusted parser from v6 on)
					}
					n++
					args := [][]byte{B(flag), B(ver), ev, B("real"), B(tsmode)}
					for _, e := range ents {
						args = append(args, B(e))
					}
					c.c06Run("C06.keyring", ver, args, "C06.keyring", "C06.prop.keyring", fmt.Sprintf("keyring v=%s kind=%s doms=%d %s", ver, k.name, di, desc))
				}
				// all good (plus unrelated servers, one of them with a bad signature)
				base := map[string]string{}
				for _, s := range uniq {
					base[s] = "good"
				}
				base["unrelated.example"] = "corrupt"
				base["unrelated2.example"] = "good"
				run(base, "past", "all good")
				c.Count("keyring/all-good")
				if di == 0 {
					run(base, "future", "all good, event dated 8 days ahead")
					c.Count("keyring/future")
					// origin_server_ts beyond int64 (F62): as far in the future as it gets
					for ti, tsmode := range []string{"wrap63", "max", "wrap63plus"} {
						if !c.Thorough() && ti != (vi+ki)%3 && ki > 2 {
							continue
						}
						run(base, tsmode, "all good, origin_server_ts beyond int64")
						c.Count("keyring/ts-" + tsmode)
					}
					// entries of other servers / other key IDs that do not decode (F61): never matter
					junkKinds := []string{"junk-padded", "junk-notb64", "junk-number", "junk-object", "junk-string", "junk-array", "junk-harmless"}
					for ji, jk := range junkKinds {
						if !c.Thorough() && ji != (vi+ki)%len(junkKinds) && ji != (vi+2*ki+3)%len(junkKinds) {
							continue
						}
						sc := map[string]string{}
						for _, x := range uniq {
							sc[x] = "good"
						}
						sc["junkhost.example"] = jk
						run(sc, "past", "all good, unrelated entry "+jk)
						c.Count("keyring/" + jk)
					}
					sc := map[string]string{}
					for _, x := range uniq {
						sc[x] = "good"
					}
					sc[uniq[(vi+ki)%len(uniq)]] = "goodjunk"
					run(sc, "past", "all good, one signer with undecodable other key IDs")
					c.Count("keyring/goodjunk")
				}
				// one signer bad
				for si, s := range uniq {
					for fi, f := range faults[1:] {
						if !c.Thorough() && (vi+ki+di+si+fi)%3 != 0 {
							continue
						}
						sc := map[string]string{}
						for _, x := range uniq {
							sc[x] = "good"
						}
						sc[s] = f
						if fi%2 == 0 {
							sc["unrelated.example"] = "good"
						}
						run(sc, "past", "signer "+s+" "+f)
						c.Count("keyring/fault=" + f)
					}
				}
				// host versus host:port: the port-less namesake signs instead of the required server
				if portFamily {
					for _, x := range uniq {
						for _, h := range c06HostOnly(x) {
							if _, taken := base[h]; taken {
								continue
							}
							sc := map[string]string{}
							for _, y := range uniq {
								sc[y] = "good"
							}
							sc[x] = "absent"
							sc[h] = "good"
							run(sc, "past", "signed by "+h+" instead of "+x)
							c.Count("keyring/namesake")
						}
					}
				}
				// random assignments
				for r := 0; r < c.Scale(1, 6); r++ {
					sc := map[string]string{}
					for _, x := range uniq {
						if c.Rng.Intn(3) > 0 {
							sc[x] = faults[c.Rng.Intn(len(faults))]
						}
					}
					run(sc, "past", "random faults")
					c.Count("keyring/random")
				}
			}
		}
	}
}

// D. pseudo-ID version
func c06GenPseudo(c *Ctx) {
	verImpl, err := gmsl.GetRoomVersion(gmsl.RoomVersion(c06Pseudo))
	if err != nil {
		return
	}
	pid := func(name string) (string, ed25519.PrivateKey) {
		k := c06Key("pseudo/" + name)
		return base64.RawURLEncoding.EncodeToString(k.Public().(ed25519.PublicKey)), k
	}
	alice, aliceKey := pid("alice")
	bob, bobKey := pid("bob")
	type pcase struct {
		name    string
		typ     string
		sk      *string
		content map[string]interface{}
	}
	mapping := func(sigs interface{}) map[string]interface{} {
		m := map[string]interface{}{"user_room_key": alice, "user_id": "@alice:a.example"}
		if sigs != nil {
			m["signatures"] = sigs
		}
		return m
	}
	// mapping for room key `key` naming `uid`, carrying signature entries of the listed servers (F60)
	mappingFor := func(key, uid string, signers ...string) map[string]interface{} {
		m := map[string]interface{}{"user_room_key": key, "user_id": uid}
		if len(signers) > 0 {
			sg := map[string]interface{}{}
			for _, x := range signers {
				sg[x] = map[string]interface{}{"ed25519:1": "AAAA"}
			}
			m["signatures"] = sg
		}
		return m
	}
	join := func(m map[string]interface{}) map[string]interface{} {
		return map[string]interface{}{"membership": "join", "mxid_mapping": m}
	}
	sig1 := map[string]interface{}{"a.example": map[string]interface{}{"ed25519:1": "AAAA"}}
	sig2 := map[string]interface{}{"a.example": map[string]interface{}{"ed25519:1": "AAAA"}, "b.example": map[string]interface{}{"ed25519:x": "BBBB"}}
	cases := []pcase{
		{"message", "m.room.message", nil, map[string]interface{}{"body": "x"}},
		{"join-mapping-1", "m.room.member", c06sp(alice), map[string]interface{}{"membership": "join", "mxid_mapping": mapping(sig1)}},
		{"join-mapping-2", "m.room.member", c06sp(alice), map[string]interface{}{"membership": "join", "mxid_mapping": mapping(sig2)}},
		{"join-mapping-unsigned", "m.room.member", c06sp(alice), map[string]interface{}{"membership": "join", "mxid_mapping": mapping(nil)}},
		{"join-mapping-empty-sigs", "m.room.member", c06sp(alice), map[string]interface{}{"membership": "join", "mxid_mapping": mapping(map[string]interface{}{})}},
		{"join-no-mapping", "m.room.member", c06sp(alice), map[string]interface{}{"membership": "join"}},
		{"join-null-mapping", "m.room.member", c06sp(alice), map[string]interface{}{"membership": "join", "mxid_mapping": nil}},
		{"join-mapping-string", "m.room.member", c06sp(alice), map[string]interface{}{"membership": "join", "mxid_mapping": "x"}},
		{"join-mapping-sigs-bad", "m.room.member", c06sp(alice), map[string]interface{}{"membership": "join", "mxid_mapping": mapping(map[string]interface{}{"a.example": "x"})}},
		{"invite", "m.room.member", c06sp(bob), map[string]interface{}{"membership": "invite"}},
		{"invite-with-mapping", "m.room.member", c06sp(bob), map[string]interface{}{"membership": "invite", "mxid_mapping": mapping(sig1)}},
		{"leave", "m.room.member", c06sp(bob), map[string]interface{}{"membership": "leave"}},
		{"member-no-statekey", "m.room.member", nil, map[string]interface{}{"membership": "join", "mxid_mapping": mapping(sig1)}},
		{"join-via-undecodable", "m.room.member", c06sp(alice), map[string]interface{}{"membership": "join", "mxid_mapping": mapping(sig1), "join_authorised_via_users_server": "@carol:d.example"}},
		{"join-via-malformed", "m.room.member", c06sp(alice), map[string]interface{}{"membership": "join", "mxid_mapping": mapping(sig1), "join_authorised_via_users_server": "carol"}},
	}
	// F60: who must sign the mapping is decided by user_id, not by the signatures present
	cases = append(cases,
		pcase{"join-victim-unsigned", "m.room.member", c06sp(alice), join(mappingFor(alice, "@admin:v.example"))},
		pcase{"join-victim-signed-by-other", "m.room.member", c06sp(alice), join(mappingFor(alice, "@admin:v.example", "b.example"))},
		pcase{"join-victim-signed-by-both", "m.room.member", c06sp(alice), join(mappingFor(alice, "@admin:v.example", "b.example", "v.example"))},
		pcase{"join-victim-signed", "m.room.member", c06sp(alice), join(mappingFor(alice, "@admin:v.example", "v.example"))},
		pcase{"join-other-room-key", "m.room.member", c06sp(alice), join(mappingFor(bob, "@alice:a.example", "a.example"))},
		pcase{"join-other-room-key-victim", "m.room.member", c06sp(alice), join(mappingFor(bob, "@admin:v.example", "v.example"))},
		pcase{"join-empty-room-key", "m.room.member", c06sp(alice), join(mappingFor("", "@alice:a.example", "a.example"))},
		pcase{"join-user-port", "m.room.member", c06sp(alice), join(mappingFor(alice, "@alice:a.example:8448", "a.example"))},
		pcase{"join-user-ipv6", "m.room.member", c06sp(alice), join(mappingFor(alice, "@alice:[::1]:8448", "a.example"))},
		pcase{"join-user-no-sigil", "m.room.member", c06sp(alice), join(mappingFor(alice, "alice:a.example", "a.example"))},
		pcase{"join-user-no-colon", "m.room.member", c06sp(alice), join(mappingFor(alice, "@alice", "a.example"))},
		pcase{"join-user-empty-domain", "m.room.member", c06sp(alice), join(mappingFor(alice, "@alice:", "a.example"))},
		pcase{"join-user-short", "m.room.member", c06sp(alice), join(mappingFor(alice, "@:a", "a"))},
		pcase{"join-user-empty", "m.room.member", c06sp(alice), join(mappingFor(alice, "", "a.example"))},
	)
	signers := [][]string{{}, {"alice"}, {"bob"}, {"alice", "bob"}, {"alice-bad"}, {"alice", "bob-bad"}}
	valids := [][]string{{}, {"a.example"}, {"b.example"}, {"a.example", "b.example"}, {"v.example"},
		{"a.example", "b.example", "v.example", "a.example:8448", "[::1]:8448", ""}}
	for _, pc := range cases {
		for _, sg := range signers {
			for _, vl := range valids {
				for _, mode := range []string{"ok", "verr"} {
					if mode == "verr" && len(vl) < 5 {
						continue
					}
					m := map[string]interface{}{
						"room_id": "!room:origin.example", "sender": alice, "type": pc.typ, "content": pc.content,
						"origin_server_ts": 1700000000999, "depth": 3, "prev_events": []interface{}{}, "auth_events": []interface{}{},
					}
					if pc.sk != nil {
						m["state_key"] = *pc.sk
					}
					var selfs []string
					type sr struct{ name, sig string }
					var sigs []sr
					for _, who := range sg {
						name, key, bad := alice, aliceKey, strings.HasSuffix(who, "-bad")
						if strings.HasPrefix(who, "bob") {
							name, key = bob, bobKey
						}
						s, err := c06Signature(verImpl, m, name, "ed25519:1", key)
						if err != nil {
							continue
						}
						if bad {
							s = c06Corrupt(s)
						} else {
							selfs = append(selfs, name)
						}
						sigs = append(sigs, sr{name, s})
					}
					for _, s := range sigs {
						c06PutSig(m, s.name, "ed25519:1", s.sig)
					}
					args := [][]byte{B(c06Pseudo), c06JSON(m), B(mode), B(strconv.Itoa(len(vl)))}
					for _, s := range vl {
						args = append(args, B(s))
					}
					for _, s := range selfs {
						args = append(args, B(s))
					}
					if _, _, err := c06Parse(c06Pseudo, args[1], false); err != nil {
						c.Count("skipped: event does not parse")
						continue
					}
					c.Run("C06.verify_pseudoid", args, "C06.verify_pseudoid", "C06.prop.pseudoid", fmt.Sprintf("pseudoid %s signers=%v valid=%v mode=%s", pc.name, sg, vl, mode))
					c.Count("pseudoid/" + pc.name)
				}
			}
		}
	}
}
