package main

// C07: correspondence of the Coq authorisation model (coq/Auth) with gomatrixserverlib.Allowed.
// Events are plain JSON built here, parsed with NewEventFromTrustedJSON of the room version, and
// supplied to Allowed through an AuthEvents provider. Observable: ok | notallowed | err | panic.

import (
	"bytes"
	"crypto/ed25519"
	"encoding/hex"
	"os"
	"os/exec"
	"path/filepath"
	"encoding/base64"
	"encoding/json"
	"fmt"
	"math/rand"
	"sort"
	"strings"

	gm "github.com/matrix-org/gomatrixserverlib"
	"github.com/matrix-org/gomatrixserverlib/spec"
)

type J = map[string]interface{}

func c07Querier(roomID spec.RoomID, senderID spec.SenderID) (*spec.UserID, error) {
	return spec.NewUserID(string(senderID), true)
}

func c07Class(err error) []byte {
	if err == nil {
		return B("ok")
	}
	if _, ok := err.(*gm.NotAllowed); ok {
		return B("notallowed")
	}
	return B("err")
}

// c07SigTable lists the (public key text, server, key id) triples for which VerifyJSON accepts
// the signed object of a third-party invite, the way membershipAllowedFromThirdPartyInvite calls it.
func c07SigTable(evJSON []byte, auths [][]byte) []byte {
	var ev struct {
		Type    string `json:"type"`
		Content struct {
			TPI *struct {
				Signed json.RawMessage `json:"signed"`
			} `json:"third_party_invite"`
		} `json:"content"`
	}
	if json.Unmarshal(evJSON, &ev) != nil || ev.Type != "m.room.member" {
		return B("[]")
	}
	var evc struct {
		Content json.RawMessage `json:"content"`
	}
	_ = json.Unmarshal(evJSON, &evc)
	var mc gm.MemberContent
	if json.Unmarshal(evc.Content, &mc) != nil || mc.ThirdPartyInvite == nil {
		return B("[]")
	}
	// what the library verifies: the struct marshalled again
	signedLib, err := json.Marshal(mc.ThirdPartyInvite.Signed)
	if err != nil {
		return B("[]")
	}
	// what the rule speaks about: the signed object of the event as it stands
	var signedRaw []byte
	if ev.Content.TPI != nil {
		signedRaw = ev.Content.TPI.Signed
	}
	// every key text that can be read, entry by entry
	keyTexts := map[string]bool{}
	for _, a := range auths {
		var ae struct {
			Type    string `json:"type"`
			Content struct {
				PublicKey  json.RawMessage   `json:"public_key"`
				PublicKeys []json.RawMessage `json:"public_keys"`
			} `json:"content"`
		}
		if json.Unmarshal(a, &ae) != nil || ae.Type != "m.room.third_party_invite" {
			continue
		}
		for _, k := range ae.Content.PublicKeys {
			var entry struct {
				PublicKey string `json:"public_key"`
			}
			if json.Unmarshal(k, &entry) == nil {
				keyTexts[entry.PublicKey] = true
			}
		}
		var single string
		if json.Unmarshal(ae.Content.PublicKey, &single) == nil && single != "" {
			keyTexts[single] = true
		}
	}
	texts := make([]string, 0, len(keyTexts))
	for k := range keyTexts {
		texts = append(texts, k)
	}
	sort.Strings(texts)
	verify := func(signed []byte) [][]string {
		table := [][]string{}
		if len(signed) == 0 {
			return table
		}
		for _, kt := range texts {
			var raw spec.Base64Bytes
			if raw.Decode(kt) != nil || len(raw) != ed25519.PublicKeySize {
				continue
			}
			doms := make([]string, 0)
			for d := range mc.ThirdPartyInvite.Signed.Signatures {
				doms = append(doms, d)
			}
			sort.Strings(doms)
			for _, d := range doms {
				kids := make([]string, 0)
				for kid := range mc.ThirdPartyInvite.Signed.Signatures[d] {
					kids = append(kids, kid)
				}
				sort.Strings(kids)
				for _, kid := range kids {
					ok := func() (ok bool) {
						defer func() {
							if recover() != nil {
								ok = false
							}
						}()
						return gm.VerifyJSON(d, gm.KeyID(kid), ed25519.PublicKey(raw), signed) == nil
					}()
					if ok {
						table = append(table, []string{kt, d, kid})
					}
				}
			}
		}
		return table
	}
	lib, rawT := verify(signedLib), verify(signedRaw)
	bl, _ := json.Marshal(lib)
	br, _ := json.Marshal(rawT)
	if string(bl) == string(br) {
		return bl
	}
	b, _ := json.Marshal(J{"lib": lib, "raw": rawT})
	return b
}

// args: [version, signature table (filled in here), event, auth event...]
func c07Allowed(args [][]byte) ([][]byte, []byte) {
	verImpl, err := gm.GetRoomVersion(gm.RoomVersion(args[0]))
	if err != nil {
		return args, B("unknown-version")
	}
	ev, err := c07ParseTrusted(verImpl, args[2])
	if err != nil {
		return args, B("unparsed")
	}
	auths := []gm.PDU{}
	for _, a := range args[3:] {
		ae, err := c07ParseTrusted(verImpl, a)
		if err != nil {
			return args, B("unparsed")
		}
		auths = append(auths, ae)
	}
	final := append([][]byte{}, args...)
	final[1] = c07SigTable(args[2], args[3:])
	out := func() (out []byte) {
		defer func() {
			if r := recover(); r != nil {
				out = B("panic")
			}
		}()
		provider, err := gm.NewAuthEvents(auths)
		if err != nil {
			return B("err")
		}
		return c07Class(gm.Allowed(ev, provider, c07Querier))
	}()
	return final, out
}

// the same with a UserIDForSender callback that answers (nil, nil) for a sender it cannot resolve
// (what pseudo-ID queriers do) instead of an error
func c07QuerierNil(roomID spec.RoomID, senderID spec.SenderID) (*spec.UserID, error) {
	u, err := spec.NewUserID(string(senderID), true)
	if err != nil {
		return nil, nil
	}
	return u, nil
}

func c07AllowedNilQ(args [][]byte) ([][]byte, []byte) {
	verImpl, err := gm.GetRoomVersion(gm.RoomVersion(args[0]))
	if err != nil {
		return args, B("unknown-version")
	}
	ev, err := c07ParseTrusted(verImpl, args[2])
	if err != nil {
		return args, B("unparsed")
	}
	auths := []gm.PDU{}
	for _, a := range args[3:] {
		ae, err := c07ParseTrusted(verImpl, a)
		if err != nil {
			return args, B("unparsed")
		}
		auths = append(auths, ae)
	}
	final := append([][]byte{}, args...)
	final[1] = c07SigTable(args[2], args[3:])
	out := func() (out []byte) {
		defer func() {
			if r := recover(); r != nil {
				out = B("panic")
			}
		}()
		provider, err := gm.NewAuthEvents(auths)
		if err != nil {
			return B("err")
		}
		return c07Class(gm.Allowed(ev, provider, c07QuerierNil))
	}()
	return final, out
}

// ---------------------------------------------------------------------------------------------
// event construction

var c07Versions = []string{"1", "2", "3", "4", "5", "6", "7", "8", "9", "10", "11", "12",
	"org.matrix.msc4014", "org.matrix.msc3667", "org.matrix.msc3787", "org.matrix.hydra.11"}

type c07Room struct {
	ver      string
	format   int // 1 reference tuples, 2 ID strings, 3 domainless room IDs
	roomID   string
	createID string
	n        int
	tag      string
}

func c07B64(seed string) string {
	// 43 url-safe characters derived from the seed
	const al = "ABCDEFGHIJKLMNOPQRSTUVWXYZabcdefghijklmnopqrstuvwxyz0123456789-_"
	h := uint64(1469598103934665603)
	out := make([]byte, 43)
	for i := range out {
		for _, c := range []byte(seed) {
			h = (h ^ uint64(c)) * 1099511628211
		}
		h = (h ^ uint64(i)) * 1099511628211
		out[i] = al[(h>>20)%64]
	}
	return string(out)
}

func c07NewRoom(ver, tag string) *c07Room {
	r := &c07Room{ver: ver, tag: tag}
	verImpl := gm.MustGetRoomVersion(gm.RoomVersion(ver))
	switch {
	case verImpl.DomainlessRoomIDs():
		r.format = 3
	case verImpl.EventFormat() == gm.EventFormatV1:
		r.format = 1
	default:
		r.format = 2
	}
	r.createID = r.eventID("create")
	if r.format == 3 {
		r.roomID = "!" + r.createID[1:]
	} else {
		r.roomID = "!" + tag + ":hs1"
	}
	return r
}

func (r *c07Room) eventID(what string) string {
	r.n++
	if r.format == 1 {
		return fmt.Sprintf("$%s%d%s:hs1", what, r.n, r.tag)
	}
	return "$" + c07B64(fmt.Sprintf("%s/%s/%d", r.tag, what, r.n))
}

func (r *c07Room) refs(ids []string) interface{} {
	if r.format == 1 {
		out := []interface{}{}
		for _, id := range ids {
			out = append(out, []interface{}{id, J{"sha256": "c2hh"}})
		}
		return out
	}
	if ids == nil {
		return []string{}
	}
	return ids
}

// event builds the JSON of one event. sk == nil: no state key. extra members override.
func (r *c07Room) event(id, typ, sender string, sk *string, content interface{}, prev []string, extra J) []byte {
	ev := J{"type": typ, "sender": sender, "event_id": id, "prev_events": r.refs(prev)}
	if content != nil {
		ev["content"] = content
	}
	if !(r.format == 3 && typ == "m.room.create") {
		ev["room_id"] = r.roomID
	}
	if sk != nil {
		ev["state_key"] = *sk
	}
	for k, v := range extra {
		if v == nil {
			delete(ev, k)
		} else {
			ev[k] = v
		}
	}
	b, err := json.Marshal(ev)
	if err != nil {
		panic(err)
	}
	return b
}

func sp(s string) *string { return &s }

func (r *c07Room) create(sender string, content J) []byte {
	c := J{}
	if r.format != 3 && r.ver != "11" {
		c["creator"] = sender
	}
	c["room_version"] = r.ver
	for k, v := range content {
		if v == nil {
			delete(c, k)
		} else {
			c[k] = v
		}
	}
	return r.event(r.createID, "m.room.create", sender, sp(""), c, nil, nil)
}

func (r *c07Room) member(sender, target string, content J) []byte {
	return r.event(r.eventID("m"), "m.room.member", sender, sp(target), content, []string{r.eventID("p")}, nil)
}

func (r *c07Room) state(typ, sender, sk string, content interface{}) []byte {
	return r.event(r.eventID("s"), typ, sender, sp(sk), content, []string{r.eventID("p")}, nil)
}

func c07Args(ver string, ev []byte, auths [][]byte) [][]byte {
	a := [][]byte{B(ver), B("[]"), ev}
	return append(a, auths...)
}

func pick[T any](rng *rand.Rand, xs []T) T { return xs[rng.Intn(len(xs))] }

// ---------------------------------------------------------------------------------------------
// the abstract rule space of membership events

type c07Mem struct {
	ver                          string
	self                         bool
	senderCreator, targetCreator bool
	senderMem, targetMem         string // "" = no member event
	newMem                       string
	joinRule                     string // "absent" = no join-rules event
	plPresent                    bool
	senderLevel                  int64
	targetRel                    int // target level - sender level
	banRel, kickRel, inviteRel   int // threshold - sender level
	federate                     string
	senderRemote                 bool
	via                          string
	hasCreate                    bool
	firstJoinPrev                string // "create", "other", "two", "none"
}

var c07Mems = []string{"", "join", "invite", "leave", "ban", "knock"}
var c07NewMems = []string{"join", "invite", "leave", "ban", "knock", "peek"}
var c07JoinRules = []string{"public", "invite", "knock", "restricted", "knock_restricted", "private", "absent", "bogus"}
var c07Vias = []string{"none", "none", "absent", "left", "invited", "low", "eq", "high", "badid", "creator"}

func c07MemContent(ms string) J {
	return J{"membership": ms}
}

// synthesize concrete events for an abstract membership point
func c07SynthMember(p c07Mem, tag string) (string, [][]byte) {
	r := c07NewRoom(p.ver, tag)
	creator := "@creator:hs1"
	sender := "@alice:hs1"
	if p.senderRemote {
		sender = "@alice:hs2"
	}
	if p.senderCreator {
		sender = creator
	}
	target := "@bob:hs3"
	if p.targetCreator {
		target = creator
	}
	if p.self {
		target = sender
	}
	viaUser := "@vera:hs1"
	auths := [][]byte{}
	if p.hasCreate {
		cc := J{}
		switch p.federate {
		case "true":
			cc["m.federate"] = true
		case "false":
			cc["m.federate"] = false
		}
		auths = append(auths, r.create(creator, cc))
	}
	if p.plPresent {
		users := J{}
		users[sender] = p.senderLevel
		if !p.self {
			users[target] = p.senderLevel + int64(p.targetRel)
		}
		viaLevel := p.senderLevel + int64(p.inviteRel)
		switch p.via {
		case "low":
			users[viaUser] = viaLevel - 1
		case "high":
			users[viaUser] = viaLevel + 1
		default:
			users[viaUser] = viaLevel
		}
		if r.format == 3 {
			delete(users, creator)
		}
		pl := J{"users": users,
			"ban":    p.senderLevel + int64(p.banRel),
			"kick":   p.senderLevel + int64(p.kickRel),
			"invite": p.senderLevel + int64(p.inviteRel)}
		auths = append(auths, r.state("m.room.power_levels", creator, "", pl))
	}
	if p.joinRule != "absent" {
		auths = append(auths, r.state("m.room.join_rules", creator, "", J{"join_rule": p.joinRule}))
	}
	if p.senderMem != "" {
		auths = append(auths, r.member(sender, sender, c07MemContent(p.senderMem)))
	}
	if !p.self && p.targetMem != "" {
		auths = append(auths, r.member(target, target, c07MemContent(p.targetMem)))
	}
	content := c07MemContent(p.newMem)
	switch p.via {
	case "none":
	case "absent":
		content["join_authorised_via_users_server"] = viaUser
	case "left":
		content["join_authorised_via_users_server"] = viaUser
		auths = append(auths, r.member(viaUser, viaUser, c07MemContent("leave")))
	case "invited":
		content["join_authorised_via_users_server"] = viaUser
		auths = append(auths, r.member(viaUser, viaUser, c07MemContent("invite")))
	case "low", "eq", "high":
		content["join_authorised_via_users_server"] = viaUser
		auths = append(auths, r.member(viaUser, viaUser, c07MemContent("join")))
	case "badid":
		content["join_authorised_via_users_server"] = "vera-without-sigil"
		auths = append(auths, r.member("@x:hs1", "vera-without-sigil", c07MemContent("join")))
	case "creator":
		content["join_authorised_via_users_server"] = creator
		auths = append(auths, r.member(creator, creator, c07MemContent("join")))
	}
	var prev []string
	switch p.firstJoinPrev {
	case "create":
		prev = []string{r.createID}
	case "other":
		prev = []string{r.eventID("p")}
	case "two":
		prev = []string{r.createID, r.eventID("p")}
	case "none":
		prev = []string{}
	}
	ev := r.event(r.eventID("e"), "m.room.member", sender, sp(target), content, prev, nil)
	return string(ev), auths
}

func c07RandMem(rng *rand.Rand, p *c07Mem) {
	p.senderCreator = rng.Intn(5) == 0
	p.targetCreator = !p.senderCreator && rng.Intn(8) == 0
	p.plPresent = rng.Intn(6) != 0
	p.senderLevel = pick(rng, []int64{0, 0, 10, 50, 50, 100, -3})
	p.targetRel = rng.Intn(3) - 1
	p.banRel = rng.Intn(3) - 1
	p.kickRel = rng.Intn(3) - 1
	p.inviteRel = rng.Intn(3) - 1
	p.federate = pick(rng, []string{"absent", "absent", "absent", "true", "false"})
	p.senderRemote = rng.Intn(4) == 0
	p.via = pick(rng, c07Vias)
	p.hasCreate = rng.Intn(40) != 0
	p.firstJoinPrev = pick(rng, []string{"other", "other", "create", "create", "two", "none"})
}

func c07Shuffle(rng *rand.Rand, auths [][]byte) [][]byte {
	out := append([][]byte{}, auths...)
	rng.Shuffle(len(out), func(i, j int) { out[i], out[j] = out[j], out[i] })
	return out
}

// c07Parses: events that NewEventFromTrustedJSON refuses are outside the domain of Allowed
func c07Parses(ver string, evs ...[]byte) bool {
	verImpl, err := gm.GetRoomVersion(gm.RoomVersion(ver))
	if err != nil {
		return false
	}
	for _, e := range evs {
		if _, err := c07ParseTrusted(verImpl, e); err != nil {
			return false
		}
	}
	return true
}

func (c *Ctx) c07Run(ver string, ev []byte, auths [][]byte, desc string) []byte {
	if !c07Parses(ver, append([][]byte{ev}, auths...)...) {
		c.Count("skipped/unparsed")
		return B("unparsed")
	}
	out := c.Run("c07.allowed", c07Args(ver, ev, auths), "C07.allowed", c07PropOp, desc)
	if c07PropOp != "" && string(out) != "unparsed" {
		// second oracle on the same run: the verdict against the LITERAL text of the specification;
		// a difference must be covered by one of the 13 departures (or be a recorded finding)
		final := c07Args(ver, ev, auths)
		final[1] = c07SigTable(ev, auths)
		c.emit("c07.allowed", final, out, "", "C07.prop.literal", desc)
		c07Literal = append(c07Literal, append(append([][]byte{}, final...), out))
	}
	// every case in which the callback matters (an error-class verdict), and a sample of the
	// others, is also run with the callback answering (nil, nil)
	if string(out) == "err" || c.Rng.Intn(40) == 0 {
		c.Count("nil-querier")
		// (correspondence only: the callback changes the error class, never accept / reject, which
		// the specification oracle has already judged on the run above)
		c.Run("c07.allowed_nilq", c07Args(ver, ev, auths), "C07.allowed_nilq", "", "nil-querier "+desc)
	}
	return out
}

var c07PropOp = "C07.prop.allowed"

func c07GenMembership(c *Ctx) {
	// bounded-exhaustive core: version x self/other x sender membership x target membership x
	// new membership x join rule; the remaining dimensions are drawn at random per point.
	// quick: a stratified sample (every stride-th point of the core product, stride coprime to
	// every dimension); thorough: several random completions of every point.
	type core struct {
		ver                            string
		self                           bool
		senderMem, targetMem, newMem   string
		joinRule                       string
	}
	points := []core{}
	for _, ver := range c07Versions {
		for _, self := range []bool{true, false} {
			for _, sm := range c07Mems {
				for _, tm := range c07Mems {
					if self && tm != sm {
						continue
					}
					for _, nm := range c07NewMems {
						for _, jr := range c07JoinRules {
							points = append(points, core{ver, self, sm, tm, nm, jr})
						}
					}
				}
			}
		}
	}
	stride, reps := 7, 1
	if c.Thorough() {
		stride, reps = 1, 3
	}
	off := c.Rng.Intn(stride)
	n := 0
	for i := off; i < len(points); i += stride {
		pt := points[i]
		for k := 0; k < reps; k++ {
			p := c07Mem{ver: pt.ver, self: pt.self, senderMem: pt.senderMem, targetMem: pt.targetMem,
				newMem: pt.newMem, joinRule: pt.joinRule}
			c07RandMem(c.Rng, &p)
			if pt.newMem != "join" || (pt.joinRule != "restricted" && pt.joinRule != "knock_restricted") {
				if c.Rng.Intn(4) != 0 {
					p.via = "none"
				}
			}
			n++
			ev, auths := c07SynthMember(p, fmt.Sprintf("m%d", n))
			c.Count("member/" + pt.newMem + "/" + pt.joinRule)
			c.Count("member/ver/" + pt.ver)
			c.c07Run(p.ver, B(ev), c07Shuffle(c.Rng, auths), fmt.Sprintf("member %+v", p))
		}
	}
}

// focused sweeps: everything else passes, the discriminants of one rule are walked exhaustively
func c07GenMemberBoundaries(c *Ctx) {
	n := 0
	run := func(p c07Mem, what string) {
		n++
		ev, auths := c07SynthMember(p, fmt.Sprintf("b%d", n))
		c.Count("boundary/" + what)
		c.c07Run(p.ver, B(ev), c07Shuffle(c.Rng, auths), fmt.Sprintf("%s %+v", what, p))
	}
	base := func(ver string) c07Mem {
		return c07Mem{ver: ver, senderMem: "join", targetMem: "join", joinRule: "invite", plPresent: true,
			senderLevel: pick(c.Rng, []int64{0, 50, 50, 100, -3}), targetRel: -1, banRel: 0, kickRel: 0, inviteRel: 0,
			federate: "absent", via: "none", hasCreate: true, firstJoinPrev: "other"}
	}
	rels := []int{-1, 0, 1}
	for _, ver := range c07Versions {
		// invite
		for _, tm := range c07Mems {
			for _, ir := range rels {
				for _, plp := range []bool{true, false} {
					for _, sc := range []bool{false, true} {
						p := base(ver)
						p.newMem, p.targetMem, p.inviteRel, p.plPresent, p.senderCreator = "invite", tm, ir, plp, sc
						p.kickRel, p.banRel = -ir, -ir
						run(p, "invite")
					}
				}
			}
		}
		// kick / unban
		for _, tm := range c07Mems {
			for _, kr := range rels {
				for _, br := range rels {
					for _, tr := range rels {
						p := base(ver)
						p.newMem, p.targetMem, p.kickRel, p.banRel, p.targetRel = "leave", tm, kr, br, tr
						p.inviteRel = 1
						if c.Rng.Intn(6) == 0 {
							p.senderCreator = true
						} else if c.Rng.Intn(6) == 0 {
							p.targetCreator = true
						}
						if c.Rng.Intn(10) == 0 {
							p.plPresent = false
						}
						run(p, "kick")
					}
				}
			}
		}
		// ban
		for _, tm := range c07Mems {
			for _, br := range rels {
				for _, tr := range rels {
					for _, who := range []int{0, 1, 2} {
						p := base(ver)
						p.newMem, p.targetMem, p.banRel, p.targetRel = "ban", tm, br, tr
						p.kickRel, p.inviteRel = -br, 1
						p.senderCreator, p.targetCreator = who == 1, who == 2
						run(p, "ban")
					}
				}
			}
		}
		// sender of a change to somebody else must be joined
		for _, sm := range c07Mems {
			for _, nm := range c07NewMems {
				p := base(ver)
				p.senderMem, p.newMem, p.targetMem = sm, nm, "leave"
				p.inviteRel, p.kickRel, p.banRel = -1, -1, -1
				run(p, "other-sender-membership")
			}
		}
		// own membership: join under every rule, previous membership and authoriser state
		for _, jr := range c07JoinRules {
			for _, om := range c07Mems {
				vias := []string{"none"}
				if jr == "restricted" || jr == "knock_restricted" {
					vias = []string{"none", "absent", "left", "invited", "low", "eq", "high", "badid", "creator"}
				} else if c.Rng.Intn(3) == 0 {
					vias = []string{"none", "eq"}
				}
				for _, via := range vias {
					p := base(ver)
					p.self, p.newMem, p.joinRule, p.senderMem, p.targetMem, p.via = true, "join", jr, om, om, via
					p.inviteRel = pick(c.Rng, rels)
					if via == "creator" || c.Rng.Intn(8) == 0 {
						p.plPresent = c.Rng.Intn(2) == 0
					}
					run(p, "self-join")
				}
			}
		}
		// knock, leave and the forbidden own transitions
		for _, jr := range c07JoinRules {
			for _, om := range c07Mems {
				p := base(ver)
				p.self, p.newMem, p.joinRule, p.senderMem, p.targetMem = true, "knock", jr, om, om
				run(p, "self-knock")
			}
		}
		for _, nm := range []string{"leave", "invite", "ban", "peek", ""} {
			for _, om := range append([]string{"bogus"}, c07Mems...) {
				p := base(ver)
				p.self, p.newMem, p.senderMem, p.targetMem = true, nm, om, om
				p.joinRule = pick(c.Rng, c07JoinRules)
				run(p, "self-other")
			}
		}
		// the creator's first join
		for _, prev := range []string{"create", "other", "two", "none"} {
			for _, sc := range []bool{true, false} {
				for _, self := range []bool{true, false} {
					for _, nm := range []string{"join", "invite", "leave"} {
						p := base(ver)
						p.senderCreator, p.self, p.newMem, p.firstJoinPrev = sc, self, nm, prev
						p.targetCreator = !sc && !self && c.Rng.Intn(2) == 0
						p.senderMem, p.targetMem = "", ""
						p.plPresent = c.Rng.Intn(3) == 0
						p.joinRule = pick(c.Rng, []string{"absent", "invite", "public"})
						run(p, "first-join")
					}
				}
			}
		}
		// federation flag and domains; missing create
		for _, fed := range []string{"absent", "true", "false"} {
			for _, remote := range []bool{false, true} {
				for _, nm := range []string{"join", "leave", "invite"} {
					for _, self := range []bool{true, false} {
						p := base(ver)
						p.federate, p.senderRemote, p.newMem, p.self = fed, remote, nm, self
						p.joinRule, p.targetMem = "public", "leave"
						if self {
							p.senderMem = pick(c.Rng, []string{"leave", "join", "invite"})
						}
						run(p, "federate")
					}
				}
			}
		}
		for _, nm := range c07NewMems {
			p := base(ver)
			p.hasCreate, p.newMem, p.self = false, nm, c.Rng.Intn(2) == 0
			p.plPresent = c.Rng.Intn(2) == 0
			run(p, "no-create")
		}
	}
}

// ---------------------------------------------------------------------------------------------
// events other than membership events

type c07Scene struct {
	r       *c07Room
	creator string
	sender  string
	auths   [][]byte
}

// a room with create (+ optional extras), power levels (nil = none), sender membership ("" = none)
func c07NewScene(ver, tag, sender string, createExtra J, pl interface{}, senderMem string) *c07Scene {
	s := &c07Scene{r: c07NewRoom(ver, tag), creator: "@creator:hs1", sender: sender}
	s.auths = append(s.auths, s.r.create(s.creator, createExtra))
	if pl != nil {
		s.auths = append(s.auths, s.r.state("m.room.power_levels", s.creator, "", pl))
	}
	if senderMem != "" {
		s.auths = append(s.auths, s.r.member(sender, sender, c07MemContent(senderMem)))
	}
	return s
}

func (s *c07Scene) run(c *Ctx, ev []byte, what, desc string) []byte {
	c.Count(what)
	return c.c07Run(s.r.ver, ev, c07Shuffle(c.Rng, s.auths), what+" "+desc)
}

func c07GenGeneric(c *Ctx) {
	n := 0
	rels := []int{-1, 0, 1}
	type evKind struct {
		typ   string
		state bool
	}
	kinds := []evKind{{"m.room.message", false}, {"m.room.topic", true}, {"m.room.third_party_invite", true},
		{"x.custom", false}, {"x.custom", true}, {"m.room.join_rules", true}, {"m.room.encryption", true}}
	for _, ver := range c07Versions {
		for _, k := range kinds {
			for _, rel := range rels {
				for _, how := range []string{"entry", "default", "nopl"} {
					for _, sm := range []string{"join", "join", "invite", "leave", ""} {
						n++
						L := pick(c.Rng, []int64{0, 50, 100, 7})
						sender := pick(c.Rng, []string{"@alice:hs1", "@alice:hs2", "@creator:hs1"})
						var pl interface{}
						need := L + int64(rel)
						plj := J{"users": J{sender: L}}
						if c.Rng.Intn(3) == 0 {
							plj = J{"users_default": L}
						}
						if k.typ == "m.room.third_party_invite" {
							plj["invite"] = need
							plj["events"] = J{k.typ: need + int64(pick(c.Rng, []int{-2, 2}))}
							plj["state_default"] = need + int64(pick(c.Rng, []int{-2, 2}))
						} else if how == "entry" {
							plj["events"] = J{k.typ: need, "y.other": need + 5}
							plj["state_default"] = need + int64(pick(c.Rng, []int{-2, 2}))
							plj["events_default"] = need + int64(pick(c.Rng, []int{-2, 2}))
						} else if k.state {
							plj["state_default"] = need
							plj["events_default"] = need + int64(pick(c.Rng, []int{-2, 2}))
						} else {
							plj["events_default"] = need
							plj["state_default"] = need + int64(pick(c.Rng, []int{-2, 2}))
						}
						pl = plj
						if how == "nopl" {
							pl = nil
						}
						if sender == "@creator:hs1" && c07NewRoom(ver, "x").format == 3 {
							if u, ok := plj["users"].(J); ok {
								delete(u, sender)
							}
						}
						s := c07NewScene(ver, fmt.Sprintf("g%d", n), sender, nil, pl, sm)
						var sk *string
						if k.state {
							sk = sp(pick(c.Rng, []string{"", "", "tok", sender}))
						}
						ev := s.r.event(s.r.eventID("e"), k.typ, sender, sk, J{"body": "x"}, []string{s.r.eventID("p")}, nil)
						s.run(c, ev, "generic/"+k.typ, fmt.Sprintf("rel=%d how=%s sm=%q L=%d", rel, how, sm, L))
					}
				}
			}
		}
		// departure 4: content.creator names somebody else than the sender of the create event
		for _, who := range []string{"@creator:hs1", "@other:hs1"} {
			for _, what := range []string{"topic", "first-join", "pl"} {
				n++
				s := c07NewScene(ver, fmt.Sprintf("g%d", n), who, J{"creator": "@other:hs1"}, nil, "join")
				var ev []byte
				switch what {
				case "topic":
					ev = s.r.event(s.r.eventID("e"), "m.room.topic", who, sp(""), J{"topic": "x"}, []string{s.r.eventID("p")}, nil)
				case "first-join":
					s.auths = s.auths[:1]
					ev = s.r.event(s.r.eventID("e"), "m.room.member", who, sp(who), J{"membership": "join"}, []string{s.r.createID}, nil)
				case "pl":
					ev = s.r.event(s.r.eventID("e"), "m.room.power_levels", who, sp(""), J{"users": J{"@other:hs1": 100}}, []string{s.r.eventID("p")}, nil)
				}
				s.run(c, ev, "generic/creator-field", fmt.Sprintf("who=%s what=%s", who, what))
			}
		}
		// state keys starting with '@'
		for _, skv := range []string{"@alice:hs1", "@bob:hs1", "@", "@alice:hs1x", "alice", "", "@ALICE:hs1"} {
			for _, typ := range []string{"m.room.topic", "x.custom", "m.room.power_levels", "m.room.redaction"} {
				n++
				s := c07NewScene(ver, fmt.Sprintf("g%d", n), "@alice:hs1", nil, J{"users": J{"@alice:hs1": 100}}, "join")
				ev := s.r.event(s.r.eventID("e"), typ, "@alice:hs1", sp(skv), J{}, []string{s.r.eventID("p")}, J{"redacts": "$x:hs1"})
				s.run(c, ev, "generic/at-state-key", fmt.Sprintf("sk=%q typ=%s", skv, typ))
			}
		}
		// federation flag, sender validity, room mismatch, missing create
		for _, fed := range []interface{}{nil, true, false} {
			for _, sender := range []string{"@alice:hs1", "@alice:hs2", "@alice:hs1:8448", "alice", "@alice", "@a:b c", "@:hs1", "@alice:HS1"} {
				n++
				ce := J{}
				if fed != nil {
					ce["m.federate"] = fed
				}
				s := c07NewScene(ver, fmt.Sprintf("g%d", n), sender, ce, J{"users": J{sender: 50}}, "join")
				typ := pick(c.Rng, []string{"m.room.message", "m.room.topic", "m.room.redaction", "m.room.power_levels", "m.room.aliases"})
				var sk *string
				if typ != "m.room.message" && typ != "m.room.redaction" {
					sk = sp("")
				}
				if typ == "m.room.aliases" {
					sk = sp(pick(c.Rng, []string{"hs1", "hs2", "hs1:8448"}))
				}
				ev := s.r.event(s.r.eventID("e"), typ, sender, sk, J{}, []string{s.r.eventID("p")}, J{"redacts": "$x:hs9"})
				s.run(c, ev, "generic/federate", fmt.Sprintf("fed=%v sender=%q typ=%s", fed, sender, typ))
			}
		}
		for _, typ := range []string{"m.room.message", "m.room.topic", "m.room.redaction", "m.room.power_levels", "m.room.aliases", "m.room.member"} {
			for _, mode := range []string{"other-room-event", "no-create", "create-wrong-key", "two-rooms", "two-rooms-member"} {
				n++
				s := c07NewScene(ver, fmt.Sprintf("g%d", n), "@alice:hs1", nil, J{"users": J{"@alice:hs1": 100}}, "join")
				other := c07NewRoom(ver, fmt.Sprintf("o%d", n))
				var sk *string
				if typ != "m.room.message" && typ != "m.room.redaction" {
					sk = sp("")
				}
				if typ == "m.room.aliases" {
					sk = sp("hs1")
				}
				if typ == "m.room.member" {
					sk = sp("@alice:hs1")
				}
				r := s.r
				switch mode {
				case "other-room-event":
					r = other
				case "no-create":
					s.auths = s.auths[1:]
				case "create-wrong-key":
					s.auths[0] = s.r.event(s.r.createID, "m.room.create", s.creator, sp("x"), J{"creator": s.creator}, nil, nil)
				case "two-rooms":
					s.auths = append(s.auths, other.state("m.room.join_rules", "@creator:hs1", "", J{"join_rule": "public"}))
				case "two-rooms-member":
					s.auths = append(s.auths, other.member("@zed:hs1", "@zed:hs1", c07MemContent("join")))
				}
				ev := r.event(r.eventID("e"), typ, "@alice:hs1", sk, J{"membership": "leave"}, []string{r.eventID("p")}, J{"redacts": "$x:hs1"})
				s.run(c, ev, "generic/rooms", fmt.Sprintf("mode=%s typ=%s", mode, typ))
			}
		}
	}
}

func c07GenCreate(c *Ctx) {
	n := 0
	for _, ver := range c07Versions {
		fmt3 := c07NewRoom(ver, "x").format == 3
		contents := []J{
			{}, {"creator": nil}, {"creator": 5}, {"creator": ""}, {"creator": "@someone:else"},
			{"room_version": nil}, {"room_version": "999"}, {"room_version": 7}, {"room_version": "1"}, {"room_version": ""},
			{"room_version": "org.matrix.msc3787"}, {"room_version": "12"},
			{"additional_creators": []string{}}, {"additional_creators": []string{"@a:b"}}, {"additional_creators": []string{"@a:b", "bad"}},
			{"additional_creators": "x"}, {"additional_creators": []int{1}}, {"additional_creators": nil},
			{"additional_creators": []string{"@a:b c"}}, {"additional_creators": []string{"@a"}},
			{"m.federate": "yes"}, {"predecessor": "x"}, {"type": 5},
		}
		for _, ce := range contents {
			for _, variant := range []string{"ok", "ok", "sk-x", "sk-none", "prev", "domain", "room-id", "no-room-id", "null-room-id", "bad-sender", "domainless", "content-null", "content-arr"} {
				if variant != "ok" && variant != "no-room-id" && variant != "null-room-id" && c.Rng.Intn(3) != 0 {
					continue
				}
				if (variant == "no-room-id" || variant == "null-room-id") && (!fmt3 || len(ce) != 0) {
					continue
				}
				n++
				r := c07NewRoom(ver, fmt.Sprintf("c%d", n))
				sender := "@creator:hs1"
				cc := J{}
				if !fmt3 && ver != "11" || c.Rng.Intn(4) == 0 {
					cc["creator"] = sender
				}
				if c.Rng.Intn(2) == 0 {
					cc["room_version"] = ver
				}
				for k, v := range ce {
					if v == nil && c.Rng.Intn(2) == 0 {
						delete(cc, k)
					} else {
						cc[k] = v
					}
				}
				var content interface{} = cc
				sk := sp("")
				var prev []string
				extra := J{}
				switch variant {
				case "sk-x":
					sk = sp("x")
				case "sk-none":
					sk = nil
				case "prev":
					prev = []string{r.eventID("p")}
				case "domain":
					sender = "@creator:hs2"
				case "room-id":
					extra["room_id"] = "!other:hs1"
				case "no-room-id":
					if fmt3 {
						extra["room_id"] = ""
					}
				case "null-room-id":
					extra["room_id"] = json.RawMessage("null")
				case "bad-sender":
					sender = pick(c.Rng, []string{"creator", "@creator", "@c:h s"})
				case "domainless":
					if !fmt3 {
						extra["room_id"] = "!" + c07B64("dl")
					}
				case "content-null":
					content = json.RawMessage("null")
				case "content-arr":
					content = []int{}
				}
				ev := r.event(r.createID, "m.room.create", sender, sk, content, prev, extra)
				c.Count("create/" + variant)
				var auths [][]byte
				if c.Rng.Intn(6) == 0 {
					auths = append(auths, r.member(sender, sender, c07MemContent("join")))
				}
				c.c07Run(ver, ev, auths, fmt.Sprintf("create %s %v", variant, ce))
			}
		}
	}
}

func c07GenAliases(c *Ctx) {
	n := 0
	for _, ver := range c07Versions {
		for _, sender := range []string{"@alice:hs1", "@alice:hs2", "@alice:hs2:8448", "alice", "@alice:hs_2"} {
			for _, skv := range []string{"hs1", "hs2", "hs2:8448", "", "-", "@alice:hs2", "@alice:hs1", "HS2"} {
				for _, fed := range []interface{}{nil, false} {
					n++
					ce := J{}
					if fed != nil {
						ce["m.federate"] = fed
					}
					sm := pick(c.Rng, []string{"", "join", "leave", "ban"})
					s := c07NewScene(ver, fmt.Sprintf("a%d", n), sender, ce, nil, sm)
					var sk *string
					if skv != "-" {
						sk = sp(skv)
					}
					ev := s.r.event(s.r.eventID("e"), "m.room.aliases", sender, sk, J{"aliases": []string{}}, []string{s.r.eventID("p")}, nil)
					s.run(c, ev, "aliases", fmt.Sprintf("sender=%q sk=%q fed=%v", sender, skv, fed))
				}
			}
		}
	}
}

func c07GenRedaction(c *Ctx) {
	n := 0
	for _, ver := range c07Versions {
		for _, rv := range []interface{}{"-", nil, "1", "2", "3", ver, "999", ""} {
			for _, redacts := range []string{"$x:hs1", "$x:hs9", "$x:hs1:8448", "$nodomain", "", "$x:"} {
				for _, rel := range []int{-1, 0, 1} {
					n++
					sender := pick(c.Rng, []string{"@alice:hs1", "@alice:hs1", "@creator:hs1", "@alice:hs1:8448"})
					L := pick(c.Rng, []int64{0, 50, 100})
					ce := J{}
					if rv != "-" {
						ce["room_version"] = rv
					} else {
						ce["room_version"] = nil
					}
					var pl interface{} = J{"users": J{sender: L}, "redact": L + int64(rel), "kick": L - int64(rel), "ban": L - int64(rel)}
					if sender == "@creator:hs1" && c07NewRoom(ver, "x").format == 3 {
						pl = J{"redact": L + int64(rel)}
					}
					if c.Rng.Intn(8) == 0 {
						pl = nil
					}
					sm := "join"
					if c.Rng.Intn(10) == 0 {
						sm = pick(c.Rng, []string{"", "leave", "invite"})
					}
					s := c07NewScene(ver, fmt.Sprintf("r%d", n), sender, ce, pl, sm)
					ev := s.r.event(s.r.eventID("e"), "m.room.redaction", sender, nil, J{}, []string{s.r.eventID("p")}, J{"redacts": redacts})
					s.run(c, ev, "redaction", fmt.Sprintf("rv=%v redacts=%q rel=%d sender=%s", rv, redacts, rel, sender))
				}
			}
		}
	}
}

// ---------------------------------------------------------------------------------------------
// third-party invites with real keys

type c07Key struct {
	pub  ed25519.PublicKey
	priv ed25519.PrivateKey
}

func c07NewKey(rng *rand.Rand) c07Key {
	seed := make([]byte, 32)
	rng.Read(seed)
	priv := ed25519.NewKeyFromSeed(seed)
	return c07Key{priv.Public().(ed25519.PublicKey), priv}
}

func c07GenThirdParty(c *Ctx) {
	n := 0
	for _, ver := range c07Versions {
		for _, scn := range []string{"good", "good-second-key", "good-urlsafe", "wrong-key", "tampered", "mxid-mismatch", "no-event", "wrong-token",
			"no-sigs", "non-ed-keyid", "banned", "other-sender", "single-public-key", "no-keys", "join-with-tpi", "sender-not-joined",
			"bad-keys-type", "bad-signed-type", "tpi-null", "tpi-empty", "target-joined", "remote-unfederated", "leave-with-tpi",
			"empty-token", "missing-token", "empty-token-join",
			"extra-signed-member", "one-undecodable-key", "one-junk-key-entry"} {
			n++
			k1, k2 := c07NewKey(c.Rng), c07NewKey(c.Rng)
			sender, target, token := "@alice:hs1", "@bob:hs3", "tok"+fmt.Sprint(n)
			s := c07NewScene(ver, fmt.Sprintf("t%d", n), sender, nil, J{"users": J{sender: 50}, "invite": pick(c.Rng, []int{0, 50, 60})}, "join")
			switch scn {
			case "empty-token", "empty-token-join":
				// a third-party invite without a token names no m.room.third_party_invite event:
				// it is refused even when an event with the empty state key is supplied
				token = ""
			}
			signedObj := J{"mxid": target, "token": token}
			if scn == "extra-signed-member" {
				// identity servers may sign further members; the signature covers the whole object
				signedObj["sender"] = sender
			}
			if scn == "missing-token" {
				token = ""
				signedObj = J{"mxid": target}
			}
			raw, _ := json.Marshal(signedObj)
			signKey := k1
			if scn == "wrong-key" {
				signKey = c07NewKey(c.Rng)
			}
			keyID := "ed25519:1"
			if scn == "non-ed-keyid" {
				keyID = "rsa:1"
			}
			signedRaw, err := gm.SignJSON("idserver", gm.KeyID(keyID), signKey.priv, raw)
			if err != nil {
				panic(err)
			}
			var signed J
			_ = json.Unmarshal(signedRaw, &signed)
			enc := base64.RawStdEncoding.EncodeToString
			if scn == "good-urlsafe" {
				enc = base64.RawURLEncoding.EncodeToString
			}
			keys := []interface{}{J{"public_key": enc(k1.pub), "key_validity_url": "https://x"}}
			if scn == "good-second-key" {
				keys = []interface{}{J{"public_key": enc(k2.pub)}, J{"public_key": enc(k1.pub)}}
			}
			tpiContent := J{"display_name": "b", "key_validity_url": "https://x", "public_key": enc(k2.pub), "public_keys": keys}
			tpiSender := sender
			newMem := "invite"
			switch scn {
			case "tampered":
				signed["mxid"] = "@mallory:hs3"
				target = "@mallory:hs3"
			case "mxid-mismatch":
				target = "@carol:hs3"
			case "no-sigs":
				delete(signed, "signatures")
			case "other-sender":
				tpiSender = "@zed:hs1"
			case "single-public-key":
				tpiContent = J{"display_name": "b", "public_key": enc(k1.pub)}
			case "no-keys":
				tpiContent["public_keys"] = []interface{}{}
			case "one-undecodable-key":
				tpiContent["public_keys"] = []interface{}{J{"public_key": "!!!notbase64"}, J{"public_key": enc(k1.pub)}}
			case "one-junk-key-entry":
				tpiContent["public_keys"] = []interface{}{J{"public_key": 5}, J{"public_key": enc(k1.pub)}}
			case "join-with-tpi", "empty-token-join":
				newMem = "join"
			case "leave-with-tpi":
				newMem = "leave"
			case "bad-keys-type":
				tpiContent["public_keys"] = pick(c.Rng, []interface{}{"x", J{}, []interface{}{"x"}, []interface{}{J{"public_key": 5}}, []interface{}{J{"public_key": "!!"}}})
			}
			tpiTok := token
			if scn == "wrong-token" {
				tpiTok = "othertoken"
			}
			if scn != "no-event" {
				s.auths = append(s.auths, s.r.state("m.room.third_party_invite", tpiSender, tpiTok, tpiContent))
			}
			switch scn {
			case "banned":
				s.auths = append(s.auths, s.r.member(sender, target, c07MemContent("ban")))
			case "target-joined":
				s.auths = append(s.auths, s.r.member(target, target, c07MemContent("join")))
			case "sender-not-joined":
				s.auths = s.auths[:2]
			case "remote-unfederated":
				s.auths[0] = s.r.create(s.creator, J{"m.federate": false})
			}
			var tpi interface{} = J{"display_name": "b", "signed": signed}
			switch scn {
			case "bad-signed-type":
				tpi = pick(c.Rng, []interface{}{J{"signed": "x"}, J{"signed": J{"signatures": "x"}}, J{"signed": J{"mxid": 5}}, J{"display_name": 5, "signed": signed},
					J{"signed": J{"signatures": J{"a": "x"}}}, J{"signed": J{"signatures": J{"a": J{"k": 5}}}}, "x", []int{}})
			case "tpi-null":
				tpi = nil
			case "tpi-empty":
				tpi = J{}
			}
			content := J{"membership": newMem, "third_party_invite": tpi}
			evSender := sender
			if scn == "remote-unfederated" {
				evSender = "@alice:hs2"
				s.auths = append(s.auths, s.r.member(evSender, evSender, c07MemContent("join")))
			}
			tgt := target
			if newMem != "invite" {
				tgt = evSender
			}
			ev := s.r.event(s.r.eventID("e"), "m.room.member", evSender, sp(tgt), content, []string{s.r.eventID("p")}, nil)
			s.run(c, ev, "third-party/"+scn, "")
		}
	}
}

// third_party_invite blocks on every membership: the third-party-invite rule belongs to
// membership invite only; on join / leave / ban / knock the block is just content and the event
// is judged by the ordinary rules (join rule, ban, sender membership, power levels).
// every membership x {no block, valid signed block, bad signature, 3pid event absent} x join rule
// x previous membership of the target (incl. ban) x own / somebody else's membership
func c07GenTpiBlocks(c *Ctx) {
	n := 0
	k1, k2 := c07NewKey(c.Rng), c07NewKey(c.Rng)
	enc := base64.RawStdEncoding.EncodeToString
	for _, ver := range c07Versions {
		for _, nm := range []string{"join", "invite", "leave", "ban", "knock"} {
			for _, self := range []bool{true, false} {
				if self && (nm == "invite" || nm == "ban") || !self && (nm == "join" || nm == "knock") {
					continue
				}
				senderMems := []string{"join"}
				if !self {
					senderMems = []string{"join", "leave"}
				}
				for _, sm := range senderMems {
					for _, block := range []string{"none", "valid", "badsig", "absent"} {
						jrs := []string{"public", "invite", "knock", "restricted"}
						if !c.Thorough() {
							// quick: the invite rule always, one of the other rules at random
							jrs = []string{"invite", pick(c.Rng, []string{"public", "knock", "restricted"})}
						}
						for _, jr := range jrs {
							for _, old := range c07Mems {
								n++
								sender, target := "@alice:hs1", "@bob:hs3"
								if self {
									target = sender
								}
								senderMem := sm
								if self {
									senderMem = old
								}
								s := c07NewScene(ver, fmt.Sprintf("k%d", n), sender, nil, J{"users": J{sender: 50}}, senderMem)
								s.auths = append(s.auths, s.r.state("m.room.join_rules", s.creator, "", J{"join_rule": jr}))
								if !self && old != "" {
									s.auths = append(s.auths, s.r.member(target, target, c07MemContent(old)))
								}
								content := J{"membership": nm}
								if block != "none" {
									token := fmt.Sprintf("tk%d", n)
									raw, _ := json.Marshal(J{"mxid": target, "token": token})
									signKey := k1
									if block == "badsig" {
										signKey = k2
									}
									signedRaw, err := gm.SignJSON("idserver", "ed25519:1", signKey.priv, raw)
									if err != nil {
										panic(err)
									}
									var signed J
									_ = json.Unmarshal(signedRaw, &signed)
									content["third_party_invite"] = J{"display_name": "b", "signed": signed}
									if block != "absent" {
										s.auths = append(s.auths, s.r.state("m.room.third_party_invite", sender, token,
											J{"display_name": "b", "public_keys": []interface{}{J{"public_key": enc(k1.pub)}}}))
									}
								}
								ev := s.r.event(s.r.eventID("e"), "m.room.member", sender, sp(target), content, []string{s.r.eventID("p")}, nil)
								s.run(c, ev, "tpi-block/"+nm+"/"+block, fmt.Sprintf("self=%v sender=%s jr=%s old=%q", self, sm, jr, old))
							}
						}
					}
				}
			}
		}
	}
}

// ---------------------------------------------------------------------------------------------
// malformed and unusual contents of the event and of its auth events

func c07GenMalformed(c *Ctx) {
	n := 0
	memberContents := []interface{}{
		J{"membership": 5}, J{"membership": nil}, J{}, json.RawMessage("null"), []int{}, "str", 7, true,
		J{"membership": "join", "displayname": 5}, J{"membership": "join", "is_direct": "x", "avatar_url": []int{}},
		J{"membership": "join", "join_authorised_via_users_server": 5}, J{"membership": "join", "join_authorised_via_users_server": nil},
		J{"membership": "join", "mxid_mapping": J{"user_id": "@alice:hs2", "user_room_key": "k"}},
		J{"membership": "join", "mxid_mapping": J{"user_id": "nope"}}, J{"membership": "join", "mxid_mapping": "x"},
		J{"membership": "join", "mxid_mapping": nil}, J{"membership": "join", "mxid_mapping": J{"user_id": 5}},
		J{"membership": "join", "mxid_mapping": J{"user_id": "@alice:hs1", "signatures": J{"hs1": J{"ed25519:1": "c2ln"}}}},
		J{"membership": "JOIN"}, J{"membership": "join "}, J{"membership": ""},
	}
	joinRuleContents := []interface{}{
		J{"join_rule": 5}, J{"join_rule": nil}, J{}, json.RawMessage("null"), []int{}, J{"join_rule": "public", "allow": "x"},
		J{"join_rule": "public", "allow": []interface{}{J{"type": 5}}}, J{"join_rule": "public", "allow": []interface{}{J{"type": "m.room_membership", "room_id": "!x:y"}}},
		J{"join_rule": "public", "allow": []interface{}{nil}}, J{"join_rule": "public", "allow": nil}, J{"join_rule": "Public"}, J{"join_rule": ""},
	}
	plContents := []interface{}{
		J{"ban": "x"}, J{"users": []int{}}, json.RawMessage("null"), []int{}, J{}, J{"ban": nil}, J{"users": nil}, J{"users": J{"@alice:hs1": nil}},
		J{"events": "x"}, J{"notifications": 5}, J{"ban": true}, J{"kick": J{}}, J{"invite": 1.5}, J{"invite": "1"}, J{"users_default": " 100 "},
	}
	createContents := []interface{}{
		J{"creator": 5}, J{"m.federate": "x"}, J{"m.federate": nil}, J{"room_version": 5}, J{"predecessor": "x"}, J{"predecessor": J{"room_id": 5}},
		J{"predecessor": J{"room_id": "!a:b", "event_id": "$x"}}, J{"type": 5}, J{"type": "m.space"}, J{"additional_creators": "x"},
		J{"additional_creators": []interface{}{"@x:y", nil}}, json.RawMessage("null"), []int{}, J{"creator": nil},
	}
	for _, ver := range c07Versions {
		for _, what := range []string{"new-member", "sender-member", "target-member", "join-rules", "power-levels", "create", "via-member", "no-content"} {
			var pool []interface{}
			switch what {
			case "new-member", "sender-member", "target-member", "via-member", "no-content":
				pool = memberContents
			case "join-rules":
				pool = joinRuleContents
			case "power-levels":
				pool = plContents
			case "create":
				pool = createContents
			}
			for _, bad := range pool {
				for _, evt := range []string{"self-join", "other-invite", "other-kick", "message", "pl", "knock"} {
					if c.Rng.Intn(3) != 0 && !c.Thorough() {
						continue
					}
					n++
					sender, target := "@alice:hs1", "@bob:hs1"
					r := c07NewRoom(ver, fmt.Sprintf("x%d", n))
					jr := pick(c.Rng, []string{"public", "invite", "restricted", "knock"})
					createC := J{}
					var plC interface{} = J{"users": J{sender: 50}}
					var jrC interface{} = J{"join_rule": jr}
					var senderC interface{} = c07MemContent(pick(c.Rng, []string{"join", "join", "leave"}))
					var targetC interface{} = c07MemContent(pick(c.Rng, []string{"join", "leave", "ban"}))
					var viaC interface{} = c07MemContent("join")
					switch what {
					case "sender-member":
						senderC = bad
					case "target-member":
						targetC = bad
					case "join-rules":
						jrC = bad
					case "power-levels":
						plC = bad
					case "via-member":
						viaC = bad
					}
					auths := [][]byte{}
					if what == "create" {
						auths = append(auths, r.event(r.createID, "m.room.create", "@creator:hs1", sp(""), bad, nil, nil))
					} else {
						auths = append(auths, r.create("@creator:hs1", createC))
					}
					auths = append(auths, r.state("m.room.power_levels", "@creator:hs1", "", plC))
					auths = append(auths, r.state("m.room.join_rules", "@creator:hs1", "", jrC))
					auths = append(auths, r.state("m.room.member", sender, sender, senderC))
					var ev []byte
					prev := []string{r.eventID("p")}
					extra := J{}
					if what == "no-content" {
						extra["content"] = nil
					}
					switch evt {
					case "self-join", "knock":
						var content interface{} = J{"membership": map[string]string{"self-join": "join", "knock": "knock"}[evt], "join_authorised_via_users_server": "@vera:hs1"}
						if what == "new-member" {
							content = bad
						}
						auths = append(auths, r.state("m.room.member", "@vera:hs1", "@vera:hs1", viaC))
						ev = r.event(r.eventID("e"), "m.room.member", sender, sp(sender), content, prev, extra)
					case "other-invite", "other-kick":
						var content interface{} = J{"membership": map[string]string{"other-invite": "invite", "other-kick": "leave"}[evt]}
						if what == "new-member" {
							content = bad
						}
						auths = append(auths, r.state("m.room.member", target, target, targetC))
						ev = r.event(r.eventID("e"), "m.room.member", sender, sp(target), content, prev, extra)
					case "message":
						ev = r.event(r.eventID("e"), "m.room.message", sender, nil, J{"body": "x"}, prev, extra)
					case "pl":
						var content interface{} = J{"users": J{sender: 50}}
						if what == "new-member" {
							content = pick(c.Rng, plContents)
						}
						ev = r.event(r.eventID("e"), "m.room.power_levels", sender, sp(""), content, prev, extra)
					}
					c.Count("malformed/" + what)
					c.c07Run(ver, ev, c07Shuffle(c.Rng, auths), fmt.Sprintf("malformed %s evt=%s bad=%v", what, evt, bad))
				}
			}
		}
		// pseudo-ID mapping: the federation check uses the mapped user ID's domain, not the sender's
		for _, mapped := range []string{"@alice:hs1", "@alice:hs2", "nope", ""} {
			for _, sender := range []string{"@alice:hs1", "@alice:hs2"} {
				for _, fed := range []interface{}{nil, false} {
					n++
					r := c07NewRoom(ver, fmt.Sprintf("y%d", n))
					ce := J{}
					if fed != nil {
						ce["m.federate"] = fed
					}
					auths := [][]byte{r.create("@creator:hs1", ce), r.state("m.room.join_rules", "@creator:hs1", "", J{"join_rule": "public"})}
					content := J{"membership": "join", "mxid_mapping": J{"user_id": mapped, "user_room_key": sender}}
					ev := r.event(r.eventID("e"), "m.room.member", sender, sp(sender), content, []string{r.eventID("p")}, nil)
					c.Count("malformed/mxid-mapping")
					c.c07Run(ver, ev, auths, fmt.Sprintf("mxid mapping mapped=%q sender=%q fed=%v", mapped, sender, fed))
				}
			}
		}
		// provider details: duplicates (later replaces earlier), auth event without state key
		for i := 0; i < 6; i++ {
			n++
			sender := "@alice:hs1"
			r := c07NewRoom(ver, fmt.Sprintf("d%d", n))
			a1 := r.state("m.room.member", sender, sender, c07MemContent("leave"))
			a2 := r.state("m.room.member", sender, sender, c07MemContent("join"))
			auths := [][]byte{r.create("@creator:hs1", nil), a1, a2}
			if i%2 == 0 {
				auths = [][]byte{r.create("@creator:hs1", nil), a2, a1}
			}
			if i >= 4 {
				auths = append(auths, r.event(r.eventID("m"), "m.room.message", sender, nil, J{}, nil, nil))
			}
			ev := r.event(r.eventID("e"), "m.room.message", sender, nil, J{"body": "x"}, []string{r.eventID("p")}, nil)
			c.Count("provider")
			c.c07Run(ver, ev, auths, "provider order/duplicates")
		}
	}
}

// randomly composed concrete events over a small simulated room
func c07GenRandom(c *Ctx, count int) {
	rng := c.Rng
	users := []string{"@creator:hs1", "@alice:hs1", "@bob:hs2", "@carol:hs3", "@dave:hs2"}
	mems := []string{"join", "join", "join", "invite", "leave", "ban", "knock"}
	for i := 0; i < count; i++ {
		ver := pick(rng, c07Versions)
		r := c07NewRoom(ver, fmt.Sprintf("q%d", i))
		ce := J{}
		if rng.Intn(6) == 0 {
			ce["m.federate"] = rng.Intn(2) == 0
		}
		if rng.Intn(6) == 0 {
			ce["additional_creators"] = []string{pick(rng, users[1:])}
		}
		if rng.Intn(8) == 0 {
			ce["room_version"] = pick(rng, []interface{}{nil, "1", "2", "5"})
		}
		all := [][]byte{r.create(users[0], ce)}
		if rng.Intn(5) != 0 {
			us := J{}
			for _, u := range users {
				if rng.Intn(2) == 0 && !(r.format == 3 && u == users[0]) {
					us[u] = pick(rng, []int{0, 25, 50, 50, 75, 100})
				}
			}
			pl := J{"users": us}
			for _, k := range []string{"ban", "kick", "invite", "redact", "events_default", "state_default", "users_default"} {
				if rng.Intn(3) == 0 {
					pl[k] = pick(rng, []int{0, 25, 50, 75, 100})
				}
			}
			if rng.Intn(3) == 0 {
				pl["events"] = J{pick(rng, []string{"m.room.message", "m.room.topic", "m.room.power_levels", "m.room.redaction"}): pick(rng, []int{0, 25, 50, 75})}
			}
			all = append(all, r.state("m.room.power_levels", users[0], "", pl))
		}
		if rng.Intn(4) != 0 {
			all = append(all, r.state("m.room.join_rules", users[0], "", J{"join_rule": pick(rng, c07JoinRules[:6])}))
		}
		for _, u := range users {
			if rng.Intn(3) != 0 {
				all = append(all, r.member(u, u, c07MemContent(pick(rng, mems))))
			}
		}
		// the event
		sender := pick(rng, users)
		target := pick(rng, users)
		prev := []string{r.eventID("p")}
		if rng.Intn(6) == 0 {
			prev = []string{r.createID}
		}
		var ev []byte
		switch rng.Intn(8) {
		case 0, 1, 2, 3:
			content := J{"membership": pick(rng, c07NewMems[:5])}
			if rng.Intn(5) == 0 {
				content["join_authorised_via_users_server"] = pick(rng, users)
			}
			ev = r.event(r.eventID("e"), "m.room.member", sender, sp(target), content, prev, nil)
		case 4:
			ev = r.event(r.eventID("e"), "m.room.message", sender, nil, J{"body": "x"}, prev, nil)
		case 5:
			ev = r.event(r.eventID("e"), pick(rng, []string{"m.room.topic", "m.room.join_rules", "m.room.third_party_invite", "x.custom"}), sender,
				sp(pick(rng, []string{"", "", target})), J{}, prev, nil)
		case 6:
			ev = r.event(r.eventID("e"), "m.room.redaction", sender, nil, J{}, prev, J{"redacts": pick(rng, []string{"$x:hs1", "$x:hs2", "$y"})})
		case 7:
			us := J{}
			for _, u := range users {
				if rng.Intn(2) == 0 {
					us[u] = pick(rng, []int{0, 25, 50, 75, 100})
				}
			}
			ev = r.event(r.eventID("e"), "m.room.power_levels", sender, sp(""), J{"users": us, pick(rng, []string{"ban", "kick", "invite", "users_default"}): pick(rng, []int{0, 50, 100})}, prev, nil)
		}
		// a random subset of the state as auth events
		auths := [][]byte{}
		for _, a := range all {
			if rng.Intn(12) != 0 {
				auths = append(auths, a)
			}
		}
		c.Count("random")
		c.c07Run(ver, ev, c07Shuffle(rng, auths), "random room")
	}
}

// ---------------------------------------------------------------------------------------------
// pseudo-ID rooms: sender IDs are keys, the UserIDForSender callback resolves them to user IDs
// through a table (the "users" member of the signature argument)

func c07AllowedPseudo(args [][]byte) ([][]byte, []byte) {
	verImpl, err := gm.GetRoomVersion(gm.RoomVersion(args[0]))
	if err != nil {
		return args, B("unknown-version")
	}
	var tbl struct {
		Users map[string]string `json:"users"`
	}
	_ = json.Unmarshal(args[1], &tbl)
	querier := func(roomID spec.RoomID, senderID spec.SenderID) (*spec.UserID, error) {
		uid, ok := tbl.Users[string(senderID)]
		if !ok {
			return nil, fmt.Errorf("no user for sender %q", senderID)
		}
		return spec.NewUserID(uid, true)
	}
	ev, err := c07ParseTrusted(verImpl, args[2])
	if err != nil {
		return args, B("unparsed")
	}
	auths := []gm.PDU{}
	for _, a := range args[3:] {
		ae, err := c07ParseTrusted(verImpl, a)
		if err != nil {
			return args, B("unparsed")
		}
		auths = append(auths, ae)
	}
	out := func() (out []byte) {
		defer func() {
			if r := recover(); r != nil {
				out = B("panic")
			}
		}()
		provider, err := gm.NewAuthEvents(auths)
		if err != nil {
			return B("err")
		}
		return c07Class(gm.Allowed(ev, provider, querier))
	}()
	return args, out
}

// pseudo-ID rooms x power-levels event present or not yet x actions of the creator and of others
func c07GenPseudoIDs(c *Ctx) {
	n := 0
	users := J{"CREATORKEY": "@creator:hs1", "ALICEKEY": "@alice:hs1", "BOBKEY": "@bob:hs2", "REMOTEKEY": "@rem:hs3"}
	tbl, _ := json.Marshal(J{"users": users})
	for _, ver := range []string{"org.matrix.msc4014", "10", "12"} {
		for _, pl := range []string{"none", "present", "present-creator-listed"} {
			for _, fed := range []interface{}{nil, false} {
				for _, actor := range []string{"CREATORKEY", "ALICEKEY", "REMOTEKEY", "UNKNOWNKEY"} {
					for _, what := range []string{"topic", "message", "kick", "ban", "invite", "pl", "first-join", "join", "aliases", "redact"} {
						n++
						r := c07NewRoom(ver, fmt.Sprintf("z%d", n))
						ce := J{}
						if fed != nil {
							ce["m.federate"] = fed
						}
						auths := [][]byte{r.create("CREATORKEY", ce)}
						switch pl {
						case "present":
							auths = append(auths, r.state("m.room.power_levels", "CREATORKEY", "", J{"users": J{"ALICEKEY": 50}}))
						case "present-creator-listed":
							us := J{"ALICEKEY": 50}
							if r.format != 3 {
								us["CREATORKEY"] = 100
							}
							auths = append(auths, r.state("m.room.power_levels", "CREATORKEY", "", J{"users": us}))
						}
						auths = append(auths, r.state("m.room.join_rules", "CREATORKEY", "", J{"join_rule": "public"}))
						if what != "first-join" && what != "join" {
							auths = append(auths, r.member(actor, actor, c07MemContent("join")))
						}
						auths = append(auths, r.member("BOBKEY", "BOBKEY", c07MemContent("join")))
						prev := []string{r.eventID("p")}
						var ev []byte
						switch what {
						case "topic":
							ev = r.event(r.eventID("e"), "m.room.topic", actor, sp(""), J{"topic": "x"}, prev, nil)
						case "message":
							ev = r.event(r.eventID("e"), "m.room.message", actor, nil, J{"body": "x"}, prev, nil)
						case "kick":
							ev = r.event(r.eventID("e"), "m.room.member", actor, sp("BOBKEY"), J{"membership": "leave"}, prev, nil)
						case "ban":
							ev = r.event(r.eventID("e"), "m.room.member", actor, sp("BOBKEY"), J{"membership": "ban"}, prev, nil)
						case "invite":
							ev = r.event(r.eventID("e"), "m.room.member", actor, sp("DAVEKEY"), J{"membership": "invite"}, prev, nil)
						case "pl":
							ev = r.event(r.eventID("e"), "m.room.power_levels", actor, sp(""), J{"users": J{"ALICEKEY": 50, "BOBKEY": 10}}, prev, nil)
						case "first-join":
							auths = auths[:1]
							ev = r.event(r.eventID("e"), "m.room.member", actor, sp(actor), J{"membership": "join",
								"mxid_mapping": J{"user_room_key": actor, "user_id": users[actor]}}, []string{r.createID}, nil)
						case "join":
							ev = r.event(r.eventID("e"), "m.room.member", actor, sp(actor), J{"membership": "join",
								"mxid_mapping": J{"user_room_key": actor, "user_id": users[actor]}}, prev, nil)
						case "aliases":
							ev = r.event(r.eventID("e"), "m.room.aliases", actor, sp(pick(c.Rng, []string{actor, "hs1"})), J{}, prev, nil)
						case "redact":
							ev = r.event(r.eventID("e"), "m.room.redaction", actor, nil, J{}, prev, J{"redacts": "$x:hs1"})
						}
						if !c07Parses(ver, append([][]byte{ev}, auths...)...) {
							c.Count("skipped/unparsed")
							continue
						}
						c.Count("pseudo-ids/" + what)
						args := append([][]byte{B(ver), tbl, ev}, c07Shuffle(c.Rng, auths)...)
						c.Run("c07.allowed_pseudo", args, "C07.allowed_pseudo", "C07.prop.allowed_pseudo",
							fmt.Sprintf("pseudo-ids ver=%s pl=%s fed=%v actor=%s what=%s", ver, pl, fed, actor, what))
					}
				}
			}
		}
	}
}

// cases for the departure histogram: args ++ [verdict]
var c07Literal [][][]byte

// c07DepartureHistogram asks the extracted model (build/model_runner, built before the harness
// runs) which departures explain each case's difference from the literal text, and records the
// classes in the input-distribution histogram of the evidence.
func c07DepartureHistogram(c *Ctx) {
	runner := filepath.Join("build", "model_runner")
	if _, err := os.Stat(runner); err != nil || len(c07Literal) == 0 {
		c.Count("literal/histogram-unavailable")
		return
	}
	var in bytes.Buffer
	for i, args := range c07Literal {
		fmt.Fprintf(&in, "L%d\tcorr\tC07.literal_report\t%s\n", i, hexArgs(args))
	}
	cmd := exec.Command("bash", "-c", "ulimit -s unlimited 2>/dev/null; exec \"$0\"", runner)
	cmd.Stdin = &in
	outb, err := cmd.Output()
	if err != nil {
		c.Count("literal/histogram-unavailable")
		return
	}
	for _, line := range strings.Split(string(outb), "\n") {
		parts := strings.Split(line, "\t")
		if len(parts) != 2 {
			continue
		}
		b, err := hex.DecodeString(parts[1])
		if err != nil {
			continue
		}
		cls := string(b)
		switch {
		case strings.HasPrefix(cls, "dep:"):
			for _, k := range strings.Split(cls[4:], ",") {
				c.Count(fmt.Sprintf("literal/decided-by-departure-%s", k))
			}
			c.Count("literal/differs-by-departure")
		case strings.HasPrefix(cls, "joint:"):
			for _, k := range strings.Split(cls[6:], ",") {
				c.Count(fmt.Sprintf("literal/jointly-departure-%s", k))
			}
			c.Count("literal/differs-by-departures-jointly")
		default:
			c.Count("literal/" + cls)
		}
	}
	c07Literal = nil
}

func c07All(c *Ctx) {
	c07GenMembership(c)
	c07GenMemberBoundaries(c)
	c07GenGeneric(c)
	c07GenCreate(c)
	c07GenAliases(c)
	c07GenRedaction(c)
	c07GenThirdParty(c)
	c07GenTpiBlocks(c)
	c07GenMalformed(c)
	c07GenRandom(c, c.Scale(1500, 30000))
	e := &c08Env{c: c, propOp: c07PropOp}
	c08GenExhaustive(e)
	c08GenSpellings(e)
	c08GenFoldedNames(e)
	c08GenDefaultAboveSender(e)
	c08GenNullMaps(e)
	c08GenHistories(e, c.Scale(40, 600))
	c07GenPseudoIDs(c)
	c07DepartureHistogram(c)
}

func init() {
	RegisterImpl("c07.allowed", c07Allowed)
	RegisterImpl("c07.allowed_nilq", c07AllowedNilQ)
	RegisterImpl("c07.allowed_pseudo", c07AllowedPseudo)
	RegisterProp("C07", c07All)
}

var _ = strings.Repeat

// c07ParseTrusted: the generators choose event IDs (the worlds refer to events by them, and in
// room version 12 the room ID is the create event's ID). Since the repair of F65 an event of the
// hash-derived ID format never takes its ID from the JSON, so the chosen ID is handed over the
// way a server loading an event from its database does.
func c07ParseTrusted(verImpl gm.IRoomVersion, js []byte) (gm.PDU, error) {
	var hdr struct {
		EventID string `json:"event_id"`
	}
	if verImpl.EventFormat() != gm.EventFormatV1 && json.Unmarshal(js, &hdr) == nil && hdr.EventID != "" {
		return verImpl.NewEventFromTrustedJSONWithEventID(hdr.EventID, js, false)
	}
	return verImpl.NewEventFromTrustedJSON(js, false)
}
