package main

// C08 (and the power-level part of C07): generators for m.room.power_levels events.
// Correspondence op: C07.allowed (the shared authorisation model); oracle: C08.prop.no_escalation
// (the five clauses of the property computed directly from the old and new contents).

import (
	"bytes"
	"encoding/json"
	"fmt"
	"math/rand"
)

type c08Env struct {
	c      *Ctx
	propOp string
	n      int
}

const c08Creator = "@creator:hs1"

func cloneJ(j J) J {
	b, _ := json.Marshal(j)
	var out J
	d := json.NewDecoder(bytes.NewReader(b))
	d.UseNumber()
	_ = d.Decode(&out)
	return out
}

// run one power-levels event. oldPL == nil: the room has no power-levels event yet.
func (e *c08Env) run(ver, sender string, oldPL, newPL interface{}, createExtra J, senderMem, what, desc string) string {
	e.n++
	s := c07NewScene(ver, fmt.Sprintf("p%d", e.n), sender, createExtra, oldPL, senderMem)
	ev := s.r.event(s.r.eventID("e"), "m.room.power_levels", sender, sp(""), newPL, []string{s.r.eventID("p")}, nil)
	e.c.Count(what)
	if !c07Parses(ver, append([][]byte{ev}, s.auths...)...) {
		e.c.Count("skipped/unparsed")
		return "unparsed"
	}
	auths := c07Shuffle(e.c.Rng, s.auths)
	out := e.c.Run("c07.allowed", c07Args(ver, ev, auths), "C07.allowed", e.propOp, what+" "+desc)
	if e.propOp == c07PropOp && c07PropOp != "" {
		final := c07Args(ver, ev, auths)
		final[1] = c07SigTable(ev, auths)
		e.c.emit("c07.allowed", final, out, "", "C07.prop.literal", what+" "+desc)
		c07Literal = append(c07Literal, append(append([][]byte{}, final...), out))
	}
	return string(out)
}

type c08Val struct {
	name string
	abs  bool
	d    int64
}

var c08Vals = []c08Val{{"absent", true, 0}, {"lt", false, -1}, {"eq", false, 0}, {"gt", false, 1}}

func c08Set(m J, k string, v c08Val, L int64) {
	if !v.abs {
		m[k] = L + v.d
	}
}

func sub(m J, k string) J {
	if x, ok := m[k].(J); ok {
		return x
	}
	x := J{}
	m[k] = x
	return x
}

// exhaustive over {old,new} in {absent, <L, =L, >L} for every named key and for entries of
// users (self / other), events, notifications x sender level x version
func c08GenExhaustive(e *c08Env) {
	named := []string{"ban", "kick", "invite", "redact", "events_default", "state_default", "users_default"}
	for _, ver := range c07Versions {
		v3 := c07NewRoom(ver, "x").format == 3
		for _, L := range []int64{50, 30, 70} {
			for _, who := range []string{"user", "by-default", "creator"} {
				sender := "@alice:hs1"
				if who == "creator" {
					sender = c08Creator
				}
				base := func() J {
					b := J{"events": J{"m.room.power_levels": 0}, "users": J{}}
					switch who {
					case "user":
						sub(b, "users")[sender] = L
					case "by-default":
						b["users_default"] = L
					case "creator":
						if !v3 {
							sub(b, "users")[sender] = L
						}
					}
					return b
				}
				effL := L
				if who == "creator" && v3 {
					effL = 1 << 53
				}
				for _, ov := range c08Vals {
					for _, nv := range c08Vals {
						for _, k := range named {
							if k == "users_default" && who == "by-default" {
								continue
							}
							o, n := base(), base()
							c08Set(o, k, ov, effL)
							c08Set(n, k, nv, effL)
							e.run(ver, sender, o, n, nil, "join", "pl/named/"+k, fmt.Sprintf("L=%d who=%s old=%s new=%s", L, who, ov.name, nv.name))
						}
						// another user's entry
						o, n := base(), base()
						c08Set(sub(o, "users"), "@bob:hs2", ov, effL)
						c08Set(sub(n, "users"), "@bob:hs2", nv, effL)
						e.run(ver, sender, o, n, nil, "join", "pl/users/other", fmt.Sprintf("L=%d who=%s old=%s new=%s", L, who, ov.name, nv.name))
						// the sender's own entry: the old value is what defines L
						if ov.name == "eq" || ov.name == "absent" {
							o, n = base(), base()
							if ov.abs {
								delete(sub(o, "users"), sender)
								delete(sub(n, "users"), sender)
								o["users_default"] = L
								n["users_default"] = L
							}
							if !nv.abs {
								sub(n, "users")[sender] = L + nv.d
							} else {
								delete(sub(n, "users"), sender)
							}
							if !(who == "creator" && v3) {
								e.run(ver, sender, o, n, nil, "join", "pl/users/self", fmt.Sprintf("L=%d who=%s old=%s new=%s", L, who, ov.name, nv.name))
							}
						}
						// an events entry and a notifications entry
						for _, ty := range []string{"x.custom", "m.room.third_party_invite"} {
							o, n = base(), base()
							c08Set(sub(o, "events"), ty, ov, effL)
							c08Set(sub(n, "events"), ty, nv, effL)
							e.run(ver, sender, o, n, nil, "join", "pl/events", fmt.Sprintf("L=%d who=%s ty=%s old=%s new=%s", L, who, ty, ov.name, nv.name))
						}
						for _, nk := range []string{"room", "x.notif"} {
							o, n = base(), base()
							c08Set(sub(o, "notifications"), nk, ov, effL)
							c08Set(sub(n, "notifications"), nk, nv, effL)
							e.run(ver, sender, o, n, nil, "join", "pl/notifications", fmt.Sprintf("L=%d who=%s key=%s old=%s new=%s", L, who, nk, ov.name, nv.name))
						}
					}
				}
			}
		}
		// no current power-levels event: only the creator can send one; L = 2^53-1 (2^53 in v12)
		effL := int64(1<<53 - 1)
		if v3 {
			effL = 1 << 53
		}
		for _, nv := range c08Vals {
			for _, k := range named {
				n := J{}
				c08Set(n, k, nv, effL)
				e.run(ver, c08Creator, nil, n, nil, "join", "pl/first/"+k, "new="+nv.name)
			}
			for _, mapk := range []string{"users", "events", "notifications"} {
				n := J{}
				key := map[string]string{"users": "@bob:hs2", "events": "x.custom", "notifications": "room"}[mapk]
				c08Set(sub(n, mapk), key, nv, effL)
				e.run(ver, c08Creator, nil, n, nil, "join", "pl/first/"+mapk, "new="+nv.name)
			}
			n := J{}
			c08Set(sub(n, "users"), c08Creator, nv, effL)
			e.run(ver, c08Creator, nil, n, nil, "join", "pl/first/self", "new="+nv.name)
		}
		e.run(ver, "@alice:hs1", nil, J{}, nil, "join", "pl/first/non-creator", "")
		// creators must not be named in v12; additional creators are creators
		for _, who := range []string{c08Creator, "@extra:hs2", "@bob:hs2"} {
			for _, sender := range []string{c08Creator, "@extra:hs2", "@alice:hs1"} {
				old := J{"users": J{"@alice:hs1": 100}}
				n := J{"users": J{"@alice:hs1": 100, who: 100}}
				if e.c.Rng.Intn(2) == 0 {
					n = J{"users": J{"@alice:hs1": 100, who: 0}, "notifications": J{"room": 100}}
				}
				e.run(ver, sender, old, n, J{"additional_creators": []string{"@extra:hs2"}}, "join", "pl/creators", fmt.Sprintf("named=%s sender=%s", who, sender))
			}
		}
		// user IDs in users must be valid
		for _, uid := range []string{"bob", "@bob", "@bob:h s", "@:hs1", "@bob:hs1:80", "@bob:hs1:x"} {
			old := J{"users": J{"@alice:hs1": 100}}
			n := J{"users": J{"@alice:hs1": 100, uid: e.c.Rng.Intn(3) * 100}}
			e.run(ver, "@alice:hs1", old, n, nil, "join", "pl/user-ids", uid)
		}
	}
}

// level spellings: strings, floats, negative and boundary values, in the old or the new content
func c08GenSpellings(e *c08Env) {
	spell := []string{`50`, `"50"`, `" 50 "`, `"+50"`, `"5 0"`, `""`, `"abc"`, `"50.0"`, `50.0`, `50.5`, `49.999`, `5e1`, `5E1`, `0.5e2`, `500e-1`, `505e-1`,
		`-0`, `-0.0`, `-1.5`, `-50`, `"-50"`, `true`, `null`, `[]`, `{}`, `9007199254740991`, `9007199254740992`, `9007199254740993`,
		`9223372036854775807`, `-9223372036854775808`, `"9223372036854775807"`, `"9223372036854775808"`, `1e15`, `123456789012345.5`,
		`9223372036854775808`, `1e19`, `1e30`, `-1e19`, `9223372036854775808.0`, `"\t50\n"`, `"0x32"`, `"5_0"`, `0`, `"0"`, `100`, `"100"`, `51`, `"51"`, `50.9`, `"٥٠"`, `1.0e2`, `100e0`}
	places := []string{"ban", "users_default", "users:@bob:hs2", "users:@alice:hs1", "events:x.custom", "notifications:room", "state_default"}
	// every version, always: a string, a padded string, a fraction and an exponent at a named key,
	// a users entry, an events entry and a notifications entry of the new content (a version whose
	// table entry is wired to the other parser then yields a concrete disagreement)
	for _, ver := range c07Versions {
		for _, sp := range []string{`"50"`, `" 50 "`, `50.5`, `5e1`, `50.0`, `"abc"`, `50`, `9223372036854775808`, `1e19`, `1e30`} {
			for _, place := range []string{"ban", "users:@bob:hs2", "events:x.custom", "notifications:room"} {
				b := J{"events": J{"m.room.power_levels": 0}, "users": J{"@alice:hs1": 50}}
				o := cloneJ(b)
				raw := json.RawMessage(sp)
				var a, k string
				if n, _ := fmt.Sscanf(place, "users:%s", &k); n == 1 {
					a = "users"
				} else if n, _ := fmt.Sscanf(place, "events:%s", &k); n == 1 {
					a = "events"
				} else if n, _ := fmt.Sscanf(place, "notifications:%s", &k); n == 1 {
					a = "notifications"
				}
				if a != "" {
					sub(b, a)[k] = raw
				} else {
					b[place] = raw
				}
				e.run(ver, "@alice:hs1", o, b, nil, "join", "pl/spelling/every-version", fmt.Sprintf("%s at %s", sp, place))
			}
		}
	}
	for _, ver := range c07Versions {
		for _, sp := range spell {
			for _, place := range places {
				for _, side := range []string{"new", "old", "both"} {
					if !e.c.Thorough() && e.c.Rng.Intn(3) != 0 {
						continue
					}
					mk := func(with bool) J {
						b := J{"events": J{"m.room.power_levels": 0}, "users": J{"@alice:hs1": 50}}
						if with {
							raw := json.RawMessage(sp)
							var a, k string
							if n, _ := fmt.Sscanf(place, "users:%s", &k); n == 1 {
								a = "users"
							} else if n, _ := fmt.Sscanf(place, "events:%s", &k); n == 1 {
								a = "events"
							} else if n, _ := fmt.Sscanf(place, "notifications:%s", &k); n == 1 {
								a = "notifications"
							}
							if a != "" {
								sub(b, a)[k] = raw
							} else {
								b[place] = raw
							}
						}
						return b
					}
					o, n := mk(side != "new"), mk(side != "old")
					e.run(ver, "@alice:hs1", o, n, nil, "join", "pl/spelling/"+side, fmt.Sprintf("%s at %s", sp, place))
				}
			}
		}
	}
}

// random histories of 1-12 changes from a room's initial state
func c08GenHistories(e *c08Env, count int) {
	rng := e.c.Rng
	users := []string{c08Creator, "@alice:hs1", "@bob:hs2", "@carol:hs3"}
	named := []string{"ban", "kick", "invite", "redact", "events_default", "state_default", "users_default"}
	for h := 0; h < count; h++ {
		ver := pick(rng, c07Versions)
		v3 := c07NewRoom(ver, "x").format == 3
		var cur J // nil: no power-levels event yet
		steps := 1 + rng.Intn(12)
		for st := 0; st < steps; st++ {
			sender := pick(rng, users)
			if cur == nil && rng.Intn(4) != 0 {
				sender = c08Creator
			}
			level := func(u string) int64 {
				if cur == nil {
					return 0
				}
				if us, ok := cur["users"].(J); ok {
					if v, ok := us[u]; ok {
						return toInt(v)
					}
				}
				if v, ok := cur["users_default"]; ok {
					return toInt(v)
				}
				return 0
			}
			L := level(sender)
			var next J
			if cur == nil {
				next = J{"users": J{"@alice:hs1": 50 + rng.Intn(3)*25}, "events": J{"m.room.power_levels": 50}}
				if !v3 {
					sub(next, "users")[c08Creator] = 100
				}
			} else {
				next = cloneJ(cur)
			}
			nm := 1 + rng.Intn(3)
			for i := 0; i < nm; i++ {
				val := L + int64(rng.Intn(5)-2)*int64(1+rng.Intn(2)*9)
				switch rng.Intn(6) {
				case 0, 1:
					k := pick(rng, named)
					if rng.Intn(5) == 0 {
						delete(next, k)
					} else {
						next[k] = val
					}
				case 2, 3:
					u := pick(rng, users)
					if v3 && u == c08Creator && rng.Intn(4) != 0 {
						u = "@dave:hs4"
					}
					if rng.Intn(4) == 0 {
						delete(sub(next, "users"), u)
					} else {
						sub(next, "users")[u] = val
					}
				case 4:
					ty := pick(rng, []string{"m.room.name", "m.room.power_levels", "x.custom", "m.room.third_party_invite"})
					if rng.Intn(4) == 0 {
						delete(sub(next, "events"), ty)
					} else {
						sub(next, "events")[ty] = val
					}
				case 5:
					nk := pick(rng, []string{"room", "x.notif"})
					if rng.Intn(4) == 0 {
						delete(sub(next, "notifications"), nk)
					} else {
						sub(next, "notifications")[nk] = val
					}
				}
			}
			var old interface{}
			if cur != nil {
				old = cur
			}
			out := e.run(ver, sender, old, next, nil, "join", "pl/history", fmt.Sprintf("history %d step %d", h, st))
			if out == "ok" {
				cur = next
			}
		}
	}
}

func toInt(v interface{}) int64 {
	switch x := v.(type) {
	case int:
		return int64(x)
	case int64:
		return x
	case float64:
		return int64(x)
	case json.Number:
		i, _ := x.Int64()
		return i
	}
	return 0
}

// member names that encoding/json would fold onto the real ones (ASCII case, U+017F for s, U+212A
// for k): the content is read by exact names only; a twin neither hides what the real member says
// nor counts for anything itself
func c08GenFoldedNames(e *c08Env) {
	twins := map[string][]string{
		"users": {"user\u017f", "Users", "USERS"}, "kick": {"\u212aick", "Kick", "KICK"}, "ban": {"Ban", "BAN"},
		"events": {"Events", "event\u017f"}, "notifications": {"Notifications", "notification\u017f"},
		"users_default": {"Users_Default", "u\u017fers_default"}, "invite": {"Invite"}, "state_default": {"\u017ftate_default"},
	}
	for _, ver := range c07Versions {
		for member, names := range twins {
			for _, twin := range names {
				for _, dir := range []string{"real-escalates", "twin-escalates", "both-same"} {
					mkv := func(level int64) interface{} {
						switch member {
						case "users":
							return J{"@alice:hs1": 50, "@bob:hs2": level}
						case "events":
							return J{"m.room.power_levels": 0, "x.custom": level}
						case "notifications":
							return J{"room": level}
						}
						return level
					}
					old := J{"events": J{"m.room.power_levels": 0}, "users": J{"@alice:hs1": 50}}
					old[member] = mkv(50)
					realV, twinV := int64(50), int64(50)
					switch dir {
					case "real-escalates":
						realV = 100
					case "twin-escalates":
						twinV = 100
					}
					// build the new content by hand so that both members are there
					n := cloneJ(old)
					n[member] = mkv(realV)
					nb, _ := json.Marshal(n)
					tb, _ := json.Marshal(mkv(twinV))
					content := json.RawMessage(string(nb[:len(nb)-1]) + `,"` + twin + `":` + string(tb) + `}`)
					e.run(ver, "@alice:hs1", old, content, nil, "join", "pl/folded-names/"+dir, fmt.Sprintf("%s ~ %s", twin, member))
				}
			}
		}
	}
}

// users_default above the sender's level x deletions of entries: a deleted entry takes the new
// users_default, so deleting one's own entry (or a lower user's) while users_default is above one's
// level raises that user above the sender
func c08GenDefaultAboveSender(e *c08Env) {
	for _, ver := range c07Versions {
		for _, L := range []int64{50, 30} {
			for _, ud := range []int64{L + 1, 100, L, L - 1} {
				for _, victim := range []string{"self", "lower", "equal", "higher", "none"} {
					for _, how := range []string{"delete", "lower", "keep"} {
						users := J{"@alice:hs1": L, "@low:hs2": L - 10, "@peer:hs2": L, "@high:hs2": L + 10}
						old := J{"events": J{"m.room.power_levels": 0}, "users": users, "users_default": ud}
						n := cloneJ(old)
						target := map[string]string{"self": "@alice:hs1", "lower": "@low:hs2", "equal": "@peer:hs2", "higher": "@high:hs2"}[victim]
						if target != "" {
							switch how {
							case "delete":
								delete(sub(n, "users"), target)
							case "lower":
								sub(n, "users")[target] = L - 20
							}
						}
						if e.c.Rng.Intn(4) == 0 {
							// the same with users_default changed in the same event
							n["users_default"] = ud - 1
						}
						e.run(ver, "@alice:hs1", old, n, nil, "join", "pl/default-above-sender/"+how, fmt.Sprintf("L=%d users_default=%d victim=%s", L, ud, victim))
					}
				}
			}
		}
	}
}

// JSON null in place of each sub-object (users, events, notifications) of the old and of the new
// content: the strict parser turns the map into nil, the lenient one leaves it alone; either way
// every entry of that map counts as removed / absent
func c08GenNullMaps(e *c08Env) {
	for _, ver := range c07Versions {
		for _, which := range []string{"users", "events", "notifications"} {
			for _, side := range []string{"new", "old", "both"} {
				for _, lvl := range []int64{100, 50, 40} {
					mk := func(null bool) interface{} {
						b := J{"events": J{"m.room.power_levels": 0, "x.custom": lvl}, "users": J{"@alice:hs1": 50, "@bob:hs2": lvl - 1},
							"notifications": J{"room": lvl, "x.notif": lvl}}
						if !null {
							return b
						}
						raw, _ := json.Marshal(b)
						var m map[string]json.RawMessage
						_ = json.Unmarshal(raw, &m)
						m[which] = json.RawMessage("null")
						return m
					}
					o, n := mk(side != "new"), mk(side != "old")
					e.run(ver, "@alice:hs1", o, n, nil, "join", "pl/null-map/"+which+"/"+side, fmt.Sprintf("entries at %d", lvl))
				}
			}
		}
	}
}

func c08All(c *Ctx, propOp string) {
	e := &c08Env{c: c, propOp: propOp}
	c08GenExhaustive(e)
	c08GenSpellings(e)
	c08GenFoldedNames(e)
	c08GenDefaultAboveSender(e)
	c08GenNullMaps(e)
	c08GenHistories(e, c.Scale(150, 3000))
}

func init() {
	RegisterProp("C08", func(c *Ctx) { c08All(c, c08PropOp) })
}

var c08PropOp = "C08.prop.no_escalation"
var _ = rand.Int
