package main

// Property C09: an auth verdict depends only on the event and the state it needs.
//
// Implementation side:
//   C09.state_needed     StateNeededForAuth(...).Tuples() on parsed events
//   C09.needed_proto     StateNeededForProtoEvent(...).Tuples() (errors observable)
//   C09.add_auth_events  EventBuilder.AddAuthEvents against a provider
//   C09.sequence         one allowerContext fed a sequence (overlay hook VerifCheckSequence)
//                        AND plain one-shot Allowed on the same (provider, event) pairs
//   C09.invariance       Allowed repeated / permuted supply order / un-needed state added / removed

import (
	"crypto/ed25519"
	"encoding/hex"
	"encoding/json"
	"fmt"
	"sort"
	"strings"

	gmsl "github.com/matrix-org/gomatrixserverlib"
	"github.com/matrix-org/gomatrixserverlib/spec"
)

func c09Querier(roomID spec.RoomID, senderID spec.SenderID) (*spec.UserID, error) {
	return spec.NewUserID(string(senderID), true)
}

func c09Class(err error) string {
	if err == nil {
		return "ok"
	}
	if _, ok := err.(*gmsl.NotAllowed); ok {
		return "notallowed"
	}
	if strings.HasPrefix(err.Error(), "PANIC:") {
		return "panic"
	}
	return "err"
}

// c09Safe runs f and turns a panic into the verdict class "panic".
func c09Safe(f func() error) (cls string) {
	defer func() {
		if r := recover(); r != nil {
			cls = "panic"
		}
	}()
	return c09Class(f())
}

// ---------------------------------------------------------------------------------------------
// event construction

type c09Ev struct {
	js  []byte
	pdu gmsl.PDU
	id  string
}

type c09World struct {
	ver        gmsl.RoomVersion
	impl       gmsl.IRoomVersion
	refsV1     bool // prev_events/auth_events are [id, hashes] pairs
	domainless bool
	roomID     string
	pool       []c09Ev
	n          int
}

func c09Versions() []gmsl.RoomVersion {
	var vs []string
	for v := range gmsl.RoomVersions() {
		vs = append(vs, string(v))
	}
	sort.Strings(vs)
	out := make([]gmsl.RoomVersion, len(vs))
	for i, v := range vs {
		out[i] = gmsl.RoomVersion(v)
	}
	return out
}

func newC09World(ver gmsl.RoomVersion) *c09World {
	impl := gmsl.MustGetRoomVersion(ver)
	return &c09World{ver: ver, impl: impl, refsV1: impl.EventFormat() == gmsl.EventFormatV1,
		domainless: impl.DomainlessRoomIDs(), roomID: "!room:a"}
}

func (w *c09World) newID() string {
	w.n++
	if w.refsV1 {
		return fmt.Sprintf("$e%d:a", w.n)
	}
	s := fmt.Sprintf("e%dx", w.n)
	return "$" + s + strings.Repeat("A", 43-len(s))
}

func (w *c09World) refs(ids []string) interface{} {
	if w.refsV1 {
		out := make([]interface{}, 0, len(ids))
		for _, id := range ids {
			out = append(out, []interface{}{id, map[string]string{}})
		}
		return out
	}
	if ids == nil {
		return []string{}
	}
	return ids
}

// c09Parse turns an event JSON (with its event_id member) into a PDU of the given version.
func c09Parse(ver gmsl.RoomVersion, js []byte) (gmsl.PDU, string, error) {
	var hdr struct {
		EventID string `json:"event_id"`
	}
	if err := json.Unmarshal(js, &hdr); err != nil {
		return nil, "", err
	}
	impl, err := gmsl.GetRoomVersion(ver)
	if err != nil {
		return nil, "", err
	}
	p, err := impl.NewEventFromTrustedJSONWithEventID(hdr.EventID, js, false)
	return p, hdr.EventID, err
}

// mk builds an event. sk == nil: not a state event. content is marshalled (a json.RawMessage is
// used verbatim). prev: prev_events ids. Returns the pool index.
func (w *c09World) mk(typ, sender string, sk *string, content interface{}, prev []string) int {
	return w.mkIn(w.roomID, typ, sender, sk, content, prev)
}

func (w *c09World) mkIn(room, typ, sender string, sk *string, content interface{}, prev []string) int {
	return w.mkAuth(room, typ, sender, sk, content, prev, nil)
}

// mkAuth: as mkIn, with the auth_events the event cites
func (w *c09World) mkAuth(room, typ, sender string, sk *string, content interface{}, prev, auth []string) int {
	return w.mkID(w.newID(), room, typ, sender, sk, content, prev, auth)
}

// mkID: an event under a given event ID (IDs are sender-chosen in room versions 1 and 2, and
// supplied by the caller for trusted JSON in every version): two different events can share one.
func (w *c09World) mkID(id, room, typ, sender string, sk *string, content interface{}, prev, auth []string) int {
	w.n++
	m := map[string]interface{}{
		"event_id": id, "type": typ, "sender": sender, "content": content,
		"prev_events": w.refs(prev), "auth_events": w.refs(auth), "depth": w.n, "origin_server_ts": 1000 + w.n,
	}
	if !(w.domainless && typ == spec.MRoomCreate && sk != nil && *sk == "") {
		m["room_id"] = room
	}
	if sk != nil {
		m["state_key"] = *sk
	}
	js, err := json.Marshal(m)
	if err != nil {
		panic(err)
	}
	return w.add(js)
}

func (w *c09World) add(js []byte) int {
	p, id, err := c09Parse(w.ver, js)
	if err != nil {
		panic(fmt.Sprintf("c09: cannot parse generated event: %v: %s", err, js))
	}
	w.pool = append(w.pool, c09Ev{js: js, pdu: p, id: id})
	return len(w.pool) - 1
}

// dup adds a second, separately parsed copy of pool event i (same JSON, same ID, new object).
func (w *c09World) dup(i int) int { return w.add(w.pool[i].js) }

func (w *c09World) poolArgs() [][]byte {
	out := make([][]byte, len(w.pool))
	for i, e := range w.pool {
		out[i] = e.js
	}
	return out
}

func c09sp(s string) *string { return &s }

type c09Step struct {
	P   string `json:"p"`   // "same": the shared provider, cleared and refilled; "new": a new provider object
	Set []int  `json:"set"` // pool indices, in insertion order
	Ev  int    `json:"ev"`
}

// ---------------------------------------------------------------------------------------------
// a room with every kind of member and alternative create / power-levels / join-rules events

const (
	uAlice = "@alice:a" // creator, level 100
	uBob   = "@bob:b"   // joined, level 50
	uCarol = "@carol:c" // invited
	uDave  = "@dave:d"  // left
	uErin  = "@erin:a"  // banned
	uFrank = "@frank:b" // knocking
	uGrace = "@grace:c" // no member event
	uHeidi = "@heidi:d" // joined, level 0
)

var c09Rules = []string{"public", "invite", "knock", "restricted", "knock_restricted", "private"}

type c09Room struct {
	w *c09World
	// alternatives per slot; index 0 is the regular one. -1 = absent.
	creates []int
	pls     []int
	jrs     map[string]int
	jrBad   int
	members map[string]int
	tpi     int // m.room.third_party_invite, state key "tok"
	extras  []int
	cands   []c09Cand
	// a second room in the same pool (same process): create, members, power levels with and
	// without notification levels, and power_levels events to check there
	room2 c09Room2
	// other events of THIS room for heidi's membership, alice's membership, the third_party_invite "tok"
	altSame []int
}

type c09Room2 struct {
	create, alice, bob int
	heidi, jr, tpi     int // heidi's join, join rules (public), third_party_invite "tok" of the second room
	pls               []int // notifications absent / null / room=100
	cands             []c09Cand
}

type c09Cand struct {
	name string
	ev   int
}

var c09SignKey = ed25519.NewKeyFromSeed([]byte("c09-third-party-invite-seed-0000"))

func newC09Room(ver gmsl.RoomVersion) *c09Room {
	w := newC09World(ver)
	r := &c09Room{w: w, jrs: map[string]int{}, members: map[string]int{}}
	priv := w.impl.PrivilegedCreators()
	cc := map[string]interface{}{"creator": uAlice, "room_version": string(ver)}
	c0 := w.mk(spec.MRoomCreate, uAlice, c09sp(""), cc, nil)
	if w.domainless {
		w.roomID = "!" + w.pool[c0].id[1:]
	}
	r.creates = append(r.creates, c0)
	// same room, different create event (not federatable): in domainless versions it is necessarily
	// another room, which is one of the shapes wanted
	r.creates = append(r.creates, w.mk(spec.MRoomCreate, uAlice, c09sp(""), map[string]interface{}{"creator": uAlice, "room_version": string(ver), "m.federate": false}, nil))
	// created by bob
	r.creates = append(r.creates, w.mk(spec.MRoomCreate, uBob, c09sp(""), map[string]interface{}{"creator": uBob, "room_version": string(ver), "additional_creators": []string{uHeidi}}, nil))
	// content that does not parse as create content
	r.creates = append(r.creates, w.mk(spec.MRoomCreate, uAlice, c09sp(""), map[string]interface{}{"creator": 5, "m.federate": "x"}, nil))
	r.creates = append(r.creates, w.dup(c0))

	users := map[string]interface{}{uBob: 50}
	users2 := map[string]interface{}{uBob: 0, uHeidi: 50}
	if !priv {
		users[uAlice] = 100
		users2[uAlice] = 100
	}
	p0 := w.mk(spec.MRoomPowerLevels, uAlice, c09sp(""), map[string]interface{}{"users": users, "invite": 50, "ban": 50, "kick": 50, "redact": 50,
		"events_default": 0, "state_default": 50, "users_default": 0}, nil)
	r.pls = append(r.pls, p0)
	r.pls = append(r.pls, w.mk(spec.MRoomPowerLevels, uAlice, c09sp(""), map[string]interface{}{"users": users2, "invite": 0, "ban": 100, "kick": 100, "redact": 0,
		"events_default": 50, "state_default": 0, "users_default": 0}, nil))
	r.pls = append(r.pls, w.mk(spec.MRoomPowerLevels, uAlice, c09sp(""), map[string]interface{}{"users": "oops"}, nil))
	r.pls = append(r.pls, w.dup(p0))
	// notification levels (checked from version 6): explicit null, raised, lowered
	plWith := func(room, sender string, us map[string]interface{}, extra map[string]interface{}) int {
		m := map[string]interface{}{"users": us, "invite": 50, "ban": 50, "kick": 50, "redact": 50,
			"events_default": 0, "state_default": 50, "users_default": 0}
		for k, v := range extra {
			m[k] = v
		}
		return w.mkIn(room, spec.MRoomPowerLevels, sender, c09sp(""), m, nil)
	}
	r.pls = append(r.pls, plWith(w.roomID, uAlice, users, map[string]interface{}{"notifications": nil}))
	r.pls = append(r.pls, plWith(w.roomID, uAlice, users, map[string]interface{}{"notifications": map[string]int{"room": 100}}))
	r.pls = append(r.pls, plWith(w.roomID, uAlice, users, map[string]interface{}{"notifications": map[string]int{"room": 30}}))

	for _, rule := range c09Rules {
		c := map[string]interface{}{"join_rule": rule}
		if strings.Contains(rule, "restricted") {
			c["allow"] = []interface{}{map[string]string{"type": "m.room_membership", "room_id": "!other:a"}}
		}
		r.jrs[rule] = w.mk(spec.MRoomJoinRules, uAlice, c09sp(""), c, nil)
	}
	r.jrBad = w.mk(spec.MRoomJoinRules, uAlice, c09sp(""), map[string]interface{}{"join_rule": 5}, nil)
	// different events under the event ID of another one, and the same event under another ID
	for _, rule := range c09Rules {
		other := map[string]string{"public": "invite", "invite": "public", "knock": "public", "restricted": "public", "knock_restricted": "invite", "private": "public"}[rule]
		r.jrs["sameid:"+rule] = w.mkID(w.pool[r.jrs[rule]].id, w.roomID, spec.MRoomJoinRules, uAlice, c09sp(""), map[string]interface{}{"join_rule": other}, nil, nil)
		var cc map[string]interface{}
		_ = json.Unmarshal(w.pool[r.jrs[rule]].pdu.Content(), &cc)
		r.jrs["copy:"+rule] = w.mk(spec.MRoomJoinRules, uAlice, c09sp(""), cc, nil)
	}
	// creates[5]: the ID of creates[0], other content (not federatable, created by bob); creates[6]: creates[0] under another ID
	r.creates = append(r.creates, w.mkID(w.pool[c0].id, w.roomID, spec.MRoomCreate, uBob, c09sp(""), map[string]interface{}{"creator": uBob, "room_version": string(ver), "m.federate": false}, nil, nil))
	r.creates = append(r.creates, w.mk(spec.MRoomCreate, uAlice, c09sp(""), cc, nil))
	// pls[7]: the ID of pls[0] with the levels of pls[1] (bob 0, heidi 50, state_default 0); pls[8]: the ID of pls[1] with
	// the levels of pls[0]; pls[9]: pls[0] under another ID
	var pc0, pc1 map[string]interface{}
	_ = json.Unmarshal(w.pool[r.pls[0]].pdu.Content(), &pc0)
	_ = json.Unmarshal(w.pool[r.pls[1]].pdu.Content(), &pc1)
	r.pls = append(r.pls, w.mkID(w.pool[r.pls[0]].id, w.roomID, spec.MRoomPowerLevels, uAlice, c09sp(""), pc1, nil, nil))
	r.pls = append(r.pls, w.mkID(w.pool[r.pls[1]].id, w.roomID, spec.MRoomPowerLevels, uAlice, c09sp(""), pc0, nil, nil))
	r.pls = append(r.pls, w.mk(spec.MRoomPowerLevels, uAlice, c09sp(""), pc0, nil))

	mem := func(target, sender, membership string, prev []string) int {
		return w.mk(spec.MRoomMember, sender, c09sp(target), map[string]interface{}{"membership": membership}, prev)
	}
	r.members[uAlice] = mem(uAlice, uAlice, "join", []string{w.pool[c0].id})
	r.members[uBob] = mem(uBob, uBob, "join", nil)
	r.members[uCarol] = mem(uCarol, uAlice, "invite", nil)
	r.members[uDave] = mem(uDave, uDave, "leave", nil)
	r.members[uErin] = mem(uErin, uAlice, "ban", nil)
	r.members[uFrank] = mem(uFrank, uFrank, "knock", nil)
	r.members[uHeidi] = mem(uHeidi, uHeidi, "join", nil)

	pub := ed25519.PublicKey(c09SignKey[32:])
	r.tpi = w.mk(spec.MRoomThirdPartyInvite, uBob, c09sp("tok"), map[string]interface{}{"display_name": "x", "key_validity_url": "https://id/valid",
		"public_key":  spec.Base64Bytes(pub),
		"public_keys": []interface{}{map[string]interface{}{"public_key": spec.Base64Bytes(pub), "key_validity_url": "https://id/valid"}}}, nil)

	// un-needed state of the same room
	r.extras = append(r.extras, w.mk(spec.MRoomThirdPartyInvite, uBob, c09sp(""), map[string]interface{}{"display_name": "x", "key_validity_url": "https://id/valid",
		"public_key":  spec.Base64Bytes(pub),
		"public_keys": []interface{}{map[string]interface{}{"public_key": spec.Base64Bytes(pub), "key_validity_url": "https://id/valid"}}}, nil))
	r.extras = append(r.extras, w.mk("m.room.topic", uAlice, c09sp(""), map[string]string{"topic": "t"}, nil))
	r.extras = append(r.extras, w.mk("m.room.name", uAlice, c09sp(""), map[string]string{"name": "n"}, nil))
	r.extras = append(r.extras, w.mk("m.room.history_visibility", uAlice, c09sp(""), map[string]string{"history_visibility": "shared"}, nil))
	r.extras = append(r.extras, w.mk(spec.MRoomMember, "@zed:z", c09sp("@zed:z"), map[string]string{"membership": "join"}, nil))
	r.extras = append(r.extras, w.mk(spec.MRoomMember, "@yan:y", c09sp("@yan:y"), map[string]string{"membership": "ban"}, nil))
	r.extras = append(r.extras, w.mk(spec.MRoomThirdPartyInvite, uBob, c09sp("othertok"), map[string]string{"display_name": "y"}, nil))
	r.extras = append(r.extras, w.mk("m.room.aliases", uBob, c09sp("b"), map[string]interface{}{"aliases": []string{}}, nil))

	cand := func(name string, ev int) { r.cands = append(r.cands, c09Cand{name, ev}) }
	member := func(name, target, sender string, content map[string]interface{}, prev []string) {
		cand(name, w.mk(spec.MRoomMember, sender, c09sp(target), content, prev))
	}
	j := func(via string) map[string]interface{} {
		m := map[string]interface{}{"membership": "join"}
		if via != "" {
			m["join_authorised_via_users_server"] = via
		}
		return m
	}
	member("join-dave-via-alice", uDave, uDave, j(uAlice), nil)
	member("join-dave-via-bob", uDave, uDave, j(uBob), nil)
	member("join-dave-via-heidi", uDave, uDave, j(uHeidi), nil)
	member("join-dave-via-carol", uDave, uDave, j(uCarol), nil)
	member("join-dave-via-nobody", uDave, uDave, j("@nobody:n"), nil)
	member("join-dave-via-invalid", uDave, uDave, j("not-a-user-id"), nil)
	member("join-dave-plain", uDave, uDave, j(""), nil)
	member("join-grace-plain", uGrace, uGrace, j(""), nil)
	member("join-grace-via-alice", uGrace, uGrace, j(uAlice), nil)
	member("join-frank-via-bob", uFrank, uFrank, j(uBob), nil)
	member("join-frank-plain", uFrank, uFrank, j(""), nil)
	member("join-carol-invited", uCarol, uCarol, j(""), nil)
	member("join-carol-invited-via-alice", uCarol, uCarol, j(uAlice), nil)
	member("join-bob-again", uBob, uBob, j(""), nil)
	member("join-erin-banned", uErin, uErin, j(uAlice), nil)
	member("join-alice-first", uAlice, uAlice, j(""), []string{w.pool[c0].id})
	member("join-grace-by-bob", uGrace, uBob, j(""), nil)
	member("knock-grace", uGrace, uGrace, map[string]interface{}{"membership": "knock"}, nil)
	member("knock-dave", uDave, uDave, map[string]interface{}{"membership": "knock"}, nil)
	member("knock-carol-invited", uCarol, uCarol, map[string]interface{}{"membership": "knock"}, nil)
	member("invite-grace-by-bob", uGrace, uBob, map[string]interface{}{"membership": "invite"}, nil)
	member("invite-grace-by-heidi", uGrace, uHeidi, map[string]interface{}{"membership": "invite"}, nil)
	member("invite-frank-by-alice", uFrank, uAlice, map[string]interface{}{"membership": "invite"}, nil)
	member("leave-carol", uCarol, uCarol, map[string]interface{}{"membership": "leave"}, nil)
	member("leave-bob", uBob, uBob, map[string]interface{}{"membership": "leave"}, nil)
	member("leave-grace", uGrace, uGrace, map[string]interface{}{"membership": "leave"}, nil)
	member("kick-heidi-by-bob", uHeidi, uBob, map[string]interface{}{"membership": "leave"}, nil)
	member("kick-bob-by-heidi", uBob, uHeidi, map[string]interface{}{"membership": "leave"}, nil)
	member("ban-dave-by-alice", uDave, uAlice, map[string]interface{}{"membership": "ban"}, nil)
	member("ban-alice-by-bob", uAlice, uBob, map[string]interface{}{"membership": "ban"}, nil)
	member("unban-erin-by-bob", uErin, uBob, map[string]interface{}{"membership": "leave"}, nil)
	member("member-unknown", uGrace, uGrace, map[string]interface{}{"membership": "wave"}, nil)
	// third-party invite, properly signed and not
	signed := map[string]interface{}{"mxid": uGrace, "token": "tok"}
	sj, _ := json.Marshal(signed)
	if sj2, err := gmsl.SignJSON("id", "ed25519:0", c09SignKey, sj); err == nil {
		var sm map[string]interface{}
		_ = json.Unmarshal(sj2, &sm)
		member("3pi-invite-grace-signed", uGrace, uBob, map[string]interface{}{"membership": "invite",
			"third_party_invite": map[string]interface{}{"display_name": "x", "signed": sm}}, nil)
	}
	// a third-party invite whose token is empty: StateNeededForAuth names no third_party_invite
	// tuple for it, the check looks up the tuple with the empty state key all the same
	signedE := map[string]interface{}{"mxid": uGrace, "token": ""}
	sje, _ := json.Marshal(signedE)
	if sj2, err := gmsl.SignJSON("id", "ed25519:0", c09SignKey, sje); err == nil {
		var sm map[string]interface{}
		_ = json.Unmarshal(sj2, &sm)
		member("3pi-invite-grace-empty-token", uGrace, uBob, map[string]interface{}{"membership": "invite",
			"third_party_invite": map[string]interface{}{"display_name": "x", "signed": sm}}, nil)
		member("join-dave-empty-token-via-alice", uDave, uDave, map[string]interface{}{"membership": "join", "join_authorised_via_users_server": uAlice,
			"third_party_invite": map[string]interface{}{"display_name": "x", "signed": sm}}, nil)
	}
	member("3pi-invite-grace-unsigned", uGrace, uBob, map[string]interface{}{"membership": "invite",
		"third_party_invite": map[string]interface{}{"display_name": "x", "signed": map[string]interface{}{"mxid": uGrace, "token": "tok",
			"signatures": map[string]interface{}{"id": map[string]string{"ed25519:0": "AAAA"}}}}}, nil)

	cand("msg-bob", w.mk("m.room.message", uBob, nil, map[string]string{"body": "hi"}, nil))
	cand("msg-heidi", w.mk("m.room.message", uHeidi, nil, map[string]string{"body": "hi"}, nil))
	cand("msg-grace", w.mk("m.room.message", uGrace, nil, map[string]string{"body": "hi"}, nil))
	cand("msg-alice", w.mk("m.room.message", uAlice, nil, map[string]string{"body": "hi"}, nil))
	cand("topic-bob", w.mk("m.room.topic", uBob, c09sp(""), map[string]string{"topic": "x"}, nil))
	cand("topic-heidi", w.mk("m.room.topic", uHeidi, c09sp(""), map[string]string{"topic": "x"}, nil))
	cand("state-own-key-heidi", w.mk("org.example.st", uHeidi, c09sp(uHeidi), map[string]string{}, nil))
	cand("state-other-key-bob", w.mk("org.example.st", uBob, c09sp(uHeidi), map[string]string{}, nil))
	cand("pl-by-alice", w.mk(spec.MRoomPowerLevels, uAlice, c09sp(""), map[string]interface{}{"users": users, "invite": 0, "ban": 50, "kick": 50, "redact": 50,
		"events_default": 0, "state_default": 50, "users_default": 0}, nil))
	cand("pl-by-bob", w.mk(spec.MRoomPowerLevels, uBob, c09sp(""), map[string]interface{}{"users": users, "invite": 50, "ban": 50, "kick": 50, "redact": 50,
		"events_default": 10, "state_default": 50, "users_default": 0}, nil))
	cand("jr-by-alice", w.mk(spec.MRoomJoinRules, uAlice, c09sp(""), map[string]string{"join_rule": "public"}, nil))
	cand("jr-by-heidi", w.mk(spec.MRoomJoinRules, uHeidi, c09sp(""), map[string]string{"join_rule": "public"}, nil))
	cand("3pi-event-by-bob", w.mk(spec.MRoomThirdPartyInvite, uBob, c09sp("tok2"), map[string]string{"display_name": "z"}, nil))
	cand("3pi-event-by-heidi", w.mk(spec.MRoomThirdPartyInvite, uHeidi, c09sp("tok2"), map[string]string{"display_name": "z"}, nil))
	cand("aliases-bob", w.mk("m.room.aliases", uBob, c09sp("b"), map[string]interface{}{"aliases": []string{"#x:b"}}, nil))
	cand("aliases-bob-wrong-key", w.mk("m.room.aliases", uBob, c09sp("c"), map[string]interface{}{"aliases": []string{"#x:b"}}, nil))
	red := w.mk("m.room.redaction", uHeidi, nil, map[string]string{"redacts": "$someone:b"}, nil)
	cand("redaction-heidi", red)
	cand("create-again", w.mk(spec.MRoomCreate, uAlice, c09sp(""), cc, nil))
	// power_levels events that touch (or leave alone) the notification levels
	notifShapes := []struct {
		name  string
		extra map[string]interface{}
	}{
		{"resend", nil},
		{"notif-null", map[string]interface{}{"notifications": nil}},
		{"notif-room100", map[string]interface{}{"notifications": map[string]int{"room": 100}}},
		{"notif-room50", map[string]interface{}{"notifications": map[string]int{"room": 50}}},
		{"notif-room30", map[string]interface{}{"notifications": map[string]int{"room": 30}}},
		{"notif-room60-other5", map[string]interface{}{"notifications": map[string]int{"room": 60, "other": 5}}},
	}
	for _, sh := range notifShapes {
		cand("pl-bob-"+sh.name, plWith(w.roomID, uBob, users, sh.extra))
		cand("pl-alice-"+sh.name, plWith(w.roomID, uAlice, users, sh.extra))
	}
	// the second room
	room2 := "!room2:a"
	c2 := w.mkIn(room2, spec.MRoomCreate, uAlice, c09sp(""), map[string]interface{}{"creator": uAlice, "room_version": string(ver), "predecessor": nil}, nil)
	if w.domainless {
		room2 = "!" + w.pool[c2].id[1:]
	}
	r.room2.create = c2
	r.room2.alice = w.mkIn(room2, spec.MRoomMember, uAlice, c09sp(uAlice), map[string]interface{}{"membership": "join"}, []string{w.pool[c2].id})
	r.room2.bob = w.mkIn(room2, spec.MRoomMember, uBob, c09sp(uBob), map[string]interface{}{"membership": "join"}, nil)
	r.room2.heidi = w.mkIn(room2, spec.MRoomMember, uHeidi, c09sp(uHeidi), map[string]interface{}{"membership": "join"}, nil)
	r.room2.jr = w.mkIn(room2, spec.MRoomJoinRules, uAlice, c09sp(""), map[string]interface{}{"join_rule": "public"}, nil)
	r.room2.tpi = w.mkIn(room2, spec.MRoomThirdPartyInvite, uBob, c09sp("tok"), map[string]interface{}{"display_name": "x", "key_validity_url": "https://id/valid",
		"public_key":  spec.Base64Bytes(pub),
		"public_keys": []interface{}{map[string]interface{}{"public_key": spec.Base64Bytes(pub), "key_validity_url": "https://id/valid"}}}, nil)
	// this room: other events for heidi's, alice's membership and the third_party_invite
	r.altSame = []int{
		w.mk(spec.MRoomMember, uHeidi, c09sp(uHeidi), map[string]interface{}{"membership": "leave"}, nil),
		w.mk(spec.MRoomMember, uAlice, c09sp(uAlice), map[string]interface{}{"membership": "leave"}, nil),
		w.mk(spec.MRoomThirdPartyInvite, uBob, c09sp("tok"), map[string]interface{}{"display_name": "other"}, nil),
	}
	r.room2.pls = []int{
		plWith(room2, uAlice, users, nil),
		plWith(room2, uAlice, users, map[string]interface{}{"notifications": nil}),
		plWith(room2, uAlice, users, map[string]interface{}{"notifications": map[string]int{"room": 100}}),
	}
	for _, sh := range notifShapes {
		r.room2.cands = append(r.room2.cands, c09Cand{"room2-pl-bob-" + sh.name, plWith(room2, uBob, users, sh.extra)})
	}
	r.room2.cands = append(r.room2.cands, c09Cand{"room2-pl-alice-notif-room100", plWith(room2, uAlice, users, notifShapes[2].extra)})
	return r
}

// step2 is one evaluation in the second room: the event against create, power levels pls[pl], sender's membership.
func (r *c09Room) step2(cd c09Cand, pl int, newProv bool) c09Step {
	sender := r.room2.bob
	if string(r.w.pool[cd.ev].pdu.SenderID()) == uAlice {
		sender = r.room2.alice
	}
	p := "same"
	if newProv {
		p = "new"
	}
	return c09Step{P: p, Set: []int{r.room2.create, r.room2.pls[pl], sender}, Ev: cd.ev}
}

// slot choices for one step
type c09Choice struct {
	create, pl int    // index into creates/pls, -1 absent
	rule       string // "" absent, "bad" unparsable
	full       bool   // supply the whole room state instead of exactly the needed events
	drop       string // a member to leave out ("" none)
	newProv    bool
}

func (r *c09Room) provider(c *Ctx, ev int, ch c09Choice) []int {
	w := r.w
	needed := gmsl.StateNeededForAuth([]gmsl.PDU{w.pool[ev].pdu})
	var set []int
	if (needed.Create || ch.full) && ch.create >= 0 {
		set = append(set, r.creates[ch.create])
	}
	if (needed.PowerLevels || ch.full) && ch.pl >= 0 {
		set = append(set, r.pls[ch.pl])
	}
	if needed.JoinRules || ch.full {
		if ch.rule == "bad" {
			set = append(set, r.jrBad)
		} else if ch.rule != "" {
			set = append(set, r.jrs[ch.rule])
		}
	}
	if ch.full {
		users := make([]string, 0, len(r.members))
		for u := range r.members {
			users = append(users, u)
		}
		sort.Strings(users)
		for _, u := range users {
			if u != ch.drop {
				set = append(set, r.members[u])
			}
		}
		set = append(set, r.tpi)
		set = append(set, r.extras...)
	} else {
		for _, u := range needed.Member {
			if i, ok := r.members[u]; ok && u != ch.drop {
				set = append(set, i)
			}
		}
		for _, t := range needed.ThirdPartyInvite {
			if t == "tok" {
				set = append(set, r.tpi)
			}
		}
	}
	c.Rng.Shuffle(len(set), func(a, b int) { set[a], set[b] = set[b], set[a] })
	return set
}

func (r *c09Room) randomChoice(c *Ctx, prev *c09Choice) c09Choice {
	ch := c09Choice{rule: "restricted"}
	if prev != nil {
		ch = *prev
	}
	rng := c.Rng
	sticky := func() bool { return prev != nil && rng.Intn(10) < 6 }
	if !sticky() {
		switch k := rng.Intn(13); {
		case k < 6:
			ch.create = 0
		case k < 7:
			ch.create = 4 // same event, new object
		case k < 9:
			ch.create = -1
		case k < 11:
			ch.create = 1 + rng.Intn(3)
		default:
			ch.create = 5 + rng.Intn(2) // same ID other event / same event other ID
		}
	}
	if !sticky() {
		switch k := rng.Intn(16); {
		case k < 5:
			ch.pl = 0
		case k < 6:
			ch.pl = 3
		case k < 8:
			ch.pl = -1
		case k < 10:
			ch.pl = 1
		case k < 11:
			ch.pl = 2
		case k < 14:
			ch.pl = 4 + rng.Intn(3) // with notification levels
		default:
			ch.pl = 7 + rng.Intn(3) // same ID other levels / same levels other ID
		}
	}
	if !sticky() {
		switch k := rng.Intn(16); {
		case k < 4:
			ch.rule = "restricted"
		case k < 6:
			ch.rule = "knock_restricted"
		case k < 7:
			ch.rule = ""
		case k < 8:
			ch.rule = "bad"
		case k < 14:
			ch.rule = c09Rules[rng.Intn(len(c09Rules))]
		default:
			ch.rule = []string{"sameid:", "copy:"}[rng.Intn(2)] + c09Rules[rng.Intn(len(c09Rules))]
		}
	}
	ch.full = rng.Intn(4) == 0
	ch.drop = ""
	if rng.Intn(8) == 0 {
		ch.drop = []string{uAlice, uBob, uHeidi, uDave, uCarol}[rng.Intn(5)]
	}
	ch.newProv = rng.Intn(4) == 0
	return ch
}

func (ch c09Choice) String() string {
	return fmt.Sprintf("c%d/p%d/%s/full=%v/drop=%s/new=%v", ch.create, ch.pl, ch.rule, ch.full, ch.drop, ch.newProv)
}

func (r *c09Room) cand(name string) int {
	for _, cd := range r.cands {
		if cd.name == name {
			return cd.ev
		}
	}
	panic("c09: no candidate " + name)
}

func (r *c09Room) emitSequence(c *Ctx, steps []c09Step, desc string) {
	r.emitSteps(c, "C09.sequence", "C09.sequence", "C09.prop.reuse_transparent", steps, desc)
}

func (r *c09Room) emitSteps(c *Ctx, impl, corr, prop string, steps []c09Step, desc string) {
	// only the events the sequence uses are passed, re-indexed in order of first use
	remap := map[int]int{}
	var used [][]byte
	idx := func(i int) int {
		if k, ok := remap[i]; ok {
			return k
		}
		remap[i] = len(used)
		used = append(used, r.w.pool[i].js)
		return remap[i]
	}
	out := make([]c09Step, len(steps))
	for i, st := range steps {
		out[i] = c09Step{P: st.P, Ev: idx(st.Ev), Set: make([]int, len(st.Set))}
		for j, k := range st.Set {
			out[i].Set[j] = idx(k)
		}
	}
	sj, _ := json.Marshal(out)
	// per pool event: the (key, server, key id) triples that verify its third-party-invite
	// signature against the keys of the third_party_invite events it is checked with
	tables := make([]json.RawMessage, len(used))
	for i := range tables {
		tables[i] = json.RawMessage("[]")
	}
	for _, st := range out {
		auths := make([][]byte, len(st.Set))
		for j, k := range st.Set {
			auths[j] = used[k]
		}
		if t := c07SigTable(used[st.Ev], auths); string(t) != "[]" {
			tables[st.Ev] = json.RawMessage(t)
		}
	}
	tj, _ := json.Marshal(tables)
	args := append([][]byte{B(string(r.w.ver)), sj, tj}, used...)
	c.Run(impl, args, corr, prop, desc)
}

// ---------------------------------------------------------------------------------------------
// implementation entry points

func c09PoolFromArgs(ver gmsl.RoomVersion, args [][]byte) ([]gmsl.PDU, error) {
	pool := make([]gmsl.PDU, len(args))
	for i, js := range args {
		p, _, err := c09Parse(ver, js)
		if err != nil {
			return nil, err
		}
		pool[i] = p
	}
	return pool, nil
}

func c09Tuples(ts []gmsl.StateKeyTuple) []byte {
	var b strings.Builder
	for i, t := range ts {
		if i > 0 {
			b.WriteByte('\n')
		}
		b.WriteString(t.EventType)
		b.WriteByte(' ')
		b.WriteString(hex.EncodeToString([]byte(t.StateKey)))
	}
	return []byte(b.String())
}

func c09Pick(pool []gmsl.PDU, idx []int) []gmsl.PDU {
	evs := make([]gmsl.PDU, len(idx))
	for j, k := range idx {
		evs[j] = pool[k]
	}
	return evs
}

func c09OneShot(ev gmsl.PDU, evs []gmsl.PDU) string {
	return c09Safe(func() error {
		p, err := gmsl.NewAuthEvents(evs)
		if err != nil {
			return err
		}
		return gmsl.Allowed(ev, p, c09Querier)
	})
}

// c09RunReused drives ONE allowerContext through the steps. A "same" step uses the shared
// provider object, cleared and refilled right before the step (as authAndApplyEvents does with
// r.authProvider); a "new" step hands update() a new provider object.
func c09RunReused(steps []c09Step, pool []gmsl.PDU, roomID spec.RoomID) []string {
	shared, _ := gmsl.NewAuthEvents(nil)
	seq := make([]gmsl.VerifSeqStep, len(steps))
	prep := make([]func(), len(steps))
	for i, st := range steps {
		evs := c09Pick(pool, st.Set)
		if st.P == "new" {
			p, _ := gmsl.NewAuthEvents(evs)
			seq[i] = gmsl.VerifSeqStep{Provider: p, Event: pool[st.Ev]}
		} else {
			seq[i] = gmsl.VerifSeqStep{Provider: shared, Event: pool[st.Ev]}
			prep[i] = func() {
				shared.Clear()
				for _, e := range evs {
					_ = shared.AddEvent(e)
				}
			}
		}
	}
	errs := gmsl.VerifCheckSequence(shared, seq, prep, c09Querier, roomID)
	out := make([]string, len(errs))
	for i, e := range errs {
		out[i] = c09Class(e)
	}
	return out
}

func init() {
	// [ver; steps JSON; signature tables (model side only); pool event JSON ...] -> "reused verdicts|one-shot verdicts"
	RegisterImpl("C09.sequence", func(args [][]byte) ([][]byte, []byte) {
		ver := gmsl.RoomVersion(args[0])
		var steps []c09Step
		if err := json.Unmarshal(args[1], &steps); err != nil || len(steps) == 0 {
			return args, B("badsteps")
		}
		pool, err := c09PoolFromArgs(ver, args[3:])
		if err != nil {
			return args, B("badpool")
		}
		// the room the resolution is for: the room of the first regular (non-create) event
		roomID := pool[steps[0].Ev].RoomID()
		reused := c09RunReused(steps, pool, roomID)
		oneshot := make([]string, len(steps))
		for i, st := range steps {
			oneshot[i] = c09OneShot(pool[st.Ev], c09Pick(pool, st.Set))
		}
		return args, B(strings.Join(reused, ",") + "|" + strings.Join(oneshot, ","))
	})
	// [ver; steps JSON; signature tables (model side only); pool event JSON ...] -> verdicts of plain
	// one-shot Allowed on every (provider, event) pair of the plan, in order, in this one process:
	// the same pair occurs several times, other pairs (other rooms included) in between
	RegisterImpl("C09.repeat", func(args [][]byte) ([][]byte, []byte) {
		ver := gmsl.RoomVersion(args[0])
		var steps []c09Step
		if err := json.Unmarshal(args[1], &steps); err != nil || len(steps) == 0 {
			return args, B("badsteps")
		}
		pool, err := c09PoolFromArgs(ver, args[3:])
		if err != nil {
			return args, B("badpool")
		}
		out := make([]string, len(steps))
		for i, st := range steps {
			out[i] = c09OneShot(pool[st.Ev], c09Pick(pool, st.Set))
		}
		return args, B(strings.Join(out, ","))
	})
	// [ver; steps JSON; signature tables (model side only); pool event JSON ...] -> "verdicts of Allowed
	// on ONE provider object cleared and refilled per step|verdicts on a new provider per step"
	RegisterImpl("C09.refill", func(args [][]byte) ([][]byte, []byte) {
		ver := gmsl.RoomVersion(args[0])
		var steps []c09Step
		if err := json.Unmarshal(args[1], &steps); err != nil || len(steps) == 0 {
			return args, B("badsteps")
		}
		pool, err := c09PoolFromArgs(ver, args[3:])
		if err != nil {
			return args, B("badpool")
		}
		shared, _ := gmsl.NewAuthEvents(nil)
		a, b := make([]string, len(steps)), make([]string, len(steps))
		for i, st := range steps {
			evs := c09Pick(pool, st.Set)
			ev := pool[st.Ev]
			a[i] = c09Safe(func() error {
				shared.Clear()
				for _, e := range evs {
					if err := shared.AddEvent(e); err != nil {
						return err
					}
				}
				return gmsl.Allowed(ev, shared, c09Querier)
			})
			b[i] = c09OneShot(ev, evs)
		}
		return args, B(strings.Join(a, ",") + "|" + strings.Join(b, ","))
	})
	// [ver; event; orders JSON; signature table of the event (model side only); inserted event ...]
	// -> the Allowed verdict for every insertion order of the same events into NewAuthEvents
	RegisterImpl("C09.order", func(args [][]byte) ([][]byte, []byte) {
		ver := gmsl.RoomVersion(args[0])
		ev, _, err := c09Parse(ver, args[1])
		if err != nil {
			return args, B("badevent")
		}
		var orders [][]int
		if err := json.Unmarshal(args[2], &orders); err != nil {
			return args, B("badorders")
		}
		pool, err := c09PoolFromArgs(ver, args[4:])
		if err != nil {
			return args, B("badpool")
		}
		out := make([]string, len(orders))
		for i, o := range orders {
			out[i] = c09OneShot(ev, c09Pick(pool, o))
		}
		return args, B(strings.Join(out, ","))
	})
	// same arguments as C09.order -> "verdict for every insertion order|verdict of a NEW provider that is
	// given only the entries held in the end (the last event of every (type, state_key))": the rooms a
	// provider has seen are the rooms of the entries it holds, no more (an entry that was replaced), no
	// less (an entry that is still there). Odd orders go through AddEvent on an empty provider.
	RegisterImpl("C09.replace", func(args [][]byte) ([][]byte, []byte) {
		ver := gmsl.RoomVersion(args[0])
		ev, _, err := c09Parse(ver, args[1])
		if err != nil {
			return args, B("badevent")
		}
		var orders [][]int
		if err := json.Unmarshal(args[2], &orders); err != nil {
			return args, B("badorders")
		}
		pool, err := c09PoolFromArgs(ver, args[4:])
		if err != nil {
			return args, B("badpool")
		}
		full, held := make([]string, len(orders)), make([]string, len(orders))
		for i, o := range orders {
			evs := c09Pick(pool, o)
			if i%2 == 0 {
				full[i] = c09OneShot(ev, evs)
			} else {
				full[i] = c09Safe(func() error {
					p, _ := gmsl.NewAuthEvents(nil)
					for _, e := range evs {
						if err := p.AddEvent(e); err != nil {
							return err
						}
					}
					return gmsl.Allowed(ev, p, c09Querier)
				})
			}
			last := map[gmsl.StateKeyTuple]int{}
			for j, e := range evs {
				if e.StateKey() != nil {
					last[gmsl.StateKeyTuple{EventType: e.Type(), StateKey: *e.StateKey()}] = j
				}
			}
			var winners []gmsl.PDU
			for j, e := range evs {
				if e.StateKey() != nil && last[gmsl.StateKeyTuple{EventType: e.Type(), StateKey: *e.StateKey()}] == j {
					winners = append(winners, e)
				}
			}
			held[i] = c09OneShot(ev, winners)
		}
		return args, B(strings.Join(full, ",") + "|" + strings.Join(held, ","))
	})
	// [ver; plan JSON; pool event ...] -> "state after the real authAndApplyEvents loop|state after
	// checking every event on its own with Allowed against a new provider" (sorted event IDs)
	RegisterImpl("C09.loop", func(args [][]byte) ([][]byte, []byte) {
		ver := gmsl.RoomVersion(args[0])
		var plan c09LoopPlan
		if err := json.Unmarshal(args[1], &plan); err != nil {
			return args, B("badplan")
		}
		pool, err := c09PoolFromArgs(ver, args[2:])
		if err != nil || len(plan.Events) == 0 {
			return args, B("badpool")
		}
		rejected := map[string]bool{}
		for _, i := range plan.Rejected {
			rejected[pool[i].EventID()] = true
		}
		isRejected := func(id string) bool { return rejected[id] }
		partial, auths, events := c09Pick(pool, plan.Partial), c09Pick(pool, plan.Auth), c09Pick(pool, plan.Events)
		ids := func(evs []gmsl.PDU) string {
			l := make([]string, len(evs))
			for i, e := range evs {
				l[i] = e.EventID()
			}
			sort.Strings(l)
			return strings.Join(l, ",")
		}
		real := gmsl.VerifAuthAndApply(partial, auths, events, c09Querier, events[0].RoomID(), isRejected)
		// the reference: the same loop with a new provider and plain Allowed for every event
		type key struct{ t, k string }
		state := map[key]gmsl.PDU{}
		for _, e := range partial {
			state[key{e.Type(), *e.StateKey()}] = e
		}
		authMap := map[string]gmsl.PDU{}
		for _, e := range auths {
			if _, ok := authMap[e.EventID()]; !ok {
				authMap[e.EventID()] = e
			}
		}
		for _, ev := range events {
			var prov []gmsl.PDU
			for _, t := range gmsl.StateNeededForAuth([]gmsl.PDU{ev}).Tuples() {
				if e, ok := state[key{t.EventType, t.StateKey}]; ok {
					prov = append(prov, e)
					continue
				}
				for _, id := range ev.AuthEventIDs() {
					if a, ok := authMap[id]; ok && !rejected[id] && a.Type() == t.EventType && a.StateKeyEquals(t.StateKey) {
						prov = append(prov, a)
					}
				}
			}
			if c09OneShot(ev, prov) == "ok" && ev.StateKey() != nil {
				state[key{ev.Type(), *ev.StateKey()}] = ev
			}
		}
		var ref []gmsl.PDU
		for _, e := range state {
			ref = append(ref, e)
		}
		return args, B(ids(real) + "|" + ids(ref))
	})
	RegisterProp("C09", genC09)
}

type c09LoopPlan struct {
	Partial  []int `json:"partial"`
	Auth     []int `json:"auth"`
	Events   []int `json:"events"`
	Rejected []int `json:"rejected"`
}

func genC09(c *Ctx) {
	vers := c09Versions()
	rooms := map[gmsl.RoomVersion]*c09Room{}
	for _, v := range vers {
		rooms[v] = newC09Room(v)
	}
	genC09Needed(c, vers)
	genC09NeededOfCandidates(c, vers, rooms)
	genC09AddAuthEvents(c, vers, rooms)
	genC09Invariance(c, vers, rooms)
	genC09Sequences(c, vers, rooms)
	genC09Repeat(c, vers, rooms)
	genC09SameID(c, vers, rooms)
	genC09Refill(c, vers, rooms)
	genC09Order(c, vers, rooms)
	genC09Loop(c, vers, rooms)
}

// genC09SameID: histories over ONE reused context in which successive auth-event sets hold
// DIFFERENT create / power_levels / join_rules events under the SAME event ID (and the same event
// under different IDs); every step against a new context (the one-shot side knows no cache).
func genC09SameID(c *Ctx, vers []gmsl.RoomVersion, rooms map[gmsl.RoomVersion]*c09Room) {
	names := []string{"topic-heidi", "topic-bob", "msg-heidi", "msg-bob", "invite-grace-by-bob", "invite-grace-by-heidi", "kick-heidi-by-bob",
		"join-grace-plain", "join-dave-plain", "knock-grace", "join-dave-via-alice", "pl-by-bob", "pl-by-alice", "jr-by-heidi", "aliases-bob", "redaction-heidi", "join-alice-first"}
	type alt struct {
		what string
		a, b c09Choice
	}
	var alts []alt
	for _, p := range [][2]int{{0, 7}, {1, 8}, {0, 9}, {7, 8}} {
		alts = append(alts, alt{fmt.Sprintf("power levels #%d/#%d", p[0], p[1]), c09Choice{pl: p[0], rule: "public"}, c09Choice{pl: p[1], rule: "public"}})
	}
	for _, rule := range c09Rules {
		alts = append(alts, alt{"join rules " + rule + "/sameid", c09Choice{rule: rule}, c09Choice{rule: "sameid:" + rule}})
		alts = append(alts, alt{"join rules " + rule + "/copy", c09Choice{rule: rule}, c09Choice{rule: "copy:" + rule}})
	}
	alts = append(alts, alt{"create #0/#5", c09Choice{rule: "public"}, c09Choice{create: 5, rule: "public"}})
	alts = append(alts, alt{"create #0/#6", c09Choice{rule: "public"}, c09Choice{create: 6, rule: "public"}})
	for _, v := range vers {
		r := rooms[v]
		for _, al := range alts {
			for _, name := range names {
				if !c.Thorough() && c.Rng.Intn(3) > 0 {
					continue
				}
				ev := r.cand(name)
				for _, order := range [][2]c09Choice{{al.a, al.b}, {al.b, al.a}} {
					steps := []c09Step{
						{P: "same", Set: r.provider(c, ev, order[0]), Ev: ev},
						{P: "same", Set: r.provider(c, ev, order[1]), Ev: ev},
						{P: "same", Set: r.provider(c, ev, order[0]), Ev: ev},
					}
					r.emitSequence(c, steps, fmt.Sprintf("same event ID, v%s: %s, %s", v, name, al.what))
					c.Count("sequence/same-id")
				}
			}
		}
	}
}

// genC09Refill: ONE provider object, cleared (AuthEvents.Clear) and refilled for every step - with
// events of one room, then of another - and handed to plain Allowed, against a new provider per step.
func genC09Refill(c *Ctx, vers []gmsl.RoomVersion, rooms map[gmsl.RoomVersion]*c09Room) {
	for _, v := range vers {
		r := rooms[v]
		n := c.Scale(8, 80)
		for i := 0; i < n; i++ {
			var steps []c09Step
			for j := 0; j < 2+c.Rng.Intn(4); j++ {
				if (i+j)%2 == 0 {
					cd := r.cands[c.Rng.Intn(len(r.cands))]
					steps = append(steps, c09Step{P: "same", Set: r.provider(c, cd.ev, c09Choice{rule: "public"}), Ev: cd.ev})
				} else {
					steps = append(steps, r.step2(r.room2.cands[c.Rng.Intn(len(r.room2.cands))], c.Rng.Intn(len(r.room2.pls)), false))
				}
			}
			r.emitSteps(c, "C09.refill", "C09.refill", "C09.prop.halves_equal", steps, fmt.Sprintf("refill v%s, %d steps, rooms alternate", v, len(steps)))
			c.Count("refill")
		}
	}
}

func c09Perms(n int) [][]int {
	if n == 0 {
		return [][]int{{}}
	}
	var out [][]int
	for _, p := range c09Perms(n - 1) {
		for i := 0; i <= len(p); i++ {
			q := append(append(append([]int{}, p[:i]...), n-1), p[i:]...)
			out = append(out, q)
		}
	}
	return out
}

// genC09Order: the same events inserted into NewAuthEvents in every order, where one
// (type, state_key) is supplied more than once - from the same room and from ANOTHER room.
// AddEvent: the later event of a key replaces the earlier one; Valid() looks at the rooms of all
// events ever added. Orders that leave the provider with the same contents must give the same verdict.
func genC09Order(c *Ctx, vers []gmsl.RoomVersion, rooms map[gmsl.RoomVersion]*c09Room) {
	for _, v := range vers {
		r := rooms[v]
		w := r.w
		keyOf := func(i int) string { p := w.pool[i].pdu; return p.Type() + "\x00" + *p.StateKey() }
		// duplicates on offer: other room first, then same room
		offers := []int{r.room2.create, r.room2.pls[0], r.room2.alice, r.room2.bob, r.room2.pls[2],
			r.pls[1], r.pls[5], r.creates[4], r.creates[1], r.cand("leave-bob"), r.jrs["invite"], r.jrs["public"], r.members[uHeidi]}
		n := c.Scale(len(r.cands)/2, len(r.cands)*3)
		for k := 0; k < n; k++ {
			cd := r.cands[c.Rng.Intn(len(r.cands))]
			if k%3 == 0 {
				cd = c09Cand{"msg-bob", r.cand("msg-bob")}
			}
			rule := []string{"public", "restricted", "invite"}[c.Rng.Intn(3)]
			base := r.provider(c, cd.ev, c09Choice{rule: rule})
			inBase := map[string]bool{}
			for _, b := range base {
				inBase[keyOf(b)] = true
			}
			var dups []int
			for _, o := range offers {
				if inBase[keyOf(o)] && c.Rng.Intn(3) == 0 && len(dups) < 2 {
					already := false
					for _, b := range base {
						already = already || b == o
					}
					if !already {
						dups = append(dups, o)
					}
				}
			}
			if len(dups) == 0 { // always at least the sender's membership from the other room, when needed
				for _, o := range []int{r.room2.bob, r.room2.alice, r.room2.create} {
					if inBase[keyOf(o)] {
						dups = append(dups, o)
						break
					}
				}
			}
			if len(dups) == 0 {
				continue
			}
			c09EmitOrder(c, r, cd, rule, base, dups)
			c.Count("order/v=" + string(v))
		}
		// every kind of slot replaced by an event of the same room / of another room, the replaced and
		// the replacing event in both orders, first and last
		type slotCase struct {
			slot, cand, rule string
			other, same      int
		}
		for _, sc := range []slotCase{
			{"create", "msg-bob", "public", r.room2.create, r.creates[5]},
			{"power levels", "topic-bob", "public", r.room2.pls[0], r.pls[1]},
			{"join rules", "join-grace-plain", "public", r.room2.jr, r.jrs["invite"]},
			{"join rules", "knock-grace", "knock", r.room2.jr, r.jrs["public"]},
			{"sender's membership", "msg-bob", "public", r.room2.bob, r.cand("leave-bob")},
			{"target's membership", "kick-heidi-by-bob", "public", r.room2.heidi, r.altSame[0]},
			{"authoriser's membership", "join-dave-via-alice", "restricted", r.room2.alice, r.altSame[1]},
			{"third-party invite", "3pi-invite-grace-signed", "public", r.room2.tpi, r.altSame[2]},
		} {
			cd := c09Cand{sc.cand, r.cand(sc.cand)}
			base := r.provider(c, cd.ev, c09Choice{rule: sc.rule})
			for _, d := range []int{sc.other, sc.same} {
				c09EmitOrder(c, r, cd, sc.rule, base, []int{d})
				c.Count("order/slot=" + sc.slot)
			}
		}
	}
}

// c09EmitOrder: base and dups inserted in many orders - through C09.order (same contents held =>
// same verdict) and through C09.replace (the verdict is that of a new provider holding exactly
// the entries that are held in the end).
func c09EmitOrder(c *Ctx, r *c09Room, cd c09Cand, rule string, base, dups []int) {
	w := r.w
	v := w.ver
	keyOf := func(i int) string { p := w.pool[i].pdu; return p.Type() + "\x00" + *p.StateKey() }
	{
			all := append(append([]int{}, base...), dups...) // positions 0..len-1 are the arguments
			m := len(all)
			var orders [][]int
			if m <= 4 {
				orders = c09Perms(m)
			} else {
				id := make([]int, m)
				for i := range id {
					id[i] = i
				}
				orders = append(orders, id)
				// the duplicate right after its twin, both first
				for d := len(base); d < m; d++ {
					for t := 0; t < len(base); t++ {
						if keyOf(all[t]) == keyOf(all[d]) {
							o := []int{t, d}
							for i := 0; i < m; i++ {
								if i != t && i != d {
									o = append(o, i)
								}
							}
							orders = append(orders, o)
							o2 := []int{d, t} // the other winner
							o2 = append(o2, o[2:]...)
							orders = append(orders, o2)
							var o3 []int // the pair last
							o3 = append(append(o3, o[2:]...), t, d)
							orders = append(orders, o3)
							var o4 []int // the pair last, the other winner
							o4 = append(append(o4, o[2:]...), d, t)
							orders = append(orders, o4)
						}
					}
				}
				for i := 0; i < c.Scale(10, 40); i++ {
					orders = append(orders, c.Rng.Perm(m))
				}
			}
			oj, _ := json.Marshal(orders)
			evs := make([][]byte, m)
			for i, x := range all {
				evs[i] = w.pool[x].js
			}
			args := [][]byte{B(string(v)), w.pool[cd.ev].js, oj, c07SigTable(w.pool[cd.ev].js, evs)}
			args = append(args, evs...)
			c.Run("C09.order", args, "C09.order", "C09.prop.order_of_duplicates", fmt.Sprintf("order v%s: %s under %s, %d events, %d supplied twice", v, cd.name, rule, m, len(dups)))
			c.Run("C09.replace", args, "C09.replace", "C09.prop.halves_equal", fmt.Sprintf("replace v%s: %s under %s, %d events, %d supplied twice", v, cd.name, rule, m, len(dups)))
	}
}

// genC09Loop: the real authAndApplyEvents loop (one provider object, one context, for all events)
// against checking every event on its own.
func genC09Loop(c *Ctx, vers []gmsl.RoomVersion, rooms map[gmsl.RoomVersion]*c09Room) {
	for _, v := range vers {
		r := rooms[v]
		w := r.w
		id := func(i int) string { return w.pool[i].id }
		n := c.Scale(6, 60)
		for k := 0; k < n; k++ {
			rule := []string{"public", "public", "restricted", "invite", "knock"}[c.Rng.Intn(5)]
			partial := []int{r.creates[0], r.pls[0], r.jrs[rule], r.members[uAlice], r.members[uBob]}
			core := []string{id(r.creates[0]), id(r.pls[0]), id(r.jrs[rule])}
			// events known only through auth_events: previous memberships that are not in the partial state
			authOnly := []int{r.members[uErin], r.members[uCarol], r.members[uDave], r.members[uFrank], r.members[uHeidi]}
			auths := append(append([]int{}, partial...), authOnly...)
			mem := func(target, sender, membership string, cite []int, extra map[string]interface{}) int {
				content := map[string]interface{}{"membership": membership}
				for k2, v2 := range extra {
					content[k2] = v2
				}
				a := append([]string{}, core...)
				for _, x := range cite {
					a = append(a, id(x))
				}
				return w.mkAuth(w.roomID, spec.MRoomMember, sender, c09sp(target), content, nil, a)
			}
			var events []int
			if k == 0 {
				// a join by a banned user citing the ban (rejected), then a join of the same user from
				// another fork that cites no membership, then an unrelated join
				events = []int{mem(uErin, uErin, "join", []int{r.members[uErin]}, nil), mem(uErin, uErin, "join", nil, nil), mem(uGrace, uGrace, "join", nil, nil)}
			} else {
				users := []string{uErin, uCarol, uDave, uFrank, uHeidi, uGrace, "@ivan:a"}
				for j := 0; j < 2+c.Rng.Intn(5); j++ {
					u := users[c.Rng.Intn(len(users))]
					var cite []int
					if m, ok := r.members[u]; ok && c.Rng.Intn(2) == 0 {
						cite = append(cite, m)
					}
					switch c.Rng.Intn(6) {
					case 0, 1, 2:
						var extra map[string]interface{}
						if c.Rng.Intn(3) == 0 {
							extra = map[string]interface{}{"join_authorised_via_users_server": uAlice}
						}
						events = append(events, mem(u, u, "join", cite, extra))
					case 3:
						events = append(events, mem(u, u, "knock", cite, nil))
					case 4:
						events = append(events, mem(u, uBob, "invite", cite, nil))
					default:
						events = append(events, mem(u, u, "leave", cite, nil))
					}
				}
			}
			var rejected []int
			if c.Rng.Intn(4) == 0 {
				rejected = append(rejected, authOnly[c.Rng.Intn(len(authOnly))])
			}
			// re-index: only the events used
			remap := map[int]int{}
			var used [][]byte
			ix := func(l []int) []int {
				out := make([]int, len(l))
				for i, x := range l {
					if _, ok := remap[x]; !ok {
						remap[x] = len(used)
						used = append(used, w.pool[x].js)
					}
					out[i] = remap[x]
				}
				return out
			}
			plan := c09LoopPlan{Partial: ix(partial), Auth: ix(auths), Events: ix(events), Rejected: ix(rejected)}
			if plan.Rejected == nil {
				plan.Rejected = []int{}
			}
			pj, _ := json.Marshal(plan)
			c.Run("C09.loop", append([][]byte{B(string(v)), pj}, used...), "", "C09.prop.halves_equal", fmt.Sprintf("loop v%s under %s, %d events", v, rule, len(events)))
			c.Count("loop/v=" + string(v))
		}
	}
}

// genC09Repeat: the verdict of an (event, provider) pair is the same on every evaluation in the
// process, whatever was evaluated in between - in particular power_levels checks that touch the
// notification levels, in this room and in another one (parsed contents must not share state).
func genC09Repeat(c *Ctx, vers []gmsl.RoomVersion, rooms map[gmsl.RoomVersion]*c09Room) {
	isNotif := func(name string) bool { return strings.Contains(name, "pl-") }
	for _, v := range vers {
		r := rooms[v]
		var plc []c09Cand
		for _, cd := range r.cands {
			if isNotif(cd.name) {
				plc = append(plc, cd)
			}
		}
		step1 := func(cd c09Cand, pl int) c09Step {
			return c09Step{P: "new", Set: r.provider(c, cd.ev, c09Choice{pl: pl, rule: "public"}), Ev: cd.ev}
		}
		// directed: Z in room 2 under each current levels event; in between, checks in room 1 (and
		// in room 2) that parse other notification levels as event under test or as current levels
		for zpl := range r.room2.pls {
			for _, z := range r.room2.cands {
				mids := plc
				if !c.Thorough() { // a sample in the quick tier, always with the two events that raise notifications.room
					mids = []c09Cand{plc[c.Rng.Intn(len(plc))], {"pl-bob-notif-room100", r.cand("pl-bob-notif-room100")}, {"pl-alice-notif-room100", r.cand("pl-alice-notif-room100")}}
				}
				for _, mid := range mids {
					for _, midpl := range []int{0, 4, 5, 6} {
						zs := r.step2(z, zpl, true)
						steps := []c09Step{zs, step1(mid, midpl), zs, r.step2(r.room2.cands[2], 2, true), zs}
						r.emitSteps(c, "C09.repeat", "C09.repeat", "C09.prop.same_on_every_evaluation", steps,
							fmt.Sprintf("repeat v%s: %s under room2 levels #%d; between: %s under levels #%d, then room2 notif-room100", v, z.name, zpl, mid.name, midpl))
						c.Count("repeat/directed")
						if !c.Thorough() && c.Rng.Intn(3) > 0 {
							break
						}
					}
				}
			}
		}
		// the same through one reused context, both rooms interleaved (new provider per room switch)
		for zpl := range r.room2.pls {
			for _, z := range r.room2.cands {
				mid := plc[c.Rng.Intn(len(plc))]
				midpl := []int{0, 4, 5, 6}[c.Rng.Intn(4)]
				zs := r.step2(z, zpl, true)
				m := c09Step{P: "same", Set: r.provider(c, mid.ev, c09Choice{pl: midpl, rule: "public"}), Ev: mid.ev}
				r.emitSequence(c, []c09Step{zs, m, zs, m, r.step2(r.room2.cands[2], 2, true), zs},
					fmt.Sprintf("two rooms through one context v%s: %s / %s", v, z.name, mid.name))
				c.Count("sequence/two-rooms")
			}
		}
		// random plans: 4-10 evaluations drawn from a few pairs, so that pairs repeat
		n := c.Scale(12, 150)
		for i := 0; i < n; i++ {
			var pairs []c09Step
			for j := 0; j < 2+c.Rng.Intn(3); j++ {
				switch c.Rng.Intn(3) {
				case 0:
					pairs = append(pairs, r.step2(r.room2.cands[c.Rng.Intn(len(r.room2.cands))], c.Rng.Intn(len(r.room2.pls)), true))
				case 1:
					pairs = append(pairs, step1(plc[c.Rng.Intn(len(plc))], []int{0, 1, 4, 5, 6, -1}[c.Rng.Intn(6)]))
				default:
					cd := r.cands[c.Rng.Intn(len(r.cands))]
					pairs = append(pairs, step1(cd, []int{0, 4, 5, 6}[c.Rng.Intn(4)]))
				}
			}
			var steps []c09Step
			for j := 0; j < 4+c.Rng.Intn(7); j++ {
				steps = append(steps, pairs[c.Rng.Intn(len(pairs))])
			}
			r.emitSteps(c, "C09.repeat", "C09.repeat", "C09.prop.same_on_every_evaluation", steps, fmt.Sprintf("repeat random v%s", v))
			c.Count("repeat/random")
		}
	}
}

func genC09Sequences(c *Ctx, vers []gmsl.RoomVersion, rooms map[gmsl.RoomVersion]*c09Room) {
	prov := func(newP bool) string {
		if newP {
			return "new"
		}
		return "same"
	}
	// directed: a restricted join (authorised / by an invited user) followed by events that read the join rule
	firsts := []string{"join-dave-via-alice", "join-dave-via-bob", "join-carol-invited", "join-carol-invited-via-alice", "join-bob-again", "join-dave-plain", "join-dave-via-heidi"}
	seconds := []string{"join-grace-plain", "join-dave-plain", "join-frank-plain", "knock-grace", "knock-dave", "join-grace-via-alice", "join-frank-via-bob"}
	for _, v := range vers {
		r := rooms[v]
		for _, rule := range []string{"restricted", "knock_restricted"} {
			for _, f := range firsts {
				for _, s := range seconds {
					ch := c09Choice{rule: rule}
					steps := []c09Step{
						{P: "same", Set: r.provider(c, r.cand(f), ch), Ev: r.cand(f)},
						{P: "same", Set: r.provider(c, r.cand(s), ch), Ev: r.cand(s)},
					}
					r.emitSequence(c, steps, fmt.Sprintf("directed %s: %s then %s (v%s)", rule, f, s, v))
					c.Count("sequence/directed-join-rule")
				}
			}
		}
		// directed: the create / power-levels / join-rules event disappears, becomes unparsable, or
		// the provider object changes, between two checks
		for _, name := range []string{"msg-bob", "join-grace-plain", "invite-grace-by-bob", "topic-bob", "pl-by-alice", "aliases-bob", "redaction-heidi", "knock-grace"} {
			for _, second := range []c09Choice{
				{create: -1, rule: "public"}, {create: 3, rule: "public"}, {create: 1, rule: "public"}, {create: 2, rule: "public"},
				{pl: -1, rule: "public"}, {pl: 2, rule: "public"}, {pl: 1, rule: "public"},
				{rule: ""}, {rule: "bad"}, {rule: "invite"}, {create: 4, pl: 3, rule: "public"},
			} {
				for _, newP := range []bool{false, true} {
					first := c09Choice{rule: "public"}
					steps := []c09Step{
						{P: "same", Set: r.provider(c, r.cand(name), first), Ev: r.cand(name)},
						{P: prov(newP), Set: r.provider(c, r.cand(name), second), Ev: r.cand(name)},
						{P: "same", Set: r.provider(c, r.cand(name), first), Ev: r.cand(name)},
					}
					r.emitSequence(c, steps, fmt.Sprintf("directed slot change: %s under %v then %v (v%s)", name, first, second, v))
					c.Count("sequence/directed-slot-change")
				}
			}
		}
	}
	// random sequences of 2-8 steps
	n := c.Scale(600, 12000)
	for i := 0; i < n; i++ {
		v := vers[c.Rng.Intn(len(vers))]
		if c.Rng.Intn(3) > 0 { // restricted joins exist from v8
			v = []gmsl.RoomVersion{"8", "9", "10", "11", "12", "7"}[c.Rng.Intn(6)]
		}
		r := rooms[v]
		k := 2 + c.Rng.Intn(7)
		var steps []c09Step
		var prev *c09Choice
		var names []string
		for j := 0; j < k; j++ {
			ch := r.randomChoice(c, prev)
			cd := r.cands[c.Rng.Intn(len(r.cands))]
			if c.Rng.Intn(2) == 0 { // joins and knocks are where the join rule matters
				cd = r.cands[c.Rng.Intn(20)]
			}
			steps = append(steps, c09Step{P: prov(ch.newProv), Set: r.provider(c, cd.ev, ch), Ev: cd.ev})
			names = append(names, cd.name+"["+ch.String()+"]")
			prev = &ch
		}
		r.emitSequence(c, steps, fmt.Sprintf("random v%s: %s", v, strings.Join(names, " ; ")))
		c.Count(fmt.Sprintf("sequence/random/len=%d", k))
	}
}

// ---------------------------------------------------------------------------------------------
// needed state, AddAuthEvents, invariance

func c09Flag(sk *string) (string, string) {
	if sk == nil {
		return "0", ""
	}
	return "1", *sk
}

func init() {
	// [ver; event JSON ...] -> tuples, one per line: type SP hex(state_key)
	RegisterImpl("C09.state_needed", func(args [][]byte) ([][]byte, []byte) {
		pool, err := c09PoolFromArgs(gmsl.RoomVersion(args[0]), args[1:])
		if err != nil {
			return args, B("badpool")
		}
		return args, c09Tuples(gmsl.StateNeededForAuth(pool).Tuples())
	})
	// [type; sender; has state key; state key; content] -> tuples or err
	RegisterImpl("C09.needed_proto", func(args [][]byte) ([][]byte, []byte) {
		pe := &gmsl.ProtoEvent{Type: string(args[0]), SenderID: string(args[1]), Content: spec.RawJSON(args[4])}
		if string(args[2]) == "1" {
			pe.StateKey = c09sp(string(args[3]))
		}
		n, err := gmsl.StateNeededForProtoEvent(pe)
		if err != nil {
			return args, B("err")
		}
		return args, c09Tuples(n.Tuples())
	})
	// [ver; room id; type; sender; has state key; state key; content; provider event ...] -> ids or err
	RegisterImpl("C09.add_auth_events", func(args [][]byte) ([][]byte, []byte) {
		ver := gmsl.RoomVersion(args[0])
		pool, err := c09PoolFromArgs(ver, args[7:])
		if err != nil {
			return args, B("badpool")
		}
		pe := &gmsl.ProtoEvent{RoomID: string(args[1]), Type: string(args[2]), SenderID: string(args[3]), Content: spec.RawJSON(args[6])}
		if string(args[4]) == "1" {
			pe.StateKey = c09sp(string(args[5]))
		}
		eb := gmsl.MustGetRoomVersion(ver).NewEventBuilderFromProtoEvent(pe)
		prov, err := gmsl.NewAuthEvents(pool)
		if err != nil {
			return args, B("badprovider")
		}
		if err := eb.AddAuthEvents(prov); err != nil {
			return args, B("err")
		}
		ids, ok := eb.AuthEvents.([]string)
		if !ok {
			return args, B("badtype")
		}
		return args, B(strings.Join(ids, ","))
	})
	// [ver; event; perms JSON; nBase; base event ...; un-needed event ...] -> verdicts of: the base
	// provider, the same provider object again, every permutation, un-needed state appended /
	// prepended, state reduced to the needed tuples
	RegisterImpl("C09.invariance", func(args [][]byte) ([][]byte, []byte) {
		ver := gmsl.RoomVersion(args[0])
		ev, _, err := c09Parse(ver, args[1])
		if err != nil {
			return args, B("badevent")
		}
		var perms [][]int
		if err := json.Unmarshal(args[2], &perms); err != nil {
			return args, B("badperms")
		}
		nBase := 0
		fmt.Sscanf(string(args[3]), "%d", &nBase)
		pool, err := c09PoolFromArgs(ver, args[4:])
		if err != nil || nBase > len(pool) {
			return args, B("badpool")
		}
		base, extra := pool[:nBase], pool[nBase:]
		var out []string
		out = append(out, c09OneShot(ev, base))
		// the same provider object evaluated twice more
		if p, err := gmsl.NewAuthEvents(base); err == nil {
			for i := 0; i < 2; i++ {
				out = append(out, c09Safe(func() error { return gmsl.Allowed(ev, p, c09Querier) }))
			}
		}
		for _, pm := range perms {
			if len(pm) != nBase {
				return args, B("badperm")
			}
			out = append(out, c09OneShot(ev, c09Pick(base, pm)))
		}
		out = append(out, c09OneShot(ev, append(append([]gmsl.PDU{}, base...), extra...)))
		out = append(out, c09OneShot(ev, append(append([]gmsl.PDU{}, extra...), base...)))
		// reduced to the needed tuples
		needed := map[gmsl.StateKeyTuple]bool{}
		for _, t := range gmsl.StateNeededForAuth([]gmsl.PDU{ev}).Tuples() {
			needed[t] = true
		}
		var reduced []gmsl.PDU
		for _, e := range base {
			if e.StateKey() != nil && needed[gmsl.StateKeyTuple{EventType: e.Type(), StateKey: *e.StateKey()}] {
				reduced = append(reduced, e)
			}
		}
		out = append(out, c09OneShot(ev, reduced))
		return args, B(strings.Join(out, ","))
	})
}

var c09MemberValues = []string{`"join"`, `"leave"`, `"invite"`, `"knock"`, `"ban"`, `""`, `"Join"`, `5`, `null`, "-", `["join"]`}
var c09TpiValues = []string{"-", `null`, `{}`, `{"signed":{}}`, `{"signed":{"token":"tok"}}`, `{"signed":{"token":""}}`, `{"signed":{"token":5}}`,
	`{"signed":"x"}`, `{"signed":null}`, `"str"`, `7`, `[]`, `true`,
	`{"signed":{"token":"tok2","mxid":"@x:y","signatures":{"id":{"ed25519:0":"sig"}}}}`, `{"signed":{"token":"tok","signatures":"bad"}}`,
	`{"display_name":5,"signed":{"token":"t3"}}`, `{"Signed":{"TOKEN":"upper"}}`, `{"signed":{"token":"aé\n\"q"}}`,
	`{"signed":{"token":"tok","signatures":{"id":{"k":5}}}}`, `{"signed":{"token":"tok","signatures":{"id":null}}}`}
var c09ViaValues = []string{"-", `""`, `"@alice:a"`, `"@SENDER"`, `5`, `null`, `"zzz"`, `"!first"`, `"@bob:b"`, `["@alice:a"]`}
var c09MemberKeys = []string{"membership", "membership", "membership", "Membership", "MEMBERSHIP"}
var c09ViaKeys = []string{"join_authorised_via_users_server", "join_authorised_via_users_server", "JOIN_AUTHORISED_VIA_USERS_SERVER", "Join_Authorised_Via_Users_Server"}
var c09TpiKeys = []string{"third_party_invite", "third_party_invite", "Third_Party_Invite"}

func c09MemberContent(c *Ctx, mv, tv, vv, sender string, variantKeys bool) string {
	var parts []string
	pick := func(l []string) string {
		if !variantKeys {
			return l[0]
		}
		return l[c.Rng.Intn(len(l))]
	}
	if mv != "-" {
		parts = append(parts, fmt.Sprintf("%q:%s", pick(c09MemberKeys), mv))
	}
	if tv != "-" {
		parts = append(parts, fmt.Sprintf("%q:%s", pick(c09TpiKeys), tv))
	}
	if vv != "-" {
		if vv == `"@SENDER"` {
			vv = fmt.Sprintf("%q", sender)
		}
		parts = append(parts, fmt.Sprintf("%q:%s", pick(c09ViaKeys), vv))
	}
	if c.Rng.Intn(3) == 0 {
		parts = append(parts, `"displayname":"d"`)
	}
	switch c.Rng.Intn(24) { // at most one mxid_mapping member: duplicate members are outside the domain
	case 0, 1:
		parts = append(parts, `"mxid_mapping":{"user_room_key":"k","user_id":"@u:x"}`)
	case 2:
		parts = append(parts, `"mxid_mapping":"bad"`)
	}
	c.Rng.Shuffle(len(parts), func(a, b int) { parts[a], parts[b] = parts[b], parts[a] })
	return "{" + strings.Join(parts, ",") + "}"
}

func genC09NeededOfCandidates(c *Ctx, vers []gmsl.RoomVersion, rooms map[gmsl.RoomVersion]*c09Room) {
	for _, v := range vers {
		r := rooms[v]
		for _, cd := range r.cands {
			c.Run("C09.state_needed", [][]byte{B(string(v)), r.w.pool[cd.ev].js}, "C09.state_needed", "C09.prop.readset_within_needed", "candidate "+cd.name)
			c.Count("needed/candidates")
		}
	}
}

func genC09Needed(c *Ctx, vers []gmsl.RoomVersion) {
	senders := []string{uAlice, uBob, "", "zed"}
	sks := []*string{nil, c09sp(""), c09sp(uBob), c09sp(uAlice), c09sp("zzz"), c09sp("!aaa")}
	types := []string{spec.MRoomCreate, "m.room.aliases", spec.MRoomMember, spec.MRoomPowerLevels, spec.MRoomJoinRules, "m.room.redaction",
		"m.room.message", spec.MRoomThirdPartyInvite, "", "M.ROOM.MEMBER", "m.room.member ", "org.example.custom", "m.room.topic"}
	other := []string{`{}`, `null`, `5`, `"s"`, `[]`, `true`, `{"membership":"join"}`, `{"membership":"join","join_authorised_via_users_server":"@carol:c","third_party_invite":{"signed":{"token":"t"}}}`}
	w := newC09World(vers[0])
	wFor := func(v gmsl.RoomVersion) *c09World { w2 := newC09World(v); w2.n = 500 + c.Rng.Intn(1000); return w2 }
	_ = w
	i := 0
	emit := func(v gmsl.RoomVersion, typ, sender string, sk *string, content string, desc string) {
		ww := wFor(v)
		idx := ww.mk(typ, sender, sk, json.RawMessage(content), nil)
		c.Run("C09.state_needed", [][]byte{B(string(v)), ww.pool[idx].js}, "C09.state_needed", "C09.prop.readset_within_needed", desc)
		flag, skv := c09Flag(sk)
		c.Run("C09.needed_proto", Args(typ, sender, flag, skv, content), "C09.needed_proto", "", desc)
	}
	// every type x state key x sender x content shape
	for _, typ := range types {
		for _, sk := range sks {
			for _, content := range other {
				i++
				emit(vers[i%len(vers)], typ, senders[i%len(senders)], sk, content, "type x state key x content")
				c.Count("needed/type=" + typ)
			}
		}
	}
	// member events: membership x third_party_invite x authoriser (exact keys), state key and sender cycling
	stride := c.Scale(3, 1)
	for a, mv := range c09MemberValues {
		for b, tv := range c09TpiValues {
			for d, vv := range c09ViaValues {
				i++
				if (a+b+d)%stride != 0 && !(mv == `"join"` && (tv == "-" || vv == "-")) {
					continue
				}
				sender := senders[i%2]
				emit(vers[i%len(vers)], spec.MRoomMember, sender, sks[i%len(sks)], c09MemberContent(c, mv, tv, vv, sender, false), "member product")
				c.Count("needed/member-product")
			}
		}
	}
	// random member contents with case variants of the keys
	n := c.Scale(300, 4000)
	pick := func(l []string) string { return l[c.Rng.Intn(len(l))] }
	for k := 0; k < n; k++ {
		sender := senders[c.Rng.Intn(2)]
		emit(vers[c.Rng.Intn(len(vers))], spec.MRoomMember, sender, sks[c.Rng.Intn(len(sks))],
			c09MemberContent(c, pick(c09MemberValues), pick(c09TpiValues), pick(c09ViaValues), sender, true), "member random, key case variants")
		c.Count("needed/member-random")
	}
	// content texts that are not JSON (proto events only)
	for _, bad := range []string{``, `{`, `nul`, `{"membership":"join"`, `{"membership":"join"} x`, ` {"membership":"join"} `} {
		c.Run("C09.needed_proto", Args(spec.MRoomMember, uAlice, "1", uAlice, bad), "C09.needed_proto", "", "content text not JSON")
		c.Run("C09.needed_proto", Args("m.room.message", uAlice, "0", "", bad), "C09.needed_proto", "", "content text not JSON")
		c.Count("needed/proto-bad-json")
	}
	// bulk: several events at once (sorting and de-duplication across events)
	n = c.Scale(300, 4000)
	for k := 0; k < n; k++ {
		v := vers[c.Rng.Intn(len(vers))]
		ww := wFor(v)
		m := 2 + c.Rng.Intn(5)
		args := [][]byte{B(string(v))}
		for j := 0; j < m; j++ {
			typ := pick(types)
			sender := pick(senders)
			content := pick(other)
			if c.Rng.Intn(2) == 0 {
				typ = spec.MRoomMember
				content = c09MemberContent(c, pick(c09MemberValues), pick(c09TpiValues), pick(c09ViaValues), sender, false)
			}
			idx := ww.mk(typ, sender, sks[c.Rng.Intn(len(sks))], json.RawMessage(content), nil)
			args = append(args, ww.pool[idx].js)
		}
		c.Run("C09.state_needed", args, "C09.state_needed", "", "bulk")
		c.Count(fmt.Sprintf("needed/bulk/len=%d", m))
	}
}

func genC09AddAuthEvents(c *Ctx, vers []gmsl.RoomVersion, rooms map[gmsl.RoomVersion]*c09Room) {
	n := c.Scale(40, 400)
	for _, v := range vers {
		r := rooms[v]
		w := r.w
		for k := 0; k < n; k++ {
			cd := r.cands[c.Rng.Intn(len(r.cands))]
			if k < len(r.cands) {
				cd = r.cands[k]
			}
			ev := w.pool[cd.ev].pdu
			ch := r.randomChoice(c, nil)
			ch.full = c.Rng.Intn(3) > 0
			if c.Rng.Intn(3) > 0 {
				ch.create, ch.pl, ch.rule = 0, 0, "restricted"
			}
			set := r.provider(c, cd.ev, ch)
			// sometimes a second event for a key already present (the later one wins)
			if c.Rng.Intn(4) == 0 {
				set = append(set, r.creates[c.Rng.Intn(3)], r.pls[c.Rng.Intn(2)])
				c.Rng.Shuffle(len(set), func(a, b int) { set[a], set[b] = set[b], set[a] })
			}
			room := w.roomID
			switch c.Rng.Intn(10) {
			case 0:
				room = ""
			case 1:
				room = "!" + w.pool[r.creates[1]].id[1:] // the room of another create event
			}
			flag, skv := c09Flag(ev.StateKey())
			args := Args(string(v), room, ev.Type(), string(ev.SenderID()), flag, skv, string(ev.Content()))
			for _, k := range set {
				args = append(args, w.pool[k].js)
			}
			c.Run("C09.add_auth_events", args, "C09.add_auth_events", "C09.prop.add_auth_events_covers", "AddAuthEvents "+cd.name+" "+ch.String())
			c.Count("add_auth_events/v=" + string(v))
		}
	}
}

func genC09Invariance(c *Ctx, vers []gmsl.RoomVersion, rooms map[gmsl.RoomVersion]*c09Room) {
	n := c.Scale(50, 600)
	for _, v := range vers {
		r := rooms[v]
		w := r.w
		for k := 0; k < n; k++ {
			cd := r.cands[c.Rng.Intn(len(r.cands))]
			if k < len(r.cands) {
				cd = r.cands[k]
			}
			ch := r.randomChoice(c, nil)
			if c.Rng.Intn(2) == 0 {
				ch.create, ch.pl = 0, 0
			}
			full := ch.full
			ch.full = false
			base := r.provider(c, cd.ev, ch)
			if full { // un-needed state inside the base as well (removed again by the reduction)
				base = append(base, r.extras[:2+c.Rng.Intn(3)]...)
				c.Rng.Shuffle(len(base), func(a, b int) { base[a], base[b] = base[b], base[a] })
			}
			var perms [][]int
			for p := 0; p < 4; p++ {
				perms = append(perms, c.Rng.Perm(len(base)))
			}
			rev := make([]int, len(base))
			for i := range rev {
				rev[i] = len(base) - 1 - i
			}
			perms = append(perms, rev)
			// un-needed: state of the room whose tuple the event does not need
			needed := map[gmsl.StateKeyTuple]bool{}
			for _, t := range gmsl.StateNeededForAuth([]gmsl.PDU{w.pool[cd.ev].pdu}).Tuples() {
				needed[t] = true
			}
			inBase := map[int]bool{}
			for _, b := range base {
				inBase[b] = true
			}
			var extra []int
			cands := append(append([]int{}, r.extras...), r.tpi, r.jrs["public"], r.jrs["restricted"])
			for _, u := range []string{uAlice, uBob, uCarol, uDave, uErin, uFrank, uHeidi} {
				cands = append(cands, r.members[u])
			}
			for _, e := range cands {
				p := w.pool[e].pdu
				if !needed[gmsl.StateKeyTuple{EventType: p.Type(), StateKey: *p.StateKey()}] && !inBase[e] && c.Rng.Intn(2) == 0 {
					extra = append(extra, e)
				}
			}
			pj, _ := json.Marshal(perms)
			args := [][]byte{B(string(v)), w.pool[cd.ev].js, pj, B(fmt.Sprint(len(base)))}
			for _, b := range base {
				args = append(args, w.pool[b].js)
			}
			for _, e := range extra {
				args = append(args, w.pool[e].js)
			}
			c.Run("C09.invariance", args, "", "C09.prop.invariance", "invariance "+cd.name+" "+ch.String())
			c.Count("invariance/v=" + string(v))
		}
	}
}
