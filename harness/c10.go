package main

// C10 (state resolution returns the state the room version's algorithm defines) and the
// helpers shared with C11: generated room histories, projection of events for the model,
// the verdict table (real Allowed on the provider contents the model asks for), the model
// pipe used to complete that table, and the implementation side of every operation.

import (
	"time"
	"bufio"
	"bytes"
	"crypto/ed25519"
	"crypto/sha1"
	"crypto/sha256"
	"encoding/hex"
	"encoding/json"
	"fmt"
	"io"
	"math/rand"
	"os"
	"os/exec"
	"sort"
	"strconv"
	"strings"

	gmsl "github.com/matrix-org/gomatrixserverlib"
	"github.com/matrix-org/gomatrixserverlib/spec"
)

const srOrigin = "h"
const srKeyID = gmsl.KeyID("ed25519:k")

var srKey = ed25519.NewKeyFromSeed(bytes.Repeat([]byte{7}, 32))

func srUserIDForSender(_ spec.RoomID, senderID spec.SenderID) (*spec.UserID, error) {
	return spec.NewUserID(string(senderID), true)
}

// ---------------------------------------------------------------------------------------
// events
// ---------------------------------------------------------------------------------------

type srHist struct {
	ver        gmsl.RoomVersion
	v1fmt      bool
	v12        bool
	evs        []gmsl.PDU
	byID       map[string]gmsl.PDU
	idx        map[string]int
	stateAfter []map[[2]string]int
	nchild     []int
	users      []string
	roomID     string
	seq        int
}

func srRefs(v1fmt bool, ids []string) interface{} {
	if !v1fmt {
		if ids == nil {
			return []string{}
		}
		return ids
	}
	out := make([]interface{}, 0, len(ids))
	for _, id := range ids {
		out = append(out, []interface{}{id, map[string]string{}})
	}
	return out
}

// srMake builds one event through the library (content hash, signature, canonical JSON).
func (h *srHist) mk(rng *rand.Rand, typ string, sk *string, sender string, content string, prev, auth []string, depth, ts int64) gmsl.PDU {
	h.seq++
	f := map[string]interface{}{
		"type": typ, "sender": sender, "origin": srOrigin, "origin_server_ts": ts, "depth": depth,
		"content": json.RawMessage(content), "prev_events": srRefs(h.v1fmt, prev), "auth_events": srRefs(h.v1fmt, auth),
	}
	if sk != nil {
		f["state_key"] = *sk
	}
	if h.v1fmt {
		f["event_id"] = fmt.Sprintf("$%c%d%c:%s", 'a'+rune(rng.Intn(26)), h.seq, 'a'+rune(rng.Intn(26)), srOrigin)
	}
	if !(h.v12 && typ == spec.MRoomCreate && sk != nil && *sk == "") {
		f["room_id"] = h.roomID
	}
	js, err := json.Marshal(f)
	if err != nil {
		panic(err)
	}
	ev, err := gmsl.VerifFinishEvent(h.ver, js, srOrigin, srKeyID, srKey)
	if err != nil {
		panic(fmt.Sprintf("VerifFinishEvent: %v on %s", err, js))
	}
	return ev
}

func (h *srHist) add(ev gmsl.PDU, parents []int, base map[[2]string]int) int {
	i := len(h.evs)
	h.evs = append(h.evs, ev)
	h.byID[ev.EventID()] = ev
	h.idx[ev.EventID()] = i
	st := make(map[[2]string]int, len(base)+1)
	for k, v := range base {
		st[k] = v
	}
	if ev.StateKey() != nil {
		st[[2]string{ev.Type(), *ev.StateKey()}] = i
	}
	h.stateAfter = append(h.stateAfter, st)
	h.nchild = append(h.nchild, 0)
	for _, p := range parents {
		h.nchild[p]++
	}
	return i
}

func strp(s string) *string { return &s }

func (h *srHist) membershipIn(st map[[2]string]int, user string) string {
	if i, ok := st[[2]string{spec.MRoomMember, user}]; ok {
		var c struct {
			Membership string `json:"membership"`
		}
		_ = json.Unmarshal(h.evs[i].Content(), &c)
		return c.Membership
	}
	return ""
}

var srVersions = []string{"1", "2", "6", "10", "11", "12", "3", "9"}

func srGenHistory(rng *rand.Rand, ver string, n int) *srHist {
	verImpl := gmsl.MustGetRoomVersion(gmsl.RoomVersion(ver))
	h := &srHist{ver: gmsl.RoomVersion(ver), v1fmt: verImpl.EventFormat() == gmsl.EventFormatV1,
		v12: verImpl.DomainlessRoomIDs(), byID: map[string]gmsl.PDU{}, idx: map[string]int{}, roomID: "!r:" + srOrigin}
	nu := 2 + rng.Intn(4)
	for i := 0; i < nu; i++ {
		h.users = append(h.users, fmt.Sprintf("@u%d:%s", i, srOrigin))
	}
	// some rooms are restricted-join rooms from the start (many joins with an authorising user)
	restrictedRoom := rng.Intn(5) == 0
	restrictedJR := `{"allow":[{"room_id":"!other:h","type":"m.room_membership"}],"join_rule":"restricted"}`
	ts0 := int64(1000 + rng.Intn(1000))
	tsSpread := []int64{3, 8, 50}[rng.Intn(3)]
	// create
	cc := fmt.Sprintf(`{"room_version":%q`, ver)
	if !h.v12 {
		cc += fmt.Sprintf(`,"creator":%q`, h.users[0])
	} else if rng.Intn(3) == 0 && nu > 2 {
		cc += fmt.Sprintf(`,"additional_creators":[%q]`, h.users[1+rng.Intn(nu-1)])
	}
	if h.v12 && rng.Intn(10) == 0 {
		cc += `,"additional_creators":"@u1:h"` // malformed: not a list
	}
	cc += "}"
	create := h.mk(rng, spec.MRoomCreate, strp(""), h.users[0], cc, nil, nil, 1, ts0)
	if h.v12 {
		h.roomID = "!" + create.EventID()[1:]
	}
	h.add(create, nil, nil)
	authOf := func(st map[[2]string]int, keys ...[2]string) []string {
		var out []string
		seen := map[string]bool{}
		for _, k := range keys {
			if h.v12 && k[0] == spec.MRoomCreate {
				continue
			}
			if i, ok := st[k]; ok {
				id := h.evs[i].EventID()
				if !seen[id] {
					seen[id] = true
					out = append(out, id)
				}
			}
		}
		return out
	}
	kCreate := [2]string{spec.MRoomCreate, ""}
	kPL := [2]string{spec.MRoomPowerLevels, ""}
	kJR := [2]string{spec.MRoomJoinRules, ""}
	kM := func(u string) [2]string { return [2]string{spec.MRoomMember, u} }

	for len(h.evs) < n {
		// parents
		var parents []int
		np := 1
		if r := rng.Intn(100); r >= 70 && r < 93 {
			np = 2
		} else if r >= 93 {
			np = 3
		}
		if len(h.evs) < 3 {
			np = 1
		}
		for len(parents) < np {
			var p int
			if rng.Intn(100) < 55 {
				// a current leaf
				var leaves []int
				for i := range h.evs {
					if h.nchild[i] == 0 {
						leaves = append(leaves, i)
					}
				}
				p = leaves[rng.Intn(len(leaves))]
			} else if rng.Intn(100) < 60 {
				// near the end
				lo := len(h.evs) - 6
				if lo < 0 {
					lo = 0
				}
				p = lo + rng.Intn(len(h.evs)-lo)
			} else {
				p = rng.Intn(len(h.evs))
			}
			dup := false
			for _, q := range parents {
				if q == p {
					dup = true
				}
			}
			if !dup {
				parents = append(parents, p)
			} else if len(h.evs) <= np {
				break
			}
		}
		// state before: the first parent's state, the other parents fill in / override at random
		base := map[[2]string]int{}
		for k, v := range h.stateAfter[parents[0]] {
			base[k] = v
		}
		for _, p := range parents[1:] {
			keys := make([][2]string, 0)
			for k := range h.stateAfter[p] {
				keys = append(keys, k)
			}
			sort.Slice(keys, func(a, b int) bool {
				if keys[a][0] != keys[b][0] {
					return keys[a][0] < keys[b][0]
				}
				return keys[a][1] < keys[b][1]
			})
			for _, k := range keys {
				v := h.stateAfter[p][k]
				if old, ok := base[k]; !ok || (old != v && rng.Intn(2) == 0) {
					base[k] = v
				}
			}
		}
		var depth int64
		for _, p := range parents {
			if d := h.evs[p].Depth(); d > depth {
				depth = d
			}
		}
		depth++
		if rng.Intn(12) == 0 {
			depth = int64(1 + rng.Intn(8))
		}
		ts := ts0 + int64(len(h.evs)/3) + rng.Int63n(tsSpread)
		prev := make([]string, len(parents))
		for i, p := range parents {
			prev[i] = h.evs[p].EventID()
		}
		// sender
		var joined []string
		for _, u := range h.users {
			if h.membershipIn(base, u) == "join" {
				joined = append(joined, u)
			}
		}
		sender := h.users[rng.Intn(nu)]
		if len(joined) > 0 && rng.Intn(100) < 75 {
			sender = joined[rng.Intn(len(joined))]
		}
		other := h.users[rng.Intn(nu)]
		var typ, content string
		var sk *string
		var keys [][2]string
		step := len(h.evs)
		kind := rng.Intn(100)
		switch {
		case step == 1:
			sender = h.users[0]
			typ, sk, content = spec.MRoomMember, strp(sender), `{"membership":"join"}`
			keys = [][2]string{kCreate, kPL, kJR, kM(sender)}
		case step == 2 && rng.Intn(10) < 8:
			sender = h.users[0]
			typ, sk = spec.MRoomPowerLevels, strp("")
			content = fmt.Sprintf(`{"users":{%q:100},"users_default":0,"state_default":50,"events_default":0,"ban":50,"kick":50,"invite":0,"redact":50}`, sender)
			keys = [][2]string{kCreate, kPL, kM(sender)}
		case step == 3 && rng.Intn(10) < 7:
			sender = h.users[0]
			typ, sk, content = spec.MRoomJoinRules, strp(""), `{"join_rule":"public"}`
			if restrictedRoom {
				content = restrictedJR
			}
			keys = [][2]string{kCreate, kPL, kM(sender)}
		case kind < 22: // self join
			typ, sk, content = spec.MRoomMember, strp(sender), `{"membership":"join"}`
			if jr, ok := base[kJR]; ok && strings.Contains(string(h.evs[jr].Content()), `"restricted"`) && len(joined) > 0 && rng.Intn(4) != 0 {
				via := joined[rng.Intn(len(joined))]
				content = fmt.Sprintf(`{"join_authorised_via_users_server":%q,"membership":"join"}`, via)
				keys = [][2]string{kCreate, kPL, kJR, kM(sender), kM(via)}
			} else {
				keys = [][2]string{kCreate, kPL, kJR, kM(sender)}
			}
		case kind < 29: // self leave
			typ, sk, content = spec.MRoomMember, strp(sender), `{"membership":"leave"}`
			keys = [][2]string{kCreate, kPL, kM(sender)}
		case kind < 36: // invite
			typ, sk, content = spec.MRoomMember, strp(other), `{"membership":"invite"}`
			keys = [][2]string{kCreate, kPL, kJR, kM(sender), kM(other)}
		case kind < 43: // ban
			typ, sk, content = spec.MRoomMember, strp(other), `{"membership":"ban"}`
			keys = [][2]string{kCreate, kPL, kM(sender), kM(other)}
		case kind < 50: // kick
			typ, sk, content = spec.MRoomMember, strp(other), `{"membership":"leave"}`
			keys = [][2]string{kCreate, kPL, kM(sender), kM(other)}
		case kind < 52: // knock
			typ, sk, content = spec.MRoomMember, strp(sender), `{"membership":"knock"}`
			keys = [][2]string{kCreate, kPL, kJR, kM(sender)}
		case kind < 54: // third-party invite membership
			tok := fmt.Sprintf("tok%d", rng.Intn(3))
			typ, sk = spec.MRoomMember, strp(other)
			content = fmt.Sprintf(`{"membership":"invite","third_party_invite":{"display_name":"d","signed":{"mxid":%q,"signatures":{},"token":%q}}}`, other, tok)
			if rng.Intn(4) == 0 {
				content = `{"membership":"invite","third_party_invite":{"display_name":"d","signed":{"mxid":"x","signatures":{}}}}`
			}
			keys = [][2]string{kCreate, kPL, kJR, kM(sender), kM(other), {spec.MRoomThirdPartyInvite, tok}}
		case kind < 68: // power levels
			typ, sk = spec.MRoomPowerLevels, strp("")
			lv := []int{0, 25, 50, 75, 100}
			var us []string
			for _, u := range h.users {
				if rng.Intn(2) == 0 || u == h.users[0] && rng.Intn(4) != 0 {
					l := lv[rng.Intn(len(lv))]
					if u == h.users[0] && rng.Intn(3) != 0 {
						l = 100
					}
					us = append(us, fmt.Sprintf("%q:%d", u, l))
				}
			}
			ud := 0
			if rng.Intn(5) == 0 {
				ud = lv[rng.Intn(3)]
			}
			content = fmt.Sprintf(`{"users":{%s},"users_default":%d,"state_default":%d,"events_default":0,"ban":50,"kick":50,"invite":%d,"redact":50}`,
				strings.Join(us, ","), ud, []int{50, 50, 0, 75}[rng.Intn(4)], []int{0, 0, 50}[rng.Intn(3)])
			if r := rng.Intn(40); r == 0 {
				content = `{"users":[1,2]}`
			} else if r == 1 {
				content = `{"users_default":{}}`
			} else if r == 2 {
				content = `{}`
			}
			keys = [][2]string{kCreate, kPL, kM(sender)}
		case kind < 76: // join rules
			typ, sk = spec.MRoomJoinRules, strp("")
			jr := []string{"public", "invite", "public", "invite", "knock", "restricted", "restricted"}[rng.Intn(7)]
			content = fmt.Sprintf(`{"join_rule":%q}`, jr)
			if jr == "restricted" || restrictedRoom && rng.Intn(2) == 0 {
				content = `{"allow":[{"room_id":"!other:h","type":"m.room_membership"}],"join_rule":"restricted"}`
			}
			keys = [][2]string{kCreate, kPL, kM(sender)}
		case kind < 88: // topic
			typ, sk, content = "m.room.topic", strp(""), fmt.Sprintf(`{"topic":"t%d"}`, step)
			keys = [][2]string{kCreate, kPL, kM(sender)}
		case kind < 94: // other state with a state key
			typ, sk, content = "m.test.state", strp([]string{"x", "y", other}[rng.Intn(3)]), fmt.Sprintf(`{"v":%d}`, step)
			keys = [][2]string{kCreate, kPL, kM(sender)}
		case kind < 97: // third party invite state event
			typ, sk = spec.MRoomThirdPartyInvite, strp(fmt.Sprintf("tok%d", rng.Intn(3)))
			content = `{"display_name":"d","key_validity_url":"https://h/v","public_key":"abc"}`
			keys = [][2]string{kCreate, kPL, kM(sender)}
		case kind < 98: // aliases
			typ, sk, content = spec.MRoomAliases, strp(srOrigin), `{"aliases":[]}`
			keys = [][2]string{kCreate}
		case kind < 99: // create with a state key / member with empty state key: odd shapes
			if rng.Intn(2) == 0 {
				typ, sk, content = spec.MRoomCreate, strp("odd"), `{}`
			} else {
				typ, sk, content = spec.MRoomPowerLevels, strp("odd"), `{"users":{}}`
			}
			keys = [][2]string{kCreate, kPL, kM(sender)}
		default: // message (not a state event)
			typ, sk, content = "m.room.message", nil, `{"body":"b","msgtype":"m.text"}`
			keys = [][2]string{kCreate, kPL, kM(sender)}
		}
		auth := authOf(base, keys...)
		// perturb the auth events now and then: drop one / add an unrelated one
		if step > 3 {
			if r := rng.Intn(100); r < 5 && len(auth) > 0 {
				j := rng.Intn(len(auth))
				auth = append(append([]string{}, auth[:j]...), auth[j+1:]...)
			} else if r < 9 {
				auth = append(auth, h.evs[rng.Intn(len(h.evs))].EventID())
			} else if r < 11 {
				rng.Shuffle(len(auth), func(a, b int) { auth[a], auth[b] = auth[b], auth[a] })
			}
		}
		ev := h.mk(rng, typ, sk, sender, content, prev, auth, depth, ts)
		if _, dup := h.byID[ev.EventID()]; dup {
			continue
		}
		h.add(ev, parents, base)
	}
	return h
}

// state sets at k fork tips; auth events = their auth chain inside the history
func (h *srHist) stateSets(rng *rand.Rand, k int) [][]gmsl.PDU {
	var leaves []int
	for i := range h.evs {
		if h.nchild[i] == 0 {
			leaves = append(leaves, i)
		}
	}
	rng.Shuffle(len(leaves), func(a, b int) { leaves[a], leaves[b] = leaves[b], leaves[a] })
	var tips []int
	for len(tips) < k {
		if len(leaves) > 0 && rng.Intn(4) != 0 {
			tips = append(tips, leaves[0])
			leaves = leaves[1:]
		} else {
			tips = append(tips, rng.Intn(len(h.evs)))
		}
	}
	sets := make([][]gmsl.PDU, k)
	for i, t := range tips {
		var idxs []int
		for _, v := range h.stateAfter[t] {
			idxs = append(idxs, v)
		}
		sort.Ints(idxs)
		rng.Shuffle(len(idxs), func(a, b int) { idxs[a], idxs[b] = idxs[b], idxs[a] })
		for _, v := range idxs {
			sets[i] = append(sets[i], h.evs[v])
		}
	}
	return sets
}

func (h *srHist) authChain(start []gmsl.PDU) []gmsl.PDU {
	seen := map[string]bool{}
	var out []gmsl.PDU
	var walk func(e gmsl.PDU)
	walk = func(e gmsl.PDU) {
		for _, a := range e.AuthEventIDs() {
			if seen[a] {
				continue
			}
			seen[a] = true
			if ae, ok := h.byID[a]; ok {
				out = append(out, ae)
				walk(ae)
			}
		}
	}
	for _, e := range start {
		walk(e)
	}
	return out
}

// ---------------------------------------------------------------------------------------
// projection for the model
// ---------------------------------------------------------------------------------------

func srProject(e gmsl.PDU) string {
	sk := "-"
	if e.StateKey() != nil {
		sk = "=" + *e.StateKey()
	}
	sum := sha1.Sum([]byte(e.EventID()))
	return strings.Join([]string{e.EventID(), e.Type(), sk, string(e.SenderID()),
		strconv.FormatInt(int64(e.OriginServerTS()), 10), strconv.FormatInt(e.Depth(), 10),
		strings.Join(e.AuthEventIDs(), ","), strings.Join(e.PrevEventIDs(), ","),
		hex.EncodeToString(sum[:]), string(e.Content())}, "|")
}

func srUniverse(evs []gmsl.PDU) []byte {
	ls := make([]string, len(evs))
	for i, e := range evs {
		ls[i] = srProject(e)
	}
	return []byte(strings.Join(ls, "\n"))
}

func srEvJSON(evs []gmsl.PDU) []byte {
	ls := make([]string, len(evs))
	for i, e := range evs {
		ls[i] = string(e.JSON())
	}
	return []byte(strings.Join(ls, "\n"))
}

// srEJSON renders the events for the auth model: the event JSON with its event_id member
// (one per line), the way harness/c07.go hands events to Auth.Model.
func srEJSON(evs []gmsl.PDU) []byte {
	ls := make([]string, len(evs))
	for i, e := range evs {
		dec := json.NewDecoder(bytes.NewReader(e.JSON()))
		dec.UseNumber()
		var m map[string]interface{}
		if err := dec.Decode(&m); err != nil {
			panic(err)
		}
		m["event_id"] = e.EventID()
		b, err := json.Marshal(m)
		if err != nil {
			panic(err)
		}
		ls[i] = string(b)
	}
	return []byte(strings.Join(ls, "\n"))
}

func srIDs(evs []gmsl.PDU) []string {
	ids := make([]string, len(evs))
	for i, e := range evs {
		ids[i] = e.EventID()
	}
	return ids
}

func srCSV(evs []gmsl.PDU) []byte { return []byte(strings.Join(srIDs(evs), ",")) }

func srSortedCSV(evs []gmsl.PDU) string {
	ids := srIDs(evs)
	sort.Strings(ids)
	return strings.Join(ids, ",")
}

func srSetsStr(sets [][]gmsl.PDU) []byte {
	ss := make([]string, len(sets))
	for i, s := range sets {
		ss[i] = string(srCSV(s))
	}
	return []byte(strings.Join(ss, ";"))
}

// parsed events of a case, cached by the JSON argument
type srCase struct {
	evs  []gmsl.PDU
	byID map[string]gmsl.PDU
}

var srCache = map[[32]byte]*srCase{}

func srParse(ver string, evjson []byte) *srCase {
	key := sha256.Sum256(append([]byte(ver+"\x00"), evjson...))
	if c, ok := srCache[key]; ok {
		return c
	}
	if len(srCache) > 64 {
		srCache = map[[32]byte]*srCase{}
	}
	verImpl := gmsl.MustGetRoomVersion(gmsl.RoomVersion(ver))
	c := &srCase{byID: map[string]gmsl.PDU{}}
	for _, l := range bytes.Split(evjson, []byte("\n")) {
		if len(l) == 0 {
			continue
		}
		ev, err := verImpl.NewEventFromTrustedJSON(l, false)
		if err != nil {
			panic(err)
		}
		c.evs = append(c.evs, ev)
		c.byID[ev.EventID()] = ev
	}
	srCache[key] = c
	return c
}

func (c *srCase) list(csv []byte) []gmsl.PDU {
	if len(csv) == 0 {
		return nil
	}
	var out []gmsl.PDU
	for _, id := range strings.Split(string(csv), ",") {
		if e, ok := c.byID[id]; ok {
			out = append(out, e)
		}
	}
	return out
}

func (c *srCase) sets(s []byte) [][]gmsl.PDU {
	if len(s) == 0 {
		return nil
	}
	var out [][]gmsl.PDU
	for _, part := range strings.Split(string(s), ";") {
		out = append(out, c.list([]byte(part)))
	}
	return out
}

func srRejectedFn(rej []byte) gmsl.IsRejected {
	m := map[string]bool{}
	if len(rej) > 0 {
		for _, id := range strings.Split(string(rej), ",") {
			m[id] = true
		}
	}
	return func(id string) bool { return m[id] }
}

func srAlgo(ver string) gmsl.StateResAlgorithm {
	return gmsl.MustGetRoomVersion(gmsl.RoomVersion(ver)).StateResAlgorithm()
}

// ---------------------------------------------------------------------------------------
// the model pipe and the verdict table
// ---------------------------------------------------------------------------------------

type srModel struct {
	cmd *exec.Cmd
	in  io.WriteCloser
	out *bufio.Reader
}

var srPipe *srModel

func srModelStart() *srModel {
	if srPipe != nil {
		return srPipe
	}
	path := "build/model_runner"
	if _, err := os.Stat(path); err != nil {
		panic("model runner not built: " + err.Error())
	}
	cmd := exec.Command("bash", "-c", `ulimit -s unlimited 2>/dev/null; exec "$0"`, path)
	in, _ := cmd.StdinPipe()
	out, _ := cmd.StdoutPipe()
	cmd.Stderr = os.Stderr
	if err := cmd.Start(); err != nil {
		panic(err)
	}
	srPipe = &srModel{cmd: cmd, in: in, out: bufio.NewReaderSize(out, 1<<20)}
	return srPipe
}

func (m *srModel) call(op string, args [][]byte) []byte {
	if _, err := fmt.Fprintf(m.in, "q\tcorr\t%s\t%s\n", op, hexArgs(args)); err != nil {
		panic(err)
	}
	line, err := m.out.ReadString('\n')
	if err != nil {
		panic("model runner: " + err.Error())
	}
	parts := strings.SplitN(strings.TrimRight(line, "\n"), "\t", 2)
	if len(parts) != 2 {
		return nil
	}
	b, _ := hex.DecodeString(parts[1])
	return b
}

// srVerdict asks the real auth rules: is ev allowed by exactly these provider contents?
func srVerdict(c *srCase, evID string, provIDs []string) bool {
	ev, ok := c.byID[evID]
	if !ok {
		return false
	}
	var prov []gmsl.PDU
	for _, id := range provIDs {
		if p, ok := c.byID[id]; ok {
			prov = append(prov, p)
		}
	}
	provider, err := gmsl.NewAuthEvents(prov)
	if err != nil {
		return false
	}
	return gmsl.Allowed(ev, provider, srUserIDForSender) == nil
}

// srFillTable runs the model operation with a growing verdict table until it no longer asks
// for a missing (event, provider) pair. tableAt is the index of the table argument.
func srFillTable(c *srCase, op string, args [][]byte, tableAt int) []byte {
	m := srModelStart()
	var lines []string
	have := map[string]bool{}
	if len(args[tableAt]) > 0 { // start from the rows already there
		for _, l := range strings.Split(string(args[tableAt]), "\n") {
			if i := strings.LastIndex(l, "|"); i > 0 {
				lines = append(lines, l)
				have[l[:i]] = true
			}
		}
	}
	for round := 0; round < 400; round++ {
		args[tableAt] = []byte(strings.Join(lines, "\n"))
		out := m.call(op, args)
		if !bytes.HasPrefix(out, []byte("MISSING\n")) {
			break
		}
		added := 0
		for _, q := range strings.Split(string(out[len("MISSING\n"):]), "\n") {
			if q == "" || have[q] {
				continue
			}
			have[q] = true
			parts := strings.SplitN(q, "|", 2)
			var ids []string
			if len(parts) == 2 && parts[1] != "" {
				ids = strings.Split(parts[1], ",")
			}
			v := "0"
			if srVerdict(c, parts[0], ids) {
				v = "1"
			}
			lines = append(lines, q+"|"+v)
			added++
		}
		if added == 0 {
			break
		}
	}
	sort.Strings(lines)
	return []byte(strings.Join(lines, "\n"))
}

var srDevNull *os.File

// the library prints every conflicted subgraph it finds to stdout
func srSilence() {
	if srDevNull == nil {
		srDevNull, _ = os.OpenFile(os.DevNull, os.O_WRONLY, 0)
		os.Stdout = srDevNull
	}
}

// ---------------------------------------------------------------------------------------
// implementation side
// ---------------------------------------------------------------------------------------

// srWatch runs f with a watchdog: "returns the state the algorithm defines" presupposes returning
// (F81, F99). The abandoned goroutine cannot be stopped; callers skip the rest of a heavy family
// after the first TIMEOUT.
func srWatch(f func() []byte) []byte {
	done := make(chan []byte, 1)
	go func() {
		defer func() {
			if r := recover(); r != nil {
				done <- []byte(fmt.Sprintf("PANIC: %v", r))
			}
		}()
		done <- f()
	}()
	select {
	case out := <-done:
		return out
	case <-time.After(15 * time.Second):
		return []byte("TIMEOUT: no result within 15 s")
	}
}

func srResult(evs []gmsl.PDU, err error) []byte {
	if err != nil {
		return []byte("err")
	}
	return []byte(srSortedCSV(evs))
}

func init() {
	// every op: args[0] = room version, args[1] = universe (rewritten from the parsed events),
	// last arg = the event JSONs (ignored by the model)
	wrap := func(f func(ver string, c *srCase, a [][]byte) []byte) ImplFn {
		return func(args [][]byte) ([][]byte, []byte) {
			srSilence()
			ver := string(args[0])
			c := srParse(ver, args[len(args)-1])
			args[1] = srUniverse(c.evs)
			return args, f(ver, c, args)
		}
	}
	// [ver; universe; evjson]
	RegisterImpl("C10.control", wrap(func(ver string, c *srCase, a [][]byte) []byte {
		out := make([]byte, len(c.evs))
		for i, e := range c.evs {
			out[i] = '0'
			if gmsl.VerifIsControlEvent(e) {
				out[i] = '1'
			}
		}
		return out
	}))
	RegisterImpl("C10.needed", wrap(func(ver string, c *srCase, a [][]byte) []byte {
		ls := make([]string, len(c.evs))
		fl := func(b bool) string {
			if b {
				return "1"
			}
			return "0"
		}
		for i, e := range c.evs {
			n := gmsl.StateNeededForAuth([]gmsl.PDU{e})
			m := append([]string{}, n.Member...)
			t := append([]string{}, n.ThirdPartyInvite...)
			sort.Strings(m)
			sort.Strings(t)
			ls[i] = fl(n.Create) + fl(n.PowerLevels) + fl(n.JoinRules) + "|" + strings.Join(m, ",") + "|" + strings.Join(t, ",")
		}
		return []byte(strings.Join(ls, "\n"))
	}))
	// [ver; universe; sets; evjson]
	RegisterImpl("C10.split", wrap(func(ver string, c *srCase, a [][]byte) []byte {
		cf, un := gmsl.VerifSplit(srAlgo(ver), c.sets(a[2]))
		return []byte(srSortedCSV(cf) + ";" + srSortedCSV(un))
	}))
	// [ver; universe; sets; auth; evjson]
	RegisterImpl("C10.authdiff_new", wrap(func(ver string, c *srCase, a [][]byte) []byte {
		return []byte(srSortedCSV(gmsl.VerifAuthDifferenceNew(srAlgo(ver), c.sets(a[2]), c.list(a[3]))))
	}))
	// [ver; universe; conflicted; auth; evjson]
	RegisterImpl("C10.authdiff_old", wrap(func(ver string, c *srCase, a [][]byte) []byte {
		return []byte(srSortedCSV(gmsl.VerifAuthDifferenceOld(c.list(a[2]), c.list(a[3]))))
	}))
	// [ver; universe; list; auth; create; evjson]
	RegisterImpl("C10.power_order", wrap(func(ver string, c *srCase, a [][]byte) []byte {
		var create gmsl.PDU
		if e, ok := c.byID[string(a[4])]; ok {
			create = e
		}
		return srCSV(gmsl.VerifPowerOrder(c.list(a[2]), c.list(a[3]), create))
	}))
	// [ver; universe; list; auth; power levels; evjson]
	RegisterImpl("C10.mainline_order", wrap(func(ver string, c *srCase, a [][]byte) []byte {
		var pl gmsl.PDU
		if e, ok := c.byID[string(a[4])]; ok {
			pl = e
		}
		return srCSV(gmsl.VerifMainlineOrder(c.list(a[2]), c.list(a[3]), pl))
	}))
	// [ver; universe; sets; auth; rejected; table; evjson]
	RegisterImpl("C10.resolve_new", wrap(func(ver string, c *srCase, a [][]byte) []byte {
		return srWatch(func() []byte {
			return srResult(gmsl.ResolveConflictsNew(gmsl.RoomVersion(ver), c.sets(a[2]), c.list(a[3]), srUserIDForSender, srRejectedFn(a[4])))
		})
	}))
	// [ver; universe; conflicted; unconflicted; auth; rejected; table; evjson]: the deprecated driver
	// called directly with conflicted and unconflicted as the two parts of ONE list (F79)
	RegisterImpl("C10.resolve_v2_direct", wrap(func(ver string, c *srCase, a [][]byte) []byte {
		cf, uc := c.list(a[2]), c.list(a[3])
		all := make([]gmsl.PDU, 0, len(cf)+len(uc)+8)
		all = append(append(all, cf...), uc...)
		res := gmsl.ResolveStateConflictsV2(all[:len(cf)], all[len(cf):], c.list(a[4]), srUserIDForSender, srRejectedFn(a[5]))
		return []byte(srSortedCSV(res))
	}))
	// [ver; universe; events; auth; rejected; table; evjson]
	RegisterImpl("C10.resolve_old", wrap(func(ver string, c *srCase, a [][]byte) []byte {
		return srWatch(func() []byte {
			return srResult(gmsl.ResolveConflicts(gmsl.RoomVersion(ver), c.list(a[2]), c.list(a[3]), srUserIDForSender, srRejectedFn(a[4])))
		})
	}))

	// end to end (auth rules inside the model): [ver; universe; sets|events; auth; rejected; ejson; evjson]
	RegisterImpl("C10.resolve_new_e2e", wrap(func(ver string, c *srCase, a [][]byte) []byte {
		a[5] = srEJSON(c.evs)
		return srResult(gmsl.ResolveConflictsNew(gmsl.RoomVersion(ver), c.sets(a[2]), c.list(a[3]), srUserIDForSender, srRejectedFn(a[4])))
	}))
	RegisterImpl("C10.resolve_old_e2e", wrap(func(ver string, c *srCase, a [][]byte) []byte {
		a[5] = srEJSON(c.evs)
		return srResult(gmsl.ResolveConflicts(gmsl.RoomVersion(ver), c.list(a[2]), c.list(a[3]), srUserIDForSender, srRejectedFn(a[4])))
	}))
	// the real Allowed on every row of a verdict table: [ver; universe; table; ejson; evjson]
	RegisterImpl("C10.allowed_rows", wrap(func(ver string, c *srCase, a [][]byte) []byte {
		a[3] = srEJSON(c.evs)
		var out []byte
		if len(a[2]) == 0 {
			return out
		}
		for _, l := range strings.Split(string(a[2]), "\n") {
			parts := strings.SplitN(l, "|", 3)
			if len(parts) != 3 {
				continue
			}
			var ids []string
			if parts[1] != "" {
				ids = strings.Split(parts[1], ",")
			}
			if srVerdict(c, parts[0], ids) {
				out = append(out, '1')
			} else {
				out = append(out, '0')
			}
		}
		return out
	}))

	RegisterProp("C10", propC10)
}

type srInput struct {
	h        *srHist
	ver      string
	sets     [][]gmsl.PDU
	auth     []gmsl.PDU
	rejected []string
	universe []byte
	evjson   []byte
}

// srGenInput draws a history and a resolution input over it. wellFormed: the state sets are
// maps (one event per key, no strays) and the auth events are complete (C11 needs that).
func srGenInput(c *Ctx, i int, wellFormed bool) *srInput {
	rng := c.Rng
	ver := srVersions[i%len(srVersions)]
	if i%len(srVersions) >= 6 && rng.Intn(2) == 0 {
		ver = "1" // the v1 algorithm has its own resolver: give it a quarter of the histories
	}
	n := 5 + rng.Intn(c.Scale(26, 40))
	h := srGenHistory(rng, ver, n)
	in := &srInput{h: h, ver: ver}
	in.sets = h.stateSets(rng, 2+rng.Intn(3))
	if rng.Intn(12) == 0 {
		// all sets equal
		for j := range in.sets {
			in.sets[j] = append([]gmsl.PDU{}, in.sets[0]...)
			rng.Shuffle(len(in.sets[j]), func(a, b int) { in.sets[j][a], in.sets[j][b] = in.sets[j][b], in.sets[j][a] })
		}
	}
	var all []gmsl.PDU
	for _, s := range in.sets {
		all = append(all, s...)
	}
	in.auth = h.authChain(all)
	switch r := rng.Intn(10); {
	case r < 2: // the state events themselves are listed too
		seen := map[string]bool{}
		for _, e := range in.auth {
			seen[e.EventID()] = true
		}
		for _, e := range all {
			if !seen[e.EventID()] {
				seen[e.EventID()] = true
				in.auth = append(in.auth, e)
			}
		}
	case r < 3 && !wellFormed && len(in.auth) > 2: // an auth event is missing
		j := 1 + rng.Intn(len(in.auth)-1)
		in.auth = append(append([]gmsl.PDU{}, in.auth[:j]...), in.auth[j+1:]...)
	}
	if srAlgo(ver) == gmsl.StateResV1 {
		// ResolveStateConflicts documents its auth events as the unconflicted auth events
		// (one per state key); with conflicted keys among them its result depends on the
		// iteration order of a Go map.
		_, un := srOldSplit(all)
		in.auth = nil
		for _, e := range un {
			switch e.Type() {
			case spec.MRoomCreate, spec.MRoomPowerLevels, spec.MRoomJoinRules, spec.MRoomMember, spec.MRoomThirdPartyInvite:
				in.auth = append(in.auth, e)
			}
		}
	}
	if srAlgo(ver) == gmsl.StateResV1 && rng.Intn(3) == 0 {
		// F78: also one (any) event of the history for every conflicted auth key
		cf, _ := srOldSplit(all)
		have := map[[2]string]bool{}
		for _, e := range cf {
			k := [2]string{e.Type(), *e.StateKey()}
			if have[k] {
				continue
			}
			have[k] = true
			switch e.Type() {
			case spec.MRoomPowerLevels, spec.MRoomJoinRules, spec.MRoomMember, spec.MRoomThirdPartyInvite:
				var pool []gmsl.PDU
				for _, x := range h.evs {
					if x.StateKey() != nil && x.Type() == k[0] && *x.StateKey() == k[1] {
						pool = append(pool, x)
					}
				}
				if len(pool) > 0 {
					in.auth = append(in.auth, pool[rng.Intn(len(pool))])
				}
			}
		}
	}
	rng.Shuffle(len(in.auth), func(a, b int) { in.auth[a], in.auth[b] = in.auth[b], in.auth[a] })
	if !wellFormed && rng.Intn(8) == 0 && srAlgo(ver) != gmsl.StateResV1 {
		s := rng.Intn(len(in.sets))
		switch rng.Intn(3) {
		case 0: // drop an event from one set
			if len(in.sets[s]) > 1 {
				j := rng.Intn(len(in.sets[s]))
				in.sets[s] = append(append([]gmsl.PDU{}, in.sets[s][:j]...), in.sets[s][j+1:]...)
			}
		case 1: // an extra event from elsewhere in the history
			in.sets[s] = append(in.sets[s], h.evs[rng.Intn(len(h.evs))])
		case 2: // an event listed twice
			if len(in.sets[s]) > 0 {
				in.sets[s] = append(in.sets[s], in.sets[s][rng.Intn(len(in.sets[s]))])
			}
		}
	}
	if rng.Intn(3) == 0 {
		for k := 0; k < 1+rng.Intn(3); k++ {
			in.rejected = append(in.rejected, h.evs[rng.Intn(len(h.evs))].EventID())
		}
	}
	in.universe = srUniverse(h.evs)
	in.evjson = srEvJSON(h.evs)
	return in
}

// srDirectedV1 builds a room-version-1 history with two or three MUTUALLY DEPENDENT conflicted
// member keys: an actor whose own membership is conflicted (left on one branch, re-joined on the
// other) bans / kicks other users on the branch where he is back. DESIGN 6.2 r7: the winners of
// one type join the auth state only when the whole type is resolved, so the actor's conflicted
// membership must not authorise his bans, whatever order the blocks are resolved in.
func srDirectedV1(rng *rand.Rand) *srInput {
	h := &srHist{ver: "1", v1fmt: true, byID: map[string]gmsl.PDU{}, idx: map[string]int{}, roomID: "!r:" + srOrigin}
	nvict := 1 + rng.Intn(2) // victims: one or two further conflicted member keys
	for i := 0; i < 3+nvict; i++ {
		h.users = append(h.users, fmt.Sprintf("@u%d:%s", i, srOrigin))
	}
	alice, actor := h.users[0], h.users[1]
	victims := h.users[2 : 2+nvict]
	ts := int64(1000 + rng.Intn(500))
	depth := int64(0)
	var last string
	emit := func(typ string, sk *string, sender, content string, auth []string) gmsl.PDU {
		depth++
		ts += int64(rng.Intn(3))
		var prev []string
		if last != "" {
			prev = []string{last}
		}
		ev := h.mk(rng, typ, sk, sender, content, prev, auth, depth, ts)
		h.evs = append(h.evs, ev)
		h.byID[ev.EventID()] = ev
		last = ev.EventID()
		return ev
	}
	id := func(e gmsl.PDU) string { return e.EventID() }
	create := emit(spec.MRoomCreate, strp(""), alice, fmt.Sprintf(`{"creator":%q,"room_version":"1"}`, alice), nil)
	aj := emit(spec.MRoomMember, strp(alice), alice, `{"membership":"join"}`, []string{id(create)})
	lv := []int{50, 75, 100}[rng.Intn(3)]
	var us []string
	us = append(us, fmt.Sprintf("%q:100", alice), fmt.Sprintf("%q:%d", actor, lv))
	for _, v := range victims {
		if rng.Intn(2) == 0 {
			us = append(us, fmt.Sprintf("%q:%d", v, []int{0, 25, lv}[rng.Intn(3)]))
		}
	}
	pl := emit(spec.MRoomPowerLevels, strp(""), alice,
		fmt.Sprintf(`{"users":{%s},"users_default":0,"state_default":50,"events_default":0,"ban":50,"kick":50,"invite":0,"redact":50}`, strings.Join(us, ",")),
		[]string{id(create), id(aj)})
	jr := emit(spec.MRoomJoinRules, strp(""), alice, `{"join_rule":"public"}`, []string{id(create), id(pl), id(aj)})
	actorJoin := emit(spec.MRoomMember, strp(actor), actor, `{"membership":"join"}`, []string{id(create), id(pl), id(jr)})
	vjoin := map[string]gmsl.PDU{}
	for _, v := range victims {
		vjoin[v] = emit(spec.MRoomMember, strp(v), v, `{"membership":"join"}`, []string{id(create), id(pl), id(jr)})
	}
	fork := last
	// branch 1: the actor leaves (or is demoted to a plain leave by himself)
	actorLeave := emit(spec.MRoomMember, strp(actor), actor, `{"membership":"leave"}`, []string{id(create), id(pl), id(actorJoin)})
	// branch 2 (forks off before the leave or continues after it): the actor is (back) in and acts
	if rng.Intn(2) == 0 {
		last = fork
		depth -= 1
	}
	actorIn := actorJoin
	if last != fork || rng.Intn(2) == 0 {
		base := actorJoin
		if last != fork {
			base = actorLeave
		}
		actorIn = emit(spec.MRoomMember, strp(actor), actor, `{"membership":"join"}`, []string{id(create), id(pl), id(jr), id(base)})
	}
	vact := map[string]gmsl.PDU{}
	for _, v := range victims {
		m := []string{"ban", "leave"}[rng.Intn(2)]
		sender := actor
		// a second victim may be acted on by the first victim instead (a chain of dependencies)
		auth := []string{id(create), id(pl), id(actorIn), id(vjoin[v])}
		if v != victims[0] && rng.Intn(2) == 0 {
			sender = victims[0]
			auth = []string{id(create), id(pl), id(vjoin[victims[0]]), id(vjoin[v])}
		}
		vact[v] = emit(spec.MRoomMember, strp(v), sender, fmt.Sprintf(`{"membership":%q}`, m), auth)
	}
	// an unrelated conflict of another type now and then
	var topic1, topic2 gmsl.PDU
	if rng.Intn(2) == 0 {
		topic1 = emit("m.room.topic", strp(""), alice, `{"topic":"a"}`, []string{id(create), id(pl), id(aj)})
		topic2 = emit("m.room.topic", strp(""), actor, `{"topic":"b"}`, []string{id(create), id(pl), id(actorIn)})
	}
	common := []gmsl.PDU{create, aj, pl, jr}
	set1 := append([]gmsl.PDU{}, common...)
	set2 := append([]gmsl.PDU{}, common...)
	set1 = append(set1, actorLeave)
	set2 = append(set2, actorIn)
	if actorIn == actorJoin { // the actor's key: {join, leave}; the sets hold the two
		set1[len(set1)-1], set2[len(set2)-1] = actorLeave, actorJoin
	}
	for _, v := range victims {
		set1 = append(set1, vjoin[v])
		set2 = append(set2, vact[v])
	}
	if topic1 != nil {
		set1 = append(set1, topic1)
		set2 = append(set2, topic2)
	}
	in := &srInput{h: h, ver: "1", sets: [][]gmsl.PDU{set1, set2}}
	// F78: an auth event under a key that is itself conflicted (the actor's first join, which is
	// none of the candidates): one event per key, as the resolver documents
	extraAuth := actorIn != actorJoin && rng.Intn(4) != 0
	if rng.Intn(3) == 0 { // a third set agreeing with one of them
		in.sets = append(in.sets, append([]gmsl.PDU{}, [][]gmsl.PDU{set1, set2}[rng.Intn(2)]...))
	}
	var all []gmsl.PDU
	for _, s := range in.sets {
		all = append(all, s...)
	}
	_, un := srOldSplit(all)
	for _, e := range un {
		switch e.Type() {
		case spec.MRoomCreate, spec.MRoomPowerLevels, spec.MRoomJoinRules, spec.MRoomMember, spec.MRoomThirdPartyInvite:
			in.auth = append(in.auth, e)
		}
	}
	if extraAuth {
		in.auth = append(in.auth, actorJoin)
	}
	in.universe = srUniverse(h.evs)
	in.evjson = srEvJSON(h.evs)
	return in
}

// srDirectedV1Chain builds a room-version-1 history whose state sets disagree on ONE auth key
// with n candidates (n state sets, one candidate each), for each auth type:
//   "pl":     power_levels chain - every candidate is sent by a user who has the power only under
//             the previous candidate (A raises B, B raises C, ...)
//   "member": one user's membership in an invite-only room: leave, invite, join, leave, invite -
//             every step allowed only after the previous one
//   "jr":     join_rules by senders of different power
//   "3pid":   third_party_invite state events of one token by senders of different power
// (DESIGN 6.2 r7: each newer candidate is judged against the CURRENT candidate; the walk stops at
// the first that fails.) broken: one middle candidate is sent by a user without the power.
func srDirectedV1Chain(rng *rand.Rand, kind string, n int, broken bool) *srInput {
	h := &srHist{ver: "1", v1fmt: true, byID: map[string]gmsl.PDU{}, idx: map[string]int{}, roomID: "!r:" + srOrigin}
	for i := 0; i < 6; i++ {
		h.users = append(h.users, fmt.Sprintf("@u%d:%s", i, srOrigin))
	}
	u := h.users
	ts := int64(1000 + rng.Intn(500))
	depth := int64(0)
	var last string
	emit := func(typ string, sk *string, sender, content string, auth []string) gmsl.PDU {
		depth++
		ts += int64(rng.Intn(3))
		var prev []string
		if last != "" {
			prev = []string{last}
		}
		ev := h.mk(rng, typ, sk, sender, content, prev, auth, depth, ts)
		h.evs = append(h.evs, ev)
		h.byID[ev.EventID()] = ev
		last = ev.EventID()
		return ev
	}
	id := func(e gmsl.PDU) string { return e.EventID() }
	create := emit(spec.MRoomCreate, strp(""), u[0], fmt.Sprintf(`{"creator":%q,"room_version":"1"}`, u[0]), nil)
	aj := emit(spec.MRoomMember, strp(u[0]), u[0], `{"membership":"join"}`, []string{id(create)})
	plContent := func(levels map[string]int) string {
		var us []string
		for _, x := range u {
			if l, ok := levels[x]; ok {
				us = append(us, fmt.Sprintf("%q:%d", x, l))
			}
		}
		return fmt.Sprintf(`{"users":{%s},"users_default":0,"state_default":50,"events_default":0,"ban":50,"kick":50,"invite":50,"redact":50}`, strings.Join(us, ","))
	}
	levels := map[string]int{u[0]: 100, u[1]: 50}
	pl0 := emit(spec.MRoomPowerLevels, strp(""), u[0], plContent(levels), []string{id(create), id(aj)})
	jr := emit(spec.MRoomJoinRules, strp(""), u[0], `{"join_rule":"public"}`, []string{id(create), id(pl0), id(aj)})
	joins := map[string]gmsl.PDU{u[0]: aj}
	for _, x := range u[1:] {
		joins[x] = emit(spec.MRoomMember, strp(x), x, `{"membership":"join"}`, []string{id(create), id(pl0), id(jr)})
	}
	common := []gmsl.PDU{create, jr}
	for _, x := range u {
		common = append(common, joins[x])
	}
	var cands []gmsl.PDU
	bad := -1
	if broken && n > 2 {
		bad = 1 + rng.Intn(n-2)
	}
	switch kind {
	case "pl":
		cands = append(cands, pl0)
		sender := u[0]
		for k := 1; k < n; k++ {
			// the sender raises the next user to 100; from k = 2 on the sender is the user raised last
			levels[u[k]] = 100
			s := sender
			if k == bad {
				s = u[5] // level 0: not allowed, the walk stops here
			}
			cands = append(cands, emit(spec.MRoomPowerLevels, strp(""), s, plContent(levels), []string{id(create), id(cands[k-1]), id(joins[s])}))
			sender = u[k]
		}
	case "member":
		common = append(common[:0:0], create)
		for _, x := range u[:5] {
			common = append(common, joins[x])
		}
		common = append(common, pl0)
		jrInvite := emit(spec.MRoomJoinRules, strp(""), u[0], `{"join_rule":"invite"}`, []string{id(create), id(pl0), id(aj)})
		common = append(common, jrInvite)
		target := u[5]
		steps := []struct{ sender, m string }{{target, "leave"}, {u[0], "invite"}, {target, "join"}, {target, "leave"}, {u[0], "invite"}}
		prevM := joins[target]
		for k := 0; k < n; k++ {
			st := steps[k]
			s := st.sender
			if k == bad {
				s = u[4] // level 0 inviting / acting for somebody else: refused
			}
			ev := emit(spec.MRoomMember, strp(target), s, fmt.Sprintf(`{"membership":%q}`, st.m),
				[]string{id(create), id(pl0), id(jrInvite), id(prevM), id(joins[u[0]])})
			cands = append(cands, ev)
			prevM = ev
		}
	case "jr":
		common = append(common[:0:0], create)
		for _, x := range u {
			common = append(common, joins[x])
		}
		common = append(common, pl0)
		cands = append(cands, jr)
		for k := 1; k < n; k++ {
			s := []string{u[0], u[1], u[0], u[1]}[k-1] // level 100 and level 50: both may
			if k == bad {
				s = u[3]
			}
			cands = append(cands, emit(spec.MRoomJoinRules, strp(""), s, fmt.Sprintf(`{"join_rule":%q}`, []string{"invite", "public", "knock", "invite"}[k-1]),
				[]string{id(create), id(pl0), id(joins[s])}))
		}
	default: // "3pid"
		common = append(common, pl0)
		for k := 0; k < n; k++ {
			s := []string{u[0], u[1], u[0], u[1], u[0]}[k]
			if k == bad {
				s = u[3]
			}
			cands = append(cands, emit(spec.MRoomThirdPartyInvite, strp("tok"), s,
				fmt.Sprintf(`{"display_name":"d%d","key_validity_url":"https://h/v","public_key":"abc"}`, k),
				[]string{id(create), id(pl0), id(joins[s])}))
		}
	}
	in := &srInput{h: h, ver: "1"}
	for _, cnd := range cands {
		in.sets = append(in.sets, append(append([]gmsl.PDU{}, common...), cnd))
	}
	var all []gmsl.PDU
	for _, s := range in.sets {
		all = append(all, s...)
	}
	_, un := srOldSplit(all)
	for _, e := range un {
		switch e.Type() {
		case spec.MRoomCreate, spec.MRoomPowerLevels, spec.MRoomJoinRules, spec.MRoomMember, spec.MRoomThirdPartyInvite:
			in.auth = append(in.auth, e)
		}
	}
	in.universe = srUniverse(h.evs)
	in.evjson = srEvJSON(h.evs)
	return in
}

// every auth type, 3 / 4 / 5 candidates on one key, intact and with a failing middle candidate,
// in several presentation orders, both entry points, judged by the r7 oracle
func srDirectedV1ChainCases(c *Ctx) {
	for _, kind := range []string{"pl", "member", "jr", "3pid"} {
		for n := 3; n <= 5; n++ {
			for _, broken := range []bool{false, true} {
				in := srDirectedV1Chain(c.Rng, kind, n, broken)
				cs := srParse(in.ver, in.evjson)
				c.Count("directed_v1_chain_" + kind)
				desc := fmt.Sprintf("directed v1 chain: %d candidates on one %s key (broken=%v)", n, kind, broken)
				var table, otable []byte
				for p := 0; p < c.Scale(4, 12); p++ {
					psets, pauth := srRearranged(c.Rng, in)
					args := [][]byte{[]byte(in.ver), in.universe, srSetsStr(psets), srCSV(pauth), nil, table, in.evjson}
					table = srFillTable(cs, "C10.resolve_new", args, 5)
					args[5] = table
					c.Run("C10.resolve_new", args, "C10.resolve_new", "C10.prop.v1", desc+fmt.Sprintf(" order %d", p))
					var all []gmsl.PDU
					for _, s := range psets {
						all = append(all, s...)
					}
					oargs := [][]byte{[]byte(in.ver), in.universe, srCSV(all), srCSV(pauth), nil, otable, in.evjson}
					otable = srFillTable(cs, "C10.resolve_old", oargs, 5)
					oargs[5] = otable
					c.Run("C10.resolve_old", oargs, "C10.resolve_old", "C10.prop.v1_old", desc+fmt.Sprintf(" order %d", p))
				}
			}
		}
	}
}

func srNewHist(ver string) *srHist {
	verImpl := gmsl.MustGetRoomVersion(gmsl.RoomVersion(ver))
	return &srHist{ver: gmsl.RoomVersion(ver), v1fmt: verImpl.EventFormat() == gmsl.EventFormatV1,
		v12: verImpl.DomainlessRoomIDs(), byID: map[string]gmsl.PDU{}, idx: map[string]int{}, roomID: "!r:" + srOrigin}
}

// a linear emitter over a history (prev = the event emitted last unless moved)
type srEmitter struct {
	h     *srHist
	rng   *rand.Rand
	ts    int64
	depth int64
	last  string
}

func (m *srEmitter) emit(typ string, sk *string, sender, content string, auth []string) gmsl.PDU {
	m.depth++
	m.ts += int64(m.rng.Intn(3))
	var prev []string
	if m.last != "" {
		prev = []string{m.last}
	}
	ev := m.h.mk(m.rng, typ, sk, sender, content, prev, auth, m.depth, m.ts)
	m.h.evs = append(m.h.evs, ev)
	m.h.byID[ev.EventID()] = ev
	m.last = ev.EventID()
	return ev
}

func srFinishInput(h *srHist, ver string, sets [][]gmsl.PDU, v1auth bool) *srInput {
	in := &srInput{h: h, ver: ver, sets: sets}
	var all []gmsl.PDU
	for _, s := range sets {
		all = append(all, s...)
	}
	if v1auth {
		_, un := srOldSplit(all)
		for _, e := range un {
			switch e.Type() {
			case spec.MRoomCreate, spec.MRoomPowerLevels, spec.MRoomJoinRules, spec.MRoomMember, spec.MRoomThirdPartyInvite:
				in.auth = append(in.auth, e)
			}
		}
	} else {
		in.auth = h.authChain(all)
	}
	in.universe = srUniverse(h.evs)
	in.evjson = srEvJSON(h.evs)
	return in
}

// srDirectedV1Admin: room version 1, two or three conflicted member keys whose newest candidate
// is sent by SOMEBODY ELSE - the admin, whose own membership is unconflicted: she bans / kicks /
// invites several users on one branch. Every block needs the admin's membership to authorise its
// newest event, so it has to survive the resolution of the other blocks (removeAuthEvent must
// remove the winner's state key, nothing else).
func srDirectedV1Admin(rng *rand.Rand) *srInput {
	h := srNewHist("1")
	nv := 2 + rng.Intn(2)
	for i := 0; i < 1+nv; i++ {
		h.users = append(h.users, fmt.Sprintf("@u%d:%s", i, srOrigin))
	}
	m := &srEmitter{h: h, rng: rng, ts: int64(1000 + rng.Intn(500))}
	id := func(e gmsl.PDU) string { return e.EventID() }
	admin := h.users[0]
	create := m.emit(spec.MRoomCreate, strp(""), admin, fmt.Sprintf(`{"creator":%q,"room_version":"1"}`, admin), nil)
	aj := m.emit(spec.MRoomMember, strp(admin), admin, `{"membership":"join"}`, []string{id(create)})
	pl := m.emit(spec.MRoomPowerLevels, strp(""), admin,
		fmt.Sprintf(`{"users":{%q:100},"users_default":0,"state_default":50,"events_default":0,"ban":50,"kick":50,"invite":0,"redact":50}`, admin),
		[]string{id(create), id(aj)})
	jr := m.emit(spec.MRoomJoinRules, strp(""), admin, `{"join_rule":"public"}`, []string{id(create), id(pl), id(aj)})
	set1 := []gmsl.PDU{create, aj, pl, jr}
	set2 := []gmsl.PDU{create, aj, pl, jr}
	var joins []gmsl.PDU
	for _, v := range h.users[1:] {
		joins = append(joins, m.emit(spec.MRoomMember, strp(v), v, `{"membership":"join"}`, []string{id(create), id(pl), id(jr)}))
	}
	for i, v := range h.users[1:] {
		act := m.emit(spec.MRoomMember, strp(v), admin, fmt.Sprintf(`{"membership":%q}`, []string{"ban", "leave", "ban"}[rng.Intn(3)]),
			[]string{id(create), id(pl), id(aj), id(joins[i])})
		set1 = append(set1, joins[i])
		set2 = append(set2, act)
	}
	if rng.Intn(2) == 0 {
		set1, set2 = set2, set1
	}
	return srFinishInput(h, "1", [][]gmsl.PDU{set1, set2}, true)
}

// srDirectedV2Overwrite: a v2 / v2.1 room in which a key is UNCONFLICTED (every state set holds
// the same event K2 for it) while the auth difference holds another event K1X of the same key
// that passes its auth check (a superseded concurrent event that only one fork's topic names as
// auth event). The iterative auth checks put K1X into the partial state; the final
// re-application of the unconflicted state has to put K2 back (v2 AND v2.1).
func srDirectedV2Overwrite(rng *rand.Rand, ver string, key string) *srInput {
	h := srNewHist(ver)
	h.users = []string{"@u0:" + srOrigin, "@u1:" + srOrigin}
	m := &srEmitter{h: h, rng: rng, ts: int64(1000 + rng.Intn(500))}
	id := func(e gmsl.PDU) string { return e.EventID() }
	au := func(ids ...string) []string { // v12: the create event is never listed
		if !h.v12 {
			return ids
		}
		return ids[1:]
	}
	a, b := h.users[0], h.users[1]
	cc := fmt.Sprintf(`{"room_version":%q`, ver)
	if !h.v12 {
		cc += fmt.Sprintf(`,"creator":%q`, a)
	}
	create := m.emit(spec.MRoomCreate, strp(""), a, cc+"}", nil)
	if h.v12 {
		h.roomID = "!" + create.EventID()[1:]
	}
	aj := m.emit(spec.MRoomMember, strp(a), a, `{"membership":"join"}`, au(id(create)))
	plc := func(extra int) string {
		return fmt.Sprintf(`{"users":{%q:100,%q:%d},"users_default":0,"state_default":50,"events_default":0,"ban":50,"kick":50,"invite":0,"redact":50}`, a, b, extra)
	}
	pl1 := m.emit(spec.MRoomPowerLevels, strp(""), a, plc(0), au(id(create), id(aj)))
	jr1 := m.emit(spec.MRoomJoinRules, strp(""), a, `{"join_rule":"public"}`, au(id(create), id(pl1), id(aj)))
	bj := m.emit(spec.MRoomMember, strp(b), b, `{"membership":"join"}`, au(id(create), id(pl1), id(jr1)))
	fork := m.last
	var k1x, k2 gmsl.PDU
	if key == "pl" {
		k1x = m.emit(spec.MRoomPowerLevels, strp(""), a, plc(25), au(id(create), id(pl1), id(aj)))
		m.last = fork
		k2 = m.emit(spec.MRoomPowerLevels, strp(""), a, plc(50), au(id(create), id(pl1), id(aj)))
	} else {
		k1x = m.emit(spec.MRoomJoinRules, strp(""), a, `{"join_rule":"invite"}`, au(id(create), id(pl1), id(aj)))
		m.last = fork
		k2 = m.emit(spec.MRoomJoinRules, strp(""), a, `{"join_rule":"knock"}`, au(id(create), id(pl1), id(aj)))
	}
	plNow, plFork := pl1, pl1
	if key == "pl" {
		plNow, plFork = k2, k1x
	}
	// fork 1: an event that names K1X among its auth events; fork 2: one that does not
	var t1 gmsl.PDU
	if key == "pl" {
		t1 = m.emit("m.room.topic", strp(""), a, `{"topic":"one"}`, au(id(create), id(plFork), id(aj)))
	} else {
		// a join names the join rules: b re-joins citing the superseded join rules
		t1 = m.emit(spec.MRoomMember, strp(b), b, `{"displayname":"b1","membership":"join"}`, au(id(create), id(pl1), id(k1x), id(bj)))
	}
	var t2 gmsl.PDU
	if key == "pl" {
		t2 = m.emit("m.room.topic", strp(""), a, `{"topic":"two"}`, au(id(create), id(plNow), id(aj)))
	} else {
		t2 = m.emit(spec.MRoomMember, strp(b), b, `{"displayname":"b2","membership":"join"}`, au(id(create), id(pl1), id(k2), id(bj)))
	}
	common := []gmsl.PDU{create, aj}
	if key == "pl" {
		common = append(common, k2, jr1, bj)
	} else {
		common = append(common, pl1, k2)
	}
	set1 := append(append([]gmsl.PDU{}, common...), t1)
	set2 := append(append([]gmsl.PDU{}, common...), t2)
	return srFinishInput(h, ver, [][]gmsl.PDU{set1, set2}, false)
}

// common start of a directed v2 / v2.1 history: create, alice joins; returns helpers
type srRoom struct {
	h      *srHist
	m      *srEmitter
	alice  string
	create gmsl.PDU
	aj     gmsl.PDU
}

func srStartRoom(rng *rand.Rand, ver string, nusers int) *srRoom {
	h := srNewHist(ver)
	for i := 0; i < nusers; i++ {
		h.users = append(h.users, fmt.Sprintf("@u%d:%s", i, srOrigin))
	}
	m := &srEmitter{h: h, rng: rng, ts: int64(1000 + rng.Intn(500))}
	a := h.users[0]
	cc := fmt.Sprintf(`{"room_version":%q`, ver)
	if !h.v12 {
		cc += fmt.Sprintf(`,"creator":%q`, a)
	}
	create := m.emit(spec.MRoomCreate, strp(""), a, cc+"}", nil)
	if h.v12 {
		h.roomID = "!" + create.EventID()[1:]
	}
	r := &srRoom{h: h, m: m, alice: a, create: create}
	r.aj = m.emit(spec.MRoomMember, strp(a), a, `{"membership":"join"}`, r.au(create))
	return r
}

// auth event IDs (v12: the create event is never listed)
func (r *srRoom) au(evs ...gmsl.PDU) []string {
	var ids []string
	for _, e := range evs {
		if r.h.v12 && e.Type() == spec.MRoomCreate {
			continue
		}
		ids = append(ids, e.EventID())
	}
	return ids
}

// power levels content; v12: the creator must not be listed
func (r *srRoom) pl(levels map[string]int, extra string) string {
	var us []string
	for _, x := range r.h.users {
		if l, ok := levels[x]; ok && !(r.h.v12 && x == r.alice) {
			us = append(us, fmt.Sprintf("%q:%d", x, l))
		}
	}
	return fmt.Sprintf(`{"users":{%s},"users_default":0,"state_default":50,"events_default":0,"ban":50,"kick":50,"invite":0,"redact":50%s}`, strings.Join(us, ","), extra)
}

// F76: an honest fork in which a power-levels event is BOTH conflicted and in the auth difference:
// trunk PL0; fork X: PL1 (alice promotes u1), PL2 (u1 promotes u2), ..., T (the last promoted user
// sets the topic); fork Y: N (alice sets the name). The power events form a chain in the auth DAG,
// so their order is PL0, PL1, ..., PLn whatever the timestamps and senders' levels are.
func srDirectedV2PromoteChain(rng *rand.Rand, ver string, n int) *srInput {
	r := srStartRoom(rng, ver, n+1)
	m, u := r.m, r.h.users
	levels := map[string]int{r.alice: 100}
	pl0 := m.emit(spec.MRoomPowerLevels, strp(""), r.alice, r.pl(levels, ""), r.au(r.create, r.aj))
	jr := m.emit(spec.MRoomJoinRules, strp(""), r.alice, `{"join_rule":"public"}`, r.au(r.create, pl0, r.aj))
	joins := map[string]gmsl.PDU{r.alice: r.aj}
	for _, x := range u[1:] {
		joins[x] = m.emit(spec.MRoomMember, strp(x), x, `{"membership":"join"}`, r.au(r.create, pl0, jr))
	}
	fork := m.last
	prevPL, sender := pl0, r.alice
	for k := 1; k <= n; k++ {
		levels[u[k]] = 50
		prevPL = m.emit(spec.MRoomPowerLevels, strp(""), sender, r.pl(levels, ""), r.au(r.create, prevPL, joins[sender]))
		sender = u[k]
	}
	t := m.emit("m.room.topic", strp(""), sender, `{"topic":"t"}`, r.au(r.create, prevPL, joins[sender]))
	m.last = fork
	nm := m.emit("m.room.name", strp(""), r.alice, `{"name":"n"}`, r.au(r.create, pl0, r.aj))
	common := []gmsl.PDU{r.create, jr}
	for _, x := range u {
		common = append(common, joins[x])
	}
	setX := append(append([]gmsl.PDU{}, common...), prevPL, t)
	setY := append(append([]gmsl.PDU{}, common...), pl0, nm)
	in := srFinishInput(r.h, ver, [][]gmsl.PDU{setX, setY}, false)
	in.auth = append([]gmsl.PDU{}, r.h.evs...)
	return in
}

// F77: v2.1 starts from the empty state, so the events of the UNCONFLICTED state that lie in the
// conflicted subgraph have to be replayed: trunk PL1, PL2, PL3 (only PL3 gives bob 50); fork X:
// T (bob sets the topic); fork Y: MA2 (alice changes her display name). PL3 is in both state sets.
func srDirectedV21Subgraph(rng *rand.Rand, ver string) *srInput {
	r := srStartRoom(rng, ver, 2)
	m, bob := r.m, r.h.users[1]
	pl1 := m.emit(spec.MRoomPowerLevels, strp(""), r.alice, r.pl(map[string]int{r.alice: 100}, ""), r.au(r.create, r.aj))
	jr := m.emit(spec.MRoomJoinRules, strp(""), r.alice, `{"join_rule":"public"}`, r.au(r.create, pl1, r.aj))
	mb := m.emit(spec.MRoomMember, strp(bob), bob, `{"membership":"join"}`, r.au(r.create, pl1, jr))
	pl2 := m.emit(spec.MRoomPowerLevels, strp(""), r.alice, r.pl(map[string]int{r.alice: 100, bob: 25}, ""), r.au(r.create, pl1, r.aj))
	pl3 := m.emit(spec.MRoomPowerLevels, strp(""), r.alice, r.pl(map[string]int{r.alice: 100, bob: 50}, ""), r.au(r.create, pl2, r.aj))
	fork := m.last
	t := m.emit("m.room.topic", strp(""), bob, `{"topic":"t"}`, r.au(r.create, pl3, mb))
	m.last = fork
	ma2 := m.emit(spec.MRoomMember, strp(r.alice), r.alice, `{"displayname":"a2","membership":"join"}`, r.au(r.create, pl3, jr, r.aj))
	setX := []gmsl.PDU{r.create, r.aj, pl3, jr, mb, t}
	setY := []gmsl.PDU{r.create, ma2, pl3, jr, mb}
	in := srFinishInput(r.h, ver, [][]gmsl.PDU{setX, setY}, false)
	in.auth = append([]gmsl.PDU{}, r.h.evs...)
	return in
}

// F81: a long honest history: n rounds of alice changing her display name and the power levels
// (every event cites its predecessors), then a fork T | N. The number of auth PATHS from T to
// the create event doubles with every round; the defined result is the union of the two sets.
func srDirectedV21LongChain(rng *rand.Rand, ver string, n int) *srInput {
	r := srStartRoom(rng, ver, 1)
	m := r.m
	p := m.emit(spec.MRoomPowerLevels, strp(""), r.alice, r.pl(map[string]int{r.alice: 100}, ""), r.au(r.create, r.aj))
	jr := m.emit(spec.MRoomJoinRules, strp(""), r.alice, `{"join_rule":"public"}`, r.au(r.create, p, r.aj))
	mm := r.aj
	for i := 1; i <= n; i++ {
		mm = m.emit(spec.MRoomMember, strp(r.alice), r.alice, fmt.Sprintf(`{"displayname":"a%d","membership":"join"}`, i), r.au(r.create, mm, p, jr))
		p = m.emit(spec.MRoomPowerLevels, strp(""), r.alice, r.pl(map[string]int{r.alice: 100}, fmt.Sprintf(`,"events":{"x%d":1}`, i)), r.au(r.create, mm, p))
	}
	fork := m.last
	t := m.emit("m.room.topic", strp(""), r.alice, `{"topic":"t"}`, r.au(r.create, mm, p))
	m.last = fork
	nm := m.emit("m.room.name", strp(""), r.alice, `{"name":"n"}`, r.au(r.create, mm, p))
	setX := []gmsl.PDU{r.create, mm, p, jr, t}
	setY := []gmsl.PDU{r.create, mm, p, jr, nm}
	in := srFinishInput(r.h, ver, [][]gmsl.PDU{setX, setY}, false)
	in.auth = append([]gmsl.PDU{}, r.h.evs...)
	return in
}

// F99: power-levels events that cite TWO or THREE earlier power-levels events (accepted by the
// parser and by Allowed). shape "chain": P(i) cites P(i-1), P(i-2) (, P(i-3)); "diamond": P1 and P2
// both cite P0, P3 cites both, and so on in layers. The newest one is in the unconflicted state;
// one name / topic conflict is resolved. first: the newest cited event comes first in auth_events.
func srDirectedPLMultiCite(rng *rand.Rand, ver string, k int, cites int, diamond bool, newestFirst bool) *srInput {
	r := srStartRoom(rng, ver, 1)
	m := r.m
	var pls []gmsl.PDU
	for i := 0; i < k; i++ {
		var cited []gmsl.PDU
		if diamond && i > 0 {
			// layers of two (P1 P2 | P3 P4 | ...): every member cites both members of the layer before
			layer := (i - 1) / 2
			if layer == 0 {
				cited = []gmsl.PDU{pls[0]}
			} else {
				cited = []gmsl.PDU{pls[2*(layer-1)+2], pls[2*(layer-1)+1]}
			}
		} else {
			for j := len(pls) - 1; j >= 0 && len(cited) < cites; j-- {
				cited = append(cited, pls[j])
			}
		}
		if !newestFirst {
			for a, b := 0, len(cited)-1; a < b; a, b = a+1, b-1 {
				cited[a], cited[b] = cited[b], cited[a]
			}
		}
		auth := append([]gmsl.PDU{r.create}, cited...)
		auth = append(auth, r.aj)
		pls = append(pls, m.emit(spec.MRoomPowerLevels, strp(""), r.alice,
			r.pl(map[string]int{r.alice: 100}, fmt.Sprintf(`,"events":{"x%d":1}`, i)), r.au(auth...)))
	}
	p := pls[len(pls)-1]
	jr := m.emit(spec.MRoomJoinRules, strp(""), r.alice, `{"join_rule":"public"}`, r.au(r.create, p, r.aj))
	fork := m.last
	// the conflicting events cite different power-levels events, so their mainline keys differ
	t := m.emit("m.room.topic", strp(""), r.alice, `{"topic":"t"}`, r.au(r.create, pls[len(pls)/2], r.aj))
	m.last = fork
	nm := m.emit("m.room.topic", strp(""), r.alice, `{"topic":"n"}`, r.au(r.create, p, r.aj))
	setX := []gmsl.PDU{r.create, r.aj, p, jr, t}
	setY := []gmsl.PDU{r.create, r.aj, p, jr, nm}
	in := srFinishInput(r.h, ver, [][]gmsl.PDU{setX, setY}, false)
	in.auth = append([]gmsl.PDU{}, r.h.evs...)
	return in
}

// seeded C10-7: within one resolution a join that has no join rules anywhere (neither in the
// partial state nor among its own auth events) comes after a join that took "public" from its own
// auth events; the default for the second is "invite", whatever the check before it saw. The
// join-rules key is conflicted between two events of a user without the power to send them, so the
// partial state has no join rules.
func srDirectedJoinWithoutRules(rng *rand.Rand, ver string) *srInput {
	r := srStartRoom(rng, ver, 4)
	m, u := r.m, r.h.users
	bob, carol, dave := u[1], u[2], u[3]
	pl := m.emit(spec.MRoomPowerLevels, strp(""), r.alice, r.pl(map[string]int{r.alice: 100}, ""), r.au(r.create, r.aj))
	bi := m.emit(spec.MRoomMember, strp(bob), r.alice, `{"membership":"invite"}`, r.au(r.create, pl, r.aj))
	bj := m.emit(spec.MRoomMember, strp(bob), bob, `{"membership":"join"}`, r.au(r.create, pl, bi))
	fork := m.last
	jrx := m.emit(spec.MRoomJoinRules, strp(""), bob, `{"join_rule":"public"}`, r.au(r.create, pl, bj))
	m.ts += 5
	cj := m.emit(spec.MRoomMember, strp(carol), carol, `{"membership":"join"}`, r.au(r.create, pl, jrx))
	m.ts += 5
	dj := m.emit(spec.MRoomMember, strp(dave), dave, `{"membership":"join"}`, r.au(r.create, pl))
	m.last = fork
	jry := m.emit(spec.MRoomJoinRules, strp(""), bob, `{"join_rule":"knock"}`, r.au(r.create, pl, bj))
	setX := []gmsl.PDU{r.create, r.aj, pl, bj, jrx, cj, dj}
	setY := []gmsl.PDU{r.create, r.aj, pl, bj, jry}
	in := srFinishInput(r.h, ver, [][]gmsl.PDU{setX, setY}, false)
	in.auth = append([]gmsl.PDU{}, r.h.evs...)
	return in
}

// the round-7 families through the current entry point (and the deprecated one) in a few orders
func srDirectedRound7Cases(c *Ctx) {
	var ins []*srInput
	var descs []string
	for _, ver := range []string{"2", "6", "11", "12"} {
		for n := 2; n <= 3; n++ {
			ins = append(ins, srDirectedV2PromoteChain(c.Rng, ver, n))
			descs = append(descs, fmt.Sprintf("directed v%s promote chain of %d: a power event both conflicted and in the auth difference", ver, n))
		}
	}
	for _, ver := range []string{"12", "org.matrix.hydra.11", "11"} {
		ins = append(ins, srDirectedV21Subgraph(c.Rng, ver))
		descs = append(descs, fmt.Sprintf("directed v%s history: unconflicted power levels inside the conflicted subgraph", ver))
	}
	ins = append(ins, srDirectedV21LongChain(c.Rng, "12", c.Scale(15, 24)))
	descs = append(descs, "directed v12 long chain: the number of auth paths is exponential")
	for _, ver := range []string{"10", "12"} {
		for _, nf := range []bool{true, false} {
			ins = append(ins, srDirectedPLMultiCite(c.Rng, ver, 26, 2, false, nf))
			descs = append(descs, fmt.Sprintf("directed v%s history: 26 power-levels events each citing the two before it (newest first=%v)", ver, nf))
		}
		ins = append(ins, srDirectedPLMultiCite(c.Rng, ver, 12, 3, false, true))
		descs = append(descs, fmt.Sprintf("directed v%s history: 12 power-levels events each citing the three before it", ver))
		ins = append(ins, srDirectedPLMultiCite(c.Rng, ver, 9, 2, true, true))
		descs = append(descs, fmt.Sprintf("directed v%s history: power-levels diamonds", ver))
	}
	for _, ver := range []string{"6", "10", "12"} {
		ins = append(ins, srDirectedJoinWithoutRules(c.Rng, ver))
		descs = append(descs, fmt.Sprintf("directed v%s history: a join without join rules anywhere after a join that had a public join rule", ver))
	}
	timedOut := false
	for i, in := range ins {
		if timedOut && strings.Contains(descs[i], "power-levels") {
			continue // the abandoned resolver calls are still burning CPU: one report is enough
		}
		cs := srParse(in.ver, in.evjson)
		c.Count("directed_round7")
		var table, otable []byte
		for p := 0; p < 2; p++ {
			psets, pauth := srRearranged(c.Rng, in)
			args := [][]byte{[]byte(in.ver), in.universe, srSetsStr(psets), srCSV(pauth), nil, table, in.evjson}
			table = srFillTable(cs, "C10.resolve_new", args, 5)
			args[5] = table
			out := c.Run("C10.resolve_new", args, "C10.resolve_new", "C10.prop.v2", descs[i]+fmt.Sprintf(" order %d", p))
			if bytes.HasPrefix(out, []byte("TIMEOUT")) {
				timedOut = true
				break
			}
			var all []gmsl.PDU
			for _, s := range psets {
				all = append(all, s...)
			}
			oargs := [][]byte{[]byte(in.ver), in.universe, srCSV(all), srCSV(pauth), nil, otable, in.evjson}
			otable = srFillTable(cs, "C10.resolve_old", oargs, 5)
			oargs[5] = otable
			c.Run("C10.resolve_old", oargs, "C10.resolve_old", "", descs[i]+fmt.Sprintf(" order %d", p))
		}
	}
}

// the directed v2 family through both entry points in a few orders
func srDirectedV2Cases(c *Ctx) {
	for _, ver := range []string{"2", "6", "10", "11", "12"} {
		for _, key := range []string{"pl", "jr"} {
			in := srDirectedV2Overwrite(c.Rng, ver, key)
			cs := srParse(in.ver, in.evjson)
			c.Count("directed_v2_overwrite")
			desc := fmt.Sprintf("directed v%s history: unconflicted %s key with another event of that key in the auth difference", ver, key)
			var table, otable []byte
			for p := 0; p < 3; p++ {
				psets, pauth := srRearranged(c.Rng, in)
				args := [][]byte{[]byte(in.ver), in.universe, srSetsStr(psets), srCSV(pauth), nil, table, in.evjson}
				table = srFillTable(cs, "C10.resolve_new", args, 5)
				args[5] = table
				c.Run("C10.resolve_new", args, "C10.resolve_new", "C10.prop.v2", desc+fmt.Sprintf(" order %d", p))
				var all []gmsl.PDU
				for _, s := range psets {
					all = append(all, s...)
				}
				oargs := [][]byte{[]byte(in.ver), in.universe, srCSV(all), srCSV(pauth), nil, otable, in.evjson}
				otable = srFillTable(cs, "C10.resolve_old", oargs, 5)
				oargs[5] = otable
				c.Run("C10.resolve_old", oargs, "C10.resolve_old", "", desc+fmt.Sprintf(" order %d", p))
			}
		}
	}
}

// srRearranged: the state sets in another order, their events in another order, the auth events
// in another order
func srRearranged(rng *rand.Rand, in *srInput) ([][]gmsl.PDU, []gmsl.PDU) {
	psets := make([][]gmsl.PDU, len(in.sets))
	for j, s := range in.sets {
		psets[j] = append([]gmsl.PDU{}, s...)
		rng.Shuffle(len(psets[j]), func(a, b int) { psets[j][a], psets[j][b] = psets[j][b], psets[j][a] })
	}
	rng.Shuffle(len(psets), func(a, b int) { psets[a], psets[b] = psets[b], psets[a] })
	pauth := append([]gmsl.PDU{}, in.auth...)
	rng.Shuffle(len(pauth), func(a, b int) { pauth[a], pauth[b] = pauth[b], pauth[a] })
	return psets, pauth
}

// the directed v1 family through both entry points, 16 orders each, judged by the r7 oracle
func srDirectedV1Cases(c *Ctx) {
	for j := 0; j < c.Scale(10, 80); j++ {
		in := srDirectedV1(c.Rng)
		if j%3 == 2 {
			in = srDirectedV1Admin(c.Rng)
		}
		cs := srParse(in.ver, in.evjson)
		c.Count("directed_v1_histories")
		desc := fmt.Sprintf("directed v1 history %d: %d events, interdependent conflicted member keys", j, len(in.h.evs))
		var table, otable []byte
		for p := 0; p < 16; p++ {
			psets, pauth := srRearranged(c.Rng, in)
			args := [][]byte{[]byte(in.ver), in.universe, srSetsStr(psets), srCSV(pauth), nil, table, in.evjson}
			table = srFillTable(cs, "C10.resolve_new", args, 5)
			args[5] = table
			c.Run("C10.resolve_new", args, "C10.resolve_new", "C10.prop.v1", desc+fmt.Sprintf(" order %d", p))
			var all []gmsl.PDU
			for _, s := range psets {
				all = append(all, s...)
			}
			oargs := [][]byte{[]byte(in.ver), in.universe, srCSV(all), srCSV(pauth), nil, otable, in.evjson}
			otable = srFillTable(cs, "C10.resolve_old", oargs, 5)
			oargs[5] = otable
			c.Run("C10.resolve_old", oargs, "C10.resolve_old", "C10.prop.v1_old", desc+fmt.Sprintf(" order %d", p))
		}
	}
}

func (in *srInput) resolveNewArgs() [][]byte {
	return [][]byte{[]byte(in.ver), in.universe, srSetsStr(in.sets), srCSV(in.auth),
		[]byte(strings.Join(in.rejected, ",")), nil, in.evjson}
}

func propC10(c *Ctx) {
	srSilence()
	srDirectedV1ChainCases(c)
	srDirectedV2Cases(c)
	srDirectedRound7Cases(c)
	srDirectedV1Cases(c)
	nh := c.Scale(160, 2500)
	for i := 0; i < nh; i++ {
		in := srGenInput(c, i, false)
		ver := in.ver
		cs := srParse(ver, in.evjson)
		algo := srAlgo(ver)
		if i%5 == 0 && algo != gmsl.StateResV1 && len(in.sets[0]) > 0 {
			// F80: an event named twice in every state set that has it
			e := in.sets[0][c.Rng.Intn(len(in.sets[0]))]
			for j := range in.sets {
				for _, x := range in.sets[j] {
					if x.EventID() == e.EventID() {
						in.sets[j] = append(in.sets[j], e)
						break
					}
				}
			}
			c.Count("sets_with_repeated_entries")
		}
		c.Count("version=" + ver)
		c.Count(fmt.Sprintf("sets=%d", len(in.sets)))
		desc := fmt.Sprintf("history %d: v%s, %d events, %d sets, %d auth", i, ver, len(in.h.evs), len(in.sets), len(in.auth))

		if i%4 == 0 {
			c.Run("C10.control", [][]byte{[]byte(ver), in.universe, in.evjson}, "C10.control", "", desc)
			c.Run("C10.needed", [][]byte{[]byte(ver), in.universe, in.evjson}, "C10.needed", "", desc)
		}
		c.Run("C10.split", [][]byte{[]byte(ver), in.universe, srSetsStr(in.sets), in.evjson}, "C10.split", "C10.prop.split", desc)
		if algo != gmsl.StateResV1 {
			c.Run("C10.authdiff_new", [][]byte{[]byte(ver), in.universe, srSetsStr(in.sets), srCSV(in.auth), in.evjson}, "C10.authdiff_new", "C10.prop.authdiff", desc)
		}

		// current entry point
		args := in.resolveNewArgs()
		args[5] = srFillTable(cs, "C10.resolve_new", args, 5)
		v1op, v1oldop := "C10.prop.v2", ""
		if algo == gmsl.StateResV1 {
			v1op, v1oldop = "C10.prop.v1", "C10.prop.v1_old"
		}
		out := c.Run("C10.resolve_new", args, "C10.resolve_new", v1op, desc)
		c.Count(fmt.Sprintf("result_size<=%d", (len(strings.Split(string(out), ","))/5+1)*5))
		c.Count(fmt.Sprintf("table_rows<=%d", (bytes.Count(args[5], []byte("\n"))/10+1)*10))

		// deprecated entry point: all state events in one list
		var all []gmsl.PDU
		for _, s := range in.sets {
			all = append(all, s...)
		}
		oargs := [][]byte{[]byte(ver), in.universe, srCSV(all), srCSV(in.auth), []byte(strings.Join(in.rejected, ",")), nil, in.evjson}
		oargs[5] = srFillTable(cs, "C10.resolve_old", oargs, 5)
		c.Run("C10.resolve_old", oargs, "C10.resolve_old", v1oldop, desc)

		// end to end: the auth rules are the Coq auth model, no verdict table
		ej := srEJSON(in.h.evs)
		c.Run("C10.resolve_new_e2e", [][]byte{args[0], args[1], args[2], args[3], args[4], ej, in.evjson}, "C10.resolve_new_e2e", "", desc)
		c.Run("C10.resolve_old_e2e", [][]byte{oargs[0], oargs[1], oargs[2], oargs[3], oargs[4], ej, in.evjson}, "C10.resolve_old_e2e", "", desc)
		// and the auth model against the real rules on exactly the queries resolution made
		c.Run("C10.allowed_rows", [][]byte{args[0], args[1], args[5], ej, in.evjson}, "C10.allowed_rows", "", desc+" (rows of the verdict table, current entry point)")
		c.Run("C10.allowed_rows", [][]byte{args[0], args[1], oargs[5], ej, in.evjson}, "C10.allowed_rows", "", desc+" (rows of the verdict table, deprecated entry point)")

		if algo != gmsl.StateResV1 {
			// the stages, on the lists the model's driver hands them
			st := strings.Split(string(srModelStart().call("C10.stages", args)), ";")
			if len(st) == 4 {
				c.Run("C10.power_order", [][]byte{[]byte(ver), in.universe, []byte(st[0]), srCSV(in.auth), []byte(st[3]), in.evjson}, "C10.power_order", "C10.prop.power_order", desc+" control events")
				c.Run("C10.mainline_order", [][]byte{[]byte(ver), in.universe, []byte(st[1]), srCSV(in.auth), []byte(st[2]), in.evjson}, "C10.mainline_order", "C10.prop.mainline_order", desc+" other events")
				if st[0] != "" {
					c.Count("control_nonempty")
				}
				if st[1] != "" {
					c.Count("others_nonempty")
				}
				if strings.Count(st[0], ",")+1 != len(uniqueStrings(strings.Split(st[0], ","))) {
					c.Count("control_has_duplicates")
				}
			}
			// deprecated auth difference on the deprecated split
			dc, du := srOldSplit(all)
			if i%2 == 0 {
				// F79: the deprecated driver called directly, conflicted and unconflicted two parts of one list
				dargs := [][]byte{[]byte(ver), in.universe, srCSV(dc), srCSV(du), srCSV(in.auth), []byte(strings.Join(in.rejected, ",")), nil, in.evjson}
				dargs[6] = srFillTable(cs, "C10.resolve_v2_direct", dargs, 6)
				c.Run("C10.resolve_v2_direct", dargs, "C10.resolve_v2_direct", "C10.prop.direct_kept", desc+" deprecated driver called directly")
			}
			c.Run("C10.authdiff_old", [][]byte{[]byte(ver), in.universe, srCSV(dc), srCSV(in.auth), in.evjson}, "C10.authdiff_old", "", desc)
			// random sublists through both orderings
			sub := srSubList(c.Rng, in.h.evs, i%3 == 0)
			create := ""
			if c.Rng.Intn(2) == 0 {
				create = in.h.evs[0].EventID()
			}
			c.Run("C10.power_order", [][]byte{[]byte(ver), in.universe, srCSV(sub), srCSV(in.auth), []byte(create), in.evjson}, "C10.power_order", "C10.prop.power_order", desc+" random sublist")
			pl := ""
			for _, e := range in.h.evs {
				if e.Type() == spec.MRoomPowerLevels && c.Rng.Intn(3) == 0 {
					pl = e.EventID()
				}
			}
			c.Run("C10.mainline_order", [][]byte{[]byte(ver), in.universe, srCSV(sub), srCSV(in.auth), []byte(pl), in.evjson}, "C10.mainline_order", "C10.prop.mainline_order", desc+" random sublist")
		}
	}
}

func uniqueStrings(l []string) []string {
	m := map[string]bool{}
	var out []string
	for _, s := range l {
		if !m[s] {
			m[s] = true
			out = append(out, s)
		}
	}
	return out
}

// the split of the deprecated entry point (test-side: only to produce inputs for the
// deprecated auth difference)
func srOldSplit(events []gmsl.PDU) (conflicted, unconflicted []gmsl.PDU) {
	seen := map[string]bool{}
	groups := map[[2]string][]gmsl.PDU{}
	var order [][2]string
	for _, e := range events {
		if seen[e.EventID()] || e.StateKey() == nil {
			continue
		}
		seen[e.EventID()] = true
		k := [2]string{e.Type(), *e.StateKey()}
		if _, ok := groups[k]; !ok {
			order = append(order, k)
		}
		groups[k] = append(groups[k], e)
	}
	for _, k := range order {
		if len(groups[k]) > 1 {
			conflicted = append(conflicted, groups[k]...)
		} else {
			unconflicted = append(unconflicted, groups[k]...)
		}
	}
	return
}

func srSubList(rng *rand.Rand, evs []gmsl.PDU, dups bool) []gmsl.PDU {
	var sub []gmsl.PDU
	p := 30 + rng.Intn(70)
	for _, e := range evs {
		if rng.Intn(100) < p {
			sub = append(sub, e)
		}
	}
	if dups && len(sub) > 0 {
		for k := 0; k < 1+rng.Intn(2); k++ {
			sub = append(sub, sub[rng.Intn(len(sub))])
		}
	}
	rng.Shuffle(len(sub), func(a, b int) { sub[a], sub[b] = sub[b], sub[a] })
	return sub
}
