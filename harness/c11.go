package main

// C11: state resolution is order-independent and yields well-formed state; every ordering the
// library returns for an acyclic event set is a topological permutation. Uses the history
// generator, projections and implementation plumbing of c10.go.

import (
	"fmt"
	"math/rand"
	"strings"

	gmsl "github.com/matrix-org/gomatrixserverlib"
	"github.com/matrix-org/gomatrixserverlib/fclient"
)

func srShuffled(rng *rand.Rand, l []gmsl.PDU) []gmsl.PDU {
	out := append([]gmsl.PDU{}, l...)
	rng.Shuffle(len(out), func(a, b int) { out[a], out[b] = out[b], out[a] })
	return out
}

// repeat runs f n times; all runs must give the same observable
func srRepeat(n int, f func() []byte) []byte {
	first := f()
	for i := 1; i < n; i++ {
		if again := f(); string(again) != string(first) {
			return []byte(fmt.Sprintf("NONDETERMINISTIC run1=%s run%d=%s", first, i+1, again))
		}
	}
	return first
}

func init() {
	wrap := func(f func(ver string, c *srCase, a [][]byte) []byte) ImplFn {
		return func(args [][]byte) ([][]byte, []byte) {
			srSilence()
			ver := string(args[0])
			c := srParse(ver, args[len(args)-1])
			args[1] = srUniverse(c.evs)
			return args, f(ver, c, args)
		}
	}
	// [ver; universe; list; which; evjson]
	RegisterImpl("C11.order", wrap(func(ver string, c *srCase, a [][]byte) []byte {
		return srRepeat(3, func() []byte {
			in := c.list(a[2])
			switch string(a[3]) {
			case "auth":
				return srCSV(gmsl.ReverseTopologicalOrdering(in, gmsl.TopologicalOrderByAuthEvents))
			case "prev":
				return srCSV(gmsl.ReverseTopologicalOrdering(in, gmsl.TopologicalOrderByPrevEvents))
			case "hauth":
				return srCSV(gmsl.HeaderedReverseTopologicalOrdering(in, gmsl.TopologicalOrderByAuthEvents))
			default:
				return srCSV(gmsl.HeaderedReverseTopologicalOrdering(in, gmsl.TopologicalOrderByPrevEvents))
			}
		})
	}))
	// [ver; universe; auth list; state list; evjson]
	RegisterImpl("C11.linearise", wrap(func(ver string, c *srCase, a [][]byte) []byte {
		js := func(l []gmsl.PDU) gmsl.EventJSONs {
			out := make(gmsl.EventJSONs, len(l))
			for i, e := range l {
				out[i] = e.JSON()
			}
			return out
		}
		resp := &fclient.RespState{AuthEvents: js(c.list(a[2])), StateEvents: js(c.list(a[3]))}
		return srRepeat(3, func() []byte {
			return srCSV(gmsl.LineariseStateResponse(gmsl.RoomVersion(ver), resp))
		})
	}))
	// [ver; universe; sets; auth; rejected; table; base sets; base auth; evjson]
	RegisterImpl("C11.resolve_perm", wrap(func(ver string, c *srCase, a [][]byte) []byte {
		return srRepeat(3, func() []byte {
			return srResult(gmsl.ResolveConflictsNew(gmsl.RoomVersion(ver), c.sets(a[2]), c.list(a[3]), srUserIDForSender, srRejectedFn(a[4])))
		})
	}))
	RegisterImpl("C11.resolve_old_perm", wrap(func(ver string, c *srCase, a [][]byte) []byte {
		return srRepeat(3, func() []byte {
			return srResult(gmsl.ResolveConflicts(gmsl.RoomVersion(ver), c.list(a[2]), c.list(a[3]), srUserIDForSender, srRejectedFn(a[4])))
		})
	}))
	// [ver; universe; sets; auth; rejected; ejson; base sets; base auth; evjson]
	RegisterImpl("C11.resolve_perm_e2e", wrap(func(ver string, c *srCase, a [][]byte) []byte {
		a[5] = srEJSON(c.evs)
		return srRepeat(2, func() []byte {
			return srResult(gmsl.ResolveConflictsNew(gmsl.RoomVersion(ver), c.sets(a[2]), c.list(a[3]), srUserIDForSender, srRejectedFn(a[4])))
		})
	}))
	RegisterProp("C11", propC11)
}

// auth events rearranged, some listed more than once
func srPermAuth(rng *rand.Rand, auth []gmsl.PDU) []gmsl.PDU {
	out := srShuffled(rng, auth)
	if len(out) > 0 && rng.Intn(2) == 0 {
		for k := 0; k < 1+rng.Intn(3); k++ {
			out = append(out, out[rng.Intn(len(out))])
		}
		out = srShuffled(rng, out)
	}
	return out
}

// the directed v1 family (interdependent conflicted member keys): 16 rearrangements each, every
// one resolved repeatedly, all against the model on the base input
func srDirectedV1Perms(c *Ctx) {
	for j := 0; j < c.Scale(12, 60); j++ {
		in := srDirectedV1(c.Rng)
		if j%2 == 1 {
			in = srDirectedV1Admin(c.Rng)
		}
		cs := srParse(in.ver, in.evjson)
		c.Count("directed_v1_histories")
		desc := fmt.Sprintf("directed v1 history %d: %d events, interdependent conflicted member keys", j, len(in.h.evs))
		base := [][]byte{[]byte(in.ver), in.universe, srSetsStr(in.sets), srCSV(in.auth), nil, nil, in.evjson}
		table := srFillTable(cs, "C10.resolve_new", base, 5)
		var ball []gmsl.PDU
		for _, s := range in.sets {
			ball = append(ball, s...)
		}
		obase := [][]byte{[]byte(in.ver), in.universe, srCSV(ball), srCSV(in.auth), nil, nil, in.evjson}
		otable := srFillTable(cs, "C10.resolve_old", obase, 5)
		for p := 0; p < 16; p++ {
			psets, pauth := srRearranged(c.Rng, in)
			args := [][]byte{[]byte(in.ver), in.universe, srSetsStr(psets), srCSV(pauth), nil, table, in.evjson}
			table = srFillTable(cs, "C10.resolve_new", args, 5)
			c.Run("C11.resolve_perm", [][]byte{[]byte(in.ver), in.universe, srSetsStr(psets), srCSV(pauth), nil, table, base[2], base[3], in.evjson},
				"C11.resolve_perm", "C11.prop.perm", desc+fmt.Sprintf(" rearrangement %d", p))
			var pall []gmsl.PDU
			for _, s := range psets {
				pall = append(pall, s...)
			}
			oargs := [][]byte{[]byte(in.ver), in.universe, srCSV(pall), srCSV(pauth), nil, otable, in.evjson}
			otable = srFillTable(cs, "C10.resolve_old", oargs, 5)
			c.Run("C11.resolve_old_perm", [][]byte{[]byte(in.ver), in.universe, srCSV(pall), srCSV(pauth), nil, otable, obase[2], obase[3], in.evjson},
				"C11.resolve_old_perm", "C11.prop.old_perm", desc+fmt.Sprintf(" rearrangement %d", p))
		}
	}
}

func propC11(c *Ctx) {
	srSilence()
	srDirectedV1Perms(c)
	rng := c.Rng
	nh := c.Scale(70, 280)
	k := c.Scale(8, 64)
	for i := 0; i < nh; i++ {
		in := srGenInput(c, i, true)
		ver := in.ver
		cs := srParse(ver, in.evjson)
		c.Count("version=" + ver)
		desc := fmt.Sprintf("history %d: v%s, %d events, %d sets, %d auth", i, ver, len(in.h.evs), len(in.sets), len(in.auth))
		rej := []byte(strings.Join(in.rejected, ","))

		// ---- orderings: duplicate-free sublists in random presentation orders, and with repeats
		for r := 0; r < 3; r++ {
			sub := srSubList(rng, in.h.evs, r == 2)
			which := []string{"auth", "prev", "hauth", "hprev"}[rng.Intn(4)]
			if r == 2 {
				c.Count("ordering_input_with_repeats")
			}
			c.Run("C11.order", [][]byte{[]byte(ver), in.universe, srCSV(sub), []byte(which), in.evjson}, "C11.order", "C11.prop.topo", desc+" ordering "+which)
			// the same set in another presentation order must give the same order
			c.Run("C11.order", [][]byte{[]byte(ver), in.universe, srCSV(srShuffled(rng, sub)), []byte(which), in.evjson}, "C11.order", "C11.prop.topo", desc+" ordering "+which+" reshuffled")
		}
		// whole history (a connected DAG) in both orders
		c.Run("C11.order", [][]byte{[]byte(ver), in.universe, srCSV(srShuffled(rng, in.h.evs)), []byte("prev"), in.evjson}, "C11.order", "C11.prop.topo", desc+" whole history by prev")
		c.Run("C11.order", [][]byte{[]byte(ver), in.universe, srCSV(srShuffled(rng, in.h.evs)), []byte("auth"), in.evjson}, "C11.order", "C11.prop.topo", desc+" whole history by auth")

		// ---- LineariseStateResponse on a state set and its auth chain (events that untrusted
		// parsing keeps; both lists may share events)
		var keep []gmsl.PDU
		for _, e := range in.h.evs {
			if len(gmsl.EventJSONs{e.JSON()}.UntrustedEvents(in.h.ver)) == 1 {
				keep = append(keep, e)
			}
		}
		keepSet := map[string]bool{}
		for _, e := range keep {
			keepSet[e.EventID()] = true
		}
		filter := func(l []gmsl.PDU) []gmsl.PDU {
			var out []gmsl.PDU
			for _, e := range l {
				if keepSet[e.EventID()] {
					out = append(out, e)
				}
			}
			return out
		}
		st := filter(in.sets[rng.Intn(len(in.sets))])
		au := filter(in.h.authChain(st))
		if rng.Intn(3) == 0 && len(st) > 0 {
			au = append(au, st[rng.Intn(len(st))])
		}
		c.Run("C11.linearise", [][]byte{[]byte(ver), in.universe, srCSV(srShuffled(rng, au)), srCSV(srShuffled(rng, st)), in.evjson}, "C11.linearise", "C11.prop.linearise", desc)

		// ---- resolution: base input, then k rearrangements
		base := [][]byte{[]byte(ver), in.universe, srSetsStr(in.sets), srCSV(in.auth), rej, nil, in.evjson}
		table := srFillTable(cs, "C10.resolve_new", base, 5)
		var all []gmsl.PDU
		for _, s := range in.sets {
			all = append(all, s...)
		}
		obase := [][]byte{[]byte(ver), in.universe, srCSV(all), srCSV(in.auth), rej, nil, in.evjson}
		otable := srFillTable(cs, "C10.resolve_old", obase, 5)
		for p := 0; p < k; p++ {
			psets := make([][]gmsl.PDU, len(in.sets))
			for j, s := range in.sets {
				psets[j] = srShuffled(rng, s)
			}
			rng.Shuffle(len(psets), func(a, b int) { psets[a], psets[b] = psets[b], psets[a] })
			pauth := srPermAuth(rng, in.auth)
			if p == 0 { // the base input itself
				psets, pauth = in.sets, in.auth
			}
			if p%4 == 3 && len(psets[0]) > 0 {
				// F80: a state set is a map - naming an event twice in the lists changes nothing
				e := psets[0][rng.Intn(len(psets[0]))]
				for j := range psets {
					for _, x := range psets[j] {
						if x.EventID() == e.EventID() {
							psets[j] = append(append([]gmsl.PDU{}, psets[j]...), e)
							break
						}
					}
				}
			}
			args := [][]byte{[]byte(ver), in.universe, srSetsStr(psets), srCSV(pauth), rej, table, in.evjson}
			table = srFillTable(cs, "C10.resolve_new", args, 5)
			c.Run("C11.resolve_perm", [][]byte{[]byte(ver), in.universe, srSetsStr(psets), srCSV(pauth), rej, table, base[2], base[3], in.evjson},
				"C11.resolve_perm", "C11.prop.perm", desc+fmt.Sprintf(" rearrangement %d", p))

			if p == 1 || p == 2 { // two rearrangements also through the end-to-end model
				c.Run("C11.resolve_perm_e2e", [][]byte{[]byte(ver), in.universe, srSetsStr(psets), srCSV(pauth), rej, srEJSON(in.h.evs), base[2], base[3], in.evjson},
					"C11.resolve_perm_e2e", "C11.prop.perm_e2e", desc+fmt.Sprintf(" rearrangement %d, end to end", p))
			}

			pall := srShuffled(rng, all)
			if p == 0 {
				pall = all
			}
			oargs := [][]byte{[]byte(ver), in.universe, srCSV(pall), srCSV(pauth), rej, otable, in.evjson}
			otable = srFillTable(cs, "C10.resolve_old", oargs, 5)
			c.Run("C11.resolve_old_perm", [][]byte{[]byte(ver), in.universe, srCSV(pall), srCSV(pauth), rej, otable, obase[2], obase[3], in.evjson},
				"C11.resolve_old_perm", "C11.prop.old_perm", desc+fmt.Sprintf(" rearrangement %d", p))
		}
	}
}
