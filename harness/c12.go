package main

// C12 — KeyRing.VerifyJSONs with scripted KeyDatabase / KeyFetcher implementations, real ed25519
// keys and signatures. The model is told which (message, key id, public key) triples verify (the
// generator knows which private key produced every signature it placed); signature bytes are
// never compared. The library reads the clock itself: the implementation function stamps the
// instant it observed into the scenario ("now", ns) and every timestamp boundary that depends on
// the clock is placed at least one hour (or, in the dedicated class, five seconds) away from it.

import (
	"context"
	"crypto/ed25519"
	"encoding/base64"
	"encoding/hex"
	"encoding/json"
	"errors"
	"fmt"
	"regexp"
	"sort"
	"strconv"
	"strings"
	"time"

	gmsl "github.com/matrix-org/gomatrixserverlib"
	"github.com/matrix-org/gomatrixserverlib/spec"
)

// ---------- key universe ----------
type c12KeyPair struct {
	pub  ed25519.PublicKey
	priv ed25519.PrivateKey
	hex  string
}

var c12Keys = func() []c12KeyPair {
	var r []c12KeyPair
	for i := 0; i < 5; i++ {
		seed := make([]byte, 32)
		for j := range seed {
			seed[j] = byte(17*i + j + 1)
		}
		priv := ed25519.NewKeyFromSeed(seed)
		pub := priv.Public().(ed25519.PublicKey)
		r = append(r, c12KeyPair{pub, priv, hex.EncodeToString(pub)})
	}
	return r
}()

// ---------- scenario ----------
type c12Key struct {
	Server, Kid, Key string
	Exp, VU          uint64
}

type c12Script struct {
	Err  bool // FetchKeys fails
	SErr bool // StoreKeys fails (database only)
	All  bool // answer with everything held, asked for or not
	Keys []c12Key
}

type c12Req struct {
	Server string
	At     uint64
	Strict bool
}

type c12Sig struct {
	I   int
	Kid string
	Key string
}

type c12Scenario struct {
	Poison   []int // messages with an undecodable signature entry
	Now      int64
	Reqs     []c12Req
	Sig      []c12Sig
	DB       c12Script
	Fetchers []c12Script
}

func c12KeysJSON(ks []c12Key) string {
	var p []string
	for _, k := range ks {
		p = append(p, fmt.Sprintf(`["%s","%s","%s",%d,%d]`, k.Server, k.Kid, k.Key, k.Exp, k.VU))
	}
	return "[" + strings.Join(p, ",") + "]"
}

func (s *c12Scenario) JSON() []byte {
	var b strings.Builder
	fmt.Fprintf(&b, `{"now":%d,"reqs":[`, s.Now)
	for i, r := range s.Reqs {
		if i > 0 {
			b.WriteString(",")
		}
		fmt.Fprintf(&b, `{"s":"%s","at":%d,"strict":%v}`, r.Server, r.At, r.Strict)
	}
	b.WriteString(`],"poison":[`)
	for i, p := range s.Poison {
		if i > 0 {
			b.WriteString(",")
		}
		fmt.Fprintf(&b, "%d", p)
	}
	b.WriteString(`],"sig":[`)
	for i, g := range s.Sig {
		if i > 0 {
			b.WriteString(",")
		}
		fmt.Fprintf(&b, `[%d,"%s","%s"]`, g.I, g.Kid, g.Key)
	}
	fmt.Fprintf(&b, `],"db":{"ferr":%v,"serr":%v,"all":%v,"keys":%s},"fetchers":[`, s.DB.Err, s.DB.SErr, s.DB.All, c12KeysJSON(s.DB.Keys))
	for i, f := range s.Fetchers {
		if i > 0 {
			b.WriteString(",")
		}
		fmt.Fprintf(&b, `{"err":%v,"all":%v,"keys":%s}`, f.Err, f.All, c12KeysJSON(f.Keys))
	}
	b.WriteString("]}")
	return []byte(b.String())
}

type c12ScenarioJSON struct {
	Now  int64 `json:"now"`
	Reqs []struct {
		S      string `json:"s"`
		At     uint64 `json:"at"`
		Strict bool   `json:"strict"`
	} `json:"reqs"`
	DB struct {
		Ferr bool                `json:"ferr"`
		Serr bool                `json:"serr"`
		All  bool                `json:"all"`
		Keys [][]json.RawMessage `json:"keys"`
	} `json:"db"`
	Fetchers []struct {
		Err  bool                `json:"err"`
		All  bool                `json:"all"`
		Keys [][]json.RawMessage `json:"keys"`
	} `json:"fetchers"`
}

type c12LookupMap map[gmsl.PublicKeyLookupRequest]gmsl.PublicKeyLookupResult

func c12ParseKeys(rows [][]json.RawMessage) c12LookupMap {
	m := c12LookupMap{}
	for _, row := range rows {
		var s, k, key string
		var e, v uint64
		_ = json.Unmarshal(row[0], &s)
		_ = json.Unmarshal(row[1], &k)
		_ = json.Unmarshal(row[2], &key)
		_ = json.Unmarshal(row[3], &e)
		_ = json.Unmarshal(row[4], &v)
		raw, _ := hex.DecodeString(key)
		m[gmsl.PublicKeyLookupRequest{ServerName: spec.ServerName(s), KeyID: gmsl.KeyID(k)}] = gmsl.PublicKeyLookupResult{
			VerifyKey: gmsl.VerifyKey{Key: spec.Base64Bytes(raw)}, ExpiredTS: spec.Timestamp(e), ValidUntilTS: spec.Timestamp(v)}
	}
	return m
}

// ---------- scripted database / fetcher ----------
type c12Scripted struct {
	name   string
	err    bool
	serr   bool
	all    bool
	keys   c12LookupMap
	asked  *[]string // one JSON text per FetchKeys call, in call order (shared by all fetchers)
	idx    int       // -1 = database
	dbcall *string
	stored *string
}

func c12AskedJSON(reqs map[gmsl.PublicKeyLookupRequest]spec.Timestamp) string {
	type row struct {
		s, k string
		ts   uint64
	}
	var rows []row
	for r, ts := range reqs {
		rows = append(rows, row{string(r.ServerName), string(r.KeyID), uint64(ts)})
	}
	sort.Slice(rows, func(i, j int) bool {
		if rows[i].s != rows[j].s {
			return rows[i].s < rows[j].s
		}
		return rows[i].k < rows[j].k
	})
	var p []string
	for _, r := range rows {
		p = append(p, fmt.Sprintf(`["%s","%s",%d]`, r.s, r.k, r.ts))
	}
	return "[" + strings.Join(p, ",") + "]"
}

func c12StoredJSON(m map[gmsl.PublicKeyLookupRequest]gmsl.PublicKeyLookupResult) string {
	type row struct {
		s, k, key string
		e, v      uint64
	}
	var rows []row
	for r, x := range m {
		rows = append(rows, row{string(r.ServerName), string(r.KeyID), hex.EncodeToString(x.Key), uint64(x.ExpiredTS), uint64(x.ValidUntilTS)})
	}
	sort.Slice(rows, func(i, j int) bool {
		if rows[i].s != rows[j].s {
			return rows[i].s < rows[j].s
		}
		return rows[i].k < rows[j].k
	})
	var p []string
	for _, r := range rows {
		p = append(p, fmt.Sprintf(`["%s","%s","%s",%d,%d]`, r.s, r.k, r.key, r.e, r.v))
	}
	return "[" + strings.Join(p, ",") + "]"
}

func (f *c12Scripted) FetcherName() string { return f.name }

func (f *c12Scripted) FetchKeys(_ context.Context, reqs map[gmsl.PublicKeyLookupRequest]spec.Timestamp) (map[gmsl.PublicKeyLookupRequest]gmsl.PublicKeyLookupResult, error) {
	a := c12AskedJSON(reqs)
	if f.idx < 0 {
		*f.dbcall = a
	} else {
		*f.asked = append(*f.asked, fmt.Sprintf("[%d,%s]", f.idx, a))
	}
	if f.err {
		return nil, errors.New("scripted failure")
	}
	out := map[gmsl.PublicKeyLookupRequest]gmsl.PublicKeyLookupResult{}
	for k, v := range f.keys {
		if _, ok := reqs[k]; ok || f.all {
			out[k] = v
		}
	}
	return out, nil
}

func (f *c12Scripted) StoreKeys(_ context.Context, m map[gmsl.PublicKeyLookupRequest]gmsl.PublicKeyLookupResult) error {
	*f.stored = c12StoredJSON(m)
	if f.serr {
		return errors.New("scripted store failure")
	}
	return nil
}

var c12NowRe = regexp.MustCompile(`^\{"now":-?\d+`)

func c12Stamp(cfg []byte, now time.Time) []byte {
	return c12NowRe.ReplaceAll(cfg, []byte(fmt.Sprintf(`{"now":%d`, now.UnixNano())))
}

var c12RelRe = regexp.MustCompile(`"?@\{([+-]\d+)\}"?`)

// A scenario template may hold timestamps written "@{+k}": the millisecond clock plus k. They are
// made absolute here, and the run only counts if the clock stayed inside that millisecond (then
// the library's own readings fall in it too and every ms comparison against now is decided).
func c12RunVerify(args [][]byte) ([][]byte, []byte) {
	if !c12RelRe.Match(args[0]) {
		return c12RunVerifyAbs(args, time.Time{})
	}
	for try := 0; ; try++ {
		t0 := time.Now()
		ms := t0.UnixMilli()
		if t0.Nanosecond()%1000000 > 600000 && try < 1000 { // start early in a millisecond
			continue
		}
		abs := append([][]byte{}, args...)
		abs[0] = c12RelRe.ReplaceAllFunc(args[0], func(m []byte) []byte {
			k, _ := strconv.ParseInt(string(c12RelRe.FindSubmatch(m)[1]), 10, 64)
			return []byte(strconv.FormatInt(ms+k, 10))
		})
		final, out := c12RunVerifyAbs(abs, t0)
		if time.Now().UnixMilli() == ms || try > 2000 {
			return final, out
		}
	}
}

func c12RunVerifyAbs(args [][]byte, at time.Time) ([][]byte, []byte) {
	var sc c12ScenarioJSON
	if err := json.Unmarshal(args[0], &sc); err != nil {
		return args, B("badconfig")
	}
	var asked []string
	dbcall, stored := "null", "null"
	db := &c12Scripted{name: "db", err: sc.DB.Ferr, serr: sc.DB.Serr, all: sc.DB.All, keys: c12ParseKeys(sc.DB.Keys), idx: -1, dbcall: &dbcall, stored: &stored}
	ring := gmsl.KeyRing{KeyDatabase: db}
	for i, f := range sc.Fetchers {
		ring.KeyFetchers = append(ring.KeyFetchers, &c12Scripted{name: fmt.Sprintf("f%d", i), err: f.Err, all: f.All, keys: c12ParseKeys(f.Keys), idx: i, asked: &asked})
	}
	var reqs []gmsl.VerifyJSONRequest
	for i, r := range sc.Reqs {
		if 1+i >= len(args) {
			break
		}
		q := gmsl.VerifyJSONRequest{ServerName: spec.ServerName(r.S), AtTS: spec.Timestamp(r.At), Message: args[1+i], ValidityCheckingFunc: gmsl.NoStrictValidityCheck}
		if r.Strict {
			q.ValidityCheckingFunc = gmsl.StrictValiditySignatureCheck
		}
		reqs = append(reqs, q)
	}
	final := append([][]byte{}, args...)
	now := time.Now()
	if !at.IsZero() {
		now = at
	}
	final[0] = c12Stamp(args[0], now)
	res, err := ring.VerifyJSONs(context.Background(), reqs)
	R := ""
	if err != nil {
		R = "E"
	} else {
		for _, r := range res {
			if r.Error == nil {
				R += "1"
			} else {
				R += "0"
			}
		}
	}
	return final, B(fmt.Sprintf(`{"R":"%s","D":%s,"F":[%s],"S":%s}`, R, dbcall, strings.Join(asked, ","), stored))
}

// ---------- messages ----------
const (
	c12Good     = iota // signature by key KeyIdx over the content
	c12Tampered        // signature by key KeyIdx over other content
	c12BadLen          // 63 bytes
	c12NonStr          // a number where the base64 text belongs: poisons every signature of the message
)

type c12SigSpec struct {
	Server string
	Kid    string
	Kind   int
	KeyIdx int
}

// c12Message builds {"n":<n>,"origin":"o","signatures":{...}[,"unsigned":{...}]} and returns the
// (server, kid, key hex) triples whose signature verifies.
func c12Message(n int, sigs []c12SigSpec, unsigned bool) ([]byte, []c12SigSpec) {
	msg, valid, _ := c12MessageP(n, sigs, unsigned)
	return msg, valid
}

// c12MessageP also says whether the message is poisoned: some signature entry does not decode. The
// triples returned verify when looked at on their own; whether an undecodable entry elsewhere in
// "signatures" spoils them depends on the source tree (the model knows which, Gen/GenC12.v).
func c12MessageP(n int, sigs []c12SigSpec, unsigned bool) ([]byte, []c12SigSpec, bool) {
	content := fmt.Sprintf(`{"n":%d,"origin":"o"}`, n)
	other := fmt.Sprintf(`{"n":%d,"origin":"o"}`, n+1)
	byServer := map[string][]string{}
	var order []string
	poisoned := false
	var valid []c12SigSpec
	for _, s := range sigs {
		var v string
		switch s.Kind {
		case c12Good:
			v = `"` + base64.RawStdEncoding.EncodeToString(ed25519.Sign(c12Keys[s.KeyIdx].priv, []byte(content))) + `"`
			valid = append(valid, s)
		case c12Tampered:
			v = `"` + base64.RawStdEncoding.EncodeToString(ed25519.Sign(c12Keys[s.KeyIdx].priv, []byte(other))) + `"`
		case c12BadLen:
			v = `"` + base64.RawStdEncoding.EncodeToString(ed25519.Sign(c12Keys[s.KeyIdx].priv, []byte(content))[:63]) + `"`
		case c12NonStr:
			v = `12`
			poisoned = true
		}
		if _, ok := byServer[s.Server]; !ok {
			order = append(order, s.Server)
		}
		byServer[s.Server] = append(byServer[s.Server], fmt.Sprintf(`"%s":%s`, s.Kid, v))
	}
	var parts []string
	for _, srv := range order {
		parts = append(parts, fmt.Sprintf(`"%s":{%s}`, srv, strings.Join(byServer[srv], ",")))
	}
	msg := fmt.Sprintf(`{"n":%d,"origin":"o","signatures":{%s}`, n, strings.Join(parts, ","))
	if unsigned {
		msg += `,"unsigned":{"age":5}`
	}
	msg += "}"
	return []byte(msg), valid, poisoned
}

var c12Servers = []string{"srvA", "srvB", "srvC"}
var c12Kids = []string{"ed25519:a", "ed25519:b", "ed25519:c", "ed25519:", "rsa:1", "ed25519", "Ed25519:a", "xed25519:a"}

const c12Hour = uint64(3600 * 1000)
const c12Day = 24 * c12Hour

type c12Gen struct {
	c    *Ctx
	base time.Time // generation-time clock; every clock-relative boundary is >= 1 h from it
}

func (g *c12Gen) nowMs() uint64 { return uint64(g.base.UnixMilli()) }

// a record for (server,kid) in one of the named states, holding key keyIdx
func (g *c12Gen) record(server, kid string, state string, keyIdx int, at uint64) c12Key {
	now := g.nowMs()
	k := c12Key{Server: server, Kid: kid, Key: c12Keys[keyIdx].hex}
	switch state {
	case "current": // valid_until well after now and after at
		k.VU = now + 2*c12Day
	case "current-far": // valid_until beyond now + 7 d
		k.VU = now + 30*c12Day
	case "current-short": // inside validity but at may be beyond it
		k.VU = now + c12Hour
	case "stale": // valid_until in the past
		k.VU = now - c12Hour
	case "stale-old":
		k.VU = now - 30*c12Day
	case "vu-at": // valid_until exactly at
		k.VU = at
	case "vu-at-1":
		k.VU = at - 1
	case "vu-at+1":
		k.VU = at + 1
	case "novalidity": // neither expired nor valid
		k.VU = 0
	case "expired-before": // expired strictly before at
		k.Exp = at - 1
	case "expired-at":
		k.Exp = at
	case "expired-after":
		k.Exp = at + 1
	case "expired-with-vu": // expired_ts wins over valid_until_ts
		k.Exp = at + 1
		k.VU = 0
	case "expired-past-vu":
		k.Exp = at - 1
		k.VU = now + 2*c12Day
	case "vu-above-int64": // unsigned: far in the future; as a time.Time: before the epoch
		k.VU = 1<<63 + 1000
	case "expired-above-int64":
		k.Exp = 1<<63 + 1000
	}
	return k
}

var c12States = []string{"current", "current-far", "current-short", "stale", "stale-old", "vu-at", "vu-at-1", "vu-at+1",
	"novalidity", "expired-before", "expired-at", "expired-after", "expired-with-vu", "expired-past-vu", "vu-above-int64", "expired-above-int64"}

func (g *c12Gen) pickAt() uint64 {
	now := g.nowMs()
	switch g.c.Rng.Intn(12) {
	case 9:
		return 0
	case 10:
		return 1<<63 + uint64(g.c.Rng.Intn(3)) - 1
	case 0:
		return now - 40*c12Day
	case 1:
		return now - 3*c12Hour
	case 2:
		return now + 3*c12Hour
	case 3:
		return now + 7*c12Day - c12Hour
	case 4:
		return now + 7*c12Day + c12Hour
	case 5:
		return now + 2*c12Day // = "current" valid_until
	case 6:
		return now + 2*c12Day + 1
	case 7:
		return now + 2*c12Day - 1
	default:
		return now - uint64(g.c.Rng.Intn(1000))*c12Hour - c12Hour
	}
}

func (g *c12Gen) run(sc *c12Scenario, msgs [][]byte, desc string) []byte {
	args := [][]byte{sc.JSON()}
	args = append(args, msgs...)
	return g.c.Run("C12.verify_jsons", args, "C12.verify_jsons", "C12.prop.verify_jsons", desc)
}

// one request, one key id, every database state x fetcher script x rule
func (g *c12Gen) singles() {
	c := g.c
	now := g.nowMs()
	ats := []uint64{now - 3*c12Hour, now + 3*c12Hour, now + 7*c12Day - c12Hour, now + 7*c12Day + c12Hour, now - 40*c12Day}
	type fsc struct {
		name string
		mk   func(at uint64) []c12Script
	}
	good := func(at uint64, st string) c12Script {
		return c12Script{Keys: []c12Key{g.record("srvA", "ed25519:a", st, 0, at)}}
	}
	wrong := func(at uint64) c12Script {
		return c12Script{Keys: []c12Key{g.record("srvA", "ed25519:a", "current", 1, at)}}
	}
	extra := func(at uint64) c12Script {
		return c12Script{All: true, Keys: []c12Key{g.record("srvB", "ed25519:a", "current", 0, at), g.record("srvA", "ed25519:b", "current", 0, at)}}
	}
	fscripts := []fsc{
		{"none", func(uint64) []c12Script { return nil }},
		{"err", func(uint64) []c12Script { return []c12Script{{Err: true}} }},
		{"empty", func(uint64) []c12Script { return []c12Script{{}} }},
		{"good", func(at uint64) []c12Script { return []c12Script{good(at, "current")} }},
		{"good-far", func(at uint64) []c12Script { return []c12Script{good(at, "current-far")} }},
		{"good-stale", func(at uint64) []c12Script { return []c12Script{good(at, "stale")} }},
		{"good-expired-after", func(at uint64) []c12Script { return []c12Script{good(at, "expired-after")} }},
		{"good-expired-at", func(at uint64) []c12Script { return []c12Script{good(at, "expired-at")} }},
		{"wrong", func(at uint64) []c12Script { return []c12Script{wrong(at)} }},
		{"err,good", func(at uint64) []c12Script { return []c12Script{{Err: true}, good(at, "current")} }},
		{"empty,good", func(at uint64) []c12Script { return []c12Script{{}, good(at, "current")} }},
		{"extra,good", func(at uint64) []c12Script { return []c12Script{extra(at), good(at, "current")} }},
		{"wrong,good", func(at uint64) []c12Script { return []c12Script{wrong(at), good(at, "current")} }},
		{"good,wrong", func(at uint64) []c12Script { return []c12Script{good(at, "current"), wrong(at)} }},
		{"good,wrong-all", func(at uint64) []c12Script {
			w := wrong(at)
			w.All = true
			return []c12Script{good(at, "current"), w}
		}},
	}
	dbStates := append([]string{"absent"}, c12States...)
	for _, at := range ats {
		for _, dbs := range dbStates {
			for _, dbKey := range []int{0, 1} {
				if dbs == "absent" && dbKey == 1 {
					continue
				}
				for _, fs := range fscripts {
					for _, strict := range []bool{false, true} {
						sc := &c12Scenario{Reqs: []c12Req{{"srvA", at, strict}}}
						if dbs != "absent" {
							sc.DB.Keys = []c12Key{g.record("srvA", "ed25519:a", dbs, dbKey, at)}
						}
						sc.Fetchers = fs.mk(at)
						msg, valid := c12Message(1, []c12SigSpec{{"srvA", "ed25519:a", c12Good, 0}}, false)
						for _, v := range valid {
							sc.Sig = append(sc.Sig, c12Sig{0, v.Kid, c12Keys[v.KeyIdx].hex})
						}
						g.run(sc, [][]byte{msg}, fmt.Sprintf("single db=%s/k%d fetchers=%s strict=%v", dbs, dbKey, fs.name, strict))
						c.Count("single/db=" + dbs)
						c.Count("single/fetchers=" + fs.name)
					}
				}
			}
		}
	}
}

// random batches
func (g *c12Gen) batch() {
	c := g.c
	rng := c.Rng
	nreq := 1 + rng.Intn(4)
	if rng.Intn(10) == 0 {
		nreq = 0
	}
	sc := &c12Scenario{}
	var msgs [][]byte
	type pair struct{ s, k string }
	pairs := map[pair]uint64{} // pair -> an at it is needed for
	var pairOrder []pair
	nServers := 1 + rng.Intn(3)
	nKids := 1 + rng.Intn(3)
	kidPool := c12Kids[:3]
	for i := 0; i < nreq; i++ {
		server := c12Servers[rng.Intn(nServers)]
		at := g.pickAt()
		sc.Reqs = append(sc.Reqs, c12Req{server, at, rng.Intn(2) == 0})
		var msg []byte
		switch rng.Intn(14) {
		case 0:
			msg = []byte(c12Pick([]string{``, `{`, `[1]`, `"x"`, `12`, `null`, `{"signatures":5}`, `{"signatures":{"srvA":7}}`, `{"signatures":null}`,
				`{"signatures":{"srvA":null}}`, `{"n":1}`, `{"signatures":{}}`, `{"signatures":{"srvB":{"ed25519:a":"x"},"srvC":3}}`}, c))
			c.Count("batch/msg=malformed-or-unsigned")
		default:
			var sigs []c12SigSpec
			ns := rng.Intn(4)
			for j := 0; j < ns; j++ {
				var kid string
				if rng.Intn(6) == 0 {
					kid = c12Kids[rng.Intn(len(c12Kids))]
				} else {
					kid = kidPool[rng.Intn(nKids)]
				}
				dup := false
				srv := server
				if rng.Intn(6) == 0 {
					srv = c12Servers[rng.Intn(len(c12Servers))]
				}
				for _, s := range sigs {
					if s.Kid == kid && s.Server == srv {
						dup = true
					}
				}
				if dup {
					continue
				}
				kind := c12Good
				switch rng.Intn(12) {
				case 0:
					kind = c12Tampered
				case 1:
					kind = c12BadLen
				case 2:
					if rng.Intn(3) == 0 {
						kind = c12NonStr
					}
				}
				ki := 0
				if rng.Intn(5) == 0 {
					ki = rng.Intn(3)
				}
				sigs = append(sigs, c12SigSpec{srv, kid, kind, ki})
				if srv == server {
					p := pair{srv, kid}
					if _, ok := pairs[p]; !ok {
						pairOrder = append(pairOrder, p)
					}
					pairs[p] = at
				}
			}
			var valid []c12SigSpec
			var poisoned bool
			msg, valid, poisoned = c12MessageP(i, sigs, rng.Intn(3) == 0)
			if poisoned {
				sc.Poison = append(sc.Poison, i)
			}
			for _, v := range valid {
				if v.Server == server {
					sc.Sig = append(sc.Sig, c12Sig{i, v.Kid, c12Keys[v.KeyIdx].hex})
				}
			}
			c.Count(fmt.Sprintf("batch/nsig=%d", len(sigs)))
		}
		msgs = append(msgs, msg)
	}
	// some pairs nobody asked about
	for j := rng.Intn(3); j > 0; j-- {
		p := pair{c12Servers[rng.Intn(3)], c12Kids[rng.Intn(4)]}
		if _, ok := pairs[p]; !ok {
			pairs[p] = g.pickAt()
			pairOrder = append(pairOrder, p)
		}
	}
	keyIdx := func() int {
		if rng.Intn(5) == 0 {
			return 1 + rng.Intn(2)
		}
		return 0
	}
	// database
	for _, p := range pairOrder {
		switch rng.Intn(10) {
		case 0, 1, 2: // absent
		case 3, 4, 5:
			sc.DB.Keys = append(sc.DB.Keys, g.record(p.s, p.k, "current", keyIdx(), pairs[p]))
		case 6:
			sc.DB.Keys = append(sc.DB.Keys, g.record(p.s, p.k, "stale", keyIdx(), pairs[p]))
		default:
			sc.DB.Keys = append(sc.DB.Keys, g.record(p.s, p.k, c12States[rng.Intn(len(c12States))], keyIdx(), pairs[p]))
		}
	}
	sc.DB.All = rng.Intn(4) == 0
	sc.DB.Err = rng.Intn(40) == 0
	sc.DB.SErr = rng.Intn(40) == 0
	// fetchers
	nf := rng.Intn(4)
	for f := 0; f < nf; f++ {
		var s c12Script
		switch rng.Intn(8) {
		case 0:
			s.Err = true
		case 1: // empty
		default:
			s.All = rng.Intn(3) == 0
			for _, p := range pairOrder {
				switch rng.Intn(6) {
				case 0, 1: // partial: leaves this pair out
				case 2:
					s.Keys = append(s.Keys, g.record(p.s, p.k, c12States[rng.Intn(len(c12States))], keyIdx(), pairs[p]))
				default:
					s.Keys = append(s.Keys, g.record(p.s, p.k, "current", keyIdx(), pairs[p]))
				}
			}
		}
		if s.Err && rng.Intn(2) == 0 {
			s.Keys = append(s.Keys, g.record("srvA", "ed25519:a", "current", 0, g.nowMs()))
		}
		sc.Fetchers = append(sc.Fetchers, s)
	}
	out := g.run(sc, msgs, "batch")
	c.Count(fmt.Sprintf("batch/nreq=%d", nreq))
	c.Count(fmt.Sprintf("batch/nfetchers=%d", nf))
	c12CountOutcome(c, "batch", out)
}

func c12CountOutcome(c *Ctx, class string, out []byte) {
	var o struct {
		R string
		F []json.RawMessage
		S json.RawMessage
	}
	if json.Unmarshal(out, &o) != nil {
		return
	}
	switch {
	case o.R == "E":
		c.Count(class + "/result=error")
	case strings.Contains(o.R, "1") && strings.Contains(o.R, "0"):
		c.Count(class + "/result=mixed")
	case strings.Contains(o.R, "1"):
		c.Count(class + "/result=all-ok")
	default:
		c.Count(class + "/result=none-ok")
	}
	c.Count(fmt.Sprintf("%s/fetcher-calls=%d", class, len(o.F)))
	if string(o.S) != "null" {
		c.Count(class + "/stored")
	}
}

func c12Pick(l []string, c *Ctx) string { return l[c.Rng.Intn(len(l))] }

// the comparison of len(keysFetched) with the number of requests decides whether the keys the
// database returned are tried before any fetcher is consulted
func (g *c12Gen) firstPass() {
	now := g.nowMs()
	at := now - 3*c12Hour
	for _, nreq := range []int{1, 2, 3} {
		for _, nkeys := range []int{1, 2, 3} {
			for _, dbState := range []string{"current", "stale", "vu-at", "expired-after"} {
				for _, fmode := range []int{0, 1, 2} { // none / wrong key / good key
					for _, strict := range []bool{false, true} {
						sc := &c12Scenario{}
						var msgs [][]byte
						for i := 0; i < nreq; i++ {
							kid := c12Kids[i%nkeys]
							sc.Reqs = append(sc.Reqs, c12Req{"srvA", at, strict})
							msg, _ := c12Message(i, []c12SigSpec{{"srvA", kid, c12Good, 0}}, false)
							sc.Sig = append(sc.Sig, c12Sig{i, kid, c12Keys[0].hex})
							msgs = append(msgs, msg)
						}
						var f c12Script
						for k := 0; k < nkeys && k < nreq; k++ {
							sc.DB.Keys = append(sc.DB.Keys, g.record("srvA", c12Kids[k], dbState, 0, at))
							f.Keys = append(f.Keys, g.record("srvA", c12Kids[k], "current", 2-fmode, at))
						}
						if nkeys > nreq { // the database volunteers keys nobody asked for
							sc.DB.All = true
							for k := nreq; k < nkeys; k++ {
								sc.DB.Keys = append(sc.DB.Keys, g.record("srvB", c12Kids[k], dbState, 0, at))
							}
						}
						if fmode > 0 {
							sc.Fetchers = []c12Script{f}
						}
						g.run(sc, msgs, fmt.Sprintf("first-pass nreq=%d nkeys=%d db=%s fmode=%d", nreq, nkeys, dbState, fmode))
						g.c.Count("first-pass")
					}
				}
			}
		}
	}
}

// clock-relative boundaries five seconds either side of the library's own clock reading
func (g *c12Gen) nearClock() {
	for _, off := range []int64{-5000, 5000} {
		for _, strict := range []bool{false, true} {
			// at = now + 7 d + off under a far valid_until
			now := uint64(time.Now().UnixMilli())
			at := now + 7*c12Day + uint64(off)
			sc := &c12Scenario{Reqs: []c12Req{{"srvA", at, strict}}}
			sc.DB.Keys = []c12Key{{Server: "srvA", Kid: "ed25519:a", Key: c12Keys[0].hex, VU: now + 30*c12Day}}
			msg, _ := c12Message(1, []c12SigSpec{{"srvA", "ed25519:a", c12Good, 0}}, false)
			sc.Sig = []c12Sig{{0, "ed25519:a", c12Keys[0].hex}}
			g.run(sc, [][]byte{msg}, fmt.Sprintf("near-clock seven-day cap %+d ms", off))
			// valid_until = now + off: refetched or not
			now = uint64(time.Now().UnixMilli())
			sc = &c12Scenario{Reqs: []c12Req{{"srvA", now - c12Hour, strict}, {"srvA", now - c12Hour, strict}}}
			sc.DB.Keys = []c12Key{{Server: "srvA", Kid: "ed25519:a", Key: c12Keys[0].hex, VU: now + uint64(off)}}
			sc.Fetchers = []c12Script{{Keys: []c12Key{{Server: "srvA", Kid: "ed25519:a", Key: c12Keys[0].hex, VU: now + c12Day}}}}
			sc.Sig = []c12Sig{{0, "ed25519:a", c12Keys[0].hex}, {1, "ed25519:a", c12Keys[0].hex}}
			g.run(sc, [][]byte{msg, msg}, fmt.Sprintf("near-clock refetch %+d ms", off))
			g.c.Count("near-clock")
		}
	}
}

// finding F62: request timestamps and valid_until_ts / expired_ts at 2^63-1, 2^63 and 2^64-1; the
// specification oracle compares the millisecond values as unsigned integers
func (g *c12Gen) int64Boundary() {
	now := g.nowMs()
	big := []uint64{1<<63 - 1, 1 << 63, 1<<64 - 1}
	type rec struct {
		name    string
		exp, vu uint64
	}
	recs := []rec{{"valid one more hour", 0, now + c12Hour}, {"valid 2 days", 0, now + 2*c12Day}}
	for _, b := range big {
		recs = append(recs, rec{fmt.Sprintf("valid_until_ts=%d", b), 0, b}, rec{fmt.Sprintf("expired_ts=%d", b), b, 0})
	}
	ats := append([]uint64{now - c12Hour, now + c12Hour/2}, big...)
	msg, _ := c12Message(1, []c12SigSpec{{"srvA", "ed25519:a", c12Good, 0}}, false)
	for _, at := range ats {
		for _, r := range recs {
			for _, strict := range []bool{false, true} {
				for _, viaFetcher := range []bool{false, true} {
					sc := &c12Scenario{Reqs: []c12Req{{"srvA", at, strict}}, Sig: []c12Sig{{0, "ed25519:a", c12Keys[0].hex}}}
					k := c12Key{Server: "srvA", Kid: "ed25519:a", Key: c12Keys[0].hex, Exp: r.exp, VU: r.vu}
					if viaFetcher {
						sc.Fetchers = []c12Script{{Keys: []c12Key{k}}}
					} else {
						sc.DB.Keys = []c12Key{k}
					}
					g.run(sc, [][]byte{msg}, fmt.Sprintf("int64 boundary: at=%d key %s strict=%v fetcher=%v", at, r.name, strict, viaFetcher))
					g.c.Count("int64-boundary")
				}
			}
		}
	}
}

// boundaries against the clock itself, to the millisecond (see c12RunVerify)
func (g *c12Gen) exactClock() {
	msg, _ := c12Message(1, []c12SigSpec{{"srvA", "ed25519:a", c12Good, 0}}, false)
	k := c12Keys[0].hex
	sevenDays := int64(7 * 24 * 3600 * 1000)
	reps := g.c.Scale(3, 20)
	for rep := 0; rep < reps; rep++ {
		for _, d := range []int64{-1, 0, 1, 2} {
			for _, strict := range []bool{false, true} {
				// database key with valid_until_ts = now + d: refetched iff not (now < valid_until_ts);
				// two requests for one key, so the database keys are not tried first
				cfg := fmt.Sprintf(`{"now":0,"reqs":[{"s":"srvA","at":1000,"strict":%v},{"s":"srvA","at":2000,"strict":%v}],"sig":[[0,"ed25519:a","%s"],[1,"ed25519:a","%s"]],`+
					`"db":{"ferr":false,"serr":false,"all":false,"keys":[["srvA","ed25519:a","%s",0,"@{%+d}"]]},`+
					`"fetchers":[{"err":false,"all":false,"keys":[["srvA","ed25519:a","%s",0,"@{+86400000}"]]}]}`, strict, strict, k, k, k, d, k)
				g.c.Run("C12.verify_jsons", [][]byte{B(cfg), msg, msg}, "C12.verify_jsons", "C12.prop.verify_jsons", fmt.Sprintf("exact clock: refetch at valid_until = now%+d ms", d))
				// strict rule: at = now + 7 d + d under a far valid_until_ts
				cfg = fmt.Sprintf(`{"now":0,"reqs":[{"s":"srvA","at":"@{%+d}","strict":%v}],"sig":[[0,"ed25519:a","%s"]],`+
					`"db":{"ferr":false,"serr":false,"all":false,"keys":[["srvA","ed25519:a","%s",0,"@{%+d}"]]},"fetchers":[]}`, sevenDays+d, strict, k, k, 30*sevenDays)
				g.c.Run("C12.verify_jsons", [][]byte{B(cfg), msg}, "C12.verify_jsons", "C12.prop.verify_jsons", fmt.Sprintf("exact clock: at = now + 7 d %+d ms", d))
				g.c.Count("exact-clock")
			}
		}
	}
}

func (g *c12Gen) wasValidAt() {
	c := g.c
	now := g.nowMs()
	vals := []uint64{0, 1, 2, 1000, now - 40*c12Day, now - c12Hour, now + c12Hour, now + 2*c12Day, now + 7*c12Day - c12Hour, now + 7*c12Day + c12Hour,
		now + 30*c12Day, 1<<63 - 1, 1 << 63, 1<<63 + 1, 1<<64 - 1, 1<<64 - 1000, 1 << 62}
	emit := func(e, v, a uint64, strict int) {
		c.Run("C12.was_valid_at", Args("0", strconv.FormatUint(e, 10), strconv.FormatUint(v, 10), strconv.FormatUint(a, 10), strconv.Itoa(strict)),
			"C12.was_valid_at", "C12.prop.was_valid_at", "was_valid_at")
		c.Count("was_valid_at")
	}
	for _, v := range vals {
		for _, d := range []int64{-1, 0, 1} {
			for strict := 0; strict < 2; strict++ {
				emit(0, v, v+uint64(d), strict)   // at around valid_until
				emit(v, 0, v+uint64(d), strict)   // at around expired_ts
				emit(v, v+5, v+uint64(d), strict) // expired_ts wins
			}
		}
	}
	n := c.Scale(300, 5000)
	for i := 0; i < n; i++ {
		e := uint64(0)
		if c.Rng.Intn(3) == 0 {
			e = vals[c.Rng.Intn(len(vals))]
		}
		emit(e, vals[c.Rng.Intn(len(vals))], vals[c.Rng.Intn(len(vals))]+uint64(c.Rng.Intn(3))-1, c.Rng.Intn(2))
	}
}

func (g *c12Gen) listKeyIDs() {
	c := g.c
	msgs := []string{``, ` `, `{`, `}`, `[]`, `[1]`, `"x"`, `12`, `null`, `true`, `{}`, `{"n":1}`, `{"signatures":5}`, `{"signatures":"x"}`, `{"signatures":[]}`,
		`{"signatures":null}`, `{"signatures":{}}`, `{"signatures":{"srvA":7}}`, `{"signatures":{"srvA":null}}`, `{"signatures":{"srvA":{}}}`,
		`{"signatures":{"srvA":{"ed25519:a":"x"}}}`, `{"signatures":{"srvA":{"ed25519:a":5,"rsa:1":null,"k":{}}}}`,
		`{"signatures":{"srvB":{"ed25519:a":"x"}}}`, `{"signatures":{"srvB":{"ed25519:a":"x"},"srvA":{"ed25519:b":"y"}}}`,
		`{"signatures":{"srvB":3,"srvA":{"ed25519:b":"y"}}}`, `{"signatures":{"srvA":{"ed25519:b":"y"},"srvB":"z"}}`,
		`{"signatures":{"srvA":{"ed25519:b":"y"}}} x`, `{"signatures":{"srvA":{"ed25519:b":"y"}}}  `, `{"signatures":{"srvA":{"ed25519:b":"y"}}`,
		`{"signatures":{"srvA":{"ed25519:b":"y",}}}`, `{"a":{"signatures":{"srvA":{"ed25519:b":"y"}}}}`, `{"signatures":{"":{"k":1}}}`,
		`{"signatures":{"srvA":{"":1}}}`, `{"signatures":{"srvA":{"b":1,"a":2,"c":3}}}`, `{"signatures":{"srvA":{"a":1}},"signatures":{"srvA":{"b":1}}}`}
	for _, m := range msgs {
		for _, s := range []string{"srvA", "srvB", ""} {
			c.Run("C12.list_key_ids", Args(s, m), "C12.list_key_ids", "", "list_key_ids")
			c.Count("list_key_ids")
		}
	}
}

func init() {
	RegisterImpl("C12.verify_jsons", c12RunVerify)
	// [now (stamped); expired_ts; valid_until_ts; at; strict]
	RegisterImpl("C12.was_valid_at", func(args [][]byte) ([][]byte, []byte) {
		e, _ := strconv.ParseUint(string(args[1]), 10, 64)
		v, _ := strconv.ParseUint(string(args[2]), 10, 64)
		a, _ := strconv.ParseUint(string(args[3]), 10, 64)
		f := gmsl.SignatureValidityCheckFunc(gmsl.NoStrictValidityCheck)
		if string(args[4]) != "0" {
			f = gmsl.StrictValiditySignatureCheck
		}
		final := append([][]byte{}, args...)
		final[0] = B(strconv.FormatInt(time.Now().UnixNano(), 10))
		r := gmsl.PublicKeyLookupResult{ExpiredTS: spec.Timestamp(e), ValidUntilTS: spec.Timestamp(v)}
		return final, B(strconv.FormatBool(r.WasValidAt(spec.Timestamp(a), f)))
	})
	RegisterImpl("C12.list_key_ids", func(args [][]byte) ([][]byte, []byte) {
		ids, err := gmsl.ListKeyIDs(string(args[0]), args[1])
		if err != nil {
			return args, B("E")
		}
		var l []string
		for _, k := range ids {
			l = append(l, string(k))
		}
		sort.Strings(l)
		return args, B("K:" + strings.Join(l, ","))
	})
	RegisterProp("C12", func(c *Ctx) {
		g := &c12Gen{c: c, base: time.Now()}
		g.singles()
		g.firstPass()
		g.nearClock()
		g.exactClock()
		g.int64Boundary()
		n := c.Scale(1500, 40000)
		for i := 0; i < n; i++ {
			g.batch()
		}
		g.wasValidAt()
		g.listKeyIDs()
		g.checkKeys()
		g.publicKey()
		g.parseKeyDoc()
		g.plantedKey()
		g.directFetch()
		g.perspectiveFetch()
	})
}

// ===================== CheckKeys, DirectKeyFetcher, PerspectiveKeyFetcher =====================

type c12VerifyKeySpec struct {
	Kid      string
	Key      []byte // the public key listed
	SignIdx  int    // index of the key pair that self-signs under (SignName, Kid); -1: no signature
	SignName string // "" = the document's server name
	Tamper   bool   // signature over other content
}

type c12OldKeySpec struct {
	Kid string
	Key []byte
	Exp uint64
}

type c12NotarySig struct {
	Name   string
	Kid    string
	KeyIdx int
	Tamper bool
}

type c12DocSpec struct {
	Server string
	VU     uint64
	Verify []c12VerifyKeySpec
	Old    []c12OldKeySpec
	Notary []c12NotarySig
	Poison bool // a non-object entry inside "signatures": no signature of the document verifies
	// further top-level members (case variants, names that fold to one of the four, repeats of the
	// four), written before or after the four regular members in the raw text
	Extra []c12Member
	// leave out regular members (by exact name)
	Omit []string
}

type c12Member struct {
	Name  string
	Value string // JSON text
	After bool
}

type c12DocSig struct{ Name, Kid, Key string }

type c12Doc struct {
	Raw      []byte
	Sigs     []c12DocSig // (name, key id, key) triples for which VerifyJSON succeeds, each on its own
	Poisoned bool        // "signatures" holds an entry (of some other entity) that does not decode
}

func c12BuildDoc(d c12DocSpec) (*c12Doc, error) {
	b64 := base64.RawStdEncoding.EncodeToString
	vk := append([]c12VerifyKeySpec{}, d.Verify...)
	sort.Slice(vk, func(i, j int) bool { return vk[i].Kid < vk[j].Kid })
	ok := append([]c12OldKeySpec{}, d.Old...)
	sort.Slice(ok, func(i, j int) bool { return ok[i].Kid < ok[j].Kid })
	var vparts, oparts []string
	for _, k := range vk {
		vparts = append(vparts, fmt.Sprintf(`"%s":{"key":"%s"}`, k.Kid, b64(k.Key)))
	}
	for _, k := range ok {
		oparts = append(oparts, fmt.Sprintf(`"%s":{"expired_ts":%d,"key":"%s"}`, k.Kid, k.Exp, b64(k.Key)))
	}
	omit := map[string]bool{}
	for _, o := range d.Omit {
		omit[o] = true
	}
	// the members in raw-text order
	members := func(vu uint64) []c12Member {
		var m []c12Member
		for _, e := range d.Extra {
			if !e.After {
				m = append(m, e)
			}
		}
		for _, e := range []c12Member{
			{Name: "old_verify_keys", Value: "{" + strings.Join(oparts, ",") + "}"},
			{Name: "server_name", Value: `"` + d.Server + `"`},
			{Name: "valid_until_ts", Value: strconv.FormatUint(vu, 10)},
			{Name: "verify_keys", Value: "{" + strings.Join(vparts, ",") + "}"},
		} {
			if !omit[e.Name] {
				m = append(m, e)
			}
		}
		for _, e := range d.Extra {
			if e.After {
				m = append(m, e)
			}
		}
		return m
	}
	text := func(m []c12Member) string {
		var p []string
		for _, e := range m {
			p = append(p, fmt.Sprintf(`"%s":%s`, e.Name, e.Value))
		}
		return strings.Join(p, ",")
	}
	// what a signature covers: the object with the last of repeated members, members sorted by name
	canonical := func(m []c12Member) string {
		last := map[string]string{}
		var names []string
		for _, e := range m {
			if _, ok := last[e.Name]; !ok {
				names = append(names, e.Name)
			}
			last[e.Name] = e.Value
		}
		sort.Strings(names)
		var c []c12Member
		for _, n := range names {
			c = append(c, c12Member{Name: n, Value: last[n]})
		}
		return "{" + text(c) + "}"
	}
	content := canonical(members(d.VU))
	other := canonical(append(members(d.VU), c12Member{Name: "zz_other", Value: "1"}))
	sigs := map[string]map[string]string{}
	var names []string
	var table []c12DocSig
	add := func(name, kid string, keyIdx int, tamper bool) {
		msg := content
		if tamper {
			msg = other
		}
		if _, ok := sigs[name]; !ok {
			sigs[name] = map[string]string{}
			names = append(names, name)
		}
		if _, dup := sigs[name][kid]; dup {
			return
		}
		sigs[name][kid] = b64(ed25519.Sign(c12Keys[keyIdx].priv, []byte(msg)))
		if !tamper {
			table = append(table, c12DocSig{name, kid, c12Keys[keyIdx].hex})
		}
	}
	for _, k := range d.Verify {
		if k.SignIdx >= 0 {
			name := k.SignName
			if name == "" {
				name = d.Server
			}
			add(name, k.Kid, k.SignIdx, k.Tamper)
		}
	}
	for _, n := range d.Notary {
		add(n.Name, n.Kid, n.KeyIdx, n.Tamper)
	}
	sort.Strings(names)
	var sparts []string
	for _, n := range names {
		var kids []string
		for k := range sigs[n] {
			kids = append(kids, k)
		}
		sort.Strings(kids)
		var kp []string
		for _, k := range kids {
			kp = append(kp, fmt.Sprintf(`"%s":"%s"`, k, sigs[n][k]))
		}
		sparts = append(sparts, fmt.Sprintf(`"%s":{%s}`, n, strings.Join(kp, ",")))
	}
	if d.Poison {
		sparts = append(sparts, `"zzz":5`)
	}
	raw := "{" + text(members(d.VU)) + `,"signatures":{` + strings.Join(sparts, ",") + "}}"
	if len(members(d.VU)) == 0 {
		raw = `{"signatures":{` + strings.Join(sparts, ",") + "}}"
	}
	return &c12Doc{Raw: []byte(raw), Sigs: table, Poisoned: d.Poison}, nil
}

// the poisoned document indices and the signature table of a list of documents
func c12DocsJSON(docs []*c12Doc) (poison, sig string) {
	var f, s []string
	for i, d := range docs {
		if d.Poisoned {
			f = append(f, strconv.Itoa(i))
		}
		for _, g := range d.Sigs {
			s = append(s, fmt.Sprintf(`[%d,"%s","%s","%s"]`, i, g.Name, g.Kid, g.Key))
		}
	}
	return "[" + strings.Join(f, ",") + "]", "[" + strings.Join(s, ",") + "]"
}

func c12ChecksText(ch gmsl.KeyChecks, keys map[gmsl.KeyID]spec.Base64Bytes) string {
	b := func(x bool) string {
		if x {
			return "1"
		}
		return "0"
	}
	alled := "null"
	if ch.AllEd25519ChecksOK != nil {
		alled = b(*ch.AllEd25519ChecksOK)
	}
	var kids []string
	for k := range ch.Ed25519Checks {
		kids = append(kids, string(k))
	}
	sort.Strings(kids)
	var ents []string
	for _, k := range kids {
		e := ch.Ed25519Checks[gmsl.KeyID(k)]
		ents = append(ents, fmt.Sprintf("%s/%s/%s", k, b(e.ValidEd25519), b(e.MatchingSignature)))
	}
	ks := "-"
	if keys != nil {
		var kk []string
		for k := range keys {
			kk = append(kk, string(k))
		}
		sort.Strings(kk)
		var p []string
		for _, k := range kk {
			p = append(p, k+"="+hex.EncodeToString(keys[gmsl.KeyID(k)]))
		}
		ks = strings.Join(p, ",")
	}
	return fmt.Sprintf("all=%s,name=%s,future=%s,has=%s,alled=%s;%s;keys=%s", b(ch.AllChecksOK), b(ch.MatchingServerName), b(ch.FutureValidUntilTS), b(ch.HasEd25519Key), alled, strings.Join(ents, ","), ks)
}

// scripted KeyClient
type c12Client struct {
	mu      chan struct{}
	get     map[string]*gmsl.ServerKeys // missing or nil: error
	lookup  map[string][]gmsl.ServerKeys
	lookupE map[string]bool // true: answer (possibly empty) exists
	gets    []string
	looks   []string
	asked   string
	badReq  bool
}

func (c *c12Client) GetServerKeys(_ context.Context, s spec.ServerName) (gmsl.ServerKeys, error) {
	c.mu <- struct{}{}
	c.gets = append(c.gets, string(s))
	<-c.mu
	if k := c.get[string(s)]; k != nil {
		return *k, nil
	}
	return gmsl.ServerKeys{}, errors.New("scripted failure")
}

func (c *c12Client) LookupServerKeys(_ context.Context, s spec.ServerName, reqs map[gmsl.PublicKeyLookupRequest]spec.Timestamp) ([]gmsl.ServerKeys, error) {
	c.mu <- struct{}{}
	c.looks = append(c.looks, string(s))
	c.asked = c12AskedJSON(reqs)
	if len(reqs) != 1 {
		c.badReq = true
	}
	for r := range reqs {
		if r.ServerName != s || r.KeyID != "" {
			c.badReq = true
		}
	}
	<-c.mu
	if c.lookupE[string(s)] {
		return c.lookup[string(s)], nil
	}
	return nil, errors.New("scripted failure")
}

type c12FetchScenario struct {
	Server   string              `json:"server"`
	Now      int64               `json:"now"`
	Local    []string            `json:"local"`
	LocalKey string              `json:"localkey"`
	Asked    [][]json.RawMessage `json:"asked"`
	Get      map[string]*int     `json:"get"`
	Lookup   json.RawMessage     `json:"lookup"`
	PName    string              `json:"pname"`
	PKeys    [][]string          `json:"pkeys"`
}

func c12ParseAsked(rows [][]json.RawMessage) map[gmsl.PublicKeyLookupRequest]spec.Timestamp {
	m := map[gmsl.PublicKeyLookupRequest]spec.Timestamp{}
	for _, row := range rows {
		var s, k string
		var t uint64
		_ = json.Unmarshal(row[0], &s)
		_ = json.Unmarshal(row[1], &k)
		_ = json.Unmarshal(row[2], &t)
		m[gmsl.PublicKeyLookupRequest{ServerName: spec.ServerName(s), KeyID: gmsl.KeyID(k)}] = spec.Timestamp(t)
	}
	return m
}

// the documents as a KeyClient decodes them; ok[i] is false when document i does not decode (the
// client then fails the request that would have carried it)
func c12UnmarshalDocs(raws [][]byte) (docs []gmsl.ServerKeys, ok []bool) {
	for _, raw := range raws {
		var k gmsl.ServerKeys
		err := json.Unmarshal(raw, &k)
		docs = append(docs, k)
		ok = append(ok, err == nil)
	}
	return
}

func init() {
	// [scenario {server, now}; raw document]
	RegisterImpl("C12.check_keys", func(args [][]byte) ([][]byte, []byte) {
		var sc c12FetchScenario
		if err := json.Unmarshal(args[0], &sc); err != nil || len(args) < 2 {
			return args, B("badconfig")
		}
		var keys gmsl.ServerKeys
		if err := json.Unmarshal(args[1], &keys); err != nil {
			return args, B("unmarshal-error")
		}
		ch, ks := gmsl.CheckKeys(spec.ServerName(sc.Server), time.Unix(0, sc.Now), keys)
		return args, B(c12ChecksText(ch, ks))
	})
	// [raw document] -> E | the decoded fields
	RegisterImpl("C12.parse_key_doc", func(args [][]byte) ([][]byte, []byte) {
		var keys gmsl.ServerKeys
		if err := json.Unmarshal(args[0], &keys); err != nil {
			return args, B("E")
		}
		var vk, ok []string
		for k, v := range keys.VerifyKeys {
			vk = append(vk, string(k)+"="+hex.EncodeToString(v.Key))
		}
		for k, v := range keys.OldVerifyKeys {
			ok = append(ok, fmt.Sprintf("%s=%s:%d", k, hex.EncodeToString(v.Key), uint64(v.ExpiredTS)))
		}
		sort.Strings(vk)
		sort.Strings(ok)
		return args, B(fmt.Sprintf("s=%s;vu=%d;v=%s;o=%s", keys.ServerName, uint64(keys.ValidUntilTS), strings.Join(vk, ","), strings.Join(ok, ",")))
	})
	// [scenario {kid, at}; raw document]
	RegisterImpl("C12.public_key", func(args [][]byte) ([][]byte, []byte) {
		var sc struct {
			Kid string `json:"kid"`
			At  uint64 `json:"at"`
		}
		if err := json.Unmarshal(args[0], &sc); err != nil || len(args) < 2 {
			return args, B("badconfig")
		}
		var keys gmsl.ServerKeys
		if err := json.Unmarshal(args[1], &keys); err != nil {
			return args, B("unmarshal-error")
		}
		k := keys.PublicKey(gmsl.KeyID(sc.Kid), spec.Timestamp(sc.At))
		if len(k) == 0 {
			return args, B("nil")
		}
		return args, B(hex.EncodeToString(k))
	})
	RegisterImpl("C12.direct_fetch", func(args [][]byte) ([][]byte, []byte) {
		var sc c12FetchScenario
		if err := json.Unmarshal(args[0], &sc); err != nil {
			return args, B("badconfig")
		}
		docs, ok := c12UnmarshalDocs(args[1:])
		cl := &c12Client{mu: make(chan struct{}, 1), get: map[string]*gmsl.ServerKeys{}, lookup: map[string][]gmsl.ServerKeys{}, lookupE: map[string]bool{}}
		for s, ix := range sc.Get {
			if ix != nil && *ix < len(docs) && ok[*ix] {
				d := docs[*ix]
				cl.get[s] = &d
			}
		}
		var look map[string]*[]int
		_ = json.Unmarshal(sc.Lookup, &look)
		for s, ixs := range look {
			if ixs != nil {
				cl.lookupE[s] = true
				for _, ix := range *ixs {
					if ix >= len(docs) || !ok[ix] {
						cl.lookupE[s] = false
						break
					}
					cl.lookup[s] = append(cl.lookup[s], docs[ix])
				}
			}
		}
		local := map[string]bool{}
		for _, l := range sc.Local {
			local[l] = true
		}
		lk, _ := hex.DecodeString(sc.LocalKey)
		f := &gmsl.DirectKeyFetcher{Client: cl, IsLocalServerName: func(s spec.ServerName) bool { return local[string(s)] }, LocalPublicKey: lk}
		final := append([][]byte{}, args...)
		final[0] = c12Stamp(args[0], time.Now())
		res, err := f.FetchKeys(context.Background(), c12ParseAsked(sc.Asked))
		if err != nil {
			return final, B("E")
		}
		sort.Strings(cl.gets)
		sort.Strings(cl.looks)
		out := fmt.Sprintf("G=%s;L=%s;%s", strings.Join(cl.gets, ","), strings.Join(cl.looks, ","), c12StoredJSON(res))
		if cl.badReq {
			out = "BADREQ " + out
		}
		return final, B(out)
	})
	RegisterImpl("C12.perspective_fetch", func(args [][]byte) ([][]byte, []byte) {
		var sc c12FetchScenario
		if err := json.Unmarshal(args[0], &sc); err != nil {
			return args, B("badconfig")
		}
		docs, ok := c12UnmarshalDocs(args[1:])
		cl := &c12Client{mu: make(chan struct{}, 1), lookup: map[string][]gmsl.ServerKeys{}, lookupE: map[string]bool{}}
		var ixs *[]int
		_ = json.Unmarshal(sc.Lookup, &ixs)
		if ixs != nil {
			cl.lookupE[sc.PName] = true
			for _, ix := range *ixs {
				if ix >= len(docs) || !ok[ix] {
					cl.lookupE[sc.PName] = false
					break
				}
				cl.lookup[sc.PName] = append(cl.lookup[sc.PName], docs[ix])
			}
		}
		pk := map[gmsl.KeyID]ed25519.PublicKey{}
		for _, row := range sc.PKeys {
			raw, _ := hex.DecodeString(row[1])
			pk[gmsl.KeyID(row[0])] = ed25519.PublicKey(raw)
		}
		f := &gmsl.PerspectiveKeyFetcher{PerspectiveServerName: spec.ServerName(sc.PName), PerspectiveServerKeys: pk, Client: &c12PerspectiveClient{cl}}
		res, err := f.FetchKeys(context.Background(), c12ParseAsked(sc.Asked))
		out := "A=" + cl.asked + ";"
		if err != nil {
			return args, B(out + "E")
		}
		return args, B(out + c12StoredJSON(res))
	})
}

// the perspective fetcher hands the whole request map to LookupServerKeys
type c12PerspectiveClient struct{ c *c12Client }

func (p *c12PerspectiveClient) GetServerKeys(ctx context.Context, s spec.ServerName) (gmsl.ServerKeys, error) {
	return p.c.GetServerKeys(ctx, s)
}
func (p *c12PerspectiveClient) LookupServerKeys(_ context.Context, s spec.ServerName, reqs map[gmsl.PublicKeyLookupRequest]spec.Timestamp) ([]gmsl.ServerKeys, error) {
	p.c.asked = c12AskedJSON(reqs)
	if p.c.lookupE[string(s)] {
		return p.c.lookup[string(s)], nil
	}
	return nil, errors.New("scripted failure")
}

// ---------- generators ----------
func c12Pub(i int) []byte { return []byte(c12Keys[i].pub) }

// a well-formed self-signed document for server with one current key (key pair ki under kid)
func c12GoodDoc(server, kid string, ki int, vu uint64) c12DocSpec {
	return c12DocSpec{Server: server, VU: vu, Verify: []c12VerifyKeySpec{{Kid: kid, Key: c12Pub(ki), SignIdx: ki}}}
}

func (g *c12Gen) checkKeys() {
	c := g.c
	T := uint64(1700000000000)
	type variant struct {
		name string
		mk   func(d *c12DocSpec)
	}
	keyVariants := []variant{
		{"one good", func(d *c12DocSpec) {}},
		{"two good", func(d *c12DocSpec) {
			d.Verify = append(d.Verify, c12VerifyKeySpec{Kid: "ed25519:b", Key: c12Pub(1), SignIdx: 1})
		}},
		{"good + tampered", func(d *c12DocSpec) {
			d.Verify = append(d.Verify, c12VerifyKeySpec{Kid: "ed25519:b", Key: c12Pub(1), SignIdx: 1, Tamper: true})
		}},
		{"tampered + good", func(d *c12DocSpec) {
			d.Verify = []c12VerifyKeySpec{{Kid: "ed25519:a", Key: c12Pub(0), SignIdx: 0, Tamper: true}, {Kid: "ed25519:b", Key: c12Pub(1), SignIdx: 1}}
		}},
		{"good + unsigned", func(d *c12DocSpec) {
			d.Verify = append(d.Verify, c12VerifyKeySpec{Kid: "ed25519:b", Key: c12Pub(1), SignIdx: -1})
		}},
		{"unsigned", func(d *c12DocSpec) { d.Verify[0].SignIdx = -1 }},
		{"signed by another key", func(d *c12DocSpec) { d.Verify[0].SignIdx = 1 }},
		{"signed under another server name", func(d *c12DocSpec) { d.Verify[0].SignName = "srvB" }},
		{"key of 31 bytes", func(d *c12DocSpec) { d.Verify[0].Key = c12Pub(0)[:31] }},
		{"key of 33 bytes", func(d *c12DocSpec) { d.Verify[0].Key = append(c12Pub(0), 7) }},
		{"empty key", func(d *c12DocSpec) { d.Verify[0].Key = nil }},
		{"good + short key", func(d *c12DocSpec) {
			d.Verify = append(d.Verify, c12VerifyKeySpec{Kid: "ed25519:b", Key: c12Pub(1)[:16], SignIdx: 1})
		}},
		{"rsa only", func(d *c12DocSpec) { d.Verify[0].Kid = "rsa:1" }},
		{"rsa + good", func(d *c12DocSpec) {
			d.Verify = append(d.Verify, c12VerifyKeySpec{Kid: "rsa:1", Key: []byte("whatever"), SignIdx: -1})
		}},
		{"no keys", func(d *c12DocSpec) { d.Verify = nil }},
		{"kid without colon", func(d *c12DocSpec) { d.Verify[0].Kid = "ed25519" }},
		{"kid with empty suffix", func(d *c12DocSpec) { d.Verify[0].Kid = "ed25519:" }},
		{"kid with two colons", func(d *c12DocSpec) { d.Verify[0].Kid = "ed25519:a:b" }},
		{"near-miss algorithm", func(d *c12DocSpec) { d.Verify[0].Kid = "ed25519x:a" }},
		{"upper-case algorithm", func(d *c12DocSpec) { d.Verify[0].Kid = "Ed25519:a" }},
		{"old keys", func(d *c12DocSpec) {
			d.Old = []c12OldKeySpec{{"ed25519:old", c12Pub(2), T - 5}, {"ed25519:a", c12Pub(3), T - 9}}
		}},
		{"poisoned signatures", func(d *c12DocSpec) { d.Poison = true }},
	}
	type clock struct {
		name string
		vu   uint64
		now  int64
	}
	ms := int64(1000000)
	clocks := []clock{
		{"epoch", T, 0}, {"vu-1ms", T, int64(T-1) * ms}, {"vu", T, int64(T) * ms}, {"vu+1ms", T, int64(T+1) * ms},
		{"vu-1ns", T, int64(T)*ms - 1}, {"vu+1ns", T, int64(T)*ms + 1},
		{"vu=0 at epoch", 0, 0}, {"vu=1 at epoch", 1, 0}, {"vu=1 at 1ms", 1, ms}, {"vu=1 just before", 1, ms - 1},
		{"vu=2^63", 1 << 63, 0}, {"vu=2^63-1", 1<<63 - 1, 0}, {"vu=2^64-1", 1<<64 - 1, 0}, {"vu=2^64-1 before epoch", 1<<64 - 1, -2 * ms},
		{"vu=0 before epoch", 0, -1},
	}
	emit := func(server string, spec c12DocSpec, now int64, desc string) {
		doc, err := c12BuildDoc(spec)
		if err != nil {
			c.Count("check_keys/unmarshal-error")
			return
		}
		fields, sig := c12DocsJSON([]*c12Doc{doc})
		cfg := fmt.Sprintf(`{"now":%d,"server":"%s","poison":%s,"sig":%s}`, now, server, fields, sig)
		c.Run("C12.check_keys", [][]byte{B(cfg), doc.Raw}, "C12.check_keys", "C12.prop.check_keys", desc)
		c.Count("check_keys")
	}
	for _, kv := range keyVariants {
		for _, cl := range clocks {
			for _, server := range []string{"srvA", "srvB"} {
				d := c12GoodDoc("srvA", "ed25519:a", 0, cl.vu)
				kv.mk(&d)
				emit(server, d, cl.now, "check_keys "+kv.name+" / "+cl.name+" / asked "+server)
			}
		}
	}
	n := c.Scale(200, 4000)
	for i := 0; i < n; i++ {
		d := c12GoodDoc("srvA", "ed25519:a", 0, T)
		for j := c.Rng.Intn(3); j > 0; j-- {
			keyVariants[c.Rng.Intn(len(keyVariants))].mk(&d)
			if len(d.Verify) == 0 {
				break
			}
		}
		cl := clocks[c.Rng.Intn(len(clocks))]
		d.VU = cl.vu
		desc := "check_keys random"
		if c.Rng.Intn(3) == 0 {
			desc += " with member " + g.foldMember(&d)
		}
		emit(c12Servers[c.Rng.Intn(2)], d, cl.now, desc)
	}
}

func (g *c12Gen) publicKey() {
	T := uint64(1700000000000)
	d := c12GoodDoc("srvA", "ed25519:a", 0, T)
	d.Verify = append(d.Verify, c12VerifyKeySpec{Kid: "ed25519:b", Key: c12Pub(1), SignIdx: 1})
	d.Old = []c12OldKeySpec{{"ed25519:old", c12Pub(2), T - 500}, {"ed25519:b", c12Pub(3), T + 500}, {"ed25519:late", c12Pub(4), 1<<63 + 5}}
	doc, err := c12BuildDoc(d)
	if err != nil {
		panic(err)
	}
	fields, _ := c12DocsJSON([]*c12Doc{doc})
	for _, kid := range []string{"ed25519:a", "ed25519:b", "ed25519:old", "ed25519:late", "ed25519:none", ""} {
		for _, base := range []uint64{T, T - 500, T + 500, 0, 1 << 63, 1<<63 + 5, 1<<64 - 1} {
			for _, dd := range []int64{-1, 0, 1} {
				cfg := fmt.Sprintf(`{"kid":"%s","at":%d,"poison":%s}`, kid, base+uint64(dd), fields)
				g.c.Run("C12.public_key", [][]byte{B(cfg), doc.Raw}, "C12.public_key", "", "ServerKeys.PublicKey")
				g.c.Count("public_key")
			}
		}
	}
}

// documents the fetcher generators draw from, by class
func (g *c12Gen) fetchDoc(server string, class int) c12DocSpec {
	now := g.nowMs()
	d := c12GoodDoc(server, "ed25519:a", 0, now+c12Day)
	switch class {
	case 0: // good, one key
	case 1: // good, two keys and old keys
		d.Verify = append(d.Verify, c12VerifyKeySpec{Kid: "ed25519:b", Key: c12Pub(1), SignIdx: 1})
		d.Old = []c12OldKeySpec{{"ed25519:old", c12Pub(2), now - c12Day}, {"ed25519:b", c12Pub(3), now - 2*c12Day}}
	case 2: // valid_until_ts long past but positive: passes the fetchers' check against the epoch
		d.VU = 5
	case 3: // valid_until_ts = 0
		d.VU = 0
	case 4: // bad self-signature
		d.Verify[0].Tamper = true
	case 5: // no ed25519 key
		d.Verify[0].Kid = "rsa:1"
	case 6: // one good key, one unsigned key
		d.Verify = append(d.Verify, c12VerifyKeySpec{Kid: "ed25519:b", Key: c12Pub(1), SignIdx: -1})
	case 7: // another key pair under the same id
		d.Verify[0] = c12VerifyKeySpec{Kid: "ed25519:a", Key: c12Pub(2), SignIdx: 2}
	case 8: // valid_until_ts above int64
		d.VU = 1 << 63
	case 9: // non-ed25519 key next to a good one (passed through unchecked)
		d.Verify = append(d.Verify, c12VerifyKeySpec{Kid: "rsa:1", Key: []byte("rsakey"), SignIdx: -1})
	case 10: // an old key published with expired_ts 0: mapped as neither expired nor valid
		d.Old = []c12OldKeySpec{{"ed25519:old", c12Pub(2), 0}}
	}
	return d
}

const c12DocClasses = 11

func (g *c12Gen) directFetch() {
	c := g.c
	rng := c.Rng
	n := c.Scale(500, 8000)
	servers := []string{"srvA", "srvB", "srvC", "srvL"}
	for i := 0; i < n; i++ {
		var docs []*c12Doc
		addDoc := func(d c12DocSpec) int {
			doc, err := c12BuildDoc(d)
			if err != nil {
				panic(err)
			}
			docs = append(docs, doc)
			return len(docs) - 1
		}
		pickClass := func() int {
			if rng.Intn(2) == 0 {
				return rng.Intn(2)
			}
			return rng.Intn(c12DocClasses)
		}
		fd := func(server string, class int) c12DocSpec {
			d := g.fetchDoc(server, class)
			if rng.Intn(5) == 0 {
				g.foldMember(&d)
				c.Count("direct_fetch/doc-with-extra-member")
			}
			return d
		}
		var asked []string
		seen := map[string]bool{}
		for j := 1 + rng.Intn(5); j > 0; j-- {
			s := servers[rng.Intn(len(servers))]
			k := c12Kids[rng.Intn(3)]
			if seen[s+"/"+k] {
				continue
			}
			seen[s+"/"+k] = true
			asked = append(asked, fmt.Sprintf(`["%s","%s",%d]`, s, k, g.nowMs()-uint64(rng.Intn(100))))
		}
		if rng.Intn(20) == 0 {
			asked = nil
		}
		var get, lookup []string
		for _, s := range servers[:3] {
			switch rng.Intn(6) {
			case 0:
				get = append(get, fmt.Sprintf(`"%s":null`, s))
			case 1: // a document of another server
				get = append(get, fmt.Sprintf(`"%s":%d`, s, addDoc(fd(servers[rng.Intn(3)], pickClass()))))
			default:
				get = append(get, fmt.Sprintf(`"%s":%d`, s, addDoc(fd(s, pickClass()))))
			}
			switch rng.Intn(6) {
			case 0:
				lookup = append(lookup, fmt.Sprintf(`"%s":null`, s))
			case 1:
				lookup = append(lookup, fmt.Sprintf(`"%s":[]`, s))
			default:
				var ix []string
				for k := 1 + rng.Intn(3); k > 0; k-- {
					srv := s
					if rng.Intn(3) == 0 {
						srv = servers[rng.Intn(3)]
					}
					ix = append(ix, strconv.Itoa(addDoc(fd(srv, pickClass()))))
				}
				lookup = append(lookup, fmt.Sprintf(`"%s":[%s]`, s, strings.Join(ix, ",")))
			}
		}
		fields, sig := c12DocsJSON(docs)
		cfg := fmt.Sprintf(`{"now":0,"local":["srvL"],"localkey":"%s","asked":[%s],"get":{%s},"lookup":{%s},"poison":%s,"sig":%s}`,
			c12Keys[4].hex, strings.Join(asked, ","), strings.Join(get, ","), strings.Join(lookup, ","), fields, sig)
		args := [][]byte{B(cfg)}
		for _, d := range docs {
			args = append(args, d.Raw)
		}
		out := c.Run("C12.direct_fetch", args, "C12.direct_fetch", "C12.prop.direct_fetch", "direct fetch")
		c.Count("direct_fetch")
		if strings.Contains(string(out), ";L=;") {
			c.Count("direct_fetch/no-notary-fallback")
		} else {
			c.Count("direct_fetch/notary-fallback")
		}
	}
}

func (g *c12Gen) perspectiveFetch() {
	c := g.c
	rng := c.Rng
	n := c.Scale(500, 8000)
	for i := 0; i < n; i++ {
		var docs []*c12Doc
		var ix []string
		nd := rng.Intn(4)
		for j := 0; j < nd; j++ {
			cls := 0
			if rng.Intn(3) == 0 {
				cls = rng.Intn(c12DocClasses)
			} else {
				cls = rng.Intn(2)
			}
			d := g.fetchDoc(c12Servers[rng.Intn(3)], cls)
			// notary signatures: known ids are "ed25519:n1" (key 3) and, sometimes, "ed25519:n2" (key 4)
			switch rng.Intn(10) {
			case 0: // none
			case 1: // only under an id we hold no key for
				d.Notary = []c12NotarySig{{"notary", "ed25519:zz", 3, false}}
			case 2: // known id, tampered
				d.Notary = []c12NotarySig{{"notary", "ed25519:n1", 3, true}}
			case 3: // known id, signed with another key
				d.Notary = []c12NotarySig{{"notary", "ed25519:n1", 2, false}}
			case 4: // signed by somebody else under the known id
				d.Notary = []c12NotarySig{{"other", "ed25519:n1", 3, false}}
			case 5: // unknown id plus known id
				d.Notary = []c12NotarySig{{"notary", "ed25519:zz", 2, true}, {"notary", "ed25519:n1", 3, false}}
			case 6: // both known ids, both fine
				d.Notary = []c12NotarySig{{"notary", "ed25519:n1", 3, false}, {"notary", "ed25519:n2", 4, false}}
			default:
				d.Notary = []c12NotarySig{{"notary", "ed25519:n1", 3, false}}
			}
			if rng.Intn(25) == 0 {
				d.Poison = true
			}
			if rng.Intn(5) == 0 {
				g.foldMember(&d)
				c.Count("perspective_fetch/doc-with-extra-member")
			}
			doc, err := c12BuildDoc(d)
			if err != nil {
				panic(err)
			}
			docs = append(docs, doc)
			ix = append(ix, strconv.Itoa(j))
		}
		lookup := "[" + strings.Join(ix, ",") + "]"
		if rng.Intn(12) == 0 {
			lookup = "null"
		}
		pkeys := fmt.Sprintf(`["ed25519:n1","%s"]`, c12Keys[3].hex)
		if rng.Intn(2) == 0 {
			pkeys += fmt.Sprintf(`,["ed25519:n2","%s"]`, c12Keys[4].hex)
		}
		var asked []string
		seen := map[string]bool{}
		for j := rng.Intn(4); j > 0; j-- {
			s, k := c12Servers[rng.Intn(3)], c12Kids[rng.Intn(3)]
			if !seen[s+k] {
				seen[s+k] = true
				asked = append(asked, fmt.Sprintf(`["%s","%s",%d]`, s, k, g.nowMs()-uint64(rng.Intn(100))))
			}
		}
		fields, sig := c12DocsJSON(docs)
		cfg := fmt.Sprintf(`{"pname":"notary","pkeys":[%s],"asked":[%s],"lookup":%s,"poison":%s,"sig":%s}`, pkeys, strings.Join(asked, ","), lookup, fields, sig)
		args := [][]byte{B(cfg)}
		for _, d := range docs {
			args = append(args, d.Raw)
		}
		out := c.Run("C12.perspective_fetch", args, "C12.perspective_fetch", "C12.prop.perspective_fetch", "perspective fetch")
		c.Count("perspective_fetch")
		if strings.HasSuffix(string(out), ";E") {
			c.Count("perspective_fetch/error")
		} else {
			c.Count("perspective_fetch/answer")
		}
	}
}

// ---------- F64: member names of key documents ----------
// names that encoding/json's struct decoding takes for the member (case variants, and names that
// only fold to it: U+017F long s for s, U+212A Kelvin sign for k), and the exact name repeated
var c12MemberVariants = map[string][]string{
	"server_name":     {"server_name", "Server_name", "SERVER_NAME", "ſerver_name", "server_Name"},
	"verify_keys":     {"verify_keys", "Verify_keys", "VERIFY_KEYS", "verify_keyſ", "verify_Keys"},
	"old_verify_keys": {"old_verify_keys", "Old_verify_keys", "old_verify_keyſ", "old_verify_Keys"},
	"valid_until_ts":  {"valid_until_ts", "Valid_until_ts", "VALID_UNTIL_TS", "valid_until_tſ"},
}
var c12MemberNames = []string{"server_name", "verify_keys", "old_verify_keys", "valid_until_ts"}

func c12B64(b []byte) string { return base64.RawStdEncoding.EncodeToString(b) }

// a value of the right type for the member, different from what c12GoodDoc puts there
func c12MemberValue(member string, rng interface{ Intn(int) int }) string {
	switch member {
	case "server_name":
		return `"` + c12Servers[1+rng.Intn(2)] + `"`
	case "verify_keys":
		return fmt.Sprintf(`{"ed25519:%s":{"key":"%s"}}`, []string{"a", "x"}[rng.Intn(2)], c12B64(c12Pub(1+rng.Intn(3))))
	case "old_verify_keys":
		return fmt.Sprintf(`{"ed25519:%s":{"expired_ts":%d,"key":"%s"}}`, []string{"a", "o"}[rng.Intn(2)], 1000+rng.Intn(5), c12B64(c12Pub(1+rng.Intn(3))))
	default:
		return []string{"0", "1", "99999999999999", "18446744073709551615"}[rng.Intn(4)]
	}
}

// add one member of the family to d
func (g *c12Gen) foldMember(d *c12DocSpec) string {
	rng := g.c.Rng
	m := c12MemberNames[rng.Intn(len(c12MemberNames))]
	vs := c12MemberVariants[m]
	name := vs[rng.Intn(len(vs))]
	e := c12Member{Name: name, Value: c12MemberValue(m, rng), After: rng.Intn(2) == 0}
	d.Extra = append(d.Extra, e)
	if m == "server_name" && rng.Intn(2) == 0 { // and a self-made signature under the other name
		var other string
		_ = json.Unmarshal([]byte(e.Value), &other)
		for _, k := range d.Verify {
			if k.SignIdx >= 0 {
				d.Notary = append(d.Notary, c12NotarySig{Name: other, Kid: k.Kid, KeyIdx: k.SignIdx})
			}
		}
	}
	pos := "before"
	if e.After {
		pos = "after"
	}
	return name + " " + pos
}

func (g *c12Gen) parseKeyDoc() {
	c := g.c
	T := uint64(1700000000000)
	emit := func(d c12DocSpec, desc string) {
		doc, err := c12BuildDoc(d)
		if err != nil {
			panic(err)
		}
		c.Run("C12.parse_key_doc", [][]byte{doc.Raw}, "C12.parse_key_doc", "", desc)
		c.Count("parse_key_doc")
	}
	base := func() c12DocSpec {
		d := c12GoodDoc("srvA", "ed25519:a", 0, T)
		d.Old = []c12OldKeySpec{{"ed25519:old", c12Pub(2), T - 5}}
		return d
	}
	emit(base(), "key document: regular")
	// every variant of every member, before and after, with a well-typed other value
	for _, m := range c12MemberNames {
		for _, name := range c12MemberVariants[m] {
			for _, after := range []bool{false, true} {
				for rep := 0; rep < 2; rep++ {
					d := base()
					d.Extra = []c12Member{{Name: name, Value: c12MemberValue(m, c.Rng), After: after}}
					emit(d, fmt.Sprintf("key document: extra member %q after=%v", name, after))
					d.Omit = []string{m} // only the variant present
					emit(d, fmt.Sprintf("key document: only %q", name))
				}
			}
		}
	}
	// values of the wrong type or form under the exact names
	bad := map[string][]string{
		"server_name":     {`5`, `null`, `{}`, `["srvA"]`, `true`, `""`},
		"valid_until_ts":  {`"1"`, `-1`, `-0`, `1.5`, `1e3`, `18446744073709551615`, `18446744073709551616`, `null`, `{}`, `9223372036854775808`},
		"verify_keys":     {`[]`, `"x"`, `null`, `5`, `{"ed25519:a":5}`, `{"ed25519:a":{"key":5}}`, `{"ed25519:a":{"key":"!!"}}`, `{"ed25519:a":null}`, `{"ed25519:a":{}}`, `{"ed25519:a":{"key":null}}`, `{"ed25519:a":{"key":"QUJD"},"ed25519:a":{"key":"REVG"}}`, `{"ed25519:a":{"key":"QQ"}}`, `{"ed25519:a":{"key":"Q"}}`, `{"ed25519:a":{"key":"QUJD-_"}}`, `{"ed25519:a":{"key":"QUJD+/"}}`, `{"ed25519:a":{"key":"QUJD="}}`, `{}`},
		"old_verify_keys": {`[]`, `null`, `{"ed25519:o":{"key":"QUJD"}}`, `{"ed25519:o":{"expired_ts":"5","key":"QUJD"}}`, `{"ed25519:o":{"expired_ts":-1,"key":"QUJD"}}`, `{"ed25519:o":{"expired_ts":7}}`, `{"ed25519:o":null}`, `{"ed25519:o":5}`, `{"ed25519:o":{"expired_ts":18446744073709551615,"key":"QUJD"}}`},
	}
	for _, m := range c12MemberNames {
		for _, v := range bad[m] {
			d := base()
			d.Omit = []string{m}
			d.Extra = []c12Member{{Name: m, Value: v}}
			emit(d, "key document: "+m+" = "+v)
			// a folded member carrying the bad value next to the good exact one must not matter
			d = base()
			d.Extra = []c12Member{{Name: c12MemberVariants[m][1], Value: v, After: true}}
			emit(d, "key document: "+c12MemberVariants[m][1]+" = "+v)
		}
	}
	for _, raw := range []string{``, `null`, `[]`, `5`, `"x"`, `{}`, `{"server_name":"a"`, `{"signatures":{}}`, `{"server_name":"a","server_name":"b"}`,
		`{"verify_keys":{"ed25519:a":{"key":"QUJD"}},"verify_keys":{"ed25519:b":{"key":"REVG"}}}`} {
		c.Run("C12.parse_key_doc", [][]byte{B(raw)}, "C12.parse_key_doc", "", "key document: "+raw)
		c.Count("parse_key_doc")
	}
	n := c.Scale(150, 3000)
	for i := 0; i < n; i++ {
		d := base()
		desc := ""
		for j := 1 + c.Rng.Intn(3); j > 0; j-- {
			desc += g.foldMember(&d) + "; "
		}
		emit(d, "key document: random extra members "+desc)
	}
}

// the planted-key scenario and its neighbours, through the perspective and the direct fetcher
func (g *c12Gen) plantedKey() {
	c := g.c
	now := g.nowMs()
	for _, name := range append(append([]string{}, c12MemberVariants["server_name"]...), "zerver_name") {
		for _, after := range []bool{false, true} {
			for _, selfSigned := range []bool{true, false} {
				for _, askVictim := range []bool{false, true} {
					// srvA (evil) publishes its own valid document with a second name member for srvB (victim)
					d := c12GoodDoc("srvA", "ed25519:a", 0, now+c12Day)
					d.Extra = []c12Member{{Name: name, Value: `"srvB"`, After: after}}
					if selfSigned {
						d.Notary = append(d.Notary, c12NotarySig{Name: "srvB", Kid: "ed25519:a", KeyIdx: 0})
					}
					d.Notary = append(d.Notary, c12NotarySig{Name: "notary", Kid: "ed25519:n1", KeyIdx: 3})
					doc, err := c12BuildDoc(d)
					if err != nil {
						panic(err)
					}
					_, sig := c12DocsJSON([]*c12Doc{doc})
					asked := fmt.Sprintf(`["srvA","ed25519:a",%d]`, now)
					if askVictim {
						asked += fmt.Sprintf(`,["srvB","ed25519:a",%d]`, now)
					}
					desc := fmt.Sprintf("planted key: member %q after=%v signed-as-victim=%v victim-asked=%v", name, after, selfSigned, askVictim)
					cfg := fmt.Sprintf(`{"pname":"notary","pkeys":[["ed25519:n1","%s"]],"asked":[%s],"lookup":[0],"sig":%s}`, c12Keys[3].hex, asked, sig)
					c.Run("C12.perspective_fetch", [][]byte{B(cfg), doc.Raw}, "C12.perspective_fetch", "C12.prop.perspective_fetch", desc+" (perspective)")
					// the same document served directly by srvA, and by srvA when asked as srvB's notary
					cfg = fmt.Sprintf(`{"now":0,"local":[],"localkey":"%s","asked":[%s],"get":{"srvA":0,"srvB":null},"lookup":{"srvB":[0]},"sig":%s}`, c12Keys[4].hex, asked, sig)
					c.Run("C12.direct_fetch", [][]byte{B(cfg), doc.Raw}, "C12.direct_fetch", "C12.prop.direct_fetch", desc+" (direct)")
					c.Count("planted-key")
				}
			}
		}
	}
	// an honest notary answers for a server nobody asked about (correctly named and signed): ignored
	for _, second := range []bool{false, true} {
		d1 := c12GoodDoc("srvA", "ed25519:a", 0, now+c12Day)
		d1.Notary = []c12NotarySig{{"notary", "ed25519:n1", 3, false}}
		d2 := c12GoodDoc("srvC", "ed25519:a", 1, now+c12Day)
		d2.Notary = []c12NotarySig{{"notary", "ed25519:n1", 3, false}}
		if second {
			d2.Verify[0].Tamper = true // and it would not even pass its checks
		}
		doc1, _ := c12BuildDoc(d1)
		doc2, _ := c12BuildDoc(d2)
		_, sig := c12DocsJSON([]*c12Doc{doc1, doc2})
		cfg := fmt.Sprintf(`{"pname":"notary","pkeys":[["ed25519:n1","%s"]],"asked":[["srvA","ed25519:a",%d]],"lookup":[0,1],"sig":%s}`, c12Keys[3].hex, now, sig)
		c.Run("C12.perspective_fetch", [][]byte{B(cfg), doc1.Raw, doc2.Raw}, "C12.perspective_fetch", "C12.prop.perspective_fetch", "perspective: response about a server that was not asked for")
		c.Count("planted-key")
	}
}
