package main

// C13: federation request authentication (fclient/request.go).
// The real pipeline NewFederationRequest -> SetContent -> Sign (real ed25519) -> HTTPRequest is
// run in-process; the client-side request is turned into what a net/http server hands to a
// handler (URL from url.ParseRequestURI of the request target, non-nil Body) and given to
// VerifyHTTPRequest with a real gomatrixserverlib.KeyRing over an in-memory key database.

import (
	"bytes"
	"context"
	"crypto/ed25519"
	"crypto/sha256"
	"encoding/hex"
	"encoding/json"
	"errors"
	"fmt"
	"io"
	"mime"
	"net/http"
	"net/url"
	"sort"
	"strconv"
	"strings"
	"time"
	"unicode/utf8"

	"github.com/matrix-org/gomatrixserverlib"
	"github.com/matrix-org/gomatrixserverlib/fclient"
	"github.com/matrix-org/gomatrixserverlib/spec"
	"github.com/sirupsen/logrus"
)

type c13KeyPair struct {
	pub  ed25519.PublicKey
	priv ed25519.PrivateKey
}

var c13KeyCache = map[string]c13KeyPair{}

func c13Key(label string) c13KeyPair {
	if k, ok := c13KeyCache[label]; ok {
		return k
	}
	seed := sha256.Sum256([]byte("c13-key-" + label))
	priv := ed25519.NewKeyFromSeed(seed[:])
	k := c13KeyPair{pub: priv.Public().(ed25519.PublicKey), priv: priv}
	c13KeyCache[label] = k
	return k
}

type c13DB struct {
	keys map[gomatrixserverlib.PublicKeyLookupRequest]gomatrixserverlib.PublicKeyLookupResult
	fail bool
}

func (d *c13DB) FetcherName() string { return "c13db" }
func (d *c13DB) FetchKeys(_ context.Context, reqs map[gomatrixserverlib.PublicKeyLookupRequest]spec.Timestamp) (map[gomatrixserverlib.PublicKeyLookupRequest]gomatrixserverlib.PublicKeyLookupResult, error) {
	if d.fail {
		return nil, errors.New("database down")
	}
	out := map[gomatrixserverlib.PublicKeyLookupRequest]gomatrixserverlib.PublicKeyLookupResult{}
	for r := range reqs {
		if k, ok := d.keys[r]; ok {
			out[r] = k
		}
	}
	return out, nil
}
func (d *c13DB) StoreKeys(context.Context, map[gomatrixserverlib.PublicKeyLookupRequest]gomatrixserverlib.PublicKeyLookupResult) error {
	return nil
}

func c13Line(name string, v []byte) string { return name + "=" + hex.EncodeToString(v) }
func c13OLine(name string, v []byte, present bool) string {
	if !present {
		return name + "=-"
	}
	return name + "=+" + hex.EncodeToString(v)
}

type c13Step struct{ server, keyid, label string }

// what the sender side produced
type c13Sent struct {
	stage    string // "content=err", "sign=err", "" (signed or unsigned)
	sigTexts []string
	signed   []byte
	sigcheck bool
	m, o, d, u string
	c        []byte // nil = no content
	urlRT    string
	httpOK   bool
	hm, ht   string
	hc       []byte
	hcOK     bool
	hb       []byte
	hbOK     bool
	ha       []string
}

func c13DoSend(method, origin0, dest, uri string, hasC bool, content []byte, steps []c13Step) c13Sent {
	var s c13Sent
	s.sigcheck = true
	r := fclient.NewFederationRequest(method, spec.ServerName(origin0), spec.ServerName(dest), uri)
	if hasC {
		if err := r.SetContent(spec.RawJSON(content)); err != nil {
			s.stage = "content=err"
			return s
		}
	}
	for _, st := range steps {
		kp := c13Key(st.label)
		if err := r.Sign(spec.ServerName(st.server), gomatrixserverlib.KeyID(st.keyid), kp.priv); err != nil {
			s.stage = "sign=err"
			return s
		}
		sigs := r.VerifC13Signatures(string(r.Origin()))
		txt := sigs[string(toValidUTF8(st.keyid))]
		s.sigTexts = append(s.sigTexts, txt)
		// the bytes that were signed, recomputed from the signing structure and checked
		// against the real signature
		fj, err := r.VerifC13FieldsJSON()
		if err != nil {
			s.sigcheck = false
			continue
		}
		var obj map[string]json.RawMessage
		if json.Unmarshal(fj, &obj) != nil {
			s.sigcheck = false
			continue
		}
		delete(obj, "signatures")
		delete(obj, "unsigned")
		uj, _ := json.Marshal(obj)
		m, err := gomatrixserverlib.CanonicalJSON(uj)
		if err != nil {
			s.sigcheck = false
			continue
		}
		s.signed = m
		var sb spec.Base64Bytes
		if sb.Decode(txt) != nil || !ed25519.Verify(kp.pub, m, sb) {
			s.sigcheck = false
		}
	}
	s.m, s.o, s.d, s.u = r.Method(), string(r.Origin()), string(r.Destination()), r.RequestURI()
	if c := r.Content(); c != nil {
		s.c = c
	}
	if pu, err := url.Parse("matrix://" + s.d + s.u); err != nil {
		s.urlRT = "E"
	} else {
		s.urlRT = "U" + pu.RequestURI()
	}
	hr, err := r.HTTPRequest()
	if err != nil {
		return s
	}
	s.httpOK = true
	s.hm, s.ht = hr.Method, hr.URL.RequestURI()
	if v, ok := hr.Header["Content-Type"]; ok && len(v) > 0 {
		s.hc, s.hcOK = []byte(v[0]), true
	}
	if hr.Body != nil {
		b, _ := io.ReadAll(hr.Body)
		s.hb, s.hbOK = b, true
	}
	s.ha = append([]string{}, hr.Header["Authorization"]...)
	sort.Strings(s.ha)
	return s
}

func toValidUTF8(s string) string {
	// what encoding/json makes of a Go string (each invalid byte becomes U+FFFD)
	var b strings.Builder
	for i := 0; i < len(s); {
		r, n := utf8.DecodeRuneInString(s[i:])
		if r == utf8.RuneError && n == 1 {
			b.WriteString("�")
		} else {
			b.WriteString(s[i : i+n])
		}
		i += n
	}
	return b.String()
}

func (s c13Sent) observable(nsteps int) []byte {
	if s.stage != "" {
		return []byte(s.stage)
	}
	var ls []string
	if nsteps == 0 {
		ls = append(ls, "sign=none")
	} else {
		ls = append(ls, "sign=ok")
	}
	if !s.sigcheck {
		ls = append(ls, "sigcheck=bad")
	}
	ls = append(ls, c13Line("signed", s.signed), c13Line("m", []byte(s.m)), c13Line("o", []byte(s.o)),
		c13Line("d", []byte(s.d)), c13Line("u", []byte(s.u)), c13OLine("c", s.c, s.c != nil))
	if !s.httpOK {
		ls = append(ls, "http=err")
		return []byte(strings.Join(ls, "\n"))
	}
	ls = append(ls, "http=ok", c13Line("hm", []byte(s.hm)), c13Line("ht", []byte(s.ht)),
		c13OLine("hc", s.hc, s.hcOK), c13OLine("hb", s.hb, s.hbOK))
	for _, a := range s.ha {
		ls = append(ls, c13Line("ha", []byte(a)))
	}
	return []byte(strings.Join(ls, "\n"))
}

func c13SendArgs(method, origin0, dest, uri string, hasC bool, content []byte, steps []c13Step) [][]byte {
	hc := "0"
	if hasC {
		hc = "1"
	}
	a := [][]byte{B(method), B(origin0), B(dest), B(uri), B(hc), content, B(""), B(strconv.Itoa(len(steps)))}
	for _, st := range steps {
		a = append(a, B(st.server), B(st.keyid), B(st.label), B(""))
	}
	return a
}

// a scenario for the receiving side
type c13Key5 struct{ server, keyid, label, expired, validUntil string }
type c13Signed struct {
	label, m, u, o, d string
	hasC              bool
	c                 []byte
	sig               string
}
type c13Scn struct {
	flags    string
	method   string
	ruri     string
	ctype    string
	body     []byte
	now      string
	def      string
	localsOn bool
	locals   []string
	auths    []string
	dberr    bool
	keys     []c13Key5
	signed   []c13Signed
}

func (s c13Scn) clone() c13Scn {
	t := s
	t.body = append([]byte{}, s.body...)
	t.locals = append([]string{}, s.locals...)
	t.auths = append([]string{}, s.auths...)
	t.keys = append([]c13Key5{}, s.keys...)
	t.signed = append([]c13Signed{}, s.signed...)
	return t
}

func (s c13Scn) args() [][]byte {
	lm := "nil"
	if s.localsOn {
		lm = "list"
	}
	a := [][]byte{B(s.flags), B(s.method), B(s.ruri), B(s.ctype), s.body, B(s.now), B("@"), B(s.def), B(lm), B(strconv.Itoa(len(s.locals)))}
	for _, l := range s.locals {
		a = append(a, B(l))
	}
	a = append(a, B(strconv.Itoa(len(s.auths))))
	for _, h := range s.auths {
		a = append(a, B(h))
	}
	if s.dberr {
		a = append(a, B("1"))
	} else {
		a = append(a, B("0"))
	}
	a = append(a, B(strconv.Itoa(len(s.keys))))
	for _, k := range s.keys {
		a = append(a, B(k.server), B(k.keyid), B(k.label), B(k.expired), B(k.validUntil))
	}
	a = append(a, B(strconv.Itoa(len(s.signed))))
	for _, g := range s.signed {
		hc := "0"
		if g.hasC {
			hc = "1"
		}
		a = append(a, B(g.label), B(g.m), B(g.u), B(g.o), B(g.d), B(hc), g.c, B(g.sig))
	}
	return a
}

// "@+N" / "@-N" / "@" are relative to the clock reading taken just before the call
func c13Time(s string, realnow int64) string {
	if strings.HasPrefix(s, "@") {
		off := int64(0)
		if len(s) > 1 {
			off, _ = strconv.ParseInt(s[1:], 10, 64)
		}
		return strconv.FormatInt(realnow+off, 10)
	}
	return s
}

func c13Verify(args [][]byte) ([][]byte, []byte) {
	final := append([][]byte{}, args...)
	if len(args) < 10 {
		return final, B("harness-args")
	}
	realnow := time.Now().UnixMilli()
	final[5] = B(c13Time(string(args[5]), realnow))
	final[6] = B(strconv.FormatInt(realnow, 10))
	idx := 9
	take := func() []byte { v := final[idx]; idx++; return v }
	n, _ := strconv.Atoi(string(take()))
	var locals []string
	for i := 0; i < n; i++ {
		locals = append(locals, string(take()))
	}
	n, _ = strconv.Atoi(string(take()))
	var auths []string
	for i := 0; i < n; i++ {
		auths = append(auths, string(take()))
	}
	db := &c13DB{keys: map[gomatrixserverlib.PublicKeyLookupRequest]gomatrixserverlib.PublicKeyLookupResult{}}
	db.fail = string(take()) == "1"
	n, _ = strconv.Atoi(string(take()))
	for i := 0; i < n; i++ {
		server, keyid, label := string(take()), string(take()), string(take())
		final[idx] = B(c13Time(string(final[idx]), realnow))
		exp, _ := strconv.ParseUint(string(take()), 10, 64)
		final[idx] = B(c13Time(string(final[idx]), realnow))
		vu, _ := strconv.ParseUint(string(take()), 10, 64)
		lk := gomatrixserverlib.PublicKeyLookupRequest{ServerName: spec.ServerName(server), KeyID: gomatrixserverlib.KeyID(keyid)}
		if _, dup := db.keys[lk]; dup {
			continue // first entry wins, as in the model
		}
		db.keys[lk] = gomatrixserverlib.PublicKeyLookupResult{
			VerifyKey:    gomatrixserverlib.VerifyKey{Key: spec.Base64Bytes(c13Key(label).pub)},
			ExpiredTS:    spec.Timestamp(exp),
			ValidUntilTS: spec.Timestamp(vu),
		}
	}
	method, ruri, ctype, body := string(args[1]), string(args[2]), string(args[3]), args[4]
	u, err := url.ParseRequestURI(ruri)
	if err != nil || u.RequestURI() != ruri {
		return final, B("harness-uri")
	}
	req := &http.Request{Method: method, URL: u, Header: http.Header{}, Proto: "HTTP/1.1", ProtoMajor: 1, ProtoMinor: 1,
		Body: io.NopCloser(bytes.NewReader(body)), RequestURI: ruri, Host: "receiver", ContentLength: int64(len(body))}
	if ctype != "" {
		req.Header.Set("Content-Type", ctype)
	}
	for _, h := range auths {
		req.Header.Add("Authorization", h)
	}
	var isLocal func(spec.ServerName) bool
	if string(args[8]) != "nil" {
		isLocal = func(s spec.ServerName) bool {
			for _, l := range locals {
				if l == string(s) {
					return true
				}
			}
			return false
		}
	}
	nowMs, _ := strconv.ParseInt(string(final[5]), 10, 64)
	kr := gomatrixserverlib.KeyRing{KeyDatabase: db}
	fr, resp := fclient.VerifyHTTPRequest(req, time.UnixMilli(nowMs), spec.ServerName(args[7]), isLocal, kr)
	ls := []string{"code=" + strconv.Itoa(resp.Code)}
	if fr != nil {
		c := fr.Content()
		ls = append(ls, c13Line("m", []byte(fr.Method())), c13Line("o", []byte(fr.Origin())), c13Line("d", []byte(fr.Destination())),
			c13Line("u", []byte(fr.RequestURI())), c13OLine("c", c, c != nil))
	}
	return final, []byte(strings.Join(ls, "\n"))
}

func init() {
	logrus.SetOutput(io.Discard)
	RegisterImpl("C13.send", func(args [][]byte) ([][]byte, []byte) {
		final := append([][]byte{}, args...)
		n, _ := strconv.Atoi(string(args[7]))
		var steps []c13Step
		for i := 0; i < n; i++ {
			steps = append(steps, c13Step{string(args[8+4*i]), string(args[9+4*i]), string(args[10+4*i])})
		}
		s := c13DoSend(string(args[0]), string(args[1]), string(args[2]), string(args[3]), string(args[4]) == "1", args[5], steps)
		final[6] = B(s.urlRT)
		for i, t := range s.sigTexts {
			final[11+4*i] = B(t)
		}
		return final, s.observable(n)
	})
	RegisterImpl("C13.verify", c13Verify)
	// [method; origin; dest; uri; has_content; content; keyid; url_rt (filled in)]: Sign + HTTPRequest,
	// then VerifyHTTPRequest at a receiver named dest that holds the signing key, valid now
	RegisterImpl("C13.roundtrip", func(args [][]byte) ([][]byte, []byte) {
		final := append([][]byte{}, args...)
		st := c13Step{string(args[1]), string(args[6]), "K1"}
		s := c13DoSend(string(args[0]), "", string(args[2]), string(args[3]), string(args[4]) == "1", args[5], []c13Step{st})
		final[7] = B(s.urlRT)
		if s.stage != "" {
			return final, B(s.stage)
		}
		if !s.httpOK {
			return final, B("http=err")
		}
		if len(s.ha) != 1 {
			return final, B("http=headers:" + strconv.Itoa(len(s.ha)))
		}
		sc, ok := c13Base(s, st, string(args[2]))
		if !ok {
			return final, B("target=unparsable")
		}
		_, out := c13Verify(sc.args())
		return final, out
	})
	RegisterImpl("C13.parse_auth", func(args [][]byte) ([][]byte, []byte) {
		scheme, o, d, k, g := fclient.ParseAuthorization(string(args[0]))
		return args, []byte(strings.Join([]string{c13Line("s", []byte(scheme)), c13Line("o", []byte(o)), c13Line("d", []byte(d)),
			c13Line("k", []byte(k)), c13Line("g", []byte(g))}, "\n"))
	})
	RegisterImpl("C13.server_name", func(args [][]byte) ([][]byte, []byte) {
		_, _, ok := spec.ParseAndValidateServerName(spec.ServerName(args[0]))
		return args, B(strconv.FormatBool(ok))
	})
	RegisterImpl("C13.content_type", func(args [][]byte) ([][]byte, []byte) {
		mt, _, err := mime.ParseMediaType(string(args[0]))
		return args, B(strconv.FormatBool(err == nil && mt == "application/json"))
	})
	RegisterImpl("C13.b64", func(args [][]byte) ([][]byte, []byte) {
		var b spec.Base64Bytes
		if err := b.Decode(string(args[0])); err != nil {
			return args, B("err")
		}
		return args, B("ok " + hex.EncodeToString(b))
	})
	RegisterImpl("C13.utf8", func(args [][]byte) ([][]byte, []byte) {
		// utf8.Valid and the JSON round trip of a Go string
		j, _ := json.Marshal(string(args[0]))
		var back string
		_ = json.Unmarshal(j, &back)
		return args, B(strconv.FormatBool(utf8.Valid(args[0])) + " " + hex.EncodeToString([]byte(back)))
	})
	RegisterProp("C13", genC13)
}

// ---------------------------------------------------------------------------------------------

func c13Base(s c13Sent, st c13Step, dest string) (c13Scn, bool) {
	u, err := url.ParseRequestURI(s.ht)
	if err != nil {
		return c13Scn{}, false
	}
	sc := c13Scn{flags: "H", method: s.hm, ruri: u.RequestURI(), ctype: string(s.hc), body: s.hb, now: "@", def: dest,
		auths: append([]string{}, s.ha...),
		keys:  []c13Key5{{s.o, toValidUTF8(st.keyid), st.label, "0", "@+3600000"}},
		signed: []c13Signed{{st.label, s.m, s.u, s.o, s.d, s.c != nil, s.c, s.sigTexts[len(s.sigTexts)-1]}}}
	return sc, true
}

func genC13(c *Ctx) {
	pick := func(l []string) string { return l[c.Rng.Intn(len(l))] }
	runV := func(sc c13Scn, desc string) []byte {
		c.Count("verify/" + strings.SplitN(desc, ":", 2)[0])
		return c.Run("C13.verify", sc.args(), "C13.verify", "C13.prop.verify", desc)
	}

	methods := []string{"GET", "PUT", "POST", "DELETE", "get", "Put", "PATCH", "M-SEARCH", "X!#$%&'*+-.^_`|~9"}
	badMethods := []string{"", "G T", "GET\n", "G(T", "G\"T", "GÉT"}
	uris := []string{"/_matrix/federation/v1/send/123", "/_matrix/federation/v1/state/%21room%3Aexample.org?event_id=%24abc",
		"/a?b=c&d=e", "/a%2Fb", "/a%2fb", "/", "/a/../b", "/a//b", "/a?", "/a?b=%zz", "/%41", "/a;b", "/a:b", "//x/a",
		"/%C3%A9", "/a?q=é", "/a?x=1&x=2", "/a?b=c+d", "/a?b=c%20d", "/~user", "/a!$&'()*+,;=:@"}
	badUris := []string{"", "a", "/a b", "/a#frag", "/a?b#frag", "/é", "/a%zz", "/\x7f", "/a?b=\x01", "/a?x=\xff", "/[", "/a\\b", "/a\"b", "/a?b c"}
	origins := []string{"origin.example", "o.example:8448", "[::1]:8448", "[2001:db8::1]", "1.2.3.4", "1.2.3.4:8448", "localhost", "xn--bcher-kva.example", "UPPER.Example", "a-b.c-d.example:1"}
	badOrigins := []string{"bad_name", "exa mple", "a:b", "host:", "[::1", "::1", "[::1]:99999", "host:65536", "é.example", "o.example/", "[::g]", "[1.2.3.4.5]"}
	dests := []string{"dest.example", "dest.example:8448", "[2001:db8::2]:8448", "10.0.0.1", "other.example"}
	keyIDs := []string{"ed25519:k1", "ed25519:a_B9", "ed25519:auto", "ed25519:0"}
	oddKeyIDs := []string{"ed25519:", "rsa:1", "ed25519:k 1", "ed25519:a,b", "ed25519:a=b", "ed25519:é", "ed25519:q\"x", "ed25519:b\\s", "ed25519:\x7f", "ED25519:k", " ed25519:k ", "ed25519:\tk"}
	bodies := []string{`{}`, `{"a":1}`, `{"b": [1, 2, {"c": null}], "a": "x y"}`, `[]`, `[1,"two",false]`, `"str"`, `12`, `null`, `true`,
		`{"k":"<&>"}`, `{"k":"éé😀"}`, `{"n":1.5,"m":1e3,"z":-0}`, `{"pdus":[{"type":"m.room.message","content":{"body":"hi"}}],"edus":[]}`,
		` { "a" : 1 } `, `{"a":"A\n\t\\\""}`, `{"":""}`, `{"a":{"a":{"a":{}}}}`, `{"a":1,"b":2}`, `{"a":1,"a":2,"b":{"c":1,"c":0}}`, `{"q\"k":1,"b\\s":2,"t\tb":[{"\u00e9\n":null}]}`}

	// ---- 1. the sending side: every combination class, compared field by field ----
	sendCase := func(method, o0, dest, uri string, hasC bool, content string, steps []c13Step, desc string) {
		c.Run("C13.send", c13SendArgs(method, o0, dest, uri, hasC, B(content), steps), "C13.send", "", desc)
		c.Count("send/" + desc)
	}
	k1 := func(o string) []c13Step { return []c13Step{{o, "ed25519:k1", "K1"}} }
	for _, m := range append(append([]string{}, methods...), badMethods...) {
		sendCase(m, "origin.example", "dest.example", "/a?b=c", false, "", k1("origin.example"), "method")
	}
	for _, u := range append(append([]string{}, uris...), badUris...) {
		sendCase("GET", "origin.example", "dest.example", u, false, "", k1("origin.example"), "uri")
		sendCase("PUT", "", "[2001:db8::2]:8448", u, true, `{"a":1}`, k1("origin.example"), "uri")
	}
	for _, o := range append(append([]string{}, origins...), badOrigins...) {
		sendCase("GET", o, "dest.example", "/a", false, "", k1(o), "origin")
		sendCase("GET", "", "dest.example", "/a", false, "", k1(o), "origin")
		sendCase("GET", "origin.example", o, "/a", false, "", k1("origin.example"), "dest")
	}
	for _, o := range []string{"o\"x", "o\\x", "o\x00x", "o\x7fx", "o\tx", "o x", "o,x", "o\xffx", "oéx", ""} {
		sendCase("GET", o, "dest.example", "/a", false, "", k1(o), "origin-unsafe")
		sendCase("GET", "origin.example", o, "/a", false, "", k1("origin.example"), "dest-unsafe")
	}
	for _, k := range append(append([]string{}, keyIDs...), oddKeyIDs...) {
		sendCase("GET", "origin.example", "dest.example", "/a", false, "", []c13Step{{"origin.example", k, "K1"}}, "keyid")
	}
	for _, b := range append(append([]string{}, bodies...), ``, ` `, `{`, `{"a":1}x`, `{'a':1}`, "{\"a\":\"\x01\"}", `{"a":01}`, "\xef\xbb\xbf{}", "{\"a\":\"\xff\"}") {
		sendCase("PUT", "origin.example", "dest.example", "/a", true, b, k1("origin.example"), "content")
	}
	// signing steps: none, by another server, twice with two keys, twice with the same key
	sendCase("GET", "origin.example", "dest.example", "/a", false, "", nil, "steps")
	sendCase("PUT", "origin.example", "dest.example", "/a", true, `{"a":1}`, nil, "steps")
	sendCase("GET", "origin.example", "dest.example", "/a", false, "", k1("other.example"), "steps")
	sendCase("GET", "origin.example", "dest.example", "/a", true, `{"a":[2,1]}`, []c13Step{{"origin.example", "ed25519:k1", "K1"}, {"origin.example", "ed25519:k2", "K2"}}, "steps")
	sendCase("GET", "origin.example", "dest.example", "/a", false, "", []c13Step{{"origin.example", "ed25519:k1", "K1"}, {"origin.example", "ed25519:k1", "K2"}}, "steps")
	sendCase("GET", "origin.example", "dest.example", "/a", false, "", []c13Step{{"origin.example", "ed25519:k1", "K1"}, {"other.example", "ed25519:k2", "K2"}}, "steps")
	n := c.Scale(300, 4000)
	for i := 0; i < n; i++ {
		m, u, o, d, k := pick(methods), pick(uris), pick(origins), pick(dests), pick(keyIDs)
		switch c.Rng.Intn(12) {
		case 0:
			m = pick(badMethods)
		case 1:
			u = pick(badUris)
		case 2:
			o = pick(badOrigins)
		case 3:
			k = pick(oddKeyIDs)
		case 4:
			d = pick(badOrigins)
		}
		hasC := c.Rng.Intn(2) == 0
		b := ""
		if hasC {
			b = pick(bodies)
		}
		sendCase(m, "", d, u, hasC, b, []c13Step{{o, k, "K1"}}, "random")
	}

	// ---- 2. honest round trips over the whole product of classes (must be accepted) ----
	type sentCase struct {
		s    c13Sent
		st   c13Step
		dest string
	}
	var good []sentCase
	mk := func(m, o, d, u string, hasC bool, b string, k string) (sentCase, bool) {
		st := c13Step{o, k, "K1"}
		s := c13DoSend(m, "", d, u, hasC, B(b), []c13Step{st})
		if s.stage != "" || !s.httpOK || len(s.ha) != 1 {
			return sentCase{}, false
		}
		return sentCase{s, st, d}, true
	}
	for _, m := range methods {
		for _, o := range origins[:4] {
			if sc, ok := mk(m, o, pick(dests), pick(uris), c.Rng.Intn(2) == 0, pick(bodies), pick(keyIDs)); ok {
				good = append(good, sc)
			}
		}
	}
	for _, u := range uris {
		for _, b := range []string{"", bodies[c.Rng.Intn(len(bodies))]} {
			if sc, ok := mk(pick(methods), pick(origins), pick(dests), u, b != "", b, pick(keyIDs)); ok {
				good = append(good, sc)
			}
		}
	}
	for _, b := range bodies {
		if sc, ok := mk("PUT", pick(origins), pick(dests), pick(uris), true, b, pick(keyIDs)); ok {
			good = append(good, sc)
		}
	}
	for _, o := range origins {
		for _, d := range dests {
			if sc, ok := mk("PUT", o, d, "/a", true, `{"a":1}`, "ed25519:k1"); ok {
				good = append(good, sc)
			}
		}
	}
	for _, k := range append(append([]string{}, keyIDs...), "ed25519:k 1", "ed25519:a=b", "ed25519:é", "ed25519:a,b", "rsa:1", "ed25519:") {
		if sc, ok := mk("GET", "origin.example", "dest.example", "/a", false, "", k); ok {
			good = append(good, sc)
		}
	}
	for _, g := range good {
		sc, ok := c13Base(g.s, g.st, g.dest)
		if !ok {
			continue
		}
		// key IDs outside the property's grammar are not covered by the honest claim
		if !c13KeyIDOK(g.st.keyid) {
			sc.flags = "-"
		}
		runV(sc, "honest: default name")
		t := sc.clone()
		t.localsOn, t.locals, t.def = true, []string{"first.example", g.dest, "third.example"}, "first.example"
		runV(t, "honest: one of several local names")
	}

	// ---- 2a. completeness on the implementation's outcome: the whole product of server-name
	// classes (DNS, IPv4, bracketed IPv6, each with and without port) for origin and destination,
	// with key IDs, bodies, methods and URIs; out-of-domain values ride along (the oracle decides) ----
	rtNames := []string{"origin.example", "o.example:8448", "localhost", "a-b.c-d.example:1", "UPPER.Example", "1.2.3.4", "1.2.3.4:8448", "[::1]", "[::1]:8448",
		"[2001:db8::1]", "[2001:db8::2]:8448", "[::ffff:1.2.3.4]:443", "[1:2:3:4:5:6:7:8]", "xn--bcher-kva.example:65535"}
	rt := func(m, o, d, u string, b string, k string, desc string) {
		hc := "0"
		if b != "" {
			hc = "1"
		}
		c.Run("C13.roundtrip", [][]byte{B(m), B(o), B(d), B(u), B(hc), B(b), B(k), B("")}, "", "C13.prop.roundtrip", desc)
		c.Count("roundtrip/" + desc)
	}
	for _, o := range rtNames {
		for _, d := range rtNames {
			b := ""
			if c.Rng.Intn(2) == 0 {
				b = pick(bodies)
			}
			rt(pick(methods), o, d, pick(uris), b, pick(keyIDs), "names product")
		}
	}
	for _, m := range append(append([]string{}, methods...), badMethods...) {
		rt(m, pick(rtNames), pick(rtNames), "/a?b=c", "", "ed25519:k1", "methods")
	}
	for _, u := range append(append([]string{}, uris...), badUris...) {
		rt("GET", pick(rtNames), pick(rtNames), u, "", "ed25519:k1", "uris")
		rt("PUT", pick(rtNames), pick(rtNames), u, pick(bodies), "ed25519:k1", "uris")
	}
	for _, b := range append(append([]string{}, bodies...), ` `, `{`, "{\"a\":\"\xff\"}", `{"a":01}`) {
		rt("PUT", pick(rtNames), pick(rtNames), "/a", b, pick(keyIDs), "bodies")
	}
	for _, k := range append(append([]string{}, keyIDs...), oddKeyIDs...) {
		rt("GET", pick(rtNames), pick(rtNames), "/a", "", k, "key ids")
	}
	for _, o := range append(append([]string{}, badOrigins...), "o.example:65536", "") {
		rt("GET", o, "dest.example", "/a", "", "ed25519:k1", "names outside the grammar")
		rt("GET", "origin.example", o, "/a", "", "ed25519:k1", "names outside the grammar")
	}
	for i, m := 0, c.Scale(300, 5000); i < m; i++ {
		b := ""
		if c.Rng.Intn(2) == 0 {
			b = pick(bodies)
		}
		rt(pick(methods), pick(rtNames), pick(rtNames), pick(uris), b, pick(keyIDs), "random")
	}

	// ---- 2b. requests really signed by a key stored under a name that is not a valid server name
	// (port out of range, signed port, ...): the signature is fine, the origin is not ----
	for _, o := range append(append([]string{}, badOrigins...), "o.example:65536", "o.example:99999", "o.example:-1", "o.example:+8448", "o.example:", "o.example:65535", "o.example:0", "o.example:080", "[::1]:65536", "1.2.3.4:-1") {
		g, ok := mk("PUT", o, "dest.example", "/a", true, `{"a":1}`, "ed25519:k1")
		if !ok {
			continue
		}
		sc, ok := c13Base(g.s, g.st, g.dest)
		if !ok {
			continue
		}
		sc.flags = "-"
		runV(sc, "signed by origin name: "+strconv.Quote(o))
	}
	// ---- 2c. a request line that is not UTF-8: the sender's Sign replaced the bad byte by
	// U+FFFD, so the signature covers the U+FFFD form; any invalid byte in its place must be refused ----
	for _, u := range []string{"/a?x=\xef\xbf\xbd", "/a?x=\xff", "/p?\xef\xbf\xbd=1&y=\xef\xbf\xbd"} {
		g, ok := mk("PUT", "origin.example", "dest.example", u, true, `{"a":1}`, "ed25519:k1")
		if !ok {
			continue
		}
		base, ok := c13Base(g.s, g.st, g.dest)
		if !ok {
			continue
		}
		runV(base, "request line: signed U+FFFD form, untampered")
		for _, bad := range []string{"\xff", "\xfe", "\xc0\x80", "\xed\xa0\x80", "\xef\xbf"} {
			t := base.clone()
			t.flags = "-"
			t.ruri = strings.Replace(base.ruri, "\xef\xbf\xbd", bad, 1)
			if pu, err := url.ParseRequestURI(t.ruri); err == nil && pu.RequestURI() == t.ruri {
				runV(t, "request line: invalid byte in place of the signed U+FFFD")
			}
		}
		for _, m := range []string{"P\xffT", "PUT\xc3", "\xff"} {
			t := base.clone()
			t.flags = "-"
			t.method = m
			runV(t, "request line: method not UTF-8")
			t2 := t.clone()
			t2.ruri = strings.Replace(base.ruri, "\xef\xbf\xbd", "\xff", 1)
			runV(t2, "request line: method and URI not UTF-8")
		}
	}

	// ---- 2d. body tamperings around ill-formed or ambiguous JSON texts ----
	c13SurrogateBodies(c)
	c13DuplicateMemberBodies(c, runV)

	// ---- 3. every single-field tampering of an honest transmission ----
	nt := c.Scale(40, 400)
	for i := 0; i < nt && len(good) > 0; i++ {
		g := good[c.Rng.Intn(len(good))]
		if !c13KeyIDOK(g.st.keyid) {
			continue
		}
		base, ok := c13Base(g.s, g.st, g.dest)
		if !ok {
			continue
		}
		base.flags = "-"
		c13Tamper(c, base, g.s, g.st, runV)
	}
	// binding, pairwise: two requests signed by the same key that differ in exactly one field;
	// every mixture of the two transmissions
	c13Crossover(c, runV)

	// ---- 4. ParseAuthorization alone: bounded-exhaustive over a small alphabet ----
	toks := []string{"X-Matrix", " ", "\t", ",", "=", "\"", "origin", "key", "sig", "destination", "a", " "}
	var rec func(prefix string, depth int)
	rec = func(prefix string, depth int) {
		c.Run("C13.parse_auth", Args(prefix), "C13.parse_auth", "", "exhaustive")
		c.Count("parse_auth/exhaustive")
		if depth == 0 {
			return
		}
		for _, t := range toks {
			rec(prefix+t, depth-1)
		}
	}
	rec("", c.Scale(3, 4))
	rec("X-Matrix ", c.Scale(3, 4))
	rec("X-Matrix origin=\"o\",key=k,", c.Scale(2, 3))
	for _, h := range []string{
		`X-Matrix origin=foo.com,key="key",sig="sig",destination="bar.com"`, `X-Matrix origin="foo.com",key="key",sig="sig"`,
		`X-Matrix origin="foo.com", key="key", sig="sig", destination="bar.com"`, "X-Matrix origin=\"foo.com\",\tkey=\"key\",\tsig=\"sig\"",
		`X-Matrix  origin = "a" , key = "b" , sig = "c" , destination = "d" `, `X-Matrix origin=""a"",key="""`, `X-Matrix origin="a=b",key=c==,sig="=",destination==`,
		`X-Matrix ORIGIN="a",Key="b"`, `x-matrix origin="a"`, `X-Matrix`, `X-Matrix `, `X-Matrixorigin="a"`, `Bearer abc`, ``, ` X-Matrix origin="a"`,
		`X-Matrix origin="a",origin="b",key="k",key="l"`, "X-Matrix origin=\" a　\",key=\" \"", "X-Matrix origin=\xa0a\xa0", "X-Matrix origin=\"a\xc2\"",
		`X-Matrix origin="a,b",key="c"`, `X-Matrix origin="a" b="c",key=k`, `X-Matrix ,,,origin="a",,`, `X-Matrix origin="a";key="b"`, `X-Matrix origin='a'`,
		"X-Matrix origin=\"a\"\u0085,key= b ", "X-Matrix  origin = \"a\"", `X-Matrix origin="a"x`, `X-Matrix origin=" a "`, `X-Matrix origin=" "a" "`,
	} {
		c.Run("C13.parse_auth", Args(h), "C13.parse_auth", "", "curated")
		c.Count("parse_auth/curated")
	}
	np := c.Scale(1500, 30000)
	alpha := append(append([]string{}, toks...), "o.example", "ed25519:k1", "AbC+/123", "dest.example:8448", "\xc2", "\xe2\x80", "\xe2\x80\x80", "\x85", "x", ";", "'")
	for i := 0; i < np; i++ {
		var b strings.Builder
		if c.Rng.Intn(4) != 0 {
			b.WriteString("X-Matrix ")
		}
		for k := c.Rng.Intn(14); k > 0; k-- {
			b.WriteString(pick(alpha))
		}
		c.Run("C13.parse_auth", Args(b.String()), "C13.parse_auth", "", "random")
		c.Count("parse_auth/random")
	}

	// ---- 5. the pieces: server names, content types, base64, UTF-8 ----
	names := append(append(append([]string{}, origins...), badOrigins...), "", ":", ":80", "a:0", "a:00080", "a:65535", "a:+80", "a:8_0", "a:-1", "a: 80",
		"[", "]", "[]", "[]:80", "[::]", "[::]:1", "[::1]x", "x[::1]", "[::1]]", "[[::1]]", "[1.2.3.4]", "[::ffff:1.2.3.4]", "::ffff:1.2.3.4", "::ffff:1.2.3.4:80",
		"::ffff:102:304", "::ffff:102:304:80", "1.2.3", "1.2.3.4.5", "1.2.3.256", "1.2.3.04", "01.2.3.4", "1.2.3.4.", ".1.2.3.4", "1..2.3", "1.2.3.4:", "0.0.0.0", "255.255.255.255",
		"[1:2:3:4:5:6:7:8]", "[1:2:3:4:5:6:7:8:9]", "[1:2:3:4:5:6:7]", "[1:2:3:4:5:6:7::]", "[::2:3:4:5:6:7:8]", "[1::2:3:4:5:6:7:8]", "[1:2:3:4:5:6:7::8]", "[1::8]", "[1::]", "[::8]",
		"[12345::]", "[1234::]", "[g::]", "[1:::2]", "[1::2::3]", "[:1]", "[1:]", "[::1%eth0]", "[fe80::1%]", "[%]", "[1:2:3:4:5:6:1.2.3.4]", "[1:2:3:4:5:1.2.3.4]", "[::1.2.3.4]", "[1::1.2.3.4]",
		"[1:2:3:4:5:6:7:1.2.3.4]", "[::1.2.3]", "[::1.2.3.4.5]", "[::01.2.3.4]", "[1.2.3.4::]", "[::FFFF:AbCd]", "[0:0:0:0:0:0:0:0]", "[00000::]", "[::.]", "[::1.]",
		"host:65535", "host:65536", "host:99999", "host:-1", "host:+8448", "host:0", "host:65535x", "host:6553_5", "host: 80", "host:0x50", "h:1:2", "[::1]:65536", "[::1]:-1", "1.2.3.4:65536", "1.2.3.4:+1",
		"exa_mple.org", "example.org.", "-", ".", "a..b", "a b", "a\tb", "a/b", "a@b", "*.example.org", "EXAMPLE.ORG:8448", "\xff", "a\xc3\xa9", "12", "1.2.3.4a", "1e3", "0x1.2.3.4")
	for _, s := range names {
		c.Run("C13.server_name", Args(s), "C13.server_name", "C13.prop.server_name", "curated")
		c.Count("server_name")
	}
	ipAlpha := []string{"1", "0", "ff", "a", "12", "1234", ":", "::", ".", "[", "]", "255", "256", ":80", "g", "%"}
	for i, m := 0, c.Scale(1500, 20000); i < m; i++ {
		var b strings.Builder
		if c.Rng.Intn(2) == 0 {
			b.WriteString("[")
		}
		for k := 1 + c.Rng.Intn(12); k > 0; k-- {
			b.WriteString(pick(ipAlpha))
		}
		if c.Rng.Intn(2) == 0 {
			b.WriteString("]")
		}
		if c.Rng.Intn(3) == 0 {
			b.WriteString(pick([]string{":8448", ":0", ":65535", ":65536", ":-1", ":+80", ":080", ":100000", ":"}))
		}
		c.Run("C13.server_name", Args(b.String()), "C13.server_name", "C13.prop.server_name", "random")
		c.Count("server_name")
	}
	for i, m := 0, c.Scale(400, 5000); i < m; i++ {
		h := pick([]string{"host", "a.b-c.example", "1.2.3.4", "EXAMPLE.org", "x", "a_b", "", "[::1]", "[2001:db8::1]"})
		p := pick([]string{"", ":1", ":8448", ":65535", ":65536", ":70000", ":-1", ":+1", ":00443", ":4294967296", ":18446744073709551617", ":1e3", ": 1", ":１"})
		c.Run("C13.server_name", Args(h+p), "C13.server_name", "C13.prop.server_name", "host-port product")
		c.Count("server_name")
	}
	for _, s := range c13ContentTypes {
		c.Run("C13.content_type", Args(s), "C13.content_type", "", "curated")
		c.Count("content_type")
	}
	ctAlpha := []string{"application/json", "application", "/", "json", ";", " ", "\t", "=", "\"", "charset", "utf-8", "a", "*", "\\", ",", "A", "x*0", "\r"}
	for i, m := 0, c.Scale(1500, 20000); i < m; i++ {
		var b strings.Builder
		if c.Rng.Intn(3) != 0 {
			b.WriteString("application/json")
		}
		for k := c.Rng.Intn(10); k > 0; k-- {
			b.WriteString(pick(ctAlpha))
		}
		c.Run("C13.content_type", Args(b.String()), "C13.content_type", "", "random")
		c.Count("content_type")
	}
	for _, s := range []string{"", "A", "AA", "AAA", "AAAA", "AAAAA", "AQ", "AR", "AQI", "AQJ", "AQID", "AQIDBA", "AQIDBAU", "+/+/", "-_-_", "+_", "-/", "AQ=", "AQ==", "AQID=", "A Q", "A\nQ", "A\rQ\n", "A.Q", "é", "AQIDBAUGBwgJCgsMDQ4PEA"} {
		c.Run("C13.b64", Args(s), "C13.b64", "", "curated")
		c.Count("b64")
	}
	b64Alpha := "ABab01+/-_=\n "
	for i, m := 0, c.Scale(600, 8000); i < m; i++ {
		var b strings.Builder
		for k := c.Rng.Intn(10); k > 0; k-- {
			b.WriteByte(b64Alpha[c.Rng.Intn(len(b64Alpha)-c.Rng.Intn(3))])
		}
		c.Run("C13.b64", Args(b.String()), "C13.b64", "", "random")
		c.Count("b64")
	}
	utfPieces := []string{"a", "\x7f", "\x80", "\xbf", "\xc0\x80", "\xc1\xbf", "\xc2\x80", "\xdf\xbf", "\xc2", "\xe0\x9f\xbf", "\xe0\xa0\x80", "\xe0\xa0", "\xed\x9f\xbf", "\xed\xa0\x80", "\xee\x80\x80", "\xef\xbf\xbd",
		"\xf0\x8f\xbf\xbf", "\xf0\x90\x80\x80", "\xf4\x8f\xbf\xbf", "\xf4\x90\x80\x80", "\xf5\x80\x80\x80", "\xf0\x90\x80", "\xff", "\xfe", "é", "😀", "\xe2\x80"}
	for _, s := range utfPieces {
		c.Run("C13.utf8", Args(s), "C13.utf8", "", "curated")
		c.Run("C13.utf8", Args("x"+s+"y"), "C13.utf8", "", "curated")
		c.Count("utf8")
	}
	for i, m := 0, c.Scale(500, 8000); i < m; i++ {
		var b strings.Builder
		for k := c.Rng.Intn(6); k > 0; k-- {
			b.WriteString(pick(utfPieces))
		}
		c.Run("C13.utf8", Args(b.String()), "C13.utf8", "", "random")
		c.Count("utf8")
	}
}

var c13ContentTypes = []string{"application/json", "application/json; charset=utf-8", "APPLICATION/JSON", "Application/Json;CHARSET=UTF-8", " application/json ", "\tapplication/json\t",
	"application/json;", "application/json; ", "application/json ;", "application/json;;", "application/json; ;", "application/json; charset", "application/json; charset=", "application/json; =utf-8",
	"application/json; charset=\"utf-8\"", "application/json; charset=\"utf-8", "application/json; charset=\"a\\\"b\"", "application/json; charset=\"a\\b\"", "application/json; a=b; a=b", "application/json; a=b; a=c",
	"application/json; a=b; A=c", "application/json; a*=b; a*=c", "application/json; a*0=b; a*1=c", "application/json; a=b c", "application/json; a=b;c", "application/json; a=b,c=d", "application/json;a=\"\"",
	"application/json; charset=utf-8;", "application/json; charset=utf-8; ", "application/json; charset=utf-8;;", "application/json charset=utf-8", "application/jsonx", "application/jso", "application/ json",
	"application /json", "application/json/x", "application", "text/plain", "text/json", "application/x-json", "application/json+ld", "*/*", "", ";", "; charset=utf-8", "application/json ", "application/json; a=\"b\rc\"",
	"application/json; a=\"b\nc\"", "application/json; a=é", "application/json; é=a", "application/json;\ta\t=\tb\t", "json", "application/json,text/plain", "application/json; a=b=c", "application/json; a==b", "application/json; a=\"\\"}

func c13KeyIDOK(k string) bool {
	if !strings.HasPrefix(k, "ed25519:") || len(k) == len("ed25519:") {
		return false
	}
	for _, ch := range k[len("ed25519:"):] {
		if !(ch >= 'a' && ch <= 'z' || ch >= 'A' && ch <= 'Z' || ch >= '0' && ch <= '9' || ch == '_') {
			return false
		}
	}
	return true
}

// header surgery: replace the value of field name in an emitted header
func c13SetField(h, name, val string) string {
	p := name + "=\""
	i := strings.Index(h, p)
	if i < 0 {
		return h
	}
	j := strings.Index(h[i+len(p):], "\"")
	if j < 0 {
		return h
	}
	return h[:i+len(p)] + val + h[i+len(p)+j:]
}
func c13GetField(h, name string) string {
	p := name + "=\""
	i := strings.Index(h, p)
	if i < 0 {
		return ""
	}
	j := strings.Index(h[i+len(p):], "\"")
	return h[i+len(p) : i+len(p)+j]
}
func c13DropField(h, name string) string {
	v := c13GetField(h, name)
	h = strings.Replace(h, ","+name+"=\""+v+"\"", "", 1)
	return strings.Replace(h, name+"=\""+v+"\",", "", 1)
}

func c13Tamper(c *Ctx, base c13Scn, s c13Sent, st c13Step, runV func(c13Scn, string) []byte) {
	h0 := base.auths[0]
	try := func(desc string, f func(t *c13Scn)) {
		t := base.clone()
		f(&t)
		if u, err := url.ParseRequestURI(t.ruri); err != nil {
			c.Count("verify/skipped-unparsable-target")
			return
		} else {
			t.ruri = u.RequestURI()
		}
		runV(t, desc)
	}
	// method
	for _, m := range []string{"GET", "PUT", "POST", strings.ToLower(s.hm), s.hm + "X", "", "G\xffT"} {
		if m != s.hm {
			try("method: "+m, func(t *c13Scn) { t.method = m })
		}
	}
	// request target
	for _, f := range []func(string) string{
		func(u string) string { return u + "x" },
		func(u string) string { return u + "/" },
		func(u string) string { return u + "?" },
		func(u string) string { return u + "&evil=1" },
		func(u string) string { return "/" + u },
		func(u string) string { return strings.SplitN(u, "?", 2)[0] },
		func(u string) string { return strings.Replace(u, "%2F", "%2f", 1) },
		func(u string) string { return strings.Replace(u, "%2f", "/", 1) },
		func(u string) string { return strings.Replace(u, "%41", "A", 1) },
		func(u string) string { return strings.Replace(u, "+", "%20", 1) },
		func(u string) string { return strings.Replace(u, "é", "e", 1) },
		func(u string) string { return strings.ToUpper(u) },
		func(u string) string { return u + "?\xff" },
		func(u string) string { return "/other" },
		func(u string) string {
			if len(u) < 2 {
				return u + "a"
			}
			i := 1 + c.Rng.Intn(len(u)-1)
			return u[:i] + string(rune('a'+c.Rng.Intn(26))) + u[i+1:]
		},
	} {
		if nu := f(s.ht); nu != s.ht {
			try("uri: "+strconv.Quote(nu), func(t *c13Scn) { t.ruri = nu })
		}
	}
	// body
	bodyMut := []struct {
		d string
		b string
	}{{"removed", ""}, {"other value", `{"a":2}`}, {"empty object", `{}`}, {"null", `null`}, {"array", `[]`}, {"not JSON", `{"a":`}, {"not JSON 2", `hello`},
		{"non-UTF-8", "{\"a\":\"\xff\"}"}, {"BOM", "\xef\xbb\xbf" + string(s.hb)}, {"appended", string(s.hb) + "{}"}, {"trailing space", string(s.hb) + " \n"},
		{"leading space", "\t " + string(s.hb)}, {"one space", " "},
		{"two members folded into one key (F1)", `{"a\":1,\"b":2}`}, {"key escapes", `{"q\\\"k":1}`}}
	for _, bm := range bodyMut {
		if bm.b != string(s.hb) {
			try("body: "+bm.d, func(t *c13Scn) {
				t.body = []byte(bm.b)
				if t.ctype == "" && bm.b != "" {
					t.ctype = "application/json"
				}
			})
		}
	}
	if s.hbOK {
		// the same JSON value, written differently: still the body that was signed
		var v interface{}
		if json.Unmarshal(s.hb, &v) == nil {
			if ind, err := json.MarshalIndent(v, " ", "\t"); err == nil && !bytes.Contains(s.hb, []byte("1e")) && !bytes.Contains(s.hb, []byte("1.5")) {
				try("body: re-spaced, same value", func(t *c13Scn) { t.body = ind })
			}
		}
		try("body: changed inside", func(t *c13Scn) {
			b := append([]byte{}, s.hb...)
			for i := range b {
				if b[i] >= 'a' && b[i] <= 'y' || b[i] >= '1' && b[i] <= '8' {
					b[i]++
					break
				}
			}
			t.body = b
		})
		for _, ct := range c13ContentTypes {
			try("ctype: "+strconv.Quote(ct), func(t *c13Scn) { t.ctype = ct })
		}
	} else {
		try("ctype: on empty body", func(t *c13Scn) { t.ctype = "text/plain" })
	}
	// the header, field by field
	other := []string{"other.example", "origin.example", "o.example:8448", "[::1]:8448", "evil.example"}
	for _, o := range other {
		if o != s.o {
			try("origin: "+o, func(t *c13Scn) { t.auths[0] = c13SetField(h0, "origin", o) })
			try("origin with own key: "+o, func(t *c13Scn) {
				t.auths[0] = c13SetField(h0, "origin", o)
				t.keys = append(t.keys, c13Key5{o, st.keyid, "KA", "0", "@+3600000"})
			})
			try("origin, key of the victim under that name: "+o, func(t *c13Scn) {
				t.auths[0] = c13SetField(h0, "origin", o)
				t.keys = append(t.keys, c13Key5{o, st.keyid, st.label, "0", "@+3600000"})
			})
		}
	}
	for _, o := range []string{"", "bad_name", "exa mple", "[::1", "host:", "é.example", strings.ToUpper(s.o), s.o + ".", s.o + ":8448"} {
		if o != s.o {
			try("origin invalid/other: "+strconv.Quote(o), func(t *c13Scn) {
				t.auths[0] = c13SetField(h0, "origin", o)
				t.keys = append(t.keys, c13Key5{o, st.keyid, st.label, "0", "@+3600000"})
			})
		}
	}
	for _, d := range []string{"other.example", "dest.example", "dest.example:8448", "[2001:db8::2]:8448", "10.0.0.1", strings.ToUpper(s.d), s.d + ".", ""} {
		if d != s.d {
			try("destination (not local): "+strconv.Quote(d), func(t *c13Scn) { t.auths[0] = c13SetField(h0, "destination", d) })
			try("destination (also local): "+strconv.Quote(d), func(t *c13Scn) {
				t.auths[0] = c13SetField(h0, "destination", d)
				t.localsOn, t.locals = true, []string{s.d, d}
			})
			try("destination (default name): "+strconv.Quote(d), func(t *c13Scn) {
				t.auths[0] = c13SetField(h0, "destination", d)
				t.def = d
			})
		}
	}
	try("destination field dropped, default is the signed one", func(t *c13Scn) { t.auths[0] = c13DropField(h0, "destination") })
	try("destination field dropped, default is another", func(t *c13Scn) {
		t.auths[0] = c13DropField(h0, "destination")
		t.def = "first.example"
	})
	try("destination field dropped, several local names", func(t *c13Scn) {
		t.auths[0] = c13DropField(h0, "destination")
		t.def, t.localsOn, t.locals = "first.example", true, []string{"first.example", s.d}
	})
	try("receiver: other default name", func(t *c13Scn) { t.def = "first.example" })
	try("receiver: not among local names", func(t *c13Scn) { t.localsOn, t.locals = true, []string{"first.example", "third.example"} })
	try("receiver: no local names", func(t *c13Scn) { t.localsOn, t.locals = true, nil })
	try("receiver: local names, default differs", func(t *c13Scn) { t.localsOn, t.locals, t.def = true, []string{s.d}, "zzz.example" })
	// key
	for _, k := range []string{"ed25519:k2", "ed25519:", "rsa:1", "", st.keyid + "x", strings.ToUpper(st.keyid)} {
		if k != st.keyid {
			try("key id: "+strconv.Quote(k), func(t *c13Scn) { t.auths[0] = c13SetField(h0, "key", k) })
			try("key id, same key stored under it: "+strconv.Quote(k), func(t *c13Scn) {
				t.auths[0] = c13SetField(h0, "key", k)
				t.keys = append(t.keys, c13Key5{s.o, k, st.label, "0", "@+3600000"})
			})
		}
	}
	// signature text
	sig := c13GetField(h0, "sig")
	flip := func(i int) string {
		b := []byte(sig)
		if b[i] == 'A' {
			b[i] = 'B'
		} else {
			b[i] = 'A'
		}
		return string(b)
	}
	last := func() string { // same 64 bytes: only the unused low bits of the last character change
		const al = "ABCDEFGHIJKLMNOPQRSTUVWXYZabcdefghijklmnopqrstuvwxyz0123456789+/"
		i := strings.IndexByte(al, sig[len(sig)-1])
		return sig[:len(sig)-1] + string(al[i^1])
	}
	for _, g := range []struct{ d, v string }{{"first char", flip(0)}, {"middle char", flip(40)}, {"last char high bits", sig[:len(sig)-1] + "A"}, {"unused bits of the last char", last()},
		{"truncated", sig[:len(sig)-1]}, {"truncated 2", sig[:len(sig)-2]}, {"extended", sig + "A"}, {"extended 2", sig + "AA"}, {"extended 3", sig + "AAA"}, {"padded", sig + "="}, {"padded 2", sig + "=="},
		{"url-safe alphabet", strings.NewReplacer("+", "-", "/", "_").Replace(sig)}, {"mixed alphabets", "-" + strings.NewReplacer("/", "_").Replace(sig[1:])},
		{"empty", ""}, {"space inside", sig[:10] + " " + sig[10:]}, {"not base64", "!!!!"}, {"signature by another key", c13OtherSig(s, "K2")}, {"signature over another message", c13OtherMsgSig(s, st)}} {
		if g.v != sig {
			try("sig: "+g.d, func(t *c13Scn) { t.auths[0] = c13SetField(h0, "sig", g.v) })
		}
	}
	// header syntax
	o, k, d := c13GetField(h0, "origin"), c13GetField(h0, "key"), c13GetField(h0, "destination")
	for _, g := range []struct{ d, v string }{
		{"reordered", fmt.Sprintf(`X-Matrix destination="%s",sig="%s",key="%s",origin="%s"`, d, sig, k, o)},
		{"spaces after commas", fmt.Sprintf(`X-Matrix origin="%s", key="%s", sig="%s", destination="%s"`, o, k, sig, d)},
		{"tabs and spaces everywhere", fmt.Sprintf("X-Matrix \torigin =\t\"%s\" ,\tkey = \"%s\"\t, sig\t= \"%s\" , destination = \"%s\" ", o, k, sig, d)},
		{"unquoted", fmt.Sprintf(`X-Matrix origin=%s,key=%s,sig=%s,destination=%s`, o, k, sig, d)},
		{"doubled quotes", fmt.Sprintf(`X-Matrix origin=""%s"",key="%s",sig="%s",destination="%s"`, o, k, sig, d)},
		{"extra commas", fmt.Sprintf(`X-Matrix ,origin="%s",,key="%s",sig="%s",destination="%s",`, o, k, sig, d)},
		{"unknown field", fmt.Sprintf(`X-Matrix origin="%s",key="%s",sig="%s",destination="%s",extra="x"`, o, k, sig, d)},
		{"upper-case names", fmt.Sprintf(`X-Matrix ORIGIN="%s",KEY="%s",SIG="%s",DESTINATION="%s"`, o, k, sig, d)},
		{"lower-case scheme", "x-matrix" + h0[8:]},
		{"no space after scheme", "X-Matrix" + h0[9:]},
		{"tab after scheme", "X-Matrix\t" + h0[9:]},
		{"two spaces after scheme", "X-Matrix  " + h0[9:]},
		{"leading space", " " + h0},
		{"scheme only", "X-Matrix"},
		{"scheme and space", "X-Matrix "},
		{"no origin", c13DropField(h0, "origin")},
		{"no key", c13DropField(h0, "key")},
		{"no sig", c13DropField(h0, "sig")},
		{"empty origin", c13SetField(h0, "origin", "")},
		{"empty key", c13SetField(h0, "key", "")},
		{"origin twice, genuine last", `X-Matrix origin="evil.example",` + h0[9:]},
		{"origin twice, genuine first", h0 + `,origin="evil.example"`},
		{"destination twice, genuine last", `X-Matrix destination="other.example",` + h0[9:]},
		{"destination twice, genuine first", h0 + `,destination="other.example"`},
		{"semicolons", strings.ReplaceAll(h0, ",", ";")},
		{"single quotes", strings.ReplaceAll(h0, "\"", "'")},
		{"value with trailing junk", c13SetField(h0, "origin", o+"\" x=\"y")},
		{"no-break spaces around values", fmt.Sprintf("X-Matrix origin= \"%s\" ,key= \"%s\",sig=\"%s\"　,destination=\"%s\"", o, k, sig, d)},
	} {
		try("syntax: "+g.d, func(t *c13Scn) { t.auths[0] = g.v })
	}
	// several Authorization headers
	garb := strings.Repeat("A", 86)
	for _, g := range []struct {
		d string
		v []string
	}{
		{"foreign first", []string{"Bearer abc", h0}}, {"foreign last", []string{h0, "Basic dXNlcjpwYXNz"}}, {"empty header first", []string{"", h0}},
		{"same header twice", []string{h0, h0}},
		{"second origin differs", []string{h0, c13SetField(h0, "origin", "evil.example")}},
		{"first origin differs", []string{c13SetField(h0, "origin", "evil.example"), h0}},
		{"second header malformed", []string{h0, "X-Matrix origin=\"" + o + "\""}},
		{"second header: other key, wrong signature", []string{h0, c13SetField(c13SetField(h0, "key", "ed25519:zz"), "sig", garb)}},
		{"first header: other key, wrong signature", []string{c13SetField(c13SetField(h0, "key", "ed25519:zz"), "sig", garb), h0}},
		{"second header: other key, not base64", []string{h0, c13SetField(c13SetField(h0, "key", "ed25519:zz"), "sig", "!!")}},
		{"second header: other key, short signature", []string{h0, c13SetField(c13SetField(h0, "key", "ed25519:zz"), "sig", "AAAA")}},
		{"second header: same key, wrong signature", []string{h0, c13SetField(h0, "sig", garb)}},
		{"first header: same key, wrong signature", []string{c13SetField(h0, "sig", garb), h0}},
		{"second header: unsupported algorithm", []string{h0, c13SetField(h0, "key", "rsa:1")}},
		{"second header without destination", []string{h0, c13DropField(h0, "destination")}},
		{"first header without destination", []string{c13DropField(h0, "destination"), h0}},
		{"second header names another destination", []string{h0, c13SetField(h0, "destination", "other.example")}},
		{"first header names another destination", []string{c13SetField(h0, "destination", "other.example"), h0}},
		{"none", nil}, {"only foreign", []string{"Bearer abc"}},
	} {
		try("headers: "+g.d, func(t *c13Scn) { t.auths = g.v })
		try("headers: "+g.d+" (several local names, another default)", func(t *c13Scn) {
			t.auths = g.v
			t.def, t.localsOn, t.locals = "first.example", true, []string{"first.example", s.d, "other.example"}
		})
		if strings.Contains(g.d, "other key") {
			try("headers: "+g.d+" (that key is known too)", func(t *c13Scn) {
				t.auths = g.v
				t.keys = append([]c13Key5{{s.o, "ed25519:zz", "K2", "0", "@+3600000"}}, t.keys...)
			})
		}
	}
	// key validity at the time of receipt
	kk := func(exp, vu string) []c13Key5 { return []c13Key5{{s.o, st.keyid, st.label, exp, vu}} }
	for _, g := range []struct {
		d, now string
		keys   []c13Key5
	}{
		{"valid until exactly now", "@+5000", kk("0", "@+5000")}, {"valid until one ms before now", "@+5000", kk("0", "@+4999")}, {"valid until one ms after now", "@+5000", kk("0", "@+5001")},
		{"valid_until_ts zero", "@", kk("0", "0")}, {"valid until 1", "@", kk("0", "1")}, {"long expired validity", "@", kk("0", "@-86400000")},
		{"request from the past, key valid now", "@-86400000", kk("0", "@+1000")}, {"request from long ago", "1000", kk("0", "@+1000")},
		{"now far in the future, key valid longer", "@+700000000", kk("0", "@+800000000")},
		{"seven-day cap, just inside", "@+604790000", kk("0", "@+800000000")}, {"seven-day cap, just outside", "@+604810000", kk("0", "@+800000000")},
		{"inside seven days and validity", "@+500000000", kk("0", "@+500000000")},
		{"expired key, request before expiry", "@-5000", kk("@-4999", "0")}, {"expired key, request at expiry", "@-5000", kk("@-5000", "0")}, {"expired key, request after expiry", "@-5000", kk("@-5001", "0")},
		{"expired key with validity, request before expiry", "@", kk("@+1", "@+100000")}, {"expired key with validity, after expiry", "@+2", kk("@+1", "@+100000")},
		{"expiry 1", "0", kk("1", "0")}, {"no key", "@", nil},
		{"valid_until_ts 2^63 (F62)", "@", kk("0", "9223372036854775808")}, {"valid_until_ts 2^64-1 (F62)", "@+1000", kk("0", "18446744073709551615")},
		{"valid_until_ts 2^63, beyond the seven-day cap", "@+604810000", kk("0", "9223372036854775808")},
		{"key of another server", "@", []c13Key5{{"other.example", st.keyid, st.label, "0", "@+3600000"}}},
		{"key under another id", "@", []c13Key5{{s.o, "ed25519:zz", st.label, "0", "@+3600000"}}},
		{"another public key under that id", "@", []c13Key5{{s.o, st.keyid, "K2", "0", "@+3600000"}}},
		{"another public key first, genuine later (first wins)", "@", []c13Key5{{s.o, st.keyid, "K2", "0", "@+3600000"}, {s.o, st.keyid, st.label, "0", "@+3600000"}}},
	} {
		try("key: "+g.d, func(t *c13Scn) { t.now, t.keys = g.now, g.keys })
	}
	try("key database fails", func(t *c13Scn) { t.dberr = true })
	try("key database fails, unsupported algorithm only", func(t *c13Scn) {
		t.dberr = true
		t.auths[0] = c13SetField(h0, "key", "rsa:1")
	})
}

// a signature over the same fields by another key
func c13OtherSig(s c13Sent, label string) string {
	return spec.Base64Bytes(ed25519.Sign(c13Key(label).priv, s.signed)).Encode()
}

// a signature by the same key over a request that differs in the method
func c13OtherMsgSig(s c13Sent, st c13Step) string {
	m := "PUT"
	if s.m == "PUT" {
		m = "GET"
	}
	hasC := s.c != nil
	o := c13DoSend(m, "", s.d, s.u, hasC, s.c, []c13Step{st})
	if len(o.sigTexts) == 0 {
		return "AAAA"
	}
	return o.sigTexts[0]
}

// two requests signed by the same origin and key that differ in exactly one of the five
// fields; every mixture of the two transmissions is offered to a receiver that owns both
// destinations and knows both origins' keys
func c13Crossover(c *Ctx, runV func(c13Scn, string) []byte) {
	type fields struct{ m, o, d, u, b string }
	a := fields{"PUT", "origin.example", "dest.example", "/a?x=1", `{"a":1}`}
	variants := []struct {
		d string
		f fields
	}{
		{"method", fields{"POST", a.o, a.d, a.u, a.b}}, {"uri", fields{a.m, a.o, a.d, "/a?x=2", a.b}}, {"uri escape", fields{a.m, a.o, a.d, "/a?x=%31", a.b}},
		{"origin", fields{a.m, "o.example:8448", a.d, a.u, a.b}}, {"destination", fields{a.m, a.o, "dest.example:8448", a.u, a.b}},
		{"body", fields{a.m, a.o, a.d, a.u, `{"a":2}`}}, {"body none", fields{a.m, a.o, a.d, a.u, ""}}, {"body key order only", fields{a.m, a.o, a.d, a.u, `{"b":1,"a":1}`}},
	}
	for _, v := range variants {
		b := v.f
		if v.d == "body key order only" {
			a.b = `{"a":1,"b":1}`
		}
		send := func(f fields) c13Sent {
			return c13DoSend(f.m, "", f.d, f.u, f.b != "", B(f.b), []c13Step{{f.o, "ed25519:k1", "K1"}})
		}
		sa, sb := send(a), send(b)
		if !sa.httpOK || !sb.httpOK {
			continue
		}
		mkSigned := func(s c13Sent) c13Signed {
			return c13Signed{"K1", s.m, s.u, s.o, s.d, s.c != nil, s.c, s.sigTexts[0]}
		}
		for mask := 0; mask < 64; mask++ {
			p := func(bit int, x, y string) string {
				if mask&(1<<bit) != 0 {
					return y
				}
				return x
			}
			ha, hb := sa.ha[0], sb.ha[0]
			h := fmt.Sprintf(`X-Matrix origin="%s",key="ed25519:k1",sig="%s",destination="%s"`,
				p(2, c13GetField(ha, "origin"), c13GetField(hb, "origin")), p(5, c13GetField(ha, "sig"), c13GetField(hb, "sig")),
				p(3, c13GetField(ha, "destination"), c13GetField(hb, "destination")))
			body := p(4, string(sa.hb), string(sb.hb))
			ct := ""
			if body != "" {
				ct = "application/json"
			}
			sc := c13Scn{flags: "-", method: p(0, sa.hm, sb.hm), ruri: p(1, sa.ht, sb.ht), ctype: ct, body: []byte(body), now: "@", def: "first.example",
				localsOn: true, locals: []string{a.d, b.d}, auths: []string{h},
				keys:   []c13Key5{{a.o, "ed25519:k1", "K1", "0", "@+3600000"}, {b.o, "ed25519:k1", "K1", "0", "@+3600000"}},
				signed: []c13Signed{mkSigned(sa), mkSigned(sb)}}
			if mask == 0 || mask == 63 {
				sc.flags = "H"
			}
			runV(sc, "crossover: "+v.d)
		}
	}
}

// Finding F68: compactUnicodeEscape deletes an unpaired surrogate escape, so a body with such an
// escape inserted has the canonical form (and the signature) of the body without it, while every
// JSON decoder reads U+FFFD there.  The model of canonical JSON (parse + canonical print) decodes
// the escape as encoding/json does, i.e. it describes the value, not this deletion; the family is
// therefore judged on the specification side only ("body differs => refused").
func c13SurrogateBodies(c *Ctx) {
	signedBodies := []string{`{"reason":"","user_id":"@alice:origin.example"}`, `{"reason":"ab","user_id":"@alice:origin.example"}`, `{"k":["x",{"y":"z"}]}`}
	escapes := []string{`\ud800`, `\udc00`, `\udbff`, `\udfff`, `\uD83D`, `\uDE00`}
	for _, b := range signedBodies {
		st := c13Step{"origin.example", "ed25519:k1", "K1"}
		s := c13DoSend("PUT", "", "dest.example", "/_matrix/federation/v1/send/1", true, B(b), []c13Step{st})
		if s.stage != "" || !s.httpOK {
			continue
		}
		base, ok := c13Base(s, st, "dest.example")
		if !ok {
			continue
		}
		base.flags = "-"
		body := string(s.hb)
		// every position inside a string: after an opening quote or between two letters
		inStr := false
		for i := 0; i < len(body); i++ {
			if body[i] == '"' {
				inStr = !inStr
				if !inStr {
					continue
				}
			} else if !inStr {
				continue
			}
			for _, e := range escapes {
				t := base.clone()
				t.body = []byte(body[:i+1] + e + body[i+1:])
				c.Run("C13.verify", t.args(), "", "C13.prop.verify", "body: unpaired surrogate escape inserted")
				c.Count("verify/body-unpaired-surrogate")
			}
		}
	}
}

// Finding F75 (repaired): duplicate members must keep their order in the canonical form.  Bodies
// with two members of the same name among many others (the unstable sort only showed with more
// than 12 members), transmitted in other member orders: accepted exactly when the duplicates
// keep their relative order.
func c13DuplicateMemberBodies(c *Ctx, runV func(c13Scn, string) []byte) {
	st := c13Step{"origin.example", "ed25519:k1", "K1"}
	for _, n := range []int{2, 11, 13, 20, 33} {
		members := []string{`"dup":1`, `"dup":2`}
		for i := 0; i < n; i++ {
			members = append(members, fmt.Sprintf(`"k%02d":0`, i))
		}
		signed := "{" + strings.Join(members, ",") + "}"
		s := c13DoSend("PUT", "", "dest.example", "/a", true, B(signed), []c13Step{st})
		if s.stage != "" || !s.httpOK {
			continue
		}
		base, ok := c13Base(s, st, "dest.example")
		if !ok {
			continue
		}
		runV(base, "duplicate members: as signed")
		base.flags = "-"
		if n == 13 { // the order reported for F75
			t := base.clone()
			t.body = []byte(`{"k11":0,"k10":0,"dup":2,"k03":0,"k02":0,"k07":0,"k12":0,"k01":0,"k00":0,"k06":0,"k04":0,"k05":0,"k08":0,"dup":1,"k09":0}`)
			runV(t, "duplicate members: the F75 order")
		}
		for k, m := 0, c.Scale(40, 400); k < m; k++ {
			p := append([]string{}, members...)
			c.Rng.Shuffle(len(p), func(a, b int) { p[a], p[b] = p[b], p[a] })
			t := base.clone()
			t.body = []byte("{" + strings.Join(p, ",") + "}")
			runV(t, "duplicate members: shuffled")
		}
		// nested, and more than two equal names
		t := base.clone()
		t.body = []byte(strings.Replace(string(s.hb), `"dup":1,"dup":2`, `"dup":2,"dup":1`, 1))
		runV(t, "duplicate members: swapped in place")
	}
}
