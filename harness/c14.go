package main

// C14: only events that pass signature and auth checks leave federation verification.
//
// Every case is one scenario. args[0] is the raw scenario (JSON: room version, a pool of raw
// event texts, the raw lists handed to the function under test, the scripts of the caller's
// event provider / state provider / backfill client). The implementation side
//   - parses every pool text with the REAL NewEventFromUntrustedJSON (class ok / persistable
//     size error / error; event ID, type, state key, room, auth event IDs),
//   - verifies every parsed event's signatures with the REAL VerifyEventSignatures against real
//     ed25519 keys,
//   - evaluates the REAL Allowed for every event and every tuple-distinct subset of the events
//     that can be looked up under one of its auth event IDs,
//   - evaluates the REAL ReverseTopologicalOrdering on the parsed inputs of LoadAndVerify,
// writes these tables (numbers only; identifiers interned) into args[1] for the model, and
// runs the REAL filter with scripted providers. The model (coq/Fed) re-decides from the tables
// alone which events are kept, which auth events are consulted, in which order, what the
// providers are asked, and how failures are classified.

import (
	"bytes"
	"compress/gzip"
	"context"
	"crypto/sha256"
	"encoding/json"
	"errors"
	"fmt"
	"io"
	"sort"
	"strings"

	gmsl "github.com/matrix-org/gomatrixserverlib"
	"github.com/matrix-org/gomatrixserverlib/spec"
	"github.com/sirupsen/logrus"
	"golang.org/x/crypto/ed25519"
)

// ---------------------------------------------------------------- keys and signatures

const c14KeyID = gmsl.KeyID("ed25519:k1")

var c14Keys = map[string]ed25519.PrivateKey{}

func c14Key(server string) ed25519.PrivateKey {
	if k, ok := c14Keys[server]; ok {
		return k
	}
	seed := sha256.Sum256([]byte("verif-c14-key-" + server))
	k := ed25519.NewKeyFromSeed(seed[:])
	c14Keys[server] = k
	return k
}

// c14Verifier checks signatures for real, with the one key every server has in this world.
type c14Verifier struct{}

func (c14Verifier) VerifyJSONs(ctx context.Context, reqs []gmsl.VerifyJSONRequest) ([]gmsl.VerifyJSONResult, error) {
	res := make([]gmsl.VerifyJSONResult, len(reqs))
	for i, r := range reqs {
		pub := c14Key(string(r.ServerName)).Public().(ed25519.PublicKey)
		res[i].Error = gmsl.VerifyJSON(string(r.ServerName), c14KeyID, pub, r.Message)
	}
	return res, nil
}

func c14UserID(roomID spec.RoomID, senderID spec.SenderID) (*spec.UserID, error) {
	return spec.NewUserID(string(senderID), true)
}

// ---------------------------------------------------------------- raw scenario

type c14Script struct {
	ID      string  `json:"id"`
	Answers [][]int `json:"answers"` // pool indices; [-1] = the provider returns an error
}

type c14SP struct {
	ID       string   `json:"id"` // event the state is asked for
	IDsErr   bool     `json:"ids_err,omitempty"`
	IDs      []string `json:"ids"`
	StateErr bool     `json:"state_err,omitempty"`
	Keys     []string `json:"keys"` // map key ...
	Vals     []int    `json:"vals"` // ... -> pool index (-1 = nil PDU)
}

type c14BF struct {
	Server string `json:"server"`
	Err    bool   `json:"err,omitempty"`
	PDUs   []int  `json:"pdus"`
}

type c14Spec struct {
	Op      string      `json:"op"`
	Ver     string      `json:"ver"`
	Texts   []string    `json:"texts"`
	A       []int       `json:"A,omitempty"`
	S       []int       `json:"S,omitempty"`
	J       int         `json:"J,omitempty"`
	E       int         `json:"E,omitempty"`
	AV      bool        `json:"av,omitempty"`
	R       []int       `json:"R,omitempty"`
	HasProv bool        `json:"hp"`
	Prov    []c14Script `json:"prov,omitempty"`
	SP      []c14SP     `json:"sp,omitempty"`
	From    []string    `json:"from,omitempty"`
	Limit   int         `json:"limit,omitempty"`
	Room    string      `json:"room,omitempty"` // roomID argument of RequestBackfill
	Servers []string    `json:"servers,omitempty"`
	BF      []c14BF     `json:"bf,omitempty"`
	Fuel    int         `json:"fuel"`
	GFuel   int         `json:"gfuel"`
	// E2E: no Allowed table; the model gets the events' JSON and decides with C07's auth model
	E2E bool `json:"e2e,omitempty"`
}

// ---------------------------------------------------------------- derived scenario

type c14Parsed struct {
	class int // 0 ok, 1 persistable size error, 2 error
	pdu   gmsl.PDU
}

var c14ParseCache = map[string]c14Parsed{}
var c14SigCache = map[string]bool{}
var c14AllowedCache = map[string]bool{}
var c14TextIDs = map[string]int{}

func c14TextID(ver, text string) int {
	k := ver + "\x00" + text
	if n, ok := c14TextIDs[k]; ok {
		return n
	}
	n := len(c14TextIDs)
	c14TextIDs[k] = n
	return n
}

func c14Parse(ver gmsl.RoomVersion, text string) c14Parsed {
	k := string(ver) + "\x00" + text
	if p, ok := c14ParseCache[k]; ok {
		return p
	}
	p := c14Parsed{class: 2}
	if impl, err := gmsl.GetRoomVersion(ver); err == nil {
		ev, err := impl.NewEventFromUntrustedJSON([]byte(text))
		var ve gmsl.EventValidationError
		switch {
		case err == nil:
			p = c14Parsed{0, ev}
		case errors.As(err, &ve) && ve.Persistable && ev != nil:
			p = c14Parsed{1, ev}
		}
	}
	c14ParseCache[k] = p
	return p
}

func c14SigOK(ver gmsl.RoomVersion, text string, pdu gmsl.PDU) bool {
	k := string(ver) + "\x00" + text
	if b, ok := c14SigCache[k]; ok {
		return b
	}
	b := gmsl.VerifyEventSignatures(context.Background(), pdu, c14Verifier{}, c14UserID) == nil
	c14SigCache[k] = b
	return b
}

type c14World struct {
	spec   c14Spec
	ver    gmsl.RoomVersion
	parsed []c14Parsed // per pool index
	names  map[string]int
	events [][]interface{} // derived "ev"
}

func (w *c14World) intern(kind, s string) int {
	k := kind + ":" + s
	if n, ok := w.names[k]; ok {
		return n
	}
	n := len(w.names)
	w.names[k] = n
	return n
}

func (w *c14World) id(s string) int { return w.intern("id", s) }

func (w *c14World) ids(l []string) []int {
	r := make([]int, len(l))
	for i, s := range l {
		r[i] = w.id(s)
	}
	return r
}

func (w *c14World) item(i int) []int {
	if i < 0 || i >= len(w.parsed) || w.parsed[i].class == 2 {
		return []int{2}
	}
	return []int{w.parsed[i].class, i}
}

func (w *c14World) items(l []int) [][]int {
	r := make([][]int, len(l))
	for i, x := range l {
		r[i] = w.item(x)
	}
	return r
}

func (w *c14World) pdu(i int) gmsl.PDU {
	if i < 0 || i >= len(w.parsed) {
		return nil
	}
	return w.parsed[i].pdu
}

// uidOfAnswer: pool indices that do not parse cannot be returned by a provider
func (w *c14World) answer(a []int) interface{} {
	if len(a) == 1 && a[0] == -1 {
		return -1
	}
	r := []int{}
	for _, x := range a {
		if w.pdu(x) != nil {
			r = append(r, x)
		}
	}
	return r
}

func c14SortedUnique(l []int) []int {
	r := append([]int{}, l...)
	sort.Ints(r)
	o := r[:0]
	for i, x := range r {
		if i == 0 || x != r[i-1] {
			o = append(o, x)
		}
	}
	return o
}

func c14JoinInts(l []int, sep string) string {
	p := make([]string, len(l))
	for i, x := range l {
		p[i] = fmt.Sprint(x)
	}
	return strings.Join(p, sep)
}

func (w *c14World) allowedReal(e int, set []int) bool {
	key := fmt.Sprint(c14TextID(w.spec.Ver, w.spec.Texts[e]), "|")
	for _, u := range set {
		key += fmt.Sprint(c14TextID(w.spec.Ver, w.spec.Texts[u]), ",")
	}
	if b, ok := c14AllowedCache[key]; ok {
		return b
	}
	ae, _ := gmsl.NewAuthEvents(nil)
	for _, u := range set {
		if err := ae.AddEvent(w.pdu(u)); err != nil {
			panic("c14: non-state event in an auth set")
		}
	}
	b := gmsl.Allowed(w.pdu(e), ae, c14UserID) == nil
	c14AllowedCache[key] = b
	return b
}

func c14Tuple(p gmsl.PDU) string { return p.Type() + "\x00" + *p.StateKey() }

// index of the first occurrence of keys[i]
func c14FirstKey(keys []string, i int) int {
	for j := 0; j < i; j++ {
		if keys[j] == keys[i] {
			return j
		}
	}
	return i
}

// oneCopyPerTuple keeps, of several pool texts with the same tuple (they then share the event
// ID), the last one - what an AuthEvents container filled in this order holds.
func (w *c14World) oneCopyPerTuple(set []int) []int {
	last := map[string]int{}
	for _, u := range set {
		last[c14Tuple(w.pdu(u))] = u
	}
	var out []int
	for _, u := range set {
		if last[c14Tuple(w.pdu(u))] == u {
			out = append(out, u)
		}
	}
	return out
}

// derive builds args[1]. extraAllowed lists additional (event, auth set) pairs.
func (w *c14World) derive(extraAllowed [][2]interface{}, topo [][2][]int) []byte {
	sp := w.spec
	// universe
	w.events = make([][]interface{}, len(sp.Texts))
	for i := range sp.Texts {
		p := w.parsed[i]
		if p.pdu == nil {
			// placeholder for a text that does not parse: an ID no event has
			w.events[i] = []interface{}{w.id("\x00unparsable"), 0, -1, 0, 0, []int{}}
			continue
		}
		sk := -1
		if p.pdu.StateKey() != nil {
			sk = w.intern("sk", *p.pdu.StateKey())
		}
		sig := 0
		if c14SigOK(w.ver, sp.Texts[i], p.pdu) {
			sig = 1
		}
		w.events[i] = []interface{}{w.id(p.pdu.EventID()), w.intern("type", p.pdu.Type()), sk,
			w.intern("room", p.pdu.RoomID().String()), sig, w.ids(p.pdu.AuthEventIDs())}
	}
	// lookup sources: key (event ID string) -> pool indices that may be found under it
	sources := map[string][]int{}
	add := func(k string, u int) {
		if p := w.pdu(u); p != nil && p.StateKey() != nil {
			sources[k] = append(sources[k], u)
		}
	}
	for i := range sp.Texts {
		if p := w.pdu(i); p != nil {
			add(p.EventID(), i)
		}
	}
	for _, sc := range sp.Prov {
		for _, a := range sc.Answers {
			for _, u := range a {
				add(sc.ID, u)
			}
		}
	}
	for _, s := range sp.SP {
		for i, k := range s.Keys {
			if i < len(s.Vals) {
				add(k, s.Vals[i])
			}
		}
	}
	allowed := [][]interface{}{}
	seen := map[string]bool{}
	emit := func(e int, set []int) {
		set = c14SortedUnique(set)
		k := fmt.Sprint(e, ":", set)
		if seen[k] {
			return
		}
		seen[k] = true
		b := 0
		if w.allowedReal(e, set) {
			b = 1
		}
		allowed = append(allowed, []interface{}{e, set, b})
	}
	for e := range sp.Texts {
		p := w.pdu(e)
		if p == nil || sp.E2E {
			continue
		}
		var cand []int
		for _, a := range p.AuthEventIDs() {
			cand = append(cand, sources[a]...)
		}
		cand = c14SortedUnique(cand)
		if len(cand) > 12 {
			cand = cand[:12]
		}
		for mask := 0; mask < 1<<len(cand); mask++ {
			var set []int
			tuples := map[string]bool{}
			ok := true
			for b, u := range cand {
				if mask&(1<<b) != 0 {
					t := c14Tuple(w.pdu(u))
					if tuples[t] {
						ok = false
						break
					}
					tuples[t] = true
					set = append(set, u)
				}
			}
			if ok {
				emit(e, set)
			}
		}
	}
	for _, x := range extraAllowed {
		if !sp.E2E {
			emit(x[0].(int), x[1].([]int))
		}
	}
	// VerifyAuthRulesAtState judges an event by the whole state it is given
	for _, st := range sp.SP {
		if sp.E2E || st.StateErr {
			continue
		}
		var set []int
		tuples := map[string]string{}
		ok := true
		for i, v := range st.Vals {
			if i >= len(st.Keys) || c14FirstKey(st.Keys, i) != i {
				continue
			}
			if p := w.pdu(v); p != nil && p.StateKey() != nil {
				if prev, dup := tuples[c14Tuple(p)]; dup && prev != p.EventID() {
					ok = false
				}
				tuples[c14Tuple(p)] = p.EventID()
				set = append(set, v)
			}
		}
		// two pool texts with the same event ID and tuple may both be present: Allowed sees one
		if ok {
			set = w.oneCopyPerTuple(set)
			for e := range sp.Texts {
				if p := w.pdu(e); p != nil && p.EventID() == st.ID {
					emit(e, set)
				}
			}
		}
	}
	prov := [][]interface{}{}
	for _, sc := range sp.Prov {
		var as []interface{}
		for _, a := range sc.Answers {
			as = append(as, w.answer(a))
		}
		prov = append(prov, []interface{}{w.id(sc.ID), as})
	}
	spj := [][]interface{}{}
	for _, s := range sp.SP {
		var ids, st interface{} = -1, -1
		if !s.IDsErr {
			ids = w.ids(s.IDs)
		}
		if !s.StateErr {
			m := [][]int{}
			for i, k := range s.Keys {
				if c14FirstKey(s.Keys, i) != i {
					continue // a Go map has one value per key; the first binding counts
				}
				v := -1
				if i < len(s.Vals) && w.pdu(s.Vals[i]) != nil {
					v = s.Vals[i]
				}
				m = append(m, []int{w.id(k), v})
			}
			st = m
		}
		spj = append(spj, []interface{}{w.id(s.ID), ids, st})
	}
	bf := [][]interface{}{}
	for _, b := range sp.BF {
		var pd interface{} = -1
		if !b.Err {
			pd = w.items(b.PDUs)
		}
		bf = append(bf, []interface{}{w.intern("srv", b.Server), pd})
	}
	servers := []int{}
	for _, s := range sp.Servers {
		servers = append(servers, w.intern("srv", s))
	}
	_, verr := gmsl.GetRoomVersion(w.ver)
	out := map[string]interface{}{
		"ev": w.events, "al": allowed, "pv": prov, "hp": c14b(sp.HasProv),
		"fuel": sp.Fuel, "gfuel": sp.GFuel,
		"A": w.items(sp.A), "S": w.items(sp.S), "J": sp.J, "E": sp.E, "av": c14b(sp.AV),
		"R": w.items(sp.R), "sp": spj, "topo": topo, "vk": c14b(verr == nil),
		"from": w.ids(sp.From), "limit": sp.Limit, "servers": servers, "bf": bf,
		"ver": sp.Ver, "op": sp.Op, "room": w.intern("room", sp.Room),
	}
	b, err := json.Marshal(out)
	if err != nil {
		panic(err)
	}
	return b
}

func c14b(b bool) int {
	if b {
		return 1
	}
	return 0
}

// ---------------------------------------------------------------- scripted providers

type c14Providers struct {
	w      *c14World
	script map[string][][]int
	log    []string
	calls  int
}

func newC14Providers(w *c14World) *c14Providers {
	p := &c14Providers{w: w, script: map[string][][]int{}}
	for _, sc := range w.spec.Prov {
		if _, dup := p.script[sc.ID]; !dup {
			p.script[sc.ID] = sc.Answers
		}
	}
	return p
}

// ProvideEvents: one answer per requested ID is consumed (the last one stays); any error answer
// makes the whole call fail.
func (p *c14Providers) ProvideEvents(roomVer gmsl.RoomVersion, eventIDs []string) ([]gmsl.PDU, error) {
	// a caller that never stops asking (finding F82) is reported with the input at hand
	if p.calls++; p.calls > 5000 {
		panic("c14: the event provider was asked more than 5000 times in one call: the caller does not stop retrying")
	}
	p.log = append(p.log, "P:"+c14JoinInts(c14SortedUnique(p.w.ids(eventIDs)), "+"))
	var out []gmsl.PDU
	failed := false
	for _, id := range eventIDs {
		as := p.script[id]
		if len(as) == 0 {
			continue
		}
		a := as[0]
		if len(as) > 1 {
			p.script[id] = as[1:]
		}
		if len(a) == 1 && a[0] == -1 {
			failed = true
			continue
		}
		for _, u := range a {
			if pdu := p.w.pdu(u); pdu != nil {
				out = append(out, pdu)
			}
		}
	}
	if failed {
		return nil, errors.New("scripted provider error")
	}
	return out, nil
}

func (p *c14Providers) findSP(id string) *c14SP {
	for i := range p.w.spec.SP {
		if p.w.spec.SP[i].ID == id {
			return &p.w.spec.SP[i]
		}
	}
	return nil
}

func (p *c14Providers) StateIDsBeforeEvent(ctx context.Context, event gmsl.PDU) ([]string, error) {
	p.log = append(p.log, fmt.Sprint("I:", p.w.id(event.EventID())))
	s := p.findSP(event.EventID())
	if s == nil || s.IDsErr {
		return nil, errors.New("scripted state provider error")
	}
	return append([]string{}, s.IDs...), nil
}

func (p *c14Providers) StateBeforeEvent(ctx context.Context, roomVer gmsl.RoomVersion, event gmsl.PDU, eventIDs []string) (map[string]gmsl.PDU, error) {
	p.log = append(p.log, fmt.Sprint("S:", p.w.id(event.EventID()), ":", c14JoinInts(p.w.ids(eventIDs), "+")))
	s := p.findSP(event.EventID())
	if s == nil || s.StateErr {
		return nil, errors.New("scripted state provider error")
	}
	m := map[string]gmsl.PDU{}
	// the first binding of a key wins (as in the model's lookup)
	for i := len(s.Keys) - 1; i >= 0; i-- {
		var v gmsl.PDU
		if i < len(s.Vals) {
			v = p.w.pdu(s.Vals[i])
		}
		m[s.Keys[i]] = v
	}
	return m, nil
}

func (p *c14Providers) ServersAtEvent(ctx context.Context, roomID, eventID string) []spec.ServerName {
	p.log = append(p.log, fmt.Sprint("V:", p.w.id(eventID)))
	var r []spec.ServerName
	for _, s := range p.w.spec.Servers {
		r = append(r, spec.ServerName(s))
	}
	return r
}

func (p *c14Providers) Backfill(ctx context.Context, origin, server spec.ServerName, roomID string, limit int, fromEventIDs []string) (gmsl.Transaction, error) {
	p.log = append(p.log, fmt.Sprint("B:", p.w.intern("srv", string(server)), ":", limit, ":", c14JoinInts(p.w.ids(fromEventIDs), "+")))
	for _, b := range p.w.spec.BF {
		if b.Server == string(server) {
			if b.Err {
				break
			}
			t := gmsl.Transaction{}
			for _, i := range b.PDUs {
				if i >= 0 && i < len(p.w.spec.Texts) {
					t.PDUs = append(t.PDUs, json.RawMessage(p.w.spec.Texts[i]))
				}
			}
			return t, nil
		}
	}
	return gmsl.Transaction{}, errors.New("scripted backfill error")
}

func (p *c14Providers) logText() string { return " log=" + strings.Join(p.log, ";") }

// ---------------------------------------------------------------- running the real functions

type c14StateResp struct{ a, s gmsl.EventJSONs }

func (r c14StateResp) GetAuthEvents() gmsl.EventJSONs  { return r.a }
func (r c14StateResp) GetStateEvents() gmsl.EventJSONs { return r.s }

func (w *c14World) rawList(l []int) gmsl.EventJSONs {
	r := gmsl.EventJSONs{}
	for _, i := range l {
		r = append(r, spec.RawJSON(w.spec.Texts[i]))
	}
	return r
}

func (w *c14World) pduIDs(l []gmsl.PDU) string {
	r := make([]int, len(l))
	for i, p := range l {
		r[i] = w.id(p.EventID())
	}
	return c14JoinInts(r, ",")
}

func newC14World(raw []byte) *c14World {
	w := &c14World{names: map[string]int{}}
	if len(raw) > 2 && raw[0] == 0x1f && raw[1] == 0x8b {
		zr, err := gzip.NewReader(bytes.NewReader(raw))
		if err != nil {
			panic("c14: bad compressed scenario: " + err.Error())
		}
		if raw, err = io.ReadAll(zr); err != nil {
			panic("c14: bad compressed scenario: " + err.Error())
		}
	}
	if err := json.Unmarshal(raw, &w.spec); err != nil {
		panic("c14: bad scenario: " + err.Error())
	}
	w.ver = gmsl.RoomVersion(w.spec.Ver)
	w.parsed = make([]c14Parsed, len(w.spec.Texts))
	for i, t := range w.spec.Texts {
		w.parsed[i] = c14Parse(w.ver, t)
	}
	return w
}

func (w *c14World) provider(p *c14Providers) gmsl.EventProvider {
	if !w.spec.HasProv {
		return nil
	}
	return p.ProvideEvents
}

// uids of the items of list l whose event ID is among the returned events
func (w *c14World) keptUIDs(l []int, returned []gmsl.PDU) []int {
	ids := map[string]bool{}
	for _, p := range returned {
		ids[p.EventID()] = true
	}
	var r []int
	for _, i := range l {
		if p := w.pdu(i); p != nil && ids[p.EventID()] {
			r = append(r, i)
		}
	}
	return r
}

func c14Impl(args [][]byte) ([][]byte, []byte) {
	w := newC14World(args[0])
	sp := w.spec
	ctx := context.Background()
	var out string
	var extra [][2]interface{}
	var topo [][2][]int
	switch sp.Op {
	case "csr":
		p := newC14Providers(w)
		a, s, err := gmsl.CheckStateResponse(ctx, c14StateResp{w.rawList(sp.A), w.rawList(sp.S)}, w.ver, c14Verifier{}, w.provider(p), c14UserID)
		if err != nil {
			out = "err" + p.logText()
		} else {
			out = "ok a=" + w.pduIDs(a) + " s=" + w.pduIDs(s) + p.logText()
		}
	case "sj":
		// the table needs Allowed(join, returned state): take the state list of a separate run
		// of CheckStateResponse (whose own correspondence is checked by the csr cases)
		p0 := newC14Providers(w)
		if sp.E2E {
			// no table
		} else if _, s0, err := gmsl.CheckStateResponse(ctx, c14StateResp{w.rawList(sp.A), w.rawList(sp.S)}, w.ver, c14Verifier{}, w.provider(p0), c14UserID); err == nil && w.pdu(sp.J) != nil {
			extra = append(extra, [2]interface{}{sp.J, w.keptUIDs(sp.S, s0)})
		}
		p := newC14Providers(w)
		r, err := gmsl.CheckSendJoinResponse(ctx, w.ver, c14StateResp{w.rawList(sp.A), w.rawList(sp.S)}, c14Verifier{}, w.pdu(sp.J), w.provider(p), c14UserID)
		if err != nil {
			out = "err" + p.logText()
		} else {
			out = "ok a=" + w.pduIDs(r.GetAuthEvents().TrustedEvents(w.ver, false)) + " s=" + w.pduIDs(r.GetStateEvents().TrustedEvents(w.ver, false)) + p.logText()
		}
	case "chain":
		p := newC14Providers(w)
		err := gmsl.VerifyEventAuthChain(ctx, w.pdu(sp.E), p.ProvideEvents, c14UserID)
		out = c14Verdict(err) + p.logText()
	case "vras":
		p := newC14Providers(w)
		err := gmsl.VerifyAuthRulesAtState(ctx, p, w.pdu(sp.E), sp.AV, c14UserID)
		out = c14Verdict(err) + p.logText()
	case "load":
		topo = append(topo, w.topoEntry(sp.R, gmsl.TopologicalOrderByPrevEvents))
		p := newC14Providers(w)
		loader := gmsl.NewEventsLoader(w.ver, c14Verifier{}, p, p.ProvideEvents, false)
		raws := []json.RawMessage{}
		for _, i := range sp.R {
			raws = append(raws, json.RawMessage(sp.Texts[i]))
		}
		res, err := loader.LoadAndVerify(ctx, raws, gmsl.TopologicalOrderByPrevEvents, c14UserID)
		if err != nil {
			out = "err" + p.logText()
		} else {
			parts := make([]string, len(res))
			for i, r := range res {
				id := "-"
				if r.Event != nil {
					id = fmt.Sprint(w.id(r.Event.EventID()))
				}
				parts[i] = id + ":" + c14Class(r.Error)
			}
			out = "ok " + strings.Join(parts, ",") + p.logText()
		}
	case "bf":
		for _, b := range sp.BF {
			if !b.Err {
				topo = append(topo, w.topoEntry(b.PDUs, gmsl.TopologicalOrderByPrevEvents))
			}
		}
		p := newC14Providers(w)
		res, err := gmsl.RequestBackfill(ctx, "origin.example", p, c14Verifier{}, sp.Room, w.ver, sp.From, sp.Limit, c14UserID)
		ids := make([]int, len(res))
		for i, e := range res {
			ids[i] = w.id(e.EventID())
		}
		le := " noerr"
		if err != nil {
			le = " lasterr"
		}
		out = "ids=" + c14JoinInts(c14SortedUnique(ids), ",") + fmt.Sprint(" n=", len(res)) + le + p.logText()
	default:
		panic("c14: unknown op " + sp.Op)
	}
	final := [][]byte{args[0], w.derive(extra, topo)}
	if sp.E2E {
		final = append(final, w.eventJSONs())
	}
	return final, []byte(out)
}

// eventJSONs: per pool text the JSON the library keeps for the parsed event, with its event ID
// as event_id member (the form C07's model takes); null where the text does not parse
func (w *c14World) eventJSONs() []byte {
	out := make([]json.RawMessage, len(w.parsed))
	for i, p := range w.parsed {
		out[i] = json.RawMessage("null")
		if p.pdu == nil {
			continue
		}
		var m map[string]json.RawMessage
		if err := json.Unmarshal(p.pdu.JSON(), &m); err != nil {
			continue
		}
		id, _ := json.Marshal(p.pdu.EventID())
		m["event_id"] = id
		if b, err := json.Marshal(m); err == nil {
			out[i] = b
		}
	}
	b, err := json.Marshal(out)
	if err != nil {
		panic(err)
	}
	return b
}

func c14Verdict(err error) string {
	if err == nil {
		return "ok"
	}
	return "err"
}

func c14Class(err error) string {
	switch err.(type) {
	case nil:
		return "ok"
	case gmsl.SignatureErr:
		return "sig"
	case gmsl.AuthChainErr:
		return "chain"
	case gmsl.AuthRulesErr:
		return "rules"
	}
	return "parse"
}

// topoEntry: the real ReverseTopologicalOrdering on the inputs that parse without any error
func (w *c14World) topoEntry(l []int, order gmsl.TopologicalOrder) [2][]int {
	var in []int
	var pdus []gmsl.PDU
	impl, err := gmsl.GetRoomVersion(w.ver)
	if err != nil {
		return [2][]int{{}, {}}
	}
	back := map[gmsl.PDU]int{}
	seen := map[string]bool{}
	for _, i := range l {
		if i >= 0 && i < len(w.parsed) && w.parsed[i].class == 0 && !seen[w.parsed[i].pdu.EventID()] {
			seen[w.parsed[i].pdu.EventID()] = true
			// a fresh object per occurrence, as LoadAndVerify has
			ev, err := impl.NewEventFromUntrustedJSON([]byte(w.spec.Texts[i]))
			if err != nil {
				continue
			}
			in = append(in, i)
			pdus = append(pdus, ev)
			back[ev] = i
		}
	}
	sorted := gmsl.ReverseTopologicalOrdering(pdus, order)
	out := []int{}
	for _, p := range sorted {
		out = append(out, back[p])
	}
	if in == nil {
		in = []int{}
	}
	return [2][]int{in, out}
}

func init() {
	logrus.SetOutput(io.Discard)
	logrus.SetLevel(logrus.PanicLevel)
	RegisterImpl("C14.run", c14Impl)
}
