package main

// C14 case generators: room histories made of real, signed events; faults; provider behaviours.

import (
	"bytes"
	"compress/gzip"
	"encoding/json"
	"fmt"
	"math/rand"
	"strings"

	gmsl "github.com/matrix-org/gomatrixserverlib"
)

type c14Fields map[string]interface{}

type c14Ev struct {
	name   string
	fields c14Fields
	server string // signing server
	text   string
	id     string
	tuple  string   // "" for non-state events
	auth   []*c14Ev // auth events (originals)
	before []*c14Ev // the room state before the event, in history order
}

type c14Room struct {
	ver    gmsl.RoomVersion
	v1     bool // event format 1: explicit event IDs, reference pairs
	roomID string
	evs    []*c14Ev
	cur    map[string]*c14Ev
	n      int
	tag    string
}

func c14Copy(f c14Fields) c14Fields {
	g := c14Fields{}
	for k, v := range f {
		g[k] = v
	}
	return g
}

// c14Sign produces the event text for the fields; wrongKey signs in the server's name with a key
// that is not the server's.
func c14Sign(ver gmsl.RoomVersion, f c14Fields, server string, wrongKey bool) string {
	b, err := json.Marshal(f)
	if err != nil {
		panic(err)
	}
	key := c14Key(server)
	if wrongKey {
		key = c14Key("not-" + server)
	}
	t, err := gmsl.VerifC14MakeEvent(ver, b, server, c14KeyID, key)
	if err != nil {
		panic("c14: cannot build event: " + err.Error())
	}
	return string(t)
}

func c14IDOf(ver gmsl.RoomVersion, text string) string {
	p := c14Parse(ver, text)
	if p.pdu == nil {
		return ""
	}
	return p.pdu.EventID()
}

func (r *c14Room) refs(l []*c14Ev) interface{} {
	if r.v1 {
		out := [][]interface{}{}
		for _, e := range l {
			out = append(out, []interface{}{e.id, map[string]string{"sha256": "47DEQpj8HBSa+/TImW+5JCeuQeRkm5NMpJWZG3hSuFU"}})
		}
		return out
	}
	out := []string{}
	for _, e := range l {
		out = append(out, e.id)
	}
	return out
}

func c14ServerOf(user string) string { return user[strings.IndexByte(user, ':')+1:] }

func (r *c14Room) authFor(typ, sender string, sk *string) []*c14Ev {
	if typ == "m.room.create" {
		return nil
	}
	var out []*c14Ev
	addT := func(t string) {
		if e := r.cur[t]; e != nil {
			for _, x := range out {
				if x == e {
					return
				}
			}
			out = append(out, e)
		}
	}
	addT("m.room.create\x00")
	addT("m.room.power_levels\x00")
	addT("m.room.member\x00" + sender)
	if typ == "m.room.member" && sk != nil {
		addT("m.room.join_rules\x00")
		addT("m.room.member\x00" + *sk)
	}
	return out
}

func (r *c14Room) add(name, typ string, sk *string, sender string, content interface{}) *c14Ev {
	r.n++
	auth := r.authFor(typ, sender, sk)
	var prev []*c14Ev
	if len(r.evs) > 0 {
		prev = []*c14Ev{r.evs[len(r.evs)-1]}
	}
	f := c14Fields{
		"room_id": r.roomID, "sender": sender, "type": typ, "content": content,
		"depth": r.n, "origin_server_ts": 1700000000000 + r.n, "origin": c14ServerOf(sender),
		"prev_events": r.refs(prev), "auth_events": r.refs(auth),
	}
	if sk != nil {
		f["state_key"] = *sk
	}
	if r.v1 {
		f["event_id"] = fmt.Sprintf("$%s%s%d:%s", r.tag, name, r.n, c14ServerOf(sender))
	}
	e := &c14Ev{name: name, fields: f, server: c14ServerOf(sender), auth: auth}
	for _, x := range r.evs {
		if x.tuple != "" && r.cur[x.tuple] == x {
			e.before = append(e.before, x)
		}
	}
	e.text = c14Sign(r.ver, f, e.server, false)
	e.id = c14IDOf(r.ver, e.text)
	if e.id == "" {
		panic("c14: generated event does not parse: " + e.text)
	}
	if sk != nil {
		e.tuple = typ + "\x00" + *sk
		r.cur[e.tuple] = e
	}
	r.evs = append(r.evs, e)
	return e
}

func c14Str(s string) *string { return &s }

type c14History struct {
	room     *c14Room
	users    []string
	state    []*c14Ev // current state, in history order
	chain    []*c14Ev // auth chain of the state, in history order
	msgs     []*c14Ev
	joinOK   *c14Ev // join event of a new user built against the final state
	joinOld  *c14Ev // join event whose auth events are the FIRST join rules / power levels
	byID     map[string]*c14Ev
	altOther *c14Ev // a state event of another room (same users)
	altPL    *c14Ev // a genuine, strict power-levels event of the room that is not part of its state
}

// c14NewHistory builds create, members, power levels, join rules, topic/name events by 2-4 users.
func c14NewHistory(rng *rand.Rand, ver string, tag string) *c14History {
	impl, err := gmsl.GetRoomVersion(gmsl.RoomVersion(ver))
	if err != nil {
		panic(err)
	}
	r := &c14Room{ver: gmsl.RoomVersion(ver), v1: impl.EventFormat() == gmsl.EventFormatV1,
		roomID: "!r" + tag + ":h0", cur: map[string]*c14Ev{}, tag: tag}
	nUsers := 2 + rng.Intn(3)
	users := []string{}
	for i := 0; i < nUsers; i++ {
		users = append(users, fmt.Sprintf("@u%d:h%d", i, i%2))
	}
	h := &c14History{room: r, users: users, byID: map[string]*c14Ev{}}
	cc := map[string]interface{}{"room_version": ver}
	if ver != "11" && ver != "12" {
		cc["creator"] = users[0]
	}
	r.add("create", "m.room.create", c14Str(""), users[0], cc)
	r.add("m0", "m.room.member", c14Str(users[0]), users[0], map[string]string{"membership": "join"})
	topicLevel := []int{0, 50}[rng.Intn(2)]
	pl := func(u1 int) map[string]interface{} {
		return map[string]interface{}{
			"users": map[string]int{users[0]: 100, users[1]: u1}, "users_default": 0,
			"events": map[string]int{"m.room.topic": topicLevel}, "events_default": 0,
			"state_default": 50, "ban": 50, "kick": 50, "redact": 50, "invite": 0,
		}
	}
	r.add("pl", "m.room.power_levels", c14Str(""), users[0], pl(0))
	firstJR := []string{"public", "invite"}[rng.Intn(2)]
	if rng.Intn(3) > 0 {
		firstJR = "public"
	}
	r.add("jr", "m.room.join_rules", c14Str(""), users[0], map[string]string{"join_rule": firstJR})
	for i := 1; i < nUsers; i++ {
		if firstJR == "invite" {
			r.add(fmt.Sprint("inv", i), "m.room.member", c14Str(users[i]), users[0], map[string]string{"membership": "invite"})
		}
		r.add(fmt.Sprint("m", i), "m.room.member", c14Str(users[i]), users[i], map[string]string{"membership": "join"})
		if rng.Intn(2) == 0 {
			h.msgs = append(h.msgs, r.add(fmt.Sprint("msg", i), "m.room.message", nil, users[i], map[string]string{"body": "hi", "msgtype": "m.text"}))
		}
	}
	if topicLevel == 0 || rng.Intn(2) == 0 {
		who := users[1]
		if topicLevel != 0 {
			who = users[0]
		}
		r.add("topic", "m.room.topic", c14Str(""), who, map[string]string{"topic": "t"})
	}
	// state of the first epoch, for joins that cite old auth events
	oldJR, oldPL := r.cur["m.room.join_rules\x00"], r.cur["m.room.power_levels\x00"]
	if rng.Intn(2) == 0 {
		r.add("pl2", "m.room.power_levels", c14Str(""), users[0], pl(50))
		r.add("name", "m.room.name", c14Str(""), users[1], map[string]string{"name": "n"})
	}
	secondJR := ""
	if rng.Intn(2) == 0 {
		secondJR = map[string]string{"public": "invite", "invite": "public"}[firstJR]
		r.add("jr2", "m.room.join_rules", c14Str(""), users[0], map[string]string{"join_rule": secondJR})
	}
	if rng.Intn(3) == 0 {
		h.msgs = append(h.msgs, r.add("msgz", "m.room.message", nil, users[0], map[string]string{"body": "bye", "msgtype": "m.text"}))
	}
	// current state and its auth chain
	inState := map[*c14Ev]bool{}
	for _, e := range r.cur {
		inState[e] = true
	}
	inChain := map[*c14Ev]bool{}
	var walk func(e *c14Ev)
	walk = func(e *c14Ev) {
		for _, a := range e.auth {
			if !inChain[a] {
				inChain[a] = true
				walk(a)
			}
		}
	}
	for e := range inState {
		walk(e)
	}
	for _, e := range r.evs {
		h.byID[e.id] = e
		if inState[e] {
			h.state = append(h.state, e)
		}
		if inChain[e] {
			h.chain = append(h.chain, e)
		}
	}
	// the joining user (not part of the history)
	joiner := "@joiner:h2"
	snapshot := len(r.evs)
	curSave := map[string]*c14Ev{}
	for k, v := range r.cur {
		curSave[k] = v
	}
	h.joinOK = r.add("join", "m.room.member", c14Str(joiner), joiner, map[string]string{"membership": "join"})
	r.evs, r.cur = r.evs[:snapshot], curSave
	// the same join but citing the first join rules and power levels
	cur2 := map[string]*c14Ev{}
	for k, v := range curSave {
		cur2[k] = v
	}
	cur2["m.room.join_rules\x00"], cur2["m.room.power_levels\x00"] = oldJR, oldPL
	r.cur = cur2
	h.joinOld = r.add("joinold", "m.room.member", c14Str(joiner), joiner, map[string]string{"membership": "join"})
	r.evs, r.cur = r.evs[:snapshot], curSave
	// a strict power-levels event (everybody but the creator is muted), never part of the state
	h.altPL = r.add("altpl", "m.room.power_levels", c14Str(""), users[0], map[string]interface{}{
		"users": map[string]int{users[0]: 100}, "users_default": 0, "events_default": 50,
		"state_default": 50, "ban": 50, "kick": 50, "redact": 50, "invite": 50,
	})
	r.evs, r.cur = r.evs[:snapshot], curSave
	// an event of another room
	other := &c14Room{ver: r.ver, v1: r.v1, roomID: "!other" + tag + ":h0", cur: map[string]*c14Ev{}, tag: tag + "o"}
	h.altOther = other.add("create", "m.room.create", c14Str(""), users[0], cc)
	return h
}

// variants of one event ------------------------------------------------------------------

func (h *c14History) rebuild(e *c14Ev, wrongKey bool, mod func(f c14Fields)) string {
	f := c14Copy(e.fields)
	server := e.server
	if mod != nil {
		mod(f)
		if s, ok := f["sender"].(string); ok {
			server = c14ServerOf(s)
		}
	}
	return c14Sign(h.room.ver, f, server, wrongKey)
}

var c14FaultKinds = []string{"badsig", "disallowed", "missing", "wrongroom", "nonstate", "dupkey",
	"malformed", "oversize_p", "oversize_np", "dupvariant", "malformed2", "longtype_p",
	"dupauth_last", "dupauth_first", "nopl", "otherroom"}

func (h *c14History) variant(e *c14Ev, kind string) string {
	switch kind {
	case "badsig":
		return h.rebuild(e, true, nil)
	case "disallowed":
		return h.rebuild(e, false, func(f c14Fields) {
			f["sender"] = "@outsider:h0"
			f["origin"] = "h0"
			if h.room.v1 {
				// keep the event ID (its server must sign too): stay on the same server
				f["sender"] = "@outsider:" + e.server
				f["origin"] = e.server
			}
		})
	case "wrongroom":
		return h.rebuild(e, false, func(f c14Fields) { f["room_id"] = "!elsewhere:h0" })
	case "nonstate":
		return h.rebuild(e, false, func(f c14Fields) { delete(f, "state_key") })
	case "dupkey":
		return h.rebuild(e, false, func(f c14Fields) { f["origin_server_ts"] = 1600000000000 })
	case "oversize_p":
		return h.rebuild(e, false, func(f c14Fields) { f["state_key"] = strings.Repeat("€", 90) })
	case "oversize_np":
		return h.rebuild(e, false, func(f c14Fields) { f["state_key"] = strings.Repeat("k", 300) })
	case "longtype_p":
		return h.rebuild(e, false, func(f c14Fields) { f["type"] = "t." + strings.Repeat("€", 86) })
	case "badsig_disallowed": // two faults: bad signature AND disallowed by its auth events
		return h.rebuild(e, true, func(f c14Fields) {
			f["sender"] = "@outsider:" + e.server
			f["origin"] = e.server
		})
	case "badsig_wrongroom":
		return h.rebuild(e, true, func(f c14Fields) { f["room_id"] = "!elsewhere:h0" })
	case "nopl", "dupauth_last", "dupauth_first": // what the event cites as its auth events
		var cited []*c14Ev
		for _, a := range e.auth {
			if kind != "nopl" || !strings.HasPrefix(a.tuple, "m.room.power_levels\x00") {
				cited = append(cited, a)
			}
		}
		if kind == "dupauth_last" {
			cited = append(cited, h.altPL)
		} else if kind == "dupauth_first" {
			cited = append([]*c14Ev{h.altPL}, cited...)
		}
		return h.rebuild(e, false, func(f c14Fields) { f["auth_events"] = h.room.refs(cited) })
	case "otherroom": // a genuine event of another room takes the place
		return h.altOther.text
	case "malformed":
		return e.text[:len(e.text)-1]
	case "malformed2":
		return strings.Replace(e.text, `"type":`, `"type":5,"xtype":`, 1)
	}
	panic("c14: unknown variant " + kind)
}

// scenario builder -------------------------------------------------------------------------

type c14Builder struct {
	spec  c14Spec
	idx   map[string]int
	other *c14Ev // the event a misbehaving provider answers with instead of the requested one
}

func newC14Builder(op, ver string) *c14Builder {
	return &c14Builder{spec: c14Spec{Op: op, Ver: ver, Fuel: 400, GFuel: 64, HasProv: true}, idx: map[string]int{}}
}

func (b *c14Builder) t(text string) int {
	if i, ok := b.idx[text]; ok {
		return i
	}
	i := len(b.spec.Texts)
	b.spec.Texts = append(b.spec.Texts, text)
	b.idx[text] = i
	return i
}

func (b *c14Builder) ts(l []string) []int {
	r := make([]int, len(l))
	for i, s := range l {
		r[i] = b.t(s)
	}
	return r
}

// args: the raw scenario is handed over gzip-compressed (the model never reads it; it is kept
// for the implementation side and for replays). c14Impl accepts plain JSON as well.
func (b *c14Builder) args() [][]byte {
	j, err := json.Marshal(b.spec)
	if err != nil {
		panic(err)
	}
	var buf bytes.Buffer
	zw, _ := gzip.NewWriterLevel(&buf, gzip.BestSpeed)
	_, _ = zw.Write(j)
	_ = zw.Close()
	return [][]byte{buf.Bytes(), nil}
}

var c14ProvModes = []string{"orig", "nothing", "error", "diff_once", "err_then_orig", "nonstate", "bad", "diff_then_nothing", "none", "diff_forever", "orig_plus_extra", "diff_forever_all"}

// script installs the behaviour `mode` of the event provider for event ID id (orig = the
// original event of the history with that ID, may be nil).
func (b *c14Builder) script(h *c14History, id string, orig *c14Ev, mode string) {
	var o []int
	if orig != nil {
		o = []int{b.t(orig.text)}
	}
	other := []int{b.t(h.room.evs[0].text)}
	if orig == h.room.evs[0] {
		other = []int{b.t(h.room.evs[1].text)}
	}
	if b.other != nil && b.other != orig {
		other = []int{b.t(b.other.text)}
	}
	var as [][]int
	switch mode {
	case "orig":
		if o != nil {
			as = [][]int{o}
		}
	case "nothing", "none":
	case "error":
		as = [][]int{{-1}}
	case "diff_once":
		as = [][]int{other}
		if o != nil {
			as = append(as, o)
		} else {
			as = append(as, []int{})
		}
	case "diff_then_nothing":
		as = [][]int{other, {}}
	case "diff_forever", "diff_forever_all": // every request is answered with another event (finding F82)
		as = [][]int{other}
	case "orig_plus_extra":
		as = [][]int{append(append([]int{}, o...), other...)}
	case "err_then_orig":
		as = [][]int{{-1}}
		if o != nil {
			as = append(as, o)
		}
	case "nonstate":
		if orig != nil {
			as = [][]int{{b.t(h.variant(orig, "nonstate"))}}
		} else {
			as = [][]int{{b.t(h.msgsOrAny().text)}}
		}
	case "bad":
		if orig != nil {
			as = [][]int{{b.t(h.variant(orig, "disallowed"))}}
		}
	}
	if as != nil {
		b.spec.Prov = append(b.spec.Prov, c14Script{ID: id, Answers: as})
	}
}

func (h *c14History) msgsOrAny() *c14Ev {
	if len(h.msgs) > 0 {
		return h.msgs[0]
	}
	return h.room.evs[len(h.room.evs)-1]
}

// a /state or /send_join response with faults applied ---------------------------------------

type c14Item struct {
	orig *c14Ev
	text string
}

type c14Fault struct {
	list string // "A" or "S"
	pos  int
	kind string
}

func (h *c14History) response(faults []c14Fault) (a, s []string, removed []*c14Ev) {
	mk := func(l []*c14Ev) []c14Item {
		r := make([]c14Item, len(l))
		for i, e := range l {
			r[i] = c14Item{e, e.text}
		}
		return r
	}
	lists := map[string][]c14Item{"A": mk(h.chain), "S": mk(h.state)}
	extra := map[string]map[int][]string{"A": {}, "S": {}}
	gone := map[*c14Ev]bool{}
	for _, f := range faults {
		l := lists[f.list]
		if f.pos >= len(l) {
			continue
		}
		e := l[f.pos].orig
		switch f.kind {
		case "missing":
			gone[e] = true
			removed = append(removed, e)
		case "dupkey":
			extra[f.list][f.pos] = append(extra[f.list][f.pos], h.variant(e, "dupkey"))
		case "dupvariant":
			extra[f.list][f.pos] = append(extra[f.list][f.pos], h.variant(e, "badsig"))
		default:
			l[f.pos].text = h.variant(e, f.kind)
		}
	}
	flat := func(name string) []string {
		var out []string
		for i, it := range lists[name] {
			if !gone[it.orig] {
				out = append(out, it.text)
			}
			out = append(out, extra[name][i]...)
		}
		return out
	}
	return flat("A"), flat("S"), removed
}

func (h *c14History) positions() []c14Fault {
	var r []c14Fault
	for i := range h.chain {
		r = append(r, c14Fault{"A", i, ""})
	}
	for i := range h.state {
		r = append(r, c14Fault{"S", i, ""})
	}
	return r
}

// stateCase builds one csr / sj scenario.
func (h *c14History) stateCase(op string, faults []c14Fault, mode string, join *c14Ev, joinKind string) *c14Builder {
	b := newC14Builder(op, string(h.room.ver))
	a, s, removed := h.response(faults)
	b.spec.A, b.spec.S = b.ts(a), b.ts(s)
	if op == "sj" {
		jt := join.text
		if joinKind != "" {
			jt = h.variant(join, joinKind)
		}
		b.spec.J = b.t(jt)
	}
	if mode == "none" {
		b.spec.HasProv = false
	}
	isRemoved := func(e *c14Ev) bool {
		for _, x := range removed {
			if x == e {
				return true
			}
		}
		return false
	}
	for _, e := range append(append([]*c14Ev{}, h.room.evs...), h.altPL) {
		m := mode
		// the answers with unrequested events concern the events that are missing from the
		// response; the others are answered honestly (the provider stays a function of the ID)
		if (mode == "diff_forever" || mode == "orig_plus_extra") && !isRemoved(e) {
			m = "orig"
		}
		b.script(h, e.id, e, m)
	}
	if mode != "orig" && mode != "none" && mode != "nothing" && mode != "orig_plus_extra" {
		b.script(h, "$unknown:h0", nil, mode)
	}
	return b
}

func c14Desc(op string, ver string, faults []c14Fault, mode string) string {
	parts := []string{op, "v" + ver, "prov=" + mode}
	for _, f := range faults {
		parts = append(parts, fmt.Sprintf("%s[%d]:%s", f.list, f.pos, f.kind))
	}
	return strings.Join(parts, " ")
}

func init() {
	RegisterProp("C14", func(c *Ctx) {
		versions := []string{"1", "6", "10", "11"}
		if c.Thorough() {
			versions = []string{"1", "2", "3", "4", "5", "6", "7", "8", "9", "10", "11"}
		}
		g := &c14Gen{c: c}
		for vi, ver := range versions {
			nh := c.Scale(1, 3)
			for hi := 0; hi < nh; hi++ {
				h := c14NewHistory(c.Rng, ver, fmt.Sprintf("%d%d", vi, hi))
				g.genState(h)
				g.genChain(h)
				g.genVras(h)
				g.genLoad(h)
				g.genBackfill(h)
			}
		}
		// unknown room version: LoadAndVerify itself fails, for every server
		h := c14NewHistory(c.Rng, "10", "zz")
		b := newC14Builder("load", "no-such-version")
		b.spec.R = b.ts([]string{h.room.evs[0].text, h.room.evs[1].text})
		g.run(b, "load unknown version")
		b = newC14Builder("bf", "no-such-version")
		b.spec.Room = "!x:h0"
		b.spec.From, b.spec.Limit, b.spec.Servers = []string{"$x"}, 5, []string{"s1", "s2"}
		b.spec.BF = []c14BF{{Server: "s1", PDUs: b.ts([]string{h.room.evs[0].text})}, {Server: "s2", Err: true}}
		g.run(b, "bf unknown version")
	})
}

type c14Gen struct {
	c *Ctx
	n int
}

// stationary: every script is a single answer (nothing, an error, or one event carrying the
// requested ID) -- the provider is then a function of the requested ID and the specification
// oracle applies. lenient (CheckStateResponse / CheckSendJoinResponse): the answer may carry
// unrequested events as well, provided each of them is also the script's answer for its own ID
// and no other text of the pool has that ID (mirrors Fed/Oracle.v: script_fun_extras).
func (b *c14Builder) stationary(lenient bool) bool {
	ver := gmsl.RoomVersion(b.spec.Ver)
	idOf := func(u int) string { return c14IDOf(ver, b.spec.Texts[u]) }
	first := map[string][][]int{}
	for _, sc := range b.spec.Prov {
		if _, ok := first[sc.ID]; !ok {
			first[sc.ID] = sc.Answers
		}
	}
	for _, sc := range b.spec.Prov {
		if len(sc.Answers) != 1 {
			return false
		}
		a := sc.Answers[0]
		if len(a) == 1 && a[0] == -1 {
			continue
		}
		matching := 0
		for _, u := range a {
			if idOf(u) == "" {
				continue // does not parse: never returned
			}
			if idOf(u) == sc.ID {
				matching++
				continue
			}
			if !lenient {
				return false
			}
			own := first[idOf(u)]
			if len(own) != 1 {
				return false
			}
			n, same := 0, false
			for _, v := range own[0] {
				if v >= 0 && idOf(v) == idOf(u) {
					n++
					same = same || v == u
				}
			}
			if n != 1 || !same {
				return false
			}
			for v := range b.spec.Texts {
				if v != u && idOf(v) == idOf(u) {
					return false
				}
			}
		}
		if matching > 1 {
			return false
		}
	}
	return true
}

func (g *c14Gen) run(b *c14Builder, desc string) []byte {
	g.c.Count("op:" + b.spec.Op)
	g.c.Count("ver:" + b.spec.Ver)
	prop := ""
	switch b.spec.Op {
	case "csr", "sj":
		if b.stationary(true) {
			prop = "C14.prop." + b.spec.Op
		}
	case "chain", "load", "bf":
		if b.stationary(false) {
			prop = "C14.prop." + b.spec.Op
		}
	case "vras":
		prop = "C14.prop.vras"
	}
	if prop != "" {
		g.c.Count("oracle:" + b.spec.Op)
	}
	out := g.c.Run("C14.run", b.args(), "C14."+b.spec.Op, prop, desc)
	// end to end: the same scenario with C07's auth model inside the Coq model
	switch b.spec.Op {
	case "csr", "sj", "chain":
		g.n++
		if g.n%g.c.Scale(4, 3) == 0 {
			b.spec.E2E = true
			g.c.Count("e2e:" + b.spec.Op)
			g.c.Run("C14.run", b.args(), "C14."+b.spec.Op+"_e2e", "", "e2e "+desc)
			b.spec.E2E = false
		}
	}
	return out
}

func (g *c14Gen) genState(h *c14History) {
	c, ver := g.c, string(h.room.ver)
	// no fault, every provider behaviour
	for _, mode := range c14ProvModes {
		g.run(h.stateCase("csr", nil, mode, nil, ""), c14Desc("csr", ver, nil, mode))
		g.run(h.stateCase("sj", nil, mode, h.joinOK, ""), c14Desc("sj", ver, nil, mode))
	}
	// every single fault
	k := 0
	for _, pos := range h.positions() {
		for _, kind := range c14FaultKinds {
			f := []c14Fault{{pos.list, pos.pos, kind}}
			modes := []string{c14ProvModes[k%len(c14ProvModes)]}
			k++
			if kind == "missing" {
				modes = c14ProvModes
			} else if !h.room.v1 && (kind == "disallowed" || kind == "wrongroom") {
				// the event ID changes with the content: later events now cite a missing event
				modes = c14ProvModes
				if !c.Thorough() {
					modes = []string{"orig", "nothing", "error", "diff_once", "none"}
				}
			}
			for _, mode := range modes {
				c.Count("fault:" + kind)
				c.Count("prov:" + mode)
				g.run(h.stateCase("csr", f, mode, nil, ""), c14Desc("csr", ver, f, mode))
				if k%3 == 0 {
					g.run(h.stateCase("sj", f, mode, h.joinOK, ""), c14Desc("sj", ver, f, mode))
				}
			}
		}
	}
	// fault subsets of size 2 and 3
	ps := h.positions()
	for i := 0; i < c.Scale(110, 900); i++ {
		n := 2 + c.Rng.Intn(2)
		var f []c14Fault
		for j := 0; j < n; j++ {
			p := ps[c.Rng.Intn(len(ps))]
			f = append(f, c14Fault{p.list, p.pos, c14FaultKinds[c.Rng.Intn(len(c14FaultKinds))]})
		}
		mode := c14ProvModes[c.Rng.Intn(len(c14ProvModes))]
		c.Count(fmt.Sprint("faults:", n))
		op := "csr"
		if i%3 == 0 {
			op = "sj"
		}
		g.run(h.stateCase(op, f, mode, h.joinOK, ""), c14Desc(op, ver, f, mode))
	}
	// send_join: the join event itself
	for _, join := range []*c14Ev{h.joinOK, h.joinOld} {
		for _, jk := range []string{"", "badsig", "disallowed", "wrongroom", "nonstate"} {
			for _, mode := range []string{"orig", "nothing", "none"} {
				c.Count("join:" + join.name + ":" + jk)
				g.run(h.stateCase("sj", nil, mode, join, jk), c14Desc("sj join="+join.name+"/"+jk, ver, nil, mode))
				for _, pos := range h.positions() {
					if c.Rng.Intn(4) == 0 {
						f := []c14Fault{{pos.list, pos.pos, []string{"missing", "badsig", "disallowed"}[c.Rng.Intn(3)]}}
						g.run(h.stateCase("sj", f, mode, join, jk), c14Desc("sj join="+join.name+"/"+jk, ver, f, mode))
					}
				}
			}
		}
	}
}

// ancestors of e through auth events, nearest first
func c14Ancestors(e *c14Ev) []*c14Ev {
	var out []*c14Ev
	seen := map[*c14Ev]bool{}
	var walk func(x *c14Ev)
	walk = func(x *c14Ev) {
		for _, a := range x.auth {
			if !seen[a] {
				seen[a] = true
				out = append(out, a)
				walk(a)
			}
		}
	}
	walk(e)
	return out
}

var c14ChainModes = []string{"nothing", "error", "diff_once", "err_then_orig", "nonstate", "bad", "diff_then_nothing", "diff_forever"}

func (h *c14History) allEvents() []*c14Ev {
	return append(append([]*c14Ev{}, h.room.evs...), h.joinOK, h.joinOld)
}

// VerifyEventAuthChain: every event of the history (and variants of it) x for every ancestor
// every provider behaviour (the others answer with the original event)
func (g *c14Gen) genChain(h *c14History) {
	c, ver := g.c, string(h.room.ver)
	var other *c14Ev
	mk := func(e *c14Ev, kind string, modes map[*c14Ev]string, dflt string) *c14Builder {
		b := newC14Builder("chain", ver)
		b.other = other
		t := e.text
		if kind != "" {
			t = h.variant(e, kind)
		}
		b.spec.E = b.t(t)
		for _, x := range h.room.evs {
			m := dflt
			if mm, ok := modes[x]; ok {
				m = mm
			}
			b.script(h, x.id, x, m)
		}
		return b
	}
	k := 0
	for _, e := range h.allEvents() {
		for _, kind := range []string{"", "disallowed", "wrongroom", "nonstate", "badsig"} {
			c.Count("chain:event:" + kind)
			g.run(mk(e, kind, nil, "orig"), fmt.Sprintf("chain v%s %s/%s all orig", ver, e.name, kind))
		}
		g.run(mk(e, "", nil, "nothing"), fmt.Sprintf("chain v%s %s provider empty", ver, e.name))
		anc := c14Ancestors(e)
		for ai, x := range anc {
			modes := c14ChainModes
			if ai >= len(e.auth) && !c.Thorough() {
				modes = []string{c14ChainModes[k%len(c14ChainModes)]}
				k++
			}
			for _, m := range modes {
				c.Count("chain:prov:" + m)
				g.run(mk(e, "", map[*c14Ev]string{x: m}, "orig"), fmt.Sprintf("chain v%s %s: %s=%s", ver, e.name, x.name, m))
			}
		}
		for i := 0; i < c.Scale(6, 30); i++ {
			modes := map[*c14Ev]string{}
			for _, x := range anc {
				if c.Rng.Intn(3) == 0 {
					modes[x] = c14ChainModes[c.Rng.Intn(len(c14ChainModes))]
				}
			}
			// the provider's wrong answers are an event with auth events of its own, so that an
			// event can reach the stack twice
			other = h.room.evs[c.Rng.Intn(len(h.room.evs))]
			g.run(mk(e, "", modes, "orig"), fmt.Sprintf("chain v%s %s random provider, other=%s", ver, e.name, other.name))
			other = nil
		}
		// two auth events answered with the same third event whose own auth event is unavailable
		if len(e.auth) >= 2 {
			taken := 0
			for _, o := range h.room.evs {
				if len(o.auth) == 0 || o == e.auth[0] || o == e.auth[1] || o == e || taken >= 2 {
					continue
				}
				if last := o.auth[len(o.auth)-1]; last == e.auth[0] || last == e.auth[1] {
					continue
				}
				taken++
				other = o
				g.run(mk(e, "", map[*c14Ev]string{e.auth[0]: "diff_once", e.auth[1]: "diff_once", o.auth[len(o.auth)-1]: "nothing"}, "orig"),
					fmt.Sprintf("chain v%s %s: two answers are %s", ver, e.name, o.name))
				other = nil
			}
		}
	}
}

var c14IDsModes = []string{"exact", "minus", "plus", "empty", "err", "superset", "minuslast"}
var c14StateModes = []string{"proper", "err", "minus", "nil", "strictpl", "bad", "other", "nonstate", "empty", "badsigval", "dupstate", "nonstatepl"}

// sp adds the state provider's answers for the event `text` (a variant of e).
func (b *c14Builder) sp(h *c14History, text string, e *c14Ev, idsMode, stMode string) {
	id := c14IDOf(h.room.ver, text)
	if id == "" {
		return
	}
	for _, s := range b.spec.SP {
		if s.ID == id {
			return
		}
	}
	s := c14SP{ID: id, IDs: []string{}, Keys: []string{}, Vals: []int{}}
	var authIDs []string
	for _, a := range e.auth {
		authIDs = append(authIDs, a.id)
	}
	switch idsMode {
	case "exact":
		s.IDs = append(s.IDs, authIDs...)
	case "minus":
		if len(authIDs) > 0 {
			s.IDs = append(s.IDs, authIDs[1:]...)
		}
	case "minuslast":
		if len(authIDs) > 0 {
			s.IDs = append(s.IDs, authIDs[:len(authIDs)-1]...)
		}
	case "plus":
		s.IDs = append(append(s.IDs, "$extra:h0"), authIDs...)
	case "empty":
	case "err":
		s.IDsErr = true
	case "superset":
		for _, x := range e.before {
			s.IDs = append(s.IDs, x.id)
		}
		s.IDs = append(s.IDs, authIDs...)
	}
	// the state before the event: the room's real state at that point (one event per tuple),
	// then disturbed
	cited := func(x *c14Ev) int {
		for i, a := range e.auth {
			if a == x {
				return i
			}
		}
		return -1
	}
	for _, x := range e.before {
		key, val := x.id, b.t(x.text)
		ci := cited(x)
		switch stMode {
		case "minus":
			if ci == 0 {
				continue
			}
		case "nil":
			if ci == 0 {
				val = -1
			}
		case "bad":
			if ci == len(e.auth)-1 {
				val = b.t(h.variant(x, "disallowed"))
			}
		case "badsigval":
			if ci == len(e.auth)-1 {
				val = b.t(h.variant(x, "badsig"))
			}
		case "nonstatepl", "strictpl":
			if strings.HasPrefix(x.tuple, "m.room.power_levels\x00") {
				if stMode == "strictpl" {
					key, val = h.altPL.id, b.t(h.altPL.text)
				} else {
					val = b.t(h.variant(x, "nonstate"))
				}
			}
		}
		s.Keys, s.Vals = append(s.Keys, key), append(s.Vals, val)
	}
	switch stMode {
	case "err":
		s.StateErr = true
	case "empty":
		s.Keys, s.Vals = []string{}, []int{}
	case "other": // an event of another room among the state
		s.Keys, s.Vals = append(s.Keys, h.altOther.id), append(s.Vals, b.t(h.altOther.text))
	case "nonstate": // a message among the state: skipped
		m := h.msgsOrAny()
		s.Keys, s.Vals = append(s.Keys, m.id), append(s.Vals, b.t(h.variant(m, "nonstate")))
	case "dupstate": // two power-levels events: not a state
		s.Keys, s.Vals = append(s.Keys, h.altPL.id), append(s.Vals, b.t(h.altPL.text))
	}
	b.spec.SP = append(b.spec.SP, s)
}

// VerifyAuthRulesAtState: event x allowValidation x state IDs x state
func (g *c14Gen) genVras(h *c14History) {
	c, ver := g.c, string(h.room.ver)
	k := 0
	for _, e := range h.allEvents() {
		for _, kind := range []string{"", "disallowed", "wrongroom", "nopl", "dupauth_last"} {
			t := e.text
			if kind != "" {
				t = h.variant(e, kind)
			}
			for _, av := range []bool{true, false} {
				for _, im := range c14IDsModes {
					sms := c14StateModes
					if kind != "" || (!c.Thorough() && im != "minus" && im != "exact") {
						sms = []string{c14StateModes[k%len(c14StateModes)]}
						k++
					}
					for _, sm := range sms {
						b := newC14Builder("vras", ver)
						b.spec.E, b.spec.AV = b.t(t), av
						b.sp(h, t, e, im, sm)
						c.Count("vras:ids:" + im)
						c.Count("vras:state:" + sm)
						g.run(b, fmt.Sprintf("vras v%s %s/%s av=%v ids=%s state=%s", ver, e.name, kind, av, im, sm))
					}
				}
			}
		}
	}
	// no answer scripted at all
	b := newC14Builder("vras", ver)
	b.spec.E = b.t(h.room.evs[2].text)
	g.run(b, "vras no script")
}

var c14LoadFaults = []string{"", "", "", "badsig", "disallowed", "malformed", "oversize_p", "oversize_np", "wrongroom", "malformed2", "nonstate", "badsig_disallowed", "badsig_wrongroom", "nopl", "dupauth_last", "dupauth_first", "otherroom"}

// pdus picks raw inputs for LoadAndVerify / a backfill transaction: events of the history in
// random order, some of them faulty, some twice; provider answers for what they need.
func (g *c14Gen) pdus(h *c14History, b *c14Builder, n int) []int {
	c := g.c
	evs := h.allEvents()
	var out []int
	for i := 0; i < n; i++ {
		e := evs[c.Rng.Intn(len(evs))]
		kind := c14LoadFaults[c.Rng.Intn(len(c14LoadFaults))]
		t := e.text
		if kind != "" {
			t = h.variant(e, kind)
		}
		c.Count("load:item:" + kind)
		out = append(out, b.t(t))
		if c.Rng.Intn(8) == 0 {
			out = append(out, b.t(t))
		}
		im := []string{"exact", "exact", "minus", "plus", "err", "superset", "empty"}[c.Rng.Intn(7)]
		sm := c14StateModes[c.Rng.Intn(len(c14StateModes))]
		if c.Rng.Intn(2) == 0 {
			sm = "proper"
		}
		b.sp(h, t, e, im, sm)
	}
	return out
}

func (g *c14Gen) provScripts(h *c14History, b *c14Builder) {
	c := g.c
	p := c.Rng.Intn(4) // 0: all orig, else each ID misbehaves with probability 1/(2p+1)
	for _, x := range h.room.evs {
		m := "orig"
		if p > 0 && c.Rng.Intn(2*p+1) == 0 {
			m = c14ChainModes[c.Rng.Intn(len(c14ChainModes))]
		}
		b.script(h, x.id, x, m)
	}
}

func (g *c14Gen) genLoad(h *c14History) {
	c, ver := g.c, string(h.room.ver)
	// the whole history, in order and reversed, honest providers
	for _, rev := range []bool{false, true} {
		b := newC14Builder("load", ver)
		for i := range h.room.evs {
			e := h.room.evs[i]
			if rev {
				e = h.room.evs[len(h.room.evs)-1-i]
			}
			b.spec.R = append(b.spec.R, b.t(e.text))
			b.sp(h, e.text, e, "exact", "proper")
		}
		for _, x := range h.room.evs {
			b.script(h, x.id, x, "orig")
		}
		g.run(b, fmt.Sprintf("load v%s whole history rev=%v", ver, rev))
	}
	// every single event x every class of failure, alone
	for _, e := range h.allEvents() {
		for _, kind := range c14LoadFaults[2:] {
			for _, im := range []string{"exact", "minus", "err"} {
				for _, sm := range []string{"proper", "err", "bad"} {
					if !c.Thorough() && c.Rng.Intn(3) != 0 {
						continue
					}
					b := newC14Builder("load", ver)
					t := e.text
					if kind != "" {
						t = h.variant(e, kind)
					}
					b.spec.R = []int{b.t(t)}
					b.sp(h, t, e, im, sm)
					g.provScripts(h, b)
					c.Count("load:single:" + kind)
					g.run(b, fmt.Sprintf("load v%s single %s/%s ids=%s state=%s", ver, e.name, kind, im, sm))
				}
			}
		}
	}
	// two faults in one event: the class must be that of the FIRST failing check. Honest
	// providers, so that the specification oracle decides each class on its own.
	for _, e := range h.allEvents() {
		for _, kind := range []string{"badsig", "badsig_disallowed", "badsig_wrongroom", "disallowed"} {
			for _, ism := range [][2]string{{"exact", "proper"}, {"minus", "err"}, {"minus", "bad"}, {"err", "proper"}, {"minus", "proper"}} {
				b := newC14Builder("load", ver)
				t := h.variant(e, kind)
				b.spec.R = []int{b.t(t), b.t(h.room.evs[0].text)}
				b.sp(h, t, e, ism[0], ism[1])
				b.sp(h, h.room.evs[0].text, h.room.evs[0], "exact", "proper")
				for _, x := range h.room.evs {
					b.script(h, x.id, x, "orig")
				}
				c.Count("load:twofaults:" + kind)
				g.run(b, fmt.Sprintf("load v%s %s/%s ids=%s state=%s honest providers", ver, e.name, kind, ism[0], ism[1]))
			}
		}
	}
	for i := 0; i < c.Scale(60, 600); i++ {
		b := newC14Builder("load", ver)
		b.spec.R = g.pdus(h, b, c.Rng.Intn(7))
		g.provScripts(h, b)
		g.run(b, fmt.Sprintf("load v%s random", ver))
	}
}

// sameIDCases: the same event ID arrives from several servers, acceptable from one and not from
// another (bad signature, rejected by the auth checks, unparsable), in both orders; limits around
// the number of events the first server contributes.
func (g *c14Gen) sameIDCases(h *c14History) {
	c, ver := g.c, string(h.room.ver)
	evs := h.room.evs
	filler := evs[0] // the create event: always acceptable
	for xi, x := range evs {
		if xi == 0 || (!c.Thorough() && xi%2 == 0 && xi != len(evs)-1) {
			continue
		}
		bads := []string{"badsig", "malformed", "prov_err_once"}
		if h.room.v1 {
			bads = append(bads, "disallowed", "badsig_disallowed") // same ID, other content
		}
		for _, bad := range bads {
			for _, order := range []string{"bad_first", "good_first", "bad_good_bad"} {
				for _, limit := range []int{100, 1, 2, 3} {
					if !c.Thorough() && limit == 3 && order != "bad_first" {
						continue
					}
					b := newC14Builder("bf", ver)
		b.spec.Room = h.room.roomID
					b.spec.Room = h.room.roomID
					goodT, badT := x.text, x.text
					if bad != "prov_err_once" {
						badT = h.variant(x, bad)
					}
					b.sp(h, goodT, x, "exact", "proper")
					b.sp(h, filler.text, filler, "exact", "proper")
					for _, y := range evs {
						m := "orig"
						if bad == "prov_err_once" && len(x.auth) > 0 && y == x.auth[len(x.auth)-1] {
							m = "err_then_orig" // the first auth-chain check of X fails, later ones pass
						}
						b.script(h, y.id, y, m)
					}
					gp, bp, fp := b.t(goodT), b.t(badT), b.t(filler.text)
					switch order {
					case "bad_first":
						b.spec.Servers = []string{"s0", "s1"}
						b.spec.BF = []c14BF{{Server: "s0", PDUs: []int{bp, fp}}, {Server: "s1", PDUs: []int{gp}}}
					case "good_first":
						b.spec.Servers = []string{"s0", "s1"}
						b.spec.BF = []c14BF{{Server: "s0", PDUs: []int{fp, gp}}, {Server: "s1", PDUs: []int{bp}}}
					case "bad_good_bad":
						b.spec.Servers = []string{"s0", "s1", "s2"}
						b.spec.BF = []c14BF{{Server: "s0", PDUs: []int{bp}}, {Server: "s1", PDUs: []int{gp, fp}}, {Server: "s2", PDUs: []int{bp, gp}}}
					}
					b.spec.From, b.spec.Limit = []string{evs[len(evs)-1].id}, limit
					c.Count("bf:sameid:" + bad + ":" + order)
					g.run(b, fmt.Sprintf("bf v%s same ID %s: %s %s limit=%d", ver, x.name, bad, order, limit))
				}
			}
		}
	}
}

func (g *c14Gen) genBackfill(h *c14History) {
	c, ver := g.c, string(h.room.ver)
	g.sameIDCases(h)
	// the same events from several servers (honest providers): every event is returned once
	for _, limit := range []int{100, len(h.room.evs), len(h.room.evs) + 1, 3} {
		b := newC14Builder("bf", ver)
		b.spec.Room = h.room.roomID
		b.spec.Servers = []string{"s0", "s1", "s2"}
		var all, some []int
		for i, e := range h.room.evs {
			all = append(all, b.t(e.text))
			if i%2 == 0 {
				some = append(some, b.t(e.text))
			}
			b.sp(h, e.text, e, "exact", "proper")
			b.script(h, e.id, e, "orig")
		}
		b.spec.BF = []c14BF{{Server: "s0", PDUs: some}, {Server: "s1", PDUs: all}, {Server: "s2", PDUs: all}}
		b.spec.From, b.spec.Limit = []string{h.room.evs[len(h.room.evs)-1].id}, limit
		g.run(b, fmt.Sprintf("bf v%s same events from three servers limit=%d", ver, limit))
	}
	for i := 0; i < c.Scale(60, 600); i++ {
		b := newC14Builder("bf", ver)
		b.spec.Room = h.room.roomID
		ns := c.Rng.Intn(4)
		for s := 0; s < ns; s++ {
			name := fmt.Sprint("s", s)
			b.spec.Servers = append(b.spec.Servers, name)
			switch c.Rng.Intn(5) {
			case 0:
				b.spec.BF = append(b.spec.BF, c14BF{Server: name, Err: true})
			case 1: // not scripted: error
			default:
				b.spec.BF = append(b.spec.BF, c14BF{Server: name, PDUs: g.pdus(h, b, c.Rng.Intn(5))})
			}
		}
		if c.Rng.Intn(8) != 0 {
			b.spec.From = []string{h.room.evs[len(h.room.evs)-1].id}
			if c.Rng.Intn(3) == 0 {
				b.spec.From = append(b.spec.From, h.room.evs[0].id)
			}
		}
		b.spec.Limit = []int{-1, 0, 1, 2, 3, 5, 100}[c.Rng.Intn(7)]
		c.Count(fmt.Sprint("bf:limit:", b.spec.Limit))
		c.Count(fmt.Sprint("bf:servers:", ns))
		g.provScripts(h, b)
		g.run(b, fmt.Sprintf("bf v%s random limit=%d servers=%d", ver, b.spec.Limit, ns))
	}
}
