package main

// C15 — join / leave / invite handshakes admit only well-formed, authorised requests.
//
// Every implementation function takes ONE scenario (JSON, args[0]), builds the real inputs
// (events signed with deterministic ed25519 keys, mock queriers shaped like the repository's
// tests), runs the real handler and returns
//   final args = [scenario, cfg, (event text)]   cfg = the INPUT RECORD of the Coq model: request
//                parameters, the accessor values of the very event, and the verdicts of the real
//                library (signature check, Allowed, CheckSendJoinResponse, NewUserID ...)
//   observable = outcome class \n call log \n (accepted: returned object)
// The model ops read args[1] (and args[2]); replays re-run from args[0].

import (
	"bytes"
	"context"
	"crypto/ed25519"
	"crypto/sha256"
	"encoding/base64"
	"encoding/json"
	"errors"
	"fmt"
	"sort"
	"strings"
	"time"

	gmsl "github.com/matrix-org/gomatrixserverlib"
	"github.com/matrix-org/gomatrixserverlib/spec"
)

const c15KeyID = gmsl.KeyID("ed25519:k1")

var c15Time = time.Unix(1700000000, 0)

func c15Key(name string) (ed25519.PublicKey, ed25519.PrivateKey) {
	seed := sha256.Sum256([]byte("c15-key-" + name))
	sk := ed25519.NewKeyFromSeed(seed[:])
	return sk.Public().(ed25519.PublicKey), sk
}

// ---------- error projection ----------

func c15Class(err error) string {
	if err == nil {
		return "ok"
	}
	var me spec.MatrixError
	if errors.As(err, &me) {
		switch me.ErrCode {
		case spec.ErrorForbidden:
			return "forbidden"
		case spec.ErrorBadJSON:
			return "bad_json"
		case spec.ErrorNotFound:
			return "not_found"
		case spec.ErrorUnableToAuthoriseJoin:
			return "unable_to_authorise"
		case spec.ErrorUnsupportedRoomVersion:
			return "unsupported_version"
		case spec.ErrorIncompatibleRoomVersion:
			return "incompatible_version"
		default:
			return "matrix:" + string(me.ErrCode)
		}
	}
	var ive spec.IncompatibleRoomVersionError
	if errors.As(err, &ive) {
		return "incompatible_version"
	}
	var ise spec.InternalServerError
	if errors.As(err, &ise) {
		return "internal"
	}
	if errors.Is(err, errC15Passthrough) {
		return "passthrough"
	}
	return "other:" + err.Error()
}

var errC15Passthrough = errors.New("c15: error of a caller-supplied function")
var errC15Querier = errors.New("c15: querier failure")

// ---------- log ----------

type c15Log struct{ entries []string }

func (l *c15Log) add(parts ...string) { l.entries = append(l.entries, strings.Join(parts, "|")) }
func (l *c15Log) String() string      { return strings.Join(l.entries, ";") }

// ---------- JSON helpers ----------

type c15Obj = map[string]interface{}

func c15JSON(v interface{}) []byte {
	b, err := json.Marshal(v)
	if err != nil {
		panic(err)
	}
	return b
}

func c15Decode(b []byte) (c15Obj, error) {
	d := json.NewDecoder(bytes.NewReader(b))
	d.UseNumber()
	var m c15Obj
	if err := d.Decode(&m); err != nil {
		return nil, err
	}
	return m, nil
}

func c15Val(s string) interface{} { return c15Obj{"v": s} }

func c15StrPtr(p *string) interface{} {
	if p == nil {
		return nil
	}
	return *p
}

// ---------- events ----------

func c15Build(ver gmsl.RoomVersion, proto gmsl.ProtoEvent, signer string, keyName string) gmsl.PDU {
	_, sk := c15Key(keyName)
	if proto.PrevEvents == nil {
		proto.PrevEvents = []interface{}{}
	}
	if proto.AuthEvents == nil {
		proto.AuthEvents = []interface{}{}
	}
	ev, err := gmsl.MustGetRoomVersion(ver).NewEventBuilderFromProtoEvent(&proto).Build(c15Time, spec.ServerName(signer), c15KeyID, sk)
	if err != nil {
		panic(fmt.Sprintf("c15Build: %v", err))
	}
	return ev
}

// the accessor values of a parsed event, as the "fields" member of the model's input record
func c15Fields(ev gmsl.PDU) c15Obj {
	f := c15Obj{
		"type":      ev.Type(),
		"state_key": c15StrPtr(ev.StateKey()),
		"sender":    string(ev.SenderID()),
		"room_id":   ev.RoomID().String(),
		"event_id":  ev.EventID(),
	}
	if m, err := ev.Membership(); err != nil {
		f["membership"] = "err"
	} else {
		f["membership"] = c15Val(m)
	}
	var mc gmsl.MemberContent
	if err := json.Unmarshal(ev.Content(), &mc); err != nil {
		f["content_ok"] = false
		f["via"] = ""
	} else {
		f["content_ok"] = true
		f["via"] = mc.AuthorisedVia
	}
	return f
}

func c15EmptyFields() c15Obj {
	return c15Obj{"type": "", "state_key": nil, "sender": "", "room_id": "", "event_id": "", "membership": "err", "content_ok": false, "via": ""}
}

// ---------- scripted verifier: real signature check against the scripted key set ----------

type c15Verifier struct {
	log      *c15Log
	keys     map[string]ed25519.PublicKey
	fail     bool
	validity string // validity period of every key relative to the event's origin_server_ts (see c15Validity)
	wantMsg  []byte // the redacted event the handler is expected to submit
	wantTS   spec.Timestamp
}

// valid_until_ts / expired_ts of the signing keys for a validity scenario; every event of the
// C15 scenarios has origin_server_ts = c15Time
func c15Validity(mode string) (validUntil, expired spec.Timestamp) {
	ots := spec.AsTimestamp(c15Time)
	validUntil, expired = spec.AsTimestamp(c15Time.AddDate(10, 0, 0)), gmsl.PublicKeyNotExpired
	switch mode {
	case "until_before":
		validUntil = ots - 1
	case "until_equal":
		validUntil = ots
	case "until_after":
		validUntil = ots + 1
	case "not_valid":
		validUntil = gmsl.PublicKeyNotValid
	case "expired_before":
		expired = ots - 1
	case "expired_equal":
		expired = ots
	case "expired_after":
		expired = ots + 1
	}
	return
}

// The rule these handlers document: the signing key must have been valid at the event's
// origin_server_ts under the STRICT reading, whatever the room version (stated here without the
// library's StrictValiditySignatureCheck / WasValidAt).
func c15StrictlyValidAt(mode string, ots spec.Timestamp) bool {
	validUntil, expired := c15Validity(mode)
	if expired != 0 {
		return ots < expired
	}
	return validUntil != 0 && ots <= validUntil
}

// in-memory key database: the key of each scripted server under c15KeyID, with the scripted validity
type c15ValidityDB struct {
	keys     map[string]ed25519.PublicKey
	validity string
}

func (d *c15ValidityDB) FetcherName() string { return "c15ValidityDB" }
func (d *c15ValidityDB) FetchKeys(ctx context.Context, reqs map[gmsl.PublicKeyLookupRequest]spec.Timestamp) (map[gmsl.PublicKeyLookupRequest]gmsl.PublicKeyLookupResult, error) {
	res := map[gmsl.PublicKeyLookupRequest]gmsl.PublicKeyLookupResult{}
	vu, ex := c15Validity(d.validity)
	for r := range reqs {
		if r.KeyID != c15KeyID {
			continue
		}
		if pk, ok := d.keys[string(r.ServerName)]; ok {
			res[r] = gmsl.PublicKeyLookupResult{VerifyKey: gmsl.VerifyKey{Key: spec.Base64Bytes(pk)}, ValidUntilTS: vu, ExpiredTS: ex}
		}
	}
	return res, nil
}
func (d *c15ValidityDB) StoreKeys(ctx context.Context, results map[gmsl.PublicKeyLookupRequest]gmsl.PublicKeyLookupResult) error {
	return nil
}

// signature check alone (no validity period)
func (v *c15Verifier) verdict(server string, msg []byte) error {
	pub, ok := v.keys[server]
	if !ok {
		return fmt.Errorf("no key for %q", server)
	}
	return gmsl.VerifyJSON(server, c15KeyID, pub, msg)
}

// The verifier handed to the handlers: logs the request, then lets a real KeyRing over the
// in-memory database decide, so that the request's ValidityCheckingFunc is honoured.
func (v *c15Verifier) VerifyJSONs(ctx context.Context, reqs []gmsl.VerifyJSONRequest) ([]gmsl.VerifyJSONResult, error) {
	res := make([]gmsl.VerifyJSONResult, len(reqs))
	ring := &gmsl.KeyRing{KeyFetchers: []gmsl.KeyFetcher{}, KeyDatabase: &c15ValidityDB{keys: v.keys, validity: v.validity}}
	for i, r := range reqs {
		isMapping := bytes.Contains(r.Message, []byte(`"user_room_key"`)) && !bytes.Contains(r.Message, []byte(`"room_id"`))
		if !isMapping && v.log != nil {
			e := []string{"V", string(r.ServerName)}
			if v.wantMsg != nil && !bytes.Equal(r.Message, v.wantMsg) {
				e = append(e, "WRONG-MESSAGE")
			}
			if v.wantMsg != nil && r.AtTS != v.wantTS {
				e = append(e, "WRONG-TS")
			}
			v.log.add(e...)
		}
		if v.fail && !isMapping {
			return nil, errC15Querier
		}
		rr, err := ring.VerifyJSONs(ctx, []gmsl.VerifyJSONRequest{r})
		if err != nil {
			return nil, err
		}
		res[i] = rr[0]
	}
	return res, nil
}

func c15Keys() map[string]ed25519.PublicKey {
	m := map[string]ed25519.PublicKey{}
	for _, n := range []string{"local", "remote", "other", "elsewhere"} {
		pk, _ := c15Key(n)
		m[n] = pk
	}
	return m
}

type c15Membership struct {
	log    *c15Log
	answer string // "err" or the membership
}

func (m *c15Membership) CurrentMembership(ctx context.Context, roomID spec.RoomID, senderID spec.SenderID) (string, error) {
	m.log.add("M", roomID.String(), string(senderID))
	if m.answer == "err" {
		return "", errC15Querier
	}
	return m.answer, nil
}

func c15MemberCfg(answer string) interface{} {
	if answer == "err" {
		return "err"
	}
	return c15Val(answer)
}

// ---------- the returned event with the local signature checked and replaced by the marker ----------

// real ed25519 check of signatures[name][keyID] over the redacted event without signatures / unsigned
func c15CheckedEvent(ver gmsl.RoomVersion, evJSON []byte, name string, pub ed25519.PublicKey) string {
	// only the top level is decoded: whatever is inside content (repeated members included) stays as it is
	var top map[string]json.RawMessage
	if err := json.Unmarshal(evJSON, &top); err != nil {
		return "UNPARSABLE-OUTPUT " + string(evJSON)
	}
	sigs := map[string]map[string]string{}
	if raw, ok := top["signatures"]; ok {
		if err := json.Unmarshal(raw, &sigs); err != nil || sigs == nil {
			sigs = map[string]map[string]string{}
		}
	}
	status := "<MISSING-SIGNATURE>"
	if s, ok := sigs[name][string(c15KeyID)]; ok {
		status = "<INVALID-SIGNATURE>"
		sig, err := base64.RawStdEncoding.DecodeString(s)
		red, rerr := gmsl.MustGetRoomVersion(ver).RedactEventJSON(evJSON)
		if err == nil && rerr == nil {
			var rt map[string]json.RawMessage
			if json.Unmarshal(red, &rt) == nil {
				delete(rt, "signatures")
				delete(rt, "unsigned")
				payload, cerr := gmsl.CanonicalJSON(c15JSON(rt))
				if cerr == nil && ed25519.Verify(pub, payload, sig) {
					status = "<VALID-SIGNATURE>"
				}
			}
		}
	}
	if sigs[name] == nil {
		sigs[name] = map[string]string{}
	}
	sigs[name][string(c15KeyID)] = status
	top["signatures"] = c15JSON(sigs)
	out, err := gmsl.CanonicalJSON(c15JSON(top))
	if err != nil {
		return "UNCANONICAL-OUTPUT " + string(evJSON)
	}
	return string(out)
}

// ---------- the received member event of send_join / invite scenarios ----------

type c15EvScen struct {
	Type         string `json:"type"`          // event type
	Membership   string `json:"membership"`    // content.membership; "-" = absent; "#" = a number
	StateKey     string `json:"state_key"`     // "sender" | "target" | "other" | "empty" | "none"
	Room         string `json:"room"`          // "req" | "other"
	SenderDomain string `json:"sender_domain"` // server part of the sender
	Via          string `json:"via"`           // join_authorised_via_users_server ("" = absent)
	Extra        string `json:"extra"`         // extra content members, e.g. "displayname":5
	Sig          string `json:"sig"`           // good | tampered | none | wrongkey | othersigner | verr
	LocalSig     bool   `json:"local_sig"`     // already carries a signature of the local server
	Unsigned     string `json:"unsigned"`      // unsigned object text ("" = none)
	Mapping      string `json:"mapping"`       // pseudo-ID rooms: good | missing | badsig | nosigs | othersigner
	MappingKey   string `json:"mapping_key"`   // pseudo-ID rooms: "" = the mapping names the sender's key | other = another key
	Signers      string `json:"signers"`       // pseudo-ID rooms: "" = signed by the sender key | mapping | both | neither
	KeyValidity  string `json:"key_validity"`  // validity period of the signing keys around origin_server_ts (c15Validity)
	// repeated members: ContentFirst is put BEFORE the generated members of content (Extra comes after
	// them); TopFirst (member name -> JSON value) is inserted in front of the top-level member of
	// that name after the event has been built and signed, so that the last occurrence is the
	// signed one
	ContentFirst string            `json:"content_first"`
	TopFirst     map[string]string `json:"top_first"`
}

const (
	c15ReqRoom   = "!room:remote"
	c15OtherRoom = "!elsewhere:remote"
	c15Target    = "@invitee:local"
)

// builds the raw event JSON for the scenario
func c15MakeEvent(ver gmsl.RoomVersion, s c15EvScen) []byte {
	sender := "@user:" + s.SenderDomain
	pseudo := ver == gmsl.RoomVersionPseudoIDs
	_, userRoomKey := c15Key("pseudo-user-" + s.SenderDomain)
	if pseudo {
		sender = string(spec.SenderIDFromPseudoIDKey(userRoomKey))
	}
	var sk *string
	switch s.StateKey {
	case "sender":
		sk = &sender
	case "target":
		t := c15Target
		sk = &t
	case "other":
		t := "@someoneelse:" + s.SenderDomain
		sk = &t
	case "empty":
		t := ""
		sk = &t
	}
	room := c15ReqRoom
	if s.Room == "other" {
		room = c15OtherRoom
	}
	var parts []string
	if s.ContentFirst != "" {
		parts = append(parts, s.ContentFirst)
	}
	switch s.Membership {
	case "-":
	case "#":
		parts = append(parts, `"membership":5`)
	default:
		parts = append(parts, `"membership":`+string(c15JSON(s.Membership)))
	}
	if s.Via != "" {
		parts = append(parts, `"join_authorised_via_users_server":`+string(c15JSON(s.Via)))
	}
	if s.Extra != "" {
		parts = append(parts, s.Extra)
	}
	if pseudo && s.Mapping != "missing" {
		mapping := gmsl.MXIDMapping{UserRoomKey: spec.SenderID(sender), UserID: "@user:" + s.SenderDomain}
		if s.MappingKey == "other" {
			_, k2 := c15Key("pseudo-other-" + s.SenderDomain)
			mapping.UserRoomKey, mapping.UserID = spec.SenderIDFromPseudoIDKey(k2), "@mallory:"+s.SenderDomain
		}
		_, msk := c15Key(s.SenderDomain)
		switch s.Mapping {
		case "nosigs":
		case "badsig":
			_, wrong := c15Key("elsewhere")
			_ = mapping.Sign(spec.ServerName(s.SenderDomain), c15KeyID, wrong)
		case "othersigner":
			_, osk := c15Key("other")
			_ = mapping.Sign("other", c15KeyID, osk)
		default:
			_ = mapping.Sign(spec.ServerName(s.SenderDomain), c15KeyID, msk)
		}
		parts = append(parts, `"mxid_mapping":`+string(c15JSON(mapping)))
	}
	content := "{" + strings.Join(parts, ",") + "}"
	signer, keyName := s.SenderDomain, s.SenderDomain
	switch s.Sig {
	case "wrongkey":
		keyName = "elsewhere"
	case "othersigner":
		signer, keyName = "elsewhere", "elsewhere"
	}
	proto := gmsl.ProtoEvent{SenderID: sender, RoomID: room, Type: s.Type, StateKey: sk, Depth: 7,
		Content: spec.RawJSON(content)}
	if s.Unsigned != "" {
		proto.Unsigned = spec.RawJSON(s.Unsigned)
	}
	if gmsl.MustGetRoomVersion(ver).DomainlessRoomIDs() && s.Type == spec.MRoomCreate {
		// such create events carry no room_id (the room ID is derived from the event ID) and the
		// builder insists on the empty state key
		proto.RoomID = ""
		e := ""
		proto.StateKey = &e
	}
	var ev gmsl.PDU
	if pseudo {
		// pseudo-ID events are signed with the user's room key under the sender ID, key ed25519:1
		key := userRoomKey
		switch s.Sig {
		case "wrongkey", "othersigner":
			_, key = c15Key("elsewhere")
		}
		// who signs the event: the sender's key K1, the key K2 the mapping may name, both, or neither
		_, k2 := c15Key("pseudo-other-" + s.SenderDomain)
		k2ID := string(spec.SenderIDFromPseudoIDKey(k2))
		signName := sender
		switch s.Signers {
		case "mapping":
			signName, key = k2ID, k2
		case "neither":
			_, key = c15Key("pseudo-unrelated")
			signName = string(spec.SenderIDFromPseudoIDKey(key))
		}
		proto.PrevEvents, proto.AuthEvents = []interface{}{}, []interface{}{}
		var berr error
		ev, berr = gmsl.MustGetRoomVersion(ver).NewEventBuilderFromProtoEvent(&proto).Build(c15Time, spec.ServerName(signName), "ed25519:1", key)
		if berr != nil {
			panic(fmt.Sprintf("c15MakeEvent: %v", berr))
		}
		if s.Signers == "both" {
			ev = ev.Sign(k2ID, "ed25519:1", k2)
		}
	} else {
		ev = c15Build(ver, proto, signer, keyName)
	}
	if s.LocalSig {
		_, lsk := c15Key("local")
		ev = ev.Sign("local", c15KeyID, lsk)
	}
	raw := append([]byte{}, ev.JSON()...)
	switch s.Sig {
	case "none":
		o, _ := c15Decode(raw)
		o["signatures"] = c15Obj{}
		raw, _ = gmsl.CanonicalJSON(c15JSON(o))
	case "tampered":
		o, _ := c15Decode(raw)
		o["depth"] = json.Number("8")
		raw, _ = gmsl.CanonicalJSON(c15JSON(o))
	}
	if len(s.TopFirst) > 0 {
		keys := []string{}
		for k := range s.TopFirst {
			keys = append(keys, k)
		}
		sort.Strings(keys)
		for _, k := range keys {
			raw = c15InsertBeforeTopLevel(raw, k, s.TopFirst[k])
		}
	}
	return raw
}

// inserts "key":value, in front of the top-level member "key" of the JSON object text (the text
// stays sorted by key, so that the canonical-JSON check of the enforcing room versions is met)
func c15InsertBeforeTopLevel(text []byte, key string, value string) []byte {
	depth, inStr, esc := 0, false, false
	want := []byte(`"` + key + `":`)
	for i := 0; i < len(text); i++ {
		c := text[i]
		if inStr {
			switch {
			case esc:
				esc = false
			case c == '\\':
				esc = true
			case c == '"':
				inStr = false
			}
			continue
		}
		switch c {
		case '"':
			if depth == 1 && bytes.HasPrefix(text[i:], want) && (text[i-1] == '{' || text[i-1] == ',') {
				ins := append([]byte(`"`+key+`":`+value+`,`), text[i:]...)
				return append(append([]byte{}, text[:i]...), ins...)
			}
			inStr = true
		case '{', '[':
			depth++
		case '}', ']':
			depth--
		}
	}
	return text
}

// independent verdict of the signature check the handler is to make
func c15VerifyCfg(sig string, v *c15Verifier, server string, ver gmsl.RoomVersion, ev gmsl.PDU) string {
	if sig == "verr" && ver != gmsl.RoomVersionPseudoIDs {
		return "err"
	}
	red, err := gmsl.MustGetRoomVersion(ver).RedactEventJSON(ev.JSON())
	if err != nil {
		return "bad"
	}
	if ver == gmsl.RoomVersionPseudoIDs {
		// the handler swaps the verifier for JSONVerifierSelf, keyed by the sender ID
		res, verr := gmsl.JSONVerifierSelf{}.VerifyJSONs(context.Background(), []gmsl.VerifyJSONRequest{{ServerName: spec.ServerName(ev.SenderID()), Message: red, AtTS: ev.OriginServerTS()}})
		if verr != nil || res[0].Error != nil {
			return "bad"
		}
		return "ok"
	}
	if v.verdict(server, red) != nil {
		return "bad"
	}
	if !c15StrictlyValidAt(v.validity, ev.OriginServerTS()) {
		return "bad" // validly signed means: with a key valid at origin_server_ts under the strict rule
	}
	return "ok"
}

type c15SenderQ struct {
	log   *c15Log
	mode  string            // ok | err | nil
	user  string            // pseudo IDs: the mapped user (for the record); else parse the sender ID
	store map[string]string // pseudo IDs: sender ID -> user ID as stored by earlier send_joins (nil = not used)
}

func (q *c15SenderQ) fn(roomID spec.RoomID, senderID spec.SenderID) (*spec.UserID, error) {
	if q.log != nil {
		q.log.add("U", roomID.String(), string(senderID))
	}
	switch q.mode {
	case "err":
		return nil, errC15Querier
	case "nil":
		return nil, nil
	}
	if q.store != nil {
		// what a homeserver does: answer from the mappings stored by earlier joins
		u, ok := q.store[string(senderID)]
		if !ok {
			return nil, errC15Querier
		}
		return spec.NewUserID(u, true)
	}
	if q.user != "" {
		return spec.NewUserID(q.user, true)
	}
	return spec.NewUserID(string(senderID), true)
}

func (q *c15SenderQ) cfg(senderID string) interface{} {
	switch q.mode {
	case "err":
		return "err"
	case "nil":
		return "nil"
	}
	id := senderID
	if q.user != "" {
		id = q.user
	}
	u, err := spec.NewUserID(id, true)
	if err != nil {
		return "err"
	}
	return c15Obj{"domain": string(u.Domain())}
}

// ====================================================================================
// HandleSendJoin
// ====================================================================================

type c15SJScen struct {
	Ver        string    `json:"ver"`
	Ev         c15EvScen `json:"ev"`
	Raw        string    `json:"raw"`          // non-empty: this text is the request body
	ReqEventID string    `json:"req_event_id"` // "match" | anything else = that ID
	Origin     string    `json:"origin"`
	SenderQ    string    `json:"sender_q"`
	MemberQ    string    `json:"member_q"`
	Store      string    `json:"store"` // pseudo-ID rooms: "" (ok) | err
	// "no": the joiner satisfies no allow condition of the (restricted) room and holds no invite -
	// something HandleSendJoin is not told (finding F92); only the specification oracle reads it
	Entitled string `json:"entitled"`
}

// what getMXIDMapping / validateMXIDMappingSignatures will find, asked of the same library pieces
func c15MappingCfg(ev gmsl.PDU, v *c15Verifier) (ok, keyOK, sigOK bool, user string) {
	var mc gmsl.MemberContent
	if err := json.Unmarshal(ev.Content(), &mc); err != nil || mc.MXIDMapping == nil {
		return false, false, false, ""
	}
	m := *mc.MXIDMapping
	// MSC4014: the mapping is the one of the room key that sent the event, and the homeserver
	// of the user it names has signed it (with a key valid under the room version's rule, the
	// strict one for the pseudo-ID room version); other signatures neither help nor harm
	keyOK = m.UserRoomKey == ev.SenderID()
	u, err := spec.NewUserID(m.UserID, true)
	if err != nil {
		return true, keyOK, false, m.UserID
	}
	msg, err := json.Marshal(m)
	if err != nil {
		return true, keyOK, false, m.UserID
	}
	sigOK = v.verdict(string(u.Domain()), msg) == nil && c15StrictlyValidAt(v.validity, ev.OriginServerTS())
	return true, keyOK, sigOK, m.UserID
}

func c15SendJoin(args [][]byte) ([][]byte, []byte) {
	var s c15SJScen
	if err := json.Unmarshal(args[0], &s); err != nil {
		panic(err)
	}
	ver := gmsl.RoomVersion(s.Ver)
	verImpl, verr := gmsl.GetRoomVersion(ver)
	buildVer := ver
	if verr != nil {
		buildVer = gmsl.RoomVersionV10
	}
	var raw []byte
	if s.Raw != "" {
		raw = []byte(s.Raw)
	} else {
		raw = c15MakeEvent(buildVer, s.Ev)
	}
	rawCopy := append([]byte{}, raw...)

	log := &c15Log{}
	verifier := &c15Verifier{log: log, keys: c15Keys(), fail: s.Ev.Sig == "verr", validity: s.Ev.KeyValidity}
	sq := &c15SenderQ{log: log, mode: s.SenderQ}
	room, _ := spec.NewRoomID(c15ReqRoom)
	_, lsk := c15Key("local")
	lpk, _ := c15Key("local")
	if ver == gmsl.RoomVersionPseudoIDs {
		sq.user = "@user:" + s.Ev.SenderDomain
		// Step one of the sequence: a proper join of the sender key K1 from the same server has been
		// handled before, which is how the querier comes to know K1 (real call, not logged).
		sq.store = map[string]string{}
		first := c15GoodEv("join", "sender")
		first.SenderDomain = s.Ev.SenderDomain
		firstRaw := c15MakeEvent(ver, first)
		if fev, ferr := gmsl.MustGetRoomVersion(ver).NewEventFromUntrustedJSON(firstRaw); ferr == nil {
			q1 := &c15SenderQ{mode: "ok", store: sq.store}
			_, _ = gmsl.HandleSendJoin(gmsl.HandleSendJoinInput{
				Context: context.Background(), RoomID: *room, EventID: fev.EventID(), JoinEvent: firstRaw, RoomVersion: ver,
				RequestOrigin: spec.ServerName(s.Ev.SenderDomain), LocalServerName: "local", KeyID: c15KeyID, PrivateKey: lsk,
				Verifier: &c15Verifier{keys: c15Keys()}, MembershipQuerier: &c15Membership{log: &c15Log{}, answer: "leave"}, UserIDQuerier: q1.fn,
				StoreSenderIDFromPublicID: func(ctx context.Context, senderID spec.SenderID, userID string, id spec.RoomID) error {
					sq.store[string(senderID)] = userID
					return nil
				},
			})
		}
	}

	cfg := c15Obj{"version": s.Ver, "req_room": c15ReqRoom, "origin": s.Origin, "local": "local",
		"key_id": string(c15KeyID), "mapping_ok": true, "mapping_key_ok": true, "mapping_sig_ok": true, "store_ok": s.Store != "err",
		"joiner_entitled": s.Entitled != "no",
		"redact_ok": true, "member_q": c15MemberCfg(s.MemberQ), "via_domain": "err"}
	reqEventID := s.ReqEventID
	// independent parse for the record
	var parsed gmsl.PDU
	if verr == nil {
		if p, err := verImpl.NewEventFromUntrustedJSON(rawCopy); err == nil {
			parsed = p
		}
	} else if p, err := gmsl.MustGetRoomVersion(buildVer).NewEventFromUntrustedJSON(rawCopy); err == nil {
		parsed = p
	}
	evText := []byte("null")
	if parsed != nil {
		cfg["parse_ok"] = true
		f := c15Fields(parsed)
		cfg["fields"] = f
		if reqEventID == "match" {
			reqEventID = parsed.EventID()
		}
		cfg["sender_q"] = sq.cfg(string(parsed.SenderID()))
		if ver == gmsl.RoomVersionPseudoIDs {
			var mappedUser string
			cfg["mapping_ok"], cfg["mapping_key_ok"], cfg["mapping_sig_ok"], mappedUser = c15MappingCfg(parsed, verifier)
			// in pseudo-ID rooms the sender's user is the one the validated mapping names
			cfg["sender_q"] = "err"
			if u, uerr := spec.NewUserID(mappedUser, true); uerr == nil {
				cfg["sender_q"] = c15Obj{"domain": string(u.Domain())}
			}
		}
		dom := ""
		if d, ok := cfg["sender_q"].(c15Obj); ok {
			dom = d["domain"].(string)
		}
		cfg["verify"] = c15VerifyCfg(s.Ev.Sig, verifier, dom, buildVer, parsed)
		if via, _ := f["via"].(string); via != "" {
			if u, err := spec.NewUserID(via, true); err == nil {
				cfg["via_domain"] = c15Val(string(u.Domain()))
			}
		}
		evText = append([]byte{}, parsed.JSON()...)
		if red, err := gmsl.MustGetRoomVersion(buildVer).RedactEventJSON(parsed.JSON()); err == nil {
			verifier.wantMsg, verifier.wantTS = red, parsed.OriginServerTS()
		}
	} else {
		cfg["parse_ok"] = false
		cfg["fields"] = c15EmptyFields()
		cfg["sender_q"] = "err"
		cfg["verify"] = "bad"
	}
	cfg["req_event_id"] = reqEventID

	res, err := gmsl.HandleSendJoin(gmsl.HandleSendJoinInput{
		Context: context.Background(), RoomID: *room, EventID: reqEventID, JoinEvent: raw,
		RoomVersion: ver, RequestOrigin: spec.ServerName(s.Origin), LocalServerName: "local",
		KeyID: c15KeyID, PrivateKey: lsk, Verifier: verifier,
		MembershipQuerier: &c15Membership{log: log, answer: s.MemberQ},
		UserIDQuerier:     sq.fn,
		StoreSenderIDFromPublicID: func(ctx context.Context, senderID spec.SenderID, userID string, id spec.RoomID) error {
			log.add("T", id.String())
			if s.Store == "err" {
				return errC15Passthrough
			}
			if sq.store != nil {
				if _, known := sq.store[string(senderID)]; !known {
					sq.store[string(senderID)] = userID
				}
			}
			return nil
		},
	})
	out := c15Class(err) + "\n" + log.String()
	if err == nil {
		aj := "0"
		if res.AlreadyJoined {
			aj = "1"
		}
		out += "\nalready_joined=" + aj + "\n" + c15CheckedEvent(buildVer, res.JoinEvent.JSON(), "local", lpk)
	}
	return [][]byte{args[0], c15JSON(cfg), evText}, []byte(out)
}

// ====================================================================================
// HandleInvite
// ====================================================================================

type c15IVScen struct {
	Ver       string    `json:"ver"`     // input.RoomVersion
	EvVer     string    `json:"ev_ver"`  // version the PDU is built with ("" = ver)
	Ev        c15EvScen `json:"ev"`
	SenderQ   string    `json:"sender_q"`
	Known     string    `json:"known"`     // yes | no | err
	Given     int       `json:"given"`     // number of stripped-state entries supplied by the caller
	Generated string    `json:"generated"` // err | nil | empty | some
	MemberQ   string    `json:"member_q"`
}

type c15RoomQ struct {
	log   *c15Log
	known string
}

func (q *c15RoomQ) IsKnownRoom(ctx context.Context, roomID spec.RoomID) (bool, error) {
	q.log.add("K", roomID.String())
	if q.known == "err" {
		return false, errC15Querier
	}
	return q.known == "yes", nil
}

type c15StateQ struct {
	log  *c15Log
	mode string
	evs  []gmsl.PDU
}

func (q *c15StateQ) GetAuthEvents(ctx context.Context, event gmsl.PDU) (gmsl.AuthEventProvider, error) {
	q.log.add("A")
	return nil, errC15Querier
}

func (q *c15StateQ) GetState(ctx context.Context, roomID spec.RoomID, wanted []gmsl.StateKeyTuple) ([]gmsl.PDU, error) {
	e := []string{"G", roomID.String()}
	for _, t := range wanted {
		e = append(e, t.EventType+t.StateKey)
	}
	q.log.add(e...)
	switch q.mode {
	case "err":
		return nil, errC15Querier
	case "nil":
		return nil, nil
	case "empty":
		return []gmsl.PDU{}, nil
	}
	return q.evs, nil
}

func c15RoomStateEvents(ver gmsl.RoomVersion) []gmsl.PDU {
	empty := ""
	name := c15Build(ver, gmsl.ProtoEvent{SenderID: "@creator:remote", RoomID: c15ReqRoom, Type: "m.room.name", StateKey: &empty, Depth: 3,
		Content: spec.RawJSON(`{"name":"A room"}`)}, "remote", "remote")
	jr := c15Build(ver, gmsl.ProtoEvent{SenderID: "@creator:remote", RoomID: c15ReqRoom, Type: "m.room.join_rules", StateKey: &empty, Depth: 4,
		Content: spec.RawJSON(`{"join_rule":"invite"}`)}, "remote", "remote")
	return []gmsl.PDU{name, jr}
}

func c15Invite(args [][]byte) ([][]byte, []byte) {
	var s c15IVScen
	if err := json.Unmarshal(args[0], &s); err != nil {
		panic(err)
	}
	ver := gmsl.RoomVersion(s.Ver)
	buildVer := gmsl.RoomVersion(s.EvVer)
	if s.EvVer == "" {
		buildVer = ver
	}
	raw := c15MakeEvent(buildVer, s.Ev)
	ev, err := gmsl.MustGetRoomVersion(buildVer).NewEventFromUntrustedJSON(raw)
	if err != nil {
		panic(fmt.Sprintf("c15Invite: scenario event does not parse: %v", err))
	}
	evText := append([]byte{}, ev.JSON()...)
	fields := c15Fields(ev)

	log := &c15Log{}
	verifier := &c15Verifier{log: log, keys: c15Keys(), fail: s.Ev.Sig == "verr", validity: s.Ev.KeyValidity}
	if red, err := gmsl.MustGetRoomVersion(buildVer).RedactEventJSON(ev.JSON()); err == nil {
		verifier.wantMsg, verifier.wantTS = red, ev.OriginServerTS()
	}
	sq := &c15SenderQ{log: log, mode: s.SenderQ}
	room, _ := spec.NewRoomID(c15ReqRoom)
	invited, _ := spec.NewUserID(c15Target, true)
	_, lsk := c15Key("local")
	lpk, _ := c15Key("local")

	stateEvs := c15RoomStateEvents(buildVer)
	// what a stripped state entry must look like, stated independently of NewInviteStrippedState / MarshalJSON
	stripped := func(e gmsl.PDU) interface{} {
		return c15Obj{"content": json.RawMessage(e.Content()), "state_key": c15StrPtr(e.StateKey()), "type": e.Type(), "sender": string(e.SenderID())}
	}
	var given []gmsl.InviteStrippedState
	var givenJSON []interface{}
	for i := 0; i < s.Given && i < len(stateEvs); i++ {
		given = append(given, gmsl.NewInviteStrippedState(stateEvs[i]))
		givenJSON = append(givenJSON, stripped(stateEvs[i]))
	}
	var generated interface{}
	switch s.Generated {
	case "err":
		generated = "err"
	case "nil":
		generated = nil
	case "empty":
		generated = []interface{}{}
	default:
		l := []interface{}{}
		for _, e := range stateEvs {
			l = append(l, stripped(e))
		}
		generated = l
	}
	if givenJSON == nil {
		givenJSON = []interface{}{}
	}
	known := interface{}("err")
	if s.Known != "err" {
		known = s.Known == "yes"
	}
	cfg := c15Obj{"version": s.Ver, "fields": fields, "req_room": c15ReqRoom, "invited_domain": "local",
		"invited_sender": c15Target, "key_id": string(c15KeyID), "redact_ok": true,
		"sender_q": sq.cfg(string(ev.SenderID())), "known": known, "given_state": givenJSON,
		"generated_state": generated, "member_q": c15MemberCfg(s.MemberQ), "set_unsigned_ok": true}
	dom := ""
	if d, ok := cfg["sender_q"].(c15Obj); ok {
		dom = d["domain"].(string)
	}
	cfg["verify"] = c15VerifyCfg(s.Ev.Sig, verifier, dom, buildVer, ev)

	res, herr := gmsl.HandleInvite(context.Background(), gmsl.HandleInviteInput{
		RoomID: *room, RoomVersion: ver, InvitedUser: *invited, InvitedSenderID: spec.SenderID(c15Target),
		InviteEvent: ev, StrippedState: given, KeyID: c15KeyID, PrivateKey: lsk, Verifier: verifier,
		RoomQuerier: &c15RoomQ{log: log, known: s.Known}, MembershipQuerier: &c15Membership{log: log, answer: s.MemberQ},
		StateQuerier: &c15StateQ{log: log, mode: s.Generated, evs: stateEvs}, UserIDQuerier: sq.fn,
	})
	out := c15Class(herr) + "\n" + log.String()
	if herr == nil {
		out += "\nalready_joined=0\n" + c15CheckedEvent(buildVer, res.JSON(), "local", lpk)
	} else if !s.Ev.LocalSig {
		// a refused invite must leave the event that was handed in as it was
		if ids, lerr := gmsl.ListKeyIDs("local", ev.JSON()); lerr == nil && len(ids) > 0 {
			out += "\nINPUT-EVENT-COUNTER-SIGNED-ALTHOUGH-REFUSED"
		}
	}
	return [][]byte{args[0], c15JSON(cfg), evText}, []byte(out)
}

func c15SortedKeys(m map[string]bool) []string {
	var l []string
	for k := range m {
		l = append(l, k)
	}
	sort.Strings(l)
	return l
}

// the accessor values of the scenario's event against the model's reading of the event text
type c15FieldsScen struct {
	Ver string    `json:"ver"`
	Ev  c15EvScen `json:"ev"`
}

func c15FieldsImpl(args [][]byte) ([][]byte, []byte) {
	var s c15FieldsScen
	if err := json.Unmarshal(args[0], &s); err != nil {
		panic(err)
	}
	ver := gmsl.RoomVersion(s.Ver)
	raw := c15MakeEvent(ver, s.Ev)
	ev, err := gmsl.MustGetRoomVersion(ver).NewEventFromUntrustedJSON(raw)
	if err != nil {
		return [][]byte{args[0], []byte(""), raw}, []byte("unparsable")
	}
	opt := func(p *string) string {
		if p == nil {
			return "nil"
		}
		return "=" + *p
	}
	var m *string
	if v, merr := ev.Membership(); merr == nil {
		m = &v
	}
	var mc gmsl.MemberContent
	_ = json.Unmarshal(ev.Content(), &mc)
	out := strings.Join([]string{ev.Type(), opt(ev.StateKey()), string(ev.SenderID()), ev.RoomID().String(), ev.EventID(), opt(m), mc.AuthorisedVia}, "|")
	return [][]byte{args[0], []byte(ev.EventID()), append([]byte{}, ev.JSON()...)}, []byte(out)
}

func init() {
	RegisterImpl("C15.fields", c15FieldsImpl)
	RegisterImpl("C15.send_join", c15SendJoin)
	RegisterImpl("C15.invite", c15Invite)
	RegisterProp("C15", genC15)
}

func c15GoodEv(membership, stateKey string) c15EvScen {
	return c15EvScen{Type: "m.room.member", Membership: membership, StateKey: stateKey, Room: "req", SenderDomain: "remote", Sig: "good"}
}

func genC15(c *Ctx) {
	genC15SendJoin(c)
	genC15Invite(c)
	genC15RestrictedJoin(c)
	genC15Make(c)
	genC15Perform(c)
	genC15PerformInvite(c)
	genC15InviteV3(c)
}

func (c *Ctx) c15Run(impl string, scen interface{}, desc string) []byte {
	op := impl
	prop := strings.Replace(impl, "C15.", "C15.prop.", 1)
	out := c.Run(impl, [][]byte{c15JSON(scen)}, op, prop, desc)
	first := string(out)
	if i := strings.IndexByte(first, '\n'); i >= 0 {
		first = first[:i]
	}
	if strings.HasPrefix(first, "PANIC") {
		first = "PANIC"
	}
	c.Count(impl + "/outcome=" + first)
	return out
}

func genC15SendJoin(c *Ctx) {
	good := func() c15SJScen {
		return c15SJScen{Ver: "10", Ev: c15GoodEv("join", "sender"), ReqEventID: "match", Origin: "remote", SenderQ: "ok", MemberQ: "leave"}
	}
	vers := []string{"1", "2", "3", "4", "5", "8", "10", "11", "12", "org.matrix.msc4014", "bogus", ""}
	// one-guard-at-a-time deviations from the good request, for every version
	type mut struct {
		name string
		f    func(*c15SJScen)
	}
	muts := []mut{
		{"good", func(s *c15SJScen) {}},
		{"type=topic", func(s *c15SJScen) { s.Ev.Type = "m.room.topic" }},
		{"type=create", func(s *c15SJScen) { s.Ev.Type = "m.room.create" }},
		{"membership=invite", func(s *c15SJScen) { s.Ev.Membership = "invite" }},
		{"membership=leave", func(s *c15SJScen) { s.Ev.Membership = "leave" }},
		{"membership=ban", func(s *c15SJScen) { s.Ev.Membership = "ban" }},
		{"membership=knock", func(s *c15SJScen) { s.Ev.Membership = "knock" }},
		{"membership=Join", func(s *c15SJScen) { s.Ev.Membership = "Join" }},
		{"membership absent", func(s *c15SJScen) { s.Ev.Membership = "-" }},
		{"membership number", func(s *c15SJScen) { s.Ev.Membership = "#" }},
		{"state_key other", func(s *c15SJScen) { s.Ev.StateKey = "other" }},
		{"state_key empty", func(s *c15SJScen) { s.Ev.StateKey = "empty" }},
		{"state_key none", func(s *c15SJScen) { s.Ev.StateKey = "none" }},
		{"room other", func(s *c15SJScen) { s.Ev.Room = "other" }},
		{"event id other", func(s *c15SJScen) { s.ReqEventID = "$someotherevent:remote" }},
		{"event id empty", func(s *c15SJScen) { s.ReqEventID = "" }},
		{"origin other", func(s *c15SJScen) { s.Origin = "other" }},
		{"sender of other server", func(s *c15SJScen) { s.Ev.SenderDomain = "other" }},
		{"sender and origin other", func(s *c15SJScen) { s.Ev.SenderDomain = "other"; s.Origin = "other" }},
		{"sender_q err", func(s *c15SJScen) { s.SenderQ = "err" }},
		{"sender_q nil", func(s *c15SJScen) { s.SenderQ = "nil" }},
		{"sig tampered", func(s *c15SJScen) { s.Ev.Sig = "tampered" }},
		{"sig none", func(s *c15SJScen) { s.Ev.Sig = "none" }},
		{"sig wrongkey", func(s *c15SJScen) { s.Ev.Sig = "wrongkey" }},
		{"sig othersigner", func(s *c15SJScen) { s.Ev.Sig = "othersigner" }},
		{"verifier error", func(s *c15SJScen) { s.Ev.Sig = "verr" }},
		{"member_q err", func(s *c15SJScen) { s.MemberQ = "err" }},
		{"member_q ban", func(s *c15SJScen) { s.MemberQ = "ban" }},
		{"member_q join", func(s *c15SJScen) { s.MemberQ = "join" }},
		{"member_q invite", func(s *c15SJScen) { s.MemberQ = "invite" }},
		{"member_q empty", func(s *c15SJScen) { s.MemberQ = "" }},
		{"via local", func(s *c15SJScen) { s.Ev.Via = "@auth:local" }},
		{"via elsewhere", func(s *c15SJScen) { s.Ev.Via = "@auth:elsewhere" }},
		{"via invalid", func(s *c15SJScen) { s.Ev.Via = "notauserid" }},
		{"via localish", func(s *c15SJScen) { s.Ev.Via = "@auth:local2" }},
		{"content bad type", func(s *c15SJScen) { s.Ev.Extra = `"displayname":5` }},
		{"already signed locally", func(s *c15SJScen) { s.Ev.LocalSig = true }},
		{"with unsigned", func(s *c15SJScen) { s.Ev.Unsigned = `{"age":5}` }},
		{"mapping missing", func(s *c15SJScen) { s.Ev.Mapping = "missing" }},
		{"mapping badly signed", func(s *c15SJScen) { s.Ev.Mapping = "badsig" }},
		{"mapping unsigned", func(s *c15SJScen) { s.Ev.Mapping = "nosigs" }},
		{"mapping signed by another server", func(s *c15SJScen) { s.Ev.Mapping = "othersigner" }},
		{"store fails", func(s *c15SJScen) { s.Store = "err" }},
		// members repeated in the JSON: one reading (the last occurrence, as stored) must govern
		{"via twice: local first, foreign last", func(s *c15SJScen) {
			s.Ev.ContentFirst = `"join_authorised_via_users_server":"@auth:local"`
			s.Ev.Via = "@auth:elsewhere"
		}},
		{"via twice: foreign first, local last", func(s *c15SJScen) {
			s.Ev.ContentFirst = `"join_authorised_via_users_server":"@auth:elsewhere"`
			s.Ev.Via = "@auth:local"
		}},
		{"via twice: local first, invalid last", func(s *c15SJScen) {
			s.Ev.ContentFirst = `"join_authorised_via_users_server":"@auth:local"`
			s.Ev.Via = "notauserid"
		}},
		{"via twice: foreign first, empty last", func(s *c15SJScen) {
			s.Ev.ContentFirst = `"join_authorised_via_users_server":"@auth:elsewhere"`
			s.Ev.Extra = `"join_authorised_via_users_server":""`
		}},
		{"via twice: local first, null last", func(s *c15SJScen) {
			s.Ev.ContentFirst = `"join_authorised_via_users_server":"@auth:local"`
			s.Ev.Extra = `"join_authorised_via_users_server":null`
		}},
		{"membership twice: join first, leave last", func(s *c15SJScen) { s.Ev.ContentFirst = `"membership":"join"`; s.Ev.Membership = "leave" }},
		{"membership twice: leave first, join last", func(s *c15SJScen) { s.Ev.ContentFirst = `"membership":"leave"` }},
		{"membership twice: number first, join last", func(s *c15SJScen) { s.Ev.ContentFirst = `"membership":5` }},
		{"state_key twice: other first", func(s *c15SJScen) { s.Ev.TopFirst = map[string]string{"state_key": `"@someoneelse:remote"`} }},
		{"state_key twice: sender first, other last", func(s *c15SJScen) {
			s.Ev.StateKey = "other"
			s.Ev.TopFirst = map[string]string{"state_key": `"@user:remote"`}
		}},
		{"sender twice: other server first", func(s *c15SJScen) { s.Ev.TopFirst = map[string]string{"sender": `"@user:other"`} }},
		{"sender twice: remote first, other server last", func(s *c15SJScen) {
			s.Ev.SenderDomain = "other"
			s.Ev.TopFirst = map[string]string{"sender": `"@user:remote"`, "state_key": `"@user:remote"`}
		}},
		{"room_id twice: other room first", func(s *c15SJScen) { s.Ev.TopFirst = map[string]string{"room_id": `"!elsewhere:remote"`} }},
		{"room_id twice: request room first, other last", func(s *c15SJScen) {
			s.Ev.Room = "other"
			s.Ev.TopFirst = map[string]string{"room_id": `"!room:remote"`}
		}},
		{"type twice: topic first", func(s *c15SJScen) { s.Ev.TopFirst = map[string]string{"type": `"m.room.topic"`} }},
		{"type twice: member first, topic last", func(s *c15SJScen) {
			s.Ev.Type = "m.room.topic"
			s.Ev.TopFirst = map[string]string{"type": `"m.room.member"`}
		}},
		{"content twice: leave first", func(s *c15SJScen) { s.Ev.TopFirst = map[string]string{"content": `{"membership":"leave"}`} }},
		{"content twice: join first, leave last", func(s *c15SJScen) {
			s.Ev.Membership = "leave"
			s.Ev.TopFirst = map[string]string{"content": `{"membership":"join"}`}
		}},
		{"content twice: foreign via first", func(s *c15SJScen) {
			s.Ev.TopFirst = map[string]string{"content": `{"join_authorised_via_users_server":"@auth:elsewhere","membership":"join"}`}
		}},
		{"restricted join via a local user, joiner entitled nowhere", func(s *c15SJScen) { s.Ev.Via = "@auth:local"; s.Entitled = "no" }},
		{"plain join, joiner entitled nowhere", func(s *c15SJScen) { s.Entitled = "no" }},
		{"mapping names another key", func(s *c15SJScen) { s.Ev.MappingKey = "other" }},
		{"signed by the mapping key only", func(s *c15SJScen) { s.Ev.Signers = "mapping" }},
		{"signed by sender and mapping key", func(s *c15SJScen) { s.Ev.Signers = "both" }},
		{"signed by neither key", func(s *c15SJScen) { s.Ev.Signers = "neither" }},
		{"mapping names another key which alone signs", func(s *c15SJScen) { s.Ev.MappingKey = "other"; s.Ev.Signers = "mapping" }},
		{"mapping names another key, both sign", func(s *c15SJScen) { s.Ev.MappingKey = "other"; s.Ev.Signers = "both" }},
		{"mapping names another key, neither signs", func(s *c15SJScen) { s.Ev.MappingKey = "other"; s.Ev.Signers = "neither" }},
		{"key valid until just before the event", func(s *c15SJScen) { s.Ev.KeyValidity = "until_before" }},
		{"key valid until the event's instant", func(s *c15SJScen) { s.Ev.KeyValidity = "until_equal" }},
		{"key valid until just after the event", func(s *c15SJScen) { s.Ev.KeyValidity = "until_after" }},
		{"key never valid", func(s *c15SJScen) { s.Ev.KeyValidity = "not_valid" }},
		{"key expired just before the event", func(s *c15SJScen) { s.Ev.KeyValidity = "expired_before" }},
		{"key expired at the event's instant", func(s *c15SJScen) { s.Ev.KeyValidity = "expired_equal" }},
		{"key expired just after the event", func(s *c15SJScen) { s.Ev.KeyValidity = "expired_after" }},
	}
	for _, v := range vers {
		for _, m := range muts {
			s := good()
			s.Ver = v
			m.f(&s)
			c.c15Run("C15.send_join", s, "send_join v"+v+" "+m.name)
			c.Count("send_join/single/" + m.name)
			if _, err := gmsl.GetRoomVersion(gmsl.RoomVersion(v)); err == nil && s.Ev.Extra == "" && !(v == "12" && s.Ev.Type == "m.room.create") {
				c.Run("C15.fields", [][]byte{c15JSON(c15FieldsScen{Ver: v, Ev: s.Ev})}, "C15.fields", "", "fields of the send_join event v"+v+" "+m.name)
				c.Count("fields")
			}
		}
	}
	// pairs of deviations (guard order) on v10, v1 and the pseudo-ID version
	for _, v := range []string{"10", "1", "org.matrix.msc4014"} {
		for i := 1; i < len(muts); i++ {
			for j := i + 1; j < len(muts); j++ {
				if !c.Thorough() && c.Rng.Intn(3) != 0 {
					continue
				}
				s := good()
				s.Ver = v
				muts[i].f(&s)
				muts[j].f(&s)
				c.c15Run("C15.send_join", s, "send_join v"+v+" "+muts[i].name+" + "+muts[j].name)
				c.Count("send_join/pair")
			}
		}
	}
	// random multi-deviation
	n := c.Scale(300, 4000)
	for k := 0; k < n; k++ {
		s := good()
		s.Ver = vers[c.Rng.Intn(len(vers)-2)]
		cnt := 1 + c.Rng.Intn(4)
		var names []string
		for x := 0; x < cnt; x++ {
			m := muts[c.Rng.Intn(len(muts))]
			m.f(&s)
			names = append(names, m.name)
		}
		c.c15Run("C15.send_join", s, "send_join random v"+s.Ver+" "+strings.Join(names, " + "))
		c.Count("send_join/random")
	}
	// malformed bodies
	for _, raw := range []string{"b", "{}", "[]", `{"type":"m.room.member"}`, `{"type":5,"content":{}}`, "null", `"x"`,
		`{"room_id":"!room:remote","type":"m.room.member","sender":"@user:remote","state_key":"@user:remote","content":{"membership":"join"}`} {
		for _, v := range []string{"10", "1", "bogus"} {
			s := good()
			s.Ver = v
			s.Raw = raw
			c.c15Run("C15.send_join", s, "send_join malformed body")
			c.Count("send_join/malformed")
		}
	}
}

func genC15Invite(c *Ctx) {
	good := func() c15IVScen {
		return c15IVScen{Ver: "10", Ev: c15GoodEv("invite", "target"), SenderQ: "ok", Known: "yes", Given: 2, Generated: "some", MemberQ: "leave"}
	}
	vers := []string{"1", "2", "3", "4", "5", "8", "10", "11", "12", "bogus", ""}
	type mut struct {
		name string
		f    func(*c15IVScen)
	}
	muts := []mut{
		{"good", func(s *c15IVScen) {}},
		{"type=topic", func(s *c15IVScen) { s.Ev.Type = "m.room.topic"; s.Ev.StateKey = "empty"; s.Ev.Membership = "-"; s.Ev.Extra = `"topic":"t"` }},
		{"type=topic shaped as invite", func(s *c15IVScen) { s.Ev.Type = "m.room.topic" }},
		{"type=message", func(s *c15IVScen) { s.Ev.Type = "m.room.message"; s.Ev.StateKey = "none"; s.Ev.Membership = "-"; s.Ev.Extra = `"body":"hi"` }},
		{"type=power_levels", func(s *c15IVScen) { s.Ev.Type = "m.room.power_levels"; s.Ev.StateKey = "empty"; s.Ev.Membership = "-" }},
		{"membership=join", func(s *c15IVScen) { s.Ev.Membership = "join" }},
		{"membership=leave", func(s *c15IVScen) { s.Ev.Membership = "leave" }},
		{"membership=ban", func(s *c15IVScen) { s.Ev.Membership = "ban" }},
		{"membership absent", func(s *c15IVScen) { s.Ev.Membership = "-" }},
		{"membership number", func(s *c15IVScen) { s.Ev.Membership = "#" }},
		{"member event without state key", func(s *c15IVScen) { s.Ev.StateKey = "none" }},
		{"room other", func(s *c15IVScen) { s.Ev.Room = "other" }},
		{"sender of other server", func(s *c15IVScen) { s.Ev.SenderDomain = "other" }},
		{"sender_q err", func(s *c15IVScen) { s.SenderQ = "err" }},
		{"sender_q nil", func(s *c15IVScen) { s.SenderQ = "nil" }},
		{"sig tampered", func(s *c15IVScen) { s.Ev.Sig = "tampered" }},
		{"sig none", func(s *c15IVScen) { s.Ev.Sig = "none" }},
		{"sig wrongkey", func(s *c15IVScen) { s.Ev.Sig = "wrongkey" }},
		{"sig othersigner", func(s *c15IVScen) { s.Ev.Sig = "othersigner" }},
		{"verifier error", func(s *c15IVScen) { s.Ev.Sig = "verr" }},
		{"known err", func(s *c15IVScen) { s.Known = "err" }},
		{"unknown room", func(s *c15IVScen) { s.Known = "no" }},
		{"no given state", func(s *c15IVScen) { s.Given = 0 }},
		{"one given state", func(s *c15IVScen) { s.Given = 1 }},
		{"generated err", func(s *c15IVScen) { s.Generated = "err" }},
		{"generated nil", func(s *c15IVScen) { s.Generated = "nil" }},
		{"generated empty", func(s *c15IVScen) { s.Generated = "empty" }},
		{"member_q err", func(s *c15IVScen) { s.MemberQ = "err" }},
		{"member_q join", func(s *c15IVScen) { s.MemberQ = "join" }},
		{"member_q ban", func(s *c15IVScen) { s.MemberQ = "ban" }},
		{"member_q invite", func(s *c15IVScen) { s.MemberQ = "invite" }},
		{"already signed locally", func(s *c15IVScen) { s.Ev.LocalSig = true }},
		{"with unsigned", func(s *c15IVScen) { s.Ev.Unsigned = `{"age":5,"invite_room_state":[1]}` }},
		{"membership twice: invite first, join last", func(s *c15IVScen) { s.Ev.ContentFirst = `"membership":"invite"`; s.Ev.Membership = "join" }},
		{"membership twice: join first, invite last", func(s *c15IVScen) { s.Ev.ContentFirst = `"membership":"join"` }},
		{"type twice: topic first", func(s *c15IVScen) { s.Ev.TopFirst = map[string]string{"type": `"m.room.topic"`} }},
		{"type twice: member first, topic last", func(s *c15IVScen) {
			s.Ev.Type = "m.room.topic"
			s.Ev.TopFirst = map[string]string{"type": `"m.room.member"`}
		}},
		{"room_id twice: other room first", func(s *c15IVScen) { s.Ev.TopFirst = map[string]string{"room_id": `"!elsewhere:remote"`} }},
		{"room_id twice: request room first, other last", func(s *c15IVScen) {
			s.Ev.Room = "other"
			s.Ev.TopFirst = map[string]string{"room_id": `"!room:remote"`}
		}},
		{"sender twice: other server first", func(s *c15IVScen) { s.Ev.TopFirst = map[string]string{"sender": `"@user:other"`} }},
		{"content twice: join first, invite last", func(s *c15IVScen) { s.Ev.TopFirst = map[string]string{"content": `{"membership":"join"}`} }},
		{"content twice: invite first, leave last", func(s *c15IVScen) {
			s.Ev.Membership = "leave"
			s.Ev.TopFirst = map[string]string{"content": `{"membership":"invite"}`}
		}},
		{"key valid until just before the event", func(s *c15IVScen) { s.Ev.KeyValidity = "until_before" }},
		{"key valid until the event's instant", func(s *c15IVScen) { s.Ev.KeyValidity = "until_equal" }},
		{"key valid until just after the event", func(s *c15IVScen) { s.Ev.KeyValidity = "until_after" }},
		{"key never valid", func(s *c15IVScen) { s.Ev.KeyValidity = "not_valid" }},
		{"key expired just before the event", func(s *c15IVScen) { s.Ev.KeyValidity = "expired_before" }},
		{"key expired at the event's instant", func(s *c15IVScen) { s.Ev.KeyValidity = "expired_equal" }},
		{"key expired just after the event", func(s *c15IVScen) { s.Ev.KeyValidity = "expired_after" }},
	}
	for _, v := range vers {
		for _, m := range muts {
			s := good()
			s.Ver = v
			if v == "bogus" || v == "" {
				s.EvVer = "10"
			}
			m.f(&s)
			c.c15Run("C15.invite", s, "invite v"+v+" "+m.name)
			c.Count("invite/single/" + m.name)
			if _, err := gmsl.GetRoomVersion(gmsl.RoomVersion(v)); err == nil {
				c.Run("C15.fields", [][]byte{c15JSON(c15FieldsScen{Ver: v, Ev: s.Ev})}, "C15.fields", "", "fields of the invite event v"+v+" "+m.name)
				c.Count("fields")
			}
		}
	}
	for _, v := range []string{"10", "1"} {
		for i := 1; i < len(muts); i++ {
			for j := i + 1; j < len(muts); j++ {
				if !c.Thorough() && c.Rng.Intn(3) != 0 {
					continue
				}
				s := good()
				s.Ver = v
				muts[i].f(&s)
				muts[j].f(&s)
				c.c15Run("C15.invite", s, "invite v"+v+" "+muts[i].name+" + "+muts[j].name)
				c.Count("invite/pair")
			}
		}
	}
	// the whole product of the stripped-state / known-room / membership answers
	for _, v := range []string{"10", "1", "6"} {
		for given := 0; given <= 2; given++ {
			for _, gen := range []string{"err", "nil", "empty", "some"} {
				for _, known := range []string{"yes", "no", "err"} {
					for _, mq := range []string{"leave", "join", "err", ""} {
						s := good()
						s.Ver, s.Given, s.Generated, s.Known, s.MemberQ = v, given, gen, known, mq
						c.c15Run("C15.invite", s, fmt.Sprintf("invite v%s given=%d generated=%s known=%s member_q=%s", v, given, gen, known, mq))
						c.Count("invite/state-product")
					}
				}
			}
		}
	}
	n := c.Scale(300, 4000)
	for k := 0; k < n; k++ {
		s := good()
		s.Ver = vers[c.Rng.Intn(len(vers)-2)]
		cnt := 1 + c.Rng.Intn(4)
		var names []string
		for x := 0; x < cnt; x++ {
			m := muts[c.Rng.Intn(len(muts))]
			m.f(&s)
			names = append(names, m.name)
		}
		c.c15Run("C15.invite", s, "invite random v"+s.Ver+" "+strings.Join(names, " + "))
		c.Count("invite/random")
	}
}
