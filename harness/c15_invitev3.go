package main

// C15: HandleInviteV3 (see c15.go for the conventions).

import (
	"context"
	"crypto/ed25519"
	"encoding/json"
	"strings"

	gmsl "github.com/matrix-org/gomatrixserverlib"
	"github.com/matrix-org/gomatrixserverlib/spec"
)

type c15V3Scen struct {
	Ver        string `json:"ver"`
	ProtoType  string `json:"proto_type"`
	Membership string `json:"membership"` // "-" absent, "#" a number
	ProtoRoom  string `json:"proto_room"` // req | other
	Creator    string `json:"creator"`    // ok | err
	PrevCount  int    `json:"prev_count"`
	Known      string `json:"known"`
	Given      int    `json:"given"`
	Generated  string `json:"generated"`
	MemberQ    string `json:"member_q"`
}

func c15InviteV3(args [][]byte) ([][]byte, []byte) {
	var s c15V3Scen
	if err := json.Unmarshal(args[0], &s); err != nil {
		panic(err)
	}
	ver := gmsl.RoomVersion(s.Ver)
	verImpl, verErr := gmsl.GetRoomVersion(ver)
	bv := ver
	if verErr != nil {
		bv = gmsl.RoomVersionV10
	}
	roomID := c15ReqRoom
	if s.ProtoRoom == "other" {
		roomID = c15OtherRoom
	}
	var parts []string
	switch s.Membership {
	case "-":
	case "#":
		parts = append(parts, `"membership":5`)
	default:
		parts = append(parts, `"membership":`+string(c15JSON(s.Membership)))
	}
	if s.ProtoType != spec.MRoomMember {
		parts = append(parts, `"topic":"x"`)
	}
	inviterPub, _ := c15Key("pseudo-inviter")
	_ = inviterPub
	_, inviterKey := c15Key("pseudo-inviter")
	inviterSID := string(spec.SenderIDFromPseudoIDKey(inviterKey))
	prev := []interface{}{}
	for k := 0; k < s.PrevCount; k++ {
		prev = append(prev, "$0123456789012345678901234567890123456789ab"+string(rune('a'+k)))
	}
	placeholder := "@invitee:local"
	proto := gmsl.ProtoEvent{SenderID: inviterSID, RoomID: roomID, Type: s.ProtoType, StateKey: &placeholder, PrevEvents: prev, AuthEvents: []interface{}{},
		Depth: 5, Content: spec.RawJSON("{" + strings.Join(parts, ",") + "}")}

	_, inviteeKey := c15Key("pseudo-invitee")
	inviteePub := inviteeKey.Public().(ed25519.PublicKey)
	inviteeSID := spec.SenderIDFromPseudoIDKey(inviteeKey)

	log := &c15Log{}
	room, _ := spec.NewRoomID(c15ReqRoom)
	invited, _ := spec.NewUserID(c15Target, true)
	_, lsk := c15Key("local")
	stateEvs := c15RoomStateEvents(gmsl.RoomVersionV10)
	stripped := func(e gmsl.PDU) interface{} {
		return c15Obj{"content": json.RawMessage(e.Content()), "state_key": c15StrPtr(e.StateKey()), "type": e.Type(), "sender": string(e.SenderID())}
	}
	var given []gmsl.InviteStrippedState
	givenJSON := []interface{}{}
	for i := 0; i < s.Given && i < len(stateEvs); i++ {
		given = append(given, gmsl.NewInviteStrippedState(stateEvs[i]))
		givenJSON = append(givenJSON, stripped(stateEvs[i]))
	}
	var generated interface{}
	switch s.Generated {
	case "err":
		generated = "err"
	case "nil":
		generated = nil
	case "empty":
		generated = []interface{}{}
	default:
		l := []interface{}{}
		for _, e := range stateEvs {
			l = append(l, stripped(e))
		}
		generated = l
	}
	known := interface{}("err")
	if s.Known != "err" {
		known = s.Known == "yes"
	}
	var body struct {
		Membership string `json:"membership"`
	}
	pm := interface{}("err")
	if err := json.Unmarshal(proto.Content, &body); err == nil {
		pm = c15Val(body.Membership)
	}
	cfg := c15Obj{"version": s.Ver, "req_room": c15ReqRoom, "invited_sender": c15Target, "known": known, "given_state": givenJSON,
		"generated_state": generated, "member_q": c15MemberCfg(s.MemberQ), "set_unsigned_ok": true,
		"proto_room": roomID, "proto_type": s.ProtoType, "proto_membership": pm, "invited_user": c15Target, "build_ok": false}
	if s.Creator == "err" {
		cfg["created_sender_id"] = "err"
	} else {
		cfg["created_sender_id"] = c15Val(string(inviteeSID))
	}
	if verErr == nil {
		func() {
			defer func() { _ = recover() }()
			p := proto
			k := string(inviteeSID)
			p.StateKey = &k
			if _, err := verImpl.NewEventBuilderFromProtoEvent(&p).Build(c15Time, spec.ServerName(inviteeSID), "ed25519:1", inviteeKey); err == nil {
				cfg["build_ok"] = true
			}
		}()
	}

	res, herr := gmsl.HandleInviteV3(context.Background(), gmsl.HandleInviteV3Input{
		HandleInviteInput: gmsl.HandleInviteInput{RoomID: *room, RoomVersion: ver, InvitedUser: *invited, InvitedSenderID: spec.SenderID(c15Target),
			StrippedState: given, KeyID: c15KeyID, PrivateKey: lsk, Verifier: &c15Verifier{log: log, keys: c15Keys()},
			RoomQuerier: &c15RoomQ{log: log, known: s.Known}, MembershipQuerier: &c15Membership{log: log, answer: s.MemberQ},
			StateQuerier: &c15StateQ{log: log, mode: s.Generated, evs: stateEvs},
			UserIDQuerier: func(roomID spec.RoomID, senderID spec.SenderID) (*spec.UserID, error) { return invited, nil }},
		InviteProtoEvent: proto,
		GetOrCreateSenderID: func(ctx context.Context, userID spec.UserID, roomID spec.RoomID, roomVersion string) (spec.SenderID, ed25519.PrivateKey, error) {
			log.add("C", userID.String(), roomID.String(), roomVersion)
			if s.Creator == "err" {
				return "", nil, errC15Querier
			}
			return inviteeSID, inviteeKey, nil
		},
	})
	out := c15Class(herr) + "\n" + log.String()
	if herr == nil {
		sk := interface{}(nil)
		if res.StateKey() != nil {
			sk = *res.StateKey()
		}
		var m interface{}
		if v, merr := res.Membership(); merr == nil {
			m = v
		}
		signedBy := "NOT-VALIDLY-SIGNED-BY-THE-INVITEE-KEY"
		if red, err := gmsl.MustGetRoomVersion(bv).RedactEventJSON(res.JSON()); err == nil {
			if gmsl.VerifyJSON(string(inviteeSID), "ed25519:1", inviteePub, red) == nil {
				signedBy = string(inviteeSID)
			}
		}
		o := c15Obj{"type": res.Type(), "state_key": sk, "membership": m, "signed_by": signedBy}
		if full, err := c15Decode(res.JSON()); err == nil {
			if u, ok := full["unsigned"].(c15Obj); ok {
				o["unsigned"] = c15Obj{"invite_room_state": u["invite_room_state"]}
			}
		}
		c, _ := gmsl.CanonicalJSON(c15JSON(o))
		out += "\nalready_joined=0\n" + string(c)
	}
	return [][]byte{args[0], c15JSON(cfg)}, []byte(out)
}

func init() {
	RegisterImpl("C15.invite_v3", c15InviteV3)
}

func genC15InviteV3(c *Ctx) {
	good := func() c15V3Scen {
		return c15V3Scen{Ver: "org.matrix.msc4014", ProtoType: "m.room.member", Membership: "invite", ProtoRoom: "req", Creator: "ok", PrevCount: 1,
			Known: "yes", Given: 2, Generated: "some", MemberQ: "leave"}
	}
	type mut struct {
		name string
		f    func(*c15V3Scen)
	}
	muts := []mut{
		{"good", func(s *c15V3Scen) {}},
		{"type=topic", func(s *c15V3Scen) { s.ProtoType = "m.room.topic"; s.Membership = "-" }},
		{"type=topic shaped as invite", func(s *c15V3Scen) { s.ProtoType = "m.room.topic" }},
		{"type=power_levels", func(s *c15V3Scen) { s.ProtoType = "m.room.power_levels"; s.Membership = "-" }},
		{"membership=join", func(s *c15V3Scen) { s.Membership = "join" }},
		{"membership=leave", func(s *c15V3Scen) { s.Membership = "leave" }},
		{"membership=ban", func(s *c15V3Scen) { s.Membership = "ban" }},
		{"membership absent", func(s *c15V3Scen) { s.Membership = "-" }},
		{"membership number", func(s *c15V3Scen) { s.Membership = "#" }},
		{"room other", func(s *c15V3Scen) { s.ProtoRoom = "other" }},
		{"sender id creation fails", func(s *c15V3Scen) { s.Creator = "err" }},
		{"no prev events", func(s *c15V3Scen) { s.PrevCount = 0 }},
		{"known err", func(s *c15V3Scen) { s.Known = "err" }},
		{"unknown room", func(s *c15V3Scen) { s.Known = "no" }},
		{"no given state", func(s *c15V3Scen) { s.Given = 0 }},
		{"generated err", func(s *c15V3Scen) { s.Given = 0; s.Generated = "err" }},
		{"generated nil", func(s *c15V3Scen) { s.Given = 0; s.Generated = "nil" }},
		{"member_q err", func(s *c15V3Scen) { s.MemberQ = "err" }},
		{"member_q join", func(s *c15V3Scen) { s.MemberQ = "join" }},
		{"member_q invite", func(s *c15V3Scen) { s.MemberQ = "invite" }},
	}
	for _, v := range []string{"org.matrix.msc4014", "10", "bogus", ""} {
		for _, m := range muts {
			s := good()
			s.Ver = v
			m.f(&s)
			c.c15Run("C15.invite_v3", s, "invite_v3 v"+v+" "+m.name)
			c.Count("invite_v3/single")
		}
	}
	for i := 1; i < len(muts); i++ {
		for j := i + 1; j < len(muts); j++ {
			s := good()
			muts[i].f(&s)
			muts[j].f(&s)
			c.c15Run("C15.invite_v3", s, "invite_v3 "+muts[i].name+" + "+muts[j].name)
			c.Count("invite_v3/pair")
		}
	}
}
