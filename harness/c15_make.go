package main

// C15: HandleMakeJoin, HandleMakeLeave and IRoomVersion.CheckRestrictedJoin (see c15.go for the
// conventions).

import (
	"context"
	"encoding/json"
	"errors"
	"fmt"
	"strings"

	gmsl "github.com/matrix-org/gomatrixserverlib"
	"github.com/matrix-org/gomatrixserverlib/spec"
)

type c15MemberScen struct {
	Type  string `json:"type"`
	Key   string `json:"key"`
	NoKey bool   `json:"no_key"`
}

type c15RuleScen struct {
	Type   string          `json:"type"`
	Room   string          `json:"room"`
	Info   string          `json:"info"` // err | nil | ok
	Local  bool            `json:"local"`
	Joined bool            `json:"joined"`
	Users  []c15MemberScen `json:"users"`
}

type c15RJScen struct {
	JoinRules     string           `json:"join_rules"` // err | nil | bad | <join_rule value>
	Allow         []c15RuleScen    `json:"allow"`
	Pending       string           `json:"pending"` // err | yes | no
	Power         string           `json:"power"`   // err | nil | bad | ok
	Invite        int64            `json:"invite"`
	UsersDefault  int64            `json:"users_default"`
	Users         map[string]int64 `json:"users"`
	AllowedWeak   bool             `json:"allowed_weak"` // power levels of the ALLOWED rooms: false = everybody may invite there, true = nobody may
	Create        string           `json:"create"` // err | nil | ok
	ExtraCreators []string         `json:"extra_creators"`
}

type c15MJScen struct {
	Ver        string    `json:"ver"`
	Remote     []string  `json:"remote"`
	UserDomain string    `json:"user_domain"`
	Origin     string    `json:"origin"`
	InRoom     bool      `json:"in_room"`
	RJ         c15RJScen `json:"rj"`
	Build      string    `json:"build"` // ok | err | nil_event | nil_state | wrong_type | nonstate_in_state
	Room       string    `json:"room"`  // public | invite_only | invited | banned | restricted | joined | left
	Leave      bool      `json:"leave"`
}

// ---------- the scripted RestrictedRoomJoinQuerier ----------

type c15RJQuerier struct {
	log    *c15Log
	s      c15RJScen
	ver    gmsl.RoomVersion
	jr, pl gmsl.PDU
	create gmsl.PDU
	plOther gmsl.PDU
}

func c15TryBuild(ver gmsl.RoomVersion, proto gmsl.ProtoEvent) (ev gmsl.PDU) {
	defer func() {
		if recover() != nil {
			ev = nil
		}
	}()
	return c15Build(ver, proto, "local", "local")
}

func newC15RJQuerier(log *c15Log, ver gmsl.RoomVersion, s c15RJScen) *c15RJQuerier {
	q := &c15RJQuerier{log: log, s: s, ver: ver}
	bv := ver
	if _, err := gmsl.GetRoomVersion(ver); err != nil {
		bv = gmsl.RoomVersionV10
	}
	if bv == gmsl.RoomVersionV12 || bv == "org.matrix.hydra.11" {
		bv = gmsl.RoomVersionV11 // the PDUs handed out by the querier are only read through accessors
	}
	empty := ""
	switch s.JoinRules {
	case "err", "nil":
	case "bad":
		q.jr = c15TryBuild(bv, gmsl.ProtoEvent{SenderID: "@creator:local", RoomID: c15ReqRoom, Type: spec.MRoomJoinRules, StateKey: &empty, Depth: 3,
			Content: spec.RawJSON(`{"join_rule":5}`)})
	case "dup_public_then_restricted", "dup_restricted_then_public":
		// join_rule repeated: the stored reading is the last occurrence
		allow := []c15Obj{}
		for _, r := range s.Allow {
			allow = append(allow, c15Obj{"type": r.Type, "room_id": r.Room})
		}
		a, b := "public", "restricted"
		if s.JoinRules == "dup_restricted_then_public" {
			a, b = b, a
		}
		q.jr = c15TryBuild(bv, gmsl.ProtoEvent{SenderID: "@creator:local", RoomID: c15ReqRoom, Type: spec.MRoomJoinRules, StateKey: &empty, Depth: 3,
			Content: spec.RawJSON(`{"allow":` + string(c15JSON(allow)) + `,"join_rule":"` + a + `","join_rule":"` + b + `"}`)})
	default:
		allow := []c15Obj{}
		for _, r := range s.Allow {
			allow = append(allow, c15Obj{"type": r.Type, "room_id": r.Room})
		}
		q.jr = c15TryBuild(bv, gmsl.ProtoEvent{SenderID: "@creator:local", RoomID: c15ReqRoom, Type: spec.MRoomJoinRules, StateKey: &empty, Depth: 3,
			Content: c15JSON(c15Obj{"join_rule": s.JoinRules, "allow": allow})})
	}
	switch s.Power {
	case "bad":
		q.pl = c15TryBuild(bv, gmsl.ProtoEvent{SenderID: "@creator:local", RoomID: c15ReqRoom, Type: spec.MRoomPowerLevels, StateKey: &empty, Depth: 4,
			Content: spec.RawJSON(`{"users":"nobody"}`)})
	case "ok":
		users := s.Users
		if users == nil {
			users = map[string]int64{}
		}
		q.pl = c15TryBuild(bv, gmsl.ProtoEvent{SenderID: "@creator:local", RoomID: c15ReqRoom, Type: spec.MRoomPowerLevels, StateKey: &empty, Depth: 4,
			Content: c15JSON(c15Obj{"invite": s.Invite, "users_default": s.UsersDefault, "users": users})})
	}
	other := c15Obj{"invite": 0, "users_default": 100}
	if s.AllowedWeak {
		other = c15Obj{"invite": 100, "users_default": 0}
	}
	q.plOther = c15TryBuild(bv, gmsl.ProtoEvent{SenderID: "@creator:local", RoomID: "!allowed:local", Type: spec.MRoomPowerLevels, StateKey: &empty, Depth: 4,
		Content: c15JSON(other)})
	if s.Create == "ok" {
		content := c15Obj{"room_version": string(bv)}
		if len(s.ExtraCreators) > 0 {
			content["additional_creators"] = s.ExtraCreators
		}
		q.create = c15TryBuild(bv, gmsl.ProtoEvent{SenderID: "@creator:local", RoomID: c15ReqRoom, Type: spec.MRoomCreate, StateKey: &empty, Depth: 1,
			Content: c15JSON(content)})
	}
	return q
}

func (q *c15RJQuerier) CurrentStateEvent(ctx context.Context, roomID spec.RoomID, eventType string, stateKey string) (gmsl.PDU, error) {
	q.log.add("S", roomID.String(), eventType, stateKey)
	switch eventType {
	case spec.MRoomJoinRules:
		if q.s.JoinRules == "err" {
			return nil, errC15Querier
		}
		if q.jr == nil {
			return nil, nil
		}
		return q.jr, nil
	case spec.MRoomPowerLevels:
		if roomID.String() != c15ReqRoom {
			// another room's power levels (they differ from the joined room's on purpose)
			return q.plOther, nil
		}
		if q.s.Power == "err" {
			return nil, errC15Querier
		}
		if q.pl == nil {
			return nil, nil
		}
		return q.pl, nil
	case spec.MRoomCreate:
		if q.s.Create == "err" {
			return nil, errC15Querier
		}
		if q.create == nil {
			return nil, nil
		}
		return q.create, nil
	}
	return nil, nil
}

func (q *c15RJQuerier) InvitePending(ctx context.Context, roomID spec.RoomID, senderID spec.SenderID) (bool, error) {
	q.log.add("P", roomID.String(), string(senderID))
	if q.s.Pending == "err" {
		return false, errC15Querier
	}
	return q.s.Pending == "yes", nil
}

func (q *c15RJQuerier) memberPDUs(r c15RuleScen) []gmsl.PDU {
	bv := gmsl.RoomVersionV10
	var l []gmsl.PDU
	for _, m := range r.Users {
		var sk *string
		if !m.NoKey {
			k := m.Key
			sk = &k
		}
		content := `{"membership":"join"}`
		if m.Type != spec.MRoomMember {
			content = `{"body":"x"}`
		}
		sender := m.Key
		if sender == "" || !strings.HasPrefix(sender, "@") {
			sender = "@someone:local"
		}
		l = append(l, c15Build(bv, gmsl.ProtoEvent{SenderID: sender, RoomID: "!allowed:local", Type: m.Type, StateKey: sk, Depth: 5,
			Content: spec.RawJSON(content)}, "local", "local"))
	}
	return l
}

func (q *c15RJQuerier) RestrictedRoomJoinInfo(ctx context.Context, roomID spec.RoomID, senderID spec.SenderID, localServerName spec.ServerName) (*gmsl.RestrictedRoomJoinInfo, error) {
	q.log.add("I", roomID.String(), string(senderID), string(localServerName))
	for _, r := range q.s.Allow {
		if r.Room == roomID.String() {
			switch r.Info {
			case "err":
				return nil, errC15Querier
			case "nil":
				return nil, nil
			}
			return &gmsl.RestrictedRoomJoinInfo{LocalServerInRoom: r.Local, UserJoinedToRoom: r.Joined, JoinedUsers: q.memberPDUs(r)}, nil
		}
	}
	return nil, nil
}

// the rj member of the model's input record, from what the library's own decoders say
func (q *c15RJQuerier) cfg() c15Obj {
	rj := c15Obj{}
	switch {
	case q.s.JoinRules == "err":
		rj["join_rules"] = "err"
	case q.jr == nil:
		rj["join_rules"] = nil
	default:
		var c gmsl.JoinRuleContent
		err := json.Unmarshal(q.jr.Content(), &c)
		allow := []c15Obj{}
		for i, r := range c.Allow {
			_, rerr := spec.NewRoomID(r.RoomID)
			o := c15Obj{"type": r.Type, "room_id": r.RoomID, "valid": rerr == nil}
			if i < len(q.s.Allow) {
				sc := q.s.Allow[i]
				switch sc.Info {
				case "err":
					o["info"] = "err"
				case "nil":
					o["info"] = nil
				default:
					users := []c15Obj{}
					for _, m := range q.memberPDUs(sc) {
						users = append(users, c15Obj{"type": m.Type(), "state_key": c15StrPtr(m.StateKey())})
					}
					o["info"] = c15Obj{"local": sc.Local, "joined": sc.Joined, "users": users}
				}
			}
			allow = append(allow, o)
		}
		rj["join_rules"] = c15Obj{"ok": err == nil, "join_rule": c.JoinRule, "allow": allow}
	}
	switch q.s.Pending {
	case "err":
		rj["pending"] = "err"
	default:
		rj["pending"] = q.s.Pending == "yes"
	}
	switch {
	case q.s.Power == "err":
		rj["power"] = "err"
	case q.pl == nil:
		rj["power"] = nil
	default:
		pl, err := q.pl.PowerLevels()
		if err != nil {
			rj["power"] = c15Obj{"ok": false}
		} else {
			rj["power"] = c15Obj{"ok": true, "invite": pl.Invite, "users_default": pl.UsersDefault, "users": pl.Users}
		}
	}
	switch {
	case q.s.Create == "err":
		rj["create"] = "err"
	case q.create == nil:
		rj["create"] = nil
	default:
		// by the room-version 12 rules: the sender of the create event and its additional_creators
		// (stated here independently of CreatorsFromCreateEvent, which the handler uses)
		rj["create"] = append([]string{string(q.create.SenderID())}, q.s.ExtraCreators...)
	}
	return rj
}

// ---------- IRoomVersion.CheckRestrictedJoin alone ----------

type c15RJOnly struct {
	Ver string    `json:"ver"`
	RJ  c15RJScen `json:"rj"`
}

func c15RestrictedJoin(args [][]byte) ([][]byte, []byte) {
	var s c15RJOnly
	if err := json.Unmarshal(args[0], &s); err != nil {
		panic(err)
	}
	ver := gmsl.RoomVersion(s.Ver)
	log := &c15Log{}
	q := newC15RJQuerier(log, ver, s.RJ)
	room, _ := spec.NewRoomID(c15ReqRoom)
	cfg := c15Obj{"version": s.Ver, "local": "local", "room": c15ReqRoom, "sender": "@user:remote", "rj": q.cfg()}
	via, err := gmsl.MustGetRoomVersion(ver).CheckRestrictedJoin(context.Background(), "local", q, *room, "@user:remote")
	var out string
	var me spec.MatrixError
	switch {
	case err == nil:
		out = "via=" + via
	case errors.As(err, &me) && me.ErrCode == spec.ErrorForbidden:
		out = "forbidden"
	case errors.As(err, &me) && me.ErrCode == spec.ErrorUnableToAuthoriseJoin:
		out = "unable_to_authorise"
	default:
		out = "error"
	}
	return [][]byte{args[0], c15JSON(cfg)}, []byte(out + "\n" + log.String())
}

// ---------- the room the template event is authorised against ----------

type c15Room struct {
	ver    gmsl.RoomVersion
	roomID string
	state  []gmsl.PDU
	last   string
}

func (r *c15Room) add(proto gmsl.ProtoEvent) gmsl.PDU {
	proto.RoomID = r.roomID
	proto.Depth = int64(len(r.state) + 1)
	if r.last != "" {
		proto.PrevEvents = []string{r.last}
	}
	ev := c15Build(r.ver, proto, "local", "local")
	r.state = append(r.state, ev)
	r.last = ev.EventID()
	return ev
}

func c15NewRoom(ver gmsl.RoomVersion, profile string, user string) *c15Room {
	r := &c15Room{ver: ver, roomID: c15ReqRoom}
	empty := ""
	creator := "@creator:local"
	auth := "@auth:local"
	r.add(gmsl.ProtoEvent{SenderID: creator, Type: spec.MRoomCreate, StateKey: &empty,
		Content: c15JSON(c15Obj{"creator": creator, "room_version": string(ver)})})
	r.add(gmsl.ProtoEvent{SenderID: creator, Type: spec.MRoomMember, StateKey: &creator, Content: spec.RawJSON(`{"membership":"join"}`)})
	r.add(gmsl.ProtoEvent{SenderID: creator, Type: spec.MRoomPowerLevels, StateKey: &empty,
		Content: c15JSON(c15Obj{"users": c15Obj{creator: 100, auth: 50}, "users_default": 0, "invite": 50, "ban": 50, "kick": 50, "state_default": 50, "events_default": 0})})
	r.add(gmsl.ProtoEvent{SenderID: creator, Type: spec.MRoomMember, StateKey: &auth, Content: spec.RawJSON(`{"membership":"invite"}`)})
	r.add(gmsl.ProtoEvent{SenderID: auth, Type: spec.MRoomMember, StateKey: &auth, Content: spec.RawJSON(`{"membership":"join"}`)})
	// only the latest member event of a user is state
	r.state = append(r.state[:3], r.state[4:]...)
	rule := "public"
	switch profile {
	case "invite_only", "invited":
		rule = "invite"
	case "restricted":
		rule = "restricted"
	}
	jr := c15Obj{"join_rule": rule}
	if rule == "restricted" {
		jr["allow"] = []c15Obj{{"type": "m.room_membership", "room_id": "!allowed0:local"}}
	}
	r.add(gmsl.ProtoEvent{SenderID: creator, Type: spec.MRoomJoinRules, StateKey: &empty, Content: c15JSON(jr)})
	member := ""
	switch profile {
	case "invited":
		member = "invite"
	case "banned":
		member = "ban"
	case "joined":
		member = "join"
	case "left":
		member = "leave"
	}
	if member != "" {
		sender := creator
		if member == "join" {
			sender = user
		}
		r.add(gmsl.ProtoEvent{SenderID: sender, Type: spec.MRoomMember, StateKey: &user, Content: c15JSON(c15Obj{"membership": member})})
	}
	return r
}

func c15IDs(l []string) []string {
	if l == nil {
		return []string{}
	}
	return l
}

func c15MakeJoinLeave(args [][]byte) ([][]byte, []byte) {
	var s c15MJScen
	if err := json.Unmarshal(args[0], &s); err != nil {
		panic(err)
	}
	ver := gmsl.RoomVersion(s.Ver)
	user, _ := spec.NewUserID("@user:"+s.UserDomain, true)
	senderID := spec.SenderID(user.String())
	room, _ := spec.NewRoomID(c15ReqRoom)
	log := &c15Log{}
	q := newC15RJQuerier(log, ver, s.RJ)
	uq := func(roomID spec.RoomID, senderID spec.SenderID) (*spec.UserID, error) {
		return spec.NewUserID(string(senderID), true)
	}
	remote := []gmsl.RoomVersion{}
	for _, v := range s.Remote {
		remote = append(remote, gmsl.RoomVersion(v))
	}
	cfg := c15Obj{"version": s.Ver, "remote_versions": s.Remote, "user_domain": s.UserDomain, "origin": s.Origin,
		"local": "local", "in_room": s.InRoom, "room": c15ReqRoom, "sender": user.String(), "rj": q.cfg()}
	if cfg["remote_versions"] == nil {
		cfg["remote_versions"] = []string{}
	}

	// what the builder will answer, decided before the call so that the record is independent of it
	bv := ver
	if _, err := gmsl.GetRoomVersion(ver); err != nil {
		bv = gmsl.RoomVersionV10
	}
	var builtEv gmsl.PDU
	var builtState []gmsl.PDU
	buildFor := func(proto *gmsl.ProtoEvent) (gmsl.PDU, []gmsl.PDU) {
		r := c15NewRoom(bv, s.Room, user.String())
		p := *proto
		p.Depth = int64(len(r.state) + 2)
		p.PrevEvents = []string{r.last}
		var authIDs []string
		for _, e := range r.state {
			if e.Type() != spec.MRoomMember || (e.StateKey() != nil && (*e.StateKey() == user.String() || *e.StateKey() == "@auth:local")) {
				authIDs = append(authIDs, e.EventID())
			}
		}
		p.AuthEvents = authIDs
		if s.Build == "wrong_type" {
			p.Type = "m.room.topic"
		}
		ev := c15Build(bv, p, "local", "local")
		st := r.state
		if s.Build == "nonstate_in_state" {
			st = append(append([]gmsl.PDU{}, st...), c15Build(bv, gmsl.ProtoEvent{SenderID: "@creator:local", RoomID: c15ReqRoom, Type: "m.room.message",
				Depth: 9, Content: spec.RawJSON(`{"body":"x"}`)}, "local", "local"))
		}
		return ev, st
	}
	builder := func(proto *gmsl.ProtoEvent) (gmsl.PDU, []gmsl.PDU, error) {
		var mc gmsl.MemberContent
		_ = json.Unmarshal(proto.Content, &mc)
		sk := "<nil>"
		if proto.StateKey != nil {
			sk = *proto.StateKey
		}
		log.add("B", proto.SenderID, proto.RoomID, proto.Type, sk, mc.Membership, mc.AuthorisedVia)
		switch s.Build {
		case "err":
			return nil, nil, errC15Passthrough
		case "nil_event":
			return nil, []gmsl.PDU{}, nil
		case "nil_state":
			ev, _ := buildFor(proto)
			return ev, nil, nil
		}
		builtEv, builtState = buildFor(proto)
		return builtEv, builtState, nil
	}

	var tmpl *gmsl.ProtoEvent
	var respVer gmsl.RoomVersion
	var herr error
	if s.Leave {
		var res *gmsl.HandleMakeLeaveResponse
		res, herr = gmsl.HandleMakeLeave(gmsl.HandleMakeLeaveInput{UserID: *user, SenderID: senderID, RoomID: *room, RoomVersion: ver,
			RequestOrigin: spec.ServerName(s.Origin), LocalServerName: "local", LocalServerInRoom: s.InRoom, UserIDQuerier: uq, BuildEventTemplate: builder})
		if res != nil {
			tmpl, respVer = &res.LeaveTemplateEvent, res.RoomVersion
		}
	} else {
		var res *gmsl.HandleMakeJoinResponse
		res, herr = gmsl.HandleMakeJoin(gmsl.HandleMakeJoinInput{Context: context.Background(), UserID: *user, SenderID: senderID, RoomID: *room,
			RoomVersion: ver, RemoteVersions: remote, RequestOrigin: spec.ServerName(s.Origin), LocalServerName: "local", LocalServerInRoom: s.InRoom,
			RoomQuerier: q, UserIDQuerier: uq, BuildEventTemplate: builder})
		if res != nil {
			tmpl, respVer = &res.JoinTemplateEvent, res.RoomVersion
		}
	}

	// the build member of the record: if the handler never reached the builder, ask it ourselves
	// with the template the handler would have made (only its verdicts matter then)
	switch s.Build {
	case "err", "nil_event", "nil_state":
		cfg["build"] = s.Build
	default:
		if builtEv == nil {
			sk := user.String()
			membership := `{"membership":"join"}`
			if s.Leave {
				membership = `{"membership":"leave"}`
			}
			builtEv, builtState = buildFor(&gmsl.ProtoEvent{SenderID: user.String(), RoomID: c15ReqRoom, Type: spec.MRoomMember, StateKey: &sk, Content: spec.RawJSON(membership)})
		}
		b := c15Obj{"type": builtEv.Type(), "version": string(builtEv.Version()), "auth": c15IDs(builtEv.AuthEventIDs()), "prev": c15IDs(builtEv.PrevEventIDs())}
		provider, perr := gmsl.NewAuthEvents(builtState)
		b["provider_ok"] = perr == nil
		b["allowed_ok"] = false
		if perr == nil {
			b["allowed_ok"] = gmsl.Allowed(builtEv, provider, uq) == nil
		}
		cfg["build"] = b
	}

	out := c15Class(herr) + "\n" + log.String()
	if herr == nil && tmpl != nil {
		var mc gmsl.MemberContent
		_ = json.Unmarshal(tmpl.Content, &mc)
		sk := "<nil>"
		if tmpl.StateKey != nil {
			sk = *tmpl.StateKey
		}
		refs := "none"
		if tmpl.AuthEvents != nil || tmpl.PrevEvents != nil {
			refs = "auth=" + c15RefIDs(tmpl.AuthEvents) + " prev=" + c15RefIDs(tmpl.PrevEvents)
		}
		out += "\n" + strings.Join([]string{string(respVer), tmpl.SenderID, tmpl.RoomID, tmpl.Type, sk, mc.Membership, mc.AuthorisedVia, refs}, "|")
	}
	return [][]byte{args[0], c15JSON(cfg)}, []byte(out)
}

// event IDs of a []eventReference (unexported type): through its JSON form [[id, {hashes}], ...]
func c15RefIDs(v interface{}) string {
	if v == nil {
		return "<nil>"
	}
	var refs []json.RawMessage
	if err := json.Unmarshal(c15JSON(v), &refs); err != nil {
		return "<unreadable>"
	}
	var ids []string
	for _, r := range refs {
		var tuple []json.RawMessage
		var id string
		if err := json.Unmarshal(r, &tuple); err == nil && len(tuple) == 2 && json.Unmarshal(tuple[0], &id) == nil {
			ids = append(ids, id)
			continue
		}
		if json.Unmarshal(r, &id) == nil {
			ids = append(ids, "STRING:"+id)
			continue
		}
		ids = append(ids, "<bad>")
	}
	return strings.Join(ids, ",")
}

func init() {
	RegisterImpl("C15.make_join", c15MakeJoinLeave)
	RegisterImpl("C15.make_leave", c15MakeJoinLeave)
	RegisterImpl("C15.restricted_join", c15RestrictedJoin)
}

// ---------- generators ----------

func c15GoodRule(i int) c15RuleScen {
	return c15RuleScen{Type: "m.room_membership", Room: fmt.Sprintf("!allowed%d:local", i), Info: "ok", Local: true, Joined: true,
		Users: []c15MemberScen{{Type: "m.room.member", Key: "@auth:local"}}}
}

func c15GoodRJ() c15RJScen {
	return c15RJScen{JoinRules: "restricted", Allow: []c15RuleScen{c15GoodRule(0)}, Pending: "no", Power: "ok", Invite: 50, UsersDefault: 0,
		Users: map[string]int64{"@auth:local": 50, "@creator:local": 100}, Create: "ok"}
}

type c15RJMut struct {
	name string
	f    func(*c15RJScen)
}

func c15RJMuts() []c15RJMut {
	rule0 := func(f func(r *c15RuleScen)) func(*c15RJScen) {
		return func(s *c15RJScen) {
			if len(s.Allow) > 0 {
				f(&s.Allow[0])
			}
		}
	}
	return []c15RJMut{
		{"good", func(s *c15RJScen) {}},
		{"join_rules err", func(s *c15RJScen) { s.JoinRules = "err" }},
		{"join_rules nil", func(s *c15RJScen) { s.JoinRules = "nil" }},
		{"join_rules bad content", func(s *c15RJScen) { s.JoinRules = "bad" }},
		{"join_rule public", func(s *c15RJScen) { s.JoinRules = "public" }},
		{"join_rule invite", func(s *c15RJScen) { s.JoinRules = "invite" }},
		{"join_rule knock", func(s *c15RJScen) { s.JoinRules = "knock" }},
		{"join_rule knock_restricted", func(s *c15RJScen) { s.JoinRules = "knock_restricted" }},
		{"join_rule Restricted", func(s *c15RJScen) { s.JoinRules = "Restricted" }},
		{"join_rule twice: public then restricted", func(s *c15RJScen) { s.JoinRules = "dup_public_then_restricted" }},
		{"join_rule twice: restricted then public", func(s *c15RJScen) { s.JoinRules = "dup_restricted_then_public" }},
		{"pending err", func(s *c15RJScen) { s.Pending = "err" }},
		{"pending yes", func(s *c15RJScen) { s.Pending = "yes" }},
		{"power err", func(s *c15RJScen) { s.Power = "err" }},
		{"power nil", func(s *c15RJScen) { s.Power = "nil" }},
		{"power bad", func(s *c15RJScen) { s.Power = "bad" }},
		{"create err", func(s *c15RJScen) { s.Create = "err" }},
		{"create nil", func(s *c15RJScen) { s.Create = "nil" }},
		{"no allow rules", func(s *c15RJScen) { s.Allow = nil }},
		{"rule other type", rule0(func(r *c15RuleScen) { r.Type = "m.other" })},
		{"rule bad room id", rule0(func(r *c15RuleScen) { r.Room = "notaroom" })},
		{"rule info err", rule0(func(r *c15RuleScen) { r.Info = "err" })},
		{"rule info nil", rule0(func(r *c15RuleScen) { r.Info = "nil" })},
		{"rule not resident", rule0(func(r *c15RuleScen) { r.Local = false })},
		{"rule joiner absent", rule0(func(r *c15RuleScen) { r.Joined = false })},
		{"rule no users", rule0(func(r *c15RuleScen) { r.Users = nil })},
		{"rule user not a member event", rule0(func(r *c15RuleScen) {
			if len(r.Users) > 0 {
				r.Users[0].Type = "m.room.message"
			}
		})},
		{"rule user without state key", rule0(func(r *c15RuleScen) {
			if len(r.Users) > 0 {
				r.Users[0].NoKey = true
			}
		})},
		{"user level one below invite", func(s *c15RJScen) { s.Users["@auth:local"] = s.Invite - 1 }},
		{"user level one above invite", func(s *c15RJScen) { s.Users["@auth:local"] = s.Invite + 1 }},
		{"user level by default, below", func(s *c15RJScen) { delete(s.Users, "@auth:local"); s.UsersDefault = s.Invite - 1 }},
		{"user level by default, equal", func(s *c15RJScen) { delete(s.Users, "@auth:local"); s.UsersDefault = s.Invite }},
		{"invite level 0", func(s *c15RJScen) { s.Invite = 0 }},
		{"invite level negative", func(s *c15RJScen) { s.Invite = -5 }},
		{"invite level 100", func(s *c15RJScen) { s.Invite = 100 }},
		{"allowed rooms: nobody may invite there", func(s *c15RJScen) { s.AllowedWeak = true }},
		{"candidate weak here (strong in the allowed room)", func(s *c15RJScen) { s.Users["@auth:local"] = 0 }},
		{"first user weak, second strong", rule0(func(r *c15RuleScen) {
			r.Users = []c15MemberScen{{Type: "m.room.member", Key: "@weak:local"}, {Type: "m.room.member", Key: "@auth:local"}}
		})},
		{"only weak users", rule0(func(r *c15RuleScen) {
			r.Users = []c15MemberScen{{Type: "m.room.member", Key: "@weak:local"}, {Type: "m.room.member", Key: "@weaker:local"}}
		})},
		{"weak user is the creator", rule0(func(r *c15RuleScen) {
			r.Users = []c15MemberScen{{Type: "m.room.member", Key: "@creator:local"}}
		})},
		{"creator without level", func(s *c15RJScen) {
			delete(s.Users, "@creator:local")
			if len(s.Allow) > 0 {
				s.Allow[0].Users = []c15MemberScen{{Type: "m.room.member", Key: "@creator:local"}}
			}
		}},
		{"additional creator without level", func(s *c15RJScen) {
			s.ExtraCreators = []string{"@second:local"}
			if len(s.Allow) > 0 {
				s.Allow[0].Users = []c15MemberScen{{Type: "m.room.member", Key: "@second:local"}}
			}
		}},
		{"second rule good, first not resident", func(s *c15RJScen) {
			bad := c15GoodRule(0)
			bad.Local = false
			s.Allow = []c15RuleScen{bad, c15GoodRule(1)}
		}},
		{"first rule joiner absent, second not resident", func(s *c15RJScen) {
			a, b := c15GoodRule(0), c15GoodRule(1)
			a.Joined = false
			b.Local = false
			s.Allow = []c15RuleScen{a, b}
		}},
		{"two rules, joiner in neither", func(s *c15RJScen) {
			a, b := c15GoodRule(0), c15GoodRule(1)
			a.Joined = false
			b.Joined = false
			s.Allow = []c15RuleScen{a, b}
		}},
		{"three rules, last good", func(s *c15RJScen) {
			a, b := c15GoodRule(0), c15GoodRule(1)
			a.Type = "m.other"
			b.Info = "err"
			s.Allow = []c15RuleScen{a, b, c15GoodRule(2)}
		}},
	}
}

var c15AllVersions = []string{"1", "2", "3", "4", "5", "6", "7", "8", "9", "10", "11", "12", "org.matrix.msc3667", "org.matrix.msc3787", "org.matrix.msc4014", "org.matrix.hydra.11"}

func c15KnownVersions() []string {
	var l []string
	for _, v := range c15AllVersions {
		if _, err := gmsl.GetRoomVersion(gmsl.RoomVersion(v)); err == nil {
			l = append(l, v)
		}
	}
	return l
}

func genC15RestrictedJoin(c *Ctx) {
	muts := c15RJMuts()
	vers := c15KnownVersions()
	for _, v := range vers {
		for _, m := range muts {
			s := c15RJOnly{Ver: v, RJ: c15GoodRJ()}
			m.f(&s.RJ)
			c.Run("C15.restricted_join", [][]byte{c15JSON(s)}, "C15.restricted_join", "C15.prop.restricted_join", "restricted_join v"+v+" "+m.name)
			c.Count("restricted_join/single/" + m.name)
		}
	}
	for _, v := range []string{"8", "10", "12"} {
		if _, err := gmsl.GetRoomVersion(gmsl.RoomVersion(v)); err != nil {
			continue
		}
		for i := 1; i < len(muts); i++ {
			for j := i + 1; j < len(muts); j++ {
				if !c.Thorough() && c.Rng.Intn(4) != 0 {
					continue
				}
				s := c15RJOnly{Ver: v, RJ: c15GoodRJ()}
				muts[i].f(&s.RJ)
				muts[j].f(&s.RJ)
				c.Run("C15.restricted_join", [][]byte{c15JSON(s)}, "C15.restricted_join", "C15.prop.restricted_join", "restricted_join v"+v+" "+muts[i].name+" + "+muts[j].name)
				c.Count("restricted_join/pair")
			}
		}
	}
	// random rule lists and level tables
	n := c.Scale(300, 5000)
	users := []string{"@auth:local", "@weak:local", "@creator:local", "@second:local", "@other:local"}
	for k := 0; k < n; k++ {
		s := c15RJOnly{Ver: []string{"8", "9", "10", "11", "12", "org.matrix.msc3787"}[c.Rng.Intn(6)], RJ: c15GoodRJ()}
		if _, err := gmsl.GetRoomVersion(gmsl.RoomVersion(s.Ver)); err != nil {
			s.Ver = "10"
		}
		s.RJ.Invite = int64(c.Rng.Intn(5)) * 25
		s.RJ.UsersDefault = int64(c.Rng.Intn(3)) * 25
		s.RJ.Users = map[string]int64{}
		for _, u := range users {
			if c.Rng.Intn(2) == 0 {
				s.RJ.Users[u] = int64(c.Rng.Intn(5))*25 + int64(c.Rng.Intn(3)) - 1
			}
		}
		if c.Rng.Intn(3) == 0 {
			s.RJ.ExtraCreators = []string{"@second:local"}
		}
		s.RJ.Allow = nil
		for i, nr := 0, c.Rng.Intn(4); i < nr; i++ {
			r := c15GoodRule(i)
			switch c.Rng.Intn(8) {
			case 0:
				r.Type = "m.other"
			case 1:
				r.Room = "bad room"
			case 2:
				r.Info = []string{"err", "nil"}[c.Rng.Intn(2)]
			case 3:
				r.Local = false
			case 4:
				r.Joined = false
			}
			r.Users = nil
			for j, nu := 0, c.Rng.Intn(4); j < nu; j++ {
				m := c15MemberScen{Type: "m.room.member", Key: users[c.Rng.Intn(len(users))]}
				switch c.Rng.Intn(10) {
				case 0:
					m.Type = "m.room.message"
				case 1:
					m.NoKey = true
				}
				r.Users = append(r.Users, m)
			}
			s.RJ.Allow = append(s.RJ.Allow, r)
		}
		if c.Rng.Intn(6) == 0 {
			m := muts[c.Rng.Intn(16)]
			m.f(&s.RJ)
		}
		c.Run("C15.restricted_join", [][]byte{c15JSON(s)}, "C15.restricted_join", "C15.prop.restricted_join", "restricted_join random v"+s.Ver)
		c.Count("restricted_join/random")
	}
}

func c15AuthRulesUsable(v string) (ok bool) {
	defer func() {
		if recover() != nil {
			ok = false
		}
	}()
	_ = gmsl.MustGetRoomVersion(gmsl.RoomVersion(v)).CheckRestrictedJoinsAllowed()
	return true
}

func genC15Make(c *Ctx) {
	goodJoin := func() c15MJScen {
		return c15MJScen{Ver: "10", Remote: []string{"9", "10"}, UserDomain: "remote", Origin: "remote", InRoom: true, RJ: c15GoodRJ(), Build: "ok", Room: "restricted"}
	}
	type mut struct {
		name string
		f    func(*c15MJScen)
	}
	muts := []mut{
		{"good", func(s *c15MJScen) {}},
		{"remote lacks version", func(s *c15MJScen) { s.Remote = []string{"1", "2", "bogus"} }},
		{"remote lists nothing", func(s *c15MJScen) { s.Remote = nil }},
		{"remote lists version last", func(s *c15MJScen) { s.Remote = []string{"1", "6", s.Ver} }},
		{"remote lists a prefix of the version", func(s *c15MJScen) { s.Remote = []string{s.Ver + "0", "x" + s.Ver} }},
		{"user of other server", func(s *c15MJScen) { s.UserDomain = "other" }},
		{"origin other", func(s *c15MJScen) { s.Origin = "other" }},
		{"user and origin other", func(s *c15MJScen) { s.UserDomain = "other"; s.Origin = "other" }},
		{"origin is local", func(s *c15MJScen) { s.Origin = "local" }},
		{"not in room", func(s *c15MJScen) { s.InRoom = false }},
		{"build err", func(s *c15MJScen) { s.Build = "err" }},
		{"build nil event", func(s *c15MJScen) { s.Build = "nil_event" }},
		{"build nil state", func(s *c15MJScen) { s.Build = "nil_state" }},
		{"build wrong type", func(s *c15MJScen) { s.Build = "wrong_type" }},
		{"build non-state event in state", func(s *c15MJScen) { s.Build = "nonstate_in_state" }},
		{"room public", func(s *c15MJScen) { s.Room = "public" }},
		{"room invite only", func(s *c15MJScen) { s.Room = "invite_only" }},
		{"room invited", func(s *c15MJScen) { s.Room = "invited" }},
		{"room banned", func(s *c15MJScen) { s.Room = "banned" }},
		{"room joined", func(s *c15MJScen) { s.Room = "joined" }},
		{"room left", func(s *c15MJScen) { s.Room = "left" }},
	}
	for _, m := range c15RJMuts()[1:] {
		m := m
		muts = append(muts, mut{"rj " + m.name, func(s *c15MJScen) { m.f(&s.RJ) }})
	}
	vers := []string{"1", "2", "5", "7", "8", "9", "10", "11", "org.matrix.msc3667", "org.matrix.msc3787"}
	for _, leave := range []bool{false, true} {
		impl := "C15.make_join"
		if leave {
			impl = "C15.make_leave"
		}
		for _, v := range vers {
			if _, err := gmsl.GetRoomVersion(gmsl.RoomVersion(v)); err != nil {
				continue
			}
			if !c15AuthRulesUsable(v) {
				// finding F10 (property C18): the version's table entry lacks a function the auth
				// rules call; Allowed panics for every member event. Exercised again once repaired.
				c.Count("make/skipped-version-with-nil-auth-function/" + v)
				continue
			}
			for _, m := range muts {
				if leave && strings.HasPrefix(m.name, "rj ") {
					continue
				}
				s := goodJoin()
				s.Ver = v
				s.Remote = []string{"9", v}
				s.Leave = leave
				if leave {
					s.Room = "joined"
				} else if gmsl.MustGetRoomVersion(gmsl.RoomVersion(v)).CheckRestrictedJoinsAllowed() != nil {
					s.Room = "public" // no restricted join rule in this version
				}
				m.f(&s)
				c.c15Run(impl, s, impl+" v"+v+" "+m.name)
				c.Count(impl + "/single")
			}
		}
		for _, v := range []string{"10", "1", "6"} {
			for i := 1; i < len(muts); i++ {
				for j := i + 1; j < len(muts); j++ {
					if leave && (strings.HasPrefix(muts[i].name, "rj ") || strings.HasPrefix(muts[j].name, "rj ")) {
						continue
					}
					if !c.Thorough() && c.Rng.Intn(8) != 0 {
						continue
					}
					s := goodJoin()
					s.Ver = v
					s.Remote = []string{"9", v}
					s.Leave = leave
					if leave {
						s.Room = "joined"
					} else if gmsl.MustGetRoomVersion(gmsl.RoomVersion(v)).CheckRestrictedJoinsAllowed() != nil {
						s.Room = "public"
					}
					muts[i].f(&s)
					muts[j].f(&s)
					c.c15Run(impl, s, impl+" v"+v+" "+muts[i].name+" + "+muts[j].name)
					c.Count(impl + "/pair")
				}
			}
		}
	}
}
