package main

// C15: PerformJoin against a scripted federation client (see c15.go for the conventions).

import (
	"context"
	"encoding/json"
	"fmt"
	"strings"

	gmsl "github.com/matrix-org/gomatrixserverlib"
	"github.com/matrix-org/gomatrixserverlib/spec"
)

type c15PJScen struct {
	UserNil    bool   `json:"user_nil"`
	RoomNil    bool   `json:"room_nil"`
	KeyRingNil bool   `json:"keyring_nil"`
	MakeJoin   string `json:"make_join"`  // ok | err
	RespVer    string `json:"resp_ver"`   // room version in the make_join answer ("" = absent)
	AuthShape  string `json:"auth_shape"` // strings | refs | empty | nil  (auth_events of the template)
	RoomVer    string `json:"room_ver"`   // version the remote's events are really built with
	SendJoin   string `json:"send_join"`  // ok | err
	Remote     string `json:"remote"`     // none | good | garbage | leave | other_room | other_state_key | topic
	Auth       string `json:"auth"`       // good | no_create | create_unknown_version | create_bad_content | create_state_key | create_no_version | empty | unparsable_create | decoy_then_good | unknown_then_good
	Template    string `json:"template"`     // "" | content_null | prev_empty_pair | prev_number_pair | prev_empty_string | auth_empty_pair | prev_mixed
	OddTemplate bool  `json:"odd_template"` // make_join template of another type / room / user / membership
	StateFault string `json:"state_fault"` // none | bad_sig | unauthorised_event | invite_only | missing_auth_event
}

type c15KeyDB struct{}

func (c15KeyDB) FetcherName() string { return "c15KeyDB" }
func (c15KeyDB) FetchKeys(ctx context.Context, reqs map[gmsl.PublicKeyLookupRequest]spec.Timestamp) (map[gmsl.PublicKeyLookupRequest]gmsl.PublicKeyLookupResult, error) {
	res := map[gmsl.PublicKeyLookupRequest]gmsl.PublicKeyLookupResult{}
	for r := range reqs {
		if r.KeyID != c15KeyID {
			continue
		}
		if pk, ok := c15Keys()[string(r.ServerName)]; ok {
			res[r] = gmsl.PublicKeyLookupResult{VerifyKey: gmsl.VerifyKey{Key: spec.Base64Bytes(pk)},
				ValidUntilTS: spec.AsTimestamp(c15Time.AddDate(10, 0, 0)), ExpiredTS: gmsl.PublicKeyNotExpired}
		}
	}
	return res, nil
}
func (c15KeyDB) StoreKeys(ctx context.Context, results map[gmsl.PublicKeyLookupRequest]gmsl.PublicKeyLookupResult) error {
	return nil
}

type c15MakeJoinResp struct {
	ver   gmsl.RoomVersion
	proto gmsl.ProtoEvent
}

func (r *c15MakeJoinResp) GetJoinEvent() gmsl.ProtoEvent    { return r.proto }
func (r *c15MakeJoinResp) GetRoomVersion() gmsl.RoomVersion { return r.ver }

type c15SendJoinResp struct {
	auth, state gmsl.EventJSONs
	event       spec.RawJSON
}

func (r *c15SendJoinResp) GetAuthEvents() gmsl.EventJSONs  { return r.auth }
func (r *c15SendJoinResp) GetStateEvents() gmsl.EventJSONs { return r.state }
func (r *c15SendJoinResp) GetOrigin() spec.ServerName      { return "remote" }
func (r *c15SendJoinResp) GetJoinEvent() spec.RawJSON      { return r.event }
func (r *c15SendJoinResp) GetMembersOmitted() bool         { return false }
func (r *c15SendJoinResp) GetServersInRoom() []string      { return []string{"remote"} }

type c15FedClient struct {
	s        c15PJScen
	makeResp *c15MakeJoinResp
	sendResp *c15SendJoinResp
	sent     gmsl.PDU
	log      *c15Log
}

func (f *c15FedClient) MakeJoin(ctx context.Context, origin, s spec.ServerName, roomID, userID string) (gmsl.MakeJoinResponse, error) {
	f.log.add("make_join", string(origin), string(s), roomID, userID)
	if f.s.MakeJoin == "err" {
		return nil, errC15Querier
	}
	return f.makeResp, nil
}

func (f *c15FedClient) SendJoin(ctx context.Context, origin, s spec.ServerName, event gmsl.PDU) (gmsl.SendJoinResponse, error) {
	m, _ := event.Membership()
	sk := "<nil>"
	if event.StateKey() != nil {
		sk = *event.StateKey()
	}
	f.log.add("send_join", string(origin), string(s), event.Type(), event.RoomID().String(), string(event.SenderID()), sk, m, string(event.Version()))
	f.sent = event
	if f.s.SendJoin == "err" {
		return nil, errC15Querier
	}
	if f.s.Remote == "echo" || f.s.Remote == "echo_unsigned" {
		// what a resident server does: the event it was sent, with its own signature added
		// (a copy: Sign writes into its receiver)
		if cp, err := gmsl.MustGetRoomVersion(event.Version()).NewEventFromTrustedJSON(append([]byte{}, event.JSON()...), false); err == nil {
			if f.s.Remote == "echo" {
				_, rsk := c15Key("remote")
				cp = cp.Sign("remote", c15KeyID, rsk)
			}
			f.sendResp.event = cp.JSON()
		}
	}
	return f.sendResp, nil
}

// the remote room: events signed by server "remote"
type c15RemoteRoom struct {
	ver   gmsl.RoomVersion
	state []gmsl.PDU
	last  string
}

func (r *c15RemoteRoom) add(proto gmsl.ProtoEvent, auth ...gmsl.PDU) gmsl.PDU {
	proto.RoomID = c15ReqRoom
	proto.Depth = int64(len(r.state) + 1)
	if r.last != "" {
		proto.PrevEvents = []string{r.last}
	}
	ids := []string{}
	for _, a := range auth {
		ids = append(ids, a.EventID())
	}
	proto.AuthEvents = ids
	ev := c15Build(r.ver, proto, "remote", "remote")
	r.state = append(r.state, ev)
	r.last = ev.EventID()
	return ev
}

func c15PerformJoin(args [][]byte) ([][]byte, []byte) {
	var s c15PJScen
	if err := json.Unmarshal(args[0], &s); err != nil {
		panic(err)
	}
	roomVer := gmsl.RoomVersion(s.RoomVer)
	empty := ""
	creator := "@creator:remote"
	user := "@user:local"
	room := &c15RemoteRoom{ver: roomVer}
	createContent := c15Obj{"creator": creator, "room_version": s.RoomVer}
	switch s.Auth {
	case "create_unknown_version", "other_room_create_then_unknown":
		createContent["room_version"] = "9999"
	case "create_no_version":
		delete(createContent, "room_version")
	case "create_bad_content":
		createContent["room_version"] = 7
	}
	createKey := &empty
	if s.Auth == "create_state_key" {
		k := "x"
		createKey = &k
	}
	createRaw := c15JSON(createContent)
	switch s.Auth {
	case "create_dup_version_known_last":
		createRaw = []byte(`{"creator":"` + creator + `","room_version":"9999","room_version":"` + s.RoomVer + `"}`)
	case "create_dup_version_unknown_last":
		createRaw = []byte(`{"creator":"` + creator + `","room_version":"` + s.RoomVer + `","room_version":"9999"}`)
	}
	create := room.add(gmsl.ProtoEvent{SenderID: creator, Type: spec.MRoomCreate, StateKey: createKey, Content: createRaw})
	cmember := room.add(gmsl.ProtoEvent{SenderID: creator, Type: spec.MRoomMember, StateKey: &creator, Content: spec.RawJSON(`{"membership":"join"}`)}, create)
	pl := room.add(gmsl.ProtoEvent{SenderID: creator, Type: spec.MRoomPowerLevels, StateKey: &empty,
		Content: c15JSON(c15Obj{"users": c15Obj{creator: 100}, "users_default": 0, "invite": 0, "state_default": 50, "events_default": 0})}, create, cmember)
	rule := "public"
	if s.StateFault == "invite_only" {
		rule = "invite"
	}
	jr := room.add(gmsl.ProtoEvent{SenderID: creator, Type: spec.MRoomJoinRules, StateKey: &empty, Content: c15JSON(c15Obj{"join_rule": rule})}, create, cmember, pl)
	if s.StateFault == "unauthorised_event" {
		stranger := "@stranger:remote"
		room.add(gmsl.ProtoEvent{SenderID: stranger, Type: "m.room.topic", StateKey: &empty, Content: spec.RawJSON(`{"topic":"x"}`)}, create, pl)
	}

	// make_join template
	var authEvents interface{}
	switch s.AuthShape {
	case "strings":
		authEvents = []interface{}{create.EventID(), pl.EventID(), jr.EventID()}
	case "refs":
		authEvents = []interface{}{[]interface{}{create.EventID(), map[string]interface{}{"sha256": "abc"}}}
	case "empty":
		authEvents = []interface{}{}
	}
	prev := []interface{}{room.last}
	if s.AuthShape == "refs" {
		prev = []interface{}{[]interface{}{room.last, map[string]interface{}{"sha256": "abc"}}}
	}
	tmplKey := user
	mk := &c15MakeJoinResp{ver: gmsl.RoomVersion(s.RespVer), proto: gmsl.ProtoEvent{SenderID: user, RoomID: c15ReqRoom, Type: spec.MRoomMember,
		StateKey: &tmplKey, PrevEvents: prev, AuthEvents: authEvents, Depth: int64(len(room.state) + 1), Content: spec.RawJSON(`{"membership":"join"}`)}}
	if s.OddTemplate {
		// a template that is not a join of the user in this room: PerformJoin must put that right
		other := "@someoneelse:remote"
		mk.proto.Type, mk.proto.RoomID, mk.proto.SenderID, mk.proto.StateKey = "m.room.topic", c15OtherRoom, other, &other
		mk.proto.Redacts = "$something"
		mk.proto.Content = spec.RawJSON(`{"membership":"leave","displayname":"kept"}`)
	}

	switch s.Template {
	case "content_null":
		mk.proto.Content = spec.RawJSON(`null`)
	case "prev_empty_pair":
		mk.proto.PrevEvents = []interface{}{[]interface{}{}}
	case "prev_number_pair":
		mk.proto.PrevEvents = []interface{}{[]interface{}{float64(5)}}
	case "prev_empty_string":
		mk.proto.PrevEvents = []interface{}{""}
	case "auth_empty_pair":
		mk.proto.AuthEvents = []interface{}{[]interface{}{}, []interface{}{create.EventID(), map[string]interface{}{"sha256": "abc"}}}
	case "prev_mixed":
		mk.proto.PrevEvents = []interface{}{[]interface{}{float64(5)}, "", []interface{}{}, []interface{}{room.last, map[string]interface{}{"sha256": "abc"}}}
	}

	// send_join answer
	authList := []gmsl.PDU{create, cmember, pl, jr}
	var authJSON gmsl.EventJSONs
	switch s.Auth {
	case "no_create":
		authList = authList[1:]
	case "empty":
		authList = nil
	}
	for _, e := range authList {
		authJSON = append(authJSON, e.JSON())
	}
	switch s.Auth {
	case "unparsable_create":
		authJSON[0] = []byte(`{"type":"m.room.create","state_key":"","content":{"room_version":"10"}}`)
	case "decoy_then_good":
		k := "decoy"
		decoy := c15Build(roomVer, gmsl.ProtoEvent{SenderID: creator, RoomID: c15ReqRoom, Type: spec.MRoomCreate, StateKey: &k, Depth: 1,
			Content: spec.RawJSON(`{"room_version":"9999"}`)}, "remote", "remote")
		authJSON = append(gmsl.EventJSONs{decoy.JSON()}, authJSON...)
	case "other_room_create_then_good", "other_room_create_then_unknown", "other_room_create_only":
		// a create event of ANOTHER room (of a known version) in front of the auth chain
		other := c15Build(roomVer, gmsl.ProtoEvent{SenderID: creator, RoomID: c15OtherRoom, Type: spec.MRoomCreate, StateKey: &empty, Depth: 1,
			Content: c15JSON(c15Obj{"creator": creator, "room_version": s.RoomVer})}, "remote", "remote")
		if s.Auth == "other_room_create_only" {
			authJSON = append(gmsl.EventJSONs{other.JSON()}, authJSON[1:]...)
		} else {
			authJSON = append(gmsl.EventJSONs{other.JSON()}, authJSON...)
		}
	case "unknown_then_good":
		first := c15Build(roomVer, gmsl.ProtoEvent{SenderID: creator, RoomID: c15ReqRoom, Type: spec.MRoomCreate, StateKey: &empty, Depth: 1,
			Content: spec.RawJSON(`{"room_version":"9999"}`)}, "remote", "remote")
		authJSON = append(gmsl.EventJSONs{first.JSON()}, authJSON...)
	}
	var stateJSON gmsl.EventJSONs
	for i, e := range room.state {
		j := append([]byte{}, e.JSON()...)
		if s.StateFault == "bad_sig" && i == 2 {
			o, _ := c15Decode(j)
			o["signatures"] = c15Obj{"remote": c15Obj{string(c15KeyID): "AAAAAAAAAAAAAAAAAAAAAAAAAAAAAAAAAAAAAAAAAAAAAAAAAAAAAAAAAAAAAAAAAAAAAAAAAAAAAAAAAAAAAA"}}
			j, _ = gmsl.CanonicalJSON(c15JSON(o))
		}
		stateJSON = append(stateJSON, j)
	}
	if s.StateFault == "missing_auth_event" {
		// the auth chain lacks the power levels the join rules refer to
		var a gmsl.EventJSONs
		for _, e := range authList {
			if e.EventID() != pl.EventID() {
				a = append(a, e.JSON())
			}
		}
		authJSON = a
	}
	sj := &c15SendJoinResp{auth: authJSON, state: stateJSON}
	var remoteEv gmsl.PDU
	mkRemote := func(f func(p *gmsl.ProtoEvent)) {
		k := user
		p := gmsl.ProtoEvent{SenderID: user, RoomID: c15ReqRoom, Type: spec.MRoomMember, StateKey: &k, Depth: int64(len(room.state) + 1),
			PrevEvents: []string{room.last}, AuthEvents: []string{create.EventID(), pl.EventID(), jr.EventID()}, Content: spec.RawJSON(`{"membership":"join","displayname":"remote copy"}`)}
		f(&p)
		remoteEv = c15Build(roomVer, p, "local", "local")
		_, rsk := c15Key("remote")
		remoteEv = remoteEv.Sign("remote", c15KeyID, rsk)
		sj.event = remoteEv.JSON()
	}
	switch s.Remote {
	case "good":
		mkRemote(func(p *gmsl.ProtoEvent) {})
	case "dup_membership_join_last":
		// repeated member: the stored reading (last occurrence) says join
		mkRemote(func(p *gmsl.ProtoEvent) { p.Content = spec.RawJSON(`{"membership":"leave","membership":"join"}`) })
	case "dup_membership_leave_last":
		mkRemote(func(p *gmsl.ProtoEvent) { p.Content = spec.RawJSON(`{"membership":"join","membership":"leave"}`) })
	case "unauthorised_join":
		// a well-formed join of the user in the room that its own auth events do not allow
		mkRemote(func(p *gmsl.ProtoEvent) { p.AuthEvents = []string{} })
	case "join_by_banned_state":
		// a well-formed join whose auth events lack the join rules and power levels
		mkRemote(func(p *gmsl.ProtoEvent) { p.AuthEvents = []string{cmember.EventID()} })
	case "leave":
		mkRemote(func(p *gmsl.ProtoEvent) { p.Content = spec.RawJSON(`{"membership":"leave"}`) })
	case "other_room":
		mkRemote(func(p *gmsl.ProtoEvent) { p.RoomID = c15OtherRoom })
	case "other_state_key":
		mkRemote(func(p *gmsl.ProtoEvent) { k := "@someoneelse:local"; p.StateKey = &k })
	case "topic":
		mkRemote(func(p *gmsl.ProtoEvent) { p.Type = "m.room.topic"; p.StateKey = &empty; p.Content = spec.RawJSON(`{"topic":"x"}`) })
	case "garbage":
		sj.event = spec.RawJSON(`{"type":"m.room.member"`)
	}

	log := &c15Log{}
	fc := &c15FedClient{s: s, makeResp: mk, sendResp: sj, log: log}
	uid, _ := spec.NewUserID(user, true)
	rid, _ := spec.NewRoomID(c15ReqRoom)
	keyRing := &gmsl.KeyRing{KeyFetchers: []gmsl.KeyFetcher{}, KeyDatabase: c15KeyDB{}}
	_, lsk := c15Key("local")
	provider := func(roomVer gmsl.RoomVersion, eventIDs []string) ([]gmsl.PDU, error) { return nil, nil }
	uq := func(roomID spec.RoomID, senderID spec.SenderID) (*spec.UserID, error) {
		return spec.NewUserID(string(senderID), true)
	}
	in := gmsl.PerformJoinInput{UserID: uid, RoomID: rid, ServerName: "remote", PrivateKey: lsk, KeyID: c15KeyID, KeyRing: keyRing,
		EventProvider: provider, UserIDQuerier: uq}
	if s.UserNil {
		in.UserID = nil
	}
	if s.RoomNil {
		in.RoomID = nil
	}
	if s.KeyRingNil {
		in.KeyRing = nil
	}
	res, ferr := gmsl.PerformJoin(context.Background(), fc, in)

	// ----- the record -----
	effVer := gmsl.RoomVersion(s.RespVer)
	if effVer == "" {
		effVer = gmsl.RoomVersionV1
		if c15FirstIsString(mk.proto.AuthEvents) {
			effVer = gmsl.RoomVersionV4
		}
	}
	_, verErr := gmsl.GetRoomVersion(effVer)
	cfg := c15Obj{"user_nil": s.UserNil, "room_nil": s.RoomNil, "keyring_nil": s.KeyRingNil, "make_join_ok": s.MakeJoin != "err",
		"resp_version": s.RespVer, "auth_first_is_string": c15FirstIsString(mk.proto.AuthEvents), "room": c15ReqRoom, "user": user,
		"origin": "local", "server": "remote",
		"sender_id": c15Val(user), "mapping_sign_ok": true, "send_join_ok": s.SendJoin != "err", "store_ok": true}
	// Build succeeds? ask the same builder
	buildOK := false
	var own gmsl.PDU
	if verErr == nil {
		func() {
			defer func() { _ = recover() }()
			p := mk.proto
			k := user
			p.StateKey = &k
			eb := gmsl.MustGetRoomVersion(effVer).NewEventBuilderFromProtoEvent(&p)
			_ = eb.SetContent(map[string]interface{}{"membership": "join"})
			_ = eb.SetUnsigned(struct{}{})
			ev, err := eb.Build(c15Time, "local", c15KeyID, lsk)
			if err == nil {
				buildOK = true
				own = ev
			}
		}()
	}
	cfg["build_ok"] = buildOK
	if len(sj.event) > 0 {
		r := c15Obj{"parse_ok": false, "membership": "err", "room_id": "", "state_key": nil, "same_event": false}
		if verErr == nil {
			if ev, err := gmsl.MustGetRoomVersion(effVer).NewEventFromUntrustedJSON(sj.event); err == nil {
				r["parse_ok"] = true
				if m, merr := ev.Membership(); merr == nil {
					r["membership"] = c15Val(m)
				}
				r["room_id"] = ev.RoomID().String()
				r["state_key"] = c15StrPtr(ev.StateKey())
				// is it the event PerformJoin sent?
				r["same_event"] = fc.sent != nil && ev.EventID() == fc.sent.EventID()
			}
		}
		cfg["remote"] = r
	}
	auths := []c15Obj{}
	if verErr == nil {
		for _, ev := range sj.auth.UntrustedEvents(effVer) {
			var body struct {
				Version string `json:"room_version"`
			}
			uerr := json.Unmarshal(ev.Content(), &body)
			auths = append(auths, c15Obj{"type": ev.Type(), "state_key": c15StrPtr(ev.StateKey()), "content_ok": uerr == nil, "room_version": body.Version,
				"room_ok": ev.RoomID().String() == c15ReqRoom})
		}
	}
	cfg["auth_events"] = auths
	// verdicts of the federation-response checks (property C14) on the very response, for each of
	// the two candidate join events, independently of which one PerformJoin handed back
	checkWith := func(joinEv gmsl.PDU) (ok bool) {
		if verErr != nil || joinEv == nil {
			return false
		}
		defer func() {
			if recover() != nil {
				ok = false
			}
		}()
		_, cerr := gmsl.CheckSendJoinResponse(context.Background(), effVer, gmsl.StateResponse(sj), keyRing, joinEv, provider, uq)
		return cerr == nil
	}
	ownEv := fc.sent
	if ownEv == nil {
		ownEv = own
	}
	cfg["check_own"] = checkWith(ownEv)
	cfg["check_remote"] = false
	if verErr == nil && len(sj.event) > 0 {
		if ev, err := gmsl.MustGetRoomVersion(effVer).NewEventFromUntrustedJSON(sj.event); err == nil {
			cfg["check_remote"] = checkWith(ev)
		}
	}

	var out string
	if ferr != nil {
		out = fmt.Sprintf("error transient=%s reachable=%s", c15Bit(ferr.Transient), c15Bit(ferr.Reachable))
	} else if res == nil || res.JoinEvent == nil {
		out = "joined without an event"
	} else {
		// did the remote's copy come back? (read off the response, whoever built that copy)
		used := false
		if len(sj.event) > 0 && verErr == nil {
			if rc, rerr := gmsl.MustGetRoomVersion(effVer).NewEventFromUntrustedJSON(sj.event); rerr == nil {
				used = res.JoinEvent.EventID() == rc.EventID() && string(res.JoinEvent.JSON()) == string(rc.JSON())
			}
		}
		out = "joined remote_event_used=" + c15Bit(used)
		// the join that comes back is a join of this user in this room
		m, _ := res.JoinEvent.Membership()
		if res.JoinEvent.Type() != spec.MRoomMember || m != spec.Join || res.JoinEvent.RoomID().String() != c15ReqRoom || !res.JoinEvent.StateKeyEquals(user) {
			out += " NOT-A-JOIN-OF-THE-USER"
		}
	}
	return [][]byte{args[0], c15JSON(cfg)}, []byte(out + "\n" + log.String())
}

// the template's auth_events is a non-empty list whose first entry is a string
func c15FirstIsString(v interface{}) bool {
	l, ok := v.([]interface{})
	if !ok || len(l) == 0 {
		return false
	}
	_, ok = l[0].(string)
	return ok
}

func c15Bit(b bool) string {
	if b {
		return "1"
	}
	return "0"
}

func init() {
	RegisterImpl("C15.perform_join", c15PerformJoin)
}

func genC15Perform(c *Ctx) {
	good := func() c15PJScen {
		return c15PJScen{MakeJoin: "ok", RespVer: "10", AuthShape: "strings", RoomVer: "10", SendJoin: "ok", Remote: "echo", Auth: "good", StateFault: "none"}
	}
	type mut struct {
		name string
		f    func(*c15PJScen)
	}
	muts := []mut{
		{"good", func(s *c15PJScen) {}},
		{"user nil", func(s *c15PJScen) { s.UserNil = true }},
		{"room nil", func(s *c15PJScen) { s.RoomNil = true }},
		{"keyring nil", func(s *c15PJScen) { s.KeyRingNil = true }},
		{"make_join fails", func(s *c15PJScen) { s.MakeJoin = "err" }},
		{"version unknown", func(s *c15PJScen) { s.RespVer = "9999" }},
		{"version absent, string auth events", func(s *c15PJScen) { s.RespVer = ""; s.RoomVer = "4" }},
		{"version absent, reference auth events", func(s *c15PJScen) { s.RespVer = ""; s.RoomVer = "1"; s.AuthShape = "refs" }},
		{"version absent, empty auth events", func(s *c15PJScen) { s.RespVer = ""; s.RoomVer = "1"; s.AuthShape = "empty" }},
		{"version absent, no auth events", func(s *c15PJScen) { s.RespVer = ""; s.RoomVer = "1"; s.AuthShape = "nil" }},
		{"claimed version differs from the room's", func(s *c15PJScen) { s.RespVer = "9" }},
		{"send_join fails", func(s *c15PJScen) { s.SendJoin = "err" }},
		{"odd template", func(s *c15PJScen) { s.OddTemplate = true }},
		{"template content null", func(s *c15PJScen) { s.Template = "content_null" }},
		{"template prev_events [[]]", func(s *c15PJScen) { s.Template = "prev_empty_pair" }},
		{"template prev_events [[5]]", func(s *c15PJScen) { s.Template = "prev_number_pair" }},
		{"template prev_events [\"\"]", func(s *c15PJScen) { s.Template = "prev_empty_string" }},
		{"template auth_events [[], ref]", func(s *c15PJScen) { s.Template = "auth_empty_pair" }},
		{"template prev_events mixed", func(s *c15PJScen) { s.Template = "prev_mixed" }},
		{"remote event membership twice, join last", func(s *c15PJScen) { s.Remote = "dup_membership_join_last" }},
		{"remote event membership twice, leave last", func(s *c15PJScen) { s.Remote = "dup_membership_leave_last" }},
		{"create room_version twice, known last", func(s *c15PJScen) { s.Auth = "create_dup_version_known_last" }},
		{"create room_version twice, unknown last", func(s *c15PJScen) { s.Auth = "create_dup_version_unknown_last" }},
		{"remote event a join its auth events do not allow", func(s *c15PJScen) { s.Remote = "unauthorised_join" }},
		{"remote event a join without rules in its auth events", func(s *c15PJScen) { s.Remote = "join_by_banned_state" }},
		{"remote answers with another join of the user", func(s *c15PJScen) { s.Remote = "good" }},
		{"remote echoes the event without signing", func(s *c15PJScen) { s.Remote = "echo_unsigned" }},
		{"create of another room first, then the room's", func(s *c15PJScen) { s.Auth = "other_room_create_then_good" }},
		{"create of another room first, the room's of unknown version", func(s *c15PJScen) { s.Auth = "other_room_create_then_unknown" }},
		{"create of another room only", func(s *c15PJScen) { s.Auth = "other_room_create_only" }},
		{"no remote event", func(s *c15PJScen) { s.Remote = "none" }},
		{"remote event garbage", func(s *c15PJScen) { s.Remote = "garbage" }},
		{"remote event a leave", func(s *c15PJScen) { s.Remote = "leave" }},
		{"remote event other room", func(s *c15PJScen) { s.Remote = "other_room" }},
		{"remote event other state key", func(s *c15PJScen) { s.Remote = "other_state_key" }},
		{"remote event a topic", func(s *c15PJScen) { s.Remote = "topic" }},
		{"auth chain without create", func(s *c15PJScen) { s.Auth = "no_create" }},
		{"auth chain empty", func(s *c15PJScen) { s.Auth = "empty" }},
		{"create of unknown version", func(s *c15PJScen) { s.Auth = "create_unknown_version" }},
		{"create with numeric version", func(s *c15PJScen) { s.Auth = "create_bad_content" }},
		{"create with state key", func(s *c15PJScen) { s.Auth = "create_state_key" }},
		{"create without version", func(s *c15PJScen) { s.Auth = "create_no_version" }},
		{"create unparsable", func(s *c15PJScen) { s.Auth = "unparsable_create" }},
		{"decoy create first", func(s *c15PJScen) { s.Auth = "decoy_then_good" }},
		{"unknown-version create first", func(s *c15PJScen) { s.Auth = "unknown_then_good" }},
		{"state with bad signature", func(s *c15PJScen) { s.StateFault = "bad_sig" }},
		{"state with unauthorised event", func(s *c15PJScen) { s.StateFault = "unauthorised_event" }},
		{"room is invite only", func(s *c15PJScen) { s.StateFault = "invite_only" }},
		{"auth chain lacks power levels", func(s *c15PJScen) { s.StateFault = "missing_auth_event" }},
	}
	vers := []string{"1", "2", "4", "6", "10", "11"}
	for _, v := range vers {
		for _, m := range muts {
			s := good()
			s.RespVer, s.RoomVer = v, v
			if v == "1" || v == "2" {
				s.AuthShape = "refs"
			}
			m.f(&s)
			c.c15Run("C15.perform_join", s, "perform_join v"+v+" "+m.name)
			c.Count("perform_join/single")
		}
	}
	for _, v := range []string{"10", "1"} {
		for i := 1; i < len(muts); i++ {
			for j := i + 1; j < len(muts); j++ {
				if !c.Thorough() && c.Rng.Intn(3) != 0 {
					continue
				}
				s := good()
				s.RespVer, s.RoomVer = v, v
				if v == "1" {
					s.AuthShape = "refs"
				}
				muts[i].f(&s)
				muts[j].f(&s)
				c.c15Run("C15.perform_join", s, "perform_join v"+v+" "+muts[i].name+" + "+muts[j].name)
				c.Count("perform_join/pair")
			}
		}
	}
	_ = strings.Join
}
