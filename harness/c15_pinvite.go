package main

// C15: PerformInvite for the room versions with user-ID senders (see c15.go for the conventions).

import (
	"context"
	"crypto/ed25519"
	"encoding/base64"
	"encoding/json"
	"fmt"
	"strings"

	gmsl "github.com/matrix-org/gomatrixserverlib"
	"github.com/matrix-org/gomatrixserverlib/spec"
)

type c15PIScen struct {
	Ver           string `json:"ver"`
	TargetLocal   bool   `json:"target_local"`
	InviteeDomain string `json:"invitee_domain"`
	Given         int    `json:"given"`
	Generated     string `json:"generated"`  // err | nil | empty | some
	SenderIDQ     string `json:"sender_id_q"` // ok | nil | err
	MemberQ       string `json:"member_q"`
	Content       string `json:"content"`   // template content ("" = an invite)
	NoStateKey    bool   `json:"no_state_key"`
	EventQ        string `json:"event_q"`   // ok | err | no_room | nonstate
	PrevCount     int    `json:"prev_count"`
	Depth         int64  `json:"depth"`
	AuthQ         string `json:"auth_q"`    // ok | err
	Room          string `json:"room"`      // can_invite | cannot_invite | inviter_absent
	SendInvite    string `json:"send_invite"` // ok (the event sent, signed by the invited server) | err | nil | same_unsigned | other | same_id_other_content
}

type c15PIStateQ struct {
	log      *c15Log
	mode     string
	evs      []gmsl.PDU
	authMode string
	provider gmsl.AuthEventProvider
	seen     gmsl.PDU
}

func (q *c15PIStateQ) GetAuthEvents(ctx context.Context, event gmsl.PDU) (gmsl.AuthEventProvider, error) {
	q.log.add("A")
	q.seen = event
	if q.authMode == "err" {
		return nil, errC15Querier
	}
	return q.provider, nil
}

func (q *c15PIStateQ) GetState(ctx context.Context, roomID spec.RoomID, wanted []gmsl.StateKeyTuple) ([]gmsl.PDU, error) {
	e := []string{"G", roomID.String()}
	for _, t := range wanted {
		e = append(e, t.EventType+t.StateKey)
	}
	q.log.add(e...)
	switch q.mode {
	case "err":
		return nil, errC15Querier
	case "nil":
		return nil, nil
	case "empty":
		return []gmsl.PDU{}, nil
	}
	return q.evs, nil
}

type c15InviteClient struct {
	log    *c15Log
	mode   string
	answer gmsl.PDU
	lpk    ed25519.PublicKey
	ver    gmsl.RoomVersion
	names  []string
	other  gmsl.PDU
	sent   gmsl.PDU
	inviteeDomain string
}

// the names among the given ones under which the event carries a valid signature made with the local key
func c15Signers(ver gmsl.RoomVersion, ev gmsl.PDU, pub ed25519.PublicKey, names []string) []string {
	var out []string
	seen := map[string]bool{}
	for _, n := range names {
		if seen[n] {
			continue
		}
		seen[n] = true
		checked := c15CheckedEvent(ver, ev.JSON(), n, pub)
		o, _ := c15Decode([]byte(checked))
		sigs, _ := o["signatures"].(c15Obj)
		mine, _ := sigs[n].(c15Obj)
		switch v, _ := mine[string(c15KeyID)].(string); v {
		case "<VALID-SIGNATURE>":
			out = append(out, n)
		case "<MISSING-SIGNATURE>":
		default:
			out = append(out, "BAD-SIGNATURE-AS:"+n)
		}
	}
	return out
}

func (f *c15InviteClient) SendInvite(ctx context.Context, event gmsl.PDU, strippedState []gmsl.InviteStrippedState) (gmsl.PDU, error) {
	sk := "<nil>"
	if event.StateKey() != nil {
		sk = *event.StateKey()
	}
	f.log.add(append([]string{"SI", sk}, c15Signers(f.ver, event, f.lpk, f.names)...)...)
	f.sent = event
	switch f.mode {
	case "err":
		return nil, errC15Querier
	case "nil":
		return nil, nil
	case "other":
		// another event altogether: power levels "from" the inviter, signed by the invited server only
		return f.other, nil
	}
	// a copy of the event sent (Sign writes into its receiver)
	cp, err := gmsl.MustGetRoomVersion(event.Version()).NewEventFromTrustedJSON(append([]byte{}, event.JSON()...), false)
	if err != nil {
		return nil, err
	}
	if f.mode == "same_id_other_content" {
		// keeps the event_id member (a plain field in room versions 1 and 2) but says something else
		o, _ := c15Decode(cp.JSON())
		o["content"] = c15Obj{"membership": "invite", "displayname": "words the inviter never wrote"}
		raw, _ := gmsl.CanonicalJSON(c15JSON(o))
		if cp2, perr := gmsl.MustGetRoomVersion(event.Version()).NewEventFromTrustedJSON(raw, false); perr == nil {
			cp = cp2
		}
	}
	if f.mode != "same_unsigned" {
		_, isk := c15Key(f.inviteeDomain)
		cp = cp.Sign(f.inviteeDomain, c15KeyID, isk)
	}
	f.answer = cp
	return cp, nil
}

func (f *c15InviteClient) SendInviteV3(ctx context.Context, event gmsl.ProtoEvent, userID spec.UserID, roomVersion gmsl.RoomVersion, strippedState []gmsl.InviteStrippedState) (gmsl.PDU, error) {
	f.log.add("SI3")
	return nil, errC15Querier
}

func c15PerformInvite(args [][]byte) ([][]byte, []byte) {
	var s c15PIScen
	if err := json.Unmarshal(args[0], &s); err != nil {
		panic(err)
	}
	ver := gmsl.RoomVersion(s.Ver)
	bv := ver
	verImpl, verErr := gmsl.GetRoomVersion(ver)
	if verErr != nil {
		bv = gmsl.RoomVersionV10
	}
	inviter := "@inviter:local"
	invitee := "@invitee:" + s.InviteeDomain
	empty := ""
	// the room as the local server sees it
	room := &c15Room{ver: bv, roomID: c15ReqRoom}
	room.add(gmsl.ProtoEvent{SenderID: inviter, Type: spec.MRoomCreate, StateKey: &empty, Content: c15JSON(c15Obj{"creator": inviter, "room_version": string(bv)})})
	if s.Room != "inviter_absent" {
		room.add(gmsl.ProtoEvent{SenderID: inviter, Type: spec.MRoomMember, StateKey: &inviter, Content: spec.RawJSON(`{"membership":"join"}`)})
	}
	inviteLevel := 0
	if s.Room == "cannot_invite" {
		inviteLevel = 100
	}
	room.add(gmsl.ProtoEvent{SenderID: inviter, Type: spec.MRoomPowerLevels, StateKey: &empty,
		Content: c15JSON(c15Obj{"users": c15Obj{inviter: 50}, "users_default": 0, "invite": inviteLevel, "state_default": 50, "events_default": 0})})
	room.add(gmsl.ProtoEvent{SenderID: inviter, Type: spec.MRoomJoinRules, StateKey: &empty, Content: spec.RawJSON(`{"join_rule":"invite"}`)})
	state := room.state
	if s.EventQ == "nonstate" {
		state = append(append([]gmsl.PDU{}, state...), c15Build(bv, gmsl.ProtoEvent{SenderID: inviter, RoomID: c15ReqRoom, Type: "m.room.message",
			Depth: 9, Content: spec.RawJSON(`{"body":"x"}`)}, "local", "local"))
	}
	var prevIDs []string
	for k := 0; k < s.PrevCount; k++ {
		prevIDs = append(prevIDs, fmt.Sprintf("$prev%02d:local", k))
	}
	if bv != gmsl.RoomVersionV1 && bv != gmsl.RoomVersionV2 {
		for k := range prevIDs {
			prevIDs[k] = "$" + base64.RawURLEncoding.EncodeToString([]byte(fmt.Sprintf("prev-event-number-%02d-padding-bytes", k)))[:43]
		}
	}

	content := `{"membership":"invite"}`
	if s.Content != "" {
		content = s.Content
	}
	tmpl := gmsl.ProtoEvent{SenderID: inviter, RoomID: c15ReqRoom, Type: spec.MRoomMember, StateKey: &invitee, Content: spec.RawJSON(content)}
	if s.NoStateKey {
		tmpl.StateKey = nil
	}

	log := &c15Log{}
	provider, _ := gmsl.NewAuthEvents(room.state)
	stateEvs := c15RoomStateEvents(bv)
	sq := &c15PIStateQ{log: log, mode: s.Generated, evs: stateEvs, authMode: s.AuthQ, provider: provider}
	lpk, lsk := c15Key("local")
	rid, _ := spec.NewRoomID(c15ReqRoom)
	inviterID, _ := spec.NewUserID(inviter, true)
	inviteeID, _ := spec.NewUserID(invitee, true)
	uq := func(roomID spec.RoomID, senderID spec.SenderID) (*spec.UserID, error) {
		return spec.NewUserID(string(senderID), true)
	}
	stripped := func(e gmsl.PDU) interface{} {
		return c15Obj{"content": json.RawMessage(e.Content()), "state_key": c15StrPtr(e.StateKey()), "type": e.Type(), "sender": string(e.SenderID())}
	}
	var given []gmsl.InviteStrippedState
	givenJSON := []interface{}{}
	for i := 0; i < s.Given && i < len(stateEvs); i++ {
		given = append(given, gmsl.NewInviteStrippedState(stateEvs[i]))
		givenJSON = append(givenJSON, stripped(stateEvs[i]))
	}
	var generated interface{}
	switch s.Generated {
	case "err":
		generated = "err"
	case "nil":
		generated = nil
	case "empty":
		generated = []interface{}{}
	default:
		l := []interface{}{}
		for _, e := range stateEvs {
			l = append(l, stripped(e))
		}
		generated = l
	}
	_, osk := c15Key(s.InviteeDomain)
	otherEv := c15Build(bv, gmsl.ProtoEvent{SenderID: inviter, RoomID: c15ReqRoom, Type: spec.MRoomPowerLevels, StateKey: &empty, Depth: 99,
		Content: c15JSON(c15Obj{"users": c15Obj{inviter: 100, invitee: 100}})}, "local", "local").Sign(s.InviteeDomain, c15KeyID, osk)
	fc := &c15InviteClient{log: log, mode: s.SendInvite, lpk: lpk, ver: bv, names: []string{"local", s.InviteeDomain}, other: otherEv, inviteeDomain: s.InviteeDomain}

	// ----- the record (independent of the call) -----
	cfg := c15Obj{"version": s.Ver, "target_local": s.TargetLocal, "room": c15ReqRoom, "invitee": invitee, "inviter_domain": "local",
		"invitee_domain": s.InviteeDomain, "given_state": givenJSON, "generated_state": generated, "set_unsigned_ok": true,
		"member_q": c15MemberCfg(s.MemberQ), "build_ok": true, "provider_ok": s.AuthQ != "err"}
	switch s.SenderIDQ {
	case "err":
		cfg["sender_id"] = "err"
	case "nil":
		cfg["sender_id"] = nil
	default:
		cfg["sender_id"] = c15Val(invitee)
	}
	render := func(ts []gmsl.StateKeyTuple) []string {
		l := []string{}
		for _, t := range ts {
			l = append(l, t.EventType+"/"+t.StateKey)
		}
		return l
	}
	var needed gmsl.StateNeeded
	neededOK := false
	if verErr == nil {
		t2 := tmpl
		t2.Version = verImpl
		if n, err := gmsl.StateNeededForProtoEvent(&t2); err == nil {
			needed, neededOK = n, true
			if needed.Create && verImpl.DomainlessRoomIDs() {
				needed.Create = false
			}
			cfg["needed"] = render(needed.Tuples())
		}
	}
	if !neededOK {
		cfg["needed"] = "err"
	}
	switch s.EventQ {
	case "err":
		cfg["latest"] = "err"
	default:
		le := c15Obj{"room_exists": s.EventQ != "no_room", "depth": s.Depth, "state_ok": s.EventQ != "nonstate", "refs_ok": true, "refs": []string{}, "prev": c15IDs(prevIDs)}
		if neededOK {
			if refs, err := needed.AuthEventReferences(provider); err == nil {
				le["refs"] = c15IDs(refs)
			} else {
				le["refs_ok"] = false
			}
		}
		cfg["latest"] = le
		// would EventBuilder.Build accept the completed template? (asked of the builder itself)
		if verErr == nil {
			func() {
				defer func() {
					if recover() != nil {
						cfg["build_ok"] = false
					}
				}()
				t3 := tmpl
				k := invitee
				t3.StateKey = &k
				t3.Depth = s.Depth
				refs, _ := le["refs"].([]string)
				if len(refs) > 10 {
					refs = refs[:10]
				}
				prev := prevIDs
				if len(prev) > 20 {
					prev = prev[:20]
				}
				t3.AuthEvents, t3.PrevEvents = refs, prev
				if _, err := verImpl.NewEventBuilderFromProtoEvent(&t3).Build(c15Time, "local", c15KeyID, lsk); err != nil {
					cfg["build_ok"] = false
				}
			}()
		}
	}

	res, herr := gmsl.PerformInvite(context.Background(), gmsl.PerformInviteInput{
		RoomID: *rid, RoomVersion: ver, Inviter: *inviterID, Invitee: *inviteeID, IsTargetLocal: s.TargetLocal, EventTemplate: tmpl,
		StrippedState: given, KeyID: c15KeyID, SigningKey: lsk, EventTime: c15Time,
		MembershipQuerier: &c15Membership{log: log, answer: s.MemberQ}, StateQuerier: sq, UserIDQuerier: uq,
		SenderIDQuerier: func(roomID spec.RoomID, userID spec.UserID) (*spec.SenderID, error) {
			log.add("Q", roomID.String(), userID.String())
			switch s.SenderIDQ {
			case "err":
				return nil, errC15Passthrough
			case "nil":
				return nil, nil
			}
			sid := spec.SenderID(userID.String())
			return &sid, nil
		},
		SenderIDCreator: func(ctx context.Context, userID spec.UserID, roomID spec.RoomID, roomVersion string) (spec.SenderID, ed25519.PrivateKey, error) {
			log.add("C")
			return "", nil, errC15Passthrough
		},
		EventQuerier: func(ctx context.Context, roomID spec.RoomID, eventsNeeded []gmsl.StateKeyTuple) (gmsl.LatestEvents, error) {
			log.add(append([]string{"E", roomID.String()}, render(eventsNeeded)...)...)
			if s.EventQ == "err" {
				return gmsl.LatestEvents{}, errC15Passthrough
			}
			return gmsl.LatestEvents{RoomExists: s.EventQ != "no_room", StateEvents: state, PrevEventIDs: prevIDs, Depth: s.Depth}, nil
		},
		StoreSenderIDFromPublicID: func(ctx context.Context, senderID spec.SenderID, userID string, id spec.RoomID) error { return nil },
	}, fc)

	cfg["allowed_ok"] = false
	if sq.seen != nil {
		cfg["allowed_ok"] = gmsl.Allowed(sq.seen, provider, uq) == nil
	}
	// what the invited server answered, judged here without the library's comparison: the very event
	// that was sent (every member but signatures / unsigned equal), and signed under its name?
	switch s.SendInvite {
	case "err", "nil":
		cfg["send"] = s.SendInvite
	default:
		cfg["send"] = "other"
		var ans gmsl.PDU = fc.answer
		if s.SendInvite == "other" {
			ans = fc.other
		}
		if fc.sent != nil && ans != nil {
			a, aerr := c15Decode(fc.sent.JSON())
			b, berr := c15Decode(ans.JSON())
			if aerr == nil && berr == nil {
				for _, o := range []c15Obj{a, b} {
					delete(o, "signatures")
					delete(o, "unsigned")
				}
				if string(c15JSON(a)) == string(c15JSON(b)) && fc.sent.EventID() == ans.EventID() {
					cfg["send"] = "same_unsigned"
					if full, derr := c15Decode(ans.JSON()); derr == nil {
						if sigs, ok := full["signatures"].(c15Obj); ok {
							if m, ok := sigs[s.InviteeDomain].(c15Obj); ok && len(m) > 0 {
								cfg["send"] = "same_signed"
							}
						}
					}
				}
			}
		}
	}

	class := c15Class(herr)
	if strings.HasPrefix(class, "other:") {
		class = "passthrough" // an error of the auth package / a wrapped one, handed on as it is
	}
	out := class + "\n" + log.String()
	if herr == nil {
		switch {
		case res == nil:
			out += "\nNIL-EVENT"
		case !s.TargetLocal && fc.answer != nil && res == fc.answer:
			out += "\nremote_response"
		case !s.TargetLocal && res == fc.other:
			out += "\nANOTHER-EVENT-THAN-THE-INVITE"
		default:
			sk := "<nil>"
			if res.StateKey() != nil {
				sk = *res.StateKey()
			}
			irs := "<none>"
			if o, err := c15Decode(res.JSON()); err == nil {
				if u, ok := o["unsigned"].(c15Obj); ok {
					if v, ok := u["invite_room_state"]; ok {
						if c, cerr := gmsl.CanonicalJSON(c15JSON(v)); cerr == nil {
							irs = string(c)
						}
					}
				}
			}
			m, _ := res.Membership()
			kind := "built"
			if res.Type() != spec.MRoomMember || m != spec.Invite || res.RoomID().String() != c15ReqRoom || string(res.SenderID()) != inviter {
				kind = "NOT-THE-INVITE"
			}
			out += "\n" + strings.Join([]string{kind, sk, fmt.Sprint(res.Depth()), "auth=" + strings.Join(res.AuthEventIDs(), ","),
				"prev=" + strings.Join(res.PrevEventIDs(), ","), "signers=" + strings.Join(c15Signers(bv, res, lpk, []string{"local", s.InviteeDomain}), ","), irs}, "|")
		}
	}
	return [][]byte{args[0], c15JSON(cfg)}, []byte(out)
}

func init() {
	RegisterImpl("C15.perform_invite", c15PerformInvite)
}

func genC15PerformInvite(c *Ctx) {
	good := func() c15PIScen {
		return c15PIScen{Ver: "10", TargetLocal: true, InviteeDomain: "local", Given: 2, Generated: "some", SenderIDQ: "ok", MemberQ: "leave",
			EventQ: "ok", PrevCount: 2, Depth: 12, AuthQ: "ok", Room: "can_invite", SendInvite: "ok"}
	}
	type mut struct {
		name string
		f    func(*c15PIScen)
	}
	muts := []mut{
		{"good", func(s *c15PIScen) {}},
		{"remote invitee", func(s *c15PIScen) { s.TargetLocal = false; s.InviteeDomain = "remote" }},
		{"remote invitee, send fails", func(s *c15PIScen) { s.TargetLocal = false; s.InviteeDomain = "remote"; s.SendInvite = "err" }},
		{"remote invitee answers without an event", func(s *c15PIScen) { s.TargetLocal = false; s.InviteeDomain = "remote"; s.SendInvite = "nil" }},
		{"remote invitee echoes the invite unsigned", func(s *c15PIScen) { s.TargetLocal = false; s.InviteeDomain = "remote"; s.SendInvite = "same_unsigned" }},
		{"remote invitee answers with a power-levels event", func(s *c15PIScen) { s.TargetLocal = false; s.InviteeDomain = "remote"; s.SendInvite = "other" }},
		{"remote invitee answers with the same event ID and other content", func(s *c15PIScen) {
			s.TargetLocal = false
			s.InviteeDomain = "remote"
			s.SendInvite = "same_id_other_content"
		}},
		{"invitee of a third server answers with a power-levels event", func(s *c15PIScen) { s.TargetLocal = false; s.InviteeDomain = "other"; s.SendInvite = "other" }},
		{"invitee of another server treated as local", func(s *c15PIScen) { s.InviteeDomain = "other" }},
		{"local invitee treated as remote", func(s *c15PIScen) { s.TargetLocal = false }},
		{"no given state", func(s *c15PIScen) { s.Given = 0 }},
		{"one given state", func(s *c15PIScen) { s.Given = 1 }},
		{"generated err", func(s *c15PIScen) { s.Given = 0; s.Generated = "err" }},
		{"generated nil", func(s *c15PIScen) { s.Given = 0; s.Generated = "nil" }},
		{"generated empty", func(s *c15PIScen) { s.Given = 0; s.Generated = "empty" }},
		{"sender id err", func(s *c15PIScen) { s.SenderIDQ = "err" }},
		{"sender id nil", func(s *c15PIScen) { s.SenderIDQ = "nil" }},
		{"member_q err", func(s *c15PIScen) { s.MemberQ = "err" }},
		{"member_q join", func(s *c15PIScen) { s.MemberQ = "join" }},
		{"member_q invite", func(s *c15PIScen) { s.MemberQ = "invite" }},
		{"member_q ban", func(s *c15PIScen) { s.MemberQ = "ban" }},
		{"content unparseable membership", func(s *c15PIScen) { s.Content = `{"membership":5}` }},
		{"content third party invite", func(s *c15PIScen) {
			s.Content = `{"membership":"invite","third_party_invite":{"signed":{"token":"tok","mxid":"@invitee:local","signatures":{}}}}`
		}},
		{"template without state key", func(s *c15PIScen) { s.NoStateKey = true }},
		{"event querier err", func(s *c15PIScen) { s.EventQ = "err" }},
		{"room does not exist", func(s *c15PIScen) { s.EventQ = "no_room" }},
		{"non-state event among the state", func(s *c15PIScen) { s.EventQ = "nonstate" }},
		{"no prev events", func(s *c15PIScen) { s.PrevCount = 0 }},
		{"20 prev events", func(s *c15PIScen) { s.PrevCount = 20 }},
		{"21 prev events", func(s *c15PIScen) { s.PrevCount = 21 }},
		{"25 prev events", func(s *c15PIScen) { s.PrevCount = 25 }},
		{"depth 0", func(s *c15PIScen) { s.Depth = 0 }},
		{"auth provider err", func(s *c15PIScen) { s.AuthQ = "err" }},
		{"inviter lacks the power", func(s *c15PIScen) { s.Room = "cannot_invite" }},
		{"inviter not in the room", func(s *c15PIScen) { s.Room = "inviter_absent" }},
	}
	vers := []string{"1", "2", "5", "8", "10", "11", "bogus", ""}
	for _, v := range vers {
		for _, m := range muts {
			s := good()
			s.Ver = v
			m.f(&s)
			c.c15Run("C15.perform_invite", s, "perform_invite v"+v+" "+m.name)
			c.Count("perform_invite/single")
		}
	}
	for _, v := range []string{"10", "1"} {
		for i := 1; i < len(muts); i++ {
			for j := i + 1; j < len(muts); j++ {
				if !c.Thorough() && c.Rng.Intn(3) != 0 {
					continue
				}
				s := good()
				s.Ver = v
				muts[i].f(&s)
				muts[j].f(&s)
				c.c15Run("C15.perform_invite", s, "perform_invite v"+v+" "+muts[i].name+" + "+muts[j].name)
				c.Count("perform_invite/pair")
			}
		}
	}
}
