package main

// C16 — outbound federation goes only where resolution rules and network policy allow.
// Implementation side: the real ResolveServer / LookupWellKnown with the process-wide HTTP
// transport and DNS resolver replaced by in-process stubs (the repository's own tests replace
// the same two globals), the real dialer control function through the overlay hook, and the
// pieces of Go's net package the policy rests on (ParseIP, ParseCIDR, Contains, SplitHostPort).

import (
	"bytes"
	"context"
	"crypto/ecdsa"
	"crypto/elliptic"
	crand "crypto/rand"
	"crypto/tls"
	"crypto/x509"
	"crypto/x509/pkix"
	"encoding/binary"
	"errors"
	"fmt"
	"io"
	"log"
	"math/big"
	"net"
	"net/http"
	"regexp"
	"sort"
	"strconv"
	"strings"
	"sync"
	"sync/atomic"
	"time"

	"github.com/matrix-org/gomatrixserverlib/fclient"
	"github.com/matrix-org/gomatrixserverlib/spec"
)

// ---------------------------------------------------------------- HTTP stub

type c16Reply struct {
	netErr   bool
	status   int
	cl, cc   string
	expires  string
	bodyMode string // ok | readerr
	body     []byte
}

type c16RT struct {
	reply c16Reply
	log   []string
}

type failingReader struct {
	data []byte
	off  int
}

func (f *failingReader) Read(p []byte) (int, error) {
	if f.off >= len(f.data) {
		return 0, errors.New("stub: connection reset")
	}
	n := copy(p, f.data[f.off:])
	f.off += n
	return n, nil
}

func (t *c16RT) RoundTrip(req *http.Request) (*http.Response, error) {
	if req.URL.Scheme == "https" && req.URL.Path == "/.well-known/matrix/server" && req.Method == "GET" {
		t.log = append(t.log, "P W "+req.URL.Host)
	} else {
		t.log = append(t.log, "P W? "+req.Method+" "+req.URL.String())
	}
	if t.reply.netErr || len(t.log) > 3 { // (a resolver that kept asking would never stop: the stub does)
		return nil, errors.New("stub: connection refused")
	}
	h := http.Header{}
	if t.reply.cl != "" {
		h.Set("Content-Length", t.reply.cl)
	}
	if t.reply.cc != "" {
		for _, line := range strings.Split(t.reply.cc, "\n") { // one field line per text line
			h.Add("Cache-Control", line)
		}
	}
	if t.reply.expires != "" {
		h.Set("Expires", t.reply.expires)
	}
	var body io.ReadCloser
	if t.reply.bodyMode == "ok" {
		body = io.NopCloser(bytes.NewReader(t.reply.body))
	} else {
		body = io.NopCloser(&failingReader{data: t.reply.body})
	}
	return &http.Response{
		Status: strconv.Itoa(t.reply.status) + " stub", StatusCode: t.reply.status,
		Proto: "HTTP/1.1", ProtoMajor: 1, ProtoMinor: 1,
		Header: h, Body: body, ContentLength: -1, Request: req,
	}, nil
}

// ---------------------------------------------------------------- DNS stub (RFC 1035 wire format over a stream)

type c16SRVRec struct {
	target   string // without the final dot; "" is the root
	port     uint16
	priority uint16
}

type c16SRVEntry struct {
	kind string // ok | nxdomain | nodata | servfail | refused | writeerr
	recs []c16SRVRec
}

type c16DNS struct {
	table map[string]c16SRVEntry // lower-case query name without final dot
	log   []string
	sink  func(name string) // optional: told of every SRV question as it arrives
	hosts map[string]string // optional: A records (lower-case name -> IPv4 address)
	// SRV answers may change: an entry stored under the service name followed by "@2" replaces
	// the plain one from the second lookup of that question on (a question repeated at once by
	// the resolver, after SERVFAIL, is the same lookup)
	asked        map[string]int
	lastSRVQ     string
	lastWasError bool
	lastWasRetry bool
}

type c16DNSConn struct {
	d   *c16DNS
	in  bytes.Buffer
	out bytes.Buffer
}

func encodeName(n string) []byte {
	var b []byte
	if n != "" {
		for _, l := range strings.Split(n, ".") {
			b = append(b, byte(len(l)))
			b = append(b, l...)
		}
	}
	return append(b, 0)
}

func (c *c16DNSConn) Write(p []byte) (int, error) {
	c.in.Write(p)
	for c.in.Len() >= 2 {
		raw := c.in.Bytes()
		l := int(binary.BigEndian.Uint16(raw[:2]))
		if len(raw) < 2+l {
			break
		}
		msg := append([]byte{}, raw[2:2+l]...)
		c.in.Next(2 + l)
		resp, err := c.d.answer(msg)
		if err != nil {
			return 0, err
		}
		var lp [2]byte
		binary.BigEndian.PutUint16(lp[:], uint16(len(resp)))
		c.out.Write(lp[:])
		c.out.Write(resp)
	}
	return len(p), nil
}

func (d *c16DNS) answer(q []byte) ([]byte, error) {
	if len(q) < 12 {
		return nil, errors.New("short query")
	}
	// question name
	i := 12
	var labels []string
	for i < len(q) && q[i] != 0 {
		l := int(q[i])
		if i+1+l > len(q) {
			return nil, errors.New("bad name")
		}
		labels = append(labels, string(q[i+1:i+1+l]))
		i += 1 + l
	}
	qend := i + 1 + 4
	if qend > len(q) {
		return nil, errors.New("bad question")
	}
	qtype := binary.BigEndian.Uint16(q[i+1 : i+3])
	name := strings.Join(labels, ".")
	key := strings.ToLower(name)
	e, known := d.table[key]
	if qtype == 33 {
		if d.asked == nil {
			d.asked = map[string]int{}
		}
		// the resolver asks again at once only after an error answer: that is the same lookup
		again := d.lastSRVQ == key && d.lastWasError && !d.lastWasRetry // (the resolver makes two attempts)
		d.lastWasRetry = again
		if !again {
			d.asked[key]++
		}
		d.lastSRVQ = key
		if d.asked[key] >= 2 {
			if e2, ok := d.table[strings.Replace(key, "._tcp.", "@2._tcp.", 1)]; ok {
				e, known = e2, true
			}
		}
		d.lastWasError = known && (e.kind == "servfail" || e.kind == "refused" || e.kind == "writeerr")
		d.log = append(d.log, name)
		if d.sink != nil && !again {
			d.sink(name)
		}
	}
	if !known || qtype != 33 {
		e = c16SRVEntry{kind: "nxdomain"}
	}
	if a, ok := d.hosts[strings.ToLower(name)]; ok && (qtype == 1 || qtype == 28) {
		// address questions (only what does not go through the DNS cache asks them)
		resp := make([]byte, 12)
		copy(resp[0:2], q[0:2])
		binary.BigEndian.PutUint16(resp[2:4], uint16(0x8000|0x0400|0x0080)|(binary.BigEndian.Uint16(q[2:4])&0x0100))
		binary.BigEndian.PutUint16(resp[4:6], 1)
		resp = append(resp, q[12:qend]...)
		if ip := net.ParseIP(a).To4(); qtype == 1 && ip != nil {
			binary.BigEndian.PutUint16(resp[6:8], 1)
			resp = append(resp, 0xC0, 0x0C, 0, 1, 0, 1, 0, 0, 0, 60, 0, 4)
			resp = append(resp, ip...)
		}
		return resp, nil
	}
	if e.kind == "writeerr" {
		return nil, errors.New("stub: network unreachable")
	}
	rcode := map[string]uint16{"ok": 0, "nodata": 0, "nxdomain": 3, "servfail": 2, "refused": 5}[e.kind]
	resp := make([]byte, 12)
	copy(resp[0:2], q[0:2])
	flags := uint16(0x8000|0x0400|0x0080) | (binary.BigEndian.Uint16(q[2:4]) & 0x0100) | rcode
	binary.BigEndian.PutUint16(resp[2:4], flags)
	binary.BigEndian.PutUint16(resp[4:6], 1)
	n := 0
	if e.kind == "ok" {
		n = len(e.recs)
	}
	binary.BigEndian.PutUint16(resp[6:8], uint16(n))
	resp = append(resp, q[12:qend]...)
	for k := 0; k < n; k++ {
		r := e.recs[k]
		rd := make([]byte, 6)
		binary.BigEndian.PutUint16(rd[0:2], r.priority)
		binary.BigEndian.PutUint16(rd[2:4], 0)
		binary.BigEndian.PutUint16(rd[4:6], r.port)
		rd = append(rd, encodeName(r.target)...)
		rr := []byte{0xC0, 0x0C, 0, 33, 0, 1, 0, 0, 0, 60, 0, 0}
		binary.BigEndian.PutUint16(rr[10:12], uint16(len(rd)))
		resp = append(resp, rr...)
		resp = append(resp, rd...)
	}
	return resp, nil
}

func (c *c16DNSConn) Read(p []byte) (int, error) {
	if c.out.Len() == 0 {
		return 0, io.EOF
	}
	return c.out.Read(p)
}
func (c *c16DNSConn) Close() error                       { return nil }
func (c *c16DNSConn) LocalAddr() net.Addr                { return &net.TCPAddr{IP: net.IPv4(127, 0, 0, 1), Port: 1} }
func (c *c16DNSConn) RemoteAddr() net.Addr               { return &net.TCPAddr{IP: net.IPv4(127, 0, 0, 1), Port: 53} }
func (c *c16DNSConn) SetDeadline(t time.Time) error      { return nil }
func (c *c16DNSConn) SetReadDeadline(t time.Time) error  { return nil }
func (c *c16DNSConn) SetWriteDeadline(t time.Time) error { return nil }

// withDNSStub runs f with net.DefaultResolver replaced (http.DefaultTransport stays the real one).
func withDNSStub(d *c16DNS, f func()) {
	oldR := net.DefaultResolver
	net.DefaultResolver = &net.Resolver{
		PreferGo: true,
		Dial: func(ctx context.Context, network, address string) (net.Conn, error) {
			return &c16DNSConn{d: d}, nil
		},
	}
	defer func() { net.DefaultResolver = oldR }()
	f()
}

// withStubs runs f with http.DefaultTransport and net.DefaultResolver replaced.
func withStubs(rt *c16RT, d *c16DNS, f func()) {
	oldT, oldR := http.DefaultTransport, net.DefaultResolver
	http.DefaultTransport = rt
	net.DefaultResolver = &net.Resolver{
		PreferGo: true,
		Dial: func(ctx context.Context, network, address string) (net.Conn, error) {
			return &c16DNSConn{d: d}, nil
		},
	}
	defer func() { http.DefaultTransport, net.DefaultResolver = oldT, oldR }()
	f()
}

const c16ExpiresLayout = "Mon, 02 Jan 2006 15:04:05 MST"

// what time.Parse makes of the Expires header ("" = header empty or not a date)
func expiresUnix(h string) string {
	if h == "" {
		return ""
	}
	t, err := time.Parse(c16ExpiresLayout, h)
	if err != nil {
		return ""
	}
	return strconv.FormatInt(t.Unix(), 10)
}

// names the Go resolver is willing to send a query for (net.isDomainName), conservatively
var c16Nice = regexp.MustCompile(`^[A-Za-z0-9_]([A-Za-z0-9_-]{0,40}[A-Za-z0-9_])?(\.[A-Za-z0-9_]([A-Za-z0-9_-]{0,40}[A-Za-z0-9_])?){0,6}\.?$`)

var c16ServerRe = regexp.MustCompile(`(?i)"m\.server"\s*:\s*"([^"\\]*)"`)

func srvKey(svc, name string) string {
	return strings.ToLower("_" + svc + "._tcp." + strings.TrimSuffix(name, "."))
}

func ipToDec(ip net.IP) string {
	return new(big.Int).SetBytes(ip).String()
}

func splitLists(args [][]byte, at int) (allow, deny []string) {
	n, _ := strconv.Atoi(string(args[at]))
	rest := args[at+1:]
	allow, deny = []string{}, []string{}
	for i, a := range rest {
		if i < n {
			allow = append(allow, string(a))
		} else {
			deny = append(deny, string(a))
		}
	}
	return
}

func init() {
	RegisterImpl("C16.parse_ip", func(args [][]byte) ([][]byte, []byte) {
		ip := net.ParseIP(string(args[0]))
		if ip == nil {
			return args, B("nil")
		}
		return args, B(ipToDec(ip.To16()))
	})
	RegisterImpl("C16.parse_cidr", func(args [][]byte) ([][]byte, []byte) {
		_, n, err := net.ParseCIDR(string(args[0]))
		if err != nil {
			return args, B("err")
		}
		return args, B(fmt.Sprintf("%d:%s/%s", len(n.IP), ipToDec(n.IP), ipToDec(net.IP(n.Mask))))
	})
	RegisterImpl("C16.contains", func(args [][]byte) ([][]byte, []byte) {
		_, n, err := net.ParseCIDR(string(args[0]))
		ip := net.ParseIP(string(args[1]))
		if err != nil || ip == nil {
			return args, B("err")
		}
		return args, B(strconv.FormatBool(n.Contains(ip)))
	})
	RegisterImpl("C16.split_host", func(args [][]byte) ([][]byte, []byte) {
		h, _, err := net.SplitHostPort(string(args[0]))
		if err != nil {
			return args, B("err")
		}
		return args, B("ok:" + h)
	})
	RegisterImpl("C16.servername", func(args [][]byte) ([][]byte, []byte) {
		h, p, ok := spec.ParseAndValidateServerName(spec.ServerName(args[0]))
		if !ok {
			return args, B("invalid")
		}
		return args, B(h + "|" + strconv.Itoa(p))
	})
	control := func(mk func(allow, deny []string) func(string, string) error) ImplFn {
		return func(args [][]byte) ([][]byte, []byte) {
			allow, deny := splitLists(args, 2)
			if mk(allow, deny)(string(args[0]), string(args[1])) == nil {
				return args, B("allow")
			}
			return args, B("deny")
		}
	}
	// [network; address; nallow; allow...; deny...]
	RegisterImpl("C16.control", control(func(allow, deny []string) func(string, string) error {
		f := fclient.VerifControl(allow, deny)
		return func(n, a string) error { return f(context.Background(), n, a, nil) }
	}))
	RegisterImpl("C16.control_dnscache", control(func(allow, deny []string) func(string, string) error {
		f := fclient.VerifDNSCacheControl(allow, deny)
		return func(n, a string) error { return f(context.Background(), n, a, nil) }
	}))
	// [nallow; allow...; deny...] -> has the transport dialer a control function at all?
	RegisterImpl("C16.dialer_has_control", func(args [][]byte) ([][]byte, []byte) {
		allow, deny := splitLists(args, 0)
		return args, B(strconv.FormatBool(fclient.VerifTripperDialer(allow, deny).ControlContext != nil))
	})
	// real dial to a loopback listener: [network(ignored); address(filled); nallow; allow...; deny...; ]
	// args[0] = "tcp4" (what the runtime passes to the control function for a 127.0.0.1 dial)
	RegisterImpl("C16.dial_loopback", func(args [][]byte) ([][]byte, []byte) {
		ln, err := net.Listen("tcp4", "127.0.0.1:0")
		if err != nil {
			return args, B("nolisten")
		}
		defer ln.Close()
		go func() {
			for {
				c, err := ln.Accept()
				if err != nil {
					return
				}
				c.Close()
			}
		}()
		final := append([][]byte{}, args...)
		final[1] = B(ln.Addr().String())
		allow, deny := splitLists(args, 2)
		d := fclient.VerifTripperDialer(allow, deny)
		if d.ControlContext == nil {
			return final, B("nocontrol")
		}
		ctx, cancel := context.WithTimeout(context.Background(), 3*time.Second)
		defer cancel()
		c, err := d.DialContext(ctx, "tcp", ln.Addr().String())
		if err != nil {
			return final, B("deny")
		}
		c.Close()
		return final, B("allow")
	})

	// End-to-end: a real connection attempt to a loopback listener through the code paths that
	// carry the policy. Input args: [mode; target; nallow; allow...; deny...]; the final args are
	// [mode; target; network; address handed to the dialer; nallow; allow...; deny...].
	//   mode:   cache         DNSCache.DialContext (resolver stubbed through the overlay)
	//           client-cache  NewClient(WithDNSCache, WithAllowDenyNetworks): an HTTPS round trip
	//           client        NewClient(WithAllowDenyNetworks), no DNS cache
	//   target: ip4 | ip6 | mapped ([::ffff:127.0.0.1]) | name4 | name6 (host name resolving to the
	//           listener) | retry4 (cached entry is dead, DialContext deletes it and resolves again)
	// Observable: allow = the listener accepted a connection, deny = it did not.
	RegisterImpl("C16.dial_e2e", func(args [][]byte) ([][]byte, []byte) {
		if len(args) > 3 && (string(args[2]) == "tcp4" || string(args[2]) == "tcp6") {
			args = append(append([][]byte{}, args[:2]...), args[4:]...) // replay: final form back to input form
		}
		mode, target := string(args[0]), string(args[1])
		allow, deny := splitLists(args, 2)
		v6 := target == "ip6" || target == "name6"
		lnet, laddr := "tcp4", "127.0.0.1:0"
		if v6 {
			lnet, laddr = "tcp6", "[::1]:0"
		}
		ln, err := net.Listen(lnet, laddr)
		if err != nil {
			return args, B("nolisten")
		}
		defer ln.Close()
		var accepted int32
		go func() {
			for {
				c, err := ln.Accept()
				if err != nil {
					return
				}
				atomic.AddInt32(&accepted, 1)
				c.Close()
			}
		}()
		_, port, _ := net.SplitHostPort(ln.Addr().String())
		listenIP := "127.0.0.1"
		if v6 {
			listenIP = "::1"
		}
		answer := listenIP // what the stub resolver says for host names
		resolver := func(host string) ([]net.IPAddr, error) {
			if ip := net.ParseIP(host); ip != nil {
				return []net.IPAddr{{IP: ip}}, nil
			}
			return []net.IPAddr{{IP: net.ParseIP(answer)}}, nil
		}
		hostport := map[string]string{"ip4": "127.0.0.1:" + port, "ip6": "[::1]:" + port, "mapped": "[::ffff:127.0.0.1]:" + port,
			"name4": "verif-loopback.test:" + port, "name6": "verif-loopback6.test:" + port, "retry4": "verif-retry.test:" + port}[target]
		if mode == "client" && (target == "name4" || target == "name6") {
			hostport = "localhost:" + port // no stub without a cache: the system resolver (hosts file)
		}
		ctx, cancel := context.WithTimeout(context.Background(), 3*time.Second)
		defer cancel()
		// the address handed to the dialer and so to the control function
		dialled := net.JoinHostPort(listenIP, port)
		network := "tcp4"
		if v6 {
			network = "tcp6"
		}
		switch mode {
		case "cache", "client-cache":
			cache := fclient.VerifNewDNSCache(8, time.Minute, allow, deny, resolver)
			if target == "retry4" {
				answer = "127.0.0.2" // nothing listens there
				cache.VerifLookup("verif-retry.test")
				answer = "127.0.0.1"
			}
			if mode == "cache" {
				if c, err := cache.DialContext(ctx, "tcp", hostport); err == nil {
					c.Close()
				}
			} else {
				cl := fclient.NewClient(fclient.WithDNSCache(cache), fclient.WithAllowDenyNetworks(allow, deny), fclient.WithSkipVerify(true), fclient.WithTimeout(3*time.Second))
				if req, err := http.NewRequest("GET", "matrix://"+hostport+"/_matrix/federation/v1/version", nil); err == nil {
					if resp, err := cl.DoHTTPRequest(ctx, req); err == nil {
						resp.Body.Close()
					}
				}
			}
		case "client":
			cl := fclient.NewClient(fclient.WithAllowDenyNetworks(allow, deny), fclient.WithSkipVerify(true), fclient.WithTimeout(3*time.Second))
			if req, err := http.NewRequest("GET", "matrix://"+hostport+"/_matrix/federation/v1/version", nil); err == nil {
				if resp, err := cl.DoHTTPRequest(ctx, req); err == nil {
					resp.Body.Close()
				}
			}
		}
		for i := 0; i < 25 && atomic.LoadInt32(&accepted) == 0; i++ {
			time.Sleep(2 * time.Millisecond)
		}
		final := append([][]byte{args[0], args[1], B(network), B(dialled)}, args[2:]...)
		if atomic.LoadInt32(&accepted) > 0 {
			return final, B("allow")
		}
		return final, B("deny")
	})

	// [status; cl; cc; expires_unix(filled); bodymode; body; now(filled); expires header]
	// the Expires header text travels last so that the model never sees it
	RegisterImpl("C16.well_known", func(args [][]byte) ([][]byte, []byte) {
		st, _ := strconv.Atoi(string(args[0]))
		hdr := ""
		if len(args) > 7 {
			hdr = string(args[7])
		} else if u, err := strconv.ParseInt(string(args[3]), 10, 64); err == nil {
			hdr = time.Unix(u, 0).UTC().Format(c16ExpiresLayout) // replay: only the parsed value is known
		}
		rt := &c16RT{reply: c16Reply{status: st, cl: string(args[1]), cc: string(args[2]), expires: hdr,
			bodyMode: string(args[4]), body: args[5]}}
		var out []byte
		now := withStableClock(func() {
			withStubs(rt, &c16DNS{}, func() {
				res, err := fclient.LookupWellKnown(context.Background(), "example.org")
				if err != nil {
					out = B("err")
				} else {
					out = B("ok|" + string(res.NewAddress) + "|" + strconv.FormatInt(res.CacheExpiresAt, 10))
				}
			})
		})
		final := [][]byte{args[0], args[1], args[2], B(expiresUnix(hdr)), args[4], args[5], B(strconv.FormatInt(now, 10))}
		return final, out
	})

	// [name; trace; wkmode; status; cl; cc; expires_unix; bodymode; body; now; SRV table...]
	// SRV table entry: svc; name; kind; nrec; (target; port; )*   kind is the stub's kind on
	// input and is rewritten to the model's class (ok | notfound | error) on output; records
	// are rewritten to what the resolver hands back (priority order, final dot).
	RegisterImpl("C16.resolve", func(args [][]byte) ([][]byte, []byte) {
		name := string(args[0])
		st, _ := strconv.Atoi(string(args[3]))
		rt := &c16RT{reply: c16Reply{netErr: string(args[2]) != "reply", status: st, cl: string(args[4]),
			cc: string(args[5]), expires: "", bodyMode: string(args[7]), body: args[8]}}
		d := &c16DNS{table: map[string]c16SRVEntry{}}
		final := append([][]byte{}, args[:10]...)
		keyNames := map[string]string{}
		known := []string{name}
		if m := c16ServerRe.FindSubmatch(args[8]); m != nil {
			known = append(known, string(m[1]))
		}
		for _, kn := range known {
			for _, svc := range []string{"matrix-fed", "matrix"} {
				keyNames[srvKey(svc, kn)] = "P S " + svc + " " + kn
			}
		}
		i := 10
		for i+3 < len(args) {
			svcB, qnB, kind := args[i], args[i+1], string(args[i+2])
			svc, qn := string(svcB), string(qnB)
			n, _ := strconv.Atoi(string(args[i+3]))
			i += 4
			e := c16SRVEntry{kind: kind}
			for k := 0; k < n; k++ {
				p, _ := strconv.Atoi(string(args[i+1]))
				pr, _ := strconv.Atoi(string(args[i+2]))
				e.recs = append(e.recs, c16SRVRec{target: string(args[i]), port: uint16(p), priority: uint16(pr)})
				i += 3
			}
			d.table[srvKey(svc, qn)] = e
			keyNames[srvKey(svc, qn)] = "P S " + svc + " " + qn
			class := map[string]string{"ok": "ok", "nxdomain": "notfound", "nodata": "notfound",
				"servfail": "error", "refused": "error", "writeerr": "error"}[kind]
			final = append(final, svcB, qnB, B(class), B(strconv.Itoa(n)))
			sorted := append([]c16SRVRec{}, e.recs...)
			sort.SliceStable(sorted, func(a, b int) bool { return sorted[a].priority < sorted[b].priority })
			for _, r := range sorted {
				final = append(final, B(r.target+"."), B(strconv.Itoa(int(r.port))))
			}
		}
		var out []string
		withStubs(rt, d, func() {
			res, err := fclient.ResolveServer(context.Background(), spec.ServerName(name))
			if err != nil {
				out = append(out, "err")
			}
			for _, r := range res {
				out = append(out, "T "+r.Destination+"|"+string(r.Host)+"|"+r.TLSServerName)
			}
		})
		switch string(args[1]) {
		case "1":
			out = append(out, rt.log...)
			last := ""
			for _, q := range d.log {
				k := strings.ToLower(q)
				if k == last {
					continue // retry of the same question
				}
				last = k
				if s, ok := keyNames[k]; ok {
					out = append(out, s)
				} else if strings.HasPrefix(k, "_matrix") {
					// a question the case did not plan for: name it as the model would
					for _, svc := range []string{"matrix-fed", "matrix"} {
						p := "_" + svc + "._tcp."
						if strings.HasPrefix(k, p) {
							out = append(out, "P S "+svc+" "+q[len(p):])
						}
					}
				}
			}
		case "w":
			out = append(out, rt.log...)
		}
		return final, B(strings.Join(out, "\n"))
	})

	// Round trips through a real client (lookups on or off, allow / deny lists, a DNS cache whose
	// resolver maps names to loopback addresses) to real listeners: an HTTPS server on port 443
	// answering the .well-known request, TLS listeners for the federation requests that fail the
	// first k handshakes. Every TCP connection the listeners accept is part of the observable.
	// [name; wksrv; k; nrt; dead ports; nallow; allow...; ndeny; deny...; nhosts; (host; address)...;
	//  wkmode; status; cl; cc; ex; bm; body; now; SRV table...]
	// PORT / CLOSED in name, body, dead list and SRV ports stand for the federation listener's port
	// and for a port nothing listens on; they are replaced before the run and in the final arguments.
	RegisterImpl("C16.round_trip", func(args [][]byte) ([][]byte, []byte) {
		srv, err := c16Server()
		if err != nil {
			return args, B("nolisten: " + err.Error())
		}
		srv.reset()
		sub := func(b []byte) []byte {
			t := strings.ReplaceAll(string(b), "PORT", srv.port)
			return B(strings.ReplaceAll(t, "CLOSED", srv.closedPort))
		}
		in := make([][]byte, len(args))
		for i, a := range args {
			in[i] = sub(a)
		}
		if !srv.has8448 && !strings.Contains(","+string(in[4])+",", ",8448,") {
			if len(in[4]) > 0 {
				in[4] = append(in[4], ',')
			}
			in[4] = append(in[4], "8448"...)
		}
		name := string(in[0])
		k, _ := strconv.Atoi(string(in[2]))
		nrt, _ := strconv.Atoi(string(in[3]))
		i := 5
		list := func() []string {
			n, _ := strconv.Atoi(string(in[i]))
			i++
			l := []string{}
			for j := 0; j < n; j++ {
				l = append(l, string(in[i]))
				i++
			}
			return l
		}
		allow, deny := list(), list()
		nh, _ := strconv.Atoi(string(in[i]))
		i++
		hosts := map[string]string{}
		for j := 0; j < nh; j++ {
			hosts[string(in[i])] = string(in[i+1])
			i += 2
		}
		wkAt := i
		srv.failRemaining = k
		st, _ := strconv.Atoi(string(in[wkAt+1]))
		srv.wk = c16Reply{netErr: string(in[wkAt]) != "reply", status: st, cc: string(in[wkAt+3]), body: in[wkAt+6]}
		srv.wkName = name
		d := &c16DNS{table: map[string]c16SRVEntry{}}
		keyNames := c16KnownNames(name, in[wkAt+6])
		d.sink = func(q string) {
			for _, l := range c16ProbeLines([]string{q}, keyNames) {
				srv.event(l)
			}
		}
		final := append([][]byte{}, in[:wkAt+8]...)
		final = c16LoadSRV(in, wkAt+8, d, keyNames, final)
		cache := fclient.VerifNewDNSCache(64, time.Minute, allow, deny, func(host string) ([]net.IPAddr, error) {
			if ip := net.ParseIP(host); ip != nil {
				return []net.IPAddr{{IP: ip}}, nil
			}
			if a, ok := hosts[host]; ok {
				return []net.IPAddr{{IP: net.ParseIP(a)}}, nil
			}
			return []net.IPAddr{{IP: net.IPv4(127, 0, 0, 1)}}, nil
		})
		cl := fclient.NewClient(fclient.WithWellKnownSRVLookups(string(in[1]) == "1"), fclient.WithDNSCache(cache),
			fclient.WithAllowDenyNetworks(allow, deny), fclient.WithSkipVerify(true), fclient.WithTimeout(5*time.Second))
		// Nothing is stubbed on the HTTP side: whatever leaves through the process-wide default
		// transport instead of the client's dialers resolves the name through the stub's A records
		// and really connects, so the listeners see it.
		d.hosts = map[string]string{}
		for h, a := range hosts {
			d.hosts[strings.ToLower(h)] = a
		}
		withDNSStub(d, func() {
			for r := 0; r < nrt; r++ {
				ok := false
				if req, err := http.NewRequest("GET", "matrix://"+name+"/_matrix/federation/v1/version", nil); err == nil {
					if resp, err := cl.DoHTTPRequest(context.Background(), req); err == nil {
						ok = resp.StatusCode == 200
						resp.Body.Close()
					}
				}
				if ok {
					srv.event("RT ok")
				} else {
					srv.event("RT err")
				}
			}
		})
		http.DefaultTransport.(*http.Transport).CloseIdleConnections()
		out := srv.logFrom(0)
		return final, B(strings.Join(out, "\n"))
	})

	RegisterProp("C16", genC16)
}

// ---------------------------------------------------------------- TLS listeners for the round trips

type c16TLSServer struct {
	mu            sync.Mutex
	failRemaining int
	log           []string
	sni           map[string]string // remote address -> SNI of the handshake that got through
	port          string
	closedPort    string
	has8448       bool
	servers       []*http.Server
	wk            c16Reply // what the port-443 server answers to the .well-known request
	wkName        string
	wkServed      int
}

// a listener that reports every accepted connection with the LOCAL address it arrived at
type c16LoggingListener struct {
	net.Listener
	s         *c16TLSServer
	closeFast func() bool
}

func (l *c16LoggingListener) Accept() (net.Conn, error) {
	for {
		c, err := l.Listener.Accept()
		if err != nil {
			return nil, err
		}
		l.s.event("C " + c.LocalAddr().String())
		if l.closeFast != nil && l.closeFast() {
			c.Close()
			continue
		}
		return c, nil
	}
}

func (s *c16TLSServer) event(l string) {
	s.mu.Lock()
	s.log = append(s.log, l)
	s.mu.Unlock()
}

// a question the resolver repeats (second attempt after SERVFAIL) counts once
func (s *c16TLSServer) dedupeProbes() {
	s.mu.Lock()
	defer s.mu.Unlock()
	var out []string
	for _, l := range s.log {
		if strings.HasPrefix(l, "P S ") && len(out) > 0 && out[len(out)-1] == l {
			continue
		}
		out = append(out, l)
	}
	s.log = out
}

var c16Cert *tls.Certificate

func c16SelfSigned() (*tls.Certificate, error) {
	if c16Cert != nil {
		return c16Cert, nil
	}
	key, err := ecdsa.GenerateKey(elliptic.P256(), crand.Reader)
	if err != nil {
		return nil, err
	}
	tmpl := &x509.Certificate{SerialNumber: big.NewInt(1), Subject: pkix.Name{CommonName: "verif"},
		NotBefore: time.Now().Add(-time.Hour), NotAfter: time.Now().Add(24 * time.Hour),
		KeyUsage: x509.KeyUsageDigitalSignature, ExtKeyUsage: []x509.ExtKeyUsage{x509.ExtKeyUsageServerAuth}}
	der, err := x509.CreateCertificate(crand.Reader, tmpl, tmpl, &key.PublicKey, key)
	if err != nil {
		return nil, err
	}
	c16Cert = &tls.Certificate{Certificate: [][]byte{der}, PrivateKey: key}
	return c16Cert, nil
}

func newC16TLSServer() (*c16TLSServer, error) {
	cert, err := c16SelfSigned()
	if err != nil {
		return nil, err
	}
	s := &c16TLSServer{sni: map[string]string{}}
	serveFed := func(ln net.Listener, port string) {
		cfg := &tls.Config{Certificates: []tls.Certificate{*cert}}
		cfg.GetConfigForClient = func(h *tls.ClientHelloInfo) (*tls.Config, error) {
			s.mu.Lock()
			defer s.mu.Unlock()
			if s.failRemaining > 0 {
				s.failRemaining--
				s.log = append(s.log, "A port="+port+" sni="+h.ServerName)
				return nil, errors.New("stub: handshake refused")
			}
			s.sni[h.Conn.RemoteAddr().String()] = h.ServerName
			return nil, nil
		}
		hs := &http.Server{TLSConfig: cfg, ErrorLog: log.New(io.Discard, "", 0),
			Handler: http.HandlerFunc(func(w http.ResponseWriter, r *http.Request) {
				s.mu.Lock()
				s.log = append(s.log, "A port="+port+" sni="+s.sni[r.RemoteAddr]+" host="+r.Host)
				s.mu.Unlock()
				w.Header().Set("Content-Type", "application/json")
				_, _ = w.Write([]byte("{}"))
			})}
		s.servers = append(s.servers, hs)
		go func() { _ = hs.ServeTLS(&c16LoggingListener{Listener: ln, s: s}, "", "") }()
	}
	// all of 127.0.0.0/8 is local: listening on every address lets a case give names distinct addresses
	ln443, err := net.Listen("tcp4", "0.0.0.0:443")
	if err != nil {
		return nil, err
	}
	wkServer := &http.Server{TLSConfig: &tls.Config{Certificates: []tls.Certificate{*cert}}, ErrorLog: log.New(io.Discard, "", 0),
		Handler: http.HandlerFunc(func(w http.ResponseWriter, r *http.Request) {
			if r.URL.Path != "/.well-known/matrix/server" {
				s.event("P W? " + r.Host + r.URL.Path)
				w.WriteHeader(404)
				return
			}
			s.event("P W " + r.Host)
			if s.wk.status/100 == 3 && r.Host == s.wkName {
				w.Header().Set("Location", string(s.wk.body))
				w.WriteHeader(s.wk.status)
				return
			}
			for _, line := range strings.Split(s.wk.cc, "\n") {
				if line != "" {
					w.Header().Add("Cache-Control", line)
				}
			}
			body := s.wk.body
			if parts := strings.Split(string(body), "\n@2\n"); len(parts) == 2 { // the reply changes after the first request
				s.mu.Lock()
				s.wkServed++
				n := s.wkServed
				s.mu.Unlock()
				body = []byte(parts[0])
				if n >= 2 {
					body = []byte(parts[1])
				}
			}
			w.WriteHeader(s.wk.status)
			_, _ = w.Write(body)
		})}
	s.servers = append(s.servers, wkServer)
	go func() {
		_ = wkServer.ServeTLS(&c16LoggingListener{Listener: ln443, s: s, closeFast: func() bool { return s.wk.netErr }}, "", "")
	}()
	ln, err := net.Listen("tcp4", "0.0.0.0:0")
	if err != nil {
		s.close()
		return nil, err
	}
	_, s.port, _ = net.SplitHostPort(ln.Addr().String())
	serveFed(ln, s.port)
	if ln2, err := net.Listen("tcp4", "0.0.0.0:8448"); err == nil {
		s.has8448 = true
		serveFed(ln2, "8448")
	}
	if c, err := net.Listen("tcp4", "127.0.0.1:0"); err == nil {
		_, s.closedPort, _ = net.SplitHostPort(c.Addr().String())
		c.Close()
	}
	return s, nil
}

// one set of listeners for the whole run (ports 443 and 8448 stay bound; closing and binding
// again between cases races with the closing goroutines)
var c16TheServer *c16TLSServer
var c16TheServerErr error

func c16Server() (*c16TLSServer, error) {
	if c16TheServer == nil && c16TheServerErr == nil {
		c16TheServer, c16TheServerErr = newC16TLSServer()
	}
	return c16TheServer, c16TheServerErr
}

func (s *c16TLSServer) reset() {
	s.mu.Lock()
	defer s.mu.Unlock()
	s.log = nil
	s.failRemaining = 0
	s.sni = map[string]string{}
	s.wk = c16Reply{}
	s.wkName = ""
	s.wkServed = 0
}

func (s *c16TLSServer) close() {
	for _, hs := range s.servers {
		_ = hs.Close()
	}
}

func (s *c16TLSServer) logFrom(i int) []string {
	s.mu.Lock()
	defer s.mu.Unlock()
	return append([]string{}, s.log[i:]...)
}

// names whose SRV questions a case may see: the server name and a delegated name in the body
func c16KnownNames(name string, body []byte) map[string]string {
	keyNames := map[string]string{}
	known := []string{name}
	for _, m := range c16ServerRe.FindAllSubmatch(body, -1) {
		known = append(known, string(m[1]))
	}
	for _, kn := range known {
		for _, svc := range []string{"matrix-fed", "matrix"} {
			keyNames[srvKey(svc, kn)] = "P S " + svc + " " + kn
		}
	}
	return keyNames
}

// SRV table arguments (from index i on) into the DNS stub; returns the final arguments with the
// stub's kinds rewritten to the model's classes and the records as the resolver hands them back
func c16LoadSRV(args [][]byte, i int, d *c16DNS, keyNames map[string]string, final [][]byte) [][]byte {
	for i+3 < len(args) {
		svcB, qnB, kind := args[i], args[i+1], string(args[i+2])
		svc, qn := string(svcB), string(qnB)
		n, _ := strconv.Atoi(string(args[i+3]))
		i += 4
		e := c16SRVEntry{kind: kind}
		for k := 0; k < n; k++ {
			p, _ := strconv.Atoi(string(args[i+1]))
			pr, _ := strconv.Atoi(string(args[i+2]))
			e.recs = append(e.recs, c16SRVRec{target: string(args[i]), port: uint16(p), priority: uint16(pr)})
			i += 3
		}
		d.table[srvKey(svc, qn)] = e
		if base := strings.TrimSuffix(svc, "@2"); true {
			keyNames[srvKey(base, qn)] = "P S " + base + " " + qn
		}
		class := map[string]string{"ok": "ok", "nxdomain": "notfound", "nodata": "notfound",
			"servfail": "error", "refused": "error", "writeerr": "error"}[kind]
		final = append(final, svcB, qnB, B(class), B(strconv.Itoa(n)))
		sorted := append([]c16SRVRec{}, e.recs...)
		sort.SliceStable(sorted, func(a, b int) bool { return sorted[a].priority < sorted[b].priority })
		for _, r := range sorted {
			final = append(final, B(r.target+"."), B(strconv.Itoa(int(r.port))))
		}
	}
	return final
}

// the SRV questions the stub saw, named as the model names them (retries of one question once)
func c16ProbeLines(qs []string, keyNames map[string]string) []string {
	var out []string
	last := ""
	for _, q := range qs {
		k := strings.ToLower(q)
		if k == last {
			continue
		}
		last = k
		if s, ok := keyNames[k]; ok {
			out = append(out, s)
		} else if strings.HasPrefix(k, "_matrix") {
			for _, svc := range []string{"matrix-fed", "matrix"} {
				p := "_" + svc + "._tcp."
				if strings.HasPrefix(k, p) {
					out = append(out, "P S "+svc+" "+q[len(p):])
				}
			}
		}
	}
	return out
}

// ---------------------------------------------------------------- generators

func (c *Ctx) c16IPCorpus() []string {
	r := c.Rng
	fixed := []string{"", "1.2.3.4", "0.0.0.0", "255.255.255.255", "256.1.1.1", "1.2.3", "1.2.3.4.5", "1.2.3.", ".1.2.3",
		"1..2.3", "01.2.3.4", "1.2.3.04", "1.2.3.00", "0.0.0.00", "1.2.3.4 ", " 1.2.3.4", "1.2.3.-4", "1.2.3.4:80", "1.2.3.a",
		"1.2.3.0x4", "0001.2.3.4", "1.2.3.256", "1.2.3.2555", "127.1", "::", "::1", "1::", "1::2", "::1:2:3:4:5:6:7",
		"1:2:3:4:5:6:7::", "1:2:3:4:5:6:7:8", "1:2:3:4:5:6:7:8::", "::1:2:3:4:5:6:7:8", "1:2:3:4:5:6:7", "1:2:3:4:5:6:7:8:9",
		"1:2:3:4::5:6:7:8", "1::2::3", ":::", ":", ":1", "1:", "1:2:", "::1:", "12345::", "::12345", "::ffff", "::fffff", "::g",
		"::G", "::ABCD", "::abcd", "::aBcD:0", "fe80::1%eth0", "::1%", "%eth0", "1.2.3.4%eth0", "::ffff:1.2.3.4",
		"::FFFF:1.2.3.4", "::fffe:1.2.3.4", "::1.2.3.4", "1.2.3.4::", "::1.2.3.4:5", "1:2:3:4:5:6:1.2.3.4", "1:2:3:4:5:1.2.3.4",
		"1:2:3:4:5:6:7:1.2.3.4", "1:2:3:4:5::1.2.3.4", "::1:2:3:4:5:6:1.2.3.4", "::ffff:1.2.3", "::ffff:1.2.3.4.5",
		"::ffff:01.2.3.4", "::ffff:256.2.3.4", "::ffff:a.2.3.4", "::ffff:0255.2.3.4", "::ffff:1.2.3.4 ", "0:0:0:0:0:ffff:102:304",
		"0:0:0:0:0:ffff:1.2.3.4", "[::1]", "::ffff:0:0", "64:ff9b::1.2.3.4", "2001:db8::", "2001:0db8:0000:0000:0000:0000:0000:0001",
		"2001:db8:0:0:0:0:0:00001", "ffff:ffff:ffff:ffff:ffff:ffff:ffff:ffff", "0::0", "0:0::0:0", "1:2:3:4:5:6::8", "1:2:3:4:5:6:7::8"}
	out := append([]string{}, fixed...)
	hexd := "0123456789abcdefABCDEF"
	for k := 0; k < c.Scale(1500, 20000); k++ {
		switch r.Intn(4) {
		case 0: // dotted
			n := 4
			if r.Intn(6) == 0 {
				n = 2 + r.Intn(4)
			}
			parts := make([]string, n)
			for i := range parts {
				switch r.Intn(10) {
				case 0:
					parts[i] = "0" + strconv.Itoa(r.Intn(300))
				case 1:
					parts[i] = ""
				case 2:
					parts[i] = strconv.Itoa(250 + r.Intn(10))
				default:
					parts[i] = strconv.Itoa(r.Intn(256))
				}
			}
			out = append(out, strings.Join(parts, "."))
		case 1, 2: // colon groups
			n := 1 + r.Intn(9)
			parts := make([]string, n)
			for i := range parts {
				l := 1 + r.Intn(4)
				if r.Intn(12) == 0 {
					l = 5
				}
				if r.Intn(12) == 0 {
					l = 0
				}
				b := make([]byte, l)
				for j := range b {
					b[j] = hexd[r.Intn(len(hexd))]
				}
				parts[i] = string(b)
			}
			s := strings.Join(parts, ":")
			if r.Intn(2) == 0 { // put an ellipsis somewhere
				cut := r.Intn(n + 1)
				s = strings.Join(parts[:cut], ":") + "::" + strings.Join(parts[cut:], ":")
			}
			if r.Intn(4) == 0 {
				s += fmt.Sprintf(":%d.%d.%d.%d", r.Intn(256), r.Intn(256), r.Intn(256), r.Intn(256))
				s = strings.Replace(s, ":::", "::", 1)
			}
			out = append(out, s)
		default: // noise
			al := "0123456789abcdefABCDEF:.%[]g/ "
			b := make([]byte, r.Intn(12))
			for j := range b {
				b[j] = al[r.Intn(len(al))]
			}
			out = append(out, string(b))
		}
	}
	return out
}

func v4str(x uint64) string {
	return fmt.Sprintf("%d.%d.%d.%d", byte(x>>24), byte(x>>16), byte(x>>8), byte(x))
}

func v6str(x *big.Int) string {
	b := x.FillBytes(make([]byte, 16))
	return net.IP(b).String()
}

func v6full(x *big.Int) string { // never compressed, never dotted
	b := x.FillBytes(make([]byte, 16))
	p := make([]string, 8)
	for i := 0; i < 8; i++ {
		p[i] = strconv.FormatUint(uint64(b[2*i])<<8|uint64(b[2*i+1]), 16)
	}
	return strings.Join(p, ":")
}

var c16Networks = []string{"tcp4", "tcp6", "tcp", "udp4", "udp6", "", "TCP4", "tcp4 ", "ip4", "unix"}

var c16ListPool = [][]string{
	{}, {"0.0.0.0/0"}, {"10.0.0.0/8"}, {"bad"}, {"bad", "10.0.0.0/8"}, {"10.0.0.0/8", "bad"}, {"::/0"},
	{"0.0.0.0/0", "::/0"}, {"fc00::/7"}, {"127.0.0.0/8", "10.0.0.0/8", "192.168.0.0/16"}, {"1.2.3.4/32"},
	{"::1/128"}, {"::ffff:10.0.0.0/104"}, {"10.0.0.0/33", "10.0.0.0/8"}, {"10.0.0.0"}, {""}, {"", "0.0.0.0/0"},
	{"10.1.2.3/8"}, {"192.168.1.0/24", "192.168.2.0/23"}, {"2001:db8::/32", "bad", "fe80::/10"},
	{"10.0.0.0/8 "}, {"10.0.0.0/08"}, {"127.0.0.1/32", "::1/128", "169.254.0.0/16"}, {"::ffff:0:0/96"},
	{"0.0.0.0/1", "128.0.0.0/1"}, {"1.2.3.4/31"}, {"fe80::1%eth0/64", "fe80::/64"},
}

func c16ControlArgs(network, address string, allow, deny []string) [][]byte {
	a := Args(network, address, strconv.Itoa(len(allow)))
	for _, s := range allow {
		a = append(a, B(s))
	}
	for _, s := range deny {
		a = append(a, B(s))
	}
	return a
}

// addresses on and around the edges of every parsable entry of the lists
func c16EdgeAddrs(lists ...[]string) []string {
	var out []string
	for _, l := range lists {
		for _, cidr := range l {
			_, n, err := net.ParseCIDR(cidr)
			if err != nil {
				continue
			}
			base := new(big.Int).SetBytes(n.IP)
			ones, bits := n.Mask.Size()
			size := new(big.Int).Lsh(big.NewInt(1), uint(bits-ones))
			last := new(big.Int).Sub(new(big.Int).Add(base, size), big.NewInt(1))
			max := new(big.Int).Sub(new(big.Int).Lsh(big.NewInt(1), uint(bits)), big.NewInt(1))
			cands := []*big.Int{base, last}
			if base.Sign() > 0 {
				cands = append(cands, new(big.Int).Sub(base, big.NewInt(1)))
			}
			if last.Cmp(max) < 0 {
				cands = append(cands, new(big.Int).Add(last, big.NewInt(1)))
			}
			for _, x := range cands {
				if bits == 32 {
					out = append(out, v4str(x.Uint64()), "::ffff:"+v4str(x.Uint64()))
				} else {
					out = append(out, v6str(x))
				}
			}
		}
	}
	return out
}

func hostPort(ip, port string) string {
	if strings.Contains(ip, ":") {
		return "[" + ip + "]:" + port
	}
	return ip + ":" + port
}

func genC16Net(c *Ctx) {
	r := c.Rng
	// --- parsers of the net package the policy rests on
	corpus := c.c16IPCorpus()
	for _, s := range corpus {
		c.Run("C16.parse_ip", Args(s), "C16.parse_ip", "", "ip corpus")
		c.Count("parse_ip")
	}
	masks := []string{"", "0", "1", "7", "8", "9", "24", "31", "32", "33", "95", "96", "97", "104", "120", "127", "128", "129",
		"008", "+8", "-1", "8 ", " 8", "16777215", "16777216", "99999999999", "8/8", "a", "0x8"}
	bases := []string{"10.1.2.3", "255.255.255.255", "0.0.0.0", "192.168.255.1", "::", "::1", "2001:db8::ff00:42:8329",
		"ffff:ffff:ffff:ffff:ffff:ffff:ffff:ffff", "::ffff:10.1.2.3", "::ffff:a01:203", "::fffe:10.1.2.3", "01.2.3.4", "1.2.3",
		"fe80::1%eth0", "bad", "", "0:0:0:0:0:ffff:ffff:ffff"}
	for _, b := range bases {
		c.Run("C16.parse_cidr", Args(b), "C16.parse_cidr", "", "no slash")
		for _, m := range masks {
			c.Run("C16.parse_cidr", Args(b+"/"+m), "C16.parse_cidr", "", "cidr corpus")
			c.Count("parse_cidr")
		}
	}
	// --- containment: every prefix length, addresses on the edges
	two := big.NewInt(2)
	edge := func(cidr string, fam int, lo, size *big.Int) {
		last := new(big.Int).Sub(new(big.Int).Add(lo, size), big.NewInt(1))
		cands := []*big.Int{lo, last, new(big.Int).Sub(lo, big.NewInt(1)), new(big.Int).Add(last, big.NewInt(1)),
			new(big.Int).Add(lo, new(big.Int).Rand(r, size))}
		for _, x := range cands {
			if x.Sign() < 0 {
				continue
			}
			var texts []string
			if fam == 4 {
				if x.BitLen() > 32 {
					continue
				}
				texts = []string{v4str(x.Uint64()), "::ffff:" + v4str(x.Uint64()), "::" + v4str(x.Uint64())}
			} else {
				if x.BitLen() > 128 {
					continue
				}
				texts = []string{v6str(x), v6full(x)}
			}
			for _, t := range texts {
				c.Run("C16.contains", Args(cidr, t), "C16.contains", "C16.prop.contains", "edge")
				c.Count("contains")
			}
		}
	}
	for p := 0; p <= 32; p++ {
		for k := 0; k < c.Scale(2, 10); k++ {
			a := uint64(r.Uint32())
			size := new(big.Int).Exp(two, big.NewInt(int64(32-p)), nil)
			lo := new(big.Int).SetUint64(a)
			lo.Sub(lo, new(big.Int).Mod(lo, size))
			edge(fmt.Sprintf("%s/%d", v4str(a), p), 4, lo, size)
		}
	}
	for p := 0; p <= 128; p++ {
		for k := 0; k < c.Scale(1, 6); k++ {
			a := new(big.Int).Rand(r, new(big.Int).Lsh(big.NewInt(1), 128))
			if r.Intn(3) == 0 { // short addresses
				a.Rsh(a, uint(r.Intn(120)))
			}
			size := new(big.Int).Exp(two, big.NewInt(int64(128-p)), nil)
			lo := new(big.Int).Sub(a, new(big.Int).Mod(a, size))
			edge(fmt.Sprintf("%s/%d", v6str(a), p), 6, lo, size)
		}
	}
	// IPv4-mapped entries written as IPv6, around the /96 boundary
	for p := 88; p <= 128; p++ {
		a := uint64(r.Uint32())
		cidr := fmt.Sprintf("::ffff:%s/%d", v4str(a), p)
		for _, t := range []string{v4str(a), "::ffff:" + v4str(a), v4str(a ^ 1), v4str(a ^ 0x80000000), "0.0.0.0", "255.255.255.255",
			"::fffe:" + v4str(a), "::" + v4str(a), "::ffff:0:0", "::fffe:ffff:ffff", "0:0:0:0:0:fffe::", "::1:0:0:0"} {
			c.Run("C16.contains", Args(cidr, t), "C16.contains", "C16.prop.contains", "mapped entry")
			c.Count("contains.mapped")
		}
	}
	for _, pair := range [][2]string{{"::/0", "1.2.3.4"}, {"0.0.0.0/0", "::1"}, {"0.0.0.0/0", "::ffff:1.2.3.4"}, {"::/0", "::ffff:1.2.3.4"},
		{"::/0", "::"}, {"0.0.0.0/0", "0.0.0.0"}, {"::/96", "::1.2.3.4"}, {"0.0.0.0/32", "0.0.0.0"}, {"0.0.0.0/32", "0.0.0.1"},
		{"::/128", "::"}, {"::/128", "::1"}, {"255.255.255.255/32", "255.255.255.255"}, {"bad", "1.2.3.4"}, {"1.2.3.4/8", "bad"}} {
		c.Run("C16.contains", Args(pair[0], pair[1]), "C16.contains", "C16.prop.contains", "fixed")
	}
	// --- SplitHostPort
	for _, s := range []string{"", ":", "a:1", "a", "1.2.3.4:443", "1.2.3.4", "1.2.3.4:", ":443", "[::1]:443", "[::1]", "[::1]:", "::1:443",
		"[::1]443", "[::1]:443:1", "[::1]]:443", "[[::1]:443", "[::1:443", "a]:1", "a[:1", "[a]:1", "[1.2.3.4]:443", "a:b:1", "[]:1",
		"[::1]x:443", "[::1%eth0]:1", "example.com:443", "[::1]:[", "[::1]:]", "[:1", "]:1", "[x]y]:1"} {
		c.Run("C16.split_host", Args(s), "C16.split_host", "", "hostport corpus")
		c.Count("split_host")
	}
	al := "a1.:[]-"
	for k := 0; k < c.Scale(600, 6000); k++ {
		b := make([]byte, r.Intn(9))
		for j := range b {
			b[j] = al[r.Intn(len(al))]
		}
		c.Run("C16.split_host", Args(string(b)), "C16.split_host", "", "hostport random")
	}
	// --- server names (exactly what ResolveServer starts from)
	sal := []byte("a1.:[]-_")
	var rec func(prefix []byte, depth int)
	rec = func(prefix []byte, depth int) {
		c.Run("C16.servername", [][]byte{append([]byte{}, prefix...)}, "C16.servername", "", "bounded-exhaustive")
		c.Count("servername.exh")
		if depth == 0 {
			return
		}
		for _, ch := range sal {
			rec(append(prefix, ch), depth-1)
		}
	}
	rec(nil, c.Scale(4, 5))
	for _, s := range c16Names {
		c.Run("C16.servername", Args(s), "C16.servername", "", "names")
	}
	for _, s := range corpus[:200] {
		for _, suffix := range []string{"", ":1", ":65535", ":65536"} {
			c.Run("C16.servername", Args(s+suffix), "C16.servername", "", "literal")
			c.Run("C16.servername", Args("["+s+"]"+suffix), "C16.servername", "", "bracketed literal")
		}
	}
}

func genC16Control(c *Ctx) {
	r := c.Rng
	ctlOp, ctlProp := c16Ops("C16.control", "C16.prop.control")
	fixedAddrs := []string{"1.2.3.4", "10.0.0.1", "127.0.0.1", "192.168.1.1", "0.0.0.0", "255.255.255.255", "::1", "::",
		"fc00::1", "fe80::1", "2001:db8::1", "::ffff:10.0.0.1", "::ffff:a00:1", "::10.0.0.1"}
	badAddrs := []string{"example.com:443", "1.2.3.4", "[::1]", "1.2.3.4:", ":443", "[1.2.3.4]:443", "::1:443", "", "10.0.0.1:443:1",
		"[10.0.0.1:443", "10.0.0.01:443", "[fe80::1%eth0]:443", "localhost:80", "10.0.0.1 :443", "[::ffff:10.0.0.1]:443", "10.0.0.1:http"}
	for ai, allow := range c16ListPool {
		for di, deny := range c16ListPool {
			if !c.Thorough() && ai > 12 && di > 12 && r.Intn(3) != 0 {
				continue
			}
			addrs := append(c16EdgeAddrs(allow, deny), fixedAddrs...)
			for _, a := range addrs {
				netw := "tcp4"
				if strings.Contains(a, ":") {
					netw = "tcp6"
				}
				if r.Intn(8) == 0 {
					netw = c16Networks[r.Intn(len(c16Networks))]
				}
				impl := "C16.control"
				if r.Intn(5) == 0 {
					impl = "C16.control_dnscache"
				}
				c.Run(impl, c16ControlArgs(netw, hostPort(a, "8448"), allow, deny), ctlOp, ctlProp,
					fmt.Sprintf("allow#%d deny#%d", ai, di))
				c.Count("control." + netw)
			}
			bad := badAddrs[r.Intn(len(badAddrs))]
			c.Run("C16.control", c16ControlArgs("tcp4", bad, allow, deny), ctlOp, ctlProp, "malformed address")
		}
	}
	for _, n := range c16Networks {
		for _, a := range append(badAddrs, "10.0.0.1:1", "[::1]:1") {
			c.Run("C16.control", c16ControlArgs(n, a, []string{"0.0.0.0/0", "::/0"}, []string{}), ctlOp, ctlProp, "network x address")
			c.Count("control.shape")
		}
	}
	// random lists drawn from a pool of entries, incl. unparsable ones at every position
	entries := []string{"10.0.0.0/8", "10.128.0.0/9", "172.16.0.0/12", "192.168.0.0/16", "127.0.0.0/8", "0.0.0.0/0", "::/0", "fc00::/7",
		"::1/128", "bad", "", "10.0.0.0/33", "1.2.3.4/32", "::ffff:10.0.0.0/104", "10.0.0.0/8/8", "10.0.0.0-8"}
	for k := 0; k < c.Scale(1500, 20000); k++ {
		pick := func() []string {
			n := r.Intn(5)
			l := make([]string, n)
			for i := range l {
				l[i] = entries[r.Intn(len(entries))]
			}
			return l
		}
		allow, deny := pick(), pick()
		addrs := append(c16EdgeAddrs(allow, deny), fixedAddrs...)
		a := addrs[r.Intn(len(addrs))]
		netw := "tcp4"
		if strings.Contains(a, ":") {
			netw = "tcp6"
		}
		c.Run("C16.control", c16ControlArgs(netw, hostPort(a, strconv.Itoa(r.Intn(65536))), allow, deny), ctlOp, ctlProp, "random lists")
		c.Count("control.random")
	}
	for _, l := range [][2][]string{{{}, {}}, {{"0.0.0.0/0"}, {}}, {{}, {"10.0.0.0/8"}}, {{"bad"}, {}}, {{""}, {""}}} {
		a := Args(strconv.Itoa(len(l[0])))
		for _, s := range append(append([]string{}, l[0]...), l[1]...) {
			a = append(a, B(s))
		}
		c.Run("C16.dialer_has_control", a, "C16.dialer_has_control", "", "dialer")
	}
	// the control function as the runtime really calls it: a dial to a loopback listener
	if ln, err := net.Listen("tcp4", "127.0.0.1:0"); err != nil {
		c.Count("dial.skipped-no-loopback")
		return
	} else {
		ln.Close()
	}
	for _, l := range [][2][]string{{{"0.0.0.0/0"}, {}}, {{"0.0.0.0/0"}, {"127.0.0.0/8"}}, {{"10.0.0.0/8"}, {}}, {{"127.0.0.1/32"}, {"10.0.0.0/8"}},
		{{"0.0.0.0/0"}, {"bad", "127.0.0.0/8"}}, {{"bad", "127.0.0.0/8"}, {}}, {{"::/0"}, {}}, {{"127.0.0.0/8"}, {"127.0.0.1/32"}}} {
		out := c.Run("C16.dial_loopback", c16ControlArgs("tcp4", "?", l[0], l[1]), ctlOp, ctlProp, "real dial")
		c.Count("dial." + string(out))
	}
}

var c16Names = []string{"example.com", "sub.example.com", "EXAMPLE.com", "example.com.", "a-b.c", "localhost", "x", "1.2.3.4", "1.2.3.4:443",
	"[::1]", "[::1]:8448", "[2001:db8::1]", "[2001:DB8::1]:1", "[1.2.3.4]", "[1.2.3.4]:1", "::1", "::ffff:1.2.3.4", "2001:db8::1",
	"[::ffff:1.2.3.4]", "example.com:8448", "example.com:0", "example.com:65535", "example.com:65536", "example.com:", "example.com:http",
	"example.com:+80", "example.com:080", "", ":", ":80", "[", "[]", "[]:1", "[::1", "[::g]", "::1]", "[::1]x", "[::1%eth0]", "exa mple.com",
	"exa_mple.com", "ex\xc3\xa4mple.com", "example.com/", "a..b", "-", ".", "999.999.999.999", "1.2.3", "01.2.3.4", "1.2.3.4.", "0x7f.1",
	"a:b:80", "[a]:80", "[example.com]", "matrix.org", "xn--bcher-kva.example"}

type c16WK struct {
	label  string
	neterr bool
	status int
	cl     string
	mode   string
	body   string
}

func padTo(s string, n int) string {
	if len(s) >= n {
		return s
	}
	return s + strings.Repeat(" ", n-len(s))
}

const c16Max = 50 * 1024

func c16WKOutcomes() []c16WK {
	d := func(label, to string) c16WK {
		return c16WK{label: label, status: 200, mode: "ok", body: `{"m.server":"` + to + `"}`}
	}
	return []c16WK{
		{label: "neterr", neterr: true, mode: "ok"},
		{label: "404", status: 404, mode: "ok", body: `{"m.server":"ignored.example.net"}`},
		{label: "500", status: 500, mode: "ok"},
		{label: "204", status: 204, mode: "ok", body: `{"m.server":"ignored.example.net"}`},
		d("name", "delegate.example.net"),
		d("name+port", "delegate.example.net:443"),
		d("ip4", "10.9.8.7"),
		d("ip4+port", "10.9.8.7:444"),
		d("ip6", "[2001:db8::5]"),
		d("ip6+port", "[2001:db8::5]:445"),
		d("invalid", "bad name"),
		d("invalid-url", "https://delegate.example.net"),
		d("invalid-port", "delegate.example.net:99999"),
		d("empty", ""),
		d("self", "example.com"),
		{label: "malformed", status: 200, mode: "ok", body: `{"m.server":"delegate.example.net"`},
		{label: "no-key", status: 200, mode: "ok", body: `{"server":"delegate.example.net"}`},
		{label: "wrong-type", status: 200, mode: "ok", body: `{"m.server":["delegate.example.net"]}`},
		{label: "upper-key", status: 200, mode: "ok", body: `{"M.Server":"delegate.example.net"}`},
		{label: "declared-oversize", status: 200, cl: "51201", mode: "ok", body: `{"m.server":"delegate.example.net"}`},
		{label: "declared-max", status: 200, cl: "51200", mode: "ok", body: `{"m.server":"delegate.example.net"}`},
		{label: "oversize-padded", status: 200, mode: "ok", body: padTo(`{"m.server":"delegate.example.net"}`, 60*1024)},
		{label: "exact-max", status: 200, mode: "ok", body: padTo(`{"m.server":"delegate.example.net"}`, c16Max)},
		{label: "readerr", status: 200, mode: "readerr", body: `{"m.server":"delegate.example.net"}`},
	}
}

type c16SRVPlan struct {
	label string
	// entries for a name: svc -> entry
	fed, legacy *c16SRVEntry
}

func c16SRVOutcomes() []c16SRVPlan {
	one := func(t string, p uint16) *c16SRVEntry {
		return &c16SRVEntry{kind: "ok", recs: []c16SRVRec{{target: t, port: p, priority: 10}}}
	}
	k := func(kind string) *c16SRVEntry { return &c16SRVEntry{kind: kind} }
	return []c16SRVPlan{
		{label: "none"},
		{label: "nodata", fed: k("nodata"), legacy: k("nodata")},
		{label: "fed", fed: one("fed.target.example", 4242)},
		{label: "legacy-only", fed: k("nxdomain"), legacy: one("legacy.target.example", 4343)},
		{label: "both", fed: one("fed.target.example", 4242), legacy: one("legacy.target.example", 4343)},
		{label: "several", fed: &c16SRVEntry{kind: "ok", recs: []c16SRVRec{{"c.target.example", 3, 30}, {"a.target.example", 1, 10}, {"b.target.example", 65535, 20}}}},
		{label: "several-legacy", fed: k("nodata"), legacy: &c16SRVEntry{kind: "ok", recs: []c16SRVRec{{"b.t.example", 2, 2}, {"a.t.example", 0, 1}}}},
		{label: "root-target", fed: one("", 8448)},
		{label: "fed-servfail", fed: k("servfail"), legacy: one("legacy.target.example", 4343)},
		{label: "fed-refused", fed: k("refused"), legacy: one("legacy.target.example", 4343)},
		{label: "fed-writeerr", fed: k("writeerr"), legacy: one("legacy.target.example", 4343)},
		{label: "legacy-servfail", fed: k("nxdomain"), legacy: k("servfail")},
	}
}

func c16ResolveArgs(name, trace string, wk c16WK, now string, srv map[string]c16SRVPlan) [][]byte {
	mode := "reply"
	if wk.neterr {
		mode = "neterr"
	}
	a := [][]byte{B(name), B(trace), B(mode), B(strconv.Itoa(wk.status)), B(wk.cl), B(""), B(""), B(wk.mode), B(wk.body), B(now)}
	names := make([]string, 0, len(srv))
	for n := range srv {
		names = append(names, n)
	}
	sort.Strings(names)
	for _, n := range names {
		p := srv[n]
		for _, se := range []struct {
			svc string
			e   *c16SRVEntry
		}{{"matrix-fed", p.fed}, {"matrix", p.legacy}} {
			if se.e == nil {
				continue
			}
			a = append(a, B(se.svc), B(n), B(se.e.kind), B(strconv.Itoa(len(se.e.recs))))
			for _, r := range se.e.recs {
				a = append(a, B(r.target), B(strconv.Itoa(int(r.port))), B(strconv.Itoa(int(r.priority))))
			}
		}
	}
	return a
}

func genC16Resolve(c *Ctx) {
	r := c.Rng
	resOp, resProp := c16Ops("C16.resolve", "C16.prop.resolve")
	wks := c16WKOutcomes()
	srvs := c16SRVOutcomes()
	delegates := map[string]string{"name": "delegate.example.net", "self": "example.com", "upper-key": "delegate.example.net",
		"declared-max": "delegate.example.net", "exact-max": "delegate.example.net"}
	for _, name := range c16Names {
		nice := c16Nice.MatchString(name)
		_, port, valid := spec.ParseAndValidateServerName(spec.ServerName(name))
		plain := valid && port == -1 && nice
		for wi, wk := range wks {
			for si, sp := range srvs {
				if !plain && (wi+si)%7 != 0 {
					continue // literals, ports and invalid names never look anything up: a sample is enough
				}
				if len(wk.body) > 4096 && si%4 != 0 && !c.Thorough() {
					continue
				}
				trace := "1"
				srv := map[string]c16SRVPlan{}
				if nice {
					srv[name] = sp
				} else {
					trace = "w"
				}
				// the delegated name gets its own records; the other name gets decoys
				if dn, ok := delegates[wk.label]; ok && dn != name {
					if srvKey("x", dn) == srvKey("x", name) {
						continue // same DNS name written differently: the stub cannot tell them apart
					}
					srv[dn] = sp
					if nice {
						srv[name] = srvs[(si+2)%len(srvs)]
					}
				}
				c.Run("C16.resolve", c16ResolveArgs(name, trace, wk, "0", srv), resOp, resProp,
					"wk="+wk.label+" srv="+sp.label)
				c.Count("resolve.wk=" + wk.label)
				c.Count("resolve.srv=" + sp.label)
			}
		}
	}
	// delegation to every name shape (the delegate must be resolved without a second well-known lookup)
	for _, dn := range c16Names {
		if strings.ContainsAny(dn, "\"\\") || dn == "" {
			continue
		}
		if dn != "example.com" && srvKey("x", dn) == srvKey("x", "example.com") {
			continue // same DNS name written differently: the stub cannot tell them apart
		}
		for si, sp := range srvs {
			if si%3 != 0 && !c.Thorough() {
				continue
			}
			wk := c16WK{label: "to:" + dn, status: 200, mode: "ok", body: `{"m.server":"` + dn + `"}`}
			srv := map[string]c16SRVPlan{"example.com": srvs[(si+1)%len(srvs)]}
			trace := "1"
			if c16Nice.MatchString(dn) {
				srv[dn] = sp
			} else if _, p, ok := spec.ParseAndValidateServerName(spec.ServerName(dn)); ok && p == -1 {
				trace = "w"
			}
			c.Run("C16.resolve", c16ResolveArgs("example.com", trace, wk, "0", srv), resOp, resProp, "delegate shape srv="+sp.label)
			c.Count("resolve.delegate-shape")
		}
	}
	// random well-formed names and ports
	for k := 0; k < c.Scale(200, 3000); k++ {
		labels := 1 + r.Intn(3)
		parts := make([]string, labels)
		for i := range parts {
			b := make([]byte, 1+r.Intn(6))
			for j := range b {
				b[j] = "abcxyz019"[r.Intn(9)]
			}
			parts[i] = string(b)
		}
		name := strings.Join(parts, ".")
		if r.Intn(4) == 0 {
			name += ":" + strconv.Itoa(r.Intn(70000))
		}
		wk := wks[r.Intn(len(wks))]
		if len(wk.body) > 4096 {
			wk = wks[4]
		}
		sp := srvs[r.Intn(len(srvs))]
		srv := map[string]c16SRVPlan{}
		if c16Nice.MatchString(name) {
			srv[name] = sp
		}
		if dn, ok := delegates[wk.label]; ok && dn != name {
			srv[dn] = srvs[r.Intn(len(srvs))]
		}
		c.Run("C16.resolve", c16ResolveArgs(name, "1", wk, "0", srv), resOp, resProp, "random name")
		c.Count("resolve.random")
	}
}

func genC16WellKnown(c *Ctx) {
	statuses := []string{"200", "404", "500", "204", "201", "301", "199", "0"}
	cls := []string{"", "10", "51200", "51201", "-1", "abc", "+51201", "99999999999999999999", " 51201", "051201", "51201 ", "5.1e4",
		"9223372036854775807", "9223372036854775808", "-9223372036854775809", "0"}
	ccs := []string{"", "max-age=60", "public, max-age=60", "MAX-AGE=60", "Max-Age=61", "max-age=60, max-age=120", "max-age=120, max-age=abc",
		"max-age=abc", "max-age=", "max-age =60", "max-age= 60", " max-age=60 ", "  max-age=60", "max-age=-5", "max-age=9223372036854775807",
		"max-age=9223372036854775808", "max-age=-9223372036854775808", "s-maxage=60", "max-age=60=1", "max-age", "no-cache", "max-age=+7", "\tmax-age=60",
		"max-age=60;x", "max-age=0", "public\nmax-age=60", "max-age=60\nmax-age=abc", "max-age=abc\nmax-age=61", "no-cache\nprivate", "public\n\nmax-age=62", "a=1, b\nMax-Age=63 , c", "max-age=9223372036854775806", "max-age=9223372035000000000", "public\nmax-age=9223372036854775807", "no-store,max-age=5,private", ",", ",,max-age=9", "maxage=60", "max-age=00060", "x=max-age=60", "max-age=6 0"}
	exps := []string{"", "Wed, 21 Oct 2065 07:28:00 GMT", "Thu, 01 Jan 1970 00:00:00 GMT", "garbage", "Wed, 21 Oct 2065 07:28:00 UTC",
		"Wed, 21 Oct 2015 07:28:00 +0000", "Wed, 21 Oct 2065 07:28:00 PST", "0", "Sun, 06 Nov 1994 08:49:37 GMT", "Sunday, 06-Nov-94 08:49:37 GMT"}
	ok := `{"m.server":"delegate.example.net:443"}`
	bodies := []string{ok, `{"m.server":"a"}`, ``, `null`, `[]`, `"x"`, `5`, `true`, `{}`, `{"m.server":""}`, `{"m.server":null}`,
		`{"m.server":5}`, `{"m.server":{"a":1}}`, `{"m.server":["x"]}`, `{"m.server":true}`, `{"m.server":"a","m.server":"b"}`,
		`{"m.server":"a","m.server":null}`, `{"m.server":"a","m.server":5}`, `{"m.server":5,"m.server":"a"}`, `{"M.SERVER":"up"}`,
		`{"m.Server":"mixed","x":1}`, `{"m.server":"a","M.SERVER":"b"}`, `{"M.SERVER":"b","m.server":"a"}`, "{\"m.\xc5\xbferver\":\"longs\"}",
		`{"m.ſerver":"longs-escaped"}`, "{\"m.server\xe2\x84\xaa\":\"kelvin\"}", `{"m_server":"a"}`, `{"m.server ":"a"}`, `{"m.server":"a"`,
		`{"m.server":"a"}x`, `{"m.server":"a"} `, " \n\t{\"m.server\" : \"a\"}\r\n", `{"m.server":"a",}`, `{'m.server':'a'}`, `{"m.server":"a\n"}`,
		`{"m.server":"a\/b"}`, `{"m.server":"a","CacheExpiresAt":12345}`, `{"m.server":"a","cacheexpiresat":-7}`, `{"m.server":"a","CacheExpiresAt":"x"}`,
		`{"m.server":"a","CacheExpiresAt":1.5}`, `{"m.server":"a","CacheExpiresAt":1e3}`, `{"m.server":"a","CacheExpiresAt":null}`,
		`{"m.server":"a","CacheExpiresAt":9223372036854775807}`, `{"m.server":"a","CacheExpiresAt":9223372036854775808}`,
		`{"m.server":"a","CacheExpiresAt":-0}`, `{"CacheExpiresAt":5}`, "{\"m.server\":\"a\",\"cacheexpire\xc5\xbfat\":77}", `{"m.server":"a","other":{"m.server":5}}`,
		`{"other":{"m.server":"nested"}}`, `[{"m.server":"a"}]`, `{"m.server":"a","n":01}`, `{"m.server":"a","n":-}`, `{"m.server":"\ud800"}`, `{"a":"\x"}`}
	wkOp, wkProp := c16Ops("C16.well_known", "C16.prop.well_known")
	run := func(st, cl, cc, ex, mode, body, desc string) {
		c.Run("C16.well_known", Args(st, cl, cc, "", mode, body, "0", ex), wkOp, wkProp, desc)
	}
	for _, st := range statuses {
		for _, cl := range cls {
			run(st, cl, "max-age=10", "", "ok", ok, "status x content-length")
			c.Count("wk.status=" + st)
		}
	}
	for _, cc := range ccs {
		for _, ex := range exps {
			run("200", "", cc, ex, "ok", ok, "cache-control x expires")
			c.Count("wk.cache")
		}
	}
	for i, b := range bodies {
		run("200", "", ccs[i%len(ccs)], exps[i%3], "ok", b, "body")
		run("200", strconv.Itoa(len(b)), "", exps[1], "ok", b, "body with length")
		run("200", "", "", "", "readerr", b, "body reader fails")
		c.Count("wk.body")
	}
	// sizes around the limit
	sizes := []int{c16Max - 1, c16Max, c16Max + 1, c16Max + 2, 60 * 1024, 2 * c16Max}
	for _, n := range sizes {
		run("200", "", "max-age=5", "", "ok", padTo(ok, n), fmt.Sprintf("padded to %d, no content-length", n))
		run("200", strconv.Itoa(n), "", "", "ok", padTo(ok, n), fmt.Sprintf("padded to %d, honest content-length", n))
		run("200", "10", "", "", "ok", padTo(ok, n), fmt.Sprintf("padded to %d, understated content-length", n))
		run("200", "", "", "", "ok", strings.Repeat(" ", n-len(ok))+ok, fmt.Sprintf("object at the end of %d bytes", n))
		run("200", "", "", "", "ok", padTo(ok, c16Max)[:n%c16Max+1]+strings.Repeat("x", 0), "prefix")
		if c.Thorough() && n <= c16Max+1 { // (List.rev in the shared JSON parser is quadratic: about 30 s per case)
			run("200", "", "", "", "ok", `{"m.server":"`+strings.Repeat("a", n-16)+`"}`, fmt.Sprintf("one string, %d bytes", n))
		}
		run("200", "", "", "", "ok", padTo(`{"m.server":"`+strings.Repeat("a", 3000)+`"}`, n), fmt.Sprintf("3000-byte string padded to %d bytes", n))
		run("200", "", "", "", "readerr", padTo(ok, n), "big body, reader fails")
		c.Count("wk.size")
	}
	// valid for exactly the first 51200 bytes, garbage after
	run("200", "", "", "", "ok", padTo(ok, c16Max)+"garbage", "valid prefix of exactly the limit, garbage after")
	run("200", "", "", "", "ok", padTo(ok, c16Max)+`}`, "valid prefix, one more byte")
	run("200", "", "", "", "ok", padTo(ok, c16Max-1)+`x`, "garbage as the last permitted byte")
}

func c16Ops(corr, prop string) (string, string) { return corr, prop }

// connections really attempted, through DNSCache.DialContext and through NewClient, to listeners
// on 127.0.0.1 and [::1]: by IP literal, by IPv4-mapped literal, by a name resolving there and
// over the DialContext retry path. The oracle is control_allows_iff on the address dialled.
func genC16Dial(c *Ctx) {
	ctlOp, ctlProp := c16Ops("C16.dial", "C16.prop.dial")
	if ln, err := net.Listen("tcp4", "127.0.0.1:0"); err != nil {
		c.Count("dial_e2e.skipped-no-loopback")
		return
	} else {
		ln.Close()
	}
	have6 := false
	if ln, err := net.Listen("tcp6", "[::1]:0"); err == nil {
		ln.Close()
		have6 = true
	}
	lists := [][2][]string{
		{{"0.0.0.0/0", "::/0"}, {}},
		{{"0.0.0.0/0", "::/0"}, {"127.0.0.0/8", "::1/128"}},
		{{"0.0.0.0/0", "::/0"}, {"bad", "127.0.0.0/8", "::1/128"}},
		{{"10.0.0.0/8"}, {}},
		{{"127.0.0.1/32", "::1/128"}, {"10.0.0.0/8"}},
		{{"127.0.0.0/8"}, {"127.0.0.1/32"}},
		{{"::/0"}, {}},
		{{"0.0.0.0/0"}, {"::ffff:127.0.0.0/104"}},
	}
	for _, mode := range []string{"cache", "client-cache", "client"} {
		for _, target := range []string{"ip4", "mapped", "name4", "retry4", "ip6", "name6"} {
			if (target == "ip6" || target == "name6") && !have6 {
				c.Count("dial_e2e.skipped-no-ipv6-loopback")
				continue
			}
			if mode == "client" && (target == "retry4" || target == "name6") {
				continue // no cache: no retry path, and no stub to make a name resolve to ::1
			}
			for _, l := range lists {
				a := append(Args(mode, target, strconv.Itoa(len(l[0]))), Args(append(append([]string{}, l[0]...), l[1]...)...)...)
				out := c.Run("C16.dial_e2e", a, ctlOp, ctlProp, "end-to-end dial "+mode+" "+target)
				c.Count("dial_e2e." + mode + "." + target + "=" + string(out))
			}
		}
	}
}

// Round trips whose first attempts fail, for every resolution step, under allow / deny lists that
// forbid nothing / the well-known host only / the final target only / both; every connection and
// every attempt the listeners see (both passes, both round trips) is checked.
func genC16RoundTrip(c *Ctx) {
	rtOp, rtProp := c16Ops("C16.round_trip", "C16.prop.round_trip")
	if _, err := c16Server(); err != nil {
		c.Count("round_trip.skipped-cannot-listen-on-443")
		return
	}
	type plan struct {
		label, name, wks string
		wk               c16WK
		srv              [][]string // svc, qname, kind, then target/port/priority triples
	}
	to := func(d string) c16WK {
		return c16WK{label: "to:" + d, status: 200, mode: "ok", body: `{"m.server":"` + d + `"}`}
	}
	none := c16WK{label: "404", status: 404, mode: "ok"}
	plans := []plan{
		{"ip-literal+port", "127.0.0.3:PORT", "1", none, nil},
		{"ip-literal", "127.0.0.3", "1", none, nil},
		{"explicit-port", "example.com:PORT", "1", none, nil},
		{"wk->name+port", "example.com", "1", to("delegate.example.net:PORT"), [][]string{{"matrix-fed", "example.com", "ok", "decoy.example", "PORT", "1"}}},
		{"wk->ip+port", "example.com", "1", to("127.0.0.3:PORT"), nil},
		{"wk->ip", "example.com", "1", to("127.0.0.3"), nil},
		{"wk->name->srv", "example.com", "1", to("delegate.example.net"), [][]string{{"matrix-fed", "delegate.example.net", "ok", "fed.target.example", "PORT", "10"}, {"matrix-fed", "example.com", "ok", "decoy.example", "PORT", "1"}}},
		{"wk->name->8448", "example.com", "1", to("delegate.example.net"), nil},
		{"srv-fed", "example.com", "1", none, [][]string{{"matrix-fed", "example.com", "ok", "fed.target.example", "PORT", "10"}}},
		{"srv-legacy", "example.com", "1", c16WK{label: "neterr", neterr: true, mode: "ok"}, [][]string{{"matrix", "example.com", "ok", "fed.target.example", "PORT", "10"}}},
		{"srv-two-live", "example.com", "1", none, [][]string{{"matrix-fed", "example.com", "ok", "fed.target.example", "PORT", "20", "a.target.example", "PORT", "10"}}},
		{"srv-dead-then-live", "example.com", "1", none, [][]string{{"matrix-fed", "example.com", "ok", "fed.target.example", "PORT", "20", "a.target.example", "CLOSED", "10"}}},
		{"srv-all-dead", "example.com", "1", none, [][]string{{"matrix-fed", "example.com", "ok", "a.target.example", "CLOSED", "10"}}},
		{"fallback-8448", "example.com", "1", none, nil},
		{"invalid-name", "exa_mple.com", "1", none, nil},
		{"wk->invalid, srv", "example.com", "1", to("https://delegate.example.net"), [][]string{{"matrix-fed", "example.com", "ok", "fed.target.example", "PORT", "10"}}},
		{"wk->invalid, 8448", "example.com", "1", to("not a server name"), nil},
		{"wk->invalid trailing slash", "example.com", "1", to("delegate.example.net:8448/"), nil},
		// the answers change between the first resolution and the one made for the retry / the next round trip
		{"srv moves dead->live", "example.com", "1", none, [][]string{{"matrix-fed", "example.com", "ok", "a.target.example", "CLOSED", "10"}, {"matrix-fed@2", "example.com", "ok", "fed.target.example", "PORT", "10"}}},
		{"srv moves live->other", "example.com", "1", none, [][]string{{"matrix-fed", "example.com", "ok", "a.target.example", "PORT", "10"}, {"matrix-fed@2", "example.com", "ok", "fed.target.example", "PORT", "10"}}},
		{"srv disappears", "example.com", "1", none, [][]string{{"matrix-fed", "example.com", "ok", "a.target.example", "CLOSED", "10"}, {"matrix-fed@2", "example.com", "nxdomain"}}},
		{"srv appears", "example.com", "1", none, [][]string{{"matrix-fed@2", "example.com", "ok", "fed.target.example", "PORT", "10"}}},
		{"wk delegate moves", "example.com", "1", to("delegate.example.net:CLOSED\"}\n@2\n{\"m.server\":\"delegate.example.net:PORT"), nil},
		{"wk delegation appears", "example.com", "1", to("not a server name\"}\n@2\n{\"m.server\":\"delegate.example.net:PORT"), nil},
		{"wk delegation becomes invalid", "example.com", "1", to("delegate.example.net:CLOSED\"}\n@2\n{\"m.server\":\"bad name"), nil},
		{"lookups-off name+port", "example.com:PORT", "0", none, nil},
		{"lookups-off ip+port", "127.0.0.3:PORT", "0", none, nil},
	}
	// example.com (the well-known host) lives at 127.0.0.2, everything a request can end up at
	// at 127.0.0.3 (literals) or 127.0.0.4 (delegates and SRV targets)
	hosts := []string{"example.com", "127.0.0.2", "delegate.example.net", "127.0.0.4", "fed.target.example", "127.0.0.4",
		"a.target.example", "127.0.0.7", "decoy.example", "127.0.0.5", "redirected.example", "127.0.0.6"}
	all := []string{"0.0.0.0/0", "::/0"}
	policies := []struct {
		label       string
		allow, deny []string
	}{
		{"open", all, nil},
		{"well-known host denied", all, []string{"127.0.0.2/32"}},
		{"targets denied", all, []string{"127.0.0.3/32", "127.0.0.4/32", "127.0.0.7/32"}},
		{"both denied", all, []string{"bad", "127.0.0.2/31", "127.0.0.4/32"}},
		{"only the targets allowed", []string{"127.0.0.3/32", "127.0.0.4/32", "127.0.0.7/32"}, nil},
		{"loopback denied", all, []string{"127.0.0.0/8"}},
	}
	mk := func(p plan, k, nrt int, allow, deny []string) [][]byte {
		mode := "reply"
		if p.wk.neterr {
			mode = "neterr"
		}
		a := Args(p.name, p.wks, strconv.Itoa(k), strconv.Itoa(nrt), "CLOSED", strconv.Itoa(len(allow)))
		a = append(a, Args(allow...)...)
		a = append(a, B(strconv.Itoa(len(deny))))
		a = append(a, Args(deny...)...)
		a = append(a, B(strconv.Itoa(len(hosts)/2)))
		a = append(a, Args(hosts...)...)
		a = append(a, Args(mode, strconv.Itoa(p.wk.status), "", "", "", p.wk.mode, p.wk.body, "0")...)
		for _, e := range p.srv {
			a = append(a, B(e[0]), B(e[1]), B(e[2]), B(strconv.Itoa((len(e)-3)/3)))
			for _, x := range e[3:] {
				a = append(a, B(x))
			}
		}
		return a
	}
	for pi, p := range plans {
		for qi, pol := range policies {
			for k := 0; k <= 5; k++ {
				if qi > 0 && k > 1 && (pi+qi+k)%3 != 0 && !c.Thorough() {
					continue // the full range of failing handshakes under the open policy, a sample under the others
				}
				for nrt := 1; nrt <= 2; nrt++ {
					if qi > 0 && nrt == 2 && k != 1 && !c.Thorough() {
						continue
					}
					c.Run("C16.round_trip", mk(p, k, nrt, pol.allow, pol.deny), rtOp, rtProp,
						fmt.Sprintf("round trip %s, lists: %s, first %d handshakes fail, %d round trips", p.label, pol.label, k, nrt))
					c.Count("round_trip." + p.label)
					c.Count("round_trip.lists=" + pol.label)
				}
			}
		}
	}
	// a well-known reply that redirects to a host in a denied range (the redirect handling of
	// net/http is outside the model: specification oracle only)
	for _, pol := range policies {
		p := plan{"wk-redirect", "example.com", "1", c16WK{label: "302", status: 302, mode: "ok", body: "https://redirected.example/.well-known/matrix/server"}, nil}
		deny := append(append([]string{}, pol.deny...), "127.0.0.6/32")
		c.Run("C16.round_trip", mk(p, 0, 1, pol.allow, deny), "", rtProp, "well-known redirect into a denied range, lists: "+pol.label)
		c.Count("round_trip.redirect")
	}
}

func genC16(c *Ctx) {
	genC16RoundTrip(c)
	genC16Dial(c)
	genC16Net(c)
	genC16Control(c)
	genC16WellKnown(c)
	genC16Resolve(c)
}
