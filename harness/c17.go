package main

// Property C17: identifiers, size limits and per-version traits.
// Implementation side: spec.NewUserID / NewRoomID / ParseAndValidateServerName / Base64Bytes /
// SenderID, gomatrixserverlib.SplitID / checkID (hook) / NewEventFromUntrustedJSON /
// EventBuilder.Build / the IRoomVersion accessors of every registered room version.

import (
	"bytes"
	"context"
	"crypto/sha256"
	"encoding/base64"
	"encoding/hex"
	"encoding/json"
	"errors"
	"fmt"
	"net"
	"sort"
	"strconv"
	"strings"
	"time"
	"unicode/utf8"

	gmsl "github.com/matrix-org/gomatrixserverlib"
	"github.com/matrix-org/gomatrixserverlib/spec"
	"github.com/tidwall/gjson"
	"golang.org/x/crypto/ed25519"
)

// ---------- observables ----------

func c17ServerName(s string) string {
	host, port, ok := spec.ParseAndValidateServerName(spec.ServerName(s))
	if !ok {
		return "invalid"
	}
	return "ok\t" + host + "\t" + strconv.Itoa(port)
}

func c17UserID(hist bool, s string) string {
	u, err := spec.NewUserID(s, hist)
	if err != nil || u == nil {
		return "invalid"
	}
	if u.String() != s {
		return "ok-raw-differs"
	}
	return "ok\t" + u.Local() + "\t" + string(u.Domain())
}

func c17RoomID(s string) string {
	r, err := spec.NewRoomID(s)
	if err != nil || r == nil {
		return "invalid"
	}
	if r.String() != s {
		return "ok-raw-differs"
	}
	dom, domainless := "", false
	func() {
		defer func() {
			if recover() != nil {
				domainless = true
			}
		}()
		dom = string(r.Domain())
	}()
	if domainless {
		return "ok\t" + r.OpaqueID() + "\t\tdomainless"
	}
	return "ok\t" + r.OpaqueID() + "\t" + dom + "\tdomain"
}

func c17ParseIP(s string) string {
	ip := net.ParseIP(s)
	if ip == nil {
		return "nil"
	}
	ip = ip.To16()
	g := make([]string, 8)
	for i := 0; i < 8; i++ {
		g[i] = strconv.Itoa(int(ip[2*i])<<8 | int(ip[2*i+1]))
	}
	return strings.Join(g, ",")
}

func c17Kind(kind, s string) string {
	switch kind {
	case "server":
		return c17ServerName(s)
	case "user0":
		return c17UserID(false, s)
	case "user1":
		return c17UserID(true, s)
	case "ip":
		if r := c17ParseIP(s); r != "nil" {
			return "ok " + r
		}
		return "invalid"
	default:
		return c17RoomID(s)
	}
}

func c17Decoded(b []byte, err error) string {
	if err != nil {
		return "err"
	}
	return "ok:" + hex.EncodeToString(b)
}

func c17B64Decode(s string) string {
	var b spec.Base64Bytes
	err := b.Decode(s)
	return c17Decoded(b, err)
}

func c17Verdict(err error) string {
	if err == nil {
		return "ok"
	}
	var ev gmsl.EventValidationError
	if errors.As(err, &ev) && ev.Code == gmsl.EventValidationTooLarge {
		if ev.Persistable {
			return "toolarge-persistable"
		}
		return "toolarge"
	}
	var evp *gmsl.EventValidationError
	if errors.As(err, &evp) && evp != nil && evp.Code == gmsl.EventValidationTooLarge {
		if evp.Persistable {
			return "toolarge-persistable"
		}
		return "toolarge"
	}
	return "err"
}

// enumeration in exactly the order of Run/RunC17.v enum_fold: the prefix, then depth first
func c17Enum(alpha []byte, n int, prefix []byte, visit func(s []byte)) {
	visit(prefix)
	if n == 0 {
		return
	}
	for _, c := range alpha {
		c17Enum(alpha, n-1, append(append([]byte{}, prefix...), c), visit)
	}
}

// ---------- events ----------

type c17Fields struct {
	ver      gmsl.RoomVersion
	typ      string
	sk       *string
	sender   string
	room     string
	noRoom   bool
	total    int // pad the event to exactly this many bytes (0 = no padding)
	dropRefs string
}

func c17EventJSON(f c17Fields) ([]byte, error) {
	verImpl, err := gmsl.GetRoomVersion(f.ver)
	if err != nil {
		return nil, err
	}
	mk := func(pad int) ([]byte, error) {
		m := map[string]interface{}{
			"type": f.typ, "sender": f.sender, "depth": 1, "origin_server_ts": 1000, "origin": "o",
			"content":    json.RawMessage(c17Content(pad)),
			"signatures": map[string]interface{}{},
		}
		if !f.noRoom {
			m["room_id"] = f.room
		}
		if f.sk != nil {
			m["state_key"] = *f.sk
		}
		if verImpl.EventFormat() == gmsl.EventFormatV1 {
			m["event_id"] = "$e:o"
			m["prev_events"] = []interface{}{}
			m["auth_events"] = []interface{}{}
		} else {
			m["prev_events"] = []string{}
			m["auth_events"] = []string{}
		}
		switch f.dropRefs {
		case "auth":
			delete(m, "auth_events")
		case "prev":
			delete(m, "prev_events")
		case "authnull":
			m["auth_events"] = nil
		}
		raw, err := json.Marshal(m)
		if err != nil {
			return nil, err
		}
		// content hash over the canonical form without signatures / unsigned / hashes
		var hm map[string]json.RawMessage
		_ = json.Unmarshal(raw, &hm)
		delete(hm, "signatures")
		hraw, _ := json.Marshal(hm)
		hcanon, err := gmsl.CanonicalJSON(hraw)
		if err != nil {
			return nil, err
		}
		sum := sha256.Sum256(hcanon)
		m["hashes"] = map[string]string{"sha256": base64.RawStdEncoding.EncodeToString(sum[:])}
		raw, _ = json.Marshal(m)
		return gmsl.CanonicalJSON(raw)
	}
	j, err := mk(0)
	if err != nil || f.total == 0 {
		return j, err
	}
	if f.total < len(j) {
		return nil, fmt.Errorf("cannot shrink to %d (base %d)", f.total, len(j))
	}
	return mk(f.total - len(j))
}

// c17Content returns canonical content of exactly len(c17Content(0)) + n bytes, the padding spread
// over strings of 500 bytes (the reference JSON parser of the model reverses each string
// quadratically, so one 64 KiB string would take a minute)
func c17Content(n int) string {
	const chunk = 500
	q := n / (chunk + 3)
	rem := n - q*(chunk+3)
	if q > 0 {
		rem++ // the first array element has no comma
	}
	var sb strings.Builder
	sb.WriteString(`{"fill":"`)
	sb.WriteString(strings.Repeat("x", rem))
	sb.WriteString(`","pad":[`)
	for i := 0; i < q; i++ {
		if i > 0 {
			sb.WriteByte(',')
		}
		sb.WriteByte('"')
		sb.WriteString(strings.Repeat("x", chunk))
		sb.WriteByte('"')
	}
	sb.WriteString(`]}`)
	return sb.String()
}

var c17Seed = bytes.Repeat([]byte{7}, 32)

func c17Build(ver gmsl.IRoomVersion, typ string, sk *string, sender, room string, pad int, prev []string) (gmsl.PDU, error) {
	eb := ver.NewEventBuilder()
	eb.Type, eb.StateKey, eb.SenderID, eb.RoomID = typ, sk, sender, room
	eb.Content = spec.RawJSON(c17Content(pad))
	eb.Depth = 1
	if prev != nil {
		eb.PrevEvents = prev
		eb.AuthEvents = prev
	}
	priv := ed25519.NewKeyFromSeed(c17Seed)
	return eb.Build(time.Unix(1000, 0), "o", "ed25519:1", priv)
}

// ---------- version probes ----------

type c17Querier struct{}

func (c17Querier) CurrentStateEvent(ctx context.Context, roomID spec.RoomID, eventType string, stateKey string) (gmsl.PDU, error) {
	return nil, errors.New("stub")
}
func (c17Querier) InvitePending(ctx context.Context, roomID spec.RoomID, senderID spec.SenderID) (bool, error) {
	return false, errors.New("stub")
}
func (c17Querier) RestrictedRoomJoinInfo(ctx context.Context, roomID spec.RoomID, senderID spec.SenderID, localServerName spec.ServerName) (*gmsl.RestrictedRoomJoinInfo, error) {
	return nil, errors.New("stub")
}

func okErr(err error) string {
	if err == nil {
		return "ok"
	}
	return "err"
}

func guarded(f func() string) (r string) {
	defer func() {
		if recover() != nil {
			r = "panic"
		}
	}()
	return f()
}

func c17ContentKeys(j []byte) int {
	n := 0
	gjson.GetBytes(j, "content").ForEach(func(k, v gjson.Result) bool { n++; return true })
	return n
}

const c17Fmt2 = `{"type":"m.room.message","sender":"@a:x","room_id":"!r:x","content":{},"depth":1,"origin_server_ts":1,"prev_events":["$p"],"auth_events":["$q"],"hashes":{"sha256":"aGFzaA"},"signatures":{}}`
const c17Fmt1 = `{"type":"m.room.message","sender":"@a:x","room_id":"!r:x","event_id":"$e:x","content":{},"depth":1,"origin_server_ts":1,"prev_events":[["$p:x",{"sha256":"aGFzaA"}]],"auth_events":[["$q:x",{"sha256":"aGFzaA"}]],"hashes":{"sha256":"aGFzaA"},"signatures":{}}`

func structName(p gmsl.PDU, err error) string {
	if err != nil || p == nil {
		return ""
	}
	t := fmt.Sprintf("%T", p)
	return t[strings.LastIndex(t, ".")+1:]
}

func c17Traits(v gmsl.RoomVersion) string {
	ver, err := gmsl.GetRoomVersion(v)
	if err != nil {
		return "unsupported"
	}
	var out []string
	add := func(k, val string) { out = append(out, k+"="+val) }
	add("version", string(ver.Version()))
	add("stable", strconv.FormatBool(ver.Stable()))
	add("state_res", strconv.Itoa(int(ver.StateResAlgorithm())))
	add("event_format", strconv.Itoa(int(ver.EventFormat())))
	add("event_id_format", strconv.Itoa(int(ver.EventIDFormat())))
	add("domainless", strconv.FormatBool(ver.DomainlessRoomIDs()))
	add("privileged", strconv.FormatBool(ver.PrivilegedCreators()))
	add("redact", guarded(func() string {
		ev := func(typ, content string) string {
			return `{"type":"` + typ + `","sender":"@a:x","room_id":"!r:x","state_key":"","origin":"o","content":` + content + `}`
		}
		r1, e1 := ver.RedactEventJSON([]byte(ev("m.room.aliases", `{"aliases":["#a:x"],"x":1}`)))
		r2, e2 := ver.RedactEventJSON([]byte(ev("m.room.join_rules", `{"join_rule":"restricted","allow":[],"x":1}`)))
		r3, e3 := ver.RedactEventJSON([]byte(ev("m.room.member", `{"membership":"join","join_authorised_via_users_server":"@a:x","x":1}`)))
		r4, e4 := ver.RedactEventJSON([]byte(ev("m.room.create", `{"creator":"@a:x","x":1}`)))
		if e1 != nil || e2 != nil || e3 != nil || e4 != nil {
			return "err"
		}
		origin := 0
		if gjson.GetBytes(r1, "origin").Exists() {
			origin = 1
		}
		return fmt.Sprintf("aliases:%d join_rules:%d member:%d create:%d origin:%d",
			c17ContentKeys(r1), c17ContentKeys(r2), c17ContentKeys(r3), c17ContentKeys(r4), origin)
	}))
	add("sigcheck", guarded(func() string {
		return fmt.Sprintf("%v,%v,%v", ver.SignatureValidityCheck(2000, 1000), ver.SignatureValidityCheck(1000, 2000), ver.SignatureValidityCheck(1000, 0))
	}))
	add("canonical", guarded(func() string { return okErr(ver.CheckCanonicalJSON([]byte(`{"a":1.5}`))) }))
	// a create event for the probes that want one
	v10 := gmsl.MustGetRoomVersion(gmsl.RoomVersionV10)
	mkCreate := func(room, content string) gmsl.PDU {
		p, err := v10.NewEventFromTrustedJSON([]byte(`{"type":"m.room.create","state_key":"","sender":"@c:x","room_id":"`+room+`","content":`+content+`,"depth":1,"origin_server_ts":1,"prev_events":[],"auth_events":[],"hashes":{"sha256":"aGFzaA"},"signatures":{}}`), false)
		if err != nil {
			panic(err)
		}
		return p
	}
	add("pl_event", guarded(func() string {
		create := mkCreate("!r:x", `{"creator":"@c:x"}`)
		oldPL := gmsl.PowerLevelContent{Users: map[string]int64{"@u:x": 50, "@c:x": 100}, Notifications: map[string]int64{"room": 60}}
		newA := gmsl.PowerLevelContent{Users: map[string]int64{"@u:x": 50}, Notifications: map[string]int64{"room": 70}}
		newB := gmsl.PowerLevelContent{Users: map[string]int64{"@u:x": 50, "@c:x": 100}, Notifications: map[string]int64{"room": 60}}
		a := ver.CheckPowerLevelEvent("@u:x", create, oldPL, newA)
		b := ver.CheckPowerLevelEvent("@c:x", create, oldPL, newB)
		return okErr(a) + "," + okErr(b)
	}))
	add("parse_pl", guarded(func() string {
		var c gmsl.PowerLevelContent
		return okErr(ver.ParsePowerLevels([]byte(`{"users_default":"5"}`), &c))
	}))
	add("knock", guarded(func() string {
		return okErr(ver.CheckKnockingAllowed(string(v), "@a:x", "@a:x", "knock", "leave")) + "," +
			okErr(ver.CheckKnockingAllowed(string(v), "@a:x", "@a:x", "invite", "leave"))
	}))
	add("restricted_allowed", guarded(func() string { return okErr(ver.CheckRestrictedJoinsAllowed()) }))
	add("restricted_servername", guarded(func() string {
		s, err := ver.RestrictedJoinServername([]byte(`{"membership":"join","join_authorised_via_users_server":"@a:srv"}`))
		if err != nil {
			return "err"
		}
		return string(s)
	}))
	add("restricted_join", guarded(func() string {
		rid, _ := spec.NewRoomID("!r:x")
		_, err := ver.CheckRestrictedJoin(context.Background(), "local", c17Querier{}, *rid, "@a:x")
		return okErr(err)
	}))
	add("create_check", guarded(func() string {
		known := func(gmsl.RoomVersion) bool { return true }
		u, _ := spec.NewUserID("@c:x", true)
		a := ver.CheckCreateEvent(mkCreate("!r:other", `{"creator":"@c:x"}`), *u, known)
		b := ver.CheckCreateEvent(mkCreate("!r:x", `{}`), *u, known)
		c := ver.CheckCreateEvent(mkCreate("!r:x", `{"creator":"@c:x"}`), *u, known)
		return okErr(a) + "," + okErr(b) + "," + okErr(c)
	}))
	first := func(f func(j []byte) (gmsl.PDU, error)) string {
		return guarded(func() string {
			if s := structName(f([]byte(c17Fmt2))); s != "" {
				return s
			}
			if s := structName(f([]byte(c17Fmt1))); s != "" {
				return s
			}
			return "none"
		})
	}
	add("untrusted", first(func(j []byte) (gmsl.PDU, error) {
		p, err := ver.NewEventFromUntrustedJSON(j)
		if p != nil {
			err = nil // a size / sender verdict still tells which struct was used
		}
		return p, err
	}))
	add("trusted", first(func(j []byte) (gmsl.PDU, error) { return ver.NewEventFromTrustedJSON(j, false) }))
	add("trusted_with_id", first(func(j []byte) (gmsl.PDU, error) { return ver.NewEventFromTrustedJSONWithEventID("$id", j, false) }))
	add("builder", guarded(func() string {
		hasID, refs, alpha := "?", "?", "none"
		for i := 0; i < 200; i++ {
			sk := ""
			room := "!r:o"
			if ver.DomainlessRoomIDs() {
				room = "!" + strings.Repeat("A", 43)
			}
			p, err := c17Build(ver, "m.room.topic", &sk, "@a:o", room, i, []string{"$p:o"})
			if err != nil || p == nil {
				return "build-error"
			}
			j := p.JSON()
			if gjson.GetBytes(j, "event_id").Exists() {
				hasID = "yes"
			} else {
				hasID = "no"
			}
			pe := gjson.GetBytes(j, "prev_events.0")
			ae := gjson.GetBytes(j, "auth_events.0")
			switch {
			case pe.IsArray() && ae.IsArray():
				refs = "pairs"
			case pe.Type == gjson.String && ae.Type == gjson.String:
				refs = "ids"
			default:
				refs = "other"
			}
			id := p.EventID()
			if hasID == "yes" {
				if strings.HasSuffix(id, ":o") && gjson.GetBytes(j, "event_id").String() == id {
					alpha = "random"
				}
				break
			}
			if len(id) != 44 || id[0] != '$' {
				return "bad-event-id"
			}
			if strings.ContainsAny(id, "+/") {
				alpha = "std"
				break
			}
			if strings.ContainsAny(id, "-_") {
				alpha = "url"
				break
			}
		}
		return "event_id:" + hasID + " refs:" + refs + " id:" + alpha
	}))
	return strings.Join(out, "\n")
}

func init() {
	RegisterImpl("C17.server_name", func(a [][]byte) ([][]byte, []byte) { return a, B(c17ServerName(string(a[0]))) })
	RegisterImpl("C17.user_id", func(a [][]byte) ([][]byte, []byte) { return a, B(c17UserID(string(a[0]) == "1", string(a[1]))) })
	RegisterImpl("C17.room_id", func(a [][]byte) ([][]byte, []byte) { return a, B(c17RoomID(string(a[0]))) })
	RegisterImpl("C17.parse_ip", func(a [][]byte) ([][]byte, []byte) { return a, B(c17ParseIP(string(a[0]))) })
	// [kind; alphabet; prefix; n]
	RegisterImpl("C17.enum", func(a [][]byte) ([][]byte, []byte) {
		n, _ := strconv.Atoi(string(a[3]))
		var lines []string
		kind := string(a[0])
		c17Enum(a[1], n, a[2], func(s []byte) {
			if o := c17Kind(kind, string(s)); strings.HasPrefix(o, "ok") {
				lines = append(lines, string(s)+"\t"+o)
			}
		})
		return a, B(strings.Join(lines, "\n"))
	})
	RegisterImpl("C17.b64_decode", func(a [][]byte) ([][]byte, []byte) { return a, B(c17B64Decode(string(a[0]))) })
	RegisterImpl("C17.b64_json", func(a [][]byte) ([][]byte, []byte) {
		q, _ := json.Marshal(string(a[0]))
		var b spec.Base64Bytes
		err := b.UnmarshalJSON(q)
		return a, B(c17Decoded(b, err))
	})
	RegisterImpl("C17.b64_decode_alpha", func(a [][]byte) ([][]byte, []byte) {
		enc := base64.RawStdEncoding
		if string(a[0]) == "1" {
			enc = base64.RawURLEncoding
		}
		b, err := enc.DecodeString(string(a[1]))
		return a, B(c17Decoded(b, err))
	})
	RegisterImpl("C17.b64_encode", func(a [][]byte) ([][]byte, []byte) {
		if string(a[0]) == "1" {
			return a, B(base64.RawURLEncoding.EncodeToString(a[1]))
		}
		m, _ := spec.Base64Bytes(a[1]).MarshalJSON()
		var s string
		_ = json.Unmarshal(m, &s)
		if e := spec.Base64Bytes(a[1]).Encode(); e != s {
			return a, B("encode-and-marshal-differ")
		}
		return a, B(s)
	})
	RegisterImpl("C17.b64_enum", func(a [][]byte) ([][]byte, []byte) {
		n, _ := strconv.Atoi(string(a[2]))
		var lines []string
		c17Enum(a[0], n, a[1], func(s []byte) {
			var b spec.Base64Bytes
			if b.Decode(string(s)) == nil {
				lines = append(lines, string(s)+"\t"+hex.EncodeToString(b))
			}
		})
		return a, B(strings.Join(lines, "\n"))
	})
	RegisterImpl("C17.b64_roundtrip", func(a [][]byte) ([][]byte, []byte) {
		return a, B(c17B64Decode(spec.Base64Bytes(a[0]).Encode()) + "," + c17B64Decode(base64.RawURLEncoding.EncodeToString(a[0])))
	})
	// [bytes]: the round trip made into a variable that ALREADY holds a decoded value which the
	// caller kept (a copy of the struct, an element appended to a list): values are immutable in
	// the model, so decoding into the variable again must leave the value decoded before intact
	RegisterImpl("C17.b64_sequence", func(a [][]byte) ([][]byte, []byte) {
		earlier := bytes.Repeat([]byte{0xA5, 0x5A, 0x0F}, len(a[0])/3+4)
		var out []string
		for _, url := range []bool{false, true} {
			enc := spec.Base64Bytes(a[0]).Encode()
			if url {
				enc = base64.RawURLEncoding.EncodeToString(a[0])
			}
			var holder struct {
				V spec.Base64Bytes `json:"v"`
			}
			for step, how := range []string{"decode", "json", "scan"} {
				if err := holder.V.Decode(spec.Base64Bytes(earlier).Encode()); err != nil {
					return a, B("err")
				}
				kept := holder.V // what a caller holds on to
				var err error
				switch how {
				case "decode":
					err = holder.V.Decode(enc)
				case "json":
					err = json.Unmarshal([]byte(`{"v":"`+enc+`"}`), &holder)
				case "scan":
					err = holder.V.Scan(enc)
				}
				if !bytes.Equal(kept, earlier) {
					return a, B(fmt.Sprintf("EARLIER-VALUE-OVERWRITTEN by %s (step %d)", how, step))
				}
				if how == "decode" {
					out = append(out, c17Decoded(holder.V, err))
				} else if c17Decoded(holder.V, err) != out[len(out)-1] {
					return a, B("decode paths differ: " + how)
				}
			}
		}
		return a, B(strings.Join(out, ","))
	})
	RegisterImpl("C17.sender", func(a [][]byte) ([][]byte, []byte) {
		s := spec.SenderID(a[0])
		if s.IsUserID() {
			u := s.ToUserID()
			if u == nil || s.ToPseudoID() != nil || s.IsPseudoID() {
				return a, B("user-invalid")
			}
			return a, B("user\t" + u.Local() + "\t" + string(u.Domain()))
		}
		k := s.ToPseudoID()
		if k == nil || s.ToUserID() != nil {
			return a, B("pseudo-invalid")
		}
		raw, err := s.RawBytes()
		if err != nil || !bytes.Equal(raw, []byte(*k)) {
			return a, B("pseudo-rawbytes-differ")
		}
		return a, B("pseudo:" + hex.EncodeToString(*k))
	})
	RegisterImpl("C17.split_id", func(a [][]byte) ([][]byte, []byte) {
		l, d, err := gmsl.SplitID(a[0][0], string(a[1]))
		if err != nil {
			return a, B("err")
		}
		return a, B("ok\t" + l + "\t" + string(d))
	})
	RegisterImpl("C17.rune_count", func(a [][]byte) ([][]byte, []byte) {
		return a, B(strconv.Itoa(utf8.RuneCountInString(string(a[0]))))
	})
	RegisterImpl("C17.check_id", func(a [][]byte) ([][]byte, []byte) {
		return a, B(c17Verdict(gmsl.VerifC17CheckID(string(a[0]), "probe", a[1][0])))
	})
	// [version; json]
	RegisterImpl("C17.receive", func(a [][]byte) ([][]byte, []byte) {
		ver, err := gmsl.GetRoomVersion(gmsl.RoomVersion(a[0]))
		if err != nil {
			return a, B("err")
		}
		p, err := ver.NewEventFromUntrustedJSON(a[1])
		if p != nil && !bytes.Equal(p.JSON(), a[1]) {
			return a, B("precondition-violated: the event was rewritten (" + c17Verdict(err) + ")")
		}
		if ve, ok := err.(gmsl.EventValidationError); ok && ve.Persistable && p == nil {
			// "too large but persistable" is reported so that the caller can keep the event
			return a, B("toolarge-persistable-without-event")
		}
		return a, B(c17Verdict(err))
	})
	// [version; type; has_sk; sk; sender; room; total length wanted ("" = as is) -> actual length]
	RegisterImpl("C17.build", func(a [][]byte) ([][]byte, []byte) {
		ver, err := gmsl.GetRoomVersion(gmsl.RoomVersion(a[0]))
		if err != nil {
			return a, B("err")
		}
		var sk *string
		if string(a[2]) == "1" {
			s := string(a[3])
			sk = &s
		}
		final := append([][]byte{}, a...)
		pad := 0
		if want, _ := strconv.Atoi(string(a[6])); want > 0 {
			p0, _ := c17Build(ver, string(a[1]), sk, string(a[4]), string(a[5]), 0, nil)
			if p0 != nil && want > len(p0.JSON()) {
				pad = want - len(p0.JSON())
			}
		}
		p, err := c17Build(ver, string(a[1]), sk, string(a[4]), string(a[5]), pad, nil)
		final[6] = B("0")
		if p != nil {
			final[6] = B(strconv.Itoa(len(p.JSON())))
		}
		if ve, ok := err.(gmsl.EventValidationError); ok && ve.Persistable && p == nil {
			return final, B("toolarge-persistable-without-event")
		}
		return final, B(c17Verdict(err))
	})
	RegisterImpl("C17.version_traits", func(a [][]byte) ([][]byte, []byte) { return a, B(c17Traits(gmsl.RoomVersion(a[0]))) })
	RegisterImpl("C17.versions", func(a [][]byte) ([][]byte, []byte) {
		var all, stable []string
		for v := range gmsl.RoomVersions() {
			all = append(all, string(v))
		}
		for v := range gmsl.StableRoomVersions() {
			stable = append(stable, string(v))
		}
		sort.Strings(all)
		sort.Strings(stable)
		return a, B(strings.Join(all, ",") + "|" + strings.Join(stable, ","))
	})
	RegisterImpl("C17.lenient_versions", func(a [][]byte) ([][]byte, []byte) {
		return a, B(strings.Join(gmsl.VerifC17LenientVersions(), ","))
	})
	RegisterProp("C17", genC17)
}
