package main

// Case generators of property C17.

import (
	"fmt"
	"sort"
	"strconv"
	"strings"

	gmsl "github.com/matrix-org/gomatrixserverlib"
)

var c17Versions = []string{"1", "2", "3", "4", "5", "6", "7", "8", "9", "10", "11", "12",
	"org.matrix.msc4014", "org.matrix.msc3667", "org.matrix.msc3787", "org.matrix.hydra.11"}

// IPv4 / IPv6 literal corpus (with and without brackets are derived below)
var c17IPs = []string{
	"1.2.3.4", "0.0.0.0", "255.255.255.255", "256.1.1.1", "1.2.3", "1.2.3.4.5", "01.2.3.4", "1.2.3.04", "1.2.3.4.", ".1.2.3.4",
	"1..2.3", "1.2.3.a", "1.2.3.-4", "1.2.3.+4", "0x1.2.3.4", "1.2.3.0", "00.1.1.1", "1.1.1.1000", "1.1.1.256", "1.1.1.255", "999.1.1.1",
	"::", "::1", "1::", "1::2", "::1:2:3:4:5:6:7", "1:2:3:4:5:6:7::", "1:2:3:4:5:6:7:8", "1:2:3:4:5:6:7", "1:2:3:4:5:6:7:8:9",
	"::1:2:3:4:5:6:7:8", "1:2:3:4:5:6:7:8::", "1::2:3:4:5:6:7:8", "1:2:3:4::5:6:7:8", "1:2:3:4::5:6:7", ":::", "1:::2", "::1::", "1::2::3",
	":1", "1:", ":", ":1:2:3:4:5:6:7", "1:2:3:4:5:6:7:", "12345::", "::12345", "::ffff", "::fffff", "::FFFF", "::aBcD", "::g", "::01", "::0001", "::00001",
	"::1.2.3.4", "::ffff:1.2.3.4", "::FFFF:1.2.3.4", "::fffe:1.2.3.4", "0:0:0:0:0:ffff:1.2.3.4", "0:0:0:0:0:ffff:102:304", "::ffff:102:304", "::ffff:0:0",
	"1:2:3:4:5:6:1.2.3.4", "1:2:3:4:5:1.2.3.4", "1:2:3:4:5:6:7:1.2.3.4", "::1:2:3:4:5:6:1.2.3.4", "::1:2:3:4:5:1.2.3.4", "1::1.2.3.4", "1.2.3.4::", "1.2.3.4::1",
	"::1.2.3", "::1.2.3.4.5", "::1.2.3.256", "::01.2.3.4", "::1.2.3.4:5", "1:2.3.4.5::", "::.1.2.3", "::1.2.3.", "::ab.1.2.3", "::12345.1.1.1",
	"fe80::1%eth0", "::%", "::1%", "%", "%eth0", "1%2.3.4.5", "::1%25en0", "2001:db8::68", "2001:DB8:0:0:8:800:200C:417A", "ff01::101", "::ffff:c000:280",
	"", "a", "1", "12", "1.2.3.4/24", "::/0", " ::1", "::1 ", "[::1]", "1:2:3:4:5:6:7:8.1.1.1", "1:2:3:4:5:6:7.1.1.1", "::1:2:3:4:5:6:7:1.2.3.4",
	"::0.0.0.0", "::255.255.255.255", "::ffff:255.255.255.255", "0::0", "0:0::0:0", "::0:0:0:0:0:0:0", "0:0:0:0:0:0:0::",
}

var c17Hosts = []string{
	"example.org", "a", "A", "localhost", "a.b.c", "a-b", "-", ".", "..", "a..b", "-a", "a-", "EXAMPLE.ORG", "ex_ample.org", "ex ample.org", "exämple.org",
	"example.org.", "xn--bcher-kva.example", "1", "123", "1.2", "1.2.3.4.5", "a/b", "a@b", "a%b", "a\x00b", "a\nb", "a\tb", "[", "]", "[]", "[[::1]]", "[::1", "::1]",
	"[::1]x", "x[::1]", "[a]", "[1]", "[example.org]", "[::1]]", "[:]", "[::]", "[::1%eth0]", "[1.2.3.4]", "[::ffff:1.2.3.4]", "[1.2.3]", " a", "a ", "é", "\xff",
}

var c17Ports = []string{"", ":0", ":1", ":80", ":8448", ":65535", ":65536", ":99999", ":100000", ":00080", ":0000000000000000000080", ":065535", ":0065536",
	":00", ":01", ":080", ":0080", ":08448", ":00000", ":000000", ":000080", ":008448", ":000001", ":0000065535", ":09999", ":099999", ":65535 ", ":12345", ":123456",
	":", ":+80", ":-1", ": 80", ":80 ", ":8a", ":a", ":0x50", ":8_0", ":18446744073709551616", ":٣", ":80:80", ":80:", "::80", ":65535:1", ":1:65536"}

func (g *c17Gen) pick(l []string) string { return l[g.c.Rng.Intn(len(l))] }

type c17Gen struct{ c *Ctx }

func (g *c17Gen) hexGroup() string {
	n := 1 + g.c.Rng.Intn(4)
	if g.c.Rng.Intn(12) == 0 {
		n = 5
	}
	const hx = "0123456789abcdefABCDEF"
	b := make([]byte, n)
	for i := range b {
		b[i] = hx[g.c.Rng.Intn(len(hx))]
	}
	if g.c.Rng.Intn(6) == 0 {
		return "0"
	}
	if g.c.Rng.Intn(10) == 0 {
		return "ffff"
	}
	return string(b)
}

func (g *c17Gen) octet() string {
	switch g.c.Rng.Intn(10) {
	case 0:
		return "0"
	case 1:
		return "255"
	case 2:
		return "256"
	case 3:
		return "0" + strconv.Itoa(g.c.Rng.Intn(100))
	}
	return strconv.Itoa(g.c.Rng.Intn(256))
}

func (g *c17Gen) ipv4() string {
	n := 4
	if g.c.Rng.Intn(10) == 0 {
		n = 3 + g.c.Rng.Intn(3)
	}
	p := make([]string, n)
	for i := range p {
		p[i] = g.octet()
	}
	return strings.Join(p, ".")
}

// random IPv6 text: mostly well-formed, group counts around the limits
func (g *c17Gen) ipv6() string {
	groups := func(n int) []string {
		p := make([]string, n)
		for i := range p {
			p[i] = g.hexGroup()
		}
		return p
	}
	withV4 := g.c.Rng.Intn(4) == 0
	if g.c.Rng.Intn(3) == 0 { // no ellipsis
		n := 8
		if withV4 {
			n = 6
		}
		if g.c.Rng.Intn(4) == 0 {
			n += g.c.Rng.Intn(3) - 1
		}
		p := groups(n)
		if withV4 {
			p = append(p, g.ipv4())
		}
		return strings.Join(p, ":")
	}
	budget := 7
	if withV4 {
		budget = 5
	}
	total := g.c.Rng.Intn(budget + 2) // may exceed by one
	if g.c.Rng.Intn(3) == 0 {
		total = budget + g.c.Rng.Intn(2)
	}
	pre := g.c.Rng.Intn(total + 1)
	a, b := groups(pre), groups(total-pre)
	if withV4 {
		b = append(b, g.ipv4())
	}
	if g.c.Rng.Intn(8) == 0 && pre == 0 && len(b) > 1 { // v4-mapped shape
		return "::ffff:" + g.ipv4()
	}
	return strings.Join(a, ":") + "::" + strings.Join(b, ":")
}

func (g *c17Gen) dnsName(n int) string {
	const cs = "abcdefghijklmnopqrstuvwxyzABCXYZ0123456789-."
	b := make([]byte, n)
	for i := range b {
		b[i] = cs[g.c.Rng.Intn(len(cs))]
	}
	return string(b)
}

func (g *c17Gen) host() string {
	switch g.c.Rng.Intn(10) {
	case 0:
		return g.pick(c17Hosts)
	case 1:
		return g.ipv4()
	case 2, 3:
		return "[" + g.ipv6() + "]"
	case 4:
		return g.ipv6()
	case 5:
		return "[" + g.ipv4() + "]"
	}
	return g.dnsName(1 + g.c.Rng.Intn(20))
}

func (g *c17Gen) port() string {
	if g.c.Rng.Intn(3) == 0 {
		return g.pick(c17Ports)
	}
	if g.c.Rng.Intn(5) == 0 { // zero-padded to 2..7 digits: five is the limit
		return ":" + fmt.Sprintf("%0*d", 2+g.c.Rng.Intn(6), g.c.Rng.Intn(70000))
	}
	if g.c.Rng.Intn(2) == 0 {
		return ""
	}
	return ":" + strconv.Itoa(g.c.Rng.Intn(70000))
}

func (g *c17Gen) serverName() string { return g.host() + g.port() }

func (g *c17Gen) mutate(s string) string {
	if len(s) == 0 || g.c.Rng.Intn(3) != 0 {
		return s
	}
	const junk = ":.[]@!-_/%= \x00\xc3\xa9AZaz09+"
	b := []byte(s)
	i := g.c.Rng.Intn(len(b))
	switch g.c.Rng.Intn(3) {
	case 0:
		b[i] = junk[g.c.Rng.Intn(len(junk))]
	case 1:
		b = append(b[:i], b[i+1:]...)
	default:
		b = append(b[:i], append([]byte{junk[g.c.Rng.Intn(len(junk))]}, b[i:]...)...)
	}
	return string(b)
}

func (g *c17Gen) localpart(strictOnly bool) string {
	cs := "abcxyz0189_-=./"
	if !strictOnly {
		switch g.c.Rng.Intn(6) {
		case 0:
			cs += "ABZ +~#"
		case 1:
			cs += "é€😀"
		case 2:
			return ""
		}
	}
	r := []rune(cs)
	n := 1 + g.c.Rng.Intn(12)
	out := make([]rune, n)
	for i := range out {
		out[i] = r[g.c.Rng.Intn(len(r))]
	}
	return string(out)
}

const c17B64Url = "ABCDEFGHIJKLMNOPQRSTUVWXYZabcdefghijklmnopqrstuvwxyz0123456789-_"
const c17B64Std = "ABCDEFGHIJKLMNOPQRSTUVWXYZabcdefghijklmnopqrstuvwxyz0123456789+/"

func (g *c17Gen) over(alpha string, n int) string {
	b := make([]byte, n)
	for i := range b {
		b[i] = alpha[g.c.Rng.Intn(len(alpha))]
	}
	return string(b)
}

func rep(s string, n int) string { return strings.Repeat(s, n) }

func genC17(c *Ctx) {
	g := &c17Gen{c}
	single := func(kind, s, desc string) {
		switch kind {
		case "server":
			c.Run("C17.server_name", Args(s), "C17.server_name", "C17.prop.server_name", desc)
		case "user0":
			c.Run("C17.user_id", Args("0", s), "C17.user_id", "C17.prop.user_id", desc)
		case "user1":
			c.Run("C17.user_id", Args("1", s), "C17.user_id", "C17.prop.user_id", desc)
		case "room":
			c.Run("C17.room_id", Args(s), "C17.room_id", "C17.prop.room_id", desc)
		}
		c.Count("single/" + kind + "/" + strings.SplitN(desc, " ", 2)[0])
	}
	allKinds := func(domain, desc string) {
		single("server", domain, desc)
		single("user0", "@alice:"+domain, desc)
		single("user1", "@Alice:"+domain, desc)
		single("room", "!opaque:"+domain, desc)
	}

	// ---- 1. bounded-exhaustive enumeration, one batch per first symbol(s) ----
	enum := func(kind, alpha, prefix string, n int, withOracle bool) {
		prop := ""
		if withOracle {
			prop = "C17.prop.enum"
		}
		c.Run("C17.enum", Args(kind, alpha, prefix, strconv.Itoa(n)), "C17.enum", prop,
			fmt.Sprintf("enum %s alphabet=%q prefix=%q depth=%d", kind, alpha, prefix, n))
		c.Count("enum/" + kind)
	}
	batches := func(kind, alpha, sigil string, total int, withOracle bool) {
		// every string over alpha (after the sigil) up to total symbols, split by the first two symbols
		enum(kind, alpha, sigil, 1, withOracle)
		for _, a := range []byte(alpha) {
			for _, b := range []byte(alpha) {
				enum(kind, alpha, sigil+string([]byte{a, b}), total-2, withOracle)
			}
		}
	}
	snAlpha := "aB10:.-[]_@\xc3"
	batches("server", snAlpha, "", c.Scale(6, 7), true)
	// bracketed literals need more room: a smaller alphabet behind an opening bracket
	batches("server", ":1f.]0a", "[", c.Scale(7, 8), true)
	batches("ip", ":1f.0", "", c.Scale(8, 9), false)
	batches("ip", "0125.", "", c.Scale(8, 9), false)
	idAlpha := "aB1:.-_/=[]\xc3@"
	batches("user0", idAlpha, "@", c.Scale(5, 6), true)
	batches("user1", idAlpha, "@", c.Scale(5, 6), true)
	batches("room", "aB1:.-_[]\xc3!@", "!", c.Scale(5, 6), true)
	// strings that do not start with the sigil
	enum("user0", "@!a:", "", 5, true)
	enum("user1", "@!a:", "", 5, true)
	enum("room", "@!a:", "", 5, true)

	// ---- 2. corpus: hosts x ports, IP literals in every position ----
	for _, h := range c17Hosts {
		for _, p := range []string{"", ":8448", ":65536"} {
			allKinds(h+p, "corpus host")
		}
	}
	for _, p := range c17Ports {
		for _, h := range []string{"example.org", "1.2.3.4", "[::1]", "::1", "[1::]"} {
			allKinds(h+p, "corpus port")
		}
	}
	for _, ip := range c17IPs {
		c.Run("C17.parse_ip", Args(ip), "C17.parse_ip", "", "corpus ip")
		c.Count("parse_ip")
		allKinds(ip, "corpus ip bare")
		allKinds("["+ip+"]", "corpus ip bracketed")
		single("server", ip+":80", "corpus ip bare port")
		single("server", "["+ip+"]:80", "corpus ip bracketed port")
	}

	// ---- 3. lengths: 254 / 255 / 256 bytes and code points ----
	for _, n := range []int{1, 2, 253, 254, 255, 256, 257, 300, 1000} {
		allKinds(rep("a", n), fmt.Sprintf("length host=%d", n))
		allKinds(rep("a", n)+":8448", fmt.Sprintf("length host=%d port", n))
		for _, tot := range []int{n} {
			if tot >= 4 {
				single("user0", "@"+rep("a", tot-3)+":x", fmt.Sprintf("length total=%d local", tot))
				single("user1", "@"+rep("A", tot-3)+":x", fmt.Sprintf("length total=%d local", tot))
				single("user0", "@a:"+rep("x", tot-3), fmt.Sprintf("length total=%d domain", tot))
				single("room", "!"+rep("o", tot-3)+":x", fmt.Sprintf("length total=%d opaque", tot))
				single("room", "!o:"+rep("x", tot-3), fmt.Sprintf("length total=%d domain", tot))
			}
		}
	}
	single("room", "!"+rep("a", 300)+":"+rep("b", 6), "length F19 room id of 307 bytes")
	for _, ch := range []string{"é", "€", "😀"} {
		for _, bytesTotal := range []int{252, 253, 254, 255, 256, 257, 258} {
			k := (bytesTotal - 3) / len(ch)
			padn := bytesTotal - 3 - k*len(ch)
			single("user1", "@"+rep(ch, k)+rep("a", padn)+":x", fmt.Sprintf("length multibyte total=%d", bytesTotal))
			single("room", "!"+rep(ch, k)+rep("a", padn)+":x", fmt.Sprintf("length multibyte total=%d", bytesTotal))
		}
		single("user1", "@"+rep(ch, 255)+":x", "length 255 code points")
		single("room", "!"+rep(ch, 252)+":x", "length 255 code points")
	}
	// domainless room IDs
	for _, n := range []int{0, 1, 3, 42, 43, 44, 86} {
		single("room", "!"+rep("A", n), fmt.Sprintf("domainless len=%d", n))
		single("room", "!"+g.over(c17B64Url, n), fmt.Sprintf("domainless len=%d", n))
	}
	for _, bad := range []string{"+", "/", "=", ".", " ", "\n", "é", "\x00", "~", "@", "!"} {
		s := []byte(g.over(c17B64Url, 43))
		for _, pos := range []int{0, 21, 42} {
			t := append([]byte{}, s...)
			t = append(t[:pos], append([]byte(bad), t[pos+1:]...)...)
			single("room", "!"+string(t), "domainless bad char")
		}
		single("room", "!"+string(s)+bad, "domainless trailing")
	}
	single("room", "!"+g.over(c17B64Url, 43)+"\n", "domainless trailing newline")
	single("room", "!"+g.over(c17B64Url, 43)+":example.org", "domainless with domain")
	single("room", "!"+g.over(c17B64Url, 42)+":", "domainless colon")
	for _, s := range []string{"", "!", "!:", "!a", "!a:", "!:a", "!a:b", "!a:b:c", "!a::b", "a:b", "@a:b", "#a:b", "$a:b", "!a:b:80", "!a:[::1]:80", "!\x00:b", "!a b:c", "!a:b c", "!é:b", "!!:b", "!a:!b"} {
		single("room", s, "corpus room")
		single("user0", "@"+strings.TrimPrefix(s, "!"), "corpus user")
		single("user1", "@"+strings.TrimPrefix(s, "!"), "corpus user")
	}
	for _, s := range []string{"@:x", "@:ab", "@a:", "@a", "@", "", "a:b", "@a:b", "@A:b", "@a+b:c", "@a~b:c", "@a b:c", "@é:c", "@a\n:c", "@a:b\n", "@a\n", "@a=b/c.d-e_f:g", "@0:1", "@a:b:c", "@a:b:80",
		"@a:[::1]", "@a:[::1]:8448", "@a:::1", "@@a:b", "!a:b", "@a::b", "@a:b:", "@\x00:b", "@\xff:b", "@a:B", "@a:b.", "@a:-"} {
		single("user0", s, "corpus user")
		single("user1", s, "corpus user")
	}

	// ---- 4. random structured identifiers (grammar-directed, then one byte mutated) ----
	n := c.Scale(1200, 20000)
	for i := 0; i < n; i++ {
		sn := g.mutate(g.serverName())
		single("server", sn, "random")
		switch i % 3 {
		case 0:
			single("user0", g.mutate("@"+g.localpart(c.Rng.Intn(4) != 0)+":"+g.serverName()), "random")
		case 1:
			single("user1", g.mutate("@"+g.localpart(false)+":"+g.serverName()), "random")
		default:
			if c.Rng.Intn(5) == 0 {
				single("room", g.mutate("!"+g.over(c17B64Url, 43)), "random domainless")
			} else {
				single("room", g.mutate("!"+g.localpart(false)+":"+g.serverName()), "random")
			}
		}
		if i%4 == 0 {
			ip := g.ipv6()
			if c.Rng.Intn(3) == 0 {
				ip = g.ipv4()
			}
			c.Run("C17.parse_ip", Args(g.mutate(ip)), "C17.parse_ip", "", "random ip")
			c.Count("parse_ip")
		}
	}
	// long random strings
	for i := 0; i < c.Scale(60, 600); i++ {
		l := 200 + c.Rng.Intn(200)
		single("server", g.dnsName(l), "randomlong")
		single("room", "!"+g.dnsName(l/2)+":"+g.dnsName(l/2), "randomlong")
		single("user1", "@"+g.dnsName(l/2)+":"+g.dnsName(l/2), "randomlong")
	}

	// ---- 5. sender IDs and SplitID ----
	for _, s := range []string{"@a:b", "@:b", "@a", "@", "a", "QUJD", "QUJ", "Q", "@a:b:c", "a-_b", "a+/b", "a-/b", "!a:b", rep("A", 43), g.over(c17B64Url, 43), g.over(c17B64Std, 43), "QUJD=", "QU JD", "@" + rep("a", 252) + ":b", "@" + rep("a", 253) + ":b"} {
		c.Run("C17.sender", Args(s), "C17.sender", "", "sender")
		c.Count("sender")
	}
	for i := 0; i < c.Scale(100, 1000); i++ {
		s := g.mutate("@" + g.localpart(false) + ":" + g.serverName())
		if c.Rng.Intn(2) == 0 {
			s = g.mutate(g.over(c17B64Url, 43))
		}
		if s != "" {
			c.Run("C17.sender", Args(s), "C17.sender", "", "sender random")
			c.Count("sender")
		}
	}
	for _, sig := range []string{"@", "!", "$", "#"} {
		for _, id := range []string{"", "@", "@a", "@a:b", "@a:b:c", "!a:b", "@:b", "@a:", ":", "@:", "a:b", "$e:x", "#r:y:z", "@a::b"} {
			c.Run("C17.split_id", Args(sig, id), "C17.split_id", "", "split_id")
			c.Count("split_id")
		}
	}

	genC17Base64(c, g)
	genC17Limits(c, g)
	genC17Versions(c, g)
}

func genC17Base64(c *Ctx, g *c17Gen) {
	// decoder, bounded-exhaustive over symbols of both alphabets, padding, newline, blank
	alpha := "AQg/+-_=\n "
	c.Run("C17.b64_enum", Args(alpha, "", "1"), "C17.b64_enum", "", "b64 enum")
	for _, a := range []byte(alpha) {
		c.Run("C17.b64_enum", Args(alpha, string([]byte{a}), strconv.Itoa(c.Scale(4, 5))), "C17.b64_enum", "", "b64 enum")
		c.Count("b64/enum")
	}
	dec := func(s, desc string) {
		c.Run("C17.b64_decode", Args(s), "C17.b64_decode", "C17.prop.b64_decode", desc)
		c.Run("C17.b64_json", Args(s), "C17.b64_decode", "", desc+" (UnmarshalJSON)")
		c.Run("C17.b64_decode_alpha", Args("0", s), "C17.b64_decode_alpha", "", desc)
		c.Run("C17.b64_decode_alpha", Args("1", s), "C17.b64_decode_alpha", "", desc)
		c.Count("b64/decode/" + strings.SplitN(desc, " ", 2)[0])
	}
	for _, s := range []string{"", "Q", "QQ", "QR", "QUI", "QUJ", "QUJD", "QUJDRA", "QQ==", "QUI=", "QUJD=", "QQ=", "Q=", "=", "====", "QUJD\n", "QU\nJD", "\n", "\r\n", "QU\r\nJD", "Q\nQ", "QUJD ", " QUJD", "QU JD",
		"a-_b", "a+/b", "a-/b", "a+_b", "-", "_", "+", "/", "--", "__", "-_-_", "+/+/", "QUJD-", "QUJD+", "ab.d", "ab,d", "ab\x00d", "abéd", "////", "____", "//", "/w", "_w", "/x", "_x", "A", "AA", "AAA", "AAAA", "AAAAA",
		"AB", "AC", "AP", "AQ", "AAB", "AAC", "AAD", "AAE", "//8", "//9", "__8", "__9"} {
		dec(s, "corpus")
	}
	for i := 0; i < c.Scale(600, 8000); i++ {
		l := c.Rng.Intn(12)
		if c.Rng.Intn(6) == 0 {
			l = 40 + c.Rng.Intn(60)
		}
		var s string
		switch c.Rng.Intn(6) {
		case 0:
			s = g.over(c17B64Url, l)
		case 1:
			s = g.over(c17B64Std+c17B64Url, l)
		case 2:
			s = g.mutate(g.over(c17B64Std, l))
		case 3:
			s = g.over("AZaz09+/-_=\n\r .", l)
		default:
			s = g.over(c17B64Std, l)
		}
		dec(s, "random")
	}
	// encoder and round trip: every byte string of length <= 1, a sample of the longer ones
	enc := func(b []byte, desc string) {
		c.Run("C17.b64_encode", [][]byte{B("0"), b}, "C17.b64_encode", "", desc)
		c.Run("C17.b64_encode", [][]byte{B("1"), b}, "C17.b64_encode", "", desc)
		c.Run("C17.b64_roundtrip", [][]byte{b}, "C17.b64_roundtrip", "C17.prop.b64_roundtrip", desc)
		c.Run("C17.b64_sequence", [][]byte{b}, "C17.b64_roundtrip", "C17.prop.b64_roundtrip", desc+" into a variable holding an earlier value")
		c.Count("b64/encode/" + strings.SplitN(desc, " ", 2)[0])
	}
	enc([]byte{}, "len0")
	for x := 0; x < 256; x++ {
		enc([]byte{byte(x)}, "len1 exhaustive")
	}
	// two and three bytes: every value of every byte position next to boundary neighbours
	nb := []byte{0, 1, 3, 4, 15, 16, 63, 64, 127, 128, 251, 252, 255}
	for x := 0; x < 256; x++ {
		for _, y := range []byte{0, 255, nb[c.Rng.Intn(len(nb))]} {
			enc([]byte{byte(x), y}, "len2 first")
			enc([]byte{y, byte(x)}, "len2 second")
			if c.Thorough() || x%4 == 0 {
				enc([]byte{byte(x), y, y ^ 0x5a}, "len3 first")
				enc([]byte{y, byte(x), y ^ 0xa5}, "len3 second")
				enc([]byte{y ^ 0x33, y, byte(x)}, "len3 third")
			}
		}
	}
	for i := 0; i < c.Scale(300, 5000); i++ {
		l := c.Rng.Intn(40)
		if i%10 == 0 {
			l = 32 // keys, hashes
		}
		b := make([]byte, l)
		c.Rng.Read(b)
		enc(b, "random")
	}
}

func c17Sized(unit string, cp int) string { return rep(unit, cp) }

func genC17Limits(c *Ctx, g *c17Gen) {
	// RuneCountInString over the boundary bytes of every UTF-8 range
	bb := []byte{0x00, 0x41, 0x7f, 0x80, 0x8f, 0x90, 0x9f, 0xa0, 0xbf, 0xc0, 0xc1, 0xc2, 0xdf, 0xe0, 0xe1, 0xec, 0xed, 0xee, 0xef, 0xf0, 0xf1, 0xf3, 0xf4, 0xf5, 0xff}
	var rec func(p []byte, n int)
	rec = func(p []byte, n int) {
		c.Run("C17.rune_count", [][]byte{p}, "C17.rune_count", "", "rune_count exhaustive")
		c.Count("rune_count")
		if n == 0 {
			return
		}
		for _, b := range bb {
			rec(append(append([]byte{}, p...), b), n-1)
		}
	}
	rec(nil, c.Scale(2, 3))
	for i := 0; i < c.Scale(1500, 20000); i++ {
		l := 1 + c.Rng.Intn(8)
		p := make([]byte, l)
		for j := range p {
			if c.Rng.Intn(3) == 0 {
				p[j] = 0x80 + byte(c.Rng.Intn(0x40))
			} else {
				p[j] = bb[c.Rng.Intn(len(bb))]
			}
		}
		c.Run("C17.rune_count", [][]byte{p}, "C17.rune_count", "", "rune_count random")
		c.Count("rune_count")
	}
	for _, s := range []string{"é", "€", "😀", "a€b", rep("😀", 300), "\xed\xa0\x80", "\xf4\x90\x80\x80", "\xe0\x80\x80", "\xc0\xaf"} {
		c.Run("C17.rune_count", Args(s), "C17.rune_count", "", "rune_count corpus")
	}

	// sizes to put into a field: (description, string of exactly that many code points / bytes)
	type sz struct {
		unit   string
		cp     int
		filler int // extra ASCII bytes
	}
	var sizes []sz
	for _, n := range []int{1, 254, 255, 256, 257} {
		sizes = append(sizes, sz{"a", n, 0})
	}
	for _, u := range []string{"é", "€", "😀"} {
		w := len(u)
		// byte boundary: just below / at / above 255 bytes with few code points
		for _, t := range []int{254, 255, 256} {
			sizes = append(sizes, sz{u, t / w, t - (t/w)*w})
		}
		// code point boundary
		sizes = append(sizes, sz{u, 254, 0}, sz{u, 255, 0}, sz{u, 256, 0}, sz{u, 254, 1}, sz{u, 254, 2})
	}
	mk := func(s sz, fixed int) string {
		// a string of s.cp units and s.filler ASCII bytes, shortened by the fixed bytes around it
		f := s.filler
		cp := s.cp
		for fixed > 0 {
			if f > 0 {
				f--
			} else if s.unit == "a" && cp > 0 {
				cp--
			} else {
				break
			}
			fixed--
		}
		return rep(s.unit, cp) + rep("a", f)
	}
	// checkID directly
	for _, s := range sizes {
		for _, sig := range []string{"@", "!"} {
			body := mk(s, 3)
			c.Run("C17.check_id", Args(sig+body+":x", sig), "C17.check_id", "", "check_id size")
			c.Run("C17.check_id", Args(sig+"x:"+body, sig), "C17.check_id", "", "check_id size")
			c.Count("check_id")
		}
	}
	for _, id := range []string{"", ":", "@", "@a", "@a:b", "!a:b", "a:b", ":@", "@:", rep("a", 300), "@" + rep("a", 300), ":" + rep("é", 300), "!" + rep("é", 300) + ":"} {
		c.Run("C17.check_id", Args(id, "@"), "C17.check_id", "", "check_id shape")
		c.Run("C17.check_id", Args(id, "!"), "C17.check_id", "", "check_id shape")
		c.Count("check_id")
	}

	// events on receipt and on build: each limited field at each size, every version
	empty := ""
	for _, v := range c17Versions {
		ver := gmsl.RoomVersion(v)
		domainless := v == "12" || v == "org.matrix.hydra.11"
		room := "!r:x"
		if domainless {
			room = "!" + rep("A", 43)
		}
		type variant struct {
			field string
			f     c17Fields
			desc  string
		}
		var vs []variant
		base := c17Fields{ver: ver, typ: "m.room.message", sender: "@u:x", room: room}
		vs = append(vs, variant{"none", base, "plain message"})
		st := base
		st.sk = &empty
		st.typ = "m.room.topic"
		vs = append(vs, variant{"none", st, "plain state"})
		for _, s := range sizes {
			f := base
			f.typ = mk(s, 0)
			vs = append(vs, variant{"type", f, fmt.Sprintf("type %s cp=%d+%d", s.unit, s.cp, s.filler)})
			f = base
			k := mk(s, 0)
			f.sk = &k
			vs = append(vs, variant{"state_key", f, fmt.Sprintf("state_key %s cp=%d+%d", s.unit, s.cp, s.filler)})
			f = base
			f.sender = "@" + mk(s, 3) + ":x"
			vs = append(vs, variant{"sender", f, fmt.Sprintf("sender %s cp=%d+%d", s.unit, s.cp, s.filler)})
			f = base
			// a room ID with a domain in every version (a domainless one has a fixed length);
			// since the repair of F9 an event is only "otherwise valid" if its room ID is
			// grammatical, so the opaque part must not be empty
			if body := mk(s, 3); body != "" {
				f.room = "!" + body + ":x"
				vs = append(vs, variant{"room", f, fmt.Sprintf("room %s cp=%d+%d", s.unit, s.cp, s.filler)})
			}
		}
		// total size
		tots := []int{65536, 65537}
		if c.Thorough() || v == "1" || v == "10" || v == "12" {
			tots = []int{65535, 65536, 65537, 70000}
		}
		for _, tot := range tots {
			f := base
			f.total = tot
			vs = append(vs, variant{"json", f, fmt.Sprintf("json total=%d", tot)})
		}
		for _, vr := range vs {
			if !c.Thorough() && vr.field != "none" && vr.field != "json" && c.Rng.Intn(2) == 0 && v != "10" && v != "12" && v != "1" && v != "org.matrix.msc4014" {
				continue // quick tier: half of the matrix for the other versions
			}
			j, err := c17EventJSON(vr.f)
			if err != nil {
				panic(err)
			}
			c.Run("C17.receive", [][]byte{B(v), j}, "C17.receive", "C17.prop.receive", "receive "+v+" "+vr.desc)
			c.Count("receive/" + vr.field)
			hasSK, sk := "0", ""
			if vr.f.sk != nil {
				hasSK, sk = "1", *vr.f.sk
			}
			want := ""
			if vr.f.total > 0 {
				want = strconv.Itoa(vr.f.total)
			}
			c.Run("C17.build", Args(v, vr.f.typ, hasSK, sk, vr.f.sender, vr.f.room, want), "C17.build", "C17.prop.build", "build "+v+" "+vr.desc)
			c.Count("build/" + vr.field)
		}
		// correspondence only: missing reference lists, malformed sender / room, combinations
		for _, d := range []string{"auth", "prev", "authnull"} {
			f := base
			f.dropRefs = d
			j, _ := c17EventJSON(f)
			c.Run("C17.receive", [][]byte{B(v), j}, "C17.receive", "", "receive "+v+" refs "+d)
			c.Count("receive/refs")
		}
		for _, snd := range []string{"", "u:x", "@u", "@", ":", "!u:x", "@u:", "@:x", rep("a", 300), rep("é", 300) + ":x", "@" + rep("é", 300)} {
			f := base
			f.sender = snd
			j, _ := c17EventJSON(f)
			c.Run("C17.receive", [][]byte{B(v), j}, "C17.receive", "", "receive "+v+" sender shape")
			c.Run("C17.build", Args(v, f.typ, "0", "", snd, f.room, ""), "C17.build", "", "build "+v+" sender shape")
			c.Count("receive/shape")
		}
		for _, rm := range []string{"", "r:x", "!r", "!", ":", "@r:x", "!:x", "!r:", rep("a", 300), "!" + rep("é", 300), rep("é", 300) + ":x"} {
			f := base
			f.room = rm
			j, _ := c17EventJSON(f)
			c.Run("C17.receive", [][]byte{B(v), j}, "C17.receive", "", "receive "+v+" room shape")
			c.Run("C17.build", Args(v, f.typ, "0", "", f.sender, rm, ""), "C17.build", "", "build "+v+" room shape")
			c.Count("receive/shape")
		}
		// every combination of the four limited fields being within the limits, over the byte limit
		// only, or over the code-point limit (ASCII / multi-byte): the class is decided by the worst
		// field, whatever order the checks are made in
		long, longcp, bytesOnly := rep("a", 256), rep("é", 256), rep("é", 130)
		vals := []string{"", bytesOnly, long, longcp}
		// fifth value of the sender axis: a sender that is not a user ID (no sigil, no domain,
		// empty, another sigil) - refused whatever the sizes of the other fields (F100)
		malformed := []string{"", "garbage", "u:x", "@u", "!u:x", ":", "@", rep("é", 130)}
		full := c.Thorough() || v == "1" || v == "10" || v == "12" || v == "org.matrix.msc4014"
		for ci := 1; ci < 320; ci++ {
			ti, ki, ri, si := ci&3, (ci>>2)&3, (ci>>4)&3, ci>>6
			if !full && c.Rng.Intn(4) != 0 {
				continue
			}
			f := base
			if ti != 0 {
				f.typ = vals[ti]
			}
			if ki != 0 {
				k := vals[ki]
				f.sk = &k
			}
			switch {
			case si == 4:
				f.sender = malformed[ci%len(malformed)]
			case si != 0:
				f.sender = "@" + vals[si] + ":x"
			}
			if ri != 0 {
				f.room = "!" + vals[ri] + ":x"
			}
			what := "combination"
			if si == 4 {
				what = "combination malformed sender"
			}
			j, _ := c17EventJSON(f)
			c.Run("C17.receive", [][]byte{B(v), j}, "C17.receive", "C17.prop.receive", "receive "+v+" "+what)
			hasSK, sk := "0", ""
			if f.sk != nil {
				hasSK, sk = "1", *f.sk
			}
			c.Run("C17.build", Args(v, f.typ, hasSK, sk, f.sender, f.room, ""), "C17.build", "C17.prop.build", "build "+v+" "+what)
			c.Count("receive/" + what)
		}
		// create events (v12: no room ID allowed on build, none needed on receipt)
		cr := base
		cr.typ, cr.sk = "m.room.create", &empty
		if domainless {
			cr.noRoom = true
			cr.room = ""
		}
		j, _ := c17EventJSON(cr)
		c.Run("C17.receive", [][]byte{B(v), j}, "C17.receive", "C17.prop.receive", "receive "+v+" create")
		c.Run("C17.build", Args(v, cr.typ, "1", "", cr.sender, cr.room, ""), "C17.build", "C17.prop.build", "build "+v+" create")
		c.Run("C17.build", Args(v, cr.typ, "1", "", cr.sender, room, ""), "C17.build", "", "build "+v+" create with room id")
		c.Run("C17.build", Args(v, cr.typ, "1", "x", cr.sender, room, ""), "C17.build", "", "build "+v+" create with state key")
		c.Run("C17.build", Args(v, cr.typ, "0", "", cr.sender, room, ""), "C17.build", "", "build "+v+" create without state key")
		c.Count("receive/create")
	}
	c.Run("C17.receive", Args("13", "{}"), "C17.receive", "", "unknown version")
	c.Run("C17.build", Args("", "m.room.message", "0", "", "@u:x", "!r:x", ""), "C17.build", "", "unknown version")
}

func genC17Versions(c *Ctx, g *c17Gen) {
	vs := append([]string{}, c17Versions...)
	sort.Strings(vs)
	for _, v := range vs {
		c.Run("C17.version_traits", Args(v), "C17.version_traits", "C17.prop.version_traits", "traits of "+v)
		c.Count("version_traits")
	}
	for _, v := range []string{"", "0", "13", "v1", "org.matrix.msc2176", " 1", "1 "} {
		c.Run("C17.version_traits", Args(v), "C17.version_traits", "C17.prop.version_traits", "traits of an unregistered version")
		c.Count("version_traits")
	}
	// every version the library registers, whether or not this generator knows it
	var reg []string
	for v := range gmsl.RoomVersions() {
		reg = append(reg, string(v))
	}
	sort.Strings(reg)
	for _, v := range reg {
		known := false
		for _, k := range vs {
			known = known || k == v
		}
		if !known {
			c.Run("C17.version_traits", Args(v), "C17.version_traits", "C17.prop.version_traits", "traits of "+v+" (not in the specification table)")
		}
	}
	c.Run("C17.versions", Args(), "C17.versions", "C17.prop.versions", "registered and stable versions")
	c.Run("C17.lenient_versions", Args(), "C17.lenient_versions", "C17.prop.lenient_versions", "lenient byte limit versions")
}
