package main

// C18 crash search: every public entry point reachable with remote data, for every registered
// room version, fed with structurally valid events carrying hostile field values and with
// byte-level mutations. Every call runs under recover() (framework); the observable is the
// constant "nopanic" unless the library panicked. This part is a TEST (labelled so in the
// evidence); the proof part of C18 is coq/Props/C18.v.

import (
	"bytes"
	"context"
	"crypto/ed25519"
	"crypto/sha256"
	"encoding/base64"
	"encoding/hex"
	"encoding/json"
	"fmt"
	"io"
	"math/rand"
	"net/http"
	"os"
	"os/exec"
	"sort"
	"strconv"
	"strings"
	"time"

	gmsl "github.com/matrix-org/gomatrixserverlib"
	"github.com/matrix-org/gomatrixserverlib/fclient"
	"github.com/matrix-org/gomatrixserverlib/spec"
	"github.com/matrix-org/gomatrixserverlib/tokens"
)

var c18Versions []gmsl.RoomVersion

func c18AllVersions() []gmsl.RoomVersion {
	if c18Versions == nil {
		for v := range gmsl.RoomVersions() {
			c18Versions = append(c18Versions, v)
		}
		sort.Slice(c18Versions, func(i, j int) bool { return c18Versions[i] < c18Versions[j] })
	}
	return c18Versions
}

func c18UserIDForSender(roomID spec.RoomID, senderID spec.SenderID) (*spec.UserID, error) {
	return spec.NewUserID(string(senderID), true)
}

type c18Verifier struct{ ok bool }

func (v c18Verifier) VerifyJSONs(ctx context.Context, reqs []gmsl.VerifyJSONRequest) ([]gmsl.VerifyJSONResult, error) {
	res := make([]gmsl.VerifyJSONResult, len(reqs))
	if !v.ok {
		for i := range res {
			res[i].Error = fmt.Errorf("bad signature")
		}
	}
	return res, nil
}

// a state provider that knows no state (a nil one would be a local configuration error)
type c18StateProvider struct{}

func (c18StateProvider) StateIDsBeforeEvent(ctx context.Context, event gmsl.PDU) ([]string, error) {
	return nil, nil
}
func (c18StateProvider) StateBeforeEvent(ctx context.Context, roomVer gmsl.RoomVersion, event gmsl.PDU, eventIDs []string) (map[string]gmsl.PDU, error) {
	return map[string]gmsl.PDU{}, nil
}

type c18StateResp struct{ auth, state gmsl.EventJSONs }

func (r c18StateResp) GetAuthEvents() gmsl.EventJSONs  { return r.auth }
func (r c18StateResp) GetStateEvents() gmsl.EventJSONs { return r.state }

// exercise everything that can be applied to one accepted event
func c18ExerciseEvent(ev gmsl.PDU, sk ed25519.PrivateKey) {
	_ = ev.EventID()
	_ = ev.StateKey()
	_ = ev.StateKeyEquals("")
	_ = ev.Type()
	_ = ev.Content()
	_, _ = ev.JoinRule()
	_, _ = ev.HistoryVisibility()
	_, _ = ev.Membership()
	_, _ = ev.PowerLevels()
	_ = ev.Version()
	_ = ev.RoomID()
	_ = ev.Redacts()
	_ = ev.Redacted()
	_ = ev.PrevEventIDs()
	_ = ev.OriginServerTS()
	_ = ev.SenderID()
	_ = ev.Unsigned()
	_ = ev.Depth()
	_ = ev.JSON()
	_ = ev.AuthEventIDs()
	_ = ev.IsSticky(time.Now(), time.Now())
	_ = ev.StickyEndTime(time.Now())
	if h, err := ev.ToHeaderedJSON(); err == nil {
		if e2, err := gmsl.NewEventFromHeaderedJSON(h, false); err == nil {
			_ = e2.EventID()
			_ = e2.RoomID()
		}
	}
	if e2, err := ev.SetUnsigned(map[string]interface{}{"age": 1}); err == nil && e2 != nil {
		_ = e2.EventID()
		_ = e2.RoomID()
		_ = e2.AuthEventIDs()
	}
	_ = ev.SetUnsignedField("x", 1)
	// Sign is a mutation, not one of the operations the property lists; the library itself
	// signs a remote event only after its signatures verified, which needs a well-formed
	// `signatures` member - so it is exercised under that condition only
	var shape struct {
		Signatures map[string]map[string]spec.Base64Bytes `json:"signatures"`
	}
	if json.Unmarshal(ev.JSON(), &shape) == nil {
		s := ev.Sign("signer.example", "ed25519:1", sk)
		if s != nil {
			_ = s.EventID()
			_ = s.RoomID()
			_ = s.AuthEventIDs()
		}
	}
	_ = gmsl.StateNeededForAuth([]gmsl.PDU{ev})
	_ = gmsl.VerifyEventSignatures(context.Background(), ev, c18Verifier{true}, c18UserIDForSender)
	_ = gmsl.VerifyEventSignatures(context.Background(), ev, c18Verifier{false}, c18UserIDForSender)
	if verImpl, err := gmsl.GetRoomVersion(ev.Version()); err == nil {
		_, _ = verImpl.RedactEventJSON(ev.JSON())
	}
	ev.Redact()
	_ = ev.EventID()
	_ = ev.RoomID()
	_ = ev.Content()
}

// hostile values for event fields
var c18RoomIDs = []string{"!room:example.org", "!a:b c", "!:", "!a:", "!abc", "!", "", ":", "!:x", "#room:example.org", "!" + strings.Repeat("a", 300) + ":x", "!r:[::1]:80", "!r:exa mple", "!\x00:x", "!31hneApxJ_1o-63DmFrpeqnkFfWppnzWso1JvH3ogLM", "room", "!a:b:c:d",
	"!" + strings.Repeat("ä", 130) + ":x", "!" + strings.Repeat("ä", 300) + ":x", "!" + strings.Repeat("😀", 70) + ":example.org"}
var c18Users = []string{"@alice:example.org", "@:", "@", "", "@a", "alice", "@a:", "@:b", "@a:b:c", "@" + strings.Repeat("u", 260) + ":x", "@A:b", "@a:b c", "@a:[::1]", "@\xff:x", "#a:b", "@a\x00:b",
	"@" + strings.Repeat("ü", 130) + ":x", "@" + strings.Repeat("ü", 300) + ":x"}
var c18StateKeys = []interface{}{"", "@alice:example.org", "@", "@x", "x", nil, 5, "@bob:other.org", strings.Repeat("k", 300), "éé", strings.Repeat("é", 200), strings.Repeat("é", 300)}
var c18Numbers = []interface{}{0, 1, -1, 50, 100, 9007199254740991, 9007199254740992, -9007199254740991, json.Number("9223372036854775807"), json.Number("9223372036854775808"), json.Number("1e400"), json.Number("-1e400"), 1.5, "100", " 7 ", "x", nil, true, []int{1}, map[string]int{"a": 1}, json.Number("1E2"), json.Number("-0")}

func c18PickAny(r *rand.Rand, l []interface{}) interface{} { return l[r.Intn(len(l))] }

func c18HostileContent(r *rand.Rand, typ string) map[string]interface{} {
	c := map[string]interface{}{}
	num := func() interface{} { return c18PickAny(r, c18Numbers) }
	user := func() string { return c18Users[r.Intn(len(c18Users))] }
	switch typ {
	case "m.room.create":
		c["creator"] = user()
		if r.Intn(2) == 0 {
			c["room_version"] = []interface{}{"1", "10", "12", "999", 5, nil}[r.Intn(6)]
		}
		if r.Intn(2) == 0 {
			c["m.federate"] = []interface{}{true, false, "no", 1, nil}[r.Intn(5)]
		}
		if r.Intn(2) == 0 {
			c["additional_creators"] = []interface{}{[]string{user()}, []interface{}{1, nil}, "x", nil, map[string]int{}}[r.Intn(5)]
		}
	case "m.room.member":
		c["membership"] = []interface{}{"join", "invite", "leave", "ban", "knock", "", "x", 5, nil}[r.Intn(9)]
		if r.Intn(3) == 0 {
			c["join_authorised_via_users_server"] = []interface{}{user(), 5, nil, "", "@a"}[r.Intn(5)]
		}
		if r.Intn(3) == 0 {
			c["third_party_invite"] = []interface{}{
				map[string]interface{}{"signed": map[string]interface{}{"mxid": user(), "token": "t", "signatures": map[string]interface{}{"x": map[string]interface{}{"ed25519:1": "AAAA"}}}},
				map[string]interface{}{"signed": 5}, "x", nil, map[string]interface{}{},
				map[string]interface{}{"signed": map[string]interface{}{"mxid": 5, "token": nil, "signatures": "x"}},
			}[r.Intn(6)]
		}
	case "m.room.power_levels":
		for _, k := range []string{"ban", "kick", "redact", "invite", "events_default", "state_default", "users_default"} {
			if r.Intn(2) == 0 {
				c[k] = num()
			}
		}
		if r.Intn(2) == 0 {
			c["users"] = []interface{}{map[string]interface{}{user(): num(), user(): num()}, "x", nil, []int{1}, 5}[r.Intn(5)]
		}
		if r.Intn(2) == 0 {
			c["events"] = []interface{}{map[string]interface{}{"m.room.name": num(), "": num()}, "x", nil, 5}[r.Intn(4)]
		}
		if r.Intn(2) == 0 {
			c["notifications"] = []interface{}{map[string]interface{}{"room": num(), "x": num()}, "x", nil, 5}[r.Intn(4)]
		}
	case "m.room.join_rules":
		c["join_rule"] = []interface{}{"public", "invite", "knock", "restricted", "knock_restricted", "private", "", 5, nil}[r.Intn(9)]
		if r.Intn(2) == 0 {
			c["allow"] = []interface{}{[]interface{}{map[string]interface{}{"type": "m.room_membership", "room_id": "!x:y"}}, "x", 5, nil, []interface{}{5, nil}}[r.Intn(5)]
		}
	case "m.room.third_party_invite":
		c["public_key"] = []interface{}{"AAAA", "", 5, nil, "!!!!"}[r.Intn(5)]
		c["public_keys"] = []interface{}{[]interface{}{map[string]interface{}{"public_key": "AAAA"}, map[string]interface{}{"public_key": 5}, 7}, "x", nil}[r.Intn(3)]
	case "m.room.history_visibility":
		c["history_visibility"] = []interface{}{"shared", "joined", "x", 5, nil}[r.Intn(5)]
	case "m.room.redaction":
		c["redacts"] = []interface{}{"$abc", "$x:other.org", 5, nil, ""}[r.Intn(5)]
	case "m.room.aliases":
		c["aliases"] = []interface{}{[]string{"#a:b"}, "x", nil}[r.Intn(3)]
	default:
		c["body"] = "hi"
		c["n"] = num()
	}
	if r.Intn(6) == 0 {
		c["extra"] = map[string]interface{}{"deep": []interface{}{1, "x", nil, map[string]interface{}{"k": num()}}}
	}
	return c
}

var c18Types = []string{"m.room.create", "m.room.member", "m.room.power_levels", "m.room.join_rules", "m.room.third_party_invite",
	"m.room.history_visibility", "m.room.redaction", "m.room.aliases", "m.room.topic", "m.room.message", "", "m.room.name", strings.Repeat("t", 300), strings.Repeat("ť", 200)}

func c18HostileEvent(r *rand.Rand, ver gmsl.RoomVersion) []byte {
	typ := c18Types[r.Intn(len(c18Types))]
	ev := map[string]interface{}{
		"type":             typ,
		"room_id":          c18RoomIDs[0],
		"sender":           c18Users[0],
		"content":          c18HostileContent(r, typ),
		"origin_server_ts": 1700000000000,
		"depth":            5,
		"origin":           "example.org",
		"hashes":           map[string]interface{}{"sha256": "AAAAAAAAAAAAAAAAAAAAAAAAAAAAAAAAAAAAAAAAAAA"},
		"signatures":       map[string]interface{}{"example.org": map[string]interface{}{"ed25519:1": strings.Repeat("A", 86)}},
	}
	verImpl, _ := gmsl.GetRoomVersion(ver)
	if verImpl != nil && verImpl.EventFormat() == gmsl.EventFormatV1 {
		ev["event_id"] = "$abc:example.org"
		ev["prev_events"] = []interface{}{[]interface{}{"$p:example.org", map[string]string{"sha256": "AAAA"}}}
		ev["auth_events"] = []interface{}{[]interface{}{"$a:example.org", map[string]string{"sha256": "AAAA"}}}
	} else {
		ev["prev_events"] = []string{"$p"}
		ev["auth_events"] = []string{"$a"}
	}
	if r.Intn(3) != 0 {
		ev["state_key"] = c18PickAny(r, c18StateKeys)
	}
	// hostile mutations of the envelope
	for k := r.Intn(3); k > 0; k-- {
		switch r.Intn(14) {
		case 0:
			ev["room_id"] = c18RoomIDs[r.Intn(len(c18RoomIDs))]
		case 1:
			ev["sender"] = c18Users[r.Intn(len(c18Users))]
		case 2:
			ev["depth"] = c18PickAny(r, c18Numbers)
		case 3:
			ev["origin_server_ts"] = c18PickAny(r, c18Numbers)
		case 4:
			ev["prev_events"] = []interface{}{[]string{}, "x", nil, []interface{}{5}, []interface{}{[]interface{}{}}, []interface{}{[]interface{}{"$x"}}, []interface{}{[]interface{}{5, 5}}, []string{"$a", "$b", "$a"}}[r.Intn(8)]
		case 5:
			ev["auth_events"] = []interface{}{[]string{}, "x", nil, []interface{}{5}, []interface{}{[]interface{}{}}, []interface{}{[]interface{}{"$x"}}, []string{"$a", "$a"}}[r.Intn(7)]
		case 6:
			delete(ev, []string{"room_id", "sender", "content", "type", "hashes", "signatures", "depth", "origin_server_ts", "prev_events", "auth_events"}[r.Intn(10)])
		case 7:
			ev["content"] = []interface{}{"x", nil, 5, []int{1}}[r.Intn(4)]
		case 8:
			ev["hashes"] = []interface{}{"x", nil, map[string]interface{}{"sha256": 5}, map[string]interface{}{}, map[string]interface{}{"sha256": "!!"}}[r.Intn(5)]
		case 9:
			ev["signatures"] = []interface{}{"x", nil, map[string]interface{}{"a": 5}, map[string]interface{}{"a": map[string]interface{}{"ed25519:1": 5}}, map[string]interface{}{}}[r.Intn(5)]
		case 10:
			ev["unsigned"] = []interface{}{"x", nil, map[string]interface{}{"age": "x"}, 5}[r.Intn(4)]
		case 11:
			ev["redacts"] = []interface{}{"$r", 5, nil}[r.Intn(3)]
		case 12:
			ev["event_id"] = []interface{}{"$x", "$", "", 5, "$a:b:c", "x"}[r.Intn(6)]
		case 13:
			ev["type"] = []interface{}{5, nil, ""}[r.Intn(3)]
		}
	}
	b, _ := json.Marshal(ev)
	return b
}

// c18Rehash gives the event the content hash the library will compute for it
func c18Rehash(j []byte) []byte {
	var m map[string]json.RawMessage
	if json.Unmarshal(j, &m) != nil {
		return j
	}
	h := map[string]json.RawMessage{}
	for k, v := range m {
		if k != "signatures" && k != "unsigned" && k != "hashes" && k != "outlier" && k != "destinations" && k != "age_ts" {
			h[k] = v
		}
	}
	hb, err := json.Marshal(h)
	if err != nil {
		return j
	}
	cj, err := gmsl.CanonicalJSON(hb)
	if err != nil {
		return j
	}
	sum := sha256.Sum256(cj)
	m["hashes"] = json.RawMessage(`{"sha256":"` + base64.RawStdEncoding.EncodeToString(sum[:]) + `"}`)
	out, err := json.Marshal(m)
	if err != nil {
		return j
	}
	return out
}

func c18MutateBytes(r *rand.Rand, b []byte) []byte {
	out := append([]byte{}, b...)
	if len(out) == 0 {
		return []byte{byte(r.Intn(256))}
	}
	for k := 1 + r.Intn(3); k > 0; k-- {
		switch r.Intn(5) {
		case 0:
			out = out[:r.Intn(len(out)+1)]
		case 1:
			if len(out) > 0 {
				out[r.Intn(len(out))] = byte(r.Intn(256))
			}
		case 2:
			i := r.Intn(len(out) + 1)
			ins := []string{"\\u", "\\ud800", "-", "\"", "\\", "{", "[", "-0", "\\u12", ":", ",", "e", "\xff"}[r.Intn(13)]
			out = append(out[:i], append([]byte(ins), out[i:]...)...)
		case 3:
			if len(out) > 1 {
				i := r.Intn(len(out) - 1)
				out = append(out[:i], out[i+1:]...)
			}
		case 4:
			if len(out) > 0 {
				i := r.Intn(len(out))
				out = append(out, out[i:]...)
			}
		}
		if len(out) == 0 {
			break
		}
	}
	return out
}

func init() {
	_, sk, _ := ed25519.GenerateKey(rand.New(rand.NewSource(42)))
	np := B("nopanic")
	// [version; event json] parse as untrusted and trusted; exercise what was accepted
	RegisterImpl("C18.event", func(args [][]byte) ([][]byte, []byte) {
		verImpl, err := gmsl.GetRoomVersion(gmsl.RoomVersion(args[0]))
		if err != nil {
			return args, np
		}
		// "events that parsing accepted" = results of NewEventFromUntrustedJSON (DESIGN 5.0);
		// the same event with a correct content hash is tried too, so that it comes back unredacted
		for _, j := range [][]byte{args[1], c18Rehash(args[1])} {
			ev, err := verImpl.NewEventFromUntrustedJSON(j)
			if ve, ok := err.(gmsl.EventValidationError); ok && ve.Persistable && ev == nil {
				// "persistable" means the caller may keep the event: EventJSONs.UntrustedEvents does
				return args, B("PANIC: (would-be) NewEventFromUntrustedJSON returned a persistable error with a nil event: " + err.Error())
			}
			if ev != nil {
				if _, persistable := err.(gmsl.EventValidationError); err == nil || persistable {
					c18ExerciseEvent(ev, sk)
				}
			}
		}
		for _, e := range (gmsl.EventJSONs{args[1], c18Rehash(args[1])}).UntrustedEvents(verImpl.Version()) {
			if e == nil {
				return args, B("PANIC: (would-be) EventJSONs.UntrustedEvents returned a nil PDU")
			}
		}
		_ = (gmsl.EventJSONs{args[1]}).TrustedEvents(verImpl.Version(), false)
		_, _ = verImpl.RedactEventJSON(args[1])
		_ = verImpl.CheckCanonicalJSON(args[1])
		var pl gmsl.PowerLevelContent
		_ = verImpl.ParsePowerLevels(args[1], &pl)
		_, _ = verImpl.RestrictedJoinServername(args[1])
		_ = verImpl.CheckRestrictedJoinsAllowed()
		_ = verImpl.CheckKnockingAllowed(string(args[0]), "@a:b", "@a:b", "knock", "leave")
		return args, np
	})
	// [version; event json...]: a group of events: auth checks against each other, state resolution, orderings, federation filters
	RegisterImpl("C18.group", func(args [][]byte) ([][]byte, []byte) {
		ver := gmsl.RoomVersion(args[0])
		verImpl, err := gmsl.GetRoomVersion(ver)
		if err != nil {
			return args, np
		}
		var evs []gmsl.PDU
		var raws gmsl.EventJSONs
		for _, j := range args[1:] {
			raws = append(raws, spec.RawJSON(j))
			if ev, err := verImpl.NewEventFromUntrustedJSON(c18Rehash(j)); err == nil && ev != nil {
				evs = append(evs, ev)
			}
		}
		if len(evs) == 0 {
			return args, np
		}
		if ae, err := gmsl.NewAuthEvents(evs); err == nil {
			for _, e := range evs {
				_ = gmsl.Allowed(e, ae, c18UserIDForSender)
			}
		}
		notRejected := func(string) bool { return false }
		// state resolution is defined on STATE events (its callers filter; CheckStateResponse
		// refuses responses with non-state events), so only those are handed to it
		var st []gmsl.PDU
		for _, e := range evs {
			if e.StateKey() != nil {
				st = append(st, e)
			}
		}
		half := len(st) / 2
		_, _ = gmsl.ResolveConflicts(ver, st, st, c18UserIDForSender, notRejected)
		_, _ = gmsl.ResolveConflictsNew(ver, [][]gmsl.PDU{st[:half], st[half:]}, st, c18UserIDForSender, notRejected)
		_, _ = gmsl.ResolveConflictsNew(ver, [][]gmsl.PDU{st, st[half:]}, st[:half], c18UserIDForSender, notRejected)
		_ = gmsl.ResolveStateConflicts(st, st, c18UserIDForSender)
		// the AUTH events of state resolution are whatever events the conflicted ones name in their
		// auth_events - a remote server chooses them, so they may be any accepted event
		_, _ = gmsl.ResolveConflicts(ver, st, evs, c18UserIDForSender, notRejected)
		_, _ = gmsl.ResolveConflictsNew(ver, [][]gmsl.PDU{st[:half], st[half:]}, evs, c18UserIDForSender, notRejected)
		_ = gmsl.ResolveStateConflicts(evs, evs, c18UserIDForSender)
		_ = gmsl.ReverseTopologicalOrdering(evs, gmsl.TopologicalOrderByAuthEvents)
		_ = gmsl.ReverseTopologicalOrdering(evs, gmsl.TopologicalOrderByPrevEvents)
		_ = gmsl.LineariseStateResponse(ver, c18StateResp{raws, raws})
		// a sane provider: answers only with events that were asked for (one that answers with
		// other events makes checkAllowedByAuthEvents retry forever - a liveness matter noted under C14)
		provider := func(rv gmsl.RoomVersion, ids []string) ([]gmsl.PDU, error) {
			var out []gmsl.PDU
			for _, e := range evs {
				for _, id := range ids {
					if e.EventID() == id {
						out = append(out, e)
					}
				}
			}
			return out, nil
		}
		_, _, _ = gmsl.CheckStateResponse(context.Background(), c18StateResp{raws[:len(raws)/2], raws[len(raws)/2:]}, ver, c18Verifier{true}, provider, c18UserIDForSender)
		_, _ = gmsl.CheckSendJoinResponse(context.Background(), ver, c18StateResp{raws, raws}, c18Verifier{true}, evs[0], provider, c18UserIDForSender)
		_ = gmsl.VerifyEventAuthChain(context.Background(), evs[0], provider, c18UserIDForSender)
		_ = gmsl.VerifyAllEventSignatures(context.Background(), evs, c18Verifier{false}, c18UserIDForSender)
		loader := gmsl.NewEventsLoader(ver, c18Verifier{true}, c18StateProvider{}, provider, false)
		rawMsgs := make([]json.RawMessage, len(raws))
		for i := range raws {
			rawMsgs[i] = json.RawMessage(raws[i])
		}
		_, _ = loader.LoadAndVerify(context.Background(), rawMsgs, gmsl.TopologicalOrderByPrevEvents, c18UserIDForSender)
		return args, np
	})
	// [bytes]: byte-level entry points
	RegisterImpl("C18.bytes", func(args [][]byte) ([][]byte, []byte) {
		b := args[0]
		s := string(b)
		_, _ = gmsl.CanonicalJSON(b)
		for _, v := range c18AllVersions() {
			_, _ = gmsl.EnforcedCanonicalJSON(b, v)
		}
		_, _ = gmsl.SignJSON("srv", "ed25519:1", sk, b)
		_ = gmsl.VerifyJSON("srv", "ed25519:1", sk.Public().(ed25519.PublicKey), b)
		_, _ = gmsl.ListKeyIDs("srv", b)
		_, _, _ = gmsl.SplitID('@', s)
		_, _ = spec.NewUserID(s, true)
		_, _ = spec.NewUserID(s, false)
		_, _ = spec.NewRoomID(s)
		_, _, _ = spec.ParseAndValidateServerName(spec.ServerName(s))
		sid := spec.SenderID(s)
		_ = sid.IsUserID()
		_ = sid.IsPseudoID()
		_ = sid.ToUserID()
		_ = sid.ToPseudoID()
		var b64 spec.Base64Bytes
		_ = b64.Decode(s)
		_ = b64.UnmarshalJSON(b)
		_, _, _, _, _ = fclient.ParseAuthorization(s)
		_, _ = tokens.GetUserFromToken(s)
		_ = tokens.ValidateToken(tokens.TokenOptions{ServerPrivateKey: []byte("k"), UserID: "u"}, s)
		var keys gmsl.ServerKeys
		if json.Unmarshal(b, &keys) == nil {
			_, _ = gmsl.CheckKeys(keys.ServerName, time.Now(), keys)
			_ = keys.PublicKey("ed25519:1", 0)
		}
		var txn gmsl.Transaction
		_ = json.Unmarshal(b, &txn)
		var rsj fclient.RespSendJoin
		_ = json.Unmarshal(b, &rsj)
		var rs fclient.RespState
		_ = json.Unmarshal(b, &rs)
		var ri fclient.RespInvite
		_ = json.Unmarshal(b, &ri)
		var rmj fclient.RespMakeJoin
		_ = json.Unmarshal(b, &rmj)
		var hx gmsl.HexString
		_ = hx.UnmarshalJSON(b)
		if _, err := gmsl.NewEventFromHeaderedJSON(b, false); err == nil {
		}
		for _, v := range c18AllVersions() {
			verImpl, err := gmsl.GetRoomVersion(v)
			if err != nil {
				continue
			}
			_, _ = verImpl.RedactEventJSON(b)
			_ = verImpl.CheckCanonicalJSON(b)
			var pl gmsl.PowerLevelContent
			_ = verImpl.ParsePowerLevels(b, &pl)
			_, _ = verImpl.RestrictedJoinServername(b)
			if ev, err := verImpl.NewEventFromUntrustedJSON(b); err == nil && ev != nil {
				_ = ev.EventID()
			}
			if ev, err := verImpl.NewEventFromTrustedJSON(b, false); err == nil && ev != nil {
				_ = ev.Type()
			}
			if ev, err := verImpl.NewEventFromTrustedJSONWithEventID("$x:y", b, false); err == nil && ev != nil {
				_ = ev.Type()
			}
			for _, e := range (gmsl.EventJSONs{b}).UntrustedEvents(v) {
				if e == nil {
					return args, B("PANIC: (would-be) EventJSONs.UntrustedEvents returned a nil PDU")
				}
			}
			_ = (gmsl.EventJSONs{b}).TrustedEvents(v, false)
		}
		return args, np
	})
	// [shape; depth; api]: a document nested `depth` deep, handed to one byte-level entry point IN
	// THIS PROCESS (used through C18.deep, which runs it in a child process)
	RegisterImpl("C18.deepchild", func(args [][]byte) ([][]byte, []byte) {
		n, _ := strconv.Atoi(string(args[1]))
		var b []byte
		switch string(args[0]) {
		case "arr":
			b = append(bytes.Repeat([]byte("["), n), bytes.Repeat([]byte("]"), n)...)
		case "obj":
			b = append(append(bytes.Repeat([]byte(`{"a":`), n), '1'), bytes.Repeat([]byte("}"), n)...)
		case "mixed":
			b = append(append(bytes.Repeat([]byte(`{"a":[`), n/2), '1'), bytes.Repeat([]byte("]}"), n/2)...)
		case "content": // an event whose content nests
			inner := append(append(bytes.Repeat([]byte(`{"a":`), n), '1'), bytes.Repeat([]byte("}"), n)...)
			b = []byte(`{"auth_events":[],"content":` + string(inner) + `,"depth":1,"hashes":{"sha256":"AAAA"},"origin_server_ts":1,"prev_events":[],"room_id":"!r:x","sender":"@a:x","type":"m.x","signatures":{"x":{"ed25519:1":"` + strings.Repeat("A", 86) + `"}}}`)
		case "unopened": // closers first: shallow for a counter, invalid for a parser
			b = append(bytes.Repeat([]byte("]"), n), bytes.Repeat([]byte("["), n)...)
		}
		switch string(args[2]) {
		case "canonical":
			_, _ = gmsl.CanonicalJSON(b)
		case "enforced":
			_, _ = gmsl.EnforcedCanonicalJSON(b, gmsl.RoomVersionV10)
			_, _ = gmsl.EnforcedCanonicalJSON(b, gmsl.RoomVersionV1)
		case "verify":
			_ = gmsl.VerifyJSON("x", "ed25519:1", make([]byte, 32), b)
			_, _ = gmsl.SignJSON("x", "ed25519:1", ed25519.NewKeyFromSeed(make([]byte, 32)), b)
		case "event":
			for _, v := range []gmsl.RoomVersion{gmsl.RoomVersionV1, gmsl.RoomVersionV10, gmsl.RoomVersionV12} {
				verImpl, _ := gmsl.GetRoomVersion(v)
				if ev, err := verImpl.NewEventFromUntrustedJSON(b); err == nil && ev != nil {
					_ = ev.EventID()
					ev.Redact()
				}
				_, _ = verImpl.RedactEventJSON(b)
				_ = verImpl.CheckCanonicalJSON(b)
			}
		case "keys":
			var keys gmsl.ServerKeys
			if json.Unmarshal(b, &keys) == nil {
				_, _ = gmsl.CheckKeys("x", time.Now(), keys)
			}
		}
		return args, np
	})
	// [shape; depth; api]: C18.deepchild in a child process: a stack overflow is a fatal error that
	// no recover() sees, so it can only be observed from outside
	RegisterImpl("C18.deep", func(args [][]byte) ([][]byte, []byte) {
		self, err := os.Executable()
		if err != nil {
			return args, B("cannot run the child: " + err.Error())
		}
		ctx, cancel := context.WithTimeout(context.Background(), 120*time.Second)
		defer cancel()
		cmd := exec.CommandContext(ctx, self, "isolated", "C18.deepchild", hex.EncodeToString(args[0]), hex.EncodeToString(args[1]), hex.EncodeToString(args[2]))
		out, err := cmd.CombinedOutput()
		if i := bytes.LastIndex(out, []byte("RESULT ")); i >= 0 && err == nil {
			h := strings.TrimSpace(string(out[i+7:]))
			if r, derr := hex.DecodeString(h); derr == nil {
				return args, r
			}
		}
		if ctx.Err() != nil {
			return args, B("TIMEOUT: no answer within 120 s")
		}
		msg := "process ended"
		for _, l := range strings.Split(string(out), "\n") {
			if strings.HasPrefix(l, "fatal error:") || strings.HasPrefix(l, "runtime: goroutine stack exceeds") || strings.HasPrefix(l, "panic:") {
				msg = l
				break
			}
		}
		return args, B("PANIC: the process ended: " + msg)
	})
	// [input; limit]: the nesting guard against its index-level model
	RegisterImpl("C18.nesting", func(args [][]byte) ([][]byte, []byte) {
		limit, _ := strconv.Atoi(string(args[1]))
		if gmsl.VerifC18JSONNestingExceeds(args[0], limit) {
			return args, B("true")
		}
		return args, B("false")
	})
	// [public key bytes]: keys of any length against a WELL-FORMED (64-byte) signature: the paths
	// that hand a remote-supplied key to ed25519.Verify (VerifyJSON directly, the verify_keys and
	// old_verify_keys of a key response)
	RegisterImpl("C18.verifykey", func(args [][]byte) ([][]byte, []byte) {
		key := args[0]
		sig := strings.Repeat("A", 86)
		msg := []byte(`{"a":1,"signatures":{"srv":{"ed25519:1":"` + sig + `"}}}`)
		_ = gmsl.VerifyJSON("srv", "ed25519:1", ed25519.PublicKey(key), msg)
		k64 := spec.Base64Bytes(key).Encode()
		for _, resp := range []string{
			`{"server_name":"srv","valid_until_ts":9999999999999,"verify_keys":{"ed25519:1":{"key":"` + k64 + `"}},"old_verify_keys":{},"signatures":{"srv":{"ed25519:1":"` + sig + `"}}}`,
			`{"server_name":"srv","valid_until_ts":9999999999999,"verify_keys":{"ed25519:2":{"key":"` + strings.Repeat("A", 43) + `"}},"old_verify_keys":{"ed25519:1":{"key":"` + k64 + `","expired_ts":1}},"signatures":{"srv":{"ed25519:1":"` + sig + `","ed25519:2":"` + sig + `"}}}`,
		} {
			var keys gmsl.ServerKeys
			if json.Unmarshal([]byte(resp), &keys) == nil {
				_, _ = gmsl.CheckKeys("srv", time.Now(), keys)
			}
		}
		return args, np
	})
	// [version; event json...]: events LINKED through their auth_events / prev_events: event i names
	// the IDs of the accepted events before it, so that auth chains, the auth-event maps of state
	// resolution and the orderings are walked with hostile events in every position
	RegisterImpl("C18.linked", func(args [][]byte) ([][]byte, []byte) {
		ver := gmsl.RoomVersion(args[0])
		verImpl, err := gmsl.GetRoomVersion(ver)
		if err != nil {
			return args, np
		}
		var evs []gmsl.PDU
		var raws gmsl.EventJSONs
		for _, j := range args[1:] {
			var m map[string]interface{}
			if json.Unmarshal(j, &m) != nil {
				continue
			}
			var refs []interface{}
			for _, e := range evs {
				if verImpl.EventFormat() == gmsl.EventFormatV1 {
					refs = append(refs, []interface{}{e.EventID(), map[string]string{"sha256": "AAAA"}})
				} else {
					refs = append(refs, e.EventID())
				}
			}
			if refs == nil {
				refs = []interface{}{}
			}
			m["auth_events"] = refs
			m["prev_events"] = refs
			if verImpl.EventFormat() == gmsl.EventFormatV1 {
				m["event_id"] = fmt.Sprintf("$e%d:example.org", len(evs))
			}
			b, err := json.Marshal(m)
			if err != nil {
				continue
			}
			b = c18Rehash(b)
			if ev, err := verImpl.NewEventFromUntrustedJSON(b); err == nil && ev != nil {
				evs = append(evs, ev)
				raws = append(raws, spec.RawJSON(b))
			}
		}
		if len(evs) < 2 {
			return args, np
		}
		var st []gmsl.PDU
		for _, e := range evs {
			if e.StateKey() != nil {
				st = append(st, e)
			}
		}
		notRejected := func(string) bool { return false }
		half := len(st) / 2
		_, _ = gmsl.ResolveConflicts(ver, st, evs, c18UserIDForSender, notRejected)
		_, _ = gmsl.ResolveConflictsNew(ver, [][]gmsl.PDU{st[:half], st[half:]}, evs, c18UserIDForSender, notRejected)
		_, _ = gmsl.ResolveConflictsNew(ver, [][]gmsl.PDU{st, st[half:]}, evs, c18UserIDForSender, notRejected)
		_ = gmsl.ResolveStateConflicts(evs, evs, c18UserIDForSender)
		_ = gmsl.ResolveStateConflictsV2(st[half:], st[:half], evs, c18UserIDForSender, notRejected)
		_ = gmsl.ReverseTopologicalOrdering(evs, gmsl.TopologicalOrderByAuthEvents)
		_ = gmsl.ReverseTopologicalOrdering(evs, gmsl.TopologicalOrderByPrevEvents)
		provider := func(rv gmsl.RoomVersion, ids []string) ([]gmsl.PDU, error) {
			var out []gmsl.PDU
			for _, e := range evs {
				for _, id := range ids {
					if e.EventID() == id {
						out = append(out, e)
					}
				}
			}
			return out, nil
		}
		for _, e := range evs {
			_ = gmsl.VerifyEventAuthChain(context.Background(), e, provider, c18UserIDForSender)
			if ae, err := gmsl.NewAuthEvents(evs); err == nil {
				_ = gmsl.Allowed(e, ae, c18UserIDForSender)
			}
		}
		_, _, _ = gmsl.CheckStateResponse(context.Background(), c18StateResp{raws, raws[len(raws)/2:]}, ver, c18Verifier{true}, provider, c18UserIDForSender)
		_, _ = gmsl.CheckSendJoinResponse(context.Background(), ver, c18StateResp{raws, raws}, c18Verifier{true}, evs[len(evs)-1], provider, c18UserIDForSender)
		_ = gmsl.LineariseStateResponse(ver, c18StateResp{raws, raws})
		return args, np
	})
	// [version; event json]: events whose top-level member names differ from the struct field
	// names only by case (encoding/json matches them, canonical JSON and redaction do not) -
	// the input class of known finding F31
	RegisterImpl("C18.casefold", func(args [][]byte) ([][]byte, []byte) {
		verImpl, err := gmsl.GetRoomVersion(gmsl.RoomVersion(args[0]))
		if err != nil {
			return args, np
		}
		ev, err := verImpl.NewEventFromUntrustedJSON(args[1])
		if err != nil || ev == nil {
			return args, np
		}
		_ = ev.EventID()
		_ = ev.RoomID()
		_ = ev.AuthEventIDs()
		if ae, err := gmsl.NewAuthEvents(nil); err == nil {
			_ = gmsl.Allowed(ev, ae, c18UserIDForSender)
		}
		ev.Redact()
		_ = ev.EventID()
		_ = ev.RoomID()
		_ = ev.AuthEventIDs()
		if ae, err := gmsl.NewAuthEvents(nil); err == nil {
			_ = gmsl.Allowed(ev, ae, c18UserIDForSender)
		}
		return args, np
	})
	// [version; event json]: Sign applied to an accepted event whose signatures were NOT verified
	// first - the input class of known finding F30
	RegisterImpl("C18.sign_unverified", func(args [][]byte) ([][]byte, []byte) {
		verImpl, err := gmsl.GetRoomVersion(gmsl.RoomVersion(args[0]))
		if err != nil {
			return args, np
		}
		ev, err := verImpl.NewEventFromUntrustedJSON(args[1])
		if err != nil || ev == nil {
			return args, np
		}
		_ = ev.Sign("signer.example", "ed25519:1", sk)
		return args, np
	})
	// [make_join template json]: EventBuilder.Build on a remote template (regression for F33),
	// and state resolution on a cycle of auth events (regression for F34)
	RegisterImpl("C18.template", func(args [][]byte) ([][]byte, []byte) {
		var pe gmsl.ProtoEvent
		if json.Unmarshal(args[1], &pe) != nil {
			return args, np
		}
		verImpl, err := gmsl.GetRoomVersion(gmsl.RoomVersion(args[0]))
		if err != nil {
			return args, np
		}
		eb := verImpl.NewEventBuilderFromProtoEvent(&pe)
		_, _ = eb.Build(time.Now(), "local.example", "ed25519:1", sk)
		return args, np
	})
	RegisterImpl("C18.cycle", func(args [][]byte) ([][]byte, []byte) {
		ver := gmsl.RoomVersion(args[0])
		verImpl, err := gmsl.GetRoomVersion(ver)
		if err != nil {
			return args, np
		}
		var evs []gmsl.PDU
		for _, j := range args[1:] {
			if ev, err := verImpl.NewEventFromTrustedJSON(j, false); err == nil {
				evs = append(evs, ev)
			}
		}
		if len(evs) < 2 {
			return args, np
		}
		notRejected := func(string) bool { return false }
		_, _ = gmsl.ResolveConflicts(ver, evs, evs, c18UserIDForSender, notRejected)
		_, _ = gmsl.ResolveConflictsNew(ver, [][]gmsl.PDU{evs[:1], evs[1:]}, evs, c18UserIDForSender, notRejected)
		_ = gmsl.ReverseTopologicalOrdering(evs, gmsl.TopologicalOrderByAuthEvents)
		return args, np
	})
	// [header1; header2; ...; body]: VerifyHTTPRequest on a request with the given Authorization
	// headers (all X-Matrix variants, repeated, case variants of the origin)
	RegisterImpl("C18.http", func(args [][]byte) ([][]byte, []byte) {
		body := args[len(args)-1]
		req, err := http.NewRequest("PUT", "http://dest.example/_matrix/federation/v1/send/1", bytes.NewReader(body))
		if err != nil {
			return args, np
		}
		req.RequestURI = "/_matrix/federation/v1/send/1"
		req.Header.Set("Content-Type", "application/json")
		for _, h := range args[:len(args)-1] {
			req.Header.Add("Authorization", string(h))
		}
		for _, v := range []c18Verifier{{true}, {false}} {
			req.Body = io.NopCloser(bytes.NewReader(body))
			_, _ = fclient.VerifyHTTPRequest(req, time.Now(), "dest.example", func(spec.ServerName) bool { return true }, v)
		}
		return args, np
	})
	// [status; cache-control; expires; content-length; body]: LookupWellKnown against a stub transport
	RegisterImpl("C18.wellknown", func(args [][]byte) ([][]byte, []byte) {
		old := http.DefaultTransport
		defer func() { http.DefaultTransport = old }()
		http.DefaultTransport = c18RT(func(req *http.Request) (*http.Response, error) {
			st := 200
			fmt.Sscanf(string(args[0]), "%d", &st)
			h := http.Header{}
			if len(args[1]) > 0 {
				h.Set("Cache-Control", string(args[1]))
			}
			if len(args[2]) > 0 {
				h.Set("Expires", string(args[2]))
			}
			if len(args[3]) > 0 {
				h.Set("Content-Length", string(args[3]))
			}
			return &http.Response{StatusCode: st, Header: h, Body: io.NopCloser(bytes.NewReader(args[4])), Request: req, ContentLength: -1}, nil
		})
		ctx, cancel := context.WithTimeout(context.Background(), 2*time.Second)
		defer cancel()
		_, _ = fclient.LookupWellKnown(ctx, "wk.example")
		return args, np
	})
	// [make_join json; send_join json]: PerformJoin against a scripted remote
	RegisterImpl("C18.performjoin", func(args [][]byte) ([][]byte, []byte) {
		uid, _ := spec.NewUserID("@me:local.example", true)
		rid, _ := spec.NewRoomID("!room:remote.example")
		_, _ = gmsl.PerformJoin(context.Background(), &c18JoinClient{mj: args[0], sj: args[1]}, gmsl.PerformJoinInput{
			UserID: uid, RoomID: rid, ServerName: "remote.example", Content: map[string]interface{}{},
			PrivateKey: sk, KeyID: "ed25519:1", KeyRing: &gmsl.KeyRing{KeyDatabase: c18KeyDB{}},
			EventProvider: func(rv gmsl.RoomVersion, ids []string) ([]gmsl.PDU, error) { return nil, nil },
			UserIDQuerier: c18UserIDForSender,
			GetOrCreateSenderID: func(ctx context.Context, userID spec.UserID, roomID spec.RoomID, roomVersion string) (spec.SenderID, ed25519.PrivateKey, error) {
				return spec.SenderID(userID.String()), sk, nil
			},
			StoreSenderIDFromPublicID: func(ctx context.Context, senderID spec.SenderID, userID string, id spec.RoomID) error { return nil },
		})
		return args, np
	})
	RegisterProp("C18", genC18)
}

type c18RT func(*http.Request) (*http.Response, error)

func (f c18RT) RoundTrip(r *http.Request) (*http.Response, error) { return f(r) }

// a key database that knows nothing
type c18KeyDB struct{}

func (c18KeyDB) FetcherName() string { return "c18" }
func (c18KeyDB) FetchKeys(ctx context.Context, reqs map[gmsl.PublicKeyLookupRequest]spec.Timestamp) (map[gmsl.PublicKeyLookupRequest]gmsl.PublicKeyLookupResult, error) {
	return map[gmsl.PublicKeyLookupRequest]gmsl.PublicKeyLookupResult{}, nil
}
func (c18KeyDB) StoreKeys(ctx context.Context, results map[gmsl.PublicKeyLookupRequest]gmsl.PublicKeyLookupResult) error {
	return nil
}

// scripted federation client for PerformJoin: both answers are raw JSON bodies as a remote sends them
type c18JoinClient struct{ mj, sj []byte }

type c18MakeJoin struct {
	RoomVersion gmsl.RoomVersion `json:"room_version"`
	JoinEvent   gmsl.ProtoEvent  `json:"event"`
}

func (m c18MakeJoin) GetJoinEvent() gmsl.ProtoEvent    { return m.JoinEvent }
func (m c18MakeJoin) GetRoomVersion() gmsl.RoomVersion { return m.RoomVersion }

func (f *c18JoinClient) MakeJoin(ctx context.Context, origin, s spec.ServerName, roomID, userID string) (gmsl.MakeJoinResponse, error) {
	var r c18MakeJoin
	if err := json.Unmarshal(f.mj, &r); err != nil {
		return nil, err
	}
	return r, nil
}

func (f *c18JoinClient) SendJoin(ctx context.Context, origin, s spec.ServerName, event gmsl.PDU) (gmsl.SendJoinResponse, error) {
	var r fclient.RespSendJoin
	if err := json.Unmarshal(f.sj, &r); err != nil {
		return nil, err
	}
	return &r, nil
}

// c18Ordered renders an object with its members in the given order (Go maps would sort them)
func c18Ordered(pairs [][2]string) []byte {
	var b strings.Builder
	b.WriteString("{")
	for i, p := range pairs {
		if i > 0 {
			b.WriteString(",")
		}
		k, _ := json.Marshal(p[0])
		b.Write(k)
		b.WriteString(":")
		b.WriteString(p[1])
	}
	b.WriteString("}")
	return []byte(b.String())
}

// c18CaseFoldEvents: events with case-variant member names, with the content hash the library
// will compute, the exact-case member first and the variant last (encoding/json lets the last win)
func c18CaseFoldEvents(ver gmsl.RoomVersion) [][]byte {
	verImpl, _ := gmsl.GetRoomVersion(ver)
	v1fmt := verImpl != nil && verImpl.EventFormat() == gmsl.EventFormatV1
	base := func(typ, sk string) [][2]string {
		p := [][2]string{{"type", strconvQuote(typ)}, {"sender", `"@a:x"`}, {"content", `{"creator":"@a:x"}`}, {"depth", "1"},
			{"origin_server_ts", "1"}, {"prev_events", "[]"}, {"auth_events", "[]"}}
		if sk != "-" {
			p = append(p, [2]string{"state_key", strconvQuote(sk)})
		}
		if v1fmt {
			p = append(p, [2]string{"event_id", `"$e:x"`})
		}
		return p
	}
	var out [][]byte
	add := func(p [][2]string) {
		j := c18Ordered(p)
		// take the hash from the re-hashed form, keep our member order
		var m map[string]json.RawMessage
		if json.Unmarshal(c18Rehash(j), &m) == nil {
			p = append([][2]string{{"hashes", string(m["hashes"])}}, p...)
		}
		out = append(out, c18Ordered(p))
	}
	// an unusable room_id under the exact name, a good one under a case variant
	for _, bad := range []string{"garbage", "", "!", "!AAAAAAAAAAAAAAAAAAAAAAAAAAAAAAAAAAAAAAAAAAA"} {
		for _, good := range []string{"!r:x", "!AAAAAAAAAAAAAAAAAAAAAAAAAAAAAAAAAAAAAAAAAAA"} {
			for _, ty := range [][2]string{{"m.x", "-"}, {"m.room.create", ""}, {"m.room.member", "@a:x"}} {
				p := append([][2]string{{"room_id", strconvQuote(bad)}}, base(ty[0], ty[1])...)
				p = append(p, [2]string{"ROOM_ID", strconvQuote(good)})
				add(p)
			}
		}
	}
	// an event ID smuggled in under a case variant (formats whose ID is the reference hash)
	for _, id := range []string{"x", "$", ":", "$other"} {
		p := append([][2]string{{"room_id", `"!r:x"`}}, base("m.room.create", "")...)
		p = append(p, [2]string{"Event_id", strconvQuote(id)})
		add(p)
		p = base("m.room.create", "") // v12: a create event carries no room_id
		p = append(p, [2]string{"Event_id", strconvQuote(id)})
		add(p)
	}
	// type flips between create and non-create
	p := append([][2]string{{"room_id", `""`}, {"type", `"m.x"`}}, base("m.room.create", "")[1:]...)
	p = append(p, [2]string{"TYPE", `"m.room.create"`})
	add(p)
	return out
}

func strconvQuote(s string) string {
	b, _ := json.Marshal(s)
	return string(b)
}

func genC18(c *Ctx) {
	r := c.Rng
	vers := c18AllVersions()
	// 0. the input classes of recorded findings (known: F30, F31) and of repaired ones (F33, F34)
	for _, v := range vers {
		for _, j := range c18CaseFoldEvents(v) {
			c.Run("C18.casefold", [][]byte{B(string(v)), j}, "C18.nopanic", "", "case-variant member names")
			c.Count("casefold")
		}
		for _, sig := range []string{`5`, `"x"`, `{"a":5}`, `{"a":{"ed25519:1":"@@@"}}`, `[]`, `true`, `{"a":null}`, `null`, `{}`} {
			p := [][2]string{{"room_id", `"!r:x"`}, {"sender", `"@a:x"`}, {"type", `"m.x"`}, {"content", `{}`}, {"depth", "1"}, {"origin_server_ts", "1"},
				{"prev_events", "[]"}, {"auth_events", "[]"}, {"event_id", `"$e:x"`}, {"signatures", sig}}
			c.Run("C18.sign_unverified", [][]byte{B(string(v)), c18Rehash(c18Ordered(p))}, "C18.nopanic", "", "Sign on unverified signatures "+sig)
			c.Count("sign_unverified")
		}
		for _, refs := range []string{`[[]]`, `[[5]]`, `[""]`, `[["$a:x"]]`, `[["$a:x",{"sha256":"AAAA"}]]`, `["$a"]`, `[[],[]]`, `[null]`, `[{}]`, `"x"`, `5`, `null`, `[[""]]`} {
			for _, field := range []string{"prev_events", "auth_events"} {
				other := "auth_events"
				if field == "auth_events" {
					other = "prev_events"
				}
				t := fmt.Sprintf(`{"type":"m.room.member","room_id":"!room:remote","sender":"@me:local","state_key":"@me:local","content":{"membership":"join"},%q:%s,%q:[],"depth":1}`, field, refs, other)
				c.Run("C18.template", [][]byte{B(string(v)), B(t)}, "C18.nopanic", "", "remote template "+field+"="+refs)
				c.Count("template")
			}
		}
		verImpl, _ := gmsl.GetRoomVersion(v)
		if verImpl != nil && verImpl.EventFormat() == gmsl.EventFormatV1 {
			mk := func(id, ty, sk, auth string) []byte {
				return B(fmt.Sprintf(`{"event_id":%q,"type":%q,"state_key":%q,"room_id":"!r:x","sender":"@a:x","content":{"users":{"@a:x":100}},"depth":2,"origin_server_ts":5,"prev_events":[],"auth_events":[[%q,{"sha256":"AAAA"}]]}`, id, ty, sk, auth))
			}
			c.Run("C18.cycle", [][]byte{B(string(v)), mk("$p1:x", "m.room.power_levels", "", "$p2:x"), mk("$p2:x", "m.room.power_levels", "", "$p1:x"), mk("$m:x", "m.room.member", "@a:x", "$p1:x")},
				"C18.nopanic", "", "two power-level events naming each other as auth events")
			c.Run("C18.cycle", [][]byte{B(string(v)), mk("$p1:x", "m.room.power_levels", "", "$p1:x"), mk("$t:x", "m.room.topic", "", "$p1:x")},
				"C18.nopanic", "", "a power-level event naming itself as auth event")
			c.Count("cycle")
		}
	}
	// the nesting guard: every string over the bytes that matter to it up to a length, and random longer ones
	{
		alpha := []byte("[]{}\"\\a")
		var rec func(p []byte, n int)
		rec = func(p []byte, n int) {
			for _, lim := range []string{"0", "1", "2"} {
				c.Run("C18.nesting", [][]byte{p, B(lim)}, "C18.nesting", "", "nesting guard exhaustive")
			}
			c.Count("nesting")
			if n == 0 {
				return
			}
			for _, b := range alpha {
				rec(append(append([]byte{}, p...), b), n-1)
			}
		}
		rec(nil, c.Scale(4, 5))
		for i := 0; i < c.Scale(500, 10000); i++ {
			p := make([]byte, 1+r.Intn(40))
			for j := range p {
				p[j] = alpha[r.Intn(len(alpha))]
			}
			c.Run("C18.nesting", [][]byte{p, B(strconv.Itoa(r.Intn(6)))}, "C18.nesting", "", "nesting guard random")
			c.Count("nesting")
		}
		c.Run("C18.nesting", [][]byte{bytes.Repeat([]byte("["), 10001), B(strconv.Itoa(gmsl.VerifC18MaxJSONDepth()))}, "C18.nesting", "", "nesting guard at the limit")
		c.Run("C18.nesting", [][]byte{bytes.Repeat([]byte("["), 10000), B(strconv.Itoa(gmsl.VerifC18MaxJSONDepth()))}, "C18.nesting", "", "nesting guard at the limit")
	}
	// documents nested just inside / outside the depth encoding/json accepts, and far outside
	for _, shape := range []string{"arr", "obj", "mixed", "content", "unopened"} {
		for _, api := range []string{"canonical", "enforced", "verify", "event", "keys"} {
			depths := []string{"9999", "10001", "150000"}
			if c.Thorough() {
				depths = append(depths, "10000", "1000000")
			}
			for _, d := range depths {
				if shape == "content" && api != "event" && api != "canonical" {
					continue
				}
				c.Run("C18.deep", Args(shape, d, api), "C18.nopanic", "", "nesting "+shape+" depth "+d+" through "+api)
				c.Count("deep/" + api)
			}
		}
	}
	for _, n := range []int{0, 1, 16, 31, 32, 33, 48, 63, 64, 65, 100} {
		c.Run("C18.verifykey", [][]byte{bytes.Repeat([]byte{7}, n)}, "C18.nopanic", "", fmt.Sprintf("public key of %d bytes", n))
		c.Count("verifykey")
	}
	// directed: member events of every membership, with and without a state key (a member event
	// that is not a state event is accepted by the parsers), every version - independent of the seed
	for _, v := range vers {
		for _, ms := range []string{"invite", "join", "leave", "ban", "knock", ""} {
			for _, sk := range []string{"absent", "@alice:example.org", ""} {
				for _, tpi := range []bool{false, true} {
					ev := map[string]interface{}{"type": "m.room.member", "room_id": c18RoomIDs[0], "sender": c18Users[0],
						"content": map[string]interface{}{"membership": ms}, "origin_server_ts": 1700000000000, "depth": 5,
						"hashes":     map[string]interface{}{"sha256": "AAAAAAAAAAAAAAAAAAAAAAAAAAAAAAAAAAAAAAAAAAA"},
						"signatures": map[string]interface{}{"example.org": map[string]interface{}{"ed25519:1": strings.Repeat("A", 86)}}}
					if sk != "absent" {
						ev["state_key"] = sk
					}
					if tpi {
						ev["content"].(map[string]interface{})["third_party_invite"] = map[string]interface{}{"signed": map[string]interface{}{"mxid": "@alice:example.org", "token": "t", "signatures": map[string]interface{}{"x": map[string]interface{}{"ed25519:1": "AAAA"}}}}
					}
					if ms == "join" {
						ev["content"].(map[string]interface{})["join_authorised_via_users_server"] = "@bob:other.org"
					}
					verImpl, _ := gmsl.GetRoomVersion(v)
					if verImpl != nil && verImpl.EventFormat() == gmsl.EventFormatV1 {
						ev["event_id"] = "$abc:example.org"
						ev["prev_events"] = []interface{}{}
						ev["auth_events"] = []interface{}{}
					} else {
						ev["prev_events"] = []string{}
						ev["auth_events"] = []string{}
					}
					b, _ := json.Marshal(ev)
					c.Run("C18.event", [][]byte{B(string(v)), b}, "C18.nopanic", "", "member event membership="+ms+" state_key="+sk)
					c.Count("member-directed")
				}
			}
		}
	}
	// 1. hostile single events, every version
	n := c.Scale(120, 1500)
	for _, v := range vers {
		for i := 0; i < n; i++ {
			c.Run("C18.event", [][]byte{B(string(v)), c18HostileEvent(r, v)}, "C18.nopanic", "", "hostile event")
			c.Count("event/" + string(v))
		}
	}
	// 2. groups of hostile events
	n = c.Scale(25, 300)
	for _, v := range vers {
		for i := 0; i < n; i++ {
			args := [][]byte{B(string(v))}
			for k := 2 + r.Intn(6); k > 0; k-- {
				args = append(args, c18HostileEvent(r, v))
			}
			c.Run("C18.group", args, "C18.nopanic", "", "hostile group")
			c.Count("group/" + string(v))
		}
	}
	// 2b. linked groups: mostly well-formed events (so that they are accepted and name each other),
	// control types with and without a state key
	n = c.Scale(25, 300)
	for _, v := range vers {
		for i := 0; i < n; i++ {
			args := [][]byte{B(string(v))}
			for k := 3 + r.Intn(6); k > 0; k-- {
				typ := c18Types[r.Intn(9)]
				ev := map[string]interface{}{"type": typ, "room_id": c18RoomIDs[0], "sender": c18Users[0], "content": c18HostileContent(r, typ),
					"origin_server_ts": 1700000000000 + r.Intn(5), "depth": 5, "hashes": map[string]interface{}{"sha256": "AAAA"},
					"signatures": map[string]interface{}{"example.org": map[string]interface{}{"ed25519:1": strings.Repeat("A", 86)}}}
				switch r.Intn(4) {
				case 0: // not a state event
				case 1:
					ev["state_key"] = c18Users[0]
				default:
					ev["state_key"] = ""
				}
				b, _ := json.Marshal(ev)
				args = append(args, b)
			}
			c.Run("C18.linked", args, "C18.nopanic", "", "linked group")
			c.Count("linked/" + string(v))
		}
	}
	// every \uXXXX escape of one UTF-16 code unit class, alone and in pairs, as a JSON string and as a key
	for cu := 0; cu < 0x100; cu++ {
		e := fmt.Sprintf("\\u%04x", cu)
		for _, t := range []string{`"` + e + `"`, `{"` + e + `":1}`, `["a` + e + `b"]`, `"` + strings.ToUpper(e[:2]) + e[2:] + `"`} {
			c.Run("C18.bytes", [][]byte{B(t)}, "C18.nopanic", "", "unicode escape")
		}
		c.Count("unicode-escapes")
	}
	for _, cu := range []int{0x7ff, 0x800, 0xd7ff, 0xd800, 0xdbff, 0xdc00, 0xdfff, 0xe000, 0xfffd, 0xffff} {
		for _, cu2 := range []int{0x20, 0xd800, 0xdc00, 0xdfff, 0xe000} {
			e := fmt.Sprintf(`"\u%04x\u%04x"`, cu, cu2)
			c.Run("C18.bytes", [][]byte{B(e)}, "C18.nopanic", "", "unicode escape pair")
			c.Run("C18.bytes", [][]byte{B(e[:len(e)-3])}, "C18.nopanic", "", "unicode escape pair truncated")
		}
	}
	// Authorization header sets
	hdr := func(origin, dest, key, sig string) string {
		return fmt.Sprintf(`X-Matrix origin="%s",destination="%s",key="%s",sig="%s"`, origin, dest, key, sig)
	}
	sig64 := strings.Repeat("A", 86)
	origins := []string{"remote.example", "Remote.example", "REMOTE.EXAMPLE", "other.example", "", "remote.example:8448", "[::1]", "bad name", "remote.example."}
	var hsets [][]string
	for _, o1 := range origins {
		hsets = append(hsets, []string{hdr(o1, "dest.example", "ed25519:1", sig64)})
		for _, o2 := range origins {
			hsets = append(hsets, []string{hdr(o1, "dest.example", "ed25519:1", sig64), hdr(o2, "dest.example", "ed25519:2", sig64)})
		}
	}
	hsets = append(hsets, []string{"X-Matrix"}, []string{"X-Matrix "}, []string{"Bearer x"}, []string{""}, []string{hdr("a", "", "", "")},
		[]string{`X-Matrix origin=remote.example,key=ed25519:1,sig=` + sig64}, []string{hdr("remote.example", "dest.example", "ed25519:1", "!!!")},
		[]string{hdr("remote.example", "dest.example", "ed25519:1", sig64), hdr("remote.example", "dest.example", "ed25519:1", sig64), hdr("REMOTE.example", "x", "ed25519:1", sig64)})
	for _, hs := range hsets {
		for _, body := range []string{`{"a":1}`, ``, `[1]`, `nul`, "\xff"} {
			args := [][]byte{}
			for _, h := range hs {
				args = append(args, B(h))
			}
			args = append(args, B(body))
			c.Run("C18.http", args, "C18.nopanic", "", "authorization headers")
			c.Count("http")
		}
	}
	// well-known replies
	for _, cc := range []string{"", "max-age", "max-age=", "max-age=5", "max-age=x", "=", "=5", "public", "public, max-age", "max-age=5, public", ",", ",,max-age", "max-age=5=6", "no-cache, max-age=99999999999999999999", " max-age = 7 ", "s-maxage=1,max-age"} {
		for _, exp := range []string{"", "x", "Mon, 02 Jan 2006 15:04:05 GMT"} {
			for _, cl := range []string{"", "5", "-1", "x", "99999999"} {
				for _, body := range []string{`{"m.server":"a.example:443"}`, `{}`, ``, `null`, `{"m.server":5}`, `[`} {
					if (cl != "" || exp != "") && body != `{"m.server":"a.example:443"}` {
						continue
					}
					c.Run("C18.wellknown", Args("200", cc, exp, cl, body), "C18.nopanic", "", "well-known reply")
					c.Count("wellknown")
				}
			}
		}
	}
	for _, st := range []string{"404", "500", "301", "0"} {
		c.Run("C18.wellknown", Args(st, "max-age", "", "", `{"m.server":"a"}`), "C18.nopanic", "", "well-known status")
	}
	// make_join / send_join answers of a remote
	tmpl := func(extra string) string {
		return `{"type":"m.room.member","room_id":"!room:remote.example","sender":"@me:local.example","state_key":"@me:local.example","content":{"membership":"join"},"depth":1` + extra + `}`
	}
	sjOK := `{"state":[],"auth_chain":[],"origin":"remote.example"}`
	var mjs []string
	for _, rv := range []string{``, `"room_version":"1",`, `"room_version":"10",`, `"room_version":"12",`, `"room_version":"org.matrix.msc4014",`, `"room_version":"999",`, `"room_version":5,`} {
		for _, refs := range []string{``, `,"auth_events":[],"prev_events":[]`, `,"auth_events":null,"prev_events":null`, `,"auth_events":[[]],"prev_events":[[5]]`, `,"auth_events":["$a"],"prev_events":["$p"]`,
			`,"auth_events":[["$a:x",{"sha256":"AAAA"}]],"prev_events":[["$p:x",{"sha256":"AAAA"}]]`, `,"auth_events":"x","prev_events":5`, `,"auth_events":[""],"prev_events":[null]`} {
			mjs = append(mjs, `{`+rv+`"event":`+tmpl(refs)+`}`)
		}
		mjs = append(mjs, `{`+rv+`"event":{}}`, `{`+rv+`"event":null}`, `{`+rv+`"event":{"content":null,"type":"m.room.member"}}`, `{`+rv+`"event":{"content":"x"}}`)
	}
	mjs = append(mjs, `{}`, `null`, `[]`, `{"event":5}`)
	for _, mj := range mjs {
		for _, sj := range []string{sjOK, `{}`, `{"state":[{}],"auth_chain":[5],"event":{"type":"m.room.member"}}`, `{"state":null,"auth_chain":null,"event":null,"members_omitted":true,"servers_in_room":null}`} {
			c.Run("C18.performjoin", Args(mj, sj), "C18.nopanic", "", "scripted make_join / send_join")
			c.Count("performjoin")
		}
	}
	// 3. byte-level
	seeds := []string{`{"a":1,"b":[1,2,{"c":"é😀"}],"signatures":{"srv":{"ed25519:1":"AAAA"}},"unsigned":{}}`,
		`{"server_name":"srv","valid_until_ts":1,"verify_keys":{"ed25519:1":{"key":"AAAA"}},"old_verify_keys":{"ed25519:0":{"key":"AA","expired_ts":1}},"signatures":{"srv":{"ed25519:1":"AAAA"}}}`,
		`{"server_name":"srv","valid_until_ts":9999999999999,"verify_keys":{"ed25519":{"key":"AAAA"},"":{"key":"AAAA"},"curve25519":{"key":"AAAA"},":":{"key":""},"ed25519:":{"key":null}},"old_verify_keys":{"x":{"key":"AA","expired_ts":1},"":{}},"signatures":{"srv":{"ed25519":"AAAA","":"AAAA"}}}`,
		`X-Matrix origin="a.example",key="ed25519:1",sig="AAAA",destination="b.example"`, `@alice:example.org`, `!room:example.org`, `example.org:8448`, `[::1]:8448`,
		`{"pdus":[{"type":"m.room.message"}],"edus":[],"origin":"x","origin_server_ts":1}`, `{"state":[],"auth_chain":[],"event":{},"origin":"x","members_omitted":true,"servers_in_room":["x"]}`,
		`[200,{"event":{}}]`, `"-0"`, `-`, `"\u`, `"\ud800`, `"\ud800\u`, `"\`, `-0`, `{"a":-0.5}`, `{"_room_version":"10","_event_id":"$x","type":"m.room.message"}`, `MDAxY2xvY2F0aW9u`, `AAAA`,
		`null`, `[]`, `5`, `"x"`, `{}`, `{"content":null}`, `{"content":{},"type":null}`, `{"room_id":"!r:x","type":"m.room.member","content":{"membership":null}}`,
		`{"auth_events":[],"content":{},"depth":1,"hashes":{"sha256":"AAAA"},"origin_server_ts":1,"prev_events":[],"room_id":"!` + strings.Repeat("ä", 130) + `:x","sender":"@a:x","type":"m.x"}`}
	n = c.Scale(1500, 30000)
	for i := 0; i < n; i++ {
		b := []byte(seeds[r.Intn(len(seeds))])
		if r.Intn(10) != 0 {
			b = c18MutateBytes(r, b)
		}
		c.Run("C18.bytes", [][]byte{b}, "C18.nopanic", "", "bytes")
		c.Count("bytes")
	}
	for _, s := range seeds {
		c.Run("C18.bytes", [][]byte{B(s)}, "C18.nopanic", "", "seed")
		for k := 0; k <= len(s); k++ { // every truncation
			c.Run("C18.bytes", [][]byte{B(s[:k])}, "C18.nopanic", "", "truncation")
		}
		c.Count("bytes-truncations")
	}
}
