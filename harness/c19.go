package main

// C19 — shared caches and parallel key fetching are safe under concurrency.
// (a) sequential operation sequences of the real DNSCache against the model's sequential
//     semantics (virtual time by ageing the entries through the overlay hook);
// (b) the real DirectKeyFetcher.FetchKeys (64-worker pool) against the model's sequential
//     evaluation and the union oracle;
// (c) stress runs of the real structures from many goroutines with the model's invariants
//     asserted after every operation (c19lib), once in this binary and once in a binary built
//     with the race detector (harness/racec19).

import (
	"context"
	"errors"
	"fmt"
	"net"
	"os"
	"os/exec"
	"path/filepath"
	"sort"
	"strconv"
	"strings"
	"time"

	"github.com/matrix-org/gomatrixserverlib/fclient"
	"verifharness/c19lib"
)

var c19ClosedPort string

func c19Port() string {
	if c19ClosedPort == "" {
		ln, err := net.Listen("tcp4", "127.0.0.1:0")
		if err != nil {
			return ""
		}
		_, c19ClosedPort, _ = net.SplitHostPort(ln.Addr().String())
		ln.Close()
	}
	return c19ClosedPort
}

// builds harness/racec19 with -race (same module file, tags and overlay as the harness itself)
func c19RaceBinary() (string, error) {
	out, _ := filepath.Abs(filepath.Join("build", "racec19"))
	mod, _ := filepath.Abs(filepath.Join("build", "harness.mod"))
	ov, _ := filepath.Abs(filepath.Join("build", "overlay.json"))
	cmd := exec.Command("go", "build", "-race", "-modfile", mod, "-tags", "verif", "-overlay", ov, "-o", out, "./racec19")
	cmd.Dir = "harness"
	cmd.Env = append(os.Environ(), "CGO_ENABLED=1")
	if b, err := cmd.CombinedOutput(); err != nil {
		return "", fmt.Errorf("%v: %s", err, string(b))
	}
	return out, nil
}

// the operations of one C19.dns_seq case, on one goroutine
func c19RunSeq(cache *fclient.DNSCache, answer *string, ops [][]byte, hits *int, lines *[]string) {
	for _, opb := range ops {
		f := strings.Split(string(opb), "|")
		res := "badop"
		switch {
		case f[0] == "L" && len(f) == 3:
			*answer = f[2]
			addrs, _, cached, ok := cache.VerifLookup(f[1])
			switch {
			case !ok:
				res = "fail"
			case cached:
				res = "hit:" + addrs[0].IP.String()
			default:
				res = "miss:" + addrs[0].IP.String()
			}
		case f[0] == "A" && len(f) == 2:
			s, _ := strconv.Atoi(f[1])
			cache.VerifAge(time.Duration(s) * time.Second)
			res = "aged"
		case f[0] == "X" && len(f) == 3:
			*answer = f[2]
			ctx, cancel := context.WithTimeout(context.Background(), 2*time.Second)
			c, err := cache.DialContext(ctx, "tcp", f[1]+":"+c19Port())
			cancel()
			if err == nil {
				c.Close()
				res = "x-connected"
			} else {
				res = "x"
			}
		}
		*lines = append(*lines, res+";"+strconv.Itoa(*hits)+";"+strings.Join(cache.VerifContent(), ","))
	}
}

func init() {
	// [size; duration seconds; op...]
	RegisterImpl("C19.dns_seq", func(args [][]byte) ([][]byte, []byte) {
		size, _ := strconv.Atoi(string(args[0]))
		dur, _ := strconv.Atoi(string(args[1]))
		answer := ""
		hits := 0
		cache := fclient.VerifNewDNSCache(size, time.Duration(dur)*time.Second, []string{"0.0.0.0/0"}, nil,
			func(host string) ([]net.IPAddr, error) {
				hits++
				if answer == "" {
					return nil, errors.New("stub: no such host")
				}
				return []net.IPAddr{{IP: net.ParseIP(answer)}}, nil
			})
		var lines []string
		finished := make(chan struct{})
		go func() {
			defer close(finished)
			c19RunSeq(cache, &answer, args[2:], &hits, &lines)
		}()
		select {
		case <-finished:
		case <-time.After(2 * time.Second):
			return args, B("timeout") // a call did not return: the goroutine is abandoned
		}
		return args, B(strings.Join(lines, "\n"))
	})

	// [nlocal; local key ids...; local name; nservers; (name; direct; notary; ncur; cur...; nold; old...)*; queries (server; keyid)*]
	RegisterImpl("C19.fetch_keys", func(args [][]byte) ([][]byte, []byte) {
		i := 0
		next := func() string { s := string(args[i]); i++; return s }
		nextN := func() []string {
			n, _ := strconv.Atoi(next())
			var l []string
			for k := 0; k < n; k++ {
				l = append(l, next())
			}
			return l
		}
		localIDs := nextN()
		local := next()
		ns, _ := strconv.Atoi(next())
		var plans []c19lib.ServerPlan
		for k := 0; k < ns; k++ {
			p := c19lib.ServerPlan{Name: next(), Direct: next(), Notary: next()}
			p.Cur = nextN()
			p.Old = nextN()
			plans = append(plans, p)
		}
		got, err := c19lib.FetchKeys(local, localIDs, plans, true)
		if err == c19lib.ErrTimeout {
			return args, B("timeout") // FetchKeys did not return: deadlock
		}
		if err != nil {
			return args, B("err")
		}
		var lines []string
		for i+1 < len(args) {
			s, k := next(), next()
			v, ok := got[s+"|"+k]
			if !ok {
				v = "-"
			}
			lines = append(lines, s+"|"+k+"="+v)
		}
		lines = append(lines, "n="+strconv.Itoa(len(got)))
		return args, B(strings.Join(lines, "\n"))
	})

	// [scenario; seed] in this (race-detector-less) binary
	RegisterImpl("C19.stress", func(args [][]byte) ([][]byte, []byte) {
		seed, _ := strconv.ParseInt(string(args[1]), 10, 64)
		switch string(args[0]) {
		case "dns":
			return args, B(c19lib.DNSStress(seed, 3, 8, 400, 2*time.Millisecond))
		case "dns-size1":
			return args, B(c19lib.DNSStress(seed, 1, 8, 300, time.Millisecond))
		case "dns-size0":
			return args, B(c19lib.DNSStress(seed, 0, 8, 200, time.Millisecond))
		case "dns-negative-size":
			return args, B(c19lib.DNSStress(seed, -3, 8, 200, time.Hour))
		case "dns-long-lived":
			return args, B(c19lib.DNSStress(seed, 4, 8, 300, time.Hour))
		case "fetch":
			return args, B(c19lib.FetchStress(seed, 4, 6))
		case "transport":
			return args, B(c19lib.TransportStress(seed, 8, 500))
		case "transport-fresh":
			return args, B(c19lib.TransportFreshStress(8, 600))
		case "event":
			return args, B(c19lib.EventStress(4))
		}
		return args, B("unknown scenario")
	})

	// [size; n] -> max=..;final=..
	RegisterImpl("C19.dns_barrier", func(args [][]byte) ([][]byte, []byte) {
		size, _ := strconv.Atoi(string(args[0]))
		n, _ := strconv.Atoi(string(args[1]))
		mx, fin, note := c19lib.DNSBarrier(size, n)
		out := fmt.Sprintf("max=%d;final=%d", mx, fin)
		if note != "" {
			out += ";" + note
		}
		return args, B(out)
	})

	// [op...]: G|name, A|seconds, R on one goroutine; tokens number the transports in the
	// order they were first handed out
	RegisterImpl("C19.transport_seq", func(args [][]byte) ([][]byte, []byte) {
		tr := fclient.VerifNewTransports()
		tokens := map[interface{}]int{}
		tok := func(t interface{}) int {
			if _, ok := tokens[t]; !ok {
				tokens[t] = len(tokens)
			}
			return tokens[t]
		}
		content := func() string {
			var l []string
			for n, t := range tr.Snapshot() {
				l = append(l, n+"="+strconv.Itoa(tok(t)))
			}
			sort.Strings(l)
			return strings.Join(l, ",")
		}
		var lines []string
		for _, opb := range args {
			f := strings.Split(string(opb), "|")
			switch {
			case f[0] == "G" && len(f) == 2:
				lines = append(lines, "t"+strconv.Itoa(tok(tr.Get(f[1])))+";"+content())
			case f[0] == "A" && len(f) == 2:
				s, _ := strconv.Atoi(f[1])
				tr.Age(time.Duration(s) * time.Second)
				lines = append(lines, "aged;"+content())
			case f[0] == "R":
				tr.Reap()
				lines = append(lines, "reaped;"+content())
			default:
				lines = append(lines, "badop")
			}
		}
		return args, B(strings.Join(lines, "\n"))
	})

	// [scenario] in a binary built with -race
	RegisterImpl("C19.race", func(args [][]byte) ([][]byte, []byte) {
		bin, err := c19RaceBinary()
		if err != nil {
			return args, B("race-build-failed: " + err.Error())
		}
		cmd := exec.Command(bin, string(args[0]))
		cmd.Env = append(os.Environ(), "GORACE=halt_on_error=1")
		out, err := cmd.CombinedOutput()
		text := string(out)
		if strings.Contains(text, "DATA RACE") {
			// name the racing functions, not addresses
			var fn []string
			for _, l := range strings.Split(text, "\n") {
				l = strings.TrimSpace(l)
				if strings.HasPrefix(l, "github.com/matrix-org/gomatrixserverlib") && len(fn) < 2 {
					fn = append(fn, strings.TrimSuffix(l, "()"))
				}
			}
			sort.Strings(fn)
			return args, B("RACE " + strings.Join(fn, " / "))
		}
		if err != nil {
			return args, B("failed: " + err.Error())
		}
		for _, l := range strings.Split(strings.TrimSpace(text), "\n") {
			if l != "ok" {
				return args, B(l)
			}
		}
		return args, B("ok")
	})

	RegisterProp("C19", genC19)
}

func genC19(c *Ctx) {
	r := c.Rng
	// ---- (a) sequential DNS cache
	hosts := []string{"a.example", "b.example", "c.example", "d.example", "e.example"}
	ip := func() string { return fmt.Sprintf("127.%d.%d.%d", r.Intn(256), r.Intn(256), 1+r.Intn(254)) } // loopback: a DialContext op fails fast
	seq := func(size, dur int, ops []string, desc string) {
		a := Args(strconv.Itoa(size), strconv.Itoa(dur))
		for _, o := range ops {
			a = append(a, B(o))
		}
		c.Run("C19.dns_seq", a, "C19.dns_seq", "C19.prop.dns_seq", desc)
		c.Count("dns_seq.size=" + strconv.Itoa(size))
	}
	// boundaries by hand: expiry exactly at / one second around the lifetime, eviction order, size 1
	seq(2, 10, []string{"L|a.example|127.1.0.1", "L|a.example|127.1.0.2", "A|9", "L|a.example|127.1.0.3", "A|1", "L|a.example|127.1.0.4", "L|a.example|127.1.0.5"}, "expiry boundary: 9 s hit, 10 s miss")
	seq(2, 10, []string{"L|a.example|127.1.0.1", "A|10", "L|a.example|", "L|a.example|127.1.0.2", "A|11", "L|a.example|127.1.0.3"}, "expired entry dropped even when the resolver fails")
	seq(1, 10, []string{"L|a.example|127.1.0.1", "L|b.example|127.1.0.2", "L|a.example|127.1.0.3", "L|a.example|127.1.0.4", "L|b.example|127.1.0.5"}, "size 1")
	seq(2, 10, []string{"L|a.example|127.1.0.1", "A|1", "L|b.example|127.1.0.2", "A|1", "L|c.example|127.1.0.3", "L|a.example|127.1.0.4", "L|b.example|127.1.0.5", "L|c.example|127.1.0.6"}, "eviction takes the entry that expires first")
	seq(3, 10, []string{"L|a.example|127.1.0.1", "A|1", "L|b.example|127.1.0.2", "A|1", "L|c.example|127.1.0.3", "A|1", "L|a.example|127.1.0.9", "L|d.example|127.1.0.4", "L|a.example|127.1.0.5", "L|b.example|127.1.0.6"}, "a hit does not refresh the expiry")
	seq(2, 10, []string{"L|a.example|", "L|a.example|", "L|a.example|127.1.0.1", "L|a.example|"}, "failures are not cached")
	seq(2, 10, []string{"L|a.example|127.1.0.1", "A|4", "L|b.example|127.1.0.2", "A|7", "L|c.example|127.1.0.3", "L|b.example|127.1.0.4", "L|a.example|127.1.0.5"}, "expired entry is the eviction victim")
	// a cache without room (0 is the zero value of an unset configuration field) holds nothing
	for _, sz := range []int{0, -1, -7} {
		seq(sz, 10, []string{"L|a.example|127.1.0.1", "L|a.example|127.1.0.2", "L|b.example|127.1.0.3", "A|1", "L|a.example|", "L|a.example|127.1.0.4"}, "size zero or negative: nothing is cached, nothing spins")
	}
	if c19Port() != "" {
		seq(0, 10, []string{"L|a.example|127.0.0.2", "X|a.example|127.0.0.3", "X|a.example|", "L|a.example|127.0.0.4"}, "size zero with the DialContext path")
		seq(2, 10, []string{"L|a.example|127.0.0.2", "X|a.example|127.0.0.3", "L|a.example|127.0.0.4", "X|b.example|127.0.0.5", "X|b.example|", "L|b.example|127.0.0.6"}, "DialContext retry path deletes and re-resolves")
	}
	for k := 0; k < c.Scale(400, 6000); k++ {
		size := 1 + r.Intn(4)
		if r.Intn(12) == 0 {
			size = -r.Intn(2)
		}
		dur := []int{1, 5, 10, 60}[r.Intn(4)]
		n := 5 + r.Intn(25)
		var ops []string
		for i := 0; i < n; i++ {
			h := hosts[r.Intn(c19lib.LimitOf(size)+1)]
			switch x := r.Intn(20); {
			case x < 12:
				ops = append(ops, "L|"+h+"|"+ip())
			case x < 14:
				ops = append(ops, "L|"+h+"|")
			case x < 19:
				ops = append(ops, "A|"+strconv.Itoa([]int{0, 1, dur - 1, dur, dur + 1, dur / 2, 2 * dur}[r.Intn(7)]))
			default:
				if c19Port() != "" && r.Intn(3) == 0 {
					ops = append(ops, fmt.Sprintf("X|%s|127.0.%d.%d", h, r.Intn(256), 1+r.Intn(254)))
				} else {
					ops = append(ops, "L|"+h+"|"+ip())
				}
			}
		}
		seq(size, dur, ops, "random sequence")
	}

	// ---- (b) worker pool
	directs := []string{"ok", "ok", "err", "wrongname", "expired", "badsig"}
	notaries := []string{"ok", "err", "missing", "badsig"}
	fetch := func(nserv int, desc string) {
		var a [][]byte
		nl := r.Intn(3)
		a = append(a, B(strconv.Itoa(nl)))
		var queries []string
		for i := 0; i < nl; i++ {
			id := fmt.Sprintf("ed25519:l%d", i)
			a = append(a, B(id))
			queries = append(queries, "local.example", id)
		}
		a = append(a, B("local.example"), B(strconv.Itoa(nserv)))
		for i := 0; i < nserv; i++ {
			name := fmt.Sprintf("s%03d.example", i)
			d, n := directs[r.Intn(len(directs))], notaries[r.Intn(len(notaries))]
			a = append(a, B(name), B(d), B(n))
			ncur := 1 + r.Intn(3)
			if r.Intn(12) == 0 {
				ncur = 0
			}
			a = append(a, B(strconv.Itoa(ncur)))
			for k := 0; k < ncur; k++ {
				id := fmt.Sprintf("ed25519:k%d", k)
				a = append(a, B(id))
				queries = append(queries, name, id)
			}
			nold := r.Intn(3)
			a = append(a, B(strconv.Itoa(nold)))
			for k := 0; k < nold; k++ {
				id := fmt.Sprintf("ed25519:k%d", 2+k) // may coincide with a current id: old wins
				a = append(a, B(id))
				queries = append(queries, name, id)
			}
			queries = append(queries, name, "ed25519:absent", "local.example", "ed25519:k0")
			c.Count("fetch.direct=" + d + ",notary=" + n)
		}
		queries = append(queries, "unknown.example", "ed25519:k0")
		for _, q := range queries {
			a = append(a, B(q))
		}
		c.Run("C19.fetch_keys", a, "C19.fetch_keys", "C19.prop.fetch_keys", desc)
	}
	for _, n := range []int{0, 1, 2, 63, 64, 65, 130, 200} { // a call that does not return becomes the observable "timeout"
		fetch(n, fmt.Sprintf("%d servers (worker limit 64)", n))
	}
	for k := 0; k < c.Scale(60, 600); k++ {
		fetch(1+r.Intn(12), "random plans")
	}

	// ---- (c) stress, invariants asserted in Go after every operation
	// N concurrent misses for distinct hosts, all held inside the resolver, size < N
	for _, sn := range [][2]int{{1, 2}, {1, 8}, {2, 3}, {3, 12}, {4, 4}, {5, 3}, {8, 64}} {
		c.Run("C19.dns_barrier", Args(strconv.Itoa(sn[0]), strconv.Itoa(sn[1])), "C19.dns_barrier", "C19.prop.dns_barrier", "barrier resolver")
		c.Count("dns_barrier")
	}
	// transport cache, one goroutine: same transport per name, reaping at 299 / 300 / 301 s
	tseq := func(ops ...string) {
		c.Run("C19.transport_seq", Args(ops...), "C19.transport_seq", "", "transport sequence")
		c.Count("transport_seq")
	}
	tseq("G|a", "G|b", "G|a", "R", "A|299", "R", "G|a", "A|1", "R", "G|b", "G|a", "A|301", "R", "R", "G|a")
	tseq("R", "G|x", "A|300", "G|y", "R", "G|x", "G|y", "A|150", "G|x", "A|151", "R", "G|y")
	for k := 0; k < c.Scale(60, 1000); k++ {
		var ops []string
		for i := 0; i < 4+r.Intn(16); i++ {
			switch x := r.Intn(10); {
			case x < 6:
				ops = append(ops, "G|"+[]string{"a", "b", "c", "d"}[r.Intn(4)])
			case x < 8:
				ops = append(ops, "A|"+strconv.Itoa([]int{0, 1, 149, 150, 299, 300, 301, 600}[r.Intn(8)]))
			default:
				ops = append(ops, "R")
			}
		}
		tseq(ops...)
	}
	for _, sc := range []string{"dns", "dns-size1", "dns-size0", "dns-negative-size", "dns-long-lived", "fetch", "transport", "transport-fresh", "event"} {
		for k := 0; k < c.Scale(1, 6); k++ {
			c.Run("C19.stress", Args(sc, strconv.Itoa(int(c.Seed)+k)), "C19.const_ok", "C19.prop.invariants_held", "stress "+sc)
			c.Count("stress." + sc)
		}
	}
	// the same scenarios under the race detector
	for _, sc := range []string{"dns", "fetch", "transport", "event"} {
		c.Run("C19.race", Args(sc), "C19.const_ok", "C19.prop.invariants_held", "race detector "+sc)
		c.Count("race." + sc)
	}
}
