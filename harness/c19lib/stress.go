// Package c19lib holds the concurrent stress scenarios of property C19. They are linked into
// the harness (normal build) and into harness/racec19 (built with -race by the harness).
// Every scenario asserts, after every operation, the invariants that the Coq model proves for
// all interleavings; it returns "ok" or a description of the first violation.
package c19lib

import (
	"context"
	"crypto/ed25519"
	"encoding/json"
	"errors"
	"fmt"
	"math/rand"
	"net"
	"sort"
	"strings"
	"sync"
	"sync/atomic"
	"time"

	"github.com/matrix-org/gomatrixserverlib"
	"github.com/matrix-org/gomatrixserverlib/fclient"
	"github.com/matrix-org/gomatrixserverlib/spec"
)

type violations struct {
	mu    sync.Mutex
	first string
}

func (v *violations) add(format string, a ...interface{}) {
	v.mu.Lock()
	if v.first == "" {
		v.first = fmt.Sprintf(format, a...)
	}
	v.mu.Unlock()
}

func (v *violations) result() string {
	v.mu.Lock()
	defer v.mu.Unlock()
	if v.first == "" {
		return "ok"
	}
	return "violation: " + v.first
}

// waitOrTimeout waits for the group; false = some goroutine did not come back in time (a
// spinning or blocked call: the goroutines are abandoned)
func waitOrTimeout(wg *sync.WaitGroup, d time.Duration) bool {
	done := make(chan struct{})
	go func() { wg.Wait(); close(done) }()
	select {
	case <-done:
		return true
	case <-time.After(d):
		return false
	}
}

// DNSStress: goroutines look up overlapping hosts in one cache of the given size while entries
// expire (short lifetime), get evicted and get deleted through the DialContext retry path.
func DNSStress(seed int64, size, goroutines, iterations int, lifetime time.Duration) string {
	var v violations
	var mu sync.Mutex
	answered := map[string]map[string]bool{} // host -> addresses the resolver has given for it
	var counter uint32
	resolver := func(host string) ([]net.IPAddr, error) {
		n := atomic.AddUint32(&counter, 1)
		if n%11 == 0 {
			return nil, errors.New("stub: no such host")
		}
		// loopback addresses: the DialContext path then fails fast on a closed port
		ip := net.IPv4(127, byte(host[len(host)-1]), byte(n>>8), byte(n))
		mu.Lock()
		if answered[host] == nil {
			answered[host] = map[string]bool{}
		}
		answered[host][ip.String()] = true
		mu.Unlock()
		if n%7 == 0 {
			time.Sleep(time.Duration(n%5) * 50 * time.Microsecond)
		}
		return []net.IPAddr{{IP: ip}}, nil
	}
	cache := fclient.VerifNewDNSCache(size, lifetime, []string{"0.0.0.0/0"}, nil, resolver)
	closedPort := closedLoopbackPort()
	var wg sync.WaitGroup
	for g := 0; g < goroutines; g++ {
		wg.Add(1)
		go func(g int) {
			defer wg.Done()
			r := rand.New(rand.NewSource(seed*1000 + int64(g)))
			for i := 0; i < iterations; i++ {
				host := fmt.Sprintf("host%d", r.Intn(LimitOf(size)+3))
				if closedPort != "" && r.Intn(40) == 0 {
					// every dial fails: a cached entry is deleted and looked up again
					ctx, cancel := context.WithTimeout(context.Background(), time.Second)
					c, err := cache.DialContext(ctx, "tcp", host+":"+closedPort)
					cancel()
					if err == nil {
						c.Close()
					}
				} else {
					before := time.Now()
					addrs, expires, cached, ok := cache.VerifLookup(host)
					if ok {
						if len(addrs) != 1 {
							v.add("lookup(%s) returned %d addresses", host, len(addrs))
						} else {
							mu.Lock()
							known := answered[host][addrs[0].IP.String()]
							mu.Unlock()
							if !known {
								v.add("lookup(%s) returned %s, which the resolver never answered for that host", host, addrs[0].IP)
							}
						}
						if cached && !before.Before(expires) {
							v.add("lookup(%s) served an entry that had expired %v before the call began", host, before.Sub(expires))
						}
					}
				}
				limit := size
				if limit < 0 {
					limit = 0
				}
				if n := cache.VerifLen(); n > limit {
					v.add("cache holds %d entries, configured size %d", n, size)
				}
			}
		}(g)
	}
	if !waitOrTimeout(&wg, 10*time.Second) {
		v.add("timeout: lookups on a cache of size %d did not return (lock held by a spinning call?)", size)
	}
	return v.result()
}

// LimitOf is the number of entries a cache of that configured size may hold.
func LimitOf(size int) int {
	if size < 0 {
		return 0
	}
	return size
}

func closedLoopbackPort() string {
	ln, err := net.Listen("tcp4", "127.0.0.1:0")
	if err != nil {
		return ""
	}
	_, p, _ := net.SplitHostPort(ln.Addr().String())
	ln.Close()
	return p
}

// ---------------------------------------------------------------- key fetching

// Outcome of the stub key client for one server.
type ServerPlan struct {
	Name     string
	Direct   string // ok | err | wrongname | expired | badsig
	Notary   string // ok | err | missing | badsig
	Cur, Old []string
}

type stubKeyClient struct {
	plans  map[string]ServerPlan
	keys   map[string]gomatrixserverlib.ServerKeys // valid responses
	bad    map[string]gomatrixserverlib.ServerKeys // responses with a broken signature
	jitter bool
	calls  int32
}

func signedKeys(name string, cur, old []string, validUntil int64, breakSig bool) gomatrixserverlib.ServerKeys {
	type vk struct {
		Key spec.Base64Bytes `json:"key"`
	}
	type ok struct {
		Key       spec.Base64Bytes `json:"key"`
		ExpiredTS int64            `json:"expired_ts"`
	}
	verify := map[string]vk{}
	olds := map[string]ok{}
	privs := map[string]ed25519.PrivateKey{}
	for _, id := range cur {
		seed := make([]byte, 32)
		copy(seed, name+"/"+id)
		priv := ed25519.NewKeyFromSeed(seed)
		privs[id] = priv
		verify[id] = vk{Key: spec.Base64Bytes(priv.Public().(ed25519.PublicKey))}
	}
	for _, id := range old {
		seed := make([]byte, 32)
		copy(seed, "old/"+name+"/"+id)
		priv := ed25519.NewKeyFromSeed(seed)
		olds[id] = ok{Key: spec.Base64Bytes(priv.Public().(ed25519.PublicKey)), ExpiredTS: 1000}
	}
	body, _ := json.Marshal(map[string]interface{}{
		"server_name": name, "verify_keys": verify, "old_verify_keys": olds, "valid_until_ts": validUntil,
	})
	for _, id := range cur {
		var err error
		body, err = gomatrixserverlib.SignJSON(name, gomatrixserverlib.KeyID(id), privs[id], body)
		if err != nil {
			panic(err)
		}
	}
	if breakSig {
		body = []byte(strings.Replace(string(body), `"valid_until_ts":`, `"valid_until_ts":1`, 1))
	}
	var sk gomatrixserverlib.ServerKeys
	if err := json.Unmarshal(body, &sk); err != nil {
		panic(err)
	}
	return sk
}

func newStubKeyClient(plans []ServerPlan, jitter bool) *stubKeyClient {
	c := &stubKeyClient{plans: map[string]ServerPlan{}, keys: map[string]gomatrixserverlib.ServerKeys{},
		bad: map[string]gomatrixserverlib.ServerKeys{}, jitter: jitter}
	for _, p := range plans {
		c.plans[p.Name] = p
		c.keys[p.Name] = signedKeys(p.Name, p.Cur, p.Old, 4000000000000, false)
		c.bad[p.Name] = signedKeys(p.Name, p.Cur, p.Old, 4000000000000, true)
	}
	return c
}

func (c *stubKeyClient) pause() {
	if c.jitter {
		n := atomic.AddInt32(&c.calls, 1)
		time.Sleep(time.Duration(n%7) * 30 * time.Microsecond)
	}
}

func (c *stubKeyClient) GetServerKeys(ctx context.Context, s spec.ServerName) (gomatrixserverlib.ServerKeys, error) {
	c.pause()
	p := c.plans[string(s)]
	switch p.Direct {
	case "ok":
		return c.keys[p.Name], nil
	case "wrongname":
		for _, other := range c.plans {
			if other.Name != p.Name && len(other.Cur) > 0 {
				return c.keys[other.Name], nil
			}
		}
		return gomatrixserverlib.ServerKeys{}, errors.New("stub: nothing to confuse with")
	case "expired":
		return signedKeys(p.Name, p.Cur, p.Old, 0, false), nil
	case "badsig":
		return c.bad[p.Name], nil
	}
	return gomatrixserverlib.ServerKeys{}, errors.New("stub: direct fetch failed")
}

func (c *stubKeyClient) LookupServerKeys(ctx context.Context, s spec.ServerName, _ map[gomatrixserverlib.PublicKeyLookupRequest]spec.Timestamp) ([]gomatrixserverlib.ServerKeys, error) {
	c.pause()
	p := c.plans[string(s)]
	var others []gomatrixserverlib.ServerKeys
	for _, o := range c.plans {
		if o.Name != p.Name && o.Direct == "ok" {
			others = append(others, c.keys[o.Name])
		}
	}
	switch p.Notary {
	case "ok":
		return append(others, c.keys[p.Name]), nil
	case "missing":
		return others, nil
	case "badsig":
		return append(others, c.bad[p.Name]), nil
	}
	return nil, errors.New("stub: notary fetch failed")
}

// Succeeds tells whether the plan ends with a result for the server.
func (p ServerPlan) Succeeds() bool {
	return len(p.Cur) > 0 && (p.Direct == "ok" || p.Notary == "ok")
}

// FetchKeys runs the real DirectKeyFetcher.FetchKeys once and renders the result map as sorted
// "server|keyid=kind" lines (kind: cur / old / local).
func FetchKeys(local string, localIDs []string, plans []ServerPlan, jitter bool) (map[string]string, error) {
	f := &gomatrixserverlib.DirectKeyFetcher{
		Client:            newStubKeyClient(plans, jitter),
		IsLocalServerName: func(s spec.ServerName) bool { return string(s) == local },
		LocalPublicKey:    spec.Base64Bytes("local-public-key-0123456789abcdef"),
	}
	return fetchWith(f, local, localIDs, plans)
}

// ErrTimeout is what a FetchKeys call that does not return within the watchdog time becomes.
var ErrTimeout = errors.New("timeout")

// Watchdog is how long a single FetchKeys call may take before it counts as deadlocked.
var Watchdog = 5 * time.Second

func fetchWith(f *gomatrixserverlib.DirectKeyFetcher, local string, localIDs []string, plans []ServerPlan) (map[string]string, error) {
	type res struct {
		m   map[string]string
		err error
	}
	ch := make(chan res, 1)
	go func() {
		m, err := fetchWithNoWatchdog(f, local, localIDs, plans)
		ch <- res{m, err}
	}()
	select {
	case r := <-ch:
		return r.m, r.err
	case <-time.After(Watchdog):
		return nil, ErrTimeout // the goroutines of the stuck call are abandoned
	}
}

func fetchWithNoWatchdog(f *gomatrixserverlib.DirectKeyFetcher, local string, localIDs []string, plans []ServerPlan) (map[string]string, error) {
	reqs := map[gomatrixserverlib.PublicKeyLookupRequest]spec.Timestamp{}
	for _, id := range localIDs {
		reqs[gomatrixserverlib.PublicKeyLookupRequest{ServerName: spec.ServerName(local), KeyID: gomatrixserverlib.KeyID(id)}] = 1
	}
	for _, p := range plans {
		id := "ed25519:requested"
		if len(p.Cur) > 0 {
			id = p.Cur[0]
		}
		reqs[gomatrixserverlib.PublicKeyLookupRequest{ServerName: spec.ServerName(p.Name), KeyID: gomatrixserverlib.KeyID(id)}] = 1
	}
	res, err := f.FetchKeys(context.Background(), reqs)
	if err != nil {
		return nil, err
	}
	out := map[string]string{}
	for k, r := range res {
		kind := "cur"
		if string(k.ServerName) == local {
			kind = "local"
		} else if r.ExpiredTS != gomatrixserverlib.PublicKeyNotExpired {
			kind = "old"
		}
		out[string(k.ServerName)+"|"+string(k.KeyID)] = kind
	}
	return out, nil
}

func render(m map[string]string) string {
	keys := make([]string, 0, len(m))
	for k := range m {
		keys = append(keys, k+"="+m[k])
	}
	sort.Strings(keys)
	return strings.Join(keys, ",")
}

// FetchStress: many goroutines call FetchKeys on ONE fetcher over overlapping server sets,
// with jitter in the stub client; every result must equal the sequential evaluation (the union
// of the per-server successes and the local entries).
func FetchStress(seed int64, goroutines, iterations int) string {
	var v violations
	r0 := rand.New(rand.NewSource(seed))
	var all []ServerPlan
	directs := []string{"ok", "ok", "ok", "err", "wrongname", "expired", "badsig"}
	notaries := []string{"ok", "err", "missing", "badsig"}
	for i := 0; i < 90; i++ {
		p := ServerPlan{Name: fmt.Sprintf("s%02d.example", i), Direct: directs[r0.Intn(len(directs))], Notary: notaries[r0.Intn(len(notaries))]}
		for k := 0; k < 1+r0.Intn(3); k++ {
			p.Cur = append(p.Cur, fmt.Sprintf("ed25519:c%d", k))
		}
		for k := 0; k < r0.Intn(3); k++ {
			p.Old = append(p.Old, fmt.Sprintf("ed25519:o%d", k))
		}
		all = append(all, p)
	}
	f := &gomatrixserverlib.DirectKeyFetcher{
		Client:            newStubKeyClient(all, true),
		IsLocalServerName: func(s spec.ServerName) bool { return string(s) == "local.example" },
		LocalPublicKey:    spec.Base64Bytes("local-public-key-0123456789abcdef"),
	}
	var wg sync.WaitGroup
	for g := 0; g < goroutines; g++ {
		wg.Add(1)
		go func(g int) {
			defer wg.Done()
			r := rand.New(rand.NewSource(seed*977 + int64(g)))
			for i := 0; i < iterations; i++ {
				var plans []ServerPlan
				n := 1 + r.Intn(len(all)) // up to 90 servers: more jobs than the 64 workers
				for _, j := range r.Perm(len(all))[:n] {
					plans = append(plans, all[j])
				}
				got, err := fetchWith(f, "local.example", []string{"ed25519:l1"}, plans)
				if err != nil {
					v.add("FetchKeys over %d servers: %v", n, err)
					if err == ErrTimeout {
						return
					}
					continue
				}
				want := map[string]string{"local.example|ed25519:l1": "local"}
				for _, p := range plans {
					if !p.Succeeds() {
						continue
					}
					for _, id := range p.Cur {
						want[p.Name+"|"+id] = "cur"
					}
					for _, id := range p.Old {
						want[p.Name+"|"+id] = "old"
					}
				}
				if render(got) != render(want) {
					v.add("FetchKeys over %d servers: got %d keys, the union has %d", n, len(got), len(want))
				}
			}
		}(g)
	}
	wg.Wait()
	return v.result()
}

// TransportStress: concurrent getTransport for overlapping TLS server names plus the reaper:
// one transport per name, the same one for every caller.
func TransportStress(seed int64, goroutines, iterations int) string {
	var v violations
	tr := fclient.VerifNewTransports()
	var mu sync.Mutex
	seen := map[string]interface{}{}
	var wg sync.WaitGroup
	for g := 0; g < goroutines; g++ {
		wg.Add(1)
		go func(g int) {
			defer wg.Done()
			r := rand.New(rand.NewSource(seed*31 + int64(g)))
			for i := 0; i < iterations; i++ {
				name := fmt.Sprintf("sni%d.example", r.Intn(6))
				t := tr.Get(name)
				mu.Lock()
				if old, ok := seen[name]; ok && old != interface{}(t) {
					v.add("two different transports handed out for %s", name)
				}
				seen[name] = t
				mu.Unlock()
				if r.Intn(50) == 0 {
					tr.Reap() // nothing is older than the lifetime: must remove nothing
				}
				if n := tr.Len(); n > 6 {
					v.add("%d transports for 6 names", n)
				}
			}
		}(g)
	}
	wg.Wait()
	return v.result()
}

// accessorSamples: one freshly parsable event text per (event class, kind). Classes: eventV1
// (room versions 1-2), eventV2 (3-11), eventV3 (12: create event without room_id, whose room ID
// is derived from its event ID, and ordinary events).
func accessorSamples(round int) []struct{ Ver, Label, JSON string } {
	v1ref := `[["$prev:example.org",{"sha256":"cHJldg"}]]`
	common := fmt.Sprintf(`"sender":"@u:example.org","origin_server_ts":%d,"depth":7,"hashes":{"sha256":"aGFzaA"},"signatures":{},"unsigned":{"age":1}`, 1000+round)
	v1 := func(typ, sk, content string) string {
		return fmt.Sprintf(`{"event_id":"$e%d:example.org","type":%q,%s"room_id":"!r:example.org","prev_events":%s,"auth_events":%s,"content":%s,%s}`,
			round, typ, sk, v1ref, v1ref, content, common)
	}
	v2 := func(typ, sk, content string) string {
		return fmt.Sprintf(`{"type":%q,%s"room_id":"!r:example.org","prev_events":["$p1","$p2"],"auth_events":["$a1"],"content":%s,%s}`,
			typ, sk, content, common)
	}
	v3 := func(typ, sk, room, content string) string {
		return fmt.Sprintf(`{"type":%q,%s%s"prev_events":["$p1"],"auth_events":["$a1"],"content":%s,%s}`,
			typ, sk, room, content, common)
	}
	room12 := `"room_id":"!31hneApxJ_1o-63DmFrpeqnkFfWppnzWso1JvH3ogLM",`
	kinds := []struct{ label, typ, sk, content string }{
		{"message", "m.room.message", ``, `{"body":"x","msgtype":"m.text"}`},
		{"member", "m.room.member", `"state_key":"@u:example.org",`, `{"membership":"join"}`},
		{"join_rules", "m.room.join_rules", `"state_key":"",`, `{"join_rule":"public"}`},
		{"history_visibility", "m.room.history_visibility", `"state_key":"",`, `{"history_visibility":"shared"}`},
		{"power_levels", "m.room.power_levels", `"state_key":"",`, `{"users":{"@u:example.org":100},"users_default":0}`},
		{"redaction", "m.room.redaction", ``, `{"redacts":"$x"}`},
		{"sticky", "m.room.message", ``, `{"body":"s"}`},
	}
	var out []struct{ Ver, Label, JSON string }
	for _, k := range kinds {
		out = append(out, struct{ Ver, Label, JSON string }{"1", "eventV1/" + k.label, v1(k.typ, k.sk, k.content)})
		out = append(out, struct{ Ver, Label, JSON string }{"10", "eventV2/" + k.label, v2(k.typ, k.sk, k.content)})
		out = append(out, struct{ Ver, Label, JSON string }{"12", "eventV3/" + k.label, v3(k.typ, k.sk, room12, k.content)})
	}
	out = append(out, struct{ Ver, Label, JSON string }{"1", "eventV1/create", v1("m.room.create", `"state_key":"",`, `{"creator":"@u:example.org"}`)})
	out = append(out, struct{ Ver, Label, JSON string }{"11", "eventV2/create", v2("m.room.create", `"state_key":"",`, `{"room_version":"11"}`)})
	out = append(out, struct{ Ver, Label, JSON string }{"12", "eventV3/create", v3("m.room.create", `"state_key":"",`, ``, `{"room_version":"12"}`)})
	return out
}

// every read-only accessor of the PDU interface, rendered; start rotates the order so that the
// first call of each accessor comes from a different goroutine
func callAccessors(ev gomatrixserverlib.PDU, start int) []string {
	now := time.Unix(2000, 0)
	fns := []func() string{
		func() string { return "EventID=" + ev.EventID() },
		func() string {
			if sk := ev.StateKey(); sk != nil {
				return "StateKey=" + *sk
			}
			return "StateKey=nil"
		},
		func() string { return fmt.Sprint("StateKeyEquals=", ev.StateKeyEquals("")) },
		func() string { return "Type=" + ev.Type() },
		func() string { return "Content=" + string(ev.Content()) },
		func() string { v, err := ev.JoinRule(); return fmt.Sprint("JoinRule=", v, err != nil) },
		func() string {
			v, err := ev.HistoryVisibility()
			return fmt.Sprint("HistoryVisibility=", v, err != nil)
		},
		func() string { v, err := ev.Membership(); return fmt.Sprint("Membership=", v, err != nil) },
		func() string {
			v, err := ev.PowerLevels()
			if err != nil || v == nil {
				return "PowerLevels=err"
			}
			return fmt.Sprint("PowerLevels=", v.UsersDefault, len(v.Users))
		},
		func() string { return "Version=" + string(ev.Version()) },
		func() string { return "RoomID=" + ev.RoomID().String() },
		func() string { return "Redacts=" + ev.Redacts() },
		func() string { return fmt.Sprint("Redacted=", ev.Redacted()) },
		func() string { return fmt.Sprint("PrevEventIDs=", ev.PrevEventIDs()) },
		func() string { return fmt.Sprint("OriginServerTS=", ev.OriginServerTS()) },
		func() string { return "SenderID=" + string(ev.SenderID()) },
		func() string { return "Unsigned=" + string(ev.Unsigned()) },
		func() string { return fmt.Sprint("Depth=", ev.Depth()) },
		func() string { return "JSON=" + string(ev.JSON()) },
		func() string { return fmt.Sprint("AuthEventIDs=", ev.AuthEventIDs()) },
		func() string {
			b, err := ev.ToHeaderedJSON()
			return fmt.Sprint("ToHeaderedJSON=", string(b), err != nil)
		},
		func() string { return fmt.Sprint("IsSticky=", ev.IsSticky(now, now)) },
		func() string { return fmt.Sprint("StickyEndTime=", ev.StickyEndTime(now).Unix()) },
		// SetUnsigned leaves its receiver alone and returns a copy: for the shared event it is a
		// read-only operation (callers derive per-client copies of cached events this way)
		func() string {
			cp, err := ev.SetUnsigned(map[string]interface{}{"age": 5})
			if err != nil {
				return "SetUnsigned=err"
			}
			return "SetUnsigned=" + cp.EventID() + " " + string(cp.Unsigned())
		},
	}
	out := make([]string, len(fns))
	for k := range fns {
		i := (start + k) % len(fns)
		out[i] = fns[i]()
	}
	return out
}

// EventStress: EVERY read-only accessor of the PDU interface, called for the first time from
// several goroutines at once, on freshly parsed events of every event class (eventV1, eventV2,
// eventV3 incl. the v12 create event) and kind. All goroutines must see the same values; under
// the race detector any unsynchronised memoisation inside an accessor is reported.
// SetUnsigned (returns a copy, receiver untouched) is included; Redact, SetUnsignedField and
// Sign write to their receiver (Sign returns the receiver itself): not read-only.
func EventStress(goroutines int) string {
	var v violations
	parsed := 0
	for round := 0; round < 40; round++ {
		for _, smp := range accessorSamples(round) {
			ver, err := gomatrixserverlib.GetRoomVersion(gomatrixserverlib.RoomVersion(smp.Ver))
			if err != nil {
				return "violation: no room version " + smp.Ver
			}
			ev, err := ver.NewEventFromTrustedJSON([]byte(smp.JSON), false)
			if err != nil {
				return "violation: cannot parse the " + smp.Label + " sample: " + err.Error()
			}
			parsed++
			results := make([][]string, goroutines)
			start := make(chan struct{})
			var wg sync.WaitGroup
			for g := 0; g < goroutines; g++ {
				wg.Add(1)
				go func(g int) {
					defer wg.Done()
					defer func() {
						if r := recover(); r != nil {
							v.add("%s: accessor panicked: %v", smp.Label, r)
						}
					}()
					<-start
					results[g] = callAccessors(ev, g*5+round)
				}(g)
			}
			close(start)
			if !waitOrTimeout(&wg, 10*time.Second) {
				return "violation: timeout: " + smp.Label + ": an accessor did not return (goroutine spinning?)"
			}
			for g := 1; g < goroutines; g++ {
				for i := range results[0] {
					if results[g] != nil && results[0] != nil && results[g][i] != results[0][i] {
						v.add("%s: goroutines saw %q and %q", smp.Label, results[0][i], results[g][i])
					}
				}
			}
		}
	}
	if parsed == 0 {
		return "violation: no samples"
	}
	return v.result()
}

// DNSBarrier: n goroutines look up n distinct hosts in one cache of the given size; the resolver
// holds every call until all n are inside it (all lookups are then past their first critical
// section), then lets them go. Returns the largest entry count ever seen under the lock and
// the final one.
func DNSBarrier(size, n int) (max, final int, note string) {
	var arrived int32
	release := make(chan struct{})
	var once sync.Once
	resolver := func(host string) ([]net.IPAddr, error) {
		if int(atomic.AddInt32(&arrived, 1)) == n {
			once.Do(func() { close(release) })
		}
		select {
		case <-release:
		case <-time.After(2 * time.Second):
			note = "barrier not reached" // fewer than n calls got to the resolver
			once.Do(func() { close(release) })
		}
		return []net.IPAddr{{IP: net.IPv4(127, 9, 9, byte(len(host)))}}, nil
	}
	cache := fclient.VerifNewDNSCache(size, time.Hour, []string{"0.0.0.0/0"}, nil, resolver)
	var mx int32
	see := func() {
		l := int32(cache.VerifLen())
		for {
			old := atomic.LoadInt32(&mx)
			if l <= old || atomic.CompareAndSwapInt32(&mx, old, l) {
				return
			}
		}
	}
	done := make(chan struct{})
	go func() {
		for {
			select {
			case <-done:
				return
			default:
				see()
			}
		}
	}()
	var wg sync.WaitGroup
	for g := 0; g < n; g++ {
		wg.Add(1)
		go func(g int) {
			defer wg.Done()
			cache.VerifLookup(fmt.Sprintf("barrier-host-%03d.example", g))
			see()
		}(g)
	}
	wg.Wait()
	close(done)
	see()
	return int(atomic.LoadInt32(&mx)), cache.VerifLen(), note
}

// TransportFreshStress: goroutines ask for transports of names never seen before while another
// goroutine runs reaper passes back to back. A reaper pass must never meet an entry whose
// lastUsed has not been stored (it would panic on the type assertion; in production that is the
// timer goroutine, i.e. the process).
func TransportFreshStress(goroutines, perGoroutine int) string {
	var v violations
	tr := fclient.VerifNewTransports()
	stop := make(chan struct{})
	reaperDone := make(chan struct{})
	go func() {
		defer close(reaperDone)
		defer func() {
			if r := recover(); r != nil {
				v.add("reaper panicked while transports for new names were being added: %v", r)
			}
		}()
		for passes := 0; passes < 200000; passes++ {
			select {
			case <-stop:
				return
			default:
				tr.Reap()
			}
		}
	}()
	var wg sync.WaitGroup
	for g := 0; g < goroutines; g++ {
		wg.Add(1)
		go func(g int) {
			defer wg.Done()
			for i := 0; i < perGoroutine; i++ {
				name := fmt.Sprintf("fresh-%d-%d.example", g, i)
				if tr.Get(name) == nil {
					v.add("no transport for %s", name)
				}
			}
		}(g)
	}
	wg.Wait()
	close(stop)
	<-reaperDone
	if n := tr.Len(); n != goroutines*perGoroutine {
		v.add("%d transports for %d names (nothing was old enough to be reaped)", n, goroutines*perGoroutine)
	}
	return v.result()
}
