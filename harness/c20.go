package main

import (
	"bytes"
	"encoding/base64"
	"fmt"
	"strconv"
	"strings"
	"time"

	"github.com/matrix-org/gomatrixserverlib/tokens"
	macaroon "gopkg.in/macaroon.v2"
)

// stableNow returns a unix second s such that f ran entirely within second s.
func withStableClock(f func()) int64 {
	for {
		a := time.Now().Unix()
		// stay away from the second boundary so that the library's own clock reading agrees
		if ns := time.Now().Nanosecond(); ns > 900_000_000 {
			time.Sleep(time.Duration(1_000_000_000-ns+1_000_000) * time.Nanosecond)
			continue
		}
		f()
		if time.Now().Unix() == a {
			return a
		}
	}
}

// waitPhase sleeps until the wall clock is ms milliseconds (+0..60) into a second.
func waitPhase(ms int) {
	for {
		cur := time.Now().Nanosecond() / 1_000_000
		if cur >= ms && cur < ms+60 {
			return
		}
		d := ms - cur
		if d < 0 {
			d += 1000
		}
		time.Sleep(time.Duration(d)*time.Millisecond + 5*time.Millisecond)
	}
}

func verdict(err error) []byte {
	if err == nil {
		return B("ok")
	}
	return B("refused")
}

func mintToken(key, id []byte, cavs [][]byte) (string, error) {
	m, err := macaroon.New(key, id, "loc", macaroon.V2)
	if err != nil {
		return "", err
	}
	for _, c := range cavs {
		if err := m.AddFirstPartyCaveat(c); err != nil {
			return "", err
		}
	}
	bin, err := m.MarshalBinary()
	if err != nil {
		return "", err
	}
	return base64.RawURLEncoding.EncodeToString(bin), nil
}

func decodeToken(tok string) (*macaroon.Macaroon, error) {
	bin, err := base64.RawURLEncoding.DecodeString(tok)
	if err != nil {
		return nil, err
	}
	var m macaroon.Macaroon
	if err := m.UnmarshalBinary(bin); err != nil {
		return nil, err
	}
	return &m, nil
}

// relative time caveats are written "time < @+5" by the generator and made absolute here
func absCaveat(c []byte, now int64) []byte {
	s := string(c)
	const p = "time < @"
	if len(s) > len(p) && s[:len(p)] == p {
		off, err := strconv.ParseInt(s[len(p):], 10, 64)
		if err == nil {
			return []byte("time < " + strconv.FormatInt(now+off, 10))
		}
	}
	return c
}

func init() {
	// [key; id; key'; user'; now(ignored on input); cav...]
	RegisterImpl("C20.validate_minted", func(args [][]byte) ([][]byte, []byte) {
		var out []byte
		final := append([][]byte{}, args...)
		now := withStableClock(func() {
			n := time.Now().Unix()
			for i := 5; i < len(args); i++ {
				final[i] = absCaveat(args[i], n)
			}
			tok, err := mintToken(args[0], args[1], final[5:])
			if err != nil {
				out = B("minterr")
				return
			}
			out = verdict(tokens.ValidateToken(tokens.TokenOptions{ServerPrivateKey: args[2], UserID: string(args[3])}, tok))
		})
		final[4] = B(strconv.FormatInt(now, 10))
		return final, out
	})
	// [key; user; t0(ignored on input); d] -> id and caveats, one per line
	RegisterImpl("C20.issue", func(args [][]byte) ([][]byte, []byte) {
		var out []byte
		d, _ := strconv.Atoi(string(args[3]))
		t0 := withStableClock(func() {
			tok, err := tokens.GenerateLoginToken(tokens.TokenOptions{ServerPrivateKey: args[0], ServerName: "srv", UserID: string(args[1]), Duration: d})
			if err != nil {
				out = B("generr")
				return
			}
			m, err := decodeToken(tok)
			if err != nil {
				out = B("decodeerr")
				return
			}
			user, err := tokens.GetUserFromToken(tok)
			if err != nil {
				out = B("usererr")
				return
			}
			out = B(user)
			if string(m.Id()) != user {
				out = B("id-mismatch")
			}
			for _, c := range m.Caveats() {
				out = append(append(out, '\n'), c.Id...)
			}
		})
		final := append([][]byte{}, args...)
		final[2] = B(strconv.FormatInt(t0, 10))
		return final, out
	})
	// [key; user; t0; d; key'; user'; now; extra] ; t0/now filled in; optional wait given in desc
	RegisterImpl("C20.validate_issued", func(args [][]byte) ([][]byte, []byte) {
		d, _ := strconv.Atoi(string(args[3]))
		var tok string
		var gerr error
		t0 := withStableClock(func() {
			tok, gerr = tokens.GenerateLoginToken(tokens.TokenOptions{ServerPrivateKey: args[0], ServerName: "srv", UserID: string(args[1]), Duration: d})
		})
		final := append([][]byte{}, args...)
		final[2] = B(strconv.FormatInt(t0, 10))
		if gerr != nil {
			return final, B("generr")
		}
		if len(args[7]) > 0 {
			m, err := decodeToken(tok)
			if err != nil {
				return final, B("decodeerr")
			}
			if err := m.AddFirstPartyCaveat(args[7]); err != nil {
				return final, B("caveaterr")
			}
			bin, _ := m.MarshalBinary()
			tok = base64.RawURLEncoding.EncodeToString(bin)
		}
		// "wait" request: args[6] = "+N" means validate N seconds after issue
		if len(args[6]) > 0 && args[6][0] == '+' {
			n, _ := strconv.Atoi(string(args[6][1:]))
			target := time.Unix(t0+int64(n), 200_000_000)
			time.Sleep(time.Until(target))
		}
		var out []byte
		now := withStableClock(func() {
			out = verdict(tokens.ValidateToken(tokens.TokenOptions{ServerPrivateKey: args[4], UserID: string(args[5])}, tok))
		})
		final[6] = B(strconv.FormatInt(now, 10))
		return final, out
	})
	// [srv; loc; key; user; now(filled in)]: issued under server name loc, validated by srv
	RegisterImpl("C20.validate_at", func(args [][]byte) ([][]byte, []byte) {
		final := append([][]byte{}, args...)
		var out []byte
		now := withStableClock(func() {
			tok, err := tokens.GenerateLoginToken(tokens.TokenOptions{ServerPrivateKey: args[2], ServerName: string(args[1]), UserID: string(args[3]), Duration: 3600})
			if err != nil {
				out = B("generr")
				return
			}
			out = verdict(tokens.ValidateToken(tokens.TokenOptions{ServerPrivateKey: args[2], ServerName: string(args[0]), UserID: string(args[3])}, tok))
		})
		final[4] = B(strconv.FormatInt(now, 10))
		return final, out
	})
	// [kind; n]: a valid token presented in another ENCODING of the same macaroon (or with its
	// unsigned location rewritten): every one is an altered token
	RegisterImpl("C20.reencode", func(args [][]byte) ([][]byte, []byte) {
		op := tokens.TokenOptions{ServerPrivateKey: []byte("aSecretKey"), ServerName: "srv.example", UserID: "@alice:example.org", Duration: 3600}
		tok, err := tokens.GenerateLoginToken(op)
		if err != nil {
			return args, B("generr")
		}
		n, _ := strconv.Atoi(string(args[1]))
		bin, _ := base64.RawURLEncoding.DecodeString(tok)
		alt := tok
		switch string(args[0]) {
		case "append": // bytes after the macaroon
			alt = base64.RawURLEncoding.EncodeToString(append(append([]byte{}, bin...), bytes.Repeat([]byte{byte(n)}, 1+n%5)...))
		case "newline": // CR / LF inside or after the base64 text
			i := n % (len(tok) + 1)
			alt = tok[:i] + []string{"\n", "\r", "\r\n"}[n%3] + tok[i:]
		case "trailing-bits": // unused low bits of the last base64 character
			const alpha = "ABCDEFGHIJKLMNOPQRSTUVWXYZabcdefghijklmnopqrstuvwxyz0123456789-_"
			last := strings.IndexByte(alpha, tok[len(tok)-1])
			alt = tok[:len(tok)-1] + string(alpha[(last&^3)|((last+1+n)&3)])
			if alt == tok {
				alt = tok[:len(tok)-1] + string(alpha[last^1])
			}
		case "padding":
			alt = tok + strings.Repeat("=", 1+n%2)
		case "location": // the unsigned location rewritten to another name of the same length
			alt = base64.RawURLEncoding.EncodeToString(bytes.Replace(bin, []byte("srv.example"), []byte("evl.example"), 1))
		case "std-alphabet":
			alt = base64.RawStdEncoding.EncodeToString(bin)
		case "same":
			return args, verdict(errIfNot(tokens.ValidateToken(op, alt) == nil && alt == tok))
		}
		if alt == tok {
			return args, B("refused") // the alteration happened to be the identity
		}
		if _, uerr := tokens.GetUserFromToken(alt); uerr == nil && string(args[0]) != "location" {
			return args, B("ok (GetUserFromToken accepted the altered token)")
		}
		return args, verdict(tokens.ValidateToken(op, alt))
	})
	RegisterImpl("C20.verify_expiry", func(args [][]byte) ([][]byte, []byte) {
		now, _ := strconv.ParseInt(string(args[1]), 10, 64)
		if tokens.VerifVerifyExpiry(string(args[0]), now) {
			return args, B("true")
		}
		return args, B("false")
	})
	// byte-level alteration of a valid token: must be refused (model: any such token is either
	// undecodable or fails the signature; checked against the constant "refused")
	RegisterImpl("C20.flip", func(args [][]byte) ([][]byte, []byte) {
		tok, err := tokens.GenerateLoginToken(tokens.TokenOptions{ServerPrivateKey: args[0], ServerName: "srv", UserID: string(args[1]), Duration: 3600})
		if err != nil {
			return args, B("generr")
		}
		bin, _ := base64.RawURLEncoding.DecodeString(tok)
		pos, _ := strconv.Atoi(string(args[2]))
		bit, _ := strconv.Atoi(string(args[3]))
		pos = pos % len(bin)
		bin[pos] ^= 1 << uint(bit%8)
		// every altered token must be refused: the location (the issuing server's name, outside the
		// signature) is compared with the validating server's name, and only the canonical
		// serialisation is a token (repairs of F96, F98)
		return args, verdict(tokens.ValidateToken(tokens.TokenOptions{ServerPrivateKey: args[0], ServerName: "srv", UserID: string(args[1])}, base64.RawURLEncoding.EncodeToString(bin)))
	})
	RegisterProp("C20", genC20)
}

func genC20(c *Ctx) {
	keys := []string{"aSecretKey", "k", "another-key-0123456789", "\x00\x01\xff"}
	users := []string{"@alice:example.org", "@bob:example.org", "@alice:example.org ", "a", "@victim:x",
		// user IDs made of / starting with the characters of the caveat prefix "user_id = "
		"sue:example.org", "user_one", "id=5", " spaced", "=", "user_id = x", "d"}
	durs := []string{"0", "30", "120", "3600", "-1", "-100", "86400",
		// beyond what a time.Duration in nanoseconds can hold (about 292 years)
		"9223372037", "-9223372037", "10000000000", "-10000000000", "4000000000000",
		// expiry instants at the low end of int64 (the sum with the clock stays inside int64)
		"-9223372036854775808", "-9223372036854775807", "-4611686018427387904",
		// the sum with the clock passes the largest instant: the token expires there (F97)
		"9223372036854775807", "9223372035000000000"}
	pick := func(l []string) string { return l[c.Rng.Intn(len(l))] }

	// 1. issue: id + caveats must be exactly what the model mints
	for _, d := range durs {
		for _, u := range users {
			c.Run("C20.issue", Args(pick(keys), u, "", d), "C20.issue", "C20.prop.issue", "issue")
			c.Count("issue")
		}
	}
	// issue at chosen phases within the second (a rounded instead of truncated clock reading
	// shows only in the second half of a second)
	for _, ph := range []int{50, 520, 700, 880} {
		waitPhase(ph)
		c.Run("C20.issue", Args("aSecretKey", "@alice:example.org", "", "30"), "C20.issue", "C20.prop.issue", fmt.Sprintf("issue at phase %dms", ph))
		waitPhase(ph)
		c.Run("C20.validate_issued", Args("aSecretKey", "@alice:example.org", "", "-1", "aSecretKey", "@alice:example.org", "", ""),
			"C20.validate_issued", "C20.prop.validate_issued", fmt.Sprintf("expired-by-one at phase %dms", ph))
		c.Count("issue-phase")
	}
	// a one-second token issued late in a second must be refused one second later
	waitPhase(600)
	c.Run("C20.validate_issued", Args("aSecretKey", "@alice:example.org", "", "1", "aSecretKey", "@alice:example.org", "+1", ""),
		"C20.validate_issued", "C20.prop.validate_issued", "1 s token issued at phase 600ms, validated at +1 s")
	// 2. issued token, validated under same/other key and user, optionally extended
	extras := []string{"", "", "", "user_id = @victim:x", "gen = 1", "time < 99999999999", "time < 0", "foo = bar", "user_id = @alice:example.org", " "}
	n := c.Scale(150, 1500)
	for i := 0; i < n; i++ {
		k, u := pick(keys), pick(users)
		k2, u2 := k, u
		switch c.Rng.Intn(6) {
		case 0:
			k2 = pick(keys)
		case 1:
			u2 = pick(users)
		}
		ex := pick(extras)
		d := pick(durs)
		c.Run("C20.validate_issued", Args(k, u, "", d, k2, u2, "", ex), "C20.validate_issued", "C20.prop.validate_issued",
			fmt.Sprintf("issued d=%s samekey=%v sameuser=%v extra=%q", d, k == k2, u == u2, ex))
		c.Count("validate_issued/extra=" + strconv.Quote(ex))
	}
	// the attack of finding F14: own token + appended user_id caveat, validated as the victim
	c.Run("C20.validate_issued", Args("aSecretKey", "@mallory:x", "", "0", "aSecretKey", "@victim:x", "", "user_id = @victim:x"),
		"C20.validate_issued", "C20.prop.validate_issued", "F14 attack: appended user_id caveat")
	// real expiry: 2-second token validated at +0 and at +2, +3 (and across longer waits in thorough)
	waits := []string{"+0", "+1", "+2", "+3"}
	if c.Thorough() {
		waits = append(waits, "+5", "+61")
	}
	for _, w := range waits {
		d := "2"
		if w == "+61" {
			d = "60"
		}
		c.Run("C20.validate_issued", Args("aSecretKey", "@alice:example.org", "", d, "aSecretKey", "@alice:example.org", w, ""),
			"C20.validate_issued", "C20.prop.validate_issued", "expiry wait "+w)
		c.Count("expiry-wait")
	}
	// 3. arbitrary caveat lists minted under a key
	cavPool := []string{"gen = 1", "user_id = @alice:example.org", "time < @+3600", "time < @+5", "time < @-5", "time < @-3600",
		"gen = 1", "user_id = @alice:example.org", "time < @+3600",
		"user_id = @bob:example.org", "gen = 2", "gen = 1 ", "gen = 10", "time < abc", "time < ", "time < +99999999999", "time < -5",
		"time < 99999999999999999999", "user_id = ", "user_id =@alice:example.org", "time <5", "unknown", "", "time < 1e9", "time < 0x7fffffff"}
	// expiry caveats at the ends of int64: a difference (expiry - now) or a sum wraps there
	for _, tv := range []string{"-9223372036854775808", "-9223372036854775807", "-9223372036854775000", "-4611686018427387904", "-1", "0", "1",
		"4611686018427387904", "9223372036854775806", "9223372036854775807"} {
		for _, id := range []string{"@alice:example.org", "@bob:example.org"} {
			args := Args("aSecretKey", id, "aSecretKey", "@alice:example.org", "", "gen = 1", "user_id = "+id, "time < "+tv)
			c.Run("C20.validate_minted", args, "C20.validate_minted", "C20.prop.validate_minted", "minted with extreme expiry "+tv)
			c.Count("validate_minted/extreme-expiry")
		}
	}
	n = c.Scale(400, 6000)
	for i := 0; i < n; i++ {
		var cavs []string
		switch c.Rng.Intn(4) {
		case 0: // permutation of the required three
			cavs = []string{"gen = 1", "user_id = @alice:example.org", "time < @+3600"}
			c.Rng.Shuffle(3, func(a, b int) { cavs[a], cavs[b] = cavs[b], cavs[a] })
			if c.Rng.Intn(2) == 0 { // plus one more
				cavs = append(cavs, pick(cavPool))
				c.Rng.Shuffle(4, func(a, b int) { cavs[a], cavs[b] = cavs[b], cavs[a] })
			}
		case 1: // required three with one replaced
			cavs = []string{"gen = 1", "user_id = @alice:example.org", "time < @+3600"}
			cavs[c.Rng.Intn(3)] = pick(cavPool)
		default:
			k := c.Rng.Intn(5)
			for j := 0; j < k; j++ {
				cavs = append(cavs, pick(cavPool))
			}
		}
		k := pick(keys)
		k2 := k
		if c.Rng.Intn(8) == 0 {
			k2 = pick(keys)
		}
		id := "@alice:example.org"
		if c.Rng.Intn(8) == 0 {
			id = pick(users)
		}
		args := Args(k, id, k2, "@alice:example.org", "")
		for _, cv := range cavs {
			args = append(args, B(cv))
		}
		c.Run("C20.validate_minted", args, "C20.validate_minted", "C20.prop.validate_minted", fmt.Sprintf("minted %q", cavs))
		c.Count(fmt.Sprintf("validate_minted/ncav=%d", len(cavs)))
	}
	// 4. verifyExpiry at exact boundaries (hook)
	base := int64(1790000000)
	for _, now := range []int64{base, 0, 59, 60, -1, 1 << 40} {
		for _, off := range []int64{-2, -1, 0, 1, 2, 60, 3600} {
			c.Run("C20.verify_expiry", Args(strconv.FormatInt(now+off, 10), strconv.FormatInt(now, 10)), "C20.verify_expiry", "", "boundary")
			c.Count("verify_expiry")
		}
	}
	for _, t := range []string{"", "abc", "+5", "-5", "1e3", " 5", "5 ", "9223372036854775807", "9223372036854775808", "-9223372036854775808", "-9223372036854775809", "00012", "0x10", "1_000"} {
		c.Run("C20.verify_expiry", Args(t, "100"), "C20.verify_expiry", "", "syntax")
		c.Count("verify_expiry")
	}
	// 4b. the issuing server: validated by the same name, another name, no name
	for _, loc := range []string{"srv.example", "other.example", "s", "SRV.example"} {
		for _, srv := range []string{"srv.example", "other.example", "", "srv.example ", "SRV.example"} {
			c.Run("C20.validate_at", Args(srv, loc, "aSecretKey", "@alice:example.org", ""), "C20.validate_at", "C20.prop.validate_at", "issuing server "+loc+" validated by "+srv)
			c.Count("validate_at")
		}
	}
	// 4c. other encodings of the same macaroon, rewritten location
	c.Run("C20.reencode", Args("same", "0"), "C20.const_ok", "", "the token itself")
	for _, kind := range []string{"append", "newline", "trailing-bits", "padding", "location", "std-alphabet"} {
		for n := 0; n < c.Scale(12, 60); n++ {
			c.Run("C20.reencode", Args(kind, strconv.Itoa(n*7+c.Rng.Intn(7))), "C20.const_refused", "", "re-encoded: "+kind)
			c.Count("reencode/" + kind)
		}
	}
	// 5. byte-level alterations
	n = c.Scale(300, 5000)
	for i := 0; i < n; i++ {
		c.Run("C20.flip", Args("aSecretKey", "@alice:example.org", strconv.Itoa(c.Rng.Intn(4096)), strconv.Itoa(c.Rng.Intn(8))), "C20.const_refused", "", "bitflip")
		c.Count("bitflip")
	}
}

func errIfNot(ok bool) error {
	if ok {
		return nil
	}
	return fmt.Errorf("no")
}
