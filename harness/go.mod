module verifharness

go 1.23.0

require (
	github.com/matrix-org/gomatrixserverlib v0.0.0
	gopkg.in/macaroon.v2 v2.1.0
)

require (
	github.com/hashicorp/go-set/v3 v3.0.0 // indirect
	github.com/matrix-org/util v0.0.0-20221111132719-399730281e66 // indirect
	github.com/oleiade/lane/v2 v2.0.0 // indirect
	github.com/sirupsen/logrus v1.9.3 // indirect
	github.com/tidwall/gjson v1.18.0 // indirect
	github.com/tidwall/match v1.1.1 // indirect
	github.com/tidwall/pretty v1.2.1 // indirect
	github.com/tidwall/sjson v1.2.5 // indirect
	golang.org/x/crypto v0.38.0 // indirect
	golang.org/x/exp v0.0.0-20220827204233-334a2380cb91 // indirect
	golang.org/x/sys v0.33.0 // indirect
)

replace github.com/matrix-org/gomatrixserverlib => /repo
