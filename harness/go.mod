module verifharness

go 1.23.0

require (
	github.com/matrix-org/gomatrixserverlib v0.0.0
	gopkg.in/macaroon.v2 v2.1.0
)

require golang.org/x/crypto v0.38.0 // indirect

replace github.com/matrix-org/gomatrixserverlib => /repo
