//go:build verif

package fclient

import "encoding/json"

// Verification hooks for C13 (add-only, build tag "verif"; injected with go build -overlay,
// never committed to the repository).

// VerifC13Signatures returns the signature texts the request carries for server.
func (r *FederationRequest) VerifC13Signatures(server string) map[string]string {
	out := map[string]string{}
	for name, m := range r.fields.Signatures {
		if string(name) != server {
			continue
		}
		for k, v := range m {
			out[string(k)] = v
		}
	}
	return out
}

// VerifC13FieldsJSON is json.Marshal of the signing structure, as Sign and VerifyHTTPRequest
// compute it.
func (r *FederationRequest) VerifC13FieldsJSON() ([]byte, error) {
	return json.Marshal(r.fields)
}
