//go:build verif

package fclient

import (
	"context"
	"net"
	"syscall"
	"time"
)

// Verification hooks for C16 (add-only, build tag "verif"; injected with go build -overlay,
// never written into the repository).

// VerifControl is the dialer control function built from the allow / deny lists.
func VerifControl(allow, deny []string) func(ctx context.Context, network, address string, c syscall.RawConn) error {
	return allowDenyNetworksControl(allow, deny)
}

// VerifDNSCacheControl is the control function of the dialer inside a DNSCache.
func VerifDNSCacheControl(allow, deny []string) func(ctx context.Context, network, address string, c syscall.RawConn) error {
	return NewDNSCache(4, time.Minute, allow, deny).dialer.ControlContext
}

// VerifTripperDialer is the dialer a federation transport is given.
func VerifTripperDialer(allow, deny []string) *net.Dialer {
	return newDestinationTripperDialer(allow, deny)
}
