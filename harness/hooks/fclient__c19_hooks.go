//go:build verif

package fclient

import (
	"context"
	"net"
	"net/http"
	"reflect"
	"sort"
	"sync/atomic"
	"time"
	"unsafe"
)

// Verification hooks for C19 (add-only, build tag "verif"; injected with go build -overlay,
// never written into the repository).

type verifResolver struct {
	f func(host string) ([]net.IPAddr, error)
}

func (r *verifResolver) LookupIPAddr(_ context.Context, host string) ([]net.IPAddr, error) {
	return r.f(host)
}

// VerifNewDNSCache is NewDNSCache with the resolver replaced by f (dnscache_test.go replaces
// the same field).
func VerifNewDNSCache(size int, d time.Duration, allow, deny []string, f func(host string) ([]net.IPAddr, error)) *DNSCache {
	c := NewDNSCache(size, d, allow, deny)
	c.resolver = &verifResolver{f: f}
	return c
}

// VerifLookup runs DNSCache.lookup; expires is the expiry instant of the entry handed out.
func (c *DNSCache) VerifLookup(host string) (addrs []net.IPAddr, expires time.Time, cached bool, ok bool) {
	e, cached := c.lookup(context.Background(), host)
	if e == nil {
		return nil, time.Time{}, false, false
	}
	return e.addrs, e.expires, cached, true
}

// VerifAge moves every expiry instant back by d (the cache reads time.Now itself, so virtual
// time can only be had by ageing the entries).
func (c *DNSCache) VerifAge(d time.Duration) {
	c.mutex.Lock()
	defer c.mutex.Unlock()
	for _, e := range c.entries {
		e.expires = e.expires.Add(-d)
	}
}

// VerifContent is the entry map as sorted host=first-address pairs, read under the lock.
func (c *DNSCache) VerifContent() []string {
	c.mutex.Lock()
	defer c.mutex.Unlock()
	var out []string
	for h, e := range c.entries {
		a := ""
		if len(e.addrs) > 0 {
			a = e.addrs[0].IP.String()
		}
		out = append(out, h+"="+a)
	}
	sort.Strings(out)
	return out
}

// VerifLen is len(entries) under the lock.
func (c *DNSCache) VerifLen() int {
	c.mutex.Lock()
	defer c.mutex.Unlock()
	return len(c.entries)
}

// VerifTransports exercises destinationTripper.getTransport / the transports map.
type VerifTransports struct{ t *destinationTripper }

func VerifNewTransports() *VerifTransports {
	return &VerifTransports{t: newDestinationTripper(true, nil, false, false, nil, nil)}
}

func (v *VerifTransports) Get(sni string) http.RoundTripper { return v.t.getTransport(sni, v.t.dialer) }

func (v *VerifTransports) Len() int {
	v.t.transportsMutex.Lock()
	defer v.t.transportsMutex.Unlock()
	return len(v.t.transports)
}

// Reap runs the reaper once (it re-arms its timer, which never fires within a run).
func (v *VerifTransports) Reap() { v.t.reaper() }

// Age moves every lastUsed instant back by d (virtual time for the reaper).
func (v *VerifTransports) Age(d time.Duration) {
	v.t.transportsMutex.Lock()
	defer v.t.transportsMutex.Unlock()
	for _, tr := range v.t.transports {
		verifShiftLastUsed(tr, d)
	}
}

// verifShiftLastUsed works on whatever representation the lastUsed field has (atomic.Value
// holding a time.Time today), so that a change of representation does not stop the harness
// from building - the scenarios, not the build, are what must decide.
func verifShiftLastUsed(tr *destinationTripperTransport, d time.Duration) {
	f := reflect.ValueOf(tr).Elem().FieldByName("lastUsed")
	if !f.IsValid() {
		return
	}
	switch x := reflect.NewAt(f.Type(), unsafe.Pointer(f.UnsafeAddr())).Interface().(type) {
	case *atomic.Value:
		if t, ok := x.Load().(time.Time); ok {
			x.Store(t.Add(-d))
		}
	case *time.Time:
		*x = x.Add(-d)
	case *atomic.Int64:
		x.Add(-int64(d))
	case *int64:
		*x -= int64(d)
	}
}

// Snapshot is the transports map (name -> transport) read under the lock.
func (v *VerifTransports) Snapshot() map[string]http.RoundTripper {
	v.t.transportsMutex.Lock()
	defer v.t.transportsMutex.Unlock()
	out := map[string]http.RoundTripper{}
	for n, tr := range v.t.transports {
		out[n] = tr
	}
	return out
}
