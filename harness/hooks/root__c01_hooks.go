//go:build verif

package gomatrixserverlib

// C01: the unexported nesting scan of json.go and its limit.

func VerifJSONNestingExceeds(input []byte, limit int) bool { return jsonNestingExceeds(input, limit) }

const VerifMaxJSONDepth = maxJSONDepth
