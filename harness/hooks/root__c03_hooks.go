//go:build verif

package gomatrixserverlib

// Verification hooks for property C03 (add-only, build tag "verif"; injected with
// go build -overlay, never written into the repository).

// VerifC03ReferenceOfEvent exposes referenceOfEvent.
func VerifC03ReferenceOfEvent(eventJSON []byte, ver RoomVersion) (string, []byte, error) {
	r, err := referenceOfEvent(eventJSON, ver)
	return r.EventID, r.EventSHA256, err
}

// VerifC03AddContentHashes exposes addContentHashesToEvent.
func VerifC03AddContentHashes(eventJSON []byte) ([]byte, error) {
	return addContentHashesToEvent(eventJSON)
}

// VerifC03CheckContentHash exposes checkEventContentHash.
func VerifC03CheckContentHash(eventJSON []byte) error { return checkEventContentHash(eventJSON) }

// VerifC03EventHashFromEventID exposes eventHashFromEventID.
func VerifC03EventHashFromEventID(id string) []byte { return eventHashFromEventID(id) }
