//go:build verif

package gomatrixserverlib

import "fmt"

// Verification hooks for property C03 (add-only, build tag "verif"; injected with
// go build -overlay, never written into the repository).

// VerifC03ReferenceOfEvent exposes referenceOfEvent.
func VerifC03ReferenceOfEvent(eventJSON []byte, ver RoomVersion) (string, []byte, error) {
	r, err := referenceOfEvent(eventJSON, ver)
	return r.EventID, r.EventSHA256, err
}

// VerifC03AddContentHashes exposes addContentHashesToEvent.
func VerifC03AddContentHashes(eventJSON []byte) ([]byte, error) {
	return addContentHashesToEvent(eventJSON)
}

// VerifC03CheckContentHash exposes checkEventContentHash.
func VerifC03CheckContentHash(eventJSON []byte) error { return checkEventContentHash(eventJSON) }

// VerifC03EventHashFromEventID exposes eventHashFromEventID.
func VerifC03EventHashFromEventID(id string) []byte { return eventHashFromEventID(id) }

// VerifC03EventValue renders the whole value of an event struct (every field, exported or not,
// slices by content), so that two renderings taken before and after a sequence of read-only
// accessor calls show whether an accessor wrote to the event.
func VerifC03EventValue(e PDU) string {
	switch v := e.(type) {
	case *eventV3:
		return fmt.Sprintf("eventV3%#v", *v)
	case *eventV2:
		return fmt.Sprintf("eventV2%#v", *v)
	case *eventV1:
		return fmt.Sprintf("eventV1%#v", *v)
	default:
		return fmt.Sprintf("%T", e)
	}
}
