//go:build verif

package gomatrixserverlib

import (
	"fmt"

	"github.com/matrix-org/gomatrixserverlib/spec"
)

// Verification hooks for property C09 (add-only, build tag "verif"; injected with
// go build -overlay, never committed to the repository).

// VerifSeqStep is one step of a checker sequence: the provider handed to update() and the
// event handed to allowed().
type VerifSeqStep struct {
	Provider AuthEventProvider
	Event    PDU
}

// VerifCheckSequence feeds the steps through ONE allowerContext, exactly as
// stateResolverV2.authAndApplyEvents does: the context is created once (newAllowerContext on
// the initial provider), then for every step update(provider) followed by allowed(event).
// A panic inside a step is reported as that step's error and the sequence continues with the
// same context.
//
// prepare[i], when present and non-nil, runs right before step i: it is where the caller clears
// and refills a provider object that is shared between steps (authAndApplyEvents does that with
// r.authProvider).
func VerifCheckSequence(initial AuthEventProvider, steps []VerifSeqStep, prepare []func(), q spec.UserIDForSender, roomID spec.RoomID) []error {
	a := newAllowerContext(initial, q, roomID)
	out := make([]error, len(steps))
	for i, st := range steps {
		func() {
			defer func() {
				if r := recover(); r != nil {
					out[i] = fmt.Errorf("PANIC: %v", r)
				}
			}()
			if i < len(prepare) && prepare[i] != nil {
				prepare[i]()
			}
			a.update(st.Provider)
			out[i] = a.allowed(st.Event)
		}()
	}
	return out
}

// VerifAuthAndApply runs the REAL stateResolverV2.authAndApplyEvents loop: a resolver is set up
// the way ResolveStateConflictsV2 sets it up, `partial` is applied as the partial state known so
// far (applyEvents, no checks), then `events` go through authAndApplyEvents in one call. The
// partial state afterwards is returned (every resolved slot), so that the caller can compare it
// with the state obtained by checking each event on its own with Allowed.
func VerifAuthAndApply(partial, authEvents, events []PDU, q spec.UserIDForSender, roomID spec.RoomID, isRejected IsRejected) []PDU {
	authProvider, _ := NewAuthEvents(nil)
	r := stateResolverV2{
		authEventMap:              eventMapFromEvents(authEvents),
		authProvider:              authProvider,
		conflictedEventMap:        eventMapFromEvents(events),
		powerLevelContents:        make(map[string]*PowerLevelContent),
		powerLevelMainlinePos:     make(map[string]int),
		resolvedThirdPartyInvites: make(map[string]PDU),
		resolvedMembers:           make(map[spec.SenderID]PDU),
		resolvedOthers:            make(map[StateKeyTuple]PDU),
		isRejectedFn:              isRejected,
		isRejectedCache:           make(map[string]bool),
	}
	r.allower = newAllowerContext(r.authProvider, q, roomID)
	r.applyEvents(partial...)
	r.authAndApplyEvents(events...)
	var out []PDU
	for _, e := range []PDU{r.resolvedCreate, r.resolvedPowerLevels, r.resolvedJoinRules} {
		if e != nil {
			out = append(out, e)
		}
	}
	for _, e := range r.resolvedThirdPartyInvites {
		out = append(out, e)
	}
	for _, e := range r.resolvedMembers {
		out = append(out, e)
	}
	for _, e := range r.resolvedOthers {
		out = append(out, e)
	}
	return out
}
