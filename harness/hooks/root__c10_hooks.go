//go:build verif

package gomatrixserverlib

import (
	"crypto/ed25519"
)

// Verification hooks for C10 / C11 (add-only, build tag "verif"; injected with go build
// -overlay, never committed to the repository). They expose the unexported stages of state
// resolution; each calls the real stage function on a resolver value prepared the way the
// drivers prepare it.

// VerifFinishEvent turns event fields (JSON without hashes and signatures) into a hashed,
// signed, canonical event of the given room version, exactly as EventBuilder.Build finishes one.
func VerifFinishEvent(ver RoomVersion, eventJSON []byte, origin string, keyID KeyID, key ed25519.PrivateKey) (PDU, error) {
	verImpl, err := GetRoomVersion(ver)
	if err != nil {
		return nil, err
	}
	if eventJSON, err = addContentHashesToEvent(eventJSON); err != nil {
		return nil, err
	}
	if eventJSON, err = signEvent(origin, keyID, key, eventJSON, ver); err != nil {
		return nil, err
	}
	if eventJSON, err = EnforcedCanonicalJSON(eventJSON, ver); err != nil {
		return nil, err
	}
	return verImpl.NewEventFromTrustedJSON(eventJSON, false)
}

func VerifSplit(algo StateResAlgorithm, sets [][]PDU) (conflicted, unconflicted []PDU) {
	return splitConflictedUnconflicted(algo, sets)
}

func VerifAuthDifferenceNew(algo StateResAlgorithm, sets [][]PDU, authEvents []PDU) []PDU {
	conflicted, _ := splitConflictedUnconflicted(algo, sets)
	r := stateResolverV2{
		authEventMap:       eventMapFromEvents(authEvents),
		conflictedEventMap: eventMapFromEvents(conflicted),
	}
	return r.calculateAuthDifferenceNew(algo, newPDUSet(conflicted), sets)
}

func VerifAuthDifferenceOld(conflicted, authEvents []PDU) []PDU {
	r := stateResolverV2{
		authEventMap:       eventMapFromEvents(authEvents),
		conflictedEventMap: eventMapFromEvents(conflicted),
	}
	return r.calculateAuthDifference()
}

func VerifIsControlEvent(e PDU) bool { return isControlEvent(e) }

func VerifPowerOrder(events, authEvents []PDU, create PDU) []PDU {
	r := stateResolverV2{
		authEventMap:       eventMapFromEvents(authEvents),
		powerLevelContents: make(map[string]*PowerLevelContent),
		resolvedCreate:     create,
	}
	return r.reverseTopologicalOrdering(events, TopologicalOrderByAuthEvents)
}

func VerifMainlineOrder(events, authEvents []PDU, powerLevels PDU) []PDU {
	r := stateResolverV2{
		authEventMap:          eventMapFromEvents(authEvents),
		powerLevelMainlinePos: make(map[string]int),
		resolvedPowerLevels:   powerLevels,
	}
	for pos, event := range r.createPowerLevelMainline() {
		r.powerLevelMainlinePos[event.EventID()] = pos
	}
	return r.mainlineOrdering(events)
}
