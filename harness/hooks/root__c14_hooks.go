//go:build verif

package gomatrixserverlib

import "golang.org/x/crypto/ed25519"

// Verification hook for property C14 (add-only, build tag "verif", injected with -overlay).
// VerifC14MakeEvent turns the given event fields (a JSON object without hashes and signatures)
// into a hashed, signed, canonical event text with the library's own unexported steps.
func VerifC14MakeEvent(ver RoomVersion, fields []byte, origin string, keyID KeyID, priv ed25519.PrivateKey) ([]byte, error) {
	j, err := addContentHashesToEvent(fields)
	if err != nil {
		return nil, err
	}
	if j, err = signEvent(origin, keyID, priv, j, ver); err != nil {
		return nil, err
	}
	return CanonicalJSON(j)
}
