//go:build verif

package gomatrixserverlib

import "sort"

// Verification hooks for property C17 (add-only, build tag "verif"; injected with
// go build -overlay, never committed to the repository).

// VerifC17CheckID exposes checkID.
func VerifC17CheckID(id, kind string, sigil byte) error { return checkID(id, kind, sigil) }

// VerifC17LenientVersions lists the keys of lenientByteLimitRoomVersions.
func VerifC17LenientVersions() []string {
	var r []string
	for v := range lenientByteLimitRoomVersions {
		r = append(r, string(v))
	}
	sort.Strings(r)
	return r
}
