//go:build verif

package gomatrixserverlib

// Verification hooks for property C18 (add-only, build tag "verif"; injected with
// go build -overlay, never committed to the repository).

// VerifC18JSONNestingExceeds exposes jsonNestingExceeds.
func VerifC18JSONNestingExceeds(input []byte, limit int) bool {
	return jsonNestingExceeds(input, limit)
}

// VerifC18MaxJSONDepth exposes the depth limit.
func VerifC18MaxJSONDepth() int { return maxJSONDepth }
