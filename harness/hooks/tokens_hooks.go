//go:build verif

package tokens

import "reflect"

// Verification hooks (add-only, build tag "verif"; injected with go build -overlay, never
// committed to the repository).

// VerifVerifyExpiry exposes verifyExpiry (whatever integer type its clock argument has).
func VerifVerifyExpiry(t string, now int64) bool {
	f := reflect.ValueOf(verifyExpiry)
	out := f.Call([]reflect.Value{reflect.ValueOf(t), reflect.ValueOf(now).Convert(f.Type().In(1))})
	return out[0].Bool()
}
