// Harness: runs the real library (from /repo, with the verif overlay hooks) on generated or
// replayed inputs and writes, for the model runner and the comparator:
//
//	cases.txt  id TAB kind TAB op TAB hexarg...      (input of the extracted Coq model)
//	impl.txt   id TAB hex(expected model output)     (corr: the implementation's observable;
//	                                                  prop: "ok")
//	desc.txt   id TAB json {impl, args, out, desc}   (for replays and evidence samples)
//	stats.json histogram of the generated input distribution
//
// usage: harness run <PROP> -seed N -tier quick|thorough -out DIR
//
//	harness replay <replay.json> -out DIR
package main

import (
	"bufio"
	"encoding/hex"
	"encoding/json"
	"flag"
	"fmt"
	"math/rand"
	"os"
	"path/filepath"
	"runtime/debug"
	"sort"
	"strings"
)

// ImplFn runs the implementation on args. It may rewrite the args (e.g. fill in the clock
// reading it observed) and returns the projected observable.
type ImplFn func(args [][]byte) (final [][]byte, out []byte)

var impls = map[string]ImplFn{}
var props = map[string]func(*Ctx){}

func RegisterImpl(name string, f ImplFn)   { impls[name] = f }
func RegisterProp(id string, f func(*Ctx)) { props[id] = f }

type Ctx struct {
	Rng   *rand.Rand
	Tier  string
	Seed  int64
	n     int
	cases *bufio.Writer
	impl  *bufio.Writer
	desc  *bufio.Writer
	stats map[string]int
	Prop  string
}

func (c *Ctx) Thorough() bool { return c.Tier == "thorough" }

// Scale picks the case count for the tier.
func (c *Ctx) Scale(quick, thorough int) int {
	if c.Thorough() {
		return thorough
	}
	return quick
}

func (c *Ctx) Count(key string) { c.stats[key]++ }

func hexArgs(args [][]byte) string {
	parts := make([]string, len(args))
	for i, a := range args {
		parts[i] = hex.EncodeToString(a)
	}
	return strings.Join(parts, "\t")
}

type descRec struct {
	Impl   string   `json:"impl"`
	Args   []string `json:"args"`
	Out    string   `json:"out"`
	CorrOp string   `json:"corr_op,omitempty"`
	PropOp string   `json:"prop_op,omitempty"`
	Desc   string   `json:"desc,omitempty"`
}

func printable(b []byte) string {
	ok := true
	for _, x := range b {
		if x < 32 && x != 10 || x > 126 {
			ok = false
			break
		}
	}
	if ok {
		return string(b)
	}
	return "hex:" + hex.EncodeToString(b)
}

func unprintable(s string) []byte {
	if strings.HasPrefix(s, "hex:") {
		b, _ := hex.DecodeString(s[4:])
		return b
	}
	return []byte(s)
}

func safeRun(f ImplFn, args [][]byte) (final [][]byte, out []byte) {
	defer func() {
		if r := recover(); r != nil {
			st := string(debug.Stack())
			loc := ""
			for _, l := range strings.Split(st, "\n") {
				if strings.Contains(l, "/repo/") {
					loc = strings.TrimSpace(l)
					if i := strings.Index(loc, " +0x"); i > 0 {
						loc = loc[:i]
					}
					break
				}
			}
			final = args
			out = []byte(fmt.Sprintf("PANIC: %v @ %s", r, loc))
		}
	}()
	return f(args)
}

// Run executes implementation `impl` on args and emits a correspondence case (model op corrOp
// must reproduce the observable) and/or a property case (specification oracle propOp, given the
// args and the observable, must answer "ok").
func (c *Ctx) Run(impl string, args [][]byte, corrOp, propOp, desc string) []byte {
	f, ok := impls[impl]
	if !ok {
		panic("unknown impl " + impl)
	}
	final, out := safeRun(f, args)
	c.emit(impl, final, out, corrOp, propOp, desc)
	return out
}

func (c *Ctx) emit(impl string, final [][]byte, out []byte, corrOp, propOp, desc string) {
	sargs := make([]string, len(final))
	for i, a := range final {
		sargs[i] = printable(a)
	}
	d, _ := json.Marshal(descRec{Impl: impl, Args: sargs, Out: printable(out), CorrOp: corrOp, PropOp: propOp, Desc: desc})
	if corrOp != "" {
		c.n++
		id := fmt.Sprintf("%s-%06d", c.Prop, c.n)
		fmt.Fprintf(c.cases, "%s\tcorr\t%s\t%s\n", id, corrOp, hexArgs(final))
		fmt.Fprintf(c.impl, "%s\t%s\n", id, hex.EncodeToString(out))
		fmt.Fprintf(c.desc, "%s\t%s\n", id, d)
	}
	if propOp != "" {
		c.n++
		id := fmt.Sprintf("%s-%06d", c.Prop, c.n)
		pargs := append(append([][]byte{}, final...), out)
		fmt.Fprintf(c.cases, "%s\tprop\t%s\t%s\n", id, propOp, hexArgs(pargs))
		fmt.Fprintf(c.impl, "%s\t%s\n", id, hex.EncodeToString([]byte("ok")))
		fmt.Fprintf(c.desc, "%s\t%s\n", id, d)
	}
}

func B(s string) []byte { return []byte(s) }

func Args(ss ...string) [][]byte {
	r := make([][]byte, len(ss))
	for i, s := range ss {
		r[i] = []byte(s)
	}
	return r
}

func openCtx(out string) *Ctx {
	if err := os.MkdirAll(out, 0o755); err != nil {
		panic(err)
	}
	mk := func(n string) *bufio.Writer {
		f, err := os.Create(filepath.Join(out, n))
		if err != nil {
			panic(err)
		}
		return bufio.NewWriterSize(f, 1<<20)
	}
	return &Ctx{cases: mk("cases.txt"), impl: mk("impl.txt"), desc: mk("desc.txt"), stats: map[string]int{}}
}

func (c *Ctx) close(out string) {
	c.cases.Flush()
	c.impl.Flush()
	c.desc.Flush()
	keys := make([]string, 0, len(c.stats))
	for k := range c.stats {
		keys = append(keys, k)
	}
	sort.Strings(keys)
	b, _ := json.MarshalIndent(c.stats, "", " ")
	_ = os.WriteFile(filepath.Join(out, "stats.json"), b, 0o644)
}

type replayFile struct {
	Property string    `json:"property"`
	Cases    []descRec `json:"cases"`
}

func main() {
	if len(os.Args) < 3 {
		fmt.Fprintln(os.Stderr, "usage: harness run <PROP> -seed N -tier T -out DIR | harness replay <file> -out DIR")
		os.Exit(2)
	}
	mode, what := os.Args[1], os.Args[2]
	if mode == "isolated" {
		// harness isolated <impl> <hex arg>...: one implementation call in a process of its own,
		// for inputs whose failure mode is not a recoverable panic (a stack overflow ends the process)
		f, ok := impls[what]
		if !ok {
			os.Exit(2)
		}
		var args [][]byte
		for _, h := range os.Args[3:] {
			b, err := hex.DecodeString(h)
			if err != nil {
				os.Exit(2)
			}
			args = append(args, b)
		}
		debug.SetMaxStack(512 << 20)
		_, out := safeRun(f, args)
		fmt.Println("RESULT " + hex.EncodeToString(out))
		return
	}
	fs := flag.NewFlagSet("harness", flag.ExitOnError)
	seed := fs.Int64("seed", 1, "seed")
	tier := fs.String("tier", "quick", "tier")
	out := fs.String("out", "", "output directory")
	_ = fs.Parse(os.Args[3:])
	if *out == "" {
		fmt.Fprintln(os.Stderr, "missing -out")
		os.Exit(2)
	}
	c := openCtx(*out)
	c.Tier, c.Seed = *tier, *seed
	c.Rng = rand.New(rand.NewSource(*seed))
	switch mode {
	case "run":
		f, ok := props[what]
		if !ok {
			fmt.Fprintln(os.Stderr, "unknown property", what)
			os.Exit(2)
		}
		c.Prop = what
		// corpus of minimised past failures first
		if b, err := os.ReadFile(filepath.Join("corpus", what+".json")); err == nil {
			var rf replayFile
			if json.Unmarshal(b, &rf) == nil {
				for _, cs := range rf.Cases {
					c.replayCase(cs)
					c.Count("corpus")
				}
			}
		}
		f(c)
	case "replay":
		b, err := os.ReadFile(what)
		if err != nil {
			fmt.Fprintln(os.Stderr, err)
			os.Exit(2)
		}
		var rf replayFile
		if err := json.Unmarshal(b, &rf); err != nil {
			fmt.Fprintln(os.Stderr, err)
			os.Exit(2)
		}
		c.Prop = rf.Property
		for _, cs := range rf.Cases {
			c.replayCase(cs)
		}
	default:
		os.Exit(2)
	}
	c.close(*out)
}

func (c *Ctx) replayCase(cs descRec) {
	args := make([][]byte, len(cs.Args))
	for i, a := range cs.Args {
		args[i] = unprintable(a)
	}
	if _, ok := impls[cs.Impl]; !ok {
		return
	}
	c.Run(cs.Impl, args, cs.CorrOp, cs.PropOp, cs.Desc)
}
