// Command racec19 runs one C19 stress scenario; the harness builds it with -race and treats a
// race report (exit status 66, "WARNING: DATA RACE") as the observable.
package main

import (
	"fmt"
	"os"
	"time"

	"verifharness/c19lib"
)

func main() {
	what := "dns"
	if len(os.Args) > 1 {
		what = os.Args[1]
	}
	switch what {
	case "dns":
		fmt.Println(c19lib.DNSStress(1, 3, 8, 400, 2*time.Millisecond))
		fmt.Println(c19lib.DNSStress(2, 1, 8, 300, time.Millisecond))
		fmt.Println(c19lib.DNSStress(3, 0, 8, 200, time.Millisecond))
		if mx, fin, note := c19lib.DNSBarrier(3, 12); mx > 3 || fin > 3 || note != "" {
			fmt.Printf("violation: barrier run: max %d final %d entries for size 3 %s\n", mx, fin, note)
		} else {
			fmt.Println("ok")
		}
	case "fetch":
		fmt.Println(c19lib.FetchStress(1, 4, 6))
	case "transport":
		fmt.Println(c19lib.TransportStress(1, 8, 500))
		fmt.Println(c19lib.TransportFreshStress(8, 400))
	case "event":
		fmt.Println(c19lib.EventStress(4))
	}
}
