#!/usr/bin/env python3
"""Check driver shared by all properties.  See DESIGN.md §2.

One run:  translator -> coq/Gen/*.v -> make (proofs re-checked) -> Print Assumptions audit
          -> build harness against /repo (overlay hooks) -> run implementation on generated
          cases -> run extracted Coq model / specification oracles on the same cases
          -> compare -> known findings -> evidence -> exit status.
"""
import fcntl, hashlib, json, os, re, subprocess, sys, time

VERIF = os.path.normpath(os.path.join(os.path.dirname(os.path.abspath(__file__)), '..'))
REPO = os.environ.get('VERIF_REPO', '/repo')
COQ = os.path.join(VERIF, 'coq')
BUILD = os.path.join(VERIF, 'build')
ENV = dict(os.environ, GOFLAGS='-mod=mod', GOPROXY='off', GOSUMDB='off', GOTOOLCHAIN='local',
           CGO_ENABLED='0')

# axioms of the Coq standard library that a theorem may depend on (must be named in evidence)
ALLOWED_AXIOMS = {
    'functional_extensionality_dep', 'FunctionalExtensionality.functional_extensionality_dep',
    'proof_irrelevance', 'ProofIrrelevance.proof_irrelevance', 'Classical_Prop.classic', 'classic',
    'JMeq_eq', 'JMeq.JMeq_eq', 'Eqdep.Eq_rect_eq.eq_rect_eq', 'eq_rect_eq',
    'propositional_extensionality', 'PropExtensionality.propositional_extensionality',
}
FORBIDDEN = re.compile(r'\b(Admitted|admit|Axiom|Axioms|Parameter|Parameters|Conjecture|Conjectures|'
                       r'Admit Obligations|bypass_check|Unset Guard Checking|Unset Positivity Checking|'
                       r'Unset Universe Checking|type-in-type|impredicative-set)\b')


def log(*a):
    print('[check]', *a, file=sys.stderr, flush=True)


def run(cmd, cwd=None, timeout=None, env=None, stdin=None):
    t = time.time()
    try:
        p = subprocess.run(cmd, cwd=cwd, env=env or ENV, timeout=timeout, stdin=stdin,
                           stdout=subprocess.PIPE, stderr=subprocess.STDOUT, text=True, errors='replace')
        return p.returncode, p.stdout, time.time() - t
    except subprocess.TimeoutExpired as e:
        out = e.stdout if isinstance(e.stdout, str) else (e.stdout or b'').decode('utf8', 'replace')
        return 124, (out or '') + '\nTIMEOUT', time.time() - t


class Lock:
    def __init__(self, name):
        os.makedirs(BUILD, exist_ok=True)
        self.path = os.path.join(BUILD, name + '.lock')

    def __enter__(self):
        self.f = open(self.path, 'w')
        fcntl.flock(self.f, fcntl.LOCK_EX)

    def __exit__(self, *a):
        fcntl.flock(self.f, fcntl.LOCK_UN)
        self.f.close()


def strip_coq_comments(s):
    out, depth, i = [], 0, 0
    while i < len(s):
        if s.startswith('(*', i):
            depth += 1; i += 2
        elif s.startswith('*)', i) and depth:
            depth -= 1; i += 2
        else:
            if depth == 0:
                out.append(s[i])
            i += 1
    return ''.join(out)


def coq_files():
    r = []
    for dp, dn, fn in os.walk(COQ):
        for f in fn:
            if f.endswith('.v'):
                r.append(os.path.join(dp, f))
    return sorted(r)


def audit_sources():
    """No Admitted/admit/Axiom/Parameter/... anywhere in the development (comments excluded)."""
    bad = []
    for f in coq_files():
        code = strip_coq_comments(open(f, errors='replace').read())
        # string literals may legitimately contain words; drop them
        code = re.sub(r'"[^"]*"', '""', code)
        for m in FORBIDDEN.finditer(code):
            bad.append('%s: %s' % (os.path.relpath(f, COQ), m.group(0)))
    return bad


def build_translator():
    with Lock('translator'):
        rc, out, _ = run(['go', 'build', '-o', os.path.join(BUILD, 'translator'), '.'],
                         cwd=os.path.join(VERIF, 'translator'), timeout=300)
    return rc, out


def regenerate():
    """Run the translator on /repo's current tree. Returns (ok, message)."""
    rc, out = build_translator()
    if rc != 0:
        return False, 'translator build failed:\n' + out
    with Lock('coq'):
        rc, out, _ = run([os.path.join(BUILD, 'translator'), REPO, os.path.join(COQ, 'Gen')], timeout=120)
    return rc == 0, out


def make_coq(timeout=3000):
    """Full (incremental) .vo build, keep going on errors. Returns (ok, log, failed_files)."""
    with Lock('coq'):
        run([sys.executable, os.path.join(VERIF, 'tools', 'gen_project.py')])
        mk = os.path.join(COQ, 'Makefile')
        cp = os.path.join(COQ, '_CoqProject')
        if not os.path.exists(mk) or os.path.getmtime(mk) < os.path.getmtime(cp):
            run(['coq_makefile', '-f', '_CoqProject', '-o', 'Makefile'], cwd=COQ)
        rc, out, dt = run(['make', '-k', '-j16'], cwd=COQ, timeout=timeout)
    failed = sorted(set(re.findall(r'\*\*\* \[[^\]]*?:\s*\d+:\s*([^\]]+?)\.vo\]', out)))
    if rc != 0 and not failed:
        failed = sorted(set(m for m in re.findall(r'File "\./([^"]+?)\.v"', out)))
    return rc == 0, out, failed


def coq_deps(target):
    """Transitive .v dependencies (relative paths without extension) of coq/<target>.v."""
    dfile = os.path.join(COQ, '.Makefile.d')
    deps = {}
    if os.path.exists(dfile):
        for line in open(dfile):
            if ':' not in line:
                continue
            lhs, rhs = line.split(':', 1)
            vos = [x for x in lhs.split() if x.endswith('.vo')]
            for vo in vos:
                deps.setdefault(vo[:-3], set()).update(x[:-3] for x in rhs.split() if x.endswith('.vo'))
    seen, todo = set(), [target]
    while todo:
        x = todo.pop()
        if x in seen:
            continue
        seen.add(x)
        todo.extend(deps.get(x, ()))
    return seen


def print_assumptions(prop):
    """Recompile Props/<prop>.v to capture its Print Assumptions output.
    Returns (ok, theorems, report) with report[name] = 'closed' | [axioms]."""
    src = os.path.join(COQ, 'Props', prop + '.v')
    if not os.path.exists(src):
        return False, [], {'_error': 'missing Props/%s.v' % prop}
    text = strip_coq_comments(open(src).read())
    theorems = re.findall(r'^\s*(?:Theorem|Lemma|Corollary|Example|Fact|Proposition)\s+([A-Za-z0-9_\']+)', text, re.M)
    printed = re.findall(r'Print Assumptions\s+([A-Za-z0-9_\'.]+)\s*\.', text)
    tmp = os.path.join(BUILD, prop)
    os.makedirs(tmp, exist_ok=True)
    with Lock('coq'):
        rc, out, _ = run(['coqc', '-Q', '.', 'Verif', 'Props/%s.v' % prop, '-o', os.path.join(tmp, prop + '.vo')],
                         cwd=COQ, timeout=1200)
    if rc != 0:
        return False, theorems, {'_error': out[-3000:]}
    # split output into blocks: each is either "Closed under the global context" or "Axioms:\n ..."
    blocks, cur = [], None
    for line in out.splitlines():
        if line.startswith('Closed under the global context'):
            if cur is not None:
                blocks.append(cur)
                cur = None
            blocks.append('closed')
        elif line.startswith('Axioms:'):
            if cur is not None:
                blocks.append(cur)
            cur = []
        elif cur is not None:
            m = re.match(r'^([A-Za-z_][A-Za-z0-9_\'.]*)\s*:', line)
            if m:
                cur.append(m.group(1))
        if line.startswith('Section Variables') or line.startswith('Section Variables:'):
            pass
    if cur is not None:
        blocks.append(cur)
    report = {}
    ok = True
    if len(blocks) != len(printed):
        report['_error'] = 'expected %d Print Assumptions blocks, saw %d' % (len(printed), len(blocks))
        ok = False
    for name, b in zip(printed, blocks):
        report[name] = b
        if b != 'closed':
            for ax in b:
                if ax not in ALLOWED_AXIOMS and ax.split('.')[-1] not in ALLOWED_AXIOMS:
                    ok = False
                    report.setdefault('_disallowed', []).append('%s depends on %s' % (name, ax))
    missing = [t for t in theorems if t not in printed and not t.endswith('_example') and not re.match(r'.*(inhabited|_nonvacuous|_concrete|concrete_).*', t)]
    report['_not_printed'] = missing
    return ok, theorems, report


def file_hash(p):
    try:
        return hashlib.sha256(open(p, 'rb').read()).hexdigest()
    except FileNotFoundError:
        return None


def build_runner():
    """Compile the extracted model + driver when model.ml changed."""
    with Lock('runner'):
        ml = os.path.join(COQ, 'model.ml')
        if not os.path.exists(ml):
            return False, 'coq/model.ml missing (extraction did not run)'
        stamp = os.path.join(BUILD, 'runner.stamp')
        h = (file_hash(ml) or '') + (file_hash(os.path.join(VERIF, 'ocaml', 'driver.ml')) or '')
        runner = os.path.join(BUILD, 'model_runner')
        if os.path.exists(runner) and os.path.exists(stamp) and open(stamp).read() == h:
            return True, 'cached'
        d = os.path.join(BUILD, 'ocaml')
        os.makedirs(d, exist_ok=True)
        for f in ('model.ml', 'model.mli'):
            open(os.path.join(d, f), 'w').write(open(os.path.join(COQ, f)).read())
        open(os.path.join(d, 'driver.ml'), 'w').write(open(os.path.join(VERIF, 'ocaml', 'driver.ml')).read())
        rc, out, _ = run(['ocamlfind', 'ocamlopt', '-O3', '-w', '-a', '-inline', '100', 'model.mli', 'model.ml', 'driver.ml',
                          '-o', runner], cwd=d, timeout=1200)
        if rc != 0:
            return False, out
        open(stamp, 'w').write(h)
        return True, out


def write_overlay():
    """hooks/<pkg>_hooks.go or hooks/<pkg>__<tag>_hooks.go  ->  <repo>/<pkg>/zz_verif[_<tag>]_hooks.go
    (pkg "root" is the top-level package)."""
    hooks = os.path.join(VERIF, 'harness', 'hooks')
    rep = {}
    for f in sorted(os.listdir(hooks)):
        if not f.endswith('_hooks.go'):
            continue
        stem = f[:-len('_hooks.go')]
        pkg, _, tag = stem.partition('__')
        sub = '' if pkg == 'root' else pkg
        name = 'zz_verif_hooks.go' if not tag else 'zz_verif_%s_hooks.go' % tag
        rep[os.path.join(REPO, sub, name)] = os.path.join(hooks, f)
    p = os.path.join(BUILD, 'overlay.json')
    s = json.dumps({'Replace': rep}, indent=1)
    if not os.path.exists(p) or open(p).read() != s:
        open(p, 'w').write(s)
    return p


def build_harness():
    with Lock('harness'):
        ov = write_overlay()
        hd = os.path.join(VERIF, 'harness')
        # go.mod / go.sum for this run live in build/ (the replace directive points at REPO)
        mod = open(os.path.join(hd, 'go.mod')).read().replace('=> /repo', '=> ' + REPO)
        modfile = os.path.join(BUILD, 'harness.mod')
        if not os.path.exists(modfile) or open(modfile).read() != mod:
            open(modfile, 'w').write(mod)
        try:
            src = open(os.path.join(REPO, 'go.sum')).read()
            dst = os.path.join(BUILD, 'harness.sum')
            if not os.path.exists(dst) or open(dst).read() != src:
                open(dst, 'w').write(src)
        except FileNotFoundError:
            pass
        rc, out, _ = run(['go', 'build', '-modfile', modfile, '-tags', 'verif', '-overlay', ov,
                          '-o', os.path.join(BUILD, 'harness'), '.'], cwd=hd, timeout=1200)
    return rc == 0, out


def unhex(s):
    try:
        return bytes.fromhex(s)
    except ValueError:
        return b'<badhex>'


def show(b, limit=400):
    try:
        s = b.decode('utf8')
        if all(c == '\n' or 32 <= ord(c) < 127 for c in s):
            return s if len(s) <= limit else s[:limit] + '...(%d bytes)' % len(b)
    except UnicodeDecodeError:
        pass
    h = b.hex()
    return 'hex:' + (h if len(h) <= limit else h[:limit] + '...(%d bytes)' % len(b))


def load_known():
    p = os.path.join(VERIF, 'KNOWN_FINDINGS.json')
    if not os.path.exists(p):
        return []
    return json.load(open(p)).get('findings', [])


def match_known(entry, prop, rec, kind, got):
    """A known finding matches one specific failing input shape (never a whole property)."""
    if entry.get('status') != 'known':
        return False
    if prop not in entry.get('properties', [entry.get('property')]):
        return False
    m = entry.get('match', {})
    if 'impl' in m and not re.fullmatch(m['impl'], rec.get('impl', '')):
        return False
    if 'kind' in m and m['kind'] != kind:
        return False
    args = '\x1f'.join(rec.get('args', []))
    if 'args' in m and not re.search(m['args'], args, re.S):
        return False
    if 'out' in m and not re.search(m['out'], rec.get('out', ''), re.S):
        return False
    if 'oracle' in m and not re.search(m['oracle'], got, re.S):
        return False
    return True


def main(prop, argv):
    import argparse
    ap = argparse.ArgumentParser()
    ap.add_argument('--tier', default=os.environ.get('VERIF_TIER', 'quick'))
    ap.add_argument('--seed', type=int, default=int(os.environ.get('VERIF_SEED', '1') or 1))
    ap.add_argument('--replay', default=None)
    ap.add_argument('--no-coqchk', action='store_true')
    a = ap.parse_args(argv)
    tier = 'thorough' if a.tier == 'thorough' else 'quick'
    t0 = time.time()
    os.makedirs(BUILD, exist_ok=True)
    pdir = os.path.join(BUILD, prop)
    os.makedirs(pdir, exist_ok=True)
    os.makedirs(os.path.join(VERIF, 'evidence'), exist_ok=True)
    os.makedirs(os.path.join(VERIF, 'replays'), exist_ok=True)

    broken = []       # obligations / ties that no longer check: (name, detail)
    notes = []

    # 1. regenerate tables from the current source
    ok, out = regenerate()
    translator_out = None if ok else out
    # 2. re-check proofs
    ok, mlog, failed = make_coq()
    relevant = coq_deps('Props/' + prop) | coq_deps('Run/Run' + prop) | {'Props/' + prop}
    if translator_out is not None:
        # a generator that no longer recognises the source breaks the tie of the properties whose
        # proofs or model read its table (the stale table stays on disk for the others)
        named = re.findall(r'^TRANSLATOR-FAILED (\w+): (.*)$', translator_out, re.M)
        mine = [m for g, m in named if ('Gen/' + g) in relevant or g == '?']
        if not named:
            broken.append(('translator', translator_out[-2000:]))
        elif mine:
            broken.append(('translator', '\n'.join(mine)[-2000:]))
        else:
            notes.append('translator: a table this property does not read could not be regenerated: '
                         + '; '.join(g for g, _ in named))
    rel_failed = [f for f in failed if f in relevant]
    if not ok:
        notes.append('make failed for: ' + ', '.join(failed))
        for f in rel_failed:
            m = re.search(r'File "\./%s\.v".*?(?=\nmake|\Z)' % re.escape(f), mlog, re.S)
            broken.append(('coq:' + f, (m.group(0) if m else mlog[-1500:])[:2000]))
    bad = audit_sources()
    if bad:
        broken.append(('audit', '; '.join(bad[:20])))
    pa_ok, theorems, pa = print_assumptions(prop)
    if not pa_ok:
        broken.append(('Props.%s' % prop, json.dumps(pa)[:2000]))
    axioms_used = sorted({ax for v in pa.values() if isinstance(v, list) for ax in v if not str(ax).startswith('_')})
    n_closed = sum(1 for k, v in pa.items() if not k.startswith('_') and (v == 'closed' or isinstance(v, list)))
    # 3. model runner and harness
    rok, rout = build_runner()
    if not rok:
        broken.append(('model-runner', rout[-2000:]))
    hok, hout = build_harness()
    if not hok:
        broken.append(('harness-build (hooks/API of /repo changed?)', hout[-3000:]))

    results = dict(corr=0, prop=0, corr_fail=[], prop_fail=[], panics=[])
    stats = {}
    samples = []
    distinct = set()
    evaluations = 0
    ops_seen = {}
    if rok and hok:
        hb = os.path.join(BUILD, 'harness')
        if a.replay:
            cmd = [hb, 'replay', os.path.abspath(a.replay), '-out', pdir]
        else:
            cmd = [hb, 'run', prop, '-seed', str(a.seed), '-tier', tier, '-out', pdir]
        rc, out, dt = run(cmd, cwd=VERIF, timeout=7200 if tier == 'thorough' else 1500)
        if rc != 0:
            broken.append(('harness-run', out[-3000:]))
        else:
            with open(os.path.join(pdir, 'cases.txt'), 'rb') as fin:
                env = dict(ENV)
                p = subprocess.run(['bash', '-c', 'ulimit -s unlimited 2>/dev/null; exec "$0"', os.path.join(BUILD, 'model_runner')],
                                   stdin=fin, stdout=subprocess.PIPE, stderr=subprocess.PIPE,
                                   timeout=7200 if tier == 'thorough' else 1500)
            if p.returncode != 0:
                broken.append(('model-run', p.stderr.decode('utf8', 'replace')[-2000:]))
            model = {}
            for line in p.stdout.decode().splitlines():
                if '\t' in line:
                    i, h = line.split('\t', 1)
                    model[i] = unhex(h)
            descs = {}
            for line in open(os.path.join(pdir, 'desc.txt'), errors='replace'):
                i, d = line.rstrip('\n').split('\t', 1)
                try:
                    descs[i] = json.loads(d)
                except ValueError:
                    descs[i] = {}
            kinds = {}
            for line in open(os.path.join(pdir, 'cases.txt')):
                parts = line.rstrip('\n').split('\t')
                kinds[parts[0]] = (parts[1], parts[2])
                evaluations += 1
                got = model.get(parts[0], b'')
                if got not in (b'badargs', b'unknown-op'):
                    distinct.add(hashlib.sha1('\t'.join(parts[2:]).encode()).digest())
                ops_seen[parts[2]] = ops_seen.get(parts[2], 0) + 1
            for line in open(os.path.join(pdir, 'impl.txt')):
                i, h = line.rstrip('\n').split('\t', 1)
                want = unhex(h)
                kind, op = kinds[i]
                got = model.get(i)
                rec = descs.get(i, {})
                if rec.get('out', '').startswith('PANIC:'):
                    if kind == 'corr' or not rec.get('corr_op'):
                        results['panics'].append((i, op, rec, show(got or b'')))
                    continue
                if kind == 'corr':
                    results['corr'] += 1
                    if got != want:
                        results['corr_fail'].append((i, op, rec, show(got or b'<no output>')))
                else:
                    results['prop'] += 1
                    if got != want:
                        results['prop_fail'].append((i, op, rec, show(got or b'<no output>')))
            try:
                stats = json.load(open(os.path.join(pdir, 'stats.json')))
            except Exception:
                stats = {}
            seen_ops = set()
            for i in sorted(descs):
                op = kinds.get(i, ('', ''))[1]
                if op not in seen_ops and len(samples) < 12:
                    seen_ops.add(op)
                    samples.append({'id': i, 'op': op, 'case': descs[i], 'model': show(model.get(i, b''))})

    # 4. coqchk (VERIF_COQCHK=1): the independent re-check of the compiled files takes tens of minutes per
    #    property on this development, so it is run on request and, for the whole development at once, by
    #    tools/coqchk_all.sh (its last report: coq/COQCHK_REPORT.txt)
    coqchk_note = None
    if tier == 'thorough' and not a.no_coqchk and not a.replay and os.environ.get('VERIF_COQCHK', '0') == '1':
        with Lock('coq'):
            rc, out, dt = run(['coqchk', '-silent', '-o', '-Q', '.', 'Verif', 'Verif.Props.' + prop], cwd=COQ, timeout=5400)
        coqchk_note = 'coqchk rc=%d in %.0fs: %s' % (rc, dt, ' '.join(out.split())[-600:])
        if rc != 0:
            broken.append(('coqchk', out[-2000:]))

    # 5. verdict
    known = load_known()
    violations, known_hits = [], {}
    def consider(kind, lst):
        for (i, op, rec, got) in lst:
            hit = None
            for e in known:
                if match_known(e, prop, rec, kind, got):
                    hit = e
                    break
            if hit:
                known_hits.setdefault(hit['key'], [hit, 0])[1] += 1
            else:
                violations.append((kind, i, op, rec, got))
    consider('prop', results['prop_fail'])
    consider('panic', results['panics'])
    concrete = list(violations)
    corr_violations = []
    consider_corr = results['corr_fail']
    for (i, op, rec, got) in consider_corr:
        hit = None
        for e in known:
            if match_known(e, prop, rec, 'corr', got):
                hit = e
                break
        if hit:
            known_hits.setdefault(hit['key'], [hit, 0])[1] += 1
        else:
            corr_violations.append(('corr', i, op, rec, got))

    for key, (e, n) in sorted(known_hits.items()):
        print('KNOWN-FINDING: property=%s %s [%s; %d matching cases this run]' % (prop, e['what'], key, n))

    status = 0
    replay_path = None
    if concrete or corr_violations or broken:
        status = 1
        tag = '%s-%s-%d' % (prop, tier, a.seed)
        replay_path = os.path.join('replays', tag + '.json')
        cases = []
        for (kind, i, op, rec, got) in (concrete + corr_violations)[:25]:
            r = dict(rec)
            r['_kind'] = kind
            r['_op'] = op
            r['_model_or_oracle_says'] = got
            cases.append(r)
        rp = {'property': prop, 'seed': a.seed, 'tier': tier,
              'no_longer_checks': [{'name': n, 'detail': d} for n, d in broken] +
                                  ([{'name': 'correspondence:' + op, 'detail': 'model and implementation disagree on %d cases' % sum(1 for v in corr_violations if v[2] == op)}
                                    for op in sorted({v[2] for v in corr_violations})]),
              'cases': cases,
              'how_to_replay': './check %s --replay %s' % (prop, replay_path)}
        json.dump(rp, open(os.path.join(VERIF, replay_path), 'w'), indent=1)
        for (kind, i, op, rec, got) in (concrete + corr_violations)[:8]:
            print('  %s %s %s: impl=%r oracle/model=%r args=%r' % (kind.upper(), i, op, rec.get('out', '')[:200], got[:200], [x[:120] for x in rec.get('args', [])][:10]))
        for n, d in broken[:6]:
            print('  NO-LONGER-CHECKS %s: %s' % (n, ' '.join(d.split())[:400]))
        if concrete:
            print('VIOLATION property=%s replay=%s' % (prop, replay_path))
        else:
            print('VIOLATION property=%s replay=%s no-failing-input-found' % (prop, replay_path))

    # 6. evidence
    corr_ops = sorted(o for o in ops_seen if '.prop.' not in o)
    prop_ops = sorted(o for o in ops_seen if '.prop.' in o)
    failing_corr_ops = {v[2] for v in corr_violations}
    failing_prop_ops = {v[2] for v in concrete}
    thm_names = [t for t in theorems]
    obligations = len(thm_names) + len(corr_ops) + len(prop_ops)
    thm_ok = len(thm_names) if (pa_ok and not rel_failed and ('Props/' + prop) not in failed) else 0
    discharged = thm_ok + sum(1 for o in corr_ops if o not in failing_corr_ops) + sum(1 for o in prop_ops if o not in failing_prop_ops)
    ev = {
        'property_id': prop, 'tier': tier, 'seed': a.seed, 'level': 'proof',
        'wall_s': round(time.time() - t0, 2),
        'violations': len(concrete) + len(corr_violations) + (1 if broken and not concrete and not corr_violations else 0),
        'coverage': {
            'obligations': obligations, 'discharged': discharged,
            'checker_cmd': 'make -C coq (coqc 8.16.1, full .vo build) + coqc Props/%s.v (Print Assumptions)%s' % (prop, '; coqchk -o' if coqchk_note else ''),
            'trusted_base': [
                'Coq 8.16.1 kernel (coqc; vm_compute used; native_compute not used)',
                'axioms reported by Print Assumptions: ' + (', '.join(axioms_used) if axioms_used else 'none (all theorems closed under the global context)'),
                'premises stated in the theorems (Section hypotheses: ideal crypto / oracles) — see Props/%s.v' % prop,
                'translator /verif/translator (Go AST -> coq/Gen/*.v)',
                'extraction: ExtrOcamlBasic only (bool/option/unit/list/prod/sumbool/sumor inductives, andb/orb/negb/fst/snd inlined); N/Z/positive stay inductive',
                'ocaml/driver.ml (hex <-> list N glue), OCaml 4.13.1 compiler',
                'correspondence harness /verif/harness (generators, projections, comparator) and Go recover()',
            ],
            'theorems': thm_names,
            'print_assumptions': {k: v for k, v in pa.items() if not k.startswith('_')},
            'correspondence_ops': {o: ops_seen[o] for o in corr_ops},
            'oracle_ops': {o: ops_seen[o] for o in prop_ops},
            'evaluations': evaluations,
            'distinct_nontrivial': len(distinct),
            'rule': 'a case is one (operation, arguments) tuple run on the implementation and on the extracted model/oracle; distinct = distinct tuples; non-trivial = the model accepted the arguments (did not answer badargs/unknown-op)',
            'traces_validated_against_impl': results['corr'],
            'oracle_checks': results['prop'],
            'input_distribution': stats,
            'samples': samples or [{'note': 'no cases were run', 'broken': [n for n, _ in broken]}],
            'known_findings_hit': {k: v[1] for k, v in known_hits.items()},
            'broken': [n for n, _ in broken],
            'notes': notes + ([coqchk_note] if coqchk_note else []),
        },
        'assumptions': [
            'the model is tied to /repo by the correspondence run above (differential test on generated inputs) and by the regenerated tables; behaviour outside the generated inputs is covered by the theorems about the model only',
        ],
    }
    extra = os.path.join(VERIF, 'props', prop + '.json')
    if os.path.exists(extra):
        try:
            x = json.load(open(extra))
            ev['assumptions'] += x.get('assumptions', [])
            ev['coverage']['trusted_base'] += x.get('trusted_base', [])
            ev['coverage']['modelled_not_verified'] = x.get('modelled_not_verified', [])
        except ValueError:
            pass
    # runs against a deliberately modified tree (seeded changes) must not overwrite the evidence
    evdir = os.environ.get('VERIF_EVIDENCE_DIR') or os.path.join(VERIF, 'evidence')
    os.makedirs(evdir, exist_ok=True)
    json.dump(ev, open(os.path.join(evdir, prop + '.json'), 'w'), indent=1)
    log('%s tier=%s seed=%d: %d cases (%d corr, %d oracle), %d theorems, %s in %.1fs' % (
        prop, tier, a.seed, evaluations, results['corr'], results['prop'], len(thm_names),
        'OK' if status == 0 else 'VIOLATION', time.time() - t0))
    return status


if __name__ == '__main__':
    sys.exit(main(sys.argv[1], sys.argv[2:]))
