(* Driver for the extracted model.  stdin: one case per line
     id TAB kind TAB op TAB hexarg1 TAB hexarg2 ...
   stdout: id TAB hex(output of Model.run_case op args).
   Only glue: hex <-> Coq byte lists (list of N). *)

let rec pos_of_int (n : int)  =
  if n = 1 then Model.XH
  else if n land 1 = 1 then Model.XI (pos_of_int (n lsr 1))
  else Model.XO (pos_of_int (n lsr 1))

let n_of_int (n : int) = if n = 0 then Model.N0 else Model.Npos (pos_of_int n)

let rec int_of_pos (p ) : int =
  match p with Model.XH -> 1 | Model.XO q -> 2 * int_of_pos q | Model.XI q -> 2 * int_of_pos q + 1

let int_of_n x : int = match x with Model.N0 -> 0 | Model.Npos p -> int_of_pos p

let byte_table = Array.init 256 n_of_int

let hexval c =
  match c with
  | '0' .. '9' -> Char.code c - 48
  | 'a' .. 'f' -> Char.code c - 87
  | 'A' .. 'F' -> Char.code c - 55
  | _ -> failwith "bad hex"

let bytes_of_hex (s : string) =
  let len = String.length s / 2 in
  let rec go i acc =
    if i < 0 then acc
    else go (i - 1) (byte_table.(hexval s.[2 * i] * 16 + hexval s.[2 * i + 1]) :: acc)
  in
  go (len - 1) []

let bytes_of_string (s : string) =
  let rec go i acc = if i < 0 then acc else go (i - 1) (byte_table.(Char.code s.[i]) :: acc) in
  go (String.length s - 1) []

let hex_of_bytes l =
  let b = Buffer.create 64 in
  List.iter (fun x -> Buffer.add_string b (Printf.sprintf "%02x" (int_of_n x land 255))) l;
  Buffer.contents b

let () =
  try
    while true do
      let line = input_line stdin in
      if line <> "" then begin
        match String.split_on_char '\t' line with
        | id :: _kind :: op :: args ->
            let out =
              try hex_of_bytes (Model.run_case (bytes_of_string op) (List.map bytes_of_hex args))
              with Stack_overflow -> "4d4f44454c2d535441434b" (* MODEL-STACK *)
            in
            print_string id; print_char '\t'; print_string out; print_newline ()
        | _ -> ()
      end
    done
  with End_of_file -> ()
