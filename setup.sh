#!/bin/bash
# Build the framework from files on disk only (offline): translator, Coq development
# (full .vo build), extracted model runner, harness.
set -e
cd "$(dirname "$0")"
export GOFLAGS=-mod=mod GOPROXY=off GOSUMDB=off GOTOOLCHAIN=local CGO_ENABLED=0
mkdir -p build evidence replays coq/Gen
python3 - <<'PY'
import sys, os
sys.path.insert(0, 'lib')
import vcheck
ok, out = vcheck.regenerate(); print(out); assert ok, 'translator failed'
ok, log, failed = vcheck.make_coq(); print(log[-3000:])
if not ok: print('WARNING: coq build failed for %s (the checks of the properties that depend on these files will report it)' % failed)
assert os.path.exists('coq/model.ml'), 'extraction did not run'
ok, out = vcheck.build_runner(); assert ok, out
ok, out = vcheck.build_harness(); assert ok, out
print('setup ok')
PY
