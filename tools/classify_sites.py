#!/usr/bin/env python3
"""Maintain the audited classification of panic-capable sites.

crash/classification.tsv : file TAB function TAB kind TAB expression TAB count TAB class TAB reason
   (hand-maintained; classes: guarded | loop | total | local | table | proved | finding)
coq/Crash/SitesSpec.v    : generated from it by `classify_sites.py gen` (committed; the theorem
   Props/C18.v all_sites_classified compares it with coq/Gen/GenSites.v on every run).
`classify_sites.py status` lists sites of coq/Gen/sites.tsv that have no row, and stale rows.
"""
import os, sys
V = os.path.normpath(os.path.join(os.path.dirname(os.path.abspath(__file__)), '..'))
def load(p, n):
    rows = []
    if os.path.exists(p):
        for l in open(p):
            l = l.rstrip('\n')
            if not l or l.startswith('#'): continue
            f = l.split('\t')
            f += [''] * (n - len(f))
            rows.append(f[:n])
    return rows
sites = load(os.path.join(V, 'coq/Gen/sites.tsv'), 5)
cls = load(os.path.join(V, 'crash/classification.tsv'), 7)
key = lambda r: tuple(r[:5])
ck = {key(r): r for r in cls}
def coq_bytes(s):
    b = s.encode()
    return '[' + '; '.join(str(x) for x in b) + ']%N' if b else '([] : list N)'
cmd = sys.argv[1] if len(sys.argv) > 1 else 'status'
if cmd == 'status':
    missing = [s for s in sites if key(s) not in ck]
    stale = [r for r in cls if key(r) not in {key(s) for s in sites}]
    for s in missing: print('UNCLASSIFIED\t' + '\t'.join(s))
    for r in stale: print('STALE\t' + '\t'.join(r))
    print('%d sites, %d classified, %d unclassified, %d stale' % (len(sites), len(sites) - len(missing), len(missing), len(stale)))
elif cmd == 'gen':
    out = ['(* GENERATED from crash/classification.tsv by tools/classify_sites.py gen; committed.',
           '   The audited classification of every panic-capable expression of the library:',
           '   (file, function, kind, expression, multiplicity, class). Reasons are in the TSV. *)',
           'From Coq Require Import List NArith.', 'Import ListNotations.', '',
           'Inductive site_class := Guarded | Loop | Total | Local | Table | Proved | Finding.', '',
           'Definition classified_sites : list (list N * list N * list N * list N * N * site_class) :=', '  [']
    rows = []
    for r in cls:
        c = r[5].strip().capitalize()
        assert c in ('Guarded', 'Loop', 'Total', 'Local', 'Table', 'Proved', 'Finding'), r
        cm = ' | '.join(r[:4]).replace('(*', '( *').replace('*)', '* )').replace('"', "'")
        rows.append('   (%s, %s, %s, %s, %s%%N, %s) (* %s *)' % (coq_bytes(r[0]), coq_bytes(r[1]), coq_bytes(r[2]), coq_bytes(r[3]), r[4], c, cm))
    out.append(';\n'.join(rows))
    out.append('  ].')
    open(os.path.join(V, 'coq/Crash/SitesSpec.v'), 'w').write('\n'.join(out) + '\n')
    print('wrote coq/Crash/SitesSpec.v with %d rows' % len(rows))
