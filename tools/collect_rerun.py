#!/usr/bin/env python3
"""collect_rerun.py <copy-root>...: bring final_check_result of private-copy reruns back into /verif/seeded."""
import json, sys, os, glob
NEUTRAL = {
 'C11-9': 'the change no longer breaks the property on the final tree (its demonstration passes with the patch applied): since the repair of F76 the resolver removes repeated entries itself',
 'C15-7': 'the change no longer breaks the property on the final tree (its demonstration passes with the patch applied): since the repair of F49 extractAuthorisedViaServerName reads the member exactly as MemberContent does',
}
n = 0
for root in sys.argv[1:]:
    for p in glob.glob(os.path.join(root, 'seeded', '*', 'meta.json')):
        sid = os.path.basename(os.path.dirname(p))
        q = os.path.join('/verif/seeded', sid, 'meta.json')
        if not os.path.exists(q): continue
        new = json.load(open(p)).get('final_check_result'); m = json.load(open(q)); old = m.get('final_check_result')
        if new is None or new == old: continue
        log = open('/verif/build/rerun_final_%s.log' % root.rstrip('/').split('/')[-2][1:]).read() if False else ''
        if sid in NEUTRAL:
            m['final_check_result'] = NEUTRAL[sid]
        elif new.startswith('patch no longer applies'):
            if old and not old.startswith('patch no longer applies') and 'last result on a tree' not in old:
                m['final_check_result'] = 'patch no longer applies to the final tree (the code it changes was rewritten by a later repair); last result on a tree where it applied: ' + old
            elif not old:
                m['final_check_result'] = new
        else:
            m['final_check_result'] = new
        json.dump(m, open(q, 'w'), indent=1); n += 1
print('updated', n)
