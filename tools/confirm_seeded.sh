#!/bin/bash
# confirm_seeded.sh <PROP> <i>: in the scratch worktree /tmp/mut-<PROP> confirm that the demo
# passes on the clean tree and fails with the patch, and that the suite passes with the patch;
# then store the change under /verif/seeded/<PROP>-<i>/.
set -u
P=$1; I=$2; J=${4:-$2}
S=/tmp/mut-$P-scratch/$I
W=/tmp/mut-$P
export GOFLAGS=-mod=mod GOPROXY=off GOSUMDB=off GOTOOLCHAIN=local
cd $W || exit 2
git checkout -q -- . ; git clean -fdq
D=$(python3 -c "import json;print(json.load(open('$S/meta.json')).get('package_dir','.'))")
cp $S/demo_test.go $D/zz_demo_test.go
go test -count=1 ./$D/ >/tmp/confirm.log 2>&1; a=$?
git apply $S/patch.diff || { echo "patch does not apply in worktree"; exit 2; }
go test -count=1 ./$D/ >/tmp/confirm2.log 2>&1; b=$?
rm -f $D/zz_demo_test.go
go test -vet=off -count=1 ./... >/tmp/confirm3.log 2>&1; c=$?
git checkout -q -- . ; git clean -fdq
echo "$P-$I: demo clean=$a patched=$b suite-with-patch=$c"
if [ $a -eq 0 ] && [ $b -ne 0 ] && [ $c -eq 0 ]; then
  mkdir -p /verif/seeded/$P-$J
  cp $S/patch.diff $S/demo_test.go /verif/seeded/$P-$J/
  python3 - "$S/meta.json" "/verif/seeded/$P-$J/meta.json" "$3" <<'PY'
import json, sys
m = json.load(open(sys.argv[1]))
m['coordinator_confirmed'] = 'demo passes on clean tree, fails with patch; go test -vet=off -count=1 ./... passes with patch'
m['check_result'] = sys.argv[3]
json.dump(m, open(sys.argv[2], 'w'), indent=1)
PY
  echo stored
else
  echo "NOT CONFIRMED"
fi
