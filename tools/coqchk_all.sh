#!/bin/bash
# coqchk_all.sh: re-check every compiled Props file (and all it depends on) with Coq's independent
# checker and print the axioms they rely on. Takes a long time (the whole development is re-checked);
# run `make -C coq` (./setup.sh) first. The report is written to coq/COQCHK_REPORT.txt.
cd "$(dirname "$0")/../coq"
mods=$(ls Props/C*.v | sed 's|Props/\(.*\)\.v|Verif.Props.\1|' | tr '\n' ' ')
s=$(date +%s)
{ echo "coqchk -silent -o -Q . Verif $mods"; echo "sources: $(cat $(find . -name '*.v' | sort) | sha256sum | cut -c1-16) ($(find . -name '*.v' | wc -l) files)"; timeout 14400 coqchk -silent -o -Q . Verif $mods 2>&1 | tail -40; echo "exit=$? seconds=$(( $(date +%s) - s ))"; } > COQCHK_REPORT.txt.new
mv COQCHK_REPORT.txt.new COQCHK_REPORT.txt; tail -5 COQCHK_REPORT.txt
