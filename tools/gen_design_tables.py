#!/usr/bin/env python3
"""Regenerate the generated parts of DESIGN.md (between markers): seeded-change table, findings table,
per-property theorem counts."""
import json, glob, os, re, subprocess
V = os.path.normpath(os.path.join(os.path.dirname(os.path.abspath(__file__)), '..'))
def block(name, text, s):
    a, b = '<!-- BEGIN %s -->' % name, '<!-- END %s -->' % name
    assert a in s and b in s, name
    return s[:s.index(a) + len(a)] + '\n' + text + '\n' + s[s.index(b):]
s = open(os.path.join(V, 'DESIGN.md')).read()
# seeded
rows = ['| change | what it does / what it needs to manifest | result at seeding time | result with the final checks |', '|---|---|---|---|']
for d in sorted(glob.glob(os.path.join(V, 'seeded', '*', ''))):
    m = json.load(open(os.path.join(d, 'meta.json')))
    name = os.path.basename(d[:-1])
    summ = (m.get('summary', '') + ' — needs: ' + str(m.get('needs_to_manifest', ''))).replace('|', '/').replace('\n', ' ')
    if len(summ) > 330: summ = summ[:327] + '...'
    rows.append('| %s | %s | %s | %s |' % (name, summ, str(m.get('check_result', '')).replace('|', '/'), str(m.get('final_check_result', '(not re-run)')).replace('|', '/')))
s = block('SEEDED', '\n'.join(rows), s)
# findings
k = json.load(open(os.path.join(V, 'KNOWN_FINDINGS.json')))
rows = ['| key | properties | status | commit | what |', '|---|---|---|---|---|']
for f in k['findings']:
    props = ','.join(f.get('properties', [f.get('property', '')]))
    what = re.sub(r'^(fixed|known): (property=\S+ )?(\S{7} )?', '', f.get('what', '')).replace('|', '/')
    rows.append('| %s | %s | %s | %s | %s |' % (f['key'], props, f.get('status'), f.get('commit', ''), what[:400]))
s = block('FINDINGS', '\n'.join(rows), s)
# per-property numbers
rows = ['| property | theorems in Props | Coq lines (its areas) | quick cases (last evidence) | known findings hit |', '|---|---|---|---|---|']
for p in sorted(glob.glob(os.path.join(V, 'evidence', 'C*.json'))):
    e = json.load(open(p)); c = e['coverage']
    rows.append('| %s | %d | – | %d (%d corr, %d oracle) | %s |' % (e['property_id'], len(c.get('theorems', [])), c.get('evaluations', 0), c.get('traces_validated_against_impl', 0), c.get('oracle_checks', 0), ', '.join(c.get('known_findings_hit', {}).keys()) or '–'))
s = block('NUMBERS', '\n'.join(rows), s)
open(os.path.join(V, 'DESIGN.md'), 'w').write(s)
print('DESIGN.md tables regenerated')
