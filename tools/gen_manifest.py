#!/usr/bin/env python3
"""Write MANIFEST.json from props/*.json (one small file per property) so it is always valid."""
import json, os, glob
V = os.path.normpath(os.path.join(os.path.dirname(os.path.abspath(__file__)), '..'))
ids = [json.loads(l)['id'] for l in open(os.path.join(V, 'properties.jsonl'))]
checks, na = [], []
for i in ids:
    p = os.path.join(V, 'props', i + '.json')
    if not os.path.exists(p):
        na.append({'property_id': i, 'reason': 'check not built yet (work in progress; see DESIGN.md §5 for the plan)'})
        continue
    x = json.load(open(p))
    if x.get('not_applicable'):
        na.append({'property_id': i, 'reason': x['not_applicable']})
        continue
    checks.append({
        'property_id': i,
        'quick_cmd': './check %s --tier quick' % i,
        'thorough_cmd': './check %s --tier thorough' % i,
        'evidence_file': 'evidence/%s.json' % i,
        'replay_cmd_template': './check %s --replay {path}' % i,
        'engine': 'coq+correspondence',
        'level_claimed': {'category': 'proof', 'text': x['level_text'], 'design_ref': x.get('design_ref', 'DESIGN.md §5 ' + i)},
        'level_note': x['level_note'],
        'technique': x.get('technique', 'machine-checked proof in Coq 8.16 about an executable model, tied to the code by regenerated tables and a differential correspondence check'),
    })
m = {
    'version': 1,
    'setup_cmd': './setup.sh',
    'hooks': {
        'guard': 'verif',
        'enable': 'go build -tags verif -overlay build/overlay.json (add-only //go:build verif files from /verif/harness/hooks are overlaid onto /repo; nothing is written into /repo)',
        'baseline_off_cmd': 'cd /repo && go test -vet=off -count=1 ./...',
        'source_commits': [],
        'add_only': True,
    },
    'engines': [{'name': 'coq+correspondence', 'path': 'check', 'serves_properties': [c['property_id'] for c in checks],
                 'kind_free_text': 'Coq 8.16.1 theorems (coq/Props/*.v) over executable Gallina models; tables regenerated from the Go AST on every run (translator/); models extracted to OCaml and compared with the real library on generated inputs (harness/); specification oracles evaluated on the implementation outputs'}],
    'checks': checks,
    'not_applicable': na,
    'notes': 'See DESIGN.md. KNOWN_FINDINGS.json lists recorded defects (known) and repaired ones (fixed).',
}
json.dump(m, open(os.path.join(V, 'MANIFEST.json'), 'w'), indent=1)
print('MANIFEST.json: %d checks, %d not yet applicable' % (len(checks), len(na)))
