#!/bin/bash
# merge_builder.sh <NAME>: merge /work/<NAME>/verif (branch work-<NAME>) into /verif, keeping our
# copies of files that every run rewrites (evidence, MANIFEST, KNOWN_FINDINGS are merged by hand).
set -u
N=$1
cd /verif
git pull --no-edit -q /work/$N/verif work-$N >/tmp/merge_$N.log 2>&1
for f in $(git diff --name-only --diff-filter=U); do
  case "$f" in
    evidence/*|MANIFEST.json|replays/*) git checkout --ours -- "$f"; git add "$f";;
    *) echo "CONFLICT needs hand merge: $f";;
  esac
done
if git diff --name-only --diff-filter=U | grep -q .; then echo "unresolved conflicts"; exit 1; fi
git commit -qm "Merge builder $N" 2>/dev/null
python3 tools/gen_manifest.py
git add -A; git commit -qm "MANIFEST after merging $N" 2>/dev/null
git log --oneline | head -2
