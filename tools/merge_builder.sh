#!/bin/bash
# merge_builder.sh <NAME>: merge /work/<NAME>/verif (branch work-<NAME>) into /verif.
# evidence/MANIFEST: ours (rewritten by runs). KNOWN_FINDINGS.json: union by key (ours first).
set -u
N=$1; B=${2:-work-$1}
cd /verif
git pull --no-edit -q /work/$N/verif $B >/tmp/merge_$N.log 2>&1
git -C /work/$N/verif show $B:KNOWN_FINDINGS.json > /tmp/theirs_kf.json 2>/dev/null
for f in $(git diff --name-only --diff-filter=U); do
  case "$f" in
    evidence/*|MANIFEST.json|replays/*|KNOWN_FINDINGS.json) git checkout --ours -- "$f"; git add "$f";;
    *) echo "CONFLICT needs hand merge: $f";;
  esac
done
if git diff --name-only --diff-filter=U | grep -q .; then echo "unresolved conflicts"; exit 1; fi
git commit -qm "Merge builder $N" 2>/dev/null
# union of known findings
git show HEAD~1:KNOWN_FINDINGS.json > /tmp/ours_kf.json 2>/dev/null || cp KNOWN_FINDINGS.json /tmp/ours_kf.json
python3 - <<'PY'
import json
ours = json.load(open('/tmp/ours_kf.json'))
try:
    theirs = json.load(open('/tmp/theirs_kf.json'))
except Exception:
    theirs = {'findings': []}
sig = lambda f: f['key']   # existing keys are never widened by a merge: edit KNOWN_FINDINGS.json by hand for that
have = {sig(f) for f in ours['findings']}
added = []
for f in theirs['findings']:
    if sig(f) not in have:
        ours['findings'].append(f); have.add(sig(f)); added.append(f['key'])
json.dump(ours, open('/verif/KNOWN_FINDINGS.json', 'w'), indent=1)
print('known-findings added:', added)
PY
python3 tools/gen_manifest.py
git add -A; git commit -qm "After merging $N: MANIFEST, KNOWN_FINDINGS" 2>/dev/null
git log --oneline | head -1
