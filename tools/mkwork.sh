#!/bin/bash
# mkwork.sh <name>: private copies of /verif and /repo for one builder under /work/<name>
set -e
W=/work/$1
mkdir -p /work
rm -rf "$W"
mkdir -p "$W"
git clone -q /verif "$W/verif"
git clone -q /repo "$W/repo"
git -C "$W/verif" checkout -q -b "work-$1"
git -C "$W/repo" checkout -q -b "work-$1"
git -C "$W/verif" config user.email builder@example.invalid; git -C "$W/verif" config user.name builder
git -C "$W/repo" config user.email builder@example.invalid; git -C "$W/repo" config user.name builder
echo "$W"
