#!/usr/bin/env python3
"""Print the prompt for a mutation-seeding agent for property <ID> (nothing from /verif's machinery)."""
import json, sys
pid = sys.argv[1]
n = sys.argv[2] if len(sys.argv) > 2 else '3'
p = [json.loads(l) for l in open('/verif/properties.jsonl') if json.loads(l)['id'] == pid][0]
wt = '/tmp/mut-%s' % pid
print(f"""You are testing how well a Go library's behaviour is pinned down. Work ONLY inside the git worktree {wt} (a checkout of the Go library matrix-org/gomatrixserverlib; do not read or touch any other directory except for temporary files under {wt}-scratch, which you create). No network. Go env per shell call: export GOFLAGS=-mod=mod GOPROXY=off GOSUMDB=off GOTOOLCHAIN=local

The property that must hold of the library:

TITLE: {p['title']}
STATEMENT: {p['statement']}
QUANTIFIED OVER: {p['quantifier']['text']}
RELEVANT FILES: {', '.join(p['anchors']['files'])}

Task: produce {n} different, independent, realistic changes to the library's non-test source (each as a separate patch against the current HEAD) that each BREAK this property while the library still compiles and its existing test-suite still passes (`go test -vet=off -count=1 ./...` in {wt} — run it, about a minute). Prefer changes that need something specific to manifest — an unusual input, a boundary value, a particular room version, a particular order or multi-step sequence of operations, a particular interleaving, or two cooperating sites that each look fine alone — not ones that ordinary use exposes at once. They should look like plausible slips or "harmless refactors" a developer could make (off-by-one, wrong operator, dropped list element or check, early loop exit, wrong field, swapped branch, stale cache, missing copy, integer conversion), not sabotage. Spread them over different functions/files of the property's area.

For each change i = 1..{n} write into {wt}-scratch/<i>/ : `patch.diff` (output of `git diff` for that change alone, applicable with `git apply` to a clean HEAD), a demonstration `demo_test.go` (a Go test file that can be dropped into the package directory named in meta.json: it must FAIL with the change applied and PASS on the clean HEAD; it may use unexported identifiers if it is in the package itself), and `meta.json` {{"property":"{pid}","package_dir": where demo_test.go goes (e.g. "." or "fclient"),"summary": one sentence,"needs_to_manifest": what specific input/sequence/version/interleaving triggers it,"ran": the commands you ran and their outcomes}}. Verify all of it yourself: clean HEAD -> suite passes and demo passes; patched -> suite passes (without the demo) and demo fails. Leave the worktree clean (git checkout -- . ; remove untracked files) when done. Final message: one line per change.""")
