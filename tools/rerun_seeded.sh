#!/bin/bash
# rerun_seeded.sh [ids...]: apply every stored seeded change to /repo, run the property's quick
# check, undo, and record the outcome as final_check_result in seeded/<id>/meta.json.
V=${VERIF_ROOT:-/verif}; R=${VERIF_REPO:-/repo}; export VERIF_REPO=$R VERIF_ROOT=$V
cd $V
ids="$@"; [ -z "$ids" ] && ids=$(ls seeded)
for id in $ids; do
  P=${id%%-*}
  patch=$V/seeded/$id/patch.diff
  cw=$(python3 -c "import json;print(json.load(open('$V/seeded/$id/meta.json')).get('check_with',''))")
  [ -n "$cw" ] && P=$cw
  [ -f seeded/$id/patch_ported_to_repaired_keyring.diff ] && { patch=$V/seeded/$id/patch_ported_to_repaired_keyring.diff; P=C12; }
  # the same change re-made on code that a later repair rewrote
  for pp in seeded/$id/patch_ported_to_repaired_*.diff; do [ -f "$pp" ] && patch=$V/$pp; done
  if ! git -C $R apply --check $patch 2>/dev/null; then
    if git -C $R apply --3way $patch >/dev/null 2>&1 && ! git -C $R status --short | grep -q "^U\|^.U"; then git -C $R reset -q; else git -C $R reset -q --hard HEAD;
      git -C $R checkout -q -- . ; res="patch no longer applies to the repaired tree (the code it changes was rewritten by a later fix)"; 
      python3 - "$id" "$res" <<'PY'
import json,sys,os
p=(os.environ.get('VERIF_ROOT') or '/verif')+'/seeded/%s/meta.json'%sys.argv[1]; m=json.load(open(p)); m[__import__('os').environ.get('RESULT_KEY','final_check_result')]=sys.argv[2]; json.dump(m,open(p,'w'),indent=1)
PY
      echo "$id: $res"; continue; fi
  else git -C $R apply $patch; fi
  VERIF_EVIDENCE_DIR=$V/build/seeded_evidence ./check $P --tier quick > build/rerun_$id.out 2>/dev/null; rc=$?
  git -C $R reset -q --hard HEAD
  v=$(grep '^VIOLATION' build/rerun_$id.out | head -1)
  first=$(grep -E '^\s+(PROP|PANIC|CORR|NO-LONGER)' build/rerun_$id.out | head -1 | awk '{print $1" "$3}' | tr -d ':')
  if [ $rc -eq 0 ]; then res="MISSED by ./check $P (exit 0)"; 
  elif echo "$v" | grep -q no-failing-input-found; then res="caught by ./check $P: VIOLATION no-failing-input-found ($first)";
  else res="caught by ./check $P: VIOLATION with concrete input ($first)"; fi
  python3 - "$id" "$res" <<'PY'
import json,sys,os
p=(os.environ.get('VERIF_ROOT') or '/verif')+'/seeded/%s/meta.json'%sys.argv[1]; m=json.load(open(p)); m[__import__('os').environ.get('RESULT_KEY','final_check_result')]=sys.argv[2]; json.dump(m,open(p,'w'),indent=1)
PY
  echo "$id: $res"
done
git -C $R status --short | head -3
