#!/bin/bash
# run_all.sh [tier]: run every claimed check sequentially and print a one-line summary each.
cd "$(dirname "$0")/.."
T=${1:-quick}
for P in $(python3 -c "import json; print(' '.join(c['property_id'] for c in json.load(open('MANIFEST.json'))['checks']))"); do
  s=$(date +%s)
  ./check $P --tier $T > build/all_$P.out 2> build/all_$P.err; rc=$?
  e=$(date +%s)
  echo "$P rc=$rc $((e-s))s $(grep -c '^KNOWN-FINDING' build/all_$P.out) known; $(grep '^VIOLATION' build/all_$P.out | head -1)"
done
