#!/bin/bash
# try_all_seeded.sh P1 P2 ...: for each property, run its check against /tmp/mut-P-scratch/{1,2,3}
cd /verif
for P in "$@"; do for i in 1 2 3 4; do
  [ -f /tmp/mut-$P-scratch/$i/patch.diff ] || continue
  echo "== $P-$i: $(python3 -c "import json;print(json.load(open('/tmp/mut-$P-scratch/$i/meta.json'))['summary'][:160])")"
  tools/try_seeded.sh $P /tmp/mut-$P-scratch/$i/patch.diff 2>&1 | cut -c1-400 | head -3
done; done
