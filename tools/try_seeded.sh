#!/bin/bash
# try_seeded.sh <PROP> <patch.diff> : apply to /repo, run quick check, undo. Prints the outcome.
set -u
P=$1; D=$2
cd /verif
git -C /repo apply "$D" || { echo "APPLY-FAILED $D"; exit 2; }
VERIF_EVIDENCE_DIR=/verif/build/seeded_evidence ./check $P --tier quick > build/seeded_$P.out 2>build/seeded_$P.err; rc=$?
git -C /repo checkout -- . 
echo "rc=$rc $(grep -c '^VIOLATION' build/seeded_$P.out) violation line(s): $(grep '^VIOLATION' build/seeded_$P.out | head -2)"
grep -E '^\s+(PROP|CORR|PANIC|NO-LONGER)' build/seeded_$P.out | head -3
