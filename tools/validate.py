#!/usr/bin/env python3
"""Validate MANIFEST.json and all evidence files against the schemas (python3-vt has jsonschema)."""
import json, sys, glob, jsonschema
m = json.load(open('/verif/MANIFEST.json'))
jsonschema.validate(m, json.load(open('/root/.vp/MANIFEST.schema.json')))
es = json.load(open('/root/.vp/EVIDENCE.schema.json'))
for f in sorted(glob.glob('/verif/evidence/*.json')):
    jsonschema.validate(json.load(open(f)), es)
ids = [json.loads(l)['id'] for l in open('/verif/properties.jsonl')]
claimed = [c['property_id'] for c in m['checks']]
na = [n['property_id'] for n in m.get('not_applicable', [])]
missing = [i for i in ids if i not in claimed and i not in na]
print('manifest ok; claimed %d, not_applicable %d, unlisted %s' % (len(claimed), len(na), missing))
