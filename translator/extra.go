package main

import (
	"fmt"
	"go/ast"
	"path/filepath"
	"strings"
)

// genExtra: further tables; extended as properties need them.
func genExtra(repo, out string) {
	genStrip(repo, out)
}

// genStrip: for each listed function, every `for _, key := range []string{...}` loop whose
// body calls sjson.DeleteBytes, in source order.
func genStrip(repo, out string) {
	root := load(repo)
	funcs := []string{"newEventFromUntrustedJSONV1", "newEventFromUntrustedJSONV2", "newEventFromUntrustedJSONV3",
		"checkEventContentHash", "addContentHashesToEvent", "referenceOfEvent"}
	var b strings.Builder
	b.WriteString(header)
	b.WriteString("(* (function, [key lists of its delete-loops in source order]) *)\n")
	b.WriteString("Definition gen_strip_lists : list (list N * list (list (list N))) :=\n  [")
	for i, fn := range funcs {
		fd := root.funcDecl(fn)
		if fd == nil {
			fail("function %s not found", fn)
		}
		var lists [][]string
		ast.Inspect(fd.Body, func(n ast.Node) bool {
			rs, ok := n.(*ast.RangeStmt)
			if !ok {
				return true
			}
			cl, ok := rs.X.(*ast.CompositeLit)
			if !ok {
				return true
			}
			at, ok := cl.Type.(*ast.ArrayType)
			if !ok {
				return true
			}
			if id, ok := at.Elt.(*ast.Ident); !ok || id.Name != "string" {
				return true
			}
			deletes := false
			ast.Inspect(rs.Body, func(m ast.Node) bool {
				if c, ok := m.(*ast.CallExpr); ok {
					if sel, ok := c.Fun.(*ast.SelectorExpr); ok && sel.Sel.Name == "DeleteBytes" {
						deletes = true
					}
				}
				return true
			})
			if !deletes {
				return true
			}
			var l []string
			for _, e := range cl.Elts {
				l = append(l, root.eval(e, 0).s)
			}
			lists = append(lists, l)
			return true
		})
		if i > 0 {
			b.WriteString(";\n   ")
		}
		fmt.Fprintf(&b, "(%s, (* %s *)\n    [", coqBytes(fn), fn)
		for j, l := range lists {
			if j > 0 {
				b.WriteString(";\n     ")
			}
			b.WriteString(strings.ReplaceAll(coqBytesList(l), "\n      ", " "))
			fmt.Fprintf(&b, " (* %s *)", strings.Join(l, ","))
		}
		b.WriteString("])")
	}
	b.WriteString("].\n")
	write(filepath.Join(out, "GenStrip.v"), b.String())
}
