package main

import (
	"fmt"
	"go/ast"
	"go/token"
	"go/types"
	"path/filepath"
	"strconv"
	"strings"
)

// C06: the literals and wiring of VerifyEventSignatures that the model (coq/Event/VerifySig.v)
// relies on, read from eventcrypto.go on every run -> Gen/GenC06.v.
func init() {
	registerGen(func(repo, out string) {
		root := load(repo)
		var b strings.Builder
		b.WriteString(header)

		v := root.constByName("RoomVersionPseudoIDs")
		fmt.Fprintf(&b, "Definition gen_c06_pseudoid_version : list N := %s.\n\n", coqBytes(v.s))

		// extractAuthorisedViaServerName: json.Unmarshal(content, &c) into a local struct with exactly
		// one field, tagged with the member name; any other shape (gjson, several fields, no tag) fails
		ex := root.funcDecl("extractAuthorisedViaServerName")
		if ex == nil {
			fail("extractAuthorisedViaServerName not found")
		}
		key, ftype, fname, nstructs, nunmarshal, ngjson := "", "", "", 0, 0, 0
		ast.Inspect(ex.Body, func(n ast.Node) bool {
			switch x := n.(type) {
			case *ast.StructType:
				nstructs++
				if x.Fields == nil || len(x.Fields.List) != 1 || len(x.Fields.List[0].Names) != 1 || x.Fields.List[0].Tag == nil {
					fail("extractAuthorisedViaServerName: expected a struct with exactly one tagged field")
				}
				f := x.Fields.List[0]
				tag, err := strconv.Unquote(f.Tag.Value)
				if err != nil {
					fail("extractAuthorisedViaServerName: struct tag %s", f.Tag.Value)
				}
				const pre = `json:"`
				if !strings.HasPrefix(tag, pre) || !strings.HasSuffix(tag, `"`) {
					fail("extractAuthorisedViaServerName: unexpected struct tag %s", tag)
				}
				key = tag[len(pre) : len(tag)-1]
				if strings.Contains(key, ",") {
					fail("extractAuthorisedViaServerName: tag options are not modelled: %s", tag)
				}
				ftype = c06Expr(f.Type)
				fname = f.Names[0].Name
			case *ast.CallExpr:
				if sel, ok := x.Fun.(*ast.SelectorExpr); ok {
					if id, ok := sel.X.(*ast.Ident); ok && id.Name == "gjson" {
						ngjson++
					}
					if id, ok := sel.X.(*ast.Ident); ok && id.Name == "json" && sel.Sel.Name == "Unmarshal" {
						nunmarshal++
						if len(x.Args) != 2 || c06Expr(x.Args[0]) != "content" {
							fail("extractAuthorisedViaServerName: json.Unmarshal is not applied to content")
						}
					}
				}
			}
			return true
		})
		if nstructs != 1 || nunmarshal != 1 || ngjson != 0 {
			fail("extractAuthorisedViaServerName: expected exactly one local struct decoded by one json.Unmarshal(content, ...) and no gjson call (structs=%d unmarshal=%d gjson=%d)", nstructs, nunmarshal, ngjson)
		}
		fmt.Fprintf(&b, "Definition gen_c06_authorised_via_key : list N := %s.\n", coqBytes(key))
		fmt.Fprintf(&b, "(* Go type and name of the field the member is decoded into *)\nDefinition gen_c06_authorised_via_type : list N := %s.\nDefinition gen_c06_authorised_via_field : list N := %s.\n\n", coqBytes(ftype), coqBytes(fname))
		// every condition of an if statement of the function, in source order (the guard on the
		// decoded value is one of them)
		var conds []string
		ast.Inspect(ex.Body, func(n ast.Node) bool {
			if is, ok := n.(*ast.IfStmt); ok {
				conds = append(conds, c06Expr(is.Cond))
			}
			return true
		})
		fmt.Fprintf(&b, "Definition gen_c06_authorised_via_conditions : list (list N) := %s.\n\n", coqBytesList(conds))

		// SplitID calls: (function, sigil, argument) in source order
		b.WriteString("Definition gen_c06_splitid_calls : list (list N * N * list N) :=\n  [")
		first := true
		for _, fn := range []string{"VerifyEventSignatures", "extractAuthorisedViaServerName"} {
			fd := root.funcDecl(fn)
			if fd == nil {
				fail("%s not found", fn)
			}
			ast.Inspect(fd.Body, func(n ast.Node) bool {
				c, ok := n.(*ast.CallExpr)
				if !ok {
					return true
				}
				id, ok := c.Fun.(*ast.Ident)
				if !ok || id.Name != "SplitID" || len(c.Args) != 2 {
					return true
				}
				lit, ok := c.Args[0].(*ast.BasicLit)
				if !ok || lit.Kind != token.CHAR {
					fail("%s: SplitID sigil is not a character literal", fn)
				}
				ch, _, _, err := strconv.UnquoteChar(lit.Value[1:len(lit.Value)-1], '\'')
				if err != nil {
					fail("%s: SplitID sigil %s", fn, lit.Value)
				}
				if !first {
					b.WriteString(";\n   ")
				}
				first = false
				fmt.Fprintf(&b, "(%s, %d%%N, %s) (* %s: SplitID(%s, %s) *)", coqBytes(fn), ch, coqBytes(c06Expr(c.Args[1])), fn, lit.Value, c06Expr(c.Args[1]))
				return true
			})
		}
		b.WriteString("].\n\n")

		// the VerifyJSONRequest literal of VerifyEventSignatures and where its message comes from
		fd := root.funcDecl("VerifyEventSignatures")
		var fields [][2]string
		nlit := 0
		msgSrc := ""
		ast.Inspect(fd.Body, func(n ast.Node) bool {
			switch x := n.(type) {
			case *ast.CompositeLit:
				if id, ok := x.Type.(*ast.Ident); ok && id.Name == "VerifyJSONRequest" {
					nlit++
					for _, el := range x.Elts {
						kv, ok := el.(*ast.KeyValueExpr)
						if !ok {
							fail("VerifyJSONRequest literal without field names")
						}
						fields = append(fields, [2]string{c06Expr(kv.Key), c06Expr(kv.Value)})
					}
				}
			case *ast.AssignStmt:
				if len(x.Lhs) >= 1 && len(x.Rhs) == 1 {
					if id, ok := x.Lhs[0].(*ast.Ident); ok && id.Name == "redactedJSON" {
						msgSrc += c06Expr(x.Rhs[0]) + ";"
					}
				}
			}
			return true
		})
		if nlit != 1 {
			fail("VerifyEventSignatures: expected exactly one VerifyJSONRequest literal, found %d", nlit)
		}
		b.WriteString("Definition gen_c06_request_fields : list (list N * list N) :=\n  [")
		for i, f := range fields {
			if i > 0 {
				b.WriteString(";\n   ")
			}
			fmt.Fprintf(&b, "(%s, %s) (* %s: %s *)", coqBytes(f[0]), coqBytes(f[1]), f[0], f[1])
		}
		b.WriteString("].\n\n")
		fmt.Fprintf(&b, "(* every assignment to redactedJSON in VerifyEventSignatures *)\nDefinition gen_c06_message_source : list N := %s.\n", coqBytes(msgSrc))
		write(filepath.Join(out, "GenC06.v"), b.String())
	})
}

func c06Expr(e ast.Expr) string { return types.ExprString(e) }
