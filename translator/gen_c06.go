package main

import (
	"fmt"
	"go/ast"
	"go/token"
	"go/types"
	"path/filepath"
	"strconv"
	"strings"
)

// C06: the literals and wiring of VerifyEventSignatures that the model (coq/Event/VerifySig.v)
// relies on, read from eventcrypto.go on every run -> Gen/GenC06.v.
func init() {
	registerGen(func(repo, out string) {
		root := load(repo)
		var b strings.Builder
		b.WriteString(header)

		v := root.constByName("RoomVersionPseudoIDs")
		fmt.Fprintf(&b, "Definition gen_c06_pseudoid_version : list N := %s.\n\n", coqBytes(v.s))

		// gjson path read by extractAuthorisedViaServerName
		ex := root.funcDecl("extractAuthorisedViaServerName")
		if ex == nil {
			fail("extractAuthorisedViaServerName not found")
		}
		key, nkeys := "", 0
		ast.Inspect(ex.Body, func(n ast.Node) bool {
			if c, ok := n.(*ast.CallExpr); ok {
				if sel, ok := c.Fun.(*ast.SelectorExpr); ok && sel.Sel.Name == "GetBytes" && len(c.Args) == 2 {
					if lit, ok := c.Args[1].(*ast.BasicLit); ok && lit.Kind == token.STRING {
						key, _ = strconv.Unquote(lit.Value)
						nkeys++
					}
				}
			}
			return true
		})
		if nkeys != 1 {
			fail("extractAuthorisedViaServerName: expected exactly one gjson.GetBytes(content, <literal>)")
		}
		fmt.Fprintf(&b, "Definition gen_c06_authorised_via_key : list N := %s.\n\n", coqBytes(key))

		// SplitID calls: (function, sigil, argument) in source order
		b.WriteString("Definition gen_c06_splitid_calls : list (list N * N * list N) :=\n  [")
		first := true
		for _, fn := range []string{"VerifyEventSignatures", "extractAuthorisedViaServerName"} {
			fd := root.funcDecl(fn)
			if fd == nil {
				fail("%s not found", fn)
			}
			ast.Inspect(fd.Body, func(n ast.Node) bool {
				c, ok := n.(*ast.CallExpr)
				if !ok {
					return true
				}
				id, ok := c.Fun.(*ast.Ident)
				if !ok || id.Name != "SplitID" || len(c.Args) != 2 {
					return true
				}
				lit, ok := c.Args[0].(*ast.BasicLit)
				if !ok || lit.Kind != token.CHAR {
					fail("%s: SplitID sigil is not a character literal", fn)
				}
				ch, _, _, err := strconv.UnquoteChar(lit.Value[1:len(lit.Value)-1], '\'')
				if err != nil {
					fail("%s: SplitID sigil %s", fn, lit.Value)
				}
				if !first {
					b.WriteString(";\n   ")
				}
				first = false
				fmt.Fprintf(&b, "(%s, %d%%N, %s) (* %s: SplitID(%s, %s) *)", coqBytes(fn), ch, coqBytes(c06Expr(c.Args[1])), fn, lit.Value, c06Expr(c.Args[1]))
				return true
			})
		}
		b.WriteString("].\n\n")

		// the VerifyJSONRequest literal of VerifyEventSignatures and where its message comes from
		fd := root.funcDecl("VerifyEventSignatures")
		var fields [][2]string
		nlit := 0
		msgSrc := ""
		ast.Inspect(fd.Body, func(n ast.Node) bool {
			switch x := n.(type) {
			case *ast.CompositeLit:
				if id, ok := x.Type.(*ast.Ident); ok && id.Name == "VerifyJSONRequest" {
					nlit++
					for _, el := range x.Elts {
						kv, ok := el.(*ast.KeyValueExpr)
						if !ok {
							fail("VerifyJSONRequest literal without field names")
						}
						fields = append(fields, [2]string{c06Expr(kv.Key), c06Expr(kv.Value)})
					}
				}
			case *ast.AssignStmt:
				if len(x.Lhs) >= 1 && len(x.Rhs) == 1 {
					if id, ok := x.Lhs[0].(*ast.Ident); ok && id.Name == "redactedJSON" {
						msgSrc += c06Expr(x.Rhs[0]) + ";"
					}
				}
			}
			return true
		})
		if nlit != 1 {
			fail("VerifyEventSignatures: expected exactly one VerifyJSONRequest literal, found %d", nlit)
		}
		b.WriteString("Definition gen_c06_request_fields : list (list N * list N) :=\n  [")
		for i, f := range fields {
			if i > 0 {
				b.WriteString(";\n   ")
			}
			fmt.Fprintf(&b, "(%s, %s) (* %s: %s *)", coqBytes(f[0]), coqBytes(f[1]), f[0], f[1])
		}
		b.WriteString("].\n\n")
		fmt.Fprintf(&b, "(* every assignment to redactedJSON in VerifyEventSignatures *)\nDefinition gen_c06_message_source : list N := %s.\n", coqBytes(msgSrc))
		write(filepath.Join(out, "GenC06.v"), b.String())
	})
}

func c06Expr(e ast.Expr) string { return types.ExprString(e) }
