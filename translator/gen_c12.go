package main

// C12: constants and comparison operators of keyring.go / keys.go, emitted as Gen/GenC12.v.
// Props/C12.v proves that each equals the constant the model uses, so an edit of the source
// (another cap, another prefix, < turned into <=, another instant handed to CheckKeys) breaks a proof.

import (
	"bytes"
	"fmt"
	"go/ast"
	"go/printer"
	"go/token"
	"path/filepath"
	"strconv"
	"strings"
)

var c12Durations = map[string]int64{"Nanosecond": 1, "Microsecond": 1e3, "Millisecond": 1e6, "Second": 1e9, "Minute": 60e9, "Hour": 3600e9}

func c12Eval(e ast.Expr) int64 {
	switch x := e.(type) {
	case *ast.BasicLit:
		if x.Kind == token.INT {
			n, err := strconv.ParseInt(x.Value, 0, 64)
			if err != nil {
				fail("C12: int literal %s", x.Value)
			}
			return n
		}
	case *ast.ParenExpr:
		return c12Eval(x.X)
	case *ast.SelectorExpr:
		if id, ok := x.X.(*ast.Ident); ok && id.Name == "time" {
			if d, ok := c12Durations[x.Sel.Name]; ok {
				return d
			}
		}
	case *ast.CallExpr: // conversion T(x)
		if len(x.Args) == 1 {
			return c12Eval(x.Args[0])
		}
	case *ast.BinaryExpr:
		a, b := c12Eval(x.X), c12Eval(x.Y)
		switch x.Op {
		case token.ADD:
			return a + b
		case token.SUB:
			return a - b
		case token.MUL:
			return a * b
		case token.QUO:
			return a / b
		case token.SHL:
			return a << uint(b)
		}
	}
	fail("C12: unsupported constant expression %s", c12Str(e))
	return 0
}

// source text of an expression
func c12Str(e ast.Node) string {
	var buf bytes.Buffer
	if err := printer.Fprint(&buf, token.NewFileSet(), e); err != nil {
		fail("C12: cannot print expression: %v", err)
	}
	return buf.String()
}

// time.Unix(sec, nsec) as nanoseconds
func c12UnixNs(e ast.Expr) int64 {
	c, ok := e.(*ast.CallExpr)
	if !ok || len(c.Args) != 2 || c12Str(c.Fun) != "time.Unix" {
		fail("C12: expected time.Unix(sec, nsec), found %s", c12Str(e))
	}
	return c12Eval(c.Args[0])*1e9 + c12Eval(c.Args[1])
}

func c12Calls(body ast.Node, name string) []*ast.CallExpr {
	var r []*ast.CallExpr
	ast.Inspect(body, func(n ast.Node) bool {
		if c, ok := n.(*ast.CallExpr); ok {
			s := c12Str(c.Fun)
			if s == name || strings.HasSuffix(s, "."+name) {
				r = append(r, c)
			}
		}
		return true
	})
	return r
}

// the comparison whose operands render as l and r
func c12Op(body ast.Node, l, r string) string {
	var ops []string
	ast.Inspect(body, func(n ast.Node) bool {
		if b, ok := n.(*ast.BinaryExpr); ok && c12Str(b.X) == l && c12Str(b.Y) == r {
			ops = append(ops, b.Op.String())
		}
		return true
	})
	if len(ops) != 1 {
		fail("C12: expected exactly one comparison of %s with %s, found %d", l, r, len(ops))
	}
	return ops[0]
}

func init() {
	registerGen(func(repo, out string) {
		root := load(repo)
		need := func(fd *ast.FuncDecl, what string) *ast.FuncDecl {
			if fd == nil {
				fail("C12: %s not found", what)
			}
			return fd
		}
		var b strings.Builder
		b.WriteString(header)
		zc := func(name string, v int64) { fmt.Fprintf(&b, "Definition %s : Z := %s.\n", name, coqZ(v)) }
		sc := func(name, v string) { fmt.Fprintf(&b, "Definition %s : list N := %s.\n", name, coqBytes(v)) }

		// StrictValiditySignatureCheck: time.Now().Add(<cap>)
		strict := need(root.funcDecl("StrictValiditySignatureCheck"), "StrictValiditySignatureCheck")
		adds := c12Calls(strict.Body, "Add")
		if len(adds) != 1 || len(adds[0].Args) != 1 {
			fail("C12: StrictValiditySignatureCheck: expected one Add call")
		}
		zc("gen_c12_strict_cap_ns", c12Eval(adds[0].Args[0]))
		sc("gen_c12_strict_novalidity_op", c12Op(strict.Body, "validUntil", "PublicKeyNotValid"))
		// does the rule compare time.Time values obtained through Timestamp.Time() (int64), or the
		// uint64 millisecond values themselves (finding F62)?
		fmt.Fprintf(&b, "Definition gen_c12_strict_unsigned : bool := %v.\n", len(c12Calls(strict.Body, "Time")) == 0)

		// ListKeyIDs: is the whole signatures object decoded, or only the named entity's entry?
		lk := need(root.funcDecl("ListKeyIDs"), "ListKeyIDs")
		fmt.Fprintf(&b, "Definition gen_c12_signatures_per_entry : bool := %v.\n",
			!strings.Contains(strings.Join(strings.Fields(c12Str(lk.Body)), ""), "map[string]map[KeyID]json.RawMessage"))

		// magic values
		for _, n := range []string{"PublicKeyNotExpired", "PublicKeyNotValid"} {
			e, _, _, _ := root.valueSpec(n)
			if e == nil {
				fail("C12: constant %s not found", n)
			}
			zc("gen_c12_"+strings.ToLower(n), c12Eval(e))
		}

		// isAlgorithmSupported: strings.HasPrefix(string(keyID), <prefix>)
		alg := need(root.method("KeyRing", "isAlgorithmSupported"), "KeyRing.isAlgorithmSupported")
		hp := c12Calls(alg.Body, "HasPrefix")
		if len(hp) != 1 || len(hp[0].Args) != 2 {
			fail("C12: isAlgorithmSupported: expected one HasPrefix call")
		}
		sc("gen_c12_supported_prefix", root.eval(hp[0].Args[1], 0).s)

		// comparisons
		wva := need(root.method("PublicKeyLookupResult", "WasValidAt"), "WasValidAt")
		sc("gen_c12_expired_op", c12Op(wva.Body, "atTs", "r.ExpiredTS"))
		sc("gen_c12_expired_test_op", c12Op(wva.Body, "r.ExpiredTS", "PublicKeyNotExpired"))
		vjs := need(root.method("KeyRing", "VerifyJSONs"), "KeyRing.VerifyJSONs")
		sc("gen_c12_refetch_op", c12Op(vjs.Body, "now", "res.ValidUntilTS"))
		sc("gen_c12_first_pass_op", c12Op(vjs.Body, "len(keysFetched)", "numRequests"))
		pkr := need(root.method("KeyRing", "publicKeyRequests"), "KeyRing.publicKeyRequests")
		sc("gen_c12_maxts_op", c12Op(pkr.Body, "maxTS", "requests[i].AtTS"))

		// the instant the fetchers hand to CheckKeys
		var nows []int64
		for _, fn := range []struct{ recv, name string }{{"PerspectiveKeyFetcher", "FetchKeys"}, {"DirectKeyFetcher", "fetchKeysForServer"}, {"DirectKeyFetcher", "fetchNotaryKeysForServer"}} {
			fd := need(root.method(fn.recv, fn.name), fn.recv+"."+fn.name)
			cs := c12Calls(fd.Body, "CheckKeys")
			if len(cs) != 1 || len(cs[0].Args) != 3 {
				fail("C12: %s.%s: expected one CheckKeys call", fn.recv, fn.name)
			}
			nows = append(nows, c12UnixNs(cs[0].Args[1]))
		}
		fmt.Fprintf(&b, "Definition gen_c12_fetcher_checkkeys_now_ns : list Z := [%s; %s; %s].\n", coqZ(nows[0]), coqZ(nows[1]), coqZ(nows[2]))

		// CheckKeys / checkVerifyKeys
		ck := need(root.funcDecl("CheckKeys"), "CheckKeys")
		after := c12Calls(ck.Body, "After")
		if len(after) != 1 || c12Str(after[0].Fun) != "keys.ValidUntilTS.Time().After" || c12Str(after[0].Args[0]) != "now" {
			fail("C12: CheckKeys: expected keys.ValidUntilTS.Time().After(now)")
		}
		cvk := need(root.funcDecl("checkVerifyKeys"), "checkVerifyKeys")
		var algName string
		var keyLen int64 = -1
		ast.Inspect(cvk.Body, func(n ast.Node) bool {
			if be, ok := n.(*ast.BinaryExpr); ok && be.Op == token.EQL {
				switch c12Str(be.X) {
				case "algorithm":
					algName = root.eval(be.Y, 0).s
				case "len(publicKey)":
					keyLen = c12Eval(be.Y)
				}
			}
			return true
		})
		sc("gen_c12_checkkeys_algorithm", algName)
		zc("gen_c12_checkkeys_key_length", keyLen)

		// the validity the direct fetcher gives the local server's own key
		dfk := need(root.method("DirectKeyFetcher", "FetchKeys"), "DirectKeyFetcher.FetchKeys")
		var local int64 = -1
		for _, c := range c12Calls(dfk.Body, "AsTimestamp") {
			if len(c.Args) == 1 {
				u, ok := c.Args[0].(*ast.CallExpr)
				if !ok || len(u.Args) != 2 || c12Str(u.Fun) != "time.Unix" {
					fail("C12: DirectKeyFetcher.FetchKeys: expected AsTimestamp(time.Unix(sec, nsec))")
				}
				local = c12Eval(u.Args[0])*1000 + c12Eval(u.Args[1])/1e6
			}
		}
		zc("gen_c12_local_key_valid_until_ms", local)

		write(filepath.Join(out, "GenC12.v"), b.String())
	})
}
