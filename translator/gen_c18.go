package main

// gen_c18: enumerate, with full type information, every expression of the library (non-test
// files of the packages root, spec, fclient, tokens) that can panic at run time by itself:
//   index   x[i]      on a slice / array / string / pointer-to-array operand
//   slice   x[a:b]    on a slice / string / array operand
//   assert  x.(T)     single-result type assertion
//   panic   panic(..) explicit call of the builtin
//   fieldcall  v.f(..) call through a func-typed struct FIELD (nil unless set, cf. roomVersionMeta)
// Output: coq/Gen/GenSites.v  gen_sites : list (pkg/file, function, kind, expression text, count).
// Line numbers are deliberately not part of the identity of a site.

import (
	"bytes"
	"crypto/sha256"
	"fmt"
	"go/ast"
	"go/importer"
	"go/parser"
	"go/printer"
	"go/token"
	"go/types"
	"os"
	"path/filepath"
	"sort"
	"strings"
)

func init() { registerGen(genSites) }

type site struct{ file, fn, kind, expr string }

func genSites(repo, out string) {
	pkgs := []string{"", "spec", "fclient", "tokens"}
	// type-checking takes several seconds: skip it when no source file of these packages changed
	h := sha256.New()
	h.Write([]byte("site kinds v3 (m[k]++): index slice assert panic fieldcall deref mapwrite\n"))
	for _, sub := range pkgs {
		ents, _ := os.ReadDir(filepath.Join(repo, sub))
		for _, e := range ents {
			n := e.Name()
			if e.IsDir() || !strings.HasSuffix(n, ".go") || strings.HasSuffix(n, "_test.go") || strings.HasPrefix(n, "zz_verif") {
				continue
			}
			b, _ := os.ReadFile(filepath.Join(repo, sub, n))
			fmt.Fprintf(h, "%s/%s %d\n", sub, n, len(b))
			h.Write(b)
		}
	}
	sum := fmt.Sprintf("%x", h.Sum(nil))
	stamp := filepath.Join(out, ".sites.stamp")
	if old, err := os.ReadFile(stamp); err == nil && string(old) == sum {
		if _, err := os.Stat(filepath.Join(out, "GenSites.v")); err == nil {
			return
		}
	}
	defer func() { _ = os.WriteFile(stamp, []byte(sum), 0o644) }()
	counts := map[site]int{}
	cwd, _ := os.Getwd()
	defer os.Chdir(cwd)
	for _, sub := range pkgs {
		dir := filepath.Join(repo, sub)
		if err := os.Chdir(dir); err != nil {
			fail("chdir %s: %v", dir, err)
		}
		fset := token.NewFileSet()
		parsed, err := parser.ParseDir(fset, ".", func(fi os.FileInfo) bool {
			return !strings.HasSuffix(fi.Name(), "_test.go") && !strings.HasPrefix(fi.Name(), "zz_verif")
		}, 0)
		if err != nil {
			fail("parse %s: %v", dir, err)
		}
		for name, p := range parsed {
			var files []*ast.File
			var names []string
			for n := range p.Files {
				names = append(names, n)
			}
			sort.Strings(names)
			for _, n := range names {
				files = append(files, p.Files[n])
			}
			var terrs []string
			conf := types.Config{Importer: importer.ForCompiler(fset, "source", nil), Error: func(err error) { terrs = append(terrs, err.Error()) }}
			info := &types.Info{Types: map[ast.Expr]types.TypeAndValue{}, Selections: map[*ast.SelectorExpr]*types.Selection{}, Uses: map[*ast.Ident]types.Object{}}
			_, _ = conf.Check(name, fset, files, info)
			if len(terrs) > 0 {
				fail("type-checking %s: %s", dir, terrs[0])
			}
			for i, f := range files {
				fname := filepath.Join(sub, filepath.Base(names[i]))
				collect(fset, info, f, fname, counts)
			}
		}
	}
	var sites []site
	for s := range counts {
		sites = append(sites, s)
	}
	sort.Slice(sites, func(i, j int) bool {
		a, b := sites[i], sites[j]
		if a.file != b.file {
			return a.file < b.file
		}
		if a.fn != b.fn {
			return a.fn < b.fn
		}
		if a.kind != b.kind {
			return a.kind < b.kind
		}
		return a.expr < b.expr
	})
	var b strings.Builder
	b.WriteString(header)
	b.WriteString("(* (file, function, kind, expression, multiplicity) of every expression that can panic by itself *)\n")
	b.WriteString("Definition gen_sites : list (list N * list N * list N * list N * N) :=\n  [")
	for i, s := range sites {
		if i > 0 {
			b.WriteString(";\n   ")
		}
		fmt.Fprintf(&b, "(%s, %s, %s, %s, %d%%N) (* %s | %s | %s | %s *)", coqBytes(s.file), coqBytes(s.fn), coqBytes(s.kind), coqBytes(s.expr), counts[s],
			s.file, s.fn, s.kind, strings.ReplaceAll(strings.ReplaceAll(strings.ReplaceAll(s.expr, "*)", "* )"), "(*", "( *"), "\"", "'"))
	}
	b.WriteString("].\n")
	write(filepath.Join(out, "GenSites.v"), b.String())
	// plain-text listing for the humans who maintain the classification table
	var t strings.Builder
	for _, s := range sites {
		fmt.Fprintf(&t, "%s\t%s\t%s\t%s\t%d\n", s.file, s.fn, s.kind, s.expr, counts[s])
	}
	write(filepath.Join(out, "sites.tsv"), t.String())
}

func exprText(fset *token.FileSet, e ast.Expr) string {
	var buf bytes.Buffer
	_ = printer.Fprint(&buf, fset, e)
	s := strings.Join(strings.Fields(buf.String()), " ")
	if len(s) > 120 {
		s = s[:120]
	}
	return s
}

func collect(fset *token.FileSet, info *types.Info, f *ast.File, fname string, counts map[site]int) {
	for _, d := range f.Decls {
		fd, ok := d.(*ast.FuncDecl)
		var body ast.Node = d
		fn := "(package level)"
		if ok {
			if fd.Body == nil {
				continue
			}
			body = fd.Body
			fn = fd.Name.Name
			if fd.Recv != nil && len(fd.Recv.List) == 1 {
				fn = exprText(fset, fd.Recv.List[0].Type) + "." + fn
			}
		}
		okAsserts := map[*ast.TypeAssertExpr]bool{}
		ast.Inspect(body, func(n ast.Node) bool {
			switch x := n.(type) {
			case *ast.AssignStmt:
				if len(x.Lhs) == 2 && len(x.Rhs) == 1 {
					if ta, ok := x.Rhs[0].(*ast.TypeAssertExpr); ok {
						okAsserts[ta] = true
					}
				}
			case *ast.ValueSpec:
				if len(x.Names) == 2 && len(x.Values) == 1 {
					if ta, ok := x.Values[0].(*ast.TypeAssertExpr); ok {
						okAsserts[ta] = true
					}
				}
			case *ast.TypeSwitchStmt:
				ast.Inspect(x.Assign, func(m ast.Node) bool {
					if ta, ok := m.(*ast.TypeAssertExpr); ok {
						okAsserts[ta] = true
					}
					return true
				})
			}
			return true
		})
		add := func(kind string, e ast.Expr) {
			counts[site{fname, fn, kind, exprText(fset, e)}]++
		}
		ast.Inspect(body, func(n ast.Node) bool {
			switch x := n.(type) {
			case *ast.IndexExpr:
				if tv, ok := info.Types[x.X]; ok && tv.Type != nil {
					switch u := tv.Type.Underlying().(type) {
					case *types.Slice, *types.Array:
						add("index", x)
					case *types.Basic:
						if u.Info()&types.IsString != 0 {
							add("index", x)
						}
					case *types.Pointer:
						if _, ok := u.Elem().Underlying().(*types.Array); ok {
							add("index", x)
						}
					}
				}
			case *ast.SliceExpr:
				// x[:] and x[:0] cannot fail
				if x.Low == nil && x.High == nil {
					return true
				}
				if x.Low == nil && x.Max == nil {
					if bl, ok := x.High.(*ast.BasicLit); ok && bl.Value == "0" {
						return true
					}
				}
				add("slice", x)
			case *ast.StarExpr:
				// explicit dereference of a pointer value (not the pointer type *T)
				if tv, ok := info.Types[x]; ok && tv.IsValue() {
					add("deref", x)
				}
			case *ast.AssignStmt:
				// m[k] = v panics on a nil map
				for _, l := range x.Lhs {
					if ix, ok := l.(*ast.IndexExpr); ok {
						if tv, ok := info.Types[ix.X]; ok && tv.Type != nil {
							if _, isMap := tv.Type.Underlying().(*types.Map); isMap {
								add("mapwrite", ix)
							}
						}
					}
				}
			case *ast.IncDecStmt:
				// m[k]++ / m[k]-- write into the map too
				if ix, ok := x.X.(*ast.IndexExpr); ok {
					if tv, ok := info.Types[ix.X]; ok && tv.Type != nil {
						if _, isMap := tv.Type.Underlying().(*types.Map); isMap {
							add("mapwrite", ix)
						}
					}
				}
			case *ast.TypeAssertExpr:
				if x.Type != nil && !okAsserts[x] {
					add("assert", x)
				}
			case *ast.CallExpr:
				if id, ok := x.Fun.(*ast.Ident); ok && id.Name == "panic" {
					if _, isBuiltin := info.Uses[id].(*types.Builtin); isBuiltin {
						add("panic", x)
					}
				}
				if sel, ok := x.Fun.(*ast.SelectorExpr); ok {
					if s, ok := info.Selections[sel]; ok && s.Kind() == types.FieldVal {
						if _, isFunc := s.Type().Underlying().(*types.Signature); isFunc {
							add("fieldcall", x.Fun)
						}
					}
				}
			}
			return true
		})
	}
}
