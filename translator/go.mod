module veriftranslator

go 1.23
